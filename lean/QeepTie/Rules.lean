import QeepGen.Rules
/-!
# The generated definitions (QeepGen/Gen.lean, regenerated from /repo's Go source by /verif/xlate on every check run)
# coincide with the hand-written model (Qeep/*.lean) that the property theorems are about.

Every equation below is closed by `rfl` (definitional unfolding) or by unfolding plus case analysis: they are
kernel-checked statements that the TEXT of the Go function, read through the translator's table
(Go method ↦ model primitive), is the model's definition.
-/
namespace Qeep.Tie
open Scalar

variable {α : Type} [Scalar α]

/-- the model's edges, seen as (target, pullback applied to an upstream gradient) -/
def ruleView (bm : BMode) (H : Heap α) (gy : Tensor α) (es : List (Edge α)) : List (Nat × Out (Tensor α)) :=
  es.map (fun e => (e.target, evalRule bm H gy e.rule))
/-- the generated edges, seen the same way -/
def genView (gy : Tensor α) (es : List (Nat × (Tensor α → Out (Tensor α)))) : List (Nat × Out (Tensor α)) :=
  es.map (fun e => (e.1, e.2 gy))

section rules
variable (bm : BMode) (H : Heap α) (gy : Tensor α) (y x a b p : Nat) (dim : Nat) (c : α) (index : List IRange)

theorem helpers_toZeros (t : Tensor α) : Gen.toZeros t = vScale t zero := rfl
theorem helpers_toOnes (t : Tensor α) : Gen.toOnes t = vPow t zero := rfl
theorem helpers_reducerBroadcasted (t : Tensor α) (xd : List Nat) :
    Gen.reducerBroadcasted t xd dim = Qeep.reducerBroadcasted t xd dim := by
  unfold Gen.reducerBroadcasted Qeep.reducerBroadcasted
  cases vUnSqueeze t dim <;> simp [bind, Out.bind]

/-- closes a rule equation: definitional unfolding, or unfolding with the helper equations -/
macro "tie_rule" : tactic =>
  `(tactic| first | rfl | (simp only [genView, ruleView, List.map, evalRule, helpers_reducerBroadcasted,
      helpers_toZeros, helpers_toOnes]; rfl))

theorem rule_Slice : genView gy (Gen.Slice_edges H y x index) = ruleView bm H gy [⟨x, .sliceX x index⟩] := by tie_rule
theorem rule_Patch : genView gy (Gen.Patch_edges H y x p index)
    = ruleView bm H gy [⟨x, .patchX p index⟩, ⟨p, .patchP p index⟩] := by tie_rule
theorem rule_Transpose : genView gy (Gen.Transpose_edges H y x) = ruleView bm H gy [⟨x, .transposeX⟩] := by tie_rule
theorem rule_Reshape : genView gy (Gen.Reshape_edges H y x) = ruleView bm H gy [⟨x, .reshapeX x⟩] := by tie_rule
theorem rule_UnSqueeze : genView gy (Gen.UnSqueeze_edges H y x) = ruleView bm H gy [⟨x, .reshapeX x⟩] := by tie_rule
theorem rule_Squeeze : genView gy (Gen.Squeeze_edges H y x) = ruleView bm H gy [⟨x, .reshapeX x⟩] := by tie_rule
theorem rule_Flatten : genView gy (Gen.Flatten_edges H y x) = ruleView bm H gy [⟨x, .reshapeX x⟩] := by tie_rule
theorem rule_SumAlong : genView gy (Gen.SumAlong_edges H y x dim) = ruleView bm H gy [⟨x, .sumAlongX x dim⟩] := by tie_rule
theorem rule_MaxAlong : genView gy (Gen.MaxAlong_edges H y x dim) = ruleView bm H gy [⟨x, .extAlongX x y dim⟩] := by tie_rule
theorem rule_MinAlong : genView gy (Gen.MinAlong_edges H y x dim) = ruleView bm H gy [⟨x, .extAlongX x y dim⟩] := by tie_rule
theorem rule_AvgAlong : genView gy (Gen.AvgAlong_edges H y x dim) = ruleView bm H gy [⟨x, .avgAlongX x dim⟩] := by tie_rule
theorem rule_MeanAlong : genView gy (Gen.MeanAlong_edges H y x dim) = ruleView bm H gy [⟨x, .avgAlongX x dim⟩] := by tie_rule
theorem rule_VarAlong : genView gy (Gen.VarAlong_edges H y x dim) = ruleView bm H gy [⟨x, .varAlongX x dim⟩] := by tie_rule
theorem rule_StdAlong : genView gy (Gen.StdAlong_edges H y x dim) = ruleView bm H gy [⟨x, .stdAlongX x y dim⟩] := by tie_rule
theorem rule_Scale : genView gy (Gen.Scale_edges H y x c) = ruleView bm H gy [⟨x, .scaleX c⟩] := by tie_rule
theorem rule_Pow : genView gy (Gen.Pow_edges H y x c) = ruleView bm H gy [⟨x, .powX x c⟩] := by tie_rule
theorem rule_Exp : genView gy (Gen.Exp_edges H y x) = ruleView bm H gy [⟨x, .expX y⟩] := by tie_rule
theorem rule_Log : genView gy (Gen.Log_edges H y x) = ruleView bm H gy [⟨x, .logX x⟩] := by tie_rule
theorem rule_Sin : genView gy (Gen.Sin_edges H y x) = ruleView bm H gy [⟨x, .sinX x⟩] := by tie_rule
theorem rule_Cos : genView gy (Gen.Cos_edges H y x) = ruleView bm H gy [⟨x, .cosX x⟩] := by tie_rule
theorem rule_Tan : genView gy (Gen.Tan_edges H y x) = ruleView bm H gy [⟨x, .tanX x⟩] := by tie_rule
theorem rule_Sinh : genView gy (Gen.Sinh_edges H y x) = ruleView bm H gy [⟨x, .sinhX x⟩] := by tie_rule
theorem rule_Cosh : genView gy (Gen.Cosh_edges H y x) = ruleView bm H gy [⟨x, .coshX x⟩] := by tie_rule
theorem rule_Tanh : genView gy (Gen.Tanh_edges H y x) = ruleView bm H gy [⟨x, .tanhX x⟩] := by tie_rule
theorem rule_ElMax : genView gy (Gen.ElMax_edges H y a b)
    = ruleView bm H gy [⟨a, .elext y a b⟩, ⟨b, .elext y b a⟩] := by tie_rule
theorem rule_ElMin : genView gy (Gen.ElMin_edges H y a b)
    = ruleView bm H gy [⟨a, .elext y a b⟩, ⟨b, .elext y b a⟩] := by tie_rule
theorem rule_Add : genView gy (Gen.Add_edges H y a b) = ruleView bm H gy [⟨a, .idG⟩, ⟨b, .idG⟩] := by tie_rule
theorem rule_Sub : genView gy (Gen.Sub_edges H y a b) = ruleView bm H gy [⟨a, .idG⟩, ⟨b, .negG⟩] := by tie_rule
theorem rule_Mul : genView gy (Gen.Mul_edges H y a b) = ruleView bm H gy [⟨a, .mulG b⟩, ⟨b, .mulG a⟩] := by tie_rule
theorem rule_Div : genView gy (Gen.Div_edges H y a b) = ruleView bm H gy [⟨a, .divA b⟩, ⟨b, .divB a b⟩] := by tie_rule
theorem rule_Dot (hy : (H.val y).dims.length = gy.dims.length) : genView gy (Gen.Dot_edges H y a b)
    = ruleView bm H gy [⟨a, .dotG b⟩, ⟨b, .dotG a⟩] := by
  simp only [genView, ruleView, List.map, evalRule, Gen.Dot_edges, hy]
theorem rule_MatMul : genView gy (Gen.MatMul_edges H y a b)
    = ruleView bm H gy [⟨a, .matmulA b⟩, ⟨b, .matmulB a⟩] := by tie_rule

/-- the operands the tracking head of each constructor looks at are the ones the model's `mkCtx` is given -/
theorem heads :
    Gen.Slice_operands x = [x] ∧ Gen.Patch_operands x p = [x, p] ∧ Gen.Transpose_operands x = [x] ∧
    Gen.Reshape_operands x = [x] ∧ Gen.UnSqueeze_operands x = [x] ∧ Gen.Squeeze_operands x = [x] ∧
    Gen.Flatten_operands x = [x] ∧ Gen.SumAlong_operands x = [x] ∧ Gen.MaxAlong_operands x = [x] ∧
    Gen.MinAlong_operands x = [x] ∧ Gen.AvgAlong_operands x = [x] ∧ Gen.MeanAlong_operands x = [x] ∧
    Gen.VarAlong_operands x = [x] ∧ Gen.StdAlong_operands x = [x] ∧ Gen.Scale_operands x = [x] ∧
    Gen.Pow_operands x = [x] ∧ Gen.Exp_operands x = [x] ∧ Gen.Log_operands x = [x] ∧ Gen.Sin_operands x = [x] ∧
    Gen.Cos_operands x = [x] ∧ Gen.Tan_operands x = [x] ∧ Gen.Sinh_operands x = [x] ∧ Gen.Cosh_operands x = [x] ∧
    Gen.Tanh_operands x = [x] ∧ Gen.ElMax_operands a b = [a, b] ∧ Gen.ElMin_operands a b = [a, b] ∧
    Gen.Add_operands a b = [a, b] ∧ Gen.Sub_operands a b = [a, b] ∧ Gen.Mul_operands a b = [a, b] ∧
    Gen.Div_operands a b = [a, b] ∧ Gen.Dot_operands a b = [a, b] ∧ Gen.MatMul_operands a b = [a, b] := by
  refine ⟨?_, ?_, ?_, ?_, ?_, ?_, ?_, ?_, ?_, ?_, ?_, ?_, ?_, ?_, ?_, ?_, ?_, ?_, ?_, ?_, ?_, ?_, ?_, ?_, ?_, ?_, ?_, ?_,
    ?_, ?_, ?_, ?_⟩ <;> rfl
end rules
end Qeep.Tie
