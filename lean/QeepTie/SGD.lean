import QeepGen.SGD
/-!
# SGD: the Go text of `Update` is `sgdUpdate` on a tensor that has a gradient
Generated definitions (QeepGen/SGD.lean, regenerated from /repo's Go source by /verif/xlate on every check run) coincide
with the hand-written model the property theorems are about. See QeepTie/Rules.lean for the reading of these equations.
-/
namespace Qeep.Tie
open Scalar

variable {α : Type} [Scalar α]

theorem comp_SGD (lr : α) (H H' : Heap α) (w g : Nat) (hg : hGradNode w H = .ok (some g, H')) :
    sgdUpdate lr (some w) H = Gen.SGD_update lr w g H' := by
  simp only [sgdUpdate, bind, StateT.bind, hg, Gen.SGD_update]
  rfl

end Qeep.Tie
