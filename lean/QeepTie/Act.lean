import QeepGen.Act
/-!
# Activations: the Go text of `forward` is `actForward` on a validated input
Generated definitions (QeepGen/Act.lean, regenerated from /repo's Go source by /verif/xlate on every check run) coincide
with the hand-written model the property theorems are about. See QeepTie/Rules.lean for the reading of these equations.
-/
namespace Qeep.Tie
open Scalar

variable {α : Type} [Scalar α]

theorem comp_Relu (x : Nat) : actForward (.relu : Activation α) [some x] = Gen.Relu_forward x := by
  funext H
  simp only [actForward, oneInput, liftOut, bind, StateT.bind, Out.bind, Gen.Relu_forward]
  first | done | rfl

theorem comp_LeakyRelu (m : α) (x : Nat) : actForward (.leaky m) [some x] = Gen.LeakyRelu_forward m x := by
  funext H
  simp only [actForward, oneInput, liftOut, bind, StateT.bind, Out.bind, Gen.LeakyRelu_forward]
  first | done | rfl

theorem comp_Sigmoid (x : Nat) : actForward (.sigmoid : Activation α) [some x] = Gen.Sigmoid_forward x := by
  funext H
  simp only [actForward, oneInput, liftOut, bind, StateT.bind, Out.bind, Gen.Sigmoid_forward]
  first | done | rfl

theorem comp_Tanh (x : Nat) : actForward (.tanh : Activation α) [some x] = Gen.Tanh_forward x := by
  funext H
  simp only [actForward, oneInput, liftOut, bind, StateT.bind, Out.bind, Gen.Tanh_forward]
  first | done | rfl

theorem comp_Softmax (dim x : Nat) (H : Heap α) (h : dim < (H.val x).dims.length) :
    actForward (.softmax dim : Activation α) [some x] H = Gen.Softmax_forward dim x H := by
  have h' : ¬ (H.val x).dims.length ≤ dim := by omega
  simp [actForward, oneInput, Gen.Softmax_forward, liftOut, getHeap, bind, StateT.bind, Out.bind, h']

end Qeep.Tie
