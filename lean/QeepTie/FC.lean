import QeepGen.FC
/-!
# FC layer: the Go text of `forward` is `fcForward` with both parameters present on a rank-2 input
Generated definitions (QeepGen/FC.lean, regenerated from /repo's Go source by /verif/xlate on every check run) coincide
with the hand-written model the property theorems are about. See QeepTie/Rules.lean for the reading of these equations.
-/
namespace Qeep.Tie
open Scalar

variable {α : Type} [Scalar α]

theorem comp_FC (H : Heap α) (w b x : Nat) (h : (H.val x).dims.length = 2) :
    fcForward (α := α) ⟨some w, some b⟩ [some x] H = Gen.FC_forward w b x H := by
  simp only [fcForward, oneInput, getHeap, bind, StateT.bind, liftOut, Out.bind, Gen.FC_forward, h, ne_eq,
    not_true_eq_false, if_false]
  rfl

end Qeep.Tie
