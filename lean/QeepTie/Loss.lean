import QeepGen.Loss
/-!
# Losses: the Go text of `clip` / `Compute` is `clip` / `lossCompute` on validated inputs
Generated definitions (QeepGen/Loss.lean, regenerated from /repo's Go source by /verif/xlate on every check run) coincide
with the hand-written model the property theorems are about. See QeepTie/Rules.lean for the reading of these equations.
-/
namespace Qeep.Tie
open Scalar

variable {α : Type} [Scalar α]

theorem comp_clip (x : Nat) (l u : α) : Qeep.clip x l u = Gen.clip x l u := by
  unfold Qeep.clip Gen.clip
  rfl

theorem comp_MSE (H : Heap α) (yp yt : Nat) (hv : lossValid H .mse (some yp) (some yt) = .ok (yp, yt)) :
    lossCompute (α := α) .mse (some yp) (some yt) H = Gen.MSE_compute yp yt H := by
  simp only [lossCompute, getHeap, bind, StateT.bind, liftOut, hv, Out.bind, Gen.MSE_compute]
  rfl

theorem comp_BCE (H : Heap α) (yp yt : Nat) (hv : lossValid H .bce (some yp) (some yt) = .ok (yp, yt)) :
    lossCompute (α := α) .bce (some yp) (some yt) H = Gen.BCE_compute yp yt H := by
  simp only [lossCompute, getHeap, bind, StateT.bind, liftOut, hv, Out.bind, Gen.BCE_compute, ← comp_clip]
  rfl

theorem comp_CE (H : Heap α) (yp yt : Nat) (hv : lossValid H .ce (some yp) (some yt) = .ok (yp, yt)) :
    lossCompute (α := α) .ce (some yp) (some yt) H = Gen.CE_compute yp yt H := by
  simp only [lossCompute, getHeap, bind, StateT.bind, liftOut, hv, Out.bind, Gen.CE_compute, ← comp_clip]
  rfl

end Qeep.Tie
