import QeepGen.Valid
/-!
# Validators: the Go text of `tensor/internal/validator/*.go` (if-chains and index loops, translated by /verif/xlate to
# Bool-valued functions over Go ints) decides exactly what the model's validators (`Qeep/Validate.lean`) decide.

Tensor dimensions are `List Nat` in the model and `[]int` in Go: the equations take the Go-side argument `dims.map Int.ofNat`.
-/
set_option linter.unusedSimpArgs false
namespace Qeep.Tie
open Scalar

theorem all_range_iff (n : Nat) (f : Nat → Bool) : (List.range n).all f = true ↔ ∀ i, i < n → f i = true := by
  simp [List.all_eq_true, List.mem_range]

theorem all_zip_iff {β γ : Type} (l : List β) (m : List γ) (f : β × γ → Bool) :
    (l.zip m).all f = true ↔ ∀ i (h1 : i < l.length) (h2 : i < m.length), f (l[i], m[i]) = true := by
  induction l generalizing m with
  | nil => simp
  | cons a l ih =>
    cases m with
    | nil => simp
    | cons b m =>
      simp only [List.zip_cons_cons, List.all_cons, Bool.and_eq_true, ih, List.length_cons]
      constructor
      · rintro ⟨h0, hs⟩ i h1 h2
        cases i with
        | zero => simpa using h0
        | succ i =>
          have := hs i (by omega) (by omega)
          simpa [List.getElem_cons_succ] using this
      · intro h
        refine ⟨by simpa using h 0 (by omega) (by omega), fun i h1 h2 => ?_⟩
        have := h (i + 1) (by omega) (by omega)
        simpa [List.getElem_cons_succ] using this

theorem getD_ofNat (l : List Nat) (i : Nat) (h : i < l.length) : (l.map Int.ofNat).getD i 0 = (l[i] : Int) := by
  simp [List.getD, h]

theorem getD_lt {β : Type} (l : List β) (i : Nat) (d : β) (h : i < l.length) : l.getD i d = l[i] := by
  simp [List.getD, h]

theorem valid_InputDims (dims : List Int) : Gen.ValidateInputDims dims = validInputDims dims := by
  rw [Bool.eq_iff_iff]
  unfold Gen.ValidateInputDims validInputDims
  simp only [Bool.not_eq_eq_eq_not, Bool.not_true, ite_eq_right_iff, Bool.false_eq_true, imp_false,
    Bool.not_eq_false, List.all_eq_true, List.mem_range, decide_eq_true_eq]
  constructor
  · intro h d hd
    obtain ⟨i, hi, rfl⟩ := List.getElem_of_mem hd
    have := h i hi
    rw [getD_lt _ _ _ hi] at this
    omega
  · intro h i hi
    have := h dims[i] (List.getElem_mem hi)
    rw [getD_lt _ _ _ hi]
    omega

theorem valid_Transpose (dims : List Nat) : Gen.ValidateTransposeDims (dims.map Int.ofNat) = validTranspose dims := by
  rw [Bool.eq_iff_iff]
  simp [Gen.ValidateTransposeDims, validTranspose]
  omega

theorem valid_UnSqueeze (dim : Int) (dims : List Nat) :
    Gen.ValidateUnSqueezeDimAgainstDims dim (dims.map Int.ofNat) = validUnSqueeze dim dims := by
  rw [Bool.eq_iff_iff]
  simp [Gen.ValidateUnSqueezeDimAgainstDims, validUnSqueeze]

theorem valid_Flatten (dim : Int) (dims : List Nat) :
    Gen.ValidateFlattenDimAgainstDims dim (dims.map Int.ofNat) = validDimLt dim dims := by
  rw [Bool.eq_iff_iff]
  simp [Gen.ValidateFlattenDimAgainstDims, validDimLt]

theorem valid_Reduced (dim : Int) (dims : List Nat) :
    Gen.ValidateReducedDimAgainstDims dim (dims.map Int.ofNat) = validDimLt dim dims := by
  rw [Bool.eq_iff_iff]
  simp [Gen.ValidateReducedDimAgainstDims, validDimLt]

theorem valid_Squeeze (dim : Int) (dims : List Nat) :
    Gen.ValidateSqueezeDimAgainstDims dim (dims.map Int.ofNat) = validSqueeze dim dims := by
  rw [Bool.eq_iff_iff]
  simp only [Gen.ValidateSqueezeDimAgainstDims, validSqueeze, List.length_map]
  by_cases h : 0 ≤ dim ∧ dim < (dims.length : Int)
  · have hlt : dim.toNat < dims.length := by omega
    simp [h.1, h.2, List.getD, hlt]
    omega
  · have : ¬ (decide (0 ≤ dim) && decide (dim < (dims.length : Int))) = true := by simpa using h
    simp [this]

theorem ite_false_else (c : Prop) [Decidable c] (b : Bool) : (if c then false else b) = (!decide c && b) := by
  by_cases h : c <;> simp [h]

theorem ite_true_else (c : Prop) [Decidable c] (b : Bool) : (if c then true else b) = (decide c || b) := by
  by_cases h : c <;> simp [h]

theorem valid_At (index : List Int) (dims : List Nat) :
    Gen.ValidateAtIndexAgainstDims index (dims.map Int.ofNat) = validAtIndex index dims := by
  rw [Bool.eq_iff_iff]
  unfold Gen.ValidateAtIndexAgainstDims validAtIndex
  simp only [ite_false_else, List.length_map, Bool.and_eq_true, beq_iff_eq, all_zip_iff, decide_eq_true_eq,
    Bool.not_eq_true', decide_eq_false_iff_not, Bool.and_true, Bool.not_not, all_range_iff, bne_iff_ne, ne_eq,
    Decidable.not_not, Bool.decide_eq_true, Bool.not_eq_eq_eq_not, Bool.not_true, Bool.not_eq_false]
  constructor
  · rintro ⟨hl, h⟩
    have hl' : index.length = dims.length := by exact_mod_cast hl
    refine ⟨hl', fun i h1 h2 => ?_⟩
    have := h i h1
    rw [getD_lt _ _ _ h1, getD_ofNat _ _ h2] at this
    exact this
  · rintro ⟨hl, h⟩
    refine ⟨by exact_mod_cast hl, fun i hi => ?_⟩
    have := h i hi (by omega)
    rw [getD_lt _ _ _ hi, getD_ofNat _ _ (by omega)]
    exact this

theorem valid_DimsMatch (d1 d2 : List Nat) :
    Gen.ValidateBinaryFuncDimsMatch (d1.map Int.ofNat) (d2.map Int.ofNat) = validDimsMatch d1 d2 := by
  rw [Bool.eq_iff_iff]
  unfold Gen.ValidateBinaryFuncDimsMatch validDimsMatch
  simp only [List.length_map, beq_iff_eq]
  by_cases hl : d1.length = d2.length
  · have hne : ((d1.length : Int) != (d2.length : Int)) = false := by simp [hl]
    simp only [hne, Bool.false_eq_true, if_false, Int.toNat_natCast]
    simp only [Bool.not_eq_eq_eq_not, Bool.not_true, ite_eq_right_iff, Bool.false_eq_true, imp_false,
      Bool.not_eq_false, List.all_eq_true, List.mem_range, bne_iff_ne, ne_eq, Decidable.not_not]
    constructor
    · intro h
      apply List.ext_getElem hl
      intro i h1 h2
      have := h i h1
      rw [getD_ofNat _ _ h1, getD_ofNat _ _ h2] at this
      exact_mod_cast this
    · rintro rfl i hi
      rfl
  · have hne : ((d1.length : Int) != (d2.length : Int)) = true := by simp; omega
    simp only [hne, if_true, Bool.false_eq_true, false_iff]
    intro h; exact hl (by rw [h])

theorem getLast?_eq_getD (l : List Nat) (h : 1 ≤ l.length) : l.getLast? = some (l.getD (l.length - 1) 0) := by
  rw [List.getLast?_eq_getElem?]
  have : l.length - 1 < l.length := by omega
  simp [List.getD, this]

theorem valid_Dot (d1 d2 : List Nat) :
    Gen.ValidateDotProductDims (d1.map Int.ofNat) (d2.map Int.ofNat) = validDot d1 d2 := by
  rw [Bool.eq_iff_iff]
  unfold Gen.ValidateDotProductDims validDot
  simp only [List.length_map]
  by_cases h1 : 1 ≤ d1.length <;> by_cases h2 : 1 ≤ d2.length
  · have e1 : ((d1.length : Int) - 1).toNat = d1.length - 1 := by omega
    have e2 : ((d2.length : Int) - 1).toNat = d2.length - 1 := by omega
    have c : (decide ((d1.length : Int) < 1) || decide ((d2.length : Int) < 1)) = false := by simp; omega
    simp only [c, Bool.false_eq_true, if_false, e1, e2, getLast?_eq_getD d1 h1, getLast?_eq_getD d2 h2]
    rw [getD_ofNat _ _ (by omega), getD_ofNat _ _ (by omega)]
    simp [List.getD, show d1.length - 1 < d1.length by omega, show d2.length - 1 < d2.length by omega, h1, h2]
    constructor
    · intro h; exact_mod_cast h
    · intro h; exact_mod_cast h
  all_goals
    have c : (decide ((d1.length : Int) < 1) || decide ((d2.length : Int) < 1)) = true := by simp; omega
    simp [c]; omega

theorem valid_MatMul (d1 d2 : List Nat) :
    Gen.ValidateMatMulDims (d1.map Int.ofNat) (d2.map Int.ofNat) = validMatMul d1 d2 := by
  rw [Bool.eq_iff_iff]
  unfold Gen.ValidateMatMulDims validMatMul
  simp only [List.length_map]
  by_cases h1 : 2 ≤ d1.length <;> by_cases h2 : 2 ≤ d2.length
  · have e1 : ((d1.length : Int) - 1).toNat = d1.length - 1 := by omega
    have e2 : ((d2.length : Int) - 2).toNat = d2.length - 2 := by omega
    have c : (decide ((d1.length : Int) < 2) || decide ((d2.length : Int) < 2)) = false := by simp; omega
    have hdl : d2.dropLast.getLast? = some (d2.getD (d2.length - 2) 0) := by
      rw [List.getLast?_eq_getElem?]
      simp [List.getD, List.getElem?_dropLast]
      have : d2.length - 1 - 1 = d2.length - 2 := by omega
      rw [this]
      simp [show d2.length - 2 < d2.length - 1 by omega]
      rw [List.getElem?_eq_getElem (by omega)]
      simp
    simp only [c, Bool.false_eq_true, if_false, e1, e2, getLast?_eq_getD d1 (by omega), hdl]
    rw [getD_ofNat _ _ (by omega), getD_ofNat _ _ (by omega)]
    simp [List.getD, show d1.length - 1 < d1.length by omega, show d2.length - 2 < d2.length by omega, h1, h2]
    constructor
    · intro h; exact_mod_cast h
    · intro h; exact_mod_cast h
  all_goals
    have c : (decide ((d1.length : Int) < 2) || decide ((d2.length : Int) < 2)) = true := by simp; omega
    simp [c]; omega

theorem foldl_mul_ofNat (l : List Nat) (a : Nat) : (l.map Int.ofNat).foldl (· * ·) (a : Int) = ((a * prod l : Nat) : Int) := by
  induction l generalizing a with
  | nil => simp [prod]
  | cons d l ih =>
    simp only [List.map_cons, List.foldl_cons, prod]
    have : (a : Int) * Int.ofNat d = ((a * d : Nat) : Int) := by simp
    rw [this, ih, Nat.mul_assoc]

theorem foldl_mul_ofNat_one (l : List Nat) : (l.map Int.ofNat).foldl (· * ·) 1 = ((prod l : Nat) : Int) := by
  have := foldl_mul_ofNat l 1
  rw [Nat.one_mul] at this
  exact this

theorem valid_Reshape (src dst : List Nat) :
    Gen.ValidateReshapeSourceDimsAgainstTargetDims (src.map Int.ofNat) (dst.map Int.ofNat) = validReshape src dst := by
  rw [Bool.eq_iff_iff]
  unfold Gen.ValidateReshapeSourceDimsAgainstTargetDims validReshape
  simp only [foldl_mul_ofNat_one, ite_false_else, Bool.and_true, Bool.not_eq_true', decide_eq_false_iff_not, beq_iff_eq,
    bne_iff_ne, ne_eq, Decidable.not_not, Bool.decide_eq_true, Bool.not_eq_eq_eq_not, Bool.not_true, Bool.not_eq_false]
  constructor
  · intro h; exact_mod_cast h
  · intro h; exact_mod_cast h

/-- the loop body of `ValidateSliceIndexAgainstDims` on one (range, size) pair is the model's `validRange` -/
theorem slice_body (r : Int × Int) (d : Nat) :
    (if (r.1 == (0 : Int) && r.2 == (0 : Int)) = true then true
     else if decide (r.1 ≥ r.2) = true then false
     else if (((decide (r.1 < (0 : Int)) || decide (r.1 ≥ (d : Int))) || decide (r.2 < (1 : Int))) ||
              decide (r.2 ≥ (d : Int) + (1 : Int))) = true
          then (if (r.2 == r.1 + (1 : Int)) = true then false else false) else true) = validRange r d := by
  unfold validRange
  by_cases h0 : (r.1 == (0 : Int) && r.2 == (0 : Int)) = true
  · simp [h0]
  · simp only [h0, Bool.false_eq_true, if_false]
    by_cases h1 : r.1 ≥ r.2
    · simp [h1]
    · simp only [h1, decide_false, Bool.false_eq_true, if_false, ite_self]
      simp

theorem valid_Slice (index : List (Int × Int)) (dims : List Nat) :
    Gen.ValidateSliceIndexAgainstDims index (dims.map Int.ofNat) = validSliceIndex index dims := by
  rw [Bool.eq_iff_iff]
  unfold Gen.ValidateSliceIndexAgainstDims validSliceIndex
  simp only [List.length_map, ite_false_else, Bool.and_true, Bool.and_eq_true, Bool.not_eq_true', decide_eq_false_iff_not,
    decide_eq_true_eq, all_zip_iff, all_range_iff, Bool.not_not, Bool.decide_eq_true, Bool.not_eq_eq_eq_not, Bool.not_true,
    Bool.not_eq_false]
  have body : ∀ (r : Int × Int) (d : Nat), _ := fun r d => slice_body r d
  simp only [ite_false_else, Bool.and_true, Bool.and_eq_true, Bool.not_eq_true', decide_eq_false_iff_not,
    decide_eq_true_eq, Bool.not_not, Bool.decide_eq_true, Bool.not_eq_eq_eq_not, Bool.not_true, Bool.not_eq_false] at body
  constructor
  · rintro ⟨hl, h⟩
    have hl' : index.length ≤ dims.length := by omega
    refine ⟨hl', fun i h1 h2 => ?_⟩
    have := h i h1
    rw [getD_lt _ _ _ h1, getD_ofNat _ _ h2] at this
    rw [← body]
    exact this
  · rintro ⟨hl, h⟩
    refine ⟨by omega, fun i hi => ?_⟩
    have := h i hi (by omega)
    rw [getD_lt _ _ _ hi, getD_ofNat _ _ (by omega)]
    rw [← body] at this
    exact this

theorem valid_Patch (index : List (Int × Int)) (src dst : List Nat) :
    Gen.ValidatePatchIndexAgainstDims index (src.map Int.ofNat) (dst.map Int.ofNat) = validPatchIndex index src dst := by
  rw [Bool.eq_iff_iff]
  unfold Gen.ValidatePatchIndexAgainstDims validPatchIndex
  rw [valid_Slice]
  simp only [List.length_map, ite_false_else, Bool.and_true, Bool.and_eq_true, Bool.not_eq_true', decide_eq_false_iff_not,
    decide_eq_true_eq, all_zip_iff, all_range_iff, Bool.not_not, Bool.decide_eq_true, Bool.not_eq_eq_eq_not, Bool.not_true,
    Bool.not_eq_false, beq_iff_eq, bne_iff_ne, ne_eq, Decidable.not_not, Int.toNat_natCast, ite_true_else, Bool.or_eq_true]
  constructor
  · rintro ⟨hl, hle, hs, hc⟩
    have hl' : src.length = dst.length := by exact_mod_cast hl
    refine ⟨⟨⟨hl', fun i h1 h2 => ?_⟩, hs⟩, fun i h1 h2 => ?_⟩
    · have := hle i h1
      rw [getD_ofNat _ _ h1, getD_ofNat _ _ h2] at this
      omega
    · have := hc i h1
      rw [getD_lt _ _ _ h1, getD_ofNat _ _ h2] at this
      simpa using this
  · rintro ⟨⟨⟨hl, hle⟩, hs⟩, hc⟩
    refine ⟨by exact_mod_cast hl, fun i hi => ?_, hs, fun i hi => ?_⟩
    · have := hle i hi (by omega)
      rw [getD_ofNat _ _ hi, getD_ofNat _ _ (by omega)]
      omega
    · have hsl : index.length ≤ dst.length := by
        unfold validSliceIndex at hs
        simp only [Bool.and_eq_true, decide_eq_true_eq] at hs
        exact hs.1
      have := hc i hi (by omega)
      rw [getD_lt _ _ _ hi, getD_ofNat _ _ (by omega)]
      simpa using this

theorem validBroadcastLE_iff (a b : List Nat) : validBroadcastLE a b = true ↔
    a.length ≤ b.length ∧ ∀ k (h1 : k < a.length) (h2 : k < b.length), (a[k] = b[k] ∨ a[k] = 1) := by
  induction a generalizing b with
  | nil => simp [validBroadcastLE]
  | cons x a ih =>
    cases b with
    | nil => simp [validBroadcastLE]
    | cons y b =>
      simp only [validBroadcastLE, Bool.and_eq_true, Bool.or_eq_true, beq_iff_eq, ih, List.length_cons]
      constructor
      · rintro ⟨h0, hl, hs⟩
        refine ⟨by omega, fun k h1 h2 => ?_⟩
        cases k with
        | zero => simpa using h0
        | succ k => simpa [List.getElem_cons_succ] using hs k (by omega) (by omega)
      · rintro ⟨hl, h⟩
        refine ⟨by simpa using h 0 (by omega) (by omega), by omega, fun k h1 h2 => ?_⟩
        have := h (k + 1) (by omega) (by omega)
        simp only [List.getElem_cons_succ] at this
        exact this

theorem valid_Broadcast (src dst : List Nat) :
    Gen.ValidateBroadcastSourceDimsAgainstTargetDims (src.map Int.ofNat) (dst.map Int.ofNat) = validBroadcast src dst := by
  rw [Bool.eq_iff_iff]
  unfold Gen.ValidateBroadcastSourceDimsAgainstTargetDims validBroadcast
  rw [validBroadcastLE_iff]
  simp only [List.length_map, ite_false_else, Bool.and_true, Bool.and_eq_true, Bool.not_eq_true', decide_eq_false_iff_not,
    decide_eq_true_eq, all_range_iff, Bool.not_not, Bool.decide_eq_true, Bool.not_eq_eq_eq_not, Bool.not_true,
    Bool.not_eq_false, Int.toNat_natCast, List.length_reverse, Bool.or_eq_true, beq_iff_eq]
  constructor
  · rintro ⟨hl, h⟩
    refine ⟨by omega, fun k h1 h2 => ?_⟩
    have := h k h1
    have e1 : ((src.length : Int) - 1 - (k : Int)).toNat = src.length - 1 - k := by omega
    have e2 : ((dst.length : Int) - 1 - (k : Int)).toNat = dst.length - 1 - k := by omega
    rw [e1, e2, getD_ofNat _ _ (by omega), getD_ofNat _ _ (by omega)] at this
    rw [List.getElem_reverse, List.getElem_reverse]
    rcases this with h | h
    · left; exact_mod_cast h
    · right; exact_mod_cast h
  · rintro ⟨hl, h⟩
    refine ⟨by omega, fun k hk => ?_⟩
    have := h k hk (by omega)
    rw [List.getElem_reverse, List.getElem_reverse] at this
    have e1 : ((src.length : Int) - 1 - (k : Int)).toNat = src.length - 1 - k := by omega
    have e2 : ((dst.length : Int) - 1 - (k : Int)).toNat = dst.length - 1 - k := by omega
    rw [e1, e2, getD_ofNat _ _ (by omega), getD_ofNat _ _ (by omega)]
    rcases this with h | h
    · left; exact_mod_cast h
    · right; exact_mod_cast h

/-- the Go-side argument of the Concat validator: the operands' dims as Go ints -/
def goDims (tsDims : List (List Nat)) : List (List Int) := tsDims.map (fun d => d.map Int.ofNat)

theorem valid_Concat (tsDims : List (List Nat)) (dim : Int) (hne : tsDims ≠ []) :
    Gen.ValidateConcatTensorsDimsAlongDim (goDims tsDims) dim = validConcat tsDims dim := by
  cases tsDims with
  | nil => exact absurd rfl hne
  | cons base rest =>
    have key : ∀ i (hi : i < (base :: rest).length),
        ((base :: rest).map (fun d => d.map Int.ofNat)).getD i [] = ((base :: rest)[i]).map Int.ofNat := by
      intro i hi
      rw [List.getD_eq_getElem?_getD, List.getElem?_map, List.getElem?_eq_getElem hi]
      rfl
    have key0 := key 0 (by simp)
    simp only [List.getElem_cons_zero] at key0
    rw [Bool.eq_iff_iff]
    unfold Gen.ValidateConcatTensorsDimsAlongDim validConcat goDims
    simp only [Int.toNat_zero, key0, List.length_map,
      ite_false_else, ite_true_else, Bool.and_true, Bool.and_eq_true, Bool.not_eq_true', decide_eq_false_iff_not,
      decide_eq_true_eq, all_range_iff, Bool.not_not, Bool.decide_eq_true, Bool.not_eq_eq_eq_not, Bool.not_true,
      Bool.not_eq_false, beq_iff_eq, bne_iff_ne, ne_eq, Decidable.not_not, List.all_eq_true, List.mem_range, Bool.or_eq_true,
      Bool.or_false]
    constructor
    · intro h dims hd
      obtain ⟨i, hi, rfl⟩ := List.getElem_of_mem hd
      have := h i hi
      rw [key i hi] at this
      simp only [List.length_map] at this
      obtain ⟨h1, h2, h3, h4⟩ := this
      refine ⟨⟨⟨by omega, by omega⟩, h3⟩, fun j hj => ?_⟩
      have := h4 j hj
      rcases this with h | h
      · left; exact_mod_cast h
      · right
        have hjb : j < base.length := by omega
        rw [getD_ofNat _ _ hj, getD_ofNat _ _ hjb] at h
        rw [List.getElem?_eq_getElem hj, List.getElem?_eq_getElem hjb]
        congr 1
        exact_mod_cast h
    · intro h i hi
      have := h (base :: rest)[i] (List.getElem_mem hi)
      rw [key i hi]
      simp only [List.length_map]
      obtain ⟨⟨⟨h1, h2⟩, h3⟩, h4⟩ := this
      refine ⟨by omega, by omega, h3, fun j hj => ?_⟩
      have := h4 j hj
      rcases this with h | h
      · left; exact_mod_cast h
      · right
        have hjb : j < base.length := by omega
        rw [getD_ofNat _ _ hj, getD_ofNat _ _ hjb]
        rw [List.getElem?_eq_getElem hj, List.getElem?_eq_getElem hjb] at h
        have := Option.some.inj h
        exact_mod_cast this
end Qeep.Tie
