import Qeep.Scalar
import Qeep.Tensor
import Qeep.Validate
import Qeep.Forward
import Qeep.Grad
import Qeep.Components
import Qeep.Driver
