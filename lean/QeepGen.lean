import QeepGen.Rules
import QeepGen.Act
import QeepGen.Loss
import QeepGen.FC
import QeepGen.SGD
import QeepGen.Valid
