import Qeep.Scalar
/-!
# Tensors, outcomes, index arithmetic

Go's `CPUTensor{data any /* nested []any */, dims []int}` is modelled by its row-major flattening.
Rows of a tensor with dims `d :: ds` are the `d` consecutive chunks of length `prod ds`.
-/

namespace Qeep

/-- product of dimension sizes (`numElems`, `dimsToNumElems`) -/
def prod : List Nat → Nat
  | [] => 1
  | d :: ds => d * prod ds

structure Tensor (α : Type) where
  dims : List Nat
  data : List α
deriving Repr, DecidableEq

/-- Outcome of a public call: a result, a returned `error`, or a Go panic. -/
inductive Out (β : Type) where
  | ok (v : β)
  | err
  | panic
deriving Repr, DecidableEq

namespace Out
def bind {β γ : Type} (x : Out β) (f : β → Out γ) : Out γ :=
  match x with
  | ok v => f v
  | err => err
  | panic => panic

instance : Monad Out where
  pure := Out.ok
  bind := Out.bind

/-- an internal primitive that cannot fail on validated arguments: `none` is a Go panic -/
def ofOpt {β : Type} : Option β → Out β
  | some v => ok v
  | none => panic

def isOk {β : Type} : Out β → Bool
  | ok _ => true
  | _ => false
end Out

namespace Tensor
variable {α : Type}

def numElems (t : Tensor α) : Nat := prod t.dims
def rank (t : Tensor α) : Nat := t.dims.length

/-- well-formed: what every tensor built through the public API satisfies -/
def WF (t : Tensor α) : Prop := t.data.length = prod t.dims ∧ ∀ d ∈ t.dims, 0 < d

instance (t : Tensor α) : Decidable t.WF := by unfold WF; exact inferInstance
end Tensor

/-- `i`-th chunk of size `sz` -/
def chunk {α : Type} (data : List α) (sz i : Nat) : List α := (data.drop (i * sz)).take sz

/-- row-major offset of a (possibly partial, prefix) big-endian multi-index; `none` = index out of range
    (Go: `data.([]any)[i]` panics). For a prefix of length k the offset is in units of blocks of size
    `prod (dims.drop k)`. -/
def offset : List Nat → List Nat → Option Nat
  | _, [] => some 0
  | [], _ :: _ => none
  | d :: ds, i :: is =>
      if i < d then (offset ds is).map (fun o => i * prod (ds.take is.length) + o) else none

/-- `t.dataAt(index)` for a full index: the element -/
def Tensor.at? {α : Type} (t : Tensor α) (idx : List Nat) : Option α :=
  if idx.length = t.dims.length then (offset t.dims idx).bind (fun o => t.data[o]?) else none

/-- `t.dataAt(prefix)`: the sub-block (row, matrix, …) as flat data together with its dims -/
def Tensor.block? {α : Type} (t : Tensor α) (pre : List Nat) : Option (Tensor α) :=
  if pre.length ≤ t.dims.length then
    (offset t.dims pre).bind (fun o =>
      let bd := t.dims.drop pre.length
      let sz := prod bd
      let blk := chunk t.data sz o
      if blk.length = sz then some ⟨bd, blk⟩ else none)
  else none

/-- all-or-nothing: a generator run panics if any element fetch panics -/
def allSome {β : Type} : List (Option β) → Option (List β)
  | [] => some []
  | none :: _ => none
  | some x :: xs => (allSome xs).map (x :: ·)

/-- `initWith(gen)`: call the element generator `n` times, row-major.
    `step` is the closure's state update, `out` the element it returns before updating. -/
def iterGen {σ β : Type} (step : σ → σ) (out : σ → Option β) : Nat → σ → List (Option β)
  | 0, _ => []
  | n + 1, s => out s :: iterGen step out n (step s)

/-! ## Odometers (little-endian: last dimension first)

Go keeps `state` big-endian and walks `i` from the last position to the front; on the reversed lists every
carry loop is a structural recursion. -/

/-- `for i >= 0 { if state[i] < dims[i]-1 {state[i]++; break} else {state[i] = 0; i--} }` -/
def incr : List Nat → List Nat → List Nat
  | d :: ds, s :: ss => if s + 1 < d then (s + 1) :: ss else 0 :: incr ds ss
  | _, _ => []

/-- `transposeElemGenerator`: carry order n-2, n-1, n-3, n-4, … (little-endian positions 1, 0, 2, 3, …) -/
def incrT : List Nat → List Nat → List Nat
  | d0 :: d1 :: ds, s0 :: s1 :: ss =>
      if s1 + 1 < d1 then s0 :: (s1 + 1) :: ss
      else if s0 + 1 < d0 then (s0 + 1) :: 0 :: ss
      else 0 :: 0 :: incr ds ss
  | _, _ => []

/-- `linearElemGeneratorWithReducedDim`: odometer that skips little-endian position `k` -/
def incrSkip : Nat → List Nat → List Nat → List Nat
  | 0, _ :: ds, s :: ss => s :: incr ds ss
  | k + 1, d :: ds, s :: ss => if s + 1 < d then (s + 1) :: ss else 0 :: incrSkip k ds ss
  | _, _, _ => []

/-- `broadcastElemGenerator`: lock-step walk over (source dims, state) and (target shape, repeat);
    returns the new (state, repeat). All four lists little-endian. -/
def stepB : (sd st sh rp : List Nat) → List Nat × List Nat
  | d :: sd, s :: st, h :: sh, r :: rp =>
      if s + 1 < d then ((s + 1) :: st, r :: rp)
      else if d = h ∨ r + 1 = h then
        let (st', rp') := stepB sd st sh rp
        (0 :: st', 0 :: rp')
      else (0 :: st, (r + 1) :: rp)
  | [], [], h :: sh, r :: rp =>
      if r + 1 = h then
        let (_, rp') := stepB [] [] sh rp
        ([], 0 :: rp')
      else ([], (r + 1) :: rp)
  | _, st, _, rp => (st, rp)

def zerosLike (l : List Nat) : List Nat := l.map (fun _ => 0)

end Qeep
