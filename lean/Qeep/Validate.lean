import Qeep.Tensor
/-!
# Validators (`tensor/internal/validator/*.go`), transcribed rule by rule.

Arguments coming from the caller are `Int` (they may be negative); tensor dims are `Nat`.
`true` = the validator returned `nil`.
-/

namespace Qeep

abbrev IRange := Int × Int

/-- `ValidateInputDims` -/
def validInputDims (dims : List Int) : Bool := dims.all (fun d => 0 < d)

/-- `ValidateAtIndexAgainstDims` -/
def validAtIndex (index : List Int) (dims : List Nat) : Bool :=
  index.length == dims.length &&
  (index.zip dims).all (fun (i, d) => 0 ≤ i && i < (d : Int))

/-- loop body of `ValidateSliceIndexAgainstDims` -/
def validRange (r : IRange) (d : Nat) : Bool :=
  if r.1 == 0 && r.2 == 0 then true
  else if r.1 ≥ r.2 then false
  else !(r.1 < 0 || r.1 ≥ (d : Int) || r.2 < 1 || r.2 ≥ (d : Int) + 1)

/-- `ValidateSliceIndexAgainstDims` -/
def validSliceIndex (index : List IRange) (dims : List Nat) : Bool :=
  index.length ≤ dims.length && (index.zip dims).all (fun (r, d) => validRange r d)

/-- `ValidatePatchIndexAgainstDims` -/
def validPatchIndex (index : List IRange) (srcDims dstDims : List Nat) : Bool :=
  srcDims.length == dstDims.length &&
  (srcDims.zip dstDims).all (fun (s, d) => s ≤ d) &&
  validSliceIndex index dstDims &&
  (index.zip srcDims).all (fun (r, s) => (r.1 == 0 && r.2 == 0) || r.2 - r.1 == (s : Int))

/-- `ValidateConcatTensorsDimsAlongDim`; `tsDims` non-empty (guaranteed by `validateTensorsDeviceUnity`) -/
def validConcat (tsDims : List (List Nat)) (dim : Int) : Bool :=
  match tsDims with
  | [] => false  -- Go: tsDims[0] panics; unreachable behind the `len(ts) < 2` check
  | base :: _ =>
    tsDims.all (fun dims =>
      dims.length != 0 && dims.length == base.length &&
      (0 ≤ dim && dim < (base.length : Int)) &&
      ((List.range dims.length).all (fun j => (j : Int) == dim || dims[j]? == base[j]?)))

/-- `ValidateBinaryFuncDimsMatch` -/
def validDimsMatch (d1 d2 : List Nat) : Bool := d1 == d2

/-- `ValidateDotProductDims` -/
def validDot (d1 d2 : List Nat) : Bool :=
  d1.length ≥ 1 && d2.length ≥ 1 && d1.getLast? == d2.getLast?

/-- `ValidateMatMulDims` -/
def validMatMul (d1 d2 : List Nat) : Bool :=
  d1.length ≥ 2 && d2.length ≥ 2 && d1.getLast? == (d2.dropLast).getLast?

/-- `ValidateReducedDimAgainstDims`, `ValidateFlattenDimAgainstDims` -/
def validDimLt (dim : Int) (dims : List Nat) : Bool := 0 ≤ dim && dim < (dims.length : Int)

/-- `ValidateTransposeDims` -/
def validTranspose (dims : List Nat) : Bool := dims.length ≥ 2

/-- `ValidateReshapeSourceDimsAgainstTargetDims` (target already passed `ValidateInputDims`) -/
def validReshape (src : List Nat) (dst : List Nat) : Bool := prod dst == prod src

/-- `ValidateUnSqueezeDimAgainstDims` -/
def validUnSqueeze (dim : Int) (dims : List Nat) : Bool := 0 ≤ dim && dim ≤ (dims.length : Int)

/-- `ValidateSqueezeDimAgainstDims` -/
def validSqueeze (dim : Int) (dims : List Nat) : Bool :=
  0 ≤ dim && dim < (dims.length : Int) && dims[dim.toNat]? == some 1

/-- `ValidateBroadcastSourceDimsAgainstTargetDims`, on reversed (little-endian) lists -/
def validBroadcastLE : List Nat → List Nat → Bool
  | [], _ => true
  | _ :: _, [] => false
  | s :: ss, d :: ds => (s == d || s == 1) && validBroadcastLE ss ds

def validBroadcast (src dst : List Nat) : Bool := validBroadcastLE src.reverse dst.reverse

-- `ValidateRandUParams`, `ValidateRandNParams` are scalar comparisons, see `Forward`.

end Qeep
