import Qeep.Validate
/-!
# Forward value semantics (`tensor/internal/cputensor`)

Two layers, as in the Go code:

* raw operations (`t.slice`, `t.reshape`, `t.broadcast`, `applyBinaryFuncOnTensorsElemWise`, …): they assume
  validated arguments; anything that would index out of range in Go is `none` here (a panic);
* public value operations `v*` (`CPUTensor.Slice`, …): validator first (→ `Out.err`), then the raw operation.

Gradient contexts are added on top of these in `Qeep.Grad`.
-/

namespace Qeep
open Scalar

variable {α : Type}

/-! ## accessors.go -/

/-- `completeIndex(index, dims)` on validated (natural) ranges -/
def completeIndex (index : List (Nat × Nat)) (dims : List Nat) : List (Nat × Nat) :=
  match dims, index with
  | [], _ => []
  | d :: ds, [] => (0, d) :: completeIndex [] ds
  | d :: ds, (f, t) :: rest =>
      (if f = 0 ∧ t = 0 then (0, d) else (f, t)) :: completeIndex rest ds

/-- `copiedSliceOf`'s recursive `copyData`: `index` complete (one range per dim) -/
def sliceData : List (Nat × Nat) → List Nat → List α → Option (List α)
  | [], [], [x] => some [x]
  | [], _, _ => none
  | _ :: _, [], _ => none
  | (f, t) :: idx, d :: ds, data =>
      if t ≤ d ∧ data.length = d * prod ds then
        (allSome ((List.range (t - f)).map (fun i => sliceData idx ds (chunk data (prod ds) (i + f))))).map List.flatten
      else none

def sliceDims (index : List (Nat × Nat)) : List Nat := index.map (fun (f, t) => t - f)

/-- `t.slice(index)` -/
def Tensor.sliceRaw (t : Tensor α) (index : List (Nat × Nat)) : Option (Tensor α) :=
  let cidx := completeIndex index t.dims
  (sliceData cidx t.dims t.data).map (fun d => ⟨sliceDims cidx, d⟩)

/-- `copiedWithPatchOf`'s `copyData`: write source rows into the destination rows at offset `From` -/
def patchData : List (Nat × Nat) → (srcDims dstDims : List Nat) → (src dst : List α) → Option (List α)
  | [], [], [], [x], [_] => some [x]
  | (f, _) :: idx, sd :: sds, dd :: dds, src, dst =>
      if f + sd ≤ dd ∧ src.length = sd * prod sds ∧ dst.length = dd * prod dds then
        (allSome ((List.range dd).map (fun j =>
          if f ≤ j ∧ j < f + sd then
            patchData idx sds dds (chunk src (prod sds) (j - f)) (chunk dst (prod dds) j)
          else some (chunk dst (prod dds) j)))).map List.flatten
      else none
  | _, _, _, _, _ => none

/-- `t.patch(index, u)`: note `completeIndex(index, u.dims)` — an omitted range means offset 0 -/
def Tensor.patchRaw (t : Tensor α) (index : List (Nat × Nat)) (u : Tensor α) : Option (Tensor α) :=
  let cidx := completeIndex index u.dims
  (patchData cidx u.dims t.dims u.data t.data).map (fun d => ⟨t.dims, d⟩)

/-! ## shape_modifiers.go -/

def transposeDims (dims : List Nat) : List Nat :=
  match dims.reverse with
  | a :: b :: rest => (b :: a :: rest).reverse
  | _ => dims

def unsqueezeDims (dim : Nat) (dims : List Nat) : List Nat := dims.take dim ++ 1 :: dims.drop dim
def squeezeDims (dim : Nat) (dims : List Nat) : List Nat := dims.take dim ++ dims.drop (dim + 1)
def flattenDims (dim : Nat) (dims : List Nat) : List Nat := dims.take dim ++ [prod (dims.drop dim)]

/-- run a generator whose state is a little-endian multi-index into `t` -/
def genData (t : Tensor α) (step : List Nat → List Nat) (n : Nat) : Option (List α) :=
  allSome (iterGen step (fun st => t.at? st.reverse) n (zerosLike t.dims))

/-- `t.reshape(shape)`: `linearElemGenerator` feeding `initWith` -/
def Tensor.reshapeRaw (t : Tensor α) (shape : List Nat) : Option (Tensor α) :=
  (genData t (incr t.dims.reverse) (prod shape)).map (fun d => ⟨shape, d⟩)

/-- `t.transpose()` -/
def Tensor.transposeRaw (t : Tensor α) : Option (Tensor α) :=
  let dims := transposeDims t.dims
  (genData t (incrT t.dims.reverse) (prod dims)).map (fun d => ⟨dims, d⟩)

/-- `t.broadcast(shape)`: generator state is the pair (state, repeat) -/
def Tensor.broadcastRaw (t : Tensor α) (shape : List Nat) : Option (Tensor α) :=
  let sd := t.dims.reverse
  let sh := shape.reverse
  (allSome (iterGen (fun (p : List Nat × List Nat) => stepB sd p.1 sh p.2)
      (fun p => t.at? p.1.reverse) (prod shape) (zerosLike sd, zerosLike sh))).map (fun d => ⟨shape, d⟩)

def Tensor.unSqueezeRaw (t : Tensor α) (dim : Nat) := t.reshapeRaw (unsqueezeDims dim t.dims)
def Tensor.squeezeRaw (t : Tensor α) (dim : Nat) := t.reshapeRaw (squeezeDims dim t.dims)
def Tensor.flattenRaw (t : Tensor α) (dim : Nat) := t.reshapeRaw (flattenDims dim t.dims)

/-! ## initializers.go -/

def constTensor (v : α) (dims : List Nat) : Tensor α := ⟨dims, List.replicate (prod dims) v⟩

/-- `eyeElemGenerator(n)`: `state % (n+1) == 0` -/
def eyeMatrix [Scalar α] (n : Nat) : Tensor α :=
  ⟨[n, n], (List.range (n * n)).map (fun st => if st % (n + 1) = 0 then (one : α) else zero)⟩

/-- `getConcatDims` -/
def concatDims (ts : List (Tensor α)) (dim : Nat) : List Nat :=
  match ts with
  | [] => []
  | t0 :: _ => t0.dims.set dim ((ts.map (fun t => t.dims.getD dim 0)).sum)

/-- `fillCat`: `seeds` are (dims, data) of the operands' sub-blocks at the current depth -/
def concatData : Nat → List Nat → List (List Nat × List α) → Option (List α)
  | 0, _, seeds => some (seeds.map (·.2)).flatten
  | _ + 1, [], _ => none
  | k + 1, d :: ds, seeds =>
      (allSome ((List.range d).map (fun i =>
        (allSome (seeds.map (fun (sdims, sdata) =>
          match sdims with
          | [] => none
          | sd :: sds => if i < sd ∧ sdata.length = sd * prod sds then some (sds, chunk sdata (prod sds) i) else none))).bind
        (fun rows => concatData k ds rows)))).map List.flatten

/-- `initConcatResultTensor` -/
def concatRaw (ts : List (Tensor α)) (dim : Nat) : Option (Tensor α) :=
  let dims := concatDims ts dim
  (concatData dim dims (ts.map (fun t => (t.dims, t.data)))).map (fun d => ⟨dims, d⟩)

/-! ## operators.go -/

/-- `applyUnaryFuncOnTensorElemWise` -/
def Tensor.map (f : α → α) (t : Tensor α) : Tensor α := ⟨t.dims, t.data.map f⟩

/-- `applyBinaryFuncOnTensorsElemWise`: operands have equal dims after validation / broadcasting;
    a shorter second operand is an index-out-of-range panic in Go -/
def Tensor.zipRaw (f : α → α → α) (a b : Tensor α) : Option (Tensor α) :=
  if a.dims = b.dims ∧ a.data.length = b.data.length then some ⟨a.dims, List.zipWith f a.data b.data⟩ else none

section
variable [Scalar α]

/-- `dotProductOf1DInputs` -/
def dot1D (a b : List α) : Option α :=
  if a.length ≤ b.length then some ((List.zip a b).foldl (fun s (x, y) => add s (mul x y)) zero) else none

/-- `matMulDataOf2DInputs`: A is m×n, B is n×k, both row-major -/
def matMul2D (m n k : Nat) (a b : List α) : Option (List α) :=
  if a.length = m * n ∧ b.length = n * k ∧ 0 < m ∧ 0 < n then
    allSome ((List.range (m * k)).map (fun ij =>
      let i := ij / k
      let j := ij % k
      (List.range n).foldl (fun (acc : Option α) p =>
        acc.bind (fun s => (a[i * n + p]?).bind (fun x => (b[p * k + j]?).map (fun y => add s (mul x y))))) (some zero)))
  else none

/-- `t.dot(u)`: generator over the leading dims -/
def Tensor.dotRaw (t1 t2 : Tensor α) : Option (Tensor α) :=
  let bdims := t1.dims.dropLast
  (allSome (iterGen (incr bdims.reverse)
      (fun st => (t1.block? st.reverse).bind (fun r1 => (t2.block? st.reverse).bind (fun r2 => dot1D r1.data r2.data)))
      (prod bdims) (zerosLike bdims))).map (fun d => ⟨bdims, d⟩)

/-- `t.matMul(u)` -/
def Tensor.matMulRaw (t1 t2 : Tensor α) : Option (Tensor α) :=
  let bdims := t1.dims.dropLast.dropLast
  match t1.dims.reverse, t2.dims.reverse with
  | n :: m :: _, k :: _ :: _ =>
    (allSome (iterGen (incr bdims.reverse)
        (fun st => (t1.block? st.reverse).bind (fun a => (t2.block? st.reverse).bind (fun b => matMul2D m n k a.data b.data)))
        (prod bdims) (zerosLike bdims))).map (fun d => ⟨bdims ++ [m, k], d.flatten⟩)
  | _, _ => none

/-! ## reducers.go -/

/-- `reduceByAssociativeFunc` -/
def Tensor.fold (af : α → α → α) (identity : α) (t : Tensor α) : α := t.data.foldl af identity

def Tensor.sum (t : Tensor α) : α := t.fold add zero
def Tensor.max (t : Tensor α) : α := t.fold (fun a b => if gt a b then a else b) negInf
def Tensor.min (t : Tensor α) : α := t.fold (fun a b => if lt a b then a else b) posInf
def Tensor.avg (t : Tensor α) : α := div t.sum (ofNat t.numElems)
def Tensor.mean (t : Tensor α) : α := t.avg
def Tensor.var (t : Tensor α) : α :=
  let xBar := t.mean
  let sigma := t.fold (fun s x => add s (pow (sub x xBar) two)) zero
  let n : α := ofNat t.numElems
  if gt n one then div sigma (sub n one) else zero
def Tensor.std (t : Tensor α) : α := sqrt t.var

/-- `[s, s+1)` in every dimension -/
def unitWin (st : List Nat) : List (Nat × Nat) := st.map (fun s => (s, s + 1))

/-- window of `linearElemGeneratorWithReducedDim`: `[s, s+1)` everywhere, the whole dimension at `dim`
    (big-endian: `dims` and the state `st` in tensor order) -/
def windowOf : Nat → List Nat → List Nat → List (Nat × Nat)
  | 0, d :: _, _ :: st => (0, d) :: unitWin st
  | dim + 1, _ :: ds, s :: st => (s, s + 1) :: windowOf dim ds st
  | _, _, _ => []

/-- `reduceDimUsingFunc(dim, trf)` -/
def Tensor.reduceDimRaw (t : Tensor α) (dim : Nat) (trf : Tensor α → α) : Option (Tensor α) :=
  let dims := squeezeDims dim t.dims
  let k := t.dims.length - 1 - dim
  (allSome (iterGen (incrSkip k t.dims.reverse)
      (fun st => (t.sliceRaw (windowOf dim t.dims st.reverse)).map trf)
      (prod dims) (zerosLike t.dims))).map (fun d => ⟨dims, d⟩)

/-! ## cputensor_helpers.go -/

/-- `targetBroadcastDims` on little-endian lists -/
def targetBroadcastLE : List Nat → List Nat → List Nat
  | [], l => l
  | l, [] => l
  | a :: as, b :: bs => (if a > b then a else b) :: targetBroadcastLE as bs

def targetBroadcastDims (d1 d2 : List Nat) : List Nat := (targetBroadcastLE d1.reverse d2.reverse).reverse

/-! ## Public value operations (`cputensor.go`): validation, then the raw operation -/

def natRanges (index : List IRange) : List (Nat × Nat) := index.map (fun (a, b) => (a.toNat, b.toNat))
def natDims (dims : List Int) : List Nat := dims.map Int.toNat

def vFull (dims : List Int) (v : α) : Out (Tensor α) :=
  if validInputDims dims then .ok (constTensor v (natDims dims)) else .err

def vEye (n : Int) : Out (Tensor α) :=
  if validInputDims [n, n] then .ok (eyeMatrix n.toNat) else .err

def vAt (t : Tensor α) (index : List Int) : Out α :=
  if validAtIndex index t.dims then .ofOpt (t.at? (natDims index)) else .err

def vSlice (t : Tensor α) (index : List IRange) : Out (Tensor α) :=
  if validSliceIndex index t.dims then .ofOpt (t.sliceRaw (natRanges index)) else .err

def vPatch (t : Tensor α) (index : List IRange) (u : Tensor α) : Out (Tensor α) :=
  if validPatchIndex index u.dims t.dims then .ofOpt (t.patchRaw (natRanges index) u) else .err

def vTranspose (t : Tensor α) : Out (Tensor α) :=
  if validTranspose t.dims then .ofOpt t.transposeRaw else .err

def vReshape (t : Tensor α) (shape : List Int) : Out (Tensor α) :=
  if validInputDims shape && validReshape t.dims (natDims shape) then .ofOpt (t.reshapeRaw (natDims shape)) else .err

def vUnSqueeze (t : Tensor α) (dim : Int) : Out (Tensor α) :=
  if validUnSqueeze dim t.dims then .ofOpt (t.unSqueezeRaw dim.toNat) else .err

def vSqueeze (t : Tensor α) (dim : Int) : Out (Tensor α) :=
  if validSqueeze dim t.dims then .ofOpt (t.squeezeRaw dim.toNat) else .err

def vFlatten (t : Tensor α) (dim : Int) : Out (Tensor α) :=
  if validDimLt dim t.dims then .ofOpt (t.flattenRaw dim.toNat) else .err

def vBroadcast (t : Tensor α) (shape : List Int) : Out (Tensor α) :=
  if validInputDims shape && validBroadcast t.dims (natDims shape) then .ofOpt (t.broadcastRaw (natDims shape)) else .err

def vBroadcastN (t : Tensor α) (shape : List Nat) : Out (Tensor α) := vBroadcast t (shape.map Int.ofNat)

def vReduceDim (t : Tensor α) (dim : Int) (trf : Tensor α → α) : Out (Tensor α) :=
  if validDimLt dim t.dims then .ofOpt (t.reduceDimRaw dim.toNat trf) else .err

inductive Reducer | sum | max | min | avg | var | std | mean
deriving Repr, DecidableEq

def Reducer.fn : Reducer → Tensor α → α
  | .sum => Tensor.sum | .max => Tensor.max | .min => Tensor.min | .avg => Tensor.avg
  | .var => Tensor.var | .std => Tensor.std | .mean => Tensor.mean

def vAlong (r : Reducer) (t : Tensor α) (dim : Int) : Out (Tensor α) := vReduceDim t dim r.fn

inductive Unary | exp | log | sin | cos | tan | sinh | cosh | tanh
deriving Repr, DecidableEq

def Unary.fn : Unary → α → α
  | .exp => Scalar.exp | .log => Scalar.log | .sin => Scalar.sin | .cos => Scalar.cos | .tan => Scalar.tan
  | .sinh => Scalar.sinh | .cosh => Scalar.cosh | .tanh => Scalar.tanh

def vScale (t : Tensor α) (u : α) : Tensor α := t.map (fun a => mul u a)
def vPow (t : Tensor α) (u : α) : Tensor α := t.map (fun a => pow a u)
def vUnary (f : Unary) (t : Tensor α) : Tensor α := t.map f.fn

/-- the element-wise binary operations that require equal dims (`ValidateBinaryFuncDimsMatch`) -/
inductive Cmp | eq | ne | gt | ge | lt | le | elmax | elmin
deriving Repr, DecidableEq

def Cmp.fn : Cmp → α → α → α
  | .eq => fun a b => ofBool (near a b)
  | .ne => fun a b => ofBool (!near a b)
  | .gt => fun a b => ofBool (Scalar.gt a b)
  | .ge => fun a b => ofBool (Scalar.ge a b)
  | .lt => fun a b => ofBool (Scalar.lt a b)
  | .le => fun a b => ofBool (Scalar.le a b)
  | .elmax => Scalar.max
  | .elmin => Scalar.min

def vCmp (c : Cmp) (a b : Tensor α) : Out (Tensor α) :=
  if validDimsMatch a.dims b.dims then .ofOpt (Tensor.zipRaw c.fn a b) else .err

inductive Arith | add | sub | mul | div
deriving Repr, DecidableEq

def Arith.fn : Arith → α → α → α
  | .add => Scalar.add | .sub => Scalar.sub | .mul => Scalar.mul | .div => Scalar.div

/-- `broadcastForBinaryOp` -/
def vBroadcastPair (a b : Tensor α) : Out (Tensor α × Tensor α) := do
  let shape := targetBroadcastDims a.dims b.dims
  let a' ← vBroadcastN a shape
  let b' ← vBroadcastN b shape
  pure (a', b')

/-- `broadcastForMatMul`: each operand keeps its own trailing two dims -/
def matMulShape (shape own : List Nat) : List Nat := shape.dropLast.dropLast ++ own.drop (own.length - 2)

def vBroadcastPairMM (a b : Tensor α) : Out (Tensor α × Tensor α) := do
  let shape := targetBroadcastDims a.dims b.dims
  let a' ← vBroadcastN a (matMulShape shape a.dims)
  let b' ← vBroadcastN b (matMulShape shape b.dims)
  pure (a', b')

def vArith (o : Arith) (a b : Tensor α) : Out (Tensor α) := do
  let (a', b') ← vBroadcastPair a b
  .ofOpt (Tensor.zipRaw o.fn a' b')

def vDot (a b : Tensor α) : Out (Tensor α) :=
  if validDot a.dims b.dims then do
    let (a', b') ← vBroadcastPair a b
    .ofOpt (a'.dotRaw b')
  else .err

def vMatMul (a b : Tensor α) : Out (Tensor α) :=
  if validMatMul a.dims b.dims then do
    let (a', b') ← vBroadcastPairMM a b
    .ofOpt (a'.matMulRaw b')
  else .err

/-- `t.equals(u)`: `o.sum() >= float64(n)` -/
def vEquals (a b : Tensor α) : Out Bool :=
  if validDimsMatch a.dims b.dims then
    .ofOpt ((Tensor.zipRaw (Cmp.fn .eq) a b).map (fun o => Scalar.ge o.sum (ofNat o.numElems)))
  else .err

def vConcat (ts : List (Tensor α)) (dim : Int) : Out (Tensor α) :=
  if validConcat (ts.map (·.dims)) dim then .ofOpt (concatRaw ts dim.toNat) else .err

end

/-! ## TensorOf: nested caller data -/

/-- nested `float64` slices; the static Go type fixes the depth, lengths may be ragged -/
inductive NData (α : Type) where
  | leaf (v : α)
  | node (xs : List (NData α))
deriving Repr

namespace NData
variable {α : Type}

def len : NData α → Nat
  | leaf _ => 0
  | node xs => xs.length

/-- first-element chain of lengths: `len(v)`, `len(v[0])`, `len(v[0][0])`, …; `none` = `v[0]` panics -/
def firstDims : Nat → NData α → Option (List Nat)
  | 0, _ => some []
  | k + 1, node xs =>
      match xs with
      | [] => if k = 0 then some [0] else none
      | x :: _ => (firstDims k x).map (xs.length :: ·)
  | _ + 1, leaf _ => none

mutual
/-- row-major leaves -/
def flat : NData α → List α
  | leaf v => [v]
  | node xs => flatList xs
def flatList : List (NData α) → List α
  | [] => []
  | x :: xs => flat x ++ flatList xs
end

mutual
/-- exact shape check: every node at depth j has `dims[j]` children -/
def hasShape : List Nat → NData α → Bool
  | [], leaf _ => true
  | d :: ds, node xs => xs.length == d && allHaveShape ds xs
  | _, _ => false
def allHaveShape : List Nat → List (NData α) → Bool
  | _, [] => true
  | ds, x :: xs => hasShape ds x && allHaveShape ds xs
end

mutual
/-- no empty slice anywhere (`zeroLenErr`) -/
def noEmpty : NData α → Bool
  | leaf _ => true
  | node xs => !xs.isEmpty && noEmptyList xs
def noEmptyList : List (NData α) → Bool
  | [] => true
  | x :: xs => noEmpty x && noEmptyList xs
end

end NData

/-- `ValidateInputDataDimUnity` as repaired (D7): all siblings at every depth agree with the first-element
    chain, i.e. the data are rectangular and nowhere empty. `depth` is the static nesting depth (0..4). -/
def validData (depth : Nat) (x : NData α) : Bool :=
  x.noEmpty &&
  match NData.firstDims depth x with
  | some dims => x.hasShape dims
  | none => false

/-- `initTensorFromData`: dims from the first-element chain; copying a longer row is an index panic,
    a shorter row leaves `nil` holes (not a tensor): both `none`. -/
def tensorOfRaw (depth : Nat) (x : NData α) : Option (Tensor α) :=
  (NData.firstDims depth x).bind (fun dims => if x.hasShape dims then some ⟨dims, x.flat⟩ else none)

def vTensorOf (depth : Nat) (x : NData α) : Out (Tensor α) :=
  if validData depth x then .ofOpt (tensorOfRaw depth x) else .err

end Qeep
