import Qeep.Forward
/-!
# Reverse-mode autograd (`tensor/internal/gradtrack`, the `r.gctx = gradtrack.<Op>(…)` lines of `cputensor.go`)

A heap of nodes stands for Go's tensor objects: node id = tensor identity. A node's context is replaced in
place by `ResetGradContext`; edges look their target's context up at walk time (`gradContextOf(edge.target)`).
`Rule` has one constructor per Go `gradFn` closure and carries exactly what the closure captures.
-/

namespace Qeep
open Scalar

/-- which reduction the `Broadcast` backward rule uses: the tree has `AvgAlong` (finding D2), the
    vector-Jacobian product needs a sum -/
inductive BMode | mean | sum
deriving Repr, DecidableEq

inductive Rule (α : Type) where
  /-- Concat: `gy.Slice(index)`, `index` built by the constructor -/
  | concatI (index : List IRange)
  /-- Slice: `toZeros(x).Patch(index, gy)` -/
  | sliceX (x : Nat) (index : List IRange)
  /-- Patch, target operand: `gy.Patch(index, toZeros(p))` -/
  | patchX (p : Nat) (index : List IRange)
  /-- Patch, source operand: `gy.Slice(block actually written)` -/
  | patchP (p : Nat) (index : List IRange)
  | transposeX
  /-- Reshape / UnSqueeze / Squeeze / Flatten: `gy.Reshape(x.Shape())` -/
  | reshapeX (x : Nat)
  | bcastX (x y : Nat)
  | sumAlongX (x : Nat) (dim : Nat)
  /-- MaxAlong / MinAlong -/
  | extAlongX (x y : Nat) (dim : Nat)
  /-- AvgAlong / MeanAlong -/
  | avgAlongX (x : Nat) (dim : Nat)
  | varAlongX (x : Nat) (dim : Nat)
  | stdAlongX (x y : Nat) (dim : Nat)
  | scaleX (a : α)
  | powX (x : Nat) (a : α)
  | expX (y : Nat)
  | logX (x : Nat)
  | sinX (x : Nat) | cosX (x : Nat) | tanX (x : Nat) | sinhX (x : Nat) | coshX (x : Nat) | tanhX (x : Nat)
  /-- ElMax / ElMin towards operand `a` (`b` the other one): `gy * (y.Eq(a) - a.Eq(b).Scale(0.5))` -/
  | elext (y a b : Nat)
  /-- Add (both), Sub (first): `gy` itself -/
  | idG
  /-- Sub (second): `gy.Scale(-1)` -/
  | negG
  /-- Mul: `gy.Mul(other)` -/
  | mulG (other : Nat)
  | divA (b : Nat)
  | divB (a b : Nat)
  /-- Dot: `gy.UnSqueeze(rank).Mul(other)` -/
  | dotG (other : Nat)
  | matmulA (b : Nat)
  | matmulB (a : Nat)
deriving Repr

structure Edge (α : Type) where
  target : Nat
  rule : Rule α
deriving Repr

structure Ctx (α : Type) where
  tracked : Bool := false
  dirty : Bool := false
  grad : Option (Tensor α) := none
  edges : List (Edge α) := []
deriving Repr

structure Node (α : Type) where
  val : Tensor α
  ctx : Ctx α
deriving Repr

abbrev Heap (α : Type) := Array (Node α)

variable {α : Type}

namespace Heap
def val (H : Heap α) (n : Nat) : Tensor α := match H[n]? with | some nd => nd.val | none => ⟨[], []⟩
def ctx (H : Heap α) (n : Nat) : Ctx α := match H[n]? with | some nd => nd.ctx | none => {}
def setCtx (H : Heap α) (n : Nat) (c : Ctx α) : Heap α :=
  match H[n]? with | some nd => H.set! n { nd with ctx := c } | none => H
def tracked (H : Heap α) (n : Nat) : Bool := (H.ctx n).tracked
def dirty (H : Heap α) (n : Nat) : Bool := (H.ctx n).dirty
def grad (H : Heap α) (n : Nat) : Option (Tensor α) := (H.ctx n).grad
end Heap

/-- `NewGradContext(tracked)` -/
def freshCtx (tracked : Bool) : Ctx α := { tracked := tracked }
/-- `NewDirtyGradContext()` -/
def dirtyCtx : Ctx α := { dirty := true }

/-- the three-way head of every constructor in `gradients.go` -/
def mkCtx (H : Heap α) (operands : List Nat) (edges : List (Edge α)) : Ctx α :=
  if operands.any H.dirty then dirtyCtx
  else if operands.all (fun n => !H.tracked n) then freshCtx false
  else { tracked := true, edges := edges }

/-- heap monad: public operations allocate nodes; `err` / `panic` discard the partial state -/
abbrev HM (α : Type) := StateT (Heap α) Out

def alloc (v : Tensor α) (c : Ctx α) : HM α Nat := fun H => .ok (H.size, H.push ⟨v, c⟩)
def liftOut {β : Type} (o : Out β) : HM α β := fun H => o.bind (fun v => .ok (v, H))
def getHeap : HM α (Heap α) := fun H => .ok (H, H)

section
variable [Scalar α]

/-! ## Rule evaluation (the body of each `gradFn`) -/

/-- `reducerBroadcasted(y, x, dim)` -/
def reducerBroadcasted (y : Tensor α) (xdims : List Nat) (dim : Nat) : Out (Tensor α) := do
  let o ← vUnSqueeze y dim
  vBroadcastN o xdims

/-- the block `Patch` writes: an omitted or `{0,0}` range places the source at offset 0 -/
def patchedBlock (index : List IRange) (pshape : List Nat) : List IRange :=
  match pshape, index with
  | [], _ => []
  | s :: ss, [] => (0, (s : Int)) :: patchedBlock [] ss
  | s :: ss, r :: rest => (if r.1 == 0 && r.2 == 0 then (0, (s : Int)) else r) :: patchedBlock rest ss

/-- first loop of the Broadcast rule: reduce the extra leading dims along 0 -/
def bcastLead (red : Tensor α → Int → Out (Tensor α)) : Nat → Tensor α → Out (Tensor α)
  | 0, gy => .ok gy
  | k + 1, gy => do let gy' ← red gy 0; bcastLead red k gy'

/-- second loop: positions `j` where the source size differs from the target size -/
def bcastExpand (red : Tensor α → Int → Out (Tensor α)) : Nat → List Nat → List Nat → Tensor α → Out (Tensor α)
  | j, s :: src, d :: dst, gy =>
      if s ≠ d then do
        let g1 ← red gy j
        let g2 ← vUnSqueeze g1 j
        bcastExpand red (j + 1) src dst g2
      else bcastExpand red (j + 1) src dst gy
  | _, _, _, gy => .ok gy

def bcastRule (bm : BMode) (srcDims dstDims : List Nat) (gy : Tensor α) : Out (Tensor α) := do
  let red := fun (t : Tensor α) (d : Int) => vAlong (match bm with | .mean => .avg | .sum => .sum) t d
  let lead := dstDims.length - srcDims.length
  let g ← bcastLead red lead gy
  bcastExpand red 0 srcDims (dstDims.drop lead) g

def isZero (a : α) : Bool := le a zero && le zero a

def evalRule (bm : BMode) (H : Heap α) (gy : Tensor α) : Rule α → Out (Tensor α)
  | .concatI index => vSlice gy index
  | .sliceX x index => vPatch (vScale (H.val x) zero) index gy
  | .patchX p index => vPatch gy index (vScale (H.val p) zero)
  | .patchP p index => vSlice gy (patchedBlock index (H.val p).dims)
  | .transposeX => vTranspose gy
  | .reshapeX x => vReshape gy ((H.val x).dims.map Int.ofNat)
  | .bcastX x y => bcastRule bm (H.val x).dims (H.val y).dims gy
  | .sumAlongX x dim => reducerBroadcasted gy (H.val x).dims dim
  | .extAlongX x y dim => do
      let gyb ← reducerBroadcasted gy (H.val x).dims dim
      let yb ← reducerBroadcasted (H.val y) (H.val x).dims dim
      let gx ← vCmp .eq (H.val x) yb
      vArith .mul gyb gx
  | .avgAlongX x dim => do
      let gyb ← reducerBroadcasted gy (H.val x).dims dim
      let n : α := ofNat ((H.val x).dims.getD dim 0)
      pure (vScale gyb (div one n))
  | .varAlongX x dim => do
      let gyb ← reducerBroadcasted gy (H.val x).dims dim
      let n := (H.val x).dims.getD dim 0
      if n = 1 then pure (vScale (H.val x) zero) else do
      let u ← vAlong .mean (H.val x) dim
      let u ← vUnSqueeze u dim
      let gx ← vArith .sub (H.val x) u
      let gx := vScale gx (div two (ofNat (n - 1)))
      vArith .mul gyb gx
  | .stdAlongX x y dim => do
      let gyb ← reducerBroadcasted gy (H.val x).dims dim
      let n := (H.val x).dims.getD dim 0
      if n = 1 then pure (vScale (H.val x) zero) else do
      let u ← vAlong .mean (H.val x) dim
      let u ← vUnSqueeze u dim
      let gx ← vArith .sub (H.val x) u
      let yu ← vUnSqueeze (H.val y) dim
      let gx ← vArith .div gx yu
      let gx := vScale gx (div one (ofNat (n - 1)))
      vArith .mul gyb gx
  | .scaleX a => pure (vScale gy a)
  | .powX x a =>
      if isZero a then pure (vScale (H.val x) zero)
      else vArith .mul gy (vScale (vPow (H.val x) (sub a one)) a)
  | .expX y => vArith .mul gy (H.val y)
  | .logX x => vArith .div gy (H.val x)
  | .sinX x => vArith .mul gy (vUnary .cos (H.val x))
  | .cosX x => vArith .mul gy (vScale (vUnary .sin (H.val x)) (neg one))
  | .tanX x => vArith .mul gy (vPow (vUnary .cos (H.val x)) (neg two))
  | .sinhX x => vArith .mul gy (vUnary .cosh (H.val x))
  | .coshX x => vArith .mul gy (vUnary .sinh (H.val x))
  | .tanhX x => vArith .mul gy (vPow (vUnary .cosh (H.val x)) (neg two))
  | .elext y a b => do
      let ga ← vCmp .eq (H.val y) (H.val a)
      let eq ← vCmp .eq (H.val a) (H.val b)
      let ga ← vArith .sub ga (vScale eq half)
      vArith .mul gy ga
  | .idG => pure gy
  | .negG => pure (vScale gy (neg one))
  | .mulG o => vArith .mul gy (H.val o)
  | .divA b => vArith .div gy (H.val b)
  | .divB a b => do
      let n := vScale (H.val a) (neg one)
      let d := vPow (H.val b) two
      let gb ← vArith .div n d
      vArith .mul gy gb
  | .dotG o => do
      let g ← vUnSqueeze gy gy.dims.length
      vArith .mul g (H.val o)
  | .matmulA b => do
      let ga ← vTranspose (H.val b)
      vMatMul gy ga
  | .matmulB a => do
      let gb ← vTranspose (H.val a)
      vMatMul gb gy

/-! ## Public operations with gradient contexts (`cputensor.go`) -/

def hLeaf (v : Tensor α) (tracked : Bool) : HM α Nat := alloc v (freshCtx tracked)

/-- unary-style operation: one operand, one edge -/
def hOp1 (x : Nat) (v : Out (Tensor α)) (rule : Nat → Rule α) : HM α Nat := do
  let r ← liftOut v
  let H ← getHeap
  alloc r (mkCtx H [x] [⟨x, rule H.size⟩])

def hSlice (x : Nat) (index : List IRange) : HM α Nat := do
  let H ← getHeap; hOp1 x (vSlice (H.val x) index) (fun _ => .sliceX x index)
def hTranspose (x : Nat) : HM α Nat := do
  let H ← getHeap; hOp1 x (vTranspose (H.val x)) (fun _ => .transposeX)
def hReshape (x : Nat) (shape : List Int) : HM α Nat := do
  let H ← getHeap; hOp1 x (vReshape (H.val x) shape) (fun _ => .reshapeX x)
def hUnSqueeze (x : Nat) (dim : Int) : HM α Nat := do
  let H ← getHeap; hOp1 x (vUnSqueeze (H.val x) dim) (fun _ => .reshapeX x)
def hSqueeze (x : Nat) (dim : Int) : HM α Nat := do
  let H ← getHeap; hOp1 x (vSqueeze (H.val x) dim) (fun _ => .reshapeX x)
def hFlatten (x : Nat) (dim : Int) : HM α Nat := do
  let H ← getHeap; hOp1 x (vFlatten (H.val x) dim) (fun _ => .reshapeX x)
def hBroadcast (x : Nat) (shape : List Int) : HM α Nat := do
  let H ← getHeap; hOp1 x (vBroadcast (H.val x) shape) (fun y => .bcastX x y)
/-- the backward rule each reduction attaches -/
def alongRule (r : Reducer) (x y dim : Nat) : Rule α :=
  match r with
  | .sum => .sumAlongX x dim
  | .max | .min => .extAlongX x y dim
  | .avg | .mean => .avgAlongX x dim
  | .var => .varAlongX x dim
  | .std => .stdAlongX x y dim

def hAlong (r : Reducer) (x : Nat) (dim : Int) : HM α Nat := do
  let H ← getHeap
  hOp1 x (vAlong r (H.val x) dim) (fun y => alongRule r x y dim.toNat)
def hScale (x : Nat) (a : α) : HM α Nat := do
  let H ← getHeap; hOp1 x (.ok (vScale (H.val x) a)) (fun _ => .scaleX a)
def hPow (x : Nat) (a : α) : HM α Nat := do
  let H ← getHeap; hOp1 x (.ok (vPow (H.val x) a)) (fun _ => .powX x a)
/-- the backward rule each unary function attaches -/
def unaryRule (f : Unary) (x y : Nat) : Rule α :=
  match f with
  | .exp => .expX y | .log => .logX x | .sin => .sinX x | .cos => .cosX x | .tan => .tanX x
  | .sinh => .sinhX x | .cosh => .coshX x | .tanh => .tanhX x

def hUnary (f : Unary) (x : Nat) : HM α Nat := do
  let H ← getHeap
  hOp1 x (.ok (vUnary f (H.val x))) (fun y => unaryRule f x y)

def hPatch (x : Nat) (index : List IRange) (p : Nat) : HM α Nat := do
  let H ← getHeap
  let r ← liftOut (vPatch (H.val x) index (H.val p))
  alloc r (mkCtx H [x, p] [⟨x, .patchX p index⟩, ⟨p, .patchP p index⟩])

/-- Eq … Le: always `NewGradContext(false)`; ElMax / ElMin: tie-aware rule -/
def hCmp (c : Cmp) (a b : Nat) : HM α Nat := do
  let H ← getHeap
  let r ← liftOut (vCmp c (H.val a) (H.val b))
  match c with
  | .elmax | .elmin => alloc r (mkCtx H [a, b] [⟨a, .elext H.size a b⟩, ⟨b, .elext H.size b a⟩])
  | _ => alloc r (freshCtx false)

/-- `broadcastForBinaryOp`: both operands go through the public `Broadcast` -/
def hBroadcastPair (a b : Nat) : HM α (Nat × Nat) := do
  let H ← getHeap
  let shape := (targetBroadcastDims (H.val a).dims (H.val b).dims).map Int.ofNat
  let a' ← hBroadcast a shape
  let b' ← hBroadcast b shape
  pure (a', b')

def hBroadcastPairMM (a b : Nat) : HM α (Nat × Nat) := do
  let H ← getHeap
  let shape := targetBroadcastDims (H.val a).dims (H.val b).dims
  let a' ← hBroadcast a ((matMulShape shape (H.val a).dims).map Int.ofNat)
  let b' ← hBroadcast b ((matMulShape shape (H.val b).dims).map Int.ofNat)
  pure (a', b')

def hArith (o : Arith) (a b : Nat) : HM α Nat := do
  let (a', b') ← hBroadcastPair a b
  let H ← getHeap
  let r ← liftOut (.ofOpt (Tensor.zipRaw o.fn (H.val a') (H.val b')))
  let edges : List (Edge α) := match o with
    | .add => [⟨a', .idG⟩, ⟨b', .idG⟩]
    | .sub => [⟨a', .idG⟩, ⟨b', .negG⟩]
    | .mul => [⟨a', .mulG b'⟩, ⟨b', .mulG a'⟩]
    | .div => [⟨a', .divA b'⟩, ⟨b', .divB a' b'⟩]
  alloc r (mkCtx H [a', b'] edges)

def hDot (a b : Nat) : HM α Nat := do
  let H ← getHeap
  if validDot (H.val a).dims (H.val b).dims then do
    let (a', b') ← hBroadcastPair a b
    let H ← getHeap
    let r ← liftOut (.ofOpt ((H.val a').dotRaw (H.val b')))
    alloc r (mkCtx H [a', b'] [⟨a', .dotG b'⟩, ⟨b', .dotG a'⟩])
  else liftOut .err

def hMatMul (a b : Nat) : HM α Nat := do
  let H ← getHeap
  if validMatMul (H.val a).dims (H.val b).dims then do
    let (a', b') ← hBroadcastPairMM a b
    let H ← getHeap
    let r ← liftOut (.ofOpt ((H.val a').matMulRaw (H.val b')))
    alloc r (mkCtx H [a', b'] [⟨a', .matmulA b'⟩, ⟨b', .matmulB a'⟩])
  else liftOut .err

/-- ranges the Concat constructor builds: whole dims except `[base, base+shape[dim])` at `dim` -/
def concatIndex (rank dim : Nat) (base len : Nat) : List IRange :=
  (List.range rank).map (fun i => if i = dim then ((base : Int), ((base + len : Nat) : Int)) else (0, 0))

def concatEdges (H : Heap α) (dim : Nat) : List Nat → Nat → List (Edge α)
  | [], _ => []
  | x :: xs, base =>
      let shape := (H.val x).dims
      let len := shape.getD dim 0
      ⟨x, .concatI (concatIndex shape.length dim base len)⟩ :: concatEdges H dim xs (base + len)

def hConcat (xs : List Nat) (dim : Int) : HM α Nat := do
  let H ← getHeap
  let r ← liftOut (vConcat (xs.map H.val) dim)
  alloc r (mkCtx H xs (concatEdges H dim.toNat xs 0))

/-! ## Back-propagation (`back_propagation.go`) -/

/-- tracked targets of a node's back edges, in edge order -/
def succs (H : Heap α) (n : Nat) : List Nat := ((H.ctx n).edges.map (·.target)).filter H.tracked

/-- depth-first visit with a visited list; returns newest-first = reverse post-order.
    Edges point to older tensors (smaller ids), so fuel `n + 1` suffices for node `n`. -/
def visit (S : Nat → List Nat) : (fuel : Nat) → Nat → List Nat → List Nat
  | 0, _, done => done
  | f + 1, n, done =>
      if n ∈ done then done
      else n :: (S n).foldl (fun d c => visit S f c d) done

/-- `backwardOrder(t)` -/
def backwardOrder (H : Heap α) (root : Nat) : List Nat :=
  if H.tracked root then visit (succs H) (root + 1) root [] else []

def markDirty (H : Heap α) (ns : List Nat) : Heap α :=
  ns.foldl (fun H n => H.setCtx n { H.ctx n with dirty := true }) H

/-! The walk itself is generic in the gradient domain `D` (for the code: tensors), the accumulation
`add` (for the code: the public broadcasting `Add`, which may fail) and the per-edge pullbacks `pull`
(for the code: `evalRule`, the body of the edge's `gradFn`). The gradient store is a function from tensor
identity to the gradient accumulated so far. -/

/-- state of a walk that may stop with an error after having changed part of the store -/
structure BPSt (D : Type) where
  grads : Nat → Option D
  status : Out Unit := .ok ()
  /-- number of rule evaluations (`edge.gradFn()` calls) -/
  calls : Nat := 0

def updStore {D : Type} (G : Nat → Option D) (n : Nat) (g : D) : Nat → Option D :=
  fun m => if m = n then some g else G m

/-- `accumulateGrad` -/
def accumG {D : Type} (add : D → D → Out D) (G : Nat → Option D) (n : Nat) (g : D) : Out (Nat → Option D) :=
  match G n with
  | none => .ok (updStore G n g)
  | some old => (add old g).bind (fun s => .ok (updStore G n s))

/-- `backward(edge)` for an edge of node `u` -/
def stepEdge {D R : Type} (add : D → D → Out D) (pull : R → D → Out D) (tracked : Nat → Bool)
    (u : Nat) (s : BPSt D) (e : Nat × R) : BPSt D :=
  match s.status with
  | .ok _ =>
    if tracked e.1 then
      match s.grads u with
      | none => { s with status := .panic }  -- `y.Gradient()` is nil: unreachable in topological order
      | some gy =>
        match pull e.2 gy with
        | .ok g =>
          match accumG add s.grads e.1 g with
          | .ok G' => { grads := G', status := .ok (), calls := s.calls + 1 }
          | .err => { s with status := .err, calls := s.calls + 1 }
          | .panic => { s with status := .panic, calls := s.calls + 1 }
        | .err => { s with status := .err, calls := s.calls + 1 }
        | .panic => { s with status := .panic, calls := s.calls + 1 }
    else s
  | _ => s

/-- the loop `for _, u := range order { for _, e := range backEdges(u) { backward(e) } }` -/
def runBP {D R : Type} (add : D → D → Out D) (pull : R → D → Out D) (tracked : Nat → Bool)
    (edges : Nat → List (Nat × R)) (order : List Nat) (s : BPSt D) : BPSt D :=
  order.foldl (fun s u => (edges u).foldl (stepEdge add pull tracked u) s) s

/-- write the store back into the contexts -/
def writeBack (H : Heap α) (G : Nat → Option (Tensor α)) : Heap α :=
  H.mapIdx (fun i nd => { nd with ctx := { nd.ctx with grad := G i } })

/-- result of `BackPropagate` -/
structure BPState (α : Type) where
  heap : Heap α
  status : Out Unit := .ok ()
  calls : Nat := 0

def edgesOf (H : Heap α) (u : Nat) : List (Nat × Rule α) := (H.ctx u).edges.map (fun e => (e.target, e.rule))

/-- `BackPropagate(t)` -/
def backprop (bm : BMode) (H : Heap α) (root : Nat) : BPState α :=
  if !H.tracked root then { heap := H } else
  let order := backwardOrder H root
  let H1 := markDirty H order
  let G0 : Nat → Option (Tensor α) := fun n => H1.grad n
  -- neutral tensor; same shape, all ones (`toOnes(t) = t.Pow(0)`)
  match accumG (vArith .add) G0 root (vPow (H1.val root) zero) with
  | .ok G1 =>
    let s := runBP (vArith .add) (fun r gy => evalRule bm H1 gy r) H1.tracked (edgesOf H1) order { grads := G1 }
    { heap := writeBack H1 s.grads, status := s.status, calls := s.calls }
  | .err => { heap := H1, status := .err }
  | .panic => { heap := H1, status := .panic }

/-- `ResetGradContext(tracked)` -/
def resetCtx (H : Heap α) (n : Nat) (tracked : Bool) : Heap α := H.setCtx n (freshCtx tracked)

/-- `t.Gradient()` handed to the caller: the gradient tensor object; its own context is spent and untracked
    (it was computed from spent tensors), see `QeepProps.C08.gradients_untracked` -/
def hGradNode (n : Nat) : HM α (Option Nat) := do
  let H ← getHeap
  match H.grad n with
  | none => pure none
  | some g => do let k ← alloc g dirtyCtx; pure (some k)

end
end Qeep
