/-!
# Scalar domain of the model

`Scalar α` lists exactly the float64 primitives the Go code uses (`tensor/internal/cputensor/operators.go`,
`reducers.go`, `gradtrack/gradients.go`, `component/**`).  The model is generic in it:

* `Float`  — the driver instance (IEEE-754 binary64, like Go's `float64`); used by the correspondence runs.
* `Rat`    — exact witnesses / `decide`-style examples (transcendentals are junk there and never used).
* `ℝ`      — declared in `QeepProofs` from Mathlib (noncomputable); what the theorems are about.

No instances of `Add α` … are derived from `Scalar α` on purpose: over `ℝ` that would create a second,
non-syntactically-equal copy of Mathlib's arithmetic instances.
-/

namespace Qeep

class Scalar (α : Type) where
  add : α → α → α
  sub : α → α → α
  mul : α → α → α
  div : α → α → α
  /-- `a < b` as Go's `<` on float64 -/
  lt : α → α → Bool
  /-- `a ≤ b` as Go's `<=` -/
  le : α → α → Bool
  /-- `math.Pow(x, a)` -/
  pow : α → α → α
  exp : α → α
  log : α → α
  sin : α → α
  cos : α → α
  tan : α → α
  sinh : α → α
  cosh : α → α
  tanh : α → α
  sqrt : α → α
  abs : α → α
  /-- `math.Max` / `math.Min` (used by ElMax / ElMin) -/
  max : α → α → α
  min : α → α → α
  /-- `float64(n)` for a non-negative int -/
  ofNat : Nat → α
  /-- decimal literal `m * 10^(-e)` correctly rounded, e.g. `1e-12 = ofSci 1 12` -/
  ofSci : Nat → Nat → α
  /-- `-x` (only used for literals and `Scale(-1)` arguments) -/
  neg : α → α
  /-- identities of the Max / Min folds: `math.Inf(-1)`, `math.Inf(+1)` -/
  negInf : α
  posInf : α
  /-- `int(x)` truncation used by `metrics.Accuracy` on a non-negative whole number -/
  toNat : α → Nat

namespace Scalar
variable {α : Type} [Scalar α]

def zero : α := ofNat 0
def one : α := ofNat 1
def two : α := ofNat 2
/-- 0.5 -/
def half : α := ofSci 5 1
/-- `float64EqualityThreshold = 1e-240` -/
def eqThr : α := ofSci 1 240
/-- `epsilon = 1e-12` of the losses -/
def eps : α := ofSci 1 12
/-- the constant expression `1 - epsilon` (evaluated exactly, then rounded) -/
def oneMinusEps : α := ofSci 999999999999 12
def gt (a b : α) : Bool := lt b a
def ge (a b : α) : Bool := le b a
/-- `math.Abs(a-b) <= float64EqualityThreshold` -/
def near (a b : α) : Bool := le (abs (sub a b)) eqThr
def ofBool (b : Bool) : α := if b then one else zero
end Scalar

/-- Go's `math.Max`: `+Inf` if either is `+Inf` (even next to a NaN), else NaN if either is NaN, otherwise the larger;
    `Max(+0,-0) = +0`. -/
def floatMax (a b : Float) : Float :=
  let inf : Float := 1.0 / 0.0
  if a == inf || b == inf then inf else
  if a.isNaN || b.isNaN then (0.0 / 0.0) else if a > b then a else if b > a then b else
    -- equal (incl. ±0): Go returns +0 for Max(+0,-0)
    if a == 0.0 then (if a.toBits == 0 then a else b) else a

/-- Go's `math.Min`: `-Inf` if either is `-Inf` (even next to a NaN), else NaN if either is NaN, otherwise the smaller;
    `Min(+0,-0) = -0`. -/
def floatMin (a b : Float) : Float :=
  let ninf : Float := -1.0 / 0.0
  if a == ninf || b == ninf then ninf else
  if a.isNaN || b.isNaN then (0.0 / 0.0) else if a < b then a else if b < a then b else
    if a == 0.0 then (if a.toBits == 0 then b else a) else a

instance : Scalar Float where
  add := (· + ·)
  sub := (· - ·)
  mul := (· * ·)
  div := (· / ·)
  lt a b := a < b
  le a b := a ≤ b
  pow := Float.pow
  exp := Float.exp
  log := Float.log
  sin := Float.sin
  cos := Float.cos
  tan := Float.tan
  sinh := Float.sinh
  cosh := Float.cosh
  tanh := Float.tanh
  sqrt := Float.sqrt
  abs := Float.abs
  max := floatMax
  min := floatMin
  ofNat := Float.ofNat
  ofSci m e := OfScientific.ofScientific m true e
  neg x := -x
  negInf := -(1.0 / 0.0)
  posInf := 1.0 / 0.0
  toNat x := x.toUInt64.toNat

/-- Exact rational instance for witnesses. `pow` handles non-negative integer exponents and `-1`, `-2`
    at non-zero bases; every transcendental is junk (`0`) and must not be used in a witness. -/
def ratPow (x a : Rat) : Rat :=
  if a.den = 1 then
    if 0 ≤ a.num then x ^ a.num.toNat
    else (1 / x) ^ (a.num.natAbs)
  else 0

instance : Scalar Rat where
  add := (· + ·)
  sub := (· - ·)
  mul := (· * ·)
  div := (· / ·)
  lt a b := decide (a < b)
  le a b := decide (a ≤ b)
  pow := ratPow
  exp _ := 0
  log _ := 0
  sin _ := 0
  cos _ := 0
  tan _ := 0
  sinh _ := 0
  cosh _ := 0
  tanh _ := 0
  sqrt _ := 0
  abs x := if x < 0 then -x else x
  max a b := if a < b then b else a
  min a b := if a < b then a else b
  ofNat n := (n : Rat)
  ofSci m e := (m : Rat) / ((10 : Rat) ^ e)
  neg x := -x
  negInf := -1000000000000
  posInf := 1000000000000
  toNat x := x.floor.toNat

/-- Exact integer instance for kernel-checked (`decide`) witnesses: `+ - *` exact, `div` is integer division
    (witnesses only use exact quotients), `pow` handles natural exponents, everything else is junk. -/
instance : Scalar Int where
  add := (· + ·)
  sub := (· - ·)
  mul := (· * ·)
  div := (· / ·)
  lt a b := decide (a < b)
  le a b := decide (a ≤ b)
  pow x a := if 0 ≤ a then x ^ a.toNat else 0
  exp _ := 0
  log _ := 0
  sin _ := 0
  cos _ := 0
  tan _ := 0
  sinh _ := 0
  cosh _ := 0
  tanh _ := 0
  sqrt _ := 0
  abs x := if x < 0 then -x else x
  max a b := if a < b then b else a
  min a b := if a < b then a else b
  ofNat n := (n : Int)
  ofSci m e := if e = 0 then (m : Int) else 0
  neg x := -x
  negInf := -1000000000000
  posInf := 1000000000000
  toNat x := x.toNat

end Qeep
