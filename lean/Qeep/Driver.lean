import Qeep.Components
/-!
# Line-protocol driver over the model (see /verif/PROTOCOL.md)

Interprets the same program lines as the Go harness, over `Heap Float`, and prints the same outcome lines.
Caller-owned slices are plain values here: the model *is* the decoupled semantics the properties demand.
-/

namespace Qeep
namespace Driver

inductive Obj where
  | tensor (id : Option Nat)
  /-- a caller's own `tensor.Tensor` implementation: a struct embedding library tensor `id` (command `wrap`).
      As a method RECEIVER it is tensor `id` (Go promotes the embedded methods); as an ARGUMENT the library's device /
      implementation check rejects it with an error, like nil. -/
  | foreign (id : Nat)
  | ints (v : List Int)
  | ranges (v : List IRange)
  | tensors (v : List (Option Nat))
  | data (depth : Nat) (x : NData Float)
  | init (k : InitKind Float)
  | fc (idx : Nat)
  | input (seed : Option (Option Nat))
  | act (a : Activation Float)
  | loss (l : Loss)
  | metric (idx : Nat)
  | opt (lr : Float)
  | ptr (fc : Nat) (k : Nat)

structure St where
  heap : Heap Float := #[]
  tbl : List (String × Obj) := []
  fcs : Array FC := #[]
  accs : Array Accuracy := #[]
  bm : BMode := .sum

def St.get? (s : St) (name : String) : Option Obj := (s.tbl.find? (·.1 == name)).map (·.2)
def St.bind (s : St) (name : String) (o : Obj) : St :=
  { s with tbl := (name, o) :: s.tbl.filter (·.1 != name) }
def St.unbind (s : St) (name : String) : St := { s with tbl := s.tbl.filter (·.1 != name) }

/-! ### lexical helpers -/

def parseF (tok : String) : Option Float := tok.toNat?.map (fun n => Float.ofBits (UInt64.ofNat n))
def showF (x : Float) : String := toString x.toBits.toNat
def parseI (tok : String) : Option Int := tok.toInt?
def showInts (l : List Nat) : String := if l.isEmpty then "-" else ",".intercalate (l.map toString)
def showFs (l : List Float) : String := ",".intercalate (l.map showF)

def parseIntList (tok : String) : Option (List Int) :=
  if tok == "-" || tok == "nil" then some [] else (tok.splitOn ",").mapM parseI

def parseRange (tok : String) : Option IRange :=
  match tok.splitOn ":" with
  | [a, b] => do let x ← parseI a; let y ← parseI b; pure (x, y)
  | _ => none

def parseRangeList (tok : String) : Option (List IRange) :=
  if tok == "-" || tok == "nil" then some [] else (tok.splitOn ",").mapM parseRange

def parseFList (tok : String) : Option (List Float) :=
  if tok == "" then some [] else (tok.splitOn ",").mapM parseF

/-- nested data literal -/
partial def parseDataAux : List Char → Option (NData Float × List Char)
  | '[' :: ']' :: rest => some (.node [], rest)
  | '[' :: rest =>
      let rec loop (cs : List Char) (acc : List (NData Float)) : Option (NData Float × List Char) :=
        match parseDataAux cs with
        | some (x, ',' :: cs') => loop cs' (x :: acc)
        | some (x, ']' :: cs') => some (.node (x :: acc).reverse, cs')
        | _ => none
      loop rest []
  | cs =>
      let digits := cs.takeWhile Char.isDigit
      if digits.isEmpty then none else
      (parseF (String.ofList digits)).map (fun f => (.leaf f, cs.drop digits.length))

def parseData (tok : String) : Option (NData Float) :=
  match parseDataAux tok.toList with
  | some (x, []) => some x
  | _ => none

def setData : NData Float → List Nat → Float → Option (NData Float)
  | .leaf _, [], v => some (.leaf v)
  | .node xs, i :: rest, v =>
      match xs[i]? with
      | some x => (setData x rest v).map (fun x' => .node (xs.set i x'))
      | none => none
  | _, _, _ => none

/-! ### argument resolution: `none` = skip -/

def St.tensorArg (s : St) (tok : String) : Option (Option Nat) :=
  if tok == "nil" then some none else
  match s.get? tok with
  | some (.tensor id) => some id
  | some (.foreign _) => some none      -- rejected like nil by `assertCPUTensor` / `validateTensorDevice`
  | _ => none

/-- a receiver: bound, non-nil tensor -/
def St.recv (s : St) (tok : String) : Option Nat :=
  match s.get? tok with
  | some (.tensor (some id)) => some id
  | some (.foreign id) => some id
  | _ => none

/-- operand of a component entry point: (tensor or nil, is it a foreign implementation?) -/
def St.compArg (s : St) (tok : String) : Option (Option Nat × Bool) :=
  if tok == "nil" then some (none, false) else
  match s.get? tok with
  | some (.tensor id) => some (id, false)
  | some (.foreign id) => some (some id, true)
  | _ => none

def St.isForeign (s : St) (tok : String) : Bool :=
  match s.get? tok with | some (.foreign _) => true | _ => false

def St.intsArg (s : St) (tok : String) : Option (List Int) :=
  if tok.startsWith "$" then
    match s.get? (tok.drop 1).toString with
    | some (.ints v) => some v
    | _ => none
  else parseIntList tok

def St.rangesArg (s : St) (tok : String) : Option (List IRange) :=
  if tok.startsWith "$" then
    match s.get? (tok.drop 1).toString with
    | some (.ranges v) => some v
    | _ => none
  else parseRangeList tok

def St.tensorsArg (s : St) (tok : String) : Option (List (Option Nat)) :=
  if tok.startsWith "$" then
    match s.get? (tok.drop 1).toString with
    | some (.tensors v) => some v
    | _ => none
  else if tok == "-" || tok == "nil" then some []
  else (tok.splitOn ",").mapM s.tensorArg

/-- `<conf>` → (valid?, tracked) -/
def parseConf (tok : String) : Option (Bool × Bool) :=
  match tok with
  | "T" => some (true, true)
  | "U" => some (true, false)
  | "nil" => some (true, false)
  | "bad" => some (false, true)
  | "bad7" => some (false, true)
  | _ => none

def parseRaw (tok : String) : Option (List Float × List Float) :=
  if tok.startsWith "raw=" then
    match ((tok.drop 4).toString).splitOn ";" with
    | [u, n] =>
      if u.startsWith "u:" && n.startsWith "n:" then do
        let us ← parseFList (u.drop 2).toString
        let ns ← parseFList (n.drop 2).toString
        pure (us, ns)
      else none
    | _ => none
  else none

/-! ### results -/

inductive Res where
  | ok (payload : String)
  | err | panic | skip | bad

def Res.show : Res → String
  | .ok "" => "ok"
  | .ok p => "ok " ++ p
  | .err => "err" | .panic => "panic" | .skip => "skip" | .bad => "bad"

/-- like the harness: tensors above 100000 elements are not printed -/
def obsTensor (t : Tensor Float) : String :=
  if t.data.length > 100000 then s!"dims={showInts t.dims} data=TOOBIG" else s!"dims={showInts t.dims} data={showFs t.data}"

def obsNode (H : Heap Float) (n : Nat) : String :=
  let c := H.ctx n
  let g := match c.grad with
    | none => "nil"
    | some g => s!"dims={showInts g.dims};data={showFs g.data}"
  s!"{obsTensor (H.val n)} tr={if c.tracked then 1 else 0} di={if c.dirty then 1 else 0} ed={c.edges.length} grad={g}"

/-- run a heap computation that yields a tensor id; bind on success -/
def runBind (s : St) (dst : Option String) (m : HM Float Nat) : St × Res :=
  match m s.heap with
  | .ok (id, H) =>
    let s := { s with heap := H }
    (match dst with | some d => s.bind d (.tensor (some id)) | none => s, .ok "")
  | .err => (match dst with | some d => s.unbind d | none => s, .err)
  | .panic => (match dst with | some d => s.unbind d | none => s, .panic)

def failBind (s : St) (dst : Option String) (r : Res) : St × Res :=
  (match dst with | some d => s.unbind d | none => s, r)

def reducerOf : String → Option Reducer
  | "sum" => some .sum | "max" => some .max | "min" => some .min | "avg" => some .avg
  | "var" => some .var | "std" => some .std | "mean" => some .mean | _ => none

def alongOf (c : String) : Option Reducer :=
  if c.endsWith "along" then reducerOf (c.dropEnd 5).toString else none

def unaryOf : String → Option Unary
  | "exp" => some .exp | "log" => some .log | "sin" => some .sin | "cos" => some .cos | "tan" => some .tan
  | "sinh" => some .sinh | "cosh" => some .cosh | "tanh" => some .tanh | _ => none

def cmpOf : String → Option Cmp
  | "eq" => some .eq | "ne" => some .ne | "gt" => some .gt | "ge" => some .ge | "lt" => some .lt
  | "le" => some .le | "elmax" => some .elmax | "elmin" => some .elmin | _ => none

def arithOf : String → Option Arith
  | "add" => some .add | "sub" => some .sub | "mul" => some .mul | "div" => some .div | _ => none

/-- tensors handed to `Concat`: `validateTensorsDeviceUnity` -/
def concatArgs (ts : List (Option Nat)) : Out (List Nat) :=
  if ts.length < 2 then .err else
  match ts.mapM id with
  | some xs => .ok xs
  | none => .err

def initOf (kind : String) (args : List String) : Option (InitKind Float) :=
  match kind, args with
  | "full", ["nil"] => some (.full none)
  | "full", [v] => (parseF v).map (fun x => .full (some x))
  | "uniform", ["nil"] => some (.uniform none)
  | "uniform", [a, b] => do let x ← parseF a; let y ← parseF b; pure (.uniform (some (x, y)))
  | "normal", ["nil"] => some (.normal none)
  | "normal", [a, b] => do let x ← parseF a; let y ← parseF b; pure (.normal (some (x, y)))
  | "heuniform", ["nil"] => some (.heUniform none)
  | "heuniform", [a] => (parseI a).map (fun x => .heUniform (some x))
  | "henormal", ["nil"] => some (.heNormal none)
  | "henormal", [a] => (parseI a).map (fun x => .heNormal (some x))
  | "xavieruniform", ["nil"] => some (.xavierUniform none)
  | "xavieruniform", [a, b] => do let x ← parseI a; let y ← parseI b; pure (.xavierUniform (some (x, y)))
  | "xaviernormal", ["nil"] => some (.xavierNormal none)
  | "xaviernormal", [a, b] => do let x ← parseI a; let y ← parseI b; pure (.xavierNormal (some (x, y)))
  | _, _ => none

/-- raw draws for a random constructor; when the harness reported none (concurrency runs call the random
    constructors without the seed/draw procedure) the values are unknown and replaced by zeros: such
    results are only ever observed through their shape -/
def rawOr (raw : Option (List Float × List Float)) (dims : List Int) : List Float × List Float :=
  match raw with
  | some r => r
  | none =>
    let n := if validInputDims dims then prod (natDims dims) else 0
    (List.replicate n 0.0, List.replicate n 0.0)

/-- `Initializer.Init(shape)` with the tracked CPU config; `none` = raw draws missing -/
def initCall (k : InitKind Float) (shape : List Int) (raw : Option (List Float × List Float)) : Option (Out (Tensor Float)) :=
  match initFamily k with
  | .ok fam =>
    let (us, zs) := rawOr raw shape
    vRandom fam shape us zs
  | .err => some .err
  | .panic => some .panic

/-- split a trailing `raw=` token off the argument list -/
def splitRaw (args : List String) : List String × Option (List Float × List Float) :=
  match args.getLast? with
  | some last => if last.startsWith "raw=" then (args.dropLast, parseRaw last) else (args, none)
  | none => (args, none)

/-- one command; `dst` is the handle of `dst = cmd args` -/
def exec (s : St) (dst : Option String) (cmd : String) (args : List String) : St × Res :=
  let H := s.heap
  match cmd, args with
  /- caller-owned variables -/
  | "ints", [l] => match dst, parseIntList l with
      | some d, some v => (s.bind d (.ints v), .ok "") | _, _ => (s, .bad)
  | "ranges", [l] => match dst, parseRangeList l with
      | some d, some v => (s.bind d (.ranges v), .ok "") | _, _ => (s, .bad)
  | "tensors", [l] => match dst, s.tensorsArg l with
      | some d, some v => (s.bind d (.tensors v), .ok "") | some d, none => failBind s (some d) .skip | _, _ => (s, .bad)
  | "data", [dep, lit] => match dst, dep.toNat?, parseData lit with
      | some d, some k, some x => (s.bind d (.data k x), .ok "") | _, _, _ => (s, .bad)
  | "setint", [d, pos, v] => match s.get? d, pos.toNat?, parseI v with
      | some (.ints l), some p, some x => if p < l.length then (s.bind d (.ints (l.set p x)), .ok "") else (s, .panic)
      | none, _, _ => (s, .skip) | _, _, _ => (s, .bad)
  | "setrange", [d, pos, v] => match s.get? d, pos.toNat?, parseRange v with
      | some (.ranges l), some p, some x => if p < l.length then (s.bind d (.ranges (l.set p x)), .ok "") else (s, .panic)
      | none, _, _ => (s, .skip) | _, _, _ => (s, .bad)
  | "settensor", [d, pos, t] => match s.get? d, pos.toNat?, s.tensorArg t with
      | some (.tensors l), some p, some x => if p < l.length then (s.bind d (.tensors (l.set p x)), .ok "") else (s, .panic)
      | none, _, _ => (s, .skip) | _, _, none => (s, .skip) | _, _, _ => (s, .bad)
  | "setdata", [d, path, v] => match s.get? d, parseIntList path, parseF v with
      | some (.data k x), some p, some f =>
          (match setData x (p.map Int.toNat) f with
           | some x' => (s.bind d (.data k x'), .ok "") | none => (s, .panic))
      | none, _, _ => (s, .skip) | _, _, _ => (s, .bad)
  /- constructors -/
  | "full", [conf, dims, v] => match parseConf conf, s.intsArg dims, parseF v with
      | some (okc, tr), some ds, some f =>
          if !okc then failBind s dst .err else
          runBind s dst (do let t ← liftOut (vFull ds f); hLeaf t tr)
      | some _, none, _ => failBind s dst .skip | _, _, _ => (s, .bad)
  | "zeros", [conf, dims] => match parseConf conf, s.intsArg dims with
      | some (okc, tr), some ds =>
          if !okc then failBind s dst .err else
          runBind s dst (do let t ← liftOut (vFull ds (0.0 : Float)); hLeaf t tr)
      | some _, none => failBind s dst .skip | _, _ => (s, .bad)
  | "ones", [conf, dims] => match parseConf conf, s.intsArg dims with
      | some (okc, tr), some ds =>
          if !okc then failBind s dst .err else
          runBind s dst (do let t ← liftOut (vFull ds (1.0 : Float)); hLeaf t tr)
      | some _, none => failBind s dst .skip | _, _ => (s, .bad)
  | "eye", [conf, n] => match parseConf conf, parseI n with
      | some (okc, tr), some k =>
          if !okc then failBind s dst .err else
          runBind s dst (do let t ← liftOut (vEye k); hLeaf t tr)
      | _, _ => (s, .bad)
  | "tensorof", conf :: rest =>
      let dat : Option (Option (Nat × NData Float)) := match rest with
        | [v] => if v.startsWith "$" then
              (match s.get? (v.drop 1).toString with | some (.data k x) => some (some (k, x)) | _ => some none)
            else none
        | [dep, lit] => (do let k ← dep.toNat?; let x ← parseData lit; pure (some (k, x)))
        | _ => none
      (match parseConf conf, dat with
       | some (okc, tr), some (some (k, x)) =>
          if !okc then failBind s dst .err else
          runBind s dst (do let t ← liftOut (vTensorOf k x); hLeaf t tr)
       | some _, some none => failBind s dst .skip
       | _, _ => (s, .bad))
  | "concat", [ts, dim] => match s.tensorsArg ts, parseI dim with
      | some l, some d => runBind s dst (do let xs ← liftOut (concatArgs l); hConcat xs d)
      | none, _ => failBind s dst .skip | _, _ => (s, .bad)
  | "randu", _ | "randn", _ =>
      let (args', raw) := splitRaw args
      (match args' with
       | [conf, dims, a, b] => match parseConf conf, s.intsArg dims, parseF a, parseF b with
          | some (okc, tr), some ds, some x, some y =>
              if !okc then failBind s dst .err else
              let fam : Family Float := if cmd == "randu" then .uniform x y else .normal x y
              let (us, zs) := rawOr raw ds
              (match vRandom fam ds us zs with
               | some o => runBind s dst (do let t ← liftOut o; hLeaf t tr)
               | none => failBind s dst .skip)
          | some _, none, _, _ => failBind s dst .skip | _, _, _, _ => (s, .bad)
       | _ => (s, .bad))
  /- tensor methods -/
  | "slice", [t, idx] => match s.recv t, s.rangesArg idx with
      | some x, some i => runBind s dst (hSlice x i) | _, _ => failBind s dst .skip
  | "patch", [t, idx, u] => match s.recv t, s.rangesArg idx, s.tensorArg u with
      | some x, some i, some (some p) => runBind s dst (hPatch x i p)
      | some _, some _, some none => failBind s dst .err
      | _, _, _ => failBind s dst .skip
  | "transpose", [t] => match s.recv t with
      | some x => runBind s dst (hTranspose x) | none => failBind s dst .skip
  | "reshape", [t, sh] => match s.recv t, s.intsArg sh with
      | some x, some l => runBind s dst (hReshape x l) | _, _ => failBind s dst .skip
  | "broadcast", [t, sh] => match s.recv t, s.intsArg sh with
      | some x, some l => runBind s dst (hBroadcast x l) | _, _ => failBind s dst .skip
  | "unsqueeze", [t, d] => match s.recv t, parseI d with
      | some x, some k => runBind s dst (hUnSqueeze x k) | none, _ => failBind s dst .skip | _, _ => (s, .bad)
  | "squeeze", [t, d] => match s.recv t, parseI d with
      | some x, some k => runBind s dst (hSqueeze x k) | none, _ => failBind s dst .skip | _, _ => (s, .bad)
  | "flatten", [t, d] => match s.recv t, parseI d with
      | some x, some k => runBind s dst (hFlatten x k) | none, _ => failBind s dst .skip | _, _ => (s, .bad)
  | "scale", [t, v] => match s.recv t, parseF v with
      | some x, some f => runBind s dst (hScale x f) | none, _ => failBind s dst .skip | _, _ => (s, .bad)
  | "pow", [t, v] => match s.recv t, parseF v with
      | some x, some f => runBind s dst (hPow x f) | none, _ => failBind s dst .skip | _, _ => (s, .bad)
  | "nelems", [t] => match s.recv t with
      | some x => (s, .ok s!"n={(H.val x).numElems}") | none => (s, .skip)
  | "at", [t, idx] => match s.recv t, s.intsArg idx with
      | some x, some i => (match vAt (H.val x) i with
          | .ok v => (s, .ok s!"v={showF v}") | .err => (s, .err) | .panic => (s, .panic))
      | _, _ => (s, .skip)
  | "equals", [t, u] => match s.recv t, s.tensorArg u with
      | some x, some (some y) => (match vEquals (H.val x) (H.val y) with
          | .ok b => (s, .ok s!"b={if b then 1 else 0}") | .err => (s, .err) | .panic => (s, .panic))
      | some _, some none => (s, .err)
      | _, _ => (s, .skip)
  | "shape", [t] => match s.recv t with
      | some x =>
          let ds := (H.val x).dims
          (match dst with | some d => s.bind d (.ints (ds.map Int.ofNat)) | none => s, .ok s!"dims={showInts ds}")
      | none => failBind s dst .skip
  /- autograd -/
  | "bp", [t] => match s.tensorArg t with
      | some (some x) =>
          let r := backprop s.bm H x
          ({ s with heap := r.heap }, match r.status with | .ok _ => .ok "" | .err => .err | .panic => .panic)
      | some none => (s, .err)
      | none => (s, .skip)
  | "reset", [t, b] => match s.recv t with
      | some x => ({ s with heap := resetCtx H x (b == "1") }, .ok "")
      | none => (s, .skip)
  | "grad", [t] => match s.recv t, dst with
      | some x, some d => (match (hGradNode x : HM Float (Option Nat)) H with
          | .ok (some g, H') => (({ s with heap := H' }).bind d (.tensor (some g)), .ok "set")
          | .ok (none, _) => (s.bind d (.tensor none), .ok "nil")
          | _ => (s, .panic))
      | none, _ => failBind s dst .skip
      | _, none => (s, .bad)
  | "wrap", [t] => match s.get? t, dst with
      | some (.tensor (some x)), some d => (s.bind d (.foreign x), .ok "")
      | _, _ => failBind s dst .skip
  | "obs", [t] => match (if s.isForeign t then (s.recv t).map some else s.tensorArg t) with
      | some (some x) => (s, .ok (obsNode H x))
      | some none => if t == "nil" then (s, .skip) else (s, .ok "nil")
      | none => (s, .skip)
  /- components -/
  | "init", kind :: rest => match dst, initOf kind rest with
      | some d, some k => (match initFamily k with
          | .ok _ => (s.bind d (.init k), .ok "") | .err => failBind s dst .err | .panic => failBind s dst .panic)
      | _, _ => (s, .bad)
  | "initcall", _ =>
      let (args', raw) := splitRaw args
      (match args' with
       | [i, sh] => match s.get? i, s.intsArg sh with
          | some (.init k), some l => (match initCall k l raw with
              | some o => runBind s dst (do let t ← liftOut o; hLeaf t true)
              | none => failBind s dst .skip)
          | _, _ => failBind s dst .skip
       | _ => (s, .bad))
  | "fc", _ =>
      let (args', raw) := splitRaw args
      (match dst, args' with
       | some d, ["nil"] => failBind s (some d) .err
       | some d, ins :: outs :: opts =>
          (match parseI ins, parseI outs with
           | some i, some o =>
              -- resolve initializer options: none = key absent, some none = explicit nil entry
              let look (key : String) : Option (Option (Option (InitKind Float))) :=
                match opts.find? (·.startsWith key) with
                | none => some none
                | some tok =>
                    let v := (tok.drop key.length).toString
                    if v == "nil" then some (some none) else
                    match s.get? v with | some (.init k) => some (some (some k)) | _ => none
              (match look "W=", look "B=" with
               | some wi, some bi =>
                  if i ≤ 0 ∨ o ≤ 0 then failBind s dst .err else
                  (match wi, bi with
                   | some none, _ => failBind s dst .err
                   | _, some none => failBind s dst .err
                   | _, _ =>
                    let wk : InitKind Float := match wi with | some (some k) => k | _ => .xavierUniform (some (i, o))
                    let bk : InitKind Float := match bi with | some (some k) => k | _ => .full (some 0.0)
                    -- the weight initializer draws first; the bias initializer continues the same stream
                    let (us, zs) := match raw with
                      | some r => r
                      | none => (List.replicate (2 * o.toNat) 0.0, List.replicate (2 * o.toNat) 0.0)
                    let n := o.toNat
                    let wUsesU := match initFamily wk with | .ok (.uniform _ _) => true | _ => false
                    let wUsesN := match initFamily wk with | .ok (.normal _ _) => true | _ => false
                    let raw2 : Option (List Float × List Float) :=
                      some (if wUsesU then us.drop n else us, if wUsesN then zs.drop n else zs)
                    (match initCall wk [o] (some (us, zs)), initCall bk [o] raw2 with
                     | some (.ok wt), some (.ok bt) =>
                        (match ((do let w ← hLeaf wt true; let b ← hLeaf bt true; pure (w, b)) : HM Float (Nat × Nat)) H with
                         | .ok ((w, b), H') =>
                            let idx := s.fcs.size
                            (({ s with heap := H', fcs := s.fcs.push ⟨some w, some b⟩ }).bind d (.fc idx), .ok "")
                         | _ => failBind s dst .panic)
                     | none, _ | _, none => failBind s dst .skip
                     | some .panic, _ | _, some .panic => failBind s dst .panic
                     | _, _ => failBind s dst .err))
               | _, _ => failBind s dst .skip)
           | _, _ => (s, .bad))
       | _, _ => (s, .bad))
  | "input", [] => match dst with
      | some d => (s.bind d (.input none), .ok "") | none => (s, .bad)
  | "input", [sd] => match dst, (if s.isForeign ((sd.drop 5).toString) then none else s.tensorArg ((sd.drop 5).toString)) with
      | some d, some t => if sd.startsWith "seed=" then (s.bind d (.input (some t)), .ok "") else (s, .bad)
      | some d, none => failBind s (some d) .skip
      | _, _ => (s, .bad)
  | "zero", [k] => match dst with
      -- the zero value of a component struct: no state but the configuration fields, which are 0
      | some d => (match k with
          | "relu" => (s.bind d (.act .relu), .ok "")
          | "sigmoid" => (s.bind d (.act .sigmoid), .ok "")
          | "tanh" => (s.bind d (.act .tanh), .ok "")
          | "leaky" => (s.bind d (.act (.leaky Scalar.zero)), .ok "")
          | "softmax" => (s.bind d (.act (.softmax 0)), .ok "")
          | "mse" => (s.bind d (.loss .mse), .ok "")
          | "bce" => (s.bind d (.loss .bce), .ok "")
          | "ce" => (s.bind d (.loss .ce), .ok "")
          | "accuracy" => (({ s with accs := s.accs.push {} }).bind d (.metric s.accs.size), .ok "")
          | "sgd" => (s.bind d (.opt Scalar.zero), .ok "")
          | _ => (s, .bad))
      | none => (s, .bad)
  | "relu", [] => match dst with | some d => (s.bind d (.act .relu), .ok "") | none => (s, .bad)
  | "sigmoid", [] => match dst with | some d => (s.bind d (.act .sigmoid), .ok "") | none => (s, .bad)
  | "tanh", [] => match dst with | some d => (s.bind d (.act .tanh), .ok "") | none => (s, .bad)
  | "leaky", [m] => match dst with
      | some d => if m == "nil" then (s.bind d (.act (leakyOf none)), .ok "") else
          (match parseF m with | some f => (s.bind d (.act (leakyOf (some f))), .ok "") | none => (s, .bad))
      | none => (s, .bad)
  | "softmax", [k] => match dst with
      | some d =>
          let arg : Option (Option Int) := if k == "nil" then some none else (parseI k).map some
          (match arg with
           | some a => (match (softmaxOf a : Out (Activation Float)) with
              | .ok act => (s.bind d (.act act), .ok "") | .err => failBind s dst .err | .panic => failBind s dst .panic)
           | none => (s, .bad))
      | none => (s, .bad)
  | "fwd", l :: xs => match s.get? l, (xs.mapM s.compArg).map (fun l => (l.map (·.1), l.any (·.2))) with
      | some (.act a), some (ts, frn) =>
          -- Relu / LeakyRelu use their input as the ARGUMENT of ElMax / ElMin: a foreign implementation is rejected there
          (match a, frn with
           | .relu, true | .leaky _, true => failBind s dst .err
           | _, _ => runBind s dst (actForward a ts))
      | some (.fc idx), some (ts, _) => (match s.fcs[idx]? with
          | some c => runBind s dst (fcForward c ts) | none => failBind s dst .skip)
      | some (.input seed), some (ts, _) =>
          if !ts.isEmpty then failBind s dst .err else
          (match seed, dst with
           | none, _ => failBind s dst .err
           | some t, some d => (s.bind d (.tensor t), .ok "")
           | some _, none => (s, .ok ""))
      | _, _ => failBind s dst .skip
  | "weight", [f, k] => match s.get? f, k.toNat?, dst with
      | some (.fc idx), some j, some d => if j < 2 then (s.bind d (.ptr idx j), .ok "") else failBind s dst .panic
      | some (.fc _), none, some _ => failBind s dst .panic
      | _, _, _ => failBind s dst .skip
  | "deref", [p] => match s.get? p, dst with
      | some (.ptr idx j), some d => (match s.fcs[idx]? with
          | some c => (s.bind d (.tensor (if j == 0 then c.w else c.b)), .ok "") | none => failBind s dst .skip)
      | _, _ => failBind s dst .skip
  | "setptr", [p, t] => match s.get? p, (if s.isForeign t then none else s.tensorArg t) with
      | some (.ptr idx j), some v => (match s.fcs[idx]? with
          | some c => ({ s with fcs := s.fcs.set! idx (if j == 0 then { c with w := v } else { c with b := v }) }, .ok "")
          | none => (s, .skip))
      | _, _ => (s, .skip)
  | "mse", [] => match dst with | some d => (s.bind d (.loss .mse), .ok "") | none => (s, .bad)
  | "bce", [] => match dst with | some d => (s.bind d (.loss .bce), .ok "") | none => (s, .bad)
  | "ce", [] => match dst with | some d => (s.bind d (.loss .ce), .ok "") | none => (s, .bad)
  | "loss", [j, a, b] => match s.get? j, s.compArg a, s.compArg b with
      | some (.loss l), some (yp, fp), some (yt, _) =>
          -- MSE computes `yt.Sub(yp)`: a foreign prediction is an argument there; BCE / CE only call methods ON their inputs
          if l == .mse && fp then failBind s dst .err else runBind s dst (lossCompute l yp yt)
      | _, _, _ => failBind s dst .skip
  | "accuracy", [] => match dst with
      | some d => (({ s with accs := s.accs.push {} }).bind d (.metric s.accs.size), .ok "") | none => (s, .bad)
  | "acc", [m, a, b] => match s.get? m, s.compArg a, s.compArg b with
      | some (.metric idx), some (yp, _), some (yt, ft) => (match s.accs[idx]? with
          -- `yp.Eq(yt)`: a foreign target is an argument and is rejected; the counts stay as they are
          | some c => (match (if ft then (fun _ => Out.err) else (accAccumulate c yp yt : HM Float Accuracy)) H with
              | .ok (c', H') => ({ s with heap := H', accs := s.accs.set! idx c' }, .ok "")
              | .err => (s, .err) | .panic => (s, .panic))
          | none => (s, .skip))
      | _, _, _ => (s, .skip)
  | "result", [m] => match s.get? m with
      | some (.metric idx) => (match s.accs[idx]? with
          | some c => (s, .ok s!"v={showF (accResult c : Float)}") | none => (s, .skip))
      | _ => (s, .skip)
  | "sgd", [lr] => match dst with
      | some d => if lr == "nil" then (s.bind d (.opt (Scalar.ofSci 1 2)), .ok "") else
          (match parseF lr with | some f => (s.bind d (.opt f), .ok "") | none => (s, .bad))
      | none => (s, .bad)
  | "upd", [o, p] => match s.get? o with
      | some (.opt lr) =>
          if p == "nilptr" then (s, .err) else
          (match s.get? p with
           | some (.ptr idx j) => (match s.fcs[idx]? with
              | some c =>
                  let w := if j == 0 then c.w else c.b
                  (match (sgdUpdate lr w : HM Float Nat) H with
                   | .ok (nw, H') =>
                      ({ s with heap := H', fcs := s.fcs.set! idx (if j == 0 then { c with w := some nw } else { c with b := some nw }) }, .ok "")
                   | .err => (s, .err) | .panic => (s, .panic))
              | none => (s, .skip))
           | _ => (s, .skip))
      | _ => (s, .skip)
  | "seedrng", [_] => (s, .ok "")
  | _, _ =>
    /- families keyed by command name -/
    match alongOf cmd, unaryOf cmd, cmpOf cmd, arithOf cmd, reducerOf cmd, args with
    | some r, _, _, _, _, [t, d] => (match s.recv t, parseI d with
        | some x, some k => runBind s dst (hAlong r x k) | none, _ => failBind s dst .skip | _, _ => (s, .bad))
    | _, some f, _, _, _, [t] => (match s.recv t with
        | some x => runBind s dst (hUnary f x) | none => failBind s dst .skip)
    | _, _, some c, _, _, [t, u] => (match s.recv t, s.tensorArg u with
        | some x, some (some y) => runBind s dst (hCmp c x y)
        | some _, some none => failBind s dst .err
        | _, _ => failBind s dst .skip)
    | _, _, _, some o, _, [t, u] => (match s.recv t, s.tensorArg u with
        | some x, some (some y) => runBind s dst (hArith o x y)
        | some _, some none => failBind s dst .err
        | _, _ => failBind s dst .skip)
    | _, _, _, _, some r, [t] => (match s.recv t with
        | some x => (s, .ok s!"v={showF (r.fn (H.val x))}") | none => (s, .skip))
    | _, _, _, _, _, _ =>
      match cmd, args with
      | "dot", [t, u] => (match s.recv t, s.tensorArg u with
          | some x, some (some y) => runBind s dst (hDot x y)
          | some _, some none => failBind s dst .err
          | _, _ => failBind s dst .skip)
      | "matmul", [t, u] => (match s.recv t, s.tensorArg u with
          | some x, some (some y) => runBind s dst (hMatMul x y)
          | some _, some none => failBind s dst .err
          | _, _ => failBind s dst .skip)
      | _, _ => (s, .bad)

/-- split `dst = cmd args…` -/
def splitLine (toks : List String) : Option String × String × List String :=
  match toks with
  | d :: "=" :: c :: rest => (some d, c, rest)
  | c :: rest => (none, c, rest)
  | [] => (none, "", [])

/-! ### stream loop -/

structure Loop where
  st : St := {}
  k : Nat := 0
  bm : BMode := .sum
  /-- inside `par`: table at `par`, per-thread tables collected so far, and whether inside a thread -/
  parBase : Option (List (String × Obj)) := none
  parLocals : List (List (String × Obj)) := []

def stepLine (lp : Loop) (line : String) : Loop × Option String :=
  let line := line.trimAscii.toString
  if line.isEmpty || line.startsWith "#" then (lp, none) else
  let toks := (line.splitOn " ").filter (· != "")
  match toks with
  | "prog" :: name :: opts =>
      let bm := if opts.contains "bcast=mean" then BMode.mean else if opts.contains "bcast=sum" then BMode.sum else lp.bm
      ({ lp with st := { bm := bm }, k := 0, parBase := none, parLocals := [] }, some s!"prog {name}")
  | ["end"] => (lp, some "end")
  | _ =>
    let k := lp.k + 1
    let lp := { lp with k := k }
    match toks with
    | ["par"] => ({ lp with parBase := some lp.st.tbl, parLocals := [] }, some s!"{k} ok")
    | ["thread"] =>
        (match lp.parBase with
         | some base => ({ lp with st := { lp.st with tbl := base } }, some s!"{k} ok")
         | none => (lp, some s!"{k} bad"))
    | ["endthread"] =>
        (match lp.parBase with
         | some base =>
            -- thread-local bindings: everything bound since the base table
            let locals := lp.st.tbl.take (lp.st.tbl.length - base.length)
            ({ lp with parLocals := lp.parLocals ++ [lp.st.tbl], st := { lp.st with tbl := base } }, some s!"{k} ok")
            |> fun r => let _ := locals; r
         | none => (lp, some s!"{k} bad"))
    | ["endpar"] =>
        (match lp.parBase with
         | some base =>
            -- merge thread tables in thread order (later threads overwrite)
            let merged := lp.parLocals.foldl (fun (acc : St) tbl =>
              tbl.reverse.foldl (fun acc (n, o) => acc.bind n o) acc) { lp.st with tbl := base }
            ({ lp with st := merged, parBase := none, parLocals := [] }, some s!"{k} ok")
         | none => (lp, some s!"{k} bad"))
    | _ =>
      let (dst, cmd, args) := splitLine toks
      let (st', r) := exec lp.st dst cmd args
      ({ lp with st := st' }, some s!"{k} {r.show}")

end Driver
end Qeep
