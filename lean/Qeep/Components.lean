import Qeep.Grad
/-!
# Components (`component/**`): straight-line compositions of public tensor calls, in source order.

Operands are `Option Nat`: `none` is a nil `tensor.Tensor`.
-/

namespace Qeep
open Scalar

variable {α : Type} [Scalar α]

/-! ## activations -/

inductive Activation (α : Type) where
  | relu
  | leaky (m : α)
  | sigmoid
  | tanh
  | softmax (dim : Nat)
deriving Repr

/-- `NewLeakyRelu(conf)`: nil config → 0.01 -/
def leakyOf (m : Option α) : Activation α := .leaky (m.getD (ofSci 1 2))

/-- `NewSoftmax(conf)`: nil → Dim 0; negative Dim is an error -/
def softmaxOf (dim : Option Int) : Out (Activation α) :=
  match dim with
  | none => .ok (.softmax 0)
  | some d => if d < 0 then .err else .ok (.softmax d.toNat)

/-- `toValidInputs` common to all layers: exactly one non-nil input -/
def oneInput (xs : List (Option Nat)) : Out Nat :=
  match xs with
  | [some x] => .ok x
  | _ => .err

def actForward (a : Activation α) (xs : List (Option Nat)) : HM α Nat := do
  let x ← liftOut (oneInput xs)
  match a with
  | .relu => do
      let z ← hScale x zero
      hCmp .elmax z x
  | .leaky m => do
      let z ← hScale x zero
      let s1 ← hCmp .elmax z x
      let s2 ← hCmp .elmin z x
      let s2 ← hScale s2 m
      hArith .add s1 s2
  | .sigmoid => do
      let o ← hPow x zero
      let x1 ← hScale x (neg one)
      let x2 ← hUnary .exp x1
      let y ← hArith .add o x2
      hPow y (neg one)
  | .tanh => hUnary .tanh x
  | .softmax dim => do
      let H ← getHeap
      if (H.val x).dims.length ≤ dim then liftOut .err else do
      let e ← hUnary .exp x
      let s ← hAlong .sum e dim
      let s ← hUnSqueeze s dim
      hArith .div e s

/-! ## losses -/

inductive Loss | mse | bce | ce
deriving Repr, DecidableEq

/-- `clip(x, l, u)` of `ce.go` -/
def clip (x : Nat) (l u : α) : HM α Nat := do
  let o ← hPow x zero
  let lower ← hScale o l
  let upper ← hScale o u
  let y ← hCmp .elmin x upper
  hCmp .elmax lower y

/-- `validateInputs` of the three losses: rank and sizes -/
def lossValid (H : Heap α) (l : Loss) (yp yt : Option Nat) : Out (Nat × Nat) :=
  match yp, yt with
  | some p, some t =>
    let sp := (H.val p).dims
    let st := (H.val t).dims
    let r := match l with | .ce => 2 | _ => 1
    if sp.length = r ∧ st.length = r ∧ sp = st then .ok (p, t) else .err
  | _, _ => .err

def lossCompute (l : Loss) (yp yt : Option Nat) : HM α Nat := do
  let H ← getHeap
  let (yp, yt) ← liftOut (lossValid H l yp yt)
  match l with
  | .mse => do
      let d ← hArith .sub yt yp
      let d ← hPow d two
      hAlong .mean d 0
  | .bce => do
      let yt ← clip yt zero one
      let yp ← clip yp eps oneMinusEps
      let lg ← hUnary .log yp
      let s1 ← hArith .mul yt lg
      let o ← hPow yp zero
      let t2 ← hArith .sub o yt
      let y2 ← hArith .sub o yp
      let lg2 ← hUnary .log y2
      let s2 ← hArith .mul t2 lg2
      let l ← hArith .add s1 s2
      let l ← hScale l (neg one)
      hAlong .mean l 0
  | .ce => do
      let yt ← clip yt zero one
      let yp ← clip yp eps oneMinusEps
      let lg ← hUnary .log yp
      let s ← hArith .mul yt lg
      let l ← hAlong .sum s 1
      let l ← hScale l (neg one)
      hAlong .mean l 0

/-! ## FC layer -/

/-- the two struct fields `Weight`, `Bias` (each may have been set to nil through the pointer) -/
structure FC where
  w : Option Nat
  b : Option Nat
deriving Repr

/-- `(*FC).forward` -/
def fcForward (c : FC) (xs : List (Option Nat)) : HM α Nat := do
  let x ← liftOut (oneInput xs)
  let H ← getHeap
  if (H.val x).dims.length ≠ 2 then liftOut .err else
  match c.w, c.b with
  | some w, some b => do
      let w1 ← hUnSqueeze w 1
      let x1 ← hUnSqueeze x 1
      let y ← hMatMul w1 x1
      let y ← hAlong .sum y 2
      hArith .add y b
  | none, _ => liftOut .panic   -- `c.Weight.UnSqueeze` on a nil interface
  | some w, none => do
      -- reaches `y.Add(nil)`: "Add tensors' device validation failed"
      let w1 ← hUnSqueeze w 1
      let x1 ← hUnSqueeze x 1
      let y ← hMatMul w1 x1
      let _ ← hAlong .sum y 2
      liftOut .err

/-! ## SGD -/

/-- `(*SGD).Update(wptr)` on the tensor currently behind the pointer; returns the replacement -/
def sgdUpdate (lr : α) (w : Option Nat) : HM α Nat := do
  match w with
  | none => liftOut .err
  | some w => do
    let g ← hGradNode w
    match g with
    | none => liftOut .err
    | some g => do
      let delta ← hScale g lr
      hArith .sub w delta

/-! ## Accuracy -/

structure Accuracy where
  total : Nat := 0
  correct : Nat := 0
deriving Repr

def accAccumulate (c : Accuracy) (yp yt : Option Nat) : HM α Accuracy := do
  let H ← getHeap
  match yp, yt with
  | some p, some t =>
    let sp := (H.val p).dims
    let st := (H.val t).dims
    if sp.length = 1 ∧ st.length = 1 ∧ sp = st then do
      let e ← hCmp .eq p t
      let H ← getHeap
      pure { total := c.total + (H.val e).dims.headD 0, correct := c.correct + toNat (H.val e).sum }
    else liftOut .err
  | _, _ => liftOut .err

def accResult (c : Accuracy) : α :=
  if c.total = 0 then zero else div (ofNat c.correct) (ofNat c.total)

/-! ## Initializers: shape, config ↦ (family, parameters) -/

inductive Family (α : Type) where
  | const (v : α)
  | uniform (lo hi : α)
  | normal (mu sigma : α)
deriving Repr

inductive InitKind (α : Type) where
  | full (v : Option α)
  | uniform (c : Option (α × α))
  | normal (c : Option (α × α))
  | heUniform (fanIn : Option Int)
  | heNormal (fanIn : Option Int)
  | xavierUniform (c : Option (Int × Int))
  | xavierNormal (c : Option (Int × Int))
deriving Repr

/-- the constructor `New<Kind>(conf)`: validation and defaults; result: the distribution family that
    `Init` will sample (scale formulas of `Init` folded in) -/
def initFamily : InitKind α → Out (Family α)
  | .full v => .ok (.const (v.getD zero))
  | .uniform c =>
      let (lo, hi) := c.getD (neg (ofSci 5 2), ofSci 5 2)
      if lt lo hi then .ok (.uniform lo hi) else .err
  | .normal c =>
      let (mu, s) := c.getD (zero, ofSci 5 2)
      if gt s zero then .ok (.normal mu s) else .err
  | .heUniform none | .heNormal none | .xavierUniform none | .xavierNormal none => .err
  | .heUniform (some fi) =>
      if fi ≤ 0 then .err else
      let r := sqrt (div (ofNat 6) (ofNat fi.toNat)); .ok (.uniform (neg r) r)
  | .heNormal (some fi) =>
      if fi ≤ 0 then .err else .ok (.normal zero (sqrt (div two (ofNat fi.toNat))))
  | .xavierUniform (some (fi, fo)) =>
      if fi ≤ 0 ∨ fo ≤ 0 then .err else
      let r := sqrt (div (ofNat 6) (ofNat (fi + fo).toNat)); .ok (.uniform (neg r) r)
  | .xavierNormal (some (fi, fo)) =>
      if fi ≤ 0 ∨ fo ≤ 0 then .err else .ok (.normal zero (sqrt (div two (ofNat (fi + fo).toNat))))

/-- element `k` of a random tensor from the raw streams (gonum: `rnd*(Max-Min)+Min`, `rnd*Sigma+Mu`) -/
def sampleData (f : Family α) (n : Nat) (us zs : List α) : Option (List α) :=
  match f with
  | .const v => some (List.replicate n v)
  | .uniform lo hi => if us.length < n then none else some ((us.take n).map (fun u => add (mul u (sub hi lo)) lo))
  | .normal mu s => if zs.length < n then none else some ((zs.take n).map (fun z => add (mul z s) mu))

/-- `tensor.Full / RandU / RandN` including their own parameter validation; `none` = not enough raw draws -/
def vRandom (f : Family α) (dims : List Int) (us zs : List α) : Option (Out (Tensor α)) :=
  let okParams := match f with
    | .const _ => true
    | .uniform lo hi => lt lo hi
    | .normal _ s => gt s zero
  if !okParams then some .err
  else if !validInputDims dims then some .err
  else
    let nd := natDims dims
    (sampleData f (prod nd) us zs).map (fun d => .ok ⟨nd, d⟩)

end Qeep
