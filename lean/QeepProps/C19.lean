import QeepProofs.Run
import QeepProofs.Real
/-!
# C19 — accuracy equals matched over total across everything accumulated

`matches p t` counts the positions at which prediction and target compare equal (the library's `Eq`).
The running counters are natural numbers in the Model as they are `int`s in the code.
-/
set_option linter.unusedSimpArgs false

namespace Qeep
namespace C19

variable {α : Type} [Scalar α]

/-- positions at which prediction and target are equal -/
def matchCount (p t : List α) : Nat := (List.zipWith (fun a b => Scalar.near a b) p t).count true

/-- the scalar domain counts correctly: the sum of a 0/1 mask, truncated to an integer, is the number of ones
    (true of `ℝ`, see `countLaw_real`; true of binary64 for masks shorter than 2^53) -/
def CountLaw (α : Type) [Scalar α] : Prop :=
  ∀ bs : List Bool, Scalar.toNat (List.foldl Scalar.add (Scalar.zero : α) (bs.map Scalar.ofBool)) = bs.count true

theorem countLaw_real : CountLaw ℝ := by
  intro bs
  have key : ∀ (l : List Bool) (acc : ℝ),
      List.foldl Scalar.add acc (l.map (Scalar.ofBool : Bool → ℝ)) = acc + (l.count true : ℝ) := by
    intro l
    induction l with
    | nil => intro acc; simp
    | cons b bs ih =>
      intro acc
      simp only [List.map_cons, List.foldl_cons, ih]
      cases b <;> simp [Scalar.ofBool, List.count_cons] <;> ring
  rw [key]
  simp [Scalar.toNat]

/-- **An accepted batch** adds its size to `total` and its number of matching positions to `correct`; nothing
    else changes (existing tensors untouched). -/
theorem acc_counts (hlaw : CountLaw α) (c : Accuracy) (H : Heap α) (p t : Nat) (d : Nat)
    (wp : (H.val p).WF) (wt : (H.val t).WF) (hp : (H.val p).dims = [d]) (ht : (H.val t).dims = [d]) :
    ∃ c' H', accAccumulate c (some p) (some t) H = .ok (c', H') ∧ Extends H H' ∧
      c'.total = c.total + d ∧ c'.correct = c.correct + matchCount (H.val p).data (H.val t).data := by
  have hdims : (H.val p).dims = (H.val t).dims := by rw [hp, ht]
  obtain ⟨e, H1, he⟩ := ran_hCmp .eq p t H _ (vCmp_same .eq _ _ wp wt hdims)
  refine ⟨{ total := c.total + (H1.val e).dims.headD 0, correct := c.correct + Scalar.toNat (H1.val e).sum }, H1, ?_, he.ext, ?_, ?_⟩
  · unfold accAccumulate
    rw [bind_run (show (getHeap : HM α (Heap α)) H = .ok (H, H) from rfl)]
    simp only [hp, ht, List.length_cons, List.length_nil, and_self, if_true]
    rw [bind_run he.run, bind_run (show (getHeap : HM α (Heap α)) H1 = .ok (H1, H1) from rfl)]
    rfl
  · simp [he.val, hp]
  · simp only [he.val, Tensor.sum, Tensor.fold, Cmp.fn]
    have : List.zipWith (fun a b => (Scalar.ofBool (Scalar.near a b) : α)) (H.val p).data (H.val t).data
        = (List.zipWith (fun a b => Scalar.near a b) (H.val p).data (H.val t).data).map Scalar.ofBool := by
      rw [List.map_zipWith]
    rw [this, hlaw]
    rfl

/-- **A rejected call leaves the counters unchanged**: nil tensors, wrong rank or mismatched lengths produce an
    error, and an error outcome carries no new state. -/
theorem acc_rejected (c : Accuracy) (H : Heap α) :
    (∀ t, accAccumulate c none t H = .err) ∧ (∀ p, accAccumulate c (some p) none H = .err) ∧
    (∀ p t, ¬ ((H.val p).dims.length = 1 ∧ (H.val t).dims.length = 1 ∧ (H.val p).dims = (H.val t).dims) →
        accAccumulate c (some p) (some t) H = .err) := by
  refine ⟨?_, ?_, ?_⟩
  · intro t; cases t <;> rfl
  · intro p; rfl
  · intro p t h
    unfold accAccumulate
    rw [bind_run (show (getHeap : HM α (Heap α)) H = .ok (H, H) from rfl)]
    simp only [h, if_false]
    rfl

/-- **Partition invariance**: matches (and sizes) of a batch split in two add up -/
theorem matchCount_append (p1 p2 t1 t2 : List α) (h : p1.length = t1.length) :
    matchCount (p1 ++ p2) (t1 ++ t2) = matchCount p1 t1 + matchCount p2 t2 := by
  unfold matchCount
  rw [List.zipWith_append h, List.count_append]

/-- matches never exceed the batch size, so `correct ≤ total` is an invariant of every history -/
theorem matchCount_le (p t : List α) : matchCount p t ≤ p.length := by
  unfold matchCount
  refine Nat.le_trans (List.count_le_length) ?_
  simp [List.length_zipWith]

/-- **Result** is `correct / total` (0 before anything was accumulated) and lies in [0, 1] -/
theorem acc_result (c : Accuracy) (h : c.correct ≤ c.total) :
    (c.total = 0 → (accResult c : ℝ) = 0) ∧ (c.total ≠ 0 → (accResult c : ℝ) = (c.correct : ℝ) / (c.total : ℝ)) ∧
    0 ≤ (accResult c : ℝ) ∧ (accResult c : ℝ) ≤ 1 := by
  unfold accResult
  by_cases h0 : c.total = 0
  · simp [h0]
  · have hpos : (0 : ℝ) < c.total := by exact_mod_cast Nat.pos_of_ne_zero h0
    refine ⟨fun h => absurd h h0, fun _ => by simp [h0], ?_, ?_⟩
    · simp only [h0, if_false, RealScalar.div_eq, RealScalar.ofNat_eq]; positivity
    · simp only [h0, if_false, RealScalar.div_eq, RealScalar.ofNat_eq]
      rw [div_le_one hpos]
      exact_mod_cast h

/-- non-vacuity (kernel-checked on `Int`): [1,2,3] vs [1,0,3] has two matches -/
example : matchCount ([1, 2, 3] : List Int) [1, 0, 3] = 2 := by decide

end C19
end Qeep
