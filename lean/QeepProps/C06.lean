import QeepProofs.Index
import QeepProofs.Slice
import QeepProofs.Patch
import QeepProofs.Concat
/-!
# C06 — indexing, reshaping and construction move elements without changing them

Property theorems only (helper lemmas live in `QeepProofs`). Statements are about the Model
(`Qeep.Forward`), for every rank and every positive dimension size.
-/

namespace Qeep
namespace C06

variable {α : Type}

/-- **Reshape preserves the row-major element sequence** — for every well-formed tensor and every target
    shape with the same element count, the generator-driven `reshape` (Go: `linearElemGenerator` +
    `initWith`) succeeds and returns exactly the source data under the new dims. -/
theorem reshape_data (t : Tensor α) (hwf : t.WF) (shape : List Nat) (h : prod shape = prod t.dims) :
    t.reshapeRaw shape = some ⟨shape, t.data⟩ := by
  unfold Tensor.reshapeRaw
  rw [genData_linear t hwf (prod shape) (by omega), h, ← hwf.1, List.take_length]
  rfl

/-- the public `Reshape`: accepted exactly when the target is positive and element-count preserving, and
    then the result is the same data under the requested shape (never a panic) -/
theorem vReshape_total (t : Tensor α) (hwf : t.WF) (shape : List Int) :
    (validInputDims shape = true ∧ prod (natDims shape) = prod t.dims →
      vReshape t shape = .ok ⟨natDims shape, t.data⟩) ∧
    (¬ (validInputDims shape = true ∧ prod (natDims shape) = prod t.dims) → vReshape t shape = .err) := by
  constructor
  · rintro ⟨h1, h2⟩
    simp [vReshape, h1, validReshape, h2, reshape_data t hwf _ h2, Out.ofOpt]
  · intro h
    unfold vReshape
    by_cases h1 : validInputDims shape = true
    · have h2 : ¬ prod (natDims shape) = prod t.dims := fun h2 => h ⟨h1, h2⟩
      simp [h1, validReshape, h2]
    · simp [h1]

theorem prod_take_drop (n : Nat) (l : List Nat) : prod (l.take n) * prod (l.drop n) = prod l := by
  rw [← prod_append, List.take_append_drop]

theorem prod_unsqueezeDims (dim : Nat) (dims : List Nat) : prod (unsqueezeDims dim dims) = prod dims := by
  unfold unsqueezeDims
  rw [prod_append]; simp only [prod, Nat.one_mul]; exact prod_take_drop dim dims

theorem prod_flattenDims (dim : Nat) (dims : List Nat) : prod (flattenDims dim dims) = prod dims := by
  unfold flattenDims
  rw [prod_append]; simp only [prod, Nat.mul_one]; exact prod_take_drop dim dims

theorem prod_squeezeDims (dim : Nat) (dims : List Nat) (h : dims[dim]? = some 1) :
    prod (squeezeDims dim dims) = prod dims := by
  unfold squeezeDims
  have hlt : dim < dims.length := by
    rcases Nat.lt_or_ge dim dims.length with h' | h'
    · exact h'
    · rw [List.getElem?_eq_none h'] at h; simp at h
  have hd : dims.drop dim = 1 :: dims.drop (dim + 1) := by
    rw [List.drop_eq_getElem_cons hlt]
    have : dims[dim] = 1 := by rw [List.getElem?_eq_getElem hlt] at h; simpa using h
    rw [this]
  rw [prod_append, ← prod_take_drop dim dims, hd]; simp [prod]

/-- UnSqueeze / Flatten / Squeeze are reshapes: same data, dims as defined -/
theorem unsqueeze_data (t : Tensor α) (hwf : t.WF) (dim : Nat) :
    t.unSqueezeRaw dim = some ⟨unsqueezeDims dim t.dims, t.data⟩ :=
  reshape_data t hwf _ (prod_unsqueezeDims dim t.dims)

theorem flatten_data (t : Tensor α) (hwf : t.WF) (dim : Nat) :
    t.flattenRaw dim = some ⟨flattenDims dim t.dims, t.data⟩ :=
  reshape_data t hwf _ (prod_flattenDims dim t.dims)

theorem squeeze_data (t : Tensor α) (hwf : t.WF) (dim : Nat) (h : t.dims[dim]? = some 1) :
    t.squeezeRaw dim = some ⟨squeezeDims dim t.dims, t.data⟩ :=
  reshape_data t hwf _ (prod_squeezeDims dim t.dims h)

/-- Full / Zeros / Ones hold exactly the requested value at every position, and are well formed -/
theorem full_data (v : α) (dims : List Nat) (hpos : ∀ d ∈ dims, 0 < d) :
    (constTensor v dims).WF ∧ ∀ x ∈ (constTensor v dims).data, x = v := by
  refine ⟨⟨by simp [constTensor], hpos⟩, ?_⟩
  intro x hx
  simp [constTensor] at hx
  exact hx.2

/-- NElems is the product of Shape (definitionally) and equals the number of stored elements -/
theorem nelems_eq (t : Tensor α) (hwf : t.WF) : t.numElems = prod t.dims ∧ t.numElems = t.data.length :=
  ⟨rfl, hwf.1.symm⟩

/-- Eye holds δ_ij: position `i*n + j` is one exactly on the diagonal -/
theorem eye_get [Scalar α] (n i j : Nat) (hi : i < n) (hj : j < n) :
    (eyeMatrix n : Tensor α).data[i * n + j]? = some (if i = j then Scalar.one else Scalar.zero) := by
  have hlt : i * n + j < n * n := by
    calc i * n + j < i * n + n := by omega
      _ = (i + 1) * n := by rw [Nat.add_mul]; omega
      _ ≤ n * n := Nat.mul_le_mul_right n hi
  simp only [eyeMatrix, List.getElem?_map, List.getElem?_range hlt, Option.map_some]
  congr 1
  by_cases hij : i = j
  · subst hij
    have : i * n + i = i * (n + 1) := by rw [Nat.mul_add]; omega
    simp [this]
  · simp only [hij, if_false]
    have hne : (i * n + j) % (n + 1) ≠ 0 := by
      intro h0
      rcases Nat.lt_or_ge i j with h | h
      · -- i*n + j = i*(n+1) + (j - i), 0 < j - i < n+1
        have e : i * n + j = i * (n + 1) + (j - i) := by rw [Nat.mul_add]; omega
        rw [e, Nat.mul_add_mod_self_right, Nat.mod_eq_of_lt (by omega)] at h0
        omega
      · have hlt' : j < i := by omega
        -- i*n + j = (i-1)*(n+1) + (n + 1 - (i - j)), and 0 < n+1-(i-j) < n+1
        have e : i * n + j = (i - 1) * (n + 1) + (n + 1 - (i - j)) := by
          have : i = (i - 1) + 1 := by omega
          rw [Nat.mul_add]
          calc i * n + j = ((i - 1) + 1) * n + j := by rw [← this]
            _ = (i - 1) * n + n + j := by rw [Nat.add_mul]; omega
            _ = (i - 1) * n + (i - 1) * 1 + (n + 1 - (i - j)) := by omega
        rw [e, Nat.mul_add_mod_self_right, Nat.mod_eq_of_lt (by omega)] at h0
        omega
    simp [hne]

/-- non-vacuity: a concrete rank-3 tensor is well formed and reshapes as stated -/
example : (⟨[2, 1, 3], [1, 2, 3, 4, 5, 6]⟩ : Tensor Nat).WF ∧
    (⟨[2, 1, 3], [1, 2, 3, 4, 5, 6]⟩ : Tensor Nat).reshapeRaw [3, 2] = some ⟨[3, 2], [1, 2, 3, 4, 5, 6]⟩ := by
  decide

end C06
end Qeep

namespace Qeep
namespace C06
variable {α : Type}

/-- what the validator guarantees about a Slice index, on natural numbers: at most one range per dimension, each
    either `{0,0}` (whole dimension) or a non-empty half-open range inside the dimension -/
inductive RangesOK : List (Nat × Nat) → List Nat → Prop
  | nil (ds) : RangesOK [] ds
  | cons {f t idx d ds} : ((f = 0 ∧ t = 0) ∨ (f < t ∧ t ≤ d)) → RangesOK idx ds → RangesOK ((f, t) :: idx) (d :: ds)

theorem fits_complete : ∀ {idx ds}, RangesOK idx ds → Fits (completeIndex idx ds) ds
  | _, [], .nil _ => by simp [completeIndex]; exact .nil
  | _, d :: ds, .nil _ => by
    simp only [completeIndex]
    exact .cons (Nat.le_refl _) (fits_complete (.nil ds))
  | _, _, .cons (f := f) (t := t) (d := d) h hr => by
    simp only [completeIndex]
    split
    · exact .cons (Nat.le_refl _) (fits_complete hr)
    · rcases h with h | h
      · rename_i hne; exact absurd h hne
      · exact .cons h.2 (fits_complete hr)

/-- **Slice returns the selected block** — for every rank, every mix of explicit, omitted and `{0,0}` ranges:
    the copy succeeds (no panic), the result has one dimension per source dimension with size `To - From` (the
    whole size where omitted), and its element at local index `j` is the source element at `j + From`. -/
theorem slice_get (t : Tensor α) (hwf : t.WF) (index : List (Nat × Nat)) (hok : RangesOK index t.dims) :
    ∃ data, t.sliceRaw index = some ⟨sliceDims (completeIndex index t.dims), data⟩ ∧
      data.length = prod (sliceDims (completeIndex index t.dims)) ∧
      ∀ js, InBlock (completeIndex index t.dims) js →
        (⟨sliceDims (completeIndex index t.dims), data⟩ : Tensor α).at? js = t.at? (shiftIdx (completeIndex index t.dims) js) := by
  obtain ⟨out, h1, h2, h3⟩ := sliceData_get (completeIndex index t.dims) t.dims t.data (fits_complete hok) hwf.1
  exact ⟨out, by simp [Tensor.sliceRaw, h1], h2, h3⟩

/-- non-vacuity: rows 0..2, columns 1..3 of a [2,3] tensor; partial index with an omitted second range -/
example : (⟨[2, 3], [1, 2, 3, 4, 5, 6]⟩ : Tensor Nat).sliceRaw [(0, 0), (1, 3)] = some ⟨[2, 2], [2, 3, 5, 6]⟩ ∧
    (⟨[2, 3], [1, 2, 3, 4, 5, 6]⟩ : Tensor Nat).sliceRaw [(1, 2)] = some ⟨[1, 3], [4, 5, 6]⟩ := by decide

end C06
end Qeep

namespace Qeep
namespace C06
variable {α : Type}

theorem valid_of_validAt : ∀ (index : List Int) (dims : List Nat), validAtIndex index dims = true →
    Valid dims (natDims index)
  | [], [], _ => .nil
  | [], _ :: _, h => by simp [validAtIndex] at h
  | _ :: _, [], h => by simp [validAtIndex] at h
  | i :: is, d :: ds, h => by
    simp only [validAtIndex, List.length_cons, List.zip_cons_cons, List.all_cons, Bool.and_eq_true,
      decide_eq_true_eq, beq_iff_eq] at h
    obtain ⟨hl, ⟨h0, h1⟩, hrest⟩ := h
    have ih := valid_of_validAt is ds (by
      simp only [validAtIndex, Bool.and_eq_true, beq_iff_eq]
      exact ⟨by omega, hrest⟩)
    simp only [natDims, List.map_cons]
    exact .cons (by omega) ih

/-- **At returns the element at a multi-index**: `ok` exactly when the index has one in-range entry per dimension —
    then it is the element at the row-major position of the index — and an error otherwise; never a panic. -/
theorem vAt_total (t : Tensor α) (hwf : t.WF) (index : List Int) :
    (validAtIndex index t.dims = true → ∃ x, vAt t index = .ok x ∧
        t.data[val t.dims.reverse (natDims index).reverse]? = some x) ∧
    (validAtIndex index t.dims = false → vAt t index = .err) := by
  constructor
  · intro h
    have hv := valid_reverse' (valid_of_validAt index t.dims h)
    have hlt := val_lt hv
    rw [prod_reverse, ← hwf.1] at hlt
    refine ⟨t.data[val t.dims.reverse (natDims index).reverse], ?_, List.getElem?_eq_getElem hlt⟩
    have := Tensor.at?_reverse t hv
    rw [List.reverse_reverse] at this
    simp [vAt, h, this, List.getElem?_eq_getElem hlt, Out.ofOpt]
  · intro h; simp [vAt, h]
where
  valid_reverse' : ∀ {ds st : List Nat}, Valid ds st → Valid ds.reverse st.reverse
    | _, _, .nil => .nil
    | _, _, .cons h hv => by
      simp only [List.reverse_cons]
      exact valid_append (valid_reverse' hv) h

end C06
end Qeep

namespace Qeep
namespace C06
variable {α : Type}

/-- what the validator guarantees about a Patch (natural numbers): equal ranks, source not larger than target,
    each given range either `{0,0}` or a non-empty range inside the target that exactly covers the source -/
inductive PatchOK : List (Nat × Nat) → List Nat → List Nat → Prop
  | nil : PatchOK [] [] []
  | omit {sd sds dd dds} : sd ≤ dd → PatchOK [] sds dds → PatchOK [] (sd :: sds) (dd :: dds)
  | cons {f t idx sd sds dd dds} : sd ≤ dd → ((f = 0 ∧ t = 0) ∨ (f < t ∧ t ≤ dd ∧ t - f = sd)) →
      PatchOK idx sds dds → PatchOK ((f, t) :: idx) (sd :: sds) (dd :: dds)

theorem fitsP_complete : ∀ {idx sds dds}, PatchOK idx sds dds → FitsP (completeIndex idx sds) sds dds
  | _, _, _, .nil => by simp [completeIndex]; exact .nil
  | _, _, _, .omit h hr => by
    simp only [completeIndex]
    exact .cons (by omega) (fitsP_complete hr)
  | _, _, _, .cons (f := f) (t := t) (sd := sd) h hrange hr => by
    simp only [completeIndex]
    split
    · exact .cons (by omega) (fitsP_complete hr)
    · rename_i hne
      rcases hrange with h0 | h1
      · exact absurd h0 hne
      · exact .cons (by omega) (fitsP_complete hr)

/-- **Patch writes the source block at the indexed position and leaves every other element unchanged** — for every
    rank and every mix of explicit / omitted / `{0,0}` ranges (an omitted or `{0,0}` range places the source at
    offset 0): no panic, the target's dims, and at every target index `js` the source element (index shifted back by
    `From`) inside the block, the target element outside. -/
theorem patch_get (t u : Tensor α) (ht : t.WF) (hu : u.WF) (index : List (Nat × Nat)) (hok : PatchOK index u.dims t.dims) :
    ∃ data, t.patchRaw index u = some ⟨t.dims, data⟩ ∧ data.length = prod t.dims ∧
      ∀ js, Valid t.dims js →
        (⟨t.dims, data⟩ : Tensor α).at? js =
          if insideP (completeIndex index u.dims) u.dims js then u.at? (unshiftP (completeIndex index u.dims) js)
          else t.at? js := by
  obtain ⟨out, h1, h2, h3⟩ := patchData_get (completeIndex index u.dims) u.dims t.dims u.data t.data
    (fitsP_complete hok) hu.1 ht.1
  exact ⟨out, by simp [Tensor.patchRaw, h1], h2, h3⟩

/-- non-vacuity: a [2,2] source into a [3,3] target with the partial index {1:3} (offset 0 along the omitted dim) -/
example : (⟨[3, 3], [1, 2, 3, 4, 5, 6, 7, 8, 9]⟩ : Tensor Nat).patchRaw [(1, 3)] ⟨[2, 2], [10, 20, 30, 40]⟩
    = some ⟨[3, 3], [1, 2, 3, 10, 20, 6, 30, 40, 9]⟩ := by decide

end C06
end Qeep

namespace Qeep
namespace C06
variable {α : Type}

/-- **Concat lays its operands end to end along one dimension** — for every operand count ≥ 1, every rank ≥ 1,
    every `dim` and all sizes: whenever the operands agree with the first one on every dimension except `dim`
    (what the validator checks), the concatenation succeeds (no panic), has the first operand's dims with `dim`
    replaced by the sum of the operands' sizes, and every result index is routed (`route`) to exactly one operand
    `s` and an operand-local index (coordinate along `dim` reduced by the sizes of the operands before `s`), where
    the result holds that operand's element. -/
theorem concat_get (t0 : Tensor α) (ts : List (Tensor α)) (dim : Nat) (hdim : dim < t0.dims.length)
    (hwf : ∀ t ∈ t0 :: ts, t.WF)
    (hagree : ∀ t ∈ t0 :: ts, t.dims.length = t0.dims.length ∧ ∀ j, j ≠ dim → t.dims[j]? = t0.dims[j]?) :
    let lens := (t0 :: ts).map (fun t => t.dims.getD dim 0)
    ∃ data, concatRaw (t0 :: ts) dim = some ⟨t0.dims.set dim lens.sum, data⟩ ∧
      data.length = prod (t0.dims.set dim lens.sum) ∧
      ∀ idx, Valid (t0.dims.set dim lens.sum) idx →
        ∃ s idx' t, route dim lens idx = some (s, idx') ∧ (t0 :: ts)[s]? = some t ∧
          (⟨t0.dims.set dim lens.sum, data⟩ : Tensor α).at? idx = t.at? idx' := by
  intro lens
  let seeds : List (List Nat × List α) := (t0 :: ts).map (fun t => (t.dims, t.data))
  have hlens : lensAt dim seeds = lens := by simp [lensAt, seeds, lens, List.map_map, Function.comp_def]
  have hok : SeedsOK dim (delAt dim t0.dims) seeds := by
    apply seedsOK_of dim _ seeds (by have := delAt_length dim t0.dims hdim; omega)
    intro s hs
    obtain ⟨t, ht, rfl⟩ := List.mem_map.mp hs
    obtain ⟨hl, hj⟩ := hagree t ht
    refine ⟨t.dims.getD dim 0, ?_, (hwf t ht).1⟩
    have e := eq_rdimsOf dim t0.dims t.dims hl hdim hj
    exact e
  obtain ⟨out, h1, h2, h3⟩ := concatData_get dim (delAt dim t0.dims) seeds hok
  rw [hlens, rdimsOf_set dim t0.dims _ hdim] at h1 h2 h3
  have hcd : concatDims (t0 :: ts) dim = t0.dims.set dim lens.sum := rfl
  refine ⟨out, by simp only [concatRaw, hcd]; rw [h1]; rfl, h2, ?_⟩
  intro idx hidx
  obtain ⟨s, idx', r1, r2, _, r4⟩ := h3 idx hidx
  have r2' : s < (t0 :: ts).length := by simpa [seeds] using r2
  refine ⟨s, idx', (t0 :: ts)[s], r1, List.getElem?_eq_getElem r2', ?_⟩
  rw [r4]
  have hsel : seeds[s]! = (((t0 :: ts)[s]).dims, ((t0 :: ts)[s]).data) := by
    simp only [seeds, List.getElem!_eq_getElem?_getD, List.getElem?_map, List.getElem?_eq_getElem r2']
    rfl
  rw [hsel]

/-- non-vacuity: two [2,·] blocks along dim 1 -/
example : concatRaw [(⟨[2, 1], [1, 2]⟩ : Tensor Nat), ⟨[2, 2], [3, 4, 5, 6]⟩] 1 = some ⟨[2, 3], [1, 3, 4, 2, 5, 6]⟩ := by decide

end C06
end Qeep
