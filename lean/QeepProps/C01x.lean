import QeepProps.C01
import QeepProps.C20
import QeepProofs.Duality
import QeepProofs.ValueOps
import QeepProofs.Real
/-!
# C01 (graph-level chain rule) — back-propagation computes the adjoint of tangent propagation

`backprop_chain_rule`: for ANY heap with the DAG shape (every reachable heap: `C01.reachable_is_dag`), any tracked
root, any pairing `ip` between gradient values and tangents, and ANY family of per-edge linear maps `push` to which the
backward rules are adjoint on the values that occur (`ip (rule gy) t = ip gy (push rule t)`: the rule is the
vector-Jacobian product of its edge; C02 proves this rule by rule for the element-wise family): if `dv` solves the
forward tangent equations of the graph with perturbations `δ u` injected at the nodes, then after a successful walk

  `Σ_{u ∈ walk} ⟨grad u, δ u⟩ = ⟨ones, dv root⟩`  (plus the pairing with gradients that were there before).

That is the multivariate chain rule for the whole DAG: the gradient of each tensor is the coefficient of its
perturbation in the first-order variation of the sum of the root's elements — for every fan-out and reconvergence
pattern, depth and tracked/untracked assignment. `Good n` is the per-node invariant (for the code: "has the shape of
tensor n") under which accumulation is additive; `dotp_add_same` shows the additivity hypothesis holds for the
element-wise pairing on tensors of equal shape.
-/
set_option linter.unusedSimpArgs false
set_option linter.unusedSectionVars false

namespace Qeep
namespace C01x
open C01 C20

variable {α : Type} [Scalar α]

theorem tracked_lt_size (H : Heap α) (n : Nat) (h : H.tracked n = true) : n < H.size := by
  apply Classical.byContradiction
  intro hn
  have : H[n]? = none := Array.getElem?_eq_none (by omega)
  simp [Heap.tracked, Heap.ctx, this] at h

theorem order_lt_size (H : Heap α) (root : Nat) (hdag : HeapDag H) (htr : H.tracked root = true) :
    ∀ n ∈ backwardOrder H root, n < H.size := by
  intro n hn
  rcases order_members_tracked H root hdag n hn with rfl | ⟨u, _, hsu⟩
  · exact tracked_lt_size H _ htr
  · unfold succs at hsu
    exact tracked_lt_size H n (List.mem_filter.mp hsu).2

/-- **Graph-level chain rule** (see the header). -/
theorem backprop_chain_rule {T : Type} (bm : BMode) (H : Heap α) (root : Nat) (hdag : HeapDag H)
    (htr : H.tracked root = true) (hok : (backprop bm H root).status = .ok ())
    (ip : Tensor α → T → ℝ) (push : Rule α → T → T) (Good : Nat → Tensor α → Prop)
    (hadd : ∀ n a b s, Good n a → Good n b → vArith .add a b = .ok s → Good n s ∧ ∀ t, ip s t = ip a t + ip b t)
    (hold : ∀ n g, H.grad n = some g → Good n g)
    (hones : Good root (vPow (H.val root) Scalar.zero))
    (hrule : ∀ u ∈ backwardOrder H root, ∀ e ∈ (H.ctx u).edges, H.tracked e.target = true →
        ∀ gy g, evalRule bm (markDirty H (backwardOrder H root)) gy e.rule = .ok g → Good e.target g)
    (hadj : ∀ u ∈ backwardOrder H root, ∀ e ∈ (H.ctx u).edges, H.tracked e.target = true →
        ∀ gy g, evalRule bm (markDirty H (backwardOrder H root)) gy e.rule = .ok g → ∀ t, ip g t = ip gy (push e.rule t))
    (dv δ : Nat → T)
    (htan : ∀ u ∈ backwardOrder H root, ∀ gy, ip gy (dv u) = ip gy (δ u)
        + ((H.ctx u).edges.map (fun e => if H.tracked e.target = true then ip gy (push e.rule (dv e.target)) else 0)).sum) :
    ∃ seedG, accumG (vArith .add) (fun n => H.grad n) root (vPow (H.val root) Scalar.zero) = .ok seedG ∧
      ((backwardOrder H root).map (fun u => ipo ip ((backprop bm H root).heap.grad u) (δ u))).sum
        = ((backwardOrder H root).map (fun n => ipo ip (seedG n) (dv n))).sum := by
  obtain ⟨seedG, final, hseed, hfin, hsums, hdef, _⟩ := backprop_adjoint bm H root hdag htr hok
  obtain ⟨hroot, hclosed, _, hnd⟩ := backwardOrder_spec H root hdag htr
  refine ⟨seedG, hseed, ?_⟩
  have hlt := order_lt_size H root hdag htr
  have hL : ((backwardOrder H root).map (fun u => ipo ip ((backprop bm H root).heap.grad u) (δ u)))
      = ((backwardOrder H root).map (fun u => ipo ip (final u) (δ u))) := by
    apply List.map_congr_left
    intro u hu
    rw [hfin u (hlt u hu)]
  rw [hL]
  -- seed values are Good
  have hseedGood : ∀ n x, seedG n = some x → Good n x := by
    intro n x hx
    unfold accumG at hseed
    cases hg : H.grad root with
    | none =>
      simp only [hg] at hseed
      cases hseed
      unfold updStore at hx
      by_cases hn : n = root
      · subst hn; simp at hx; subst hx; exact hones
      · simp [hn] at hx; exact hold n x hx
    | some old =>
      simp only [hg] at hseed
      cases ha : vArith Arith.add old (vPow (H.val root) Scalar.zero) with
      | ok s =>
        rw [ha] at hseed; simp only [Out.bind] at hseed; cases hseed
        unfold updStore at hx
        by_cases hn : n = root
        · subst hn; simp at hx; subst hx
          exact (hadd _ _ _ _ (hold _ _ hg) hones ha).1
        · simp [hn] at hx; exact hold n x hx
      | err => rw [ha] at hseed; simp [Out.bind] at hseed
      | panic => rw [ha] at hseed; simp [Out.bind] at hseed
  refine adjoint_duality (vArith .add) (fun r gy => evalRule bm (markDirty H (backwardOrder H root)) gy r) H.tracked ip push
    (edgesOf H) (backwardOrder H root) hnd final seedG hsums hdef ?_ Good hadd hseedGood ?_ ?_ dv δ ?_
  · -- closed
    intro p hp ht
    unfold allPairs at hp
    obtain ⟨u, hu, hpu⟩ := List.mem_flatMap.mp hp
    obtain ⟨e, he, rfl⟩ := List.mem_map.mp hpu
    unfold edgesOf at he
    obtain ⟨e0, he0, rfl⟩ := List.mem_map.mp he
    apply hclosed u hu
    unfold succs
    exact List.mem_filter.mpr ⟨List.mem_map.mpr ⟨e0, he0, rfl⟩, ht⟩
  · -- contributions are Good
    intro n g hg
    unfold contrib at hg
    obtain ⟨p, hp, hpe⟩ := List.mem_filterMap.mp hg
    unfold allPairs at hp
    obtain ⟨u, hu, hpu⟩ := List.mem_flatMap.mp hp
    obtain ⟨e, he, rfl⟩ := List.mem_map.mp hpu
    unfold edgesOf at he
    obtain ⟨e0, he0, rfl⟩ := List.mem_map.mp he
    simp only [] at hpe
    split at hpe
    · rename_i hc
      cases hG : final u with
      | none => rw [hG] at hpe; simp at hpe
      | some gy =>
        rw [hG] at hpe
        simp only [] at hpe
        cases hp2 : evalRule bm (markDirty H (backwardOrder H root)) gy e0.rule with
        | ok g' =>
          rw [hp2] at hpe; simp only [Option.some.injEq] at hpe
          subst hpe
          rw [← hc.2]
          exact hrule u hu e0 he0 hc.1 gy _ hp2
        | err => rw [hp2] at hpe; simp at hpe
        | panic => rw [hp2] at hpe; simp at hpe
    · simp at hpe
  · -- adjointness, re-indexed over `edgesOf`
    intro p hp ht gy g hg t
    unfold allPairs at hp
    obtain ⟨u, hu, hpu⟩ := List.mem_flatMap.mp hp
    obtain ⟨e, he, rfl⟩ := List.mem_map.mp hpu
    unfold edgesOf at he
    obtain ⟨e0, he0, rfl⟩ := List.mem_map.mp he
    exact hadj u hu e0 he0 ht gy g hg t
  · -- tangent equations, re-indexed over `edgesOf`
    intro u hu gy
    rw [htan u hu gy]
    congr 1
    unfold edgesOf
    rw [List.map_map]
    rfl

/-- on a graph that carries no earlier gradients the right-hand side is the pairing of the all-ones seed with the
    tangent of the root -/
theorem seed_side_fresh {T : Type} (H : Heap α) (root : Nat) (L : List Nat) (hnd : L.Nodup) (hroot : root ∈ L)
    (hfresh : ∀ n, H.grad n = none) (ip : Tensor α → T → ℝ) (dv : Nat → T) (seedG : Nat → Option (Tensor α))
    (hseed : accumG (vArith .add) (fun n => H.grad n) root (vPow (H.val root) Scalar.zero) = .ok seedG) :
    (L.map (fun n => ipo ip (seedG n) (dv n))).sum = ip (vPow (H.val root) Scalar.zero) (dv root) := by
  unfold accumG at hseed
  simp only [hfresh] at hseed
  cases hseed
  have : ∀ n, ipo ip (updStore (fun _ => none) root (vPow (H.val root) Scalar.zero) n) (dv n)
      = if root = n then ip (vPow (H.val root) Scalar.zero) (dv root) else 0 := by
    intro n
    unfold updStore
    by_cases hn : n = root
    · subst hn; simp [ipo]
    · have : ¬ root = n := fun e => hn e.symm
      simp [hn, this, ipo]
  rw [sum_congr_map L _ _ (fun n _ => this n), sum_indicator L hnd root]
  simp [hroot]

/-- the element-wise pairing of a gradient with a tangent of the same shape -/
def dotp (g t : Tensor ℝ) : ℝ := (List.zipWith (· * ·) g.data t.data).sum

/-- the additivity hypothesis holds for `dotp` with "has shape `ds`" as invariant: accumulation of two gradients of
    the same shape is element-wise addition -/
theorem dotp_add_same (ds : List Nat) (a b s : Tensor ℝ) (ha : a.WF ∧ a.dims = ds) (hb : b.WF ∧ b.dims = ds)
    (h : vArith .add a b = .ok s) : (s.WF ∧ s.dims = ds) ∧ ∀ t, dotp s t = dotp a t + dotp b t := by
  have hd : a.dims = b.dims := by rw [ha.2, hb.2]
  rw [vArith_same .add a b ha.1 hb.1 hd] at h
  cases h
  have hl : a.data.length = b.data.length := by rw [ha.1.1, hb.1.1, hd]
  refine ⟨⟨⟨?_, ha.1.2⟩, ha.2⟩, ?_⟩
  · simp only [List.length_zipWith, hl, Nat.min_self]; rw [← hl]; exact ha.1.1
  · intro t
    unfold dotp
    simp only []
    generalize a.data = A at hl
    generalize b.data = B at hl
    generalize t.data = X
    induction A generalizing B X with
    | nil => cases B <;> simp at hl ⊢
    | cons x A ih =>
      cases B with
      | nil => simp at hl
      | cons y B =>
        cases X with
        | nil => simp
        | cons z X =>
          have ih' := ih B (by simpa using hl) X
          simp only [Arith.fn] at ih'
          simp only [List.zipWith_cons_cons, List.sum_cons, Arith.fn]
          rw [ih']
          have : Scalar.add x y = x + y := rfl
          rw [this]
          ring

end C01x
end Qeep
