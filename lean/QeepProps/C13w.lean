import QeepProps.C13z
import QeepProps.C15w
/-!
# C13 / C02 — on a leaf prediction `BackPropagate` of the MSE loss SUCCEEDS and stores `2(p − t)/n`
-/
set_option linter.unusedSimpArgs false
set_option linter.unusedSectionVars false
set_option linter.unusedVariables false

namespace Qeep
namespace C13w
open RealScalar C13x C13z C15x C15z C15w C01 C01x C01z C01w C01p C20
open C12x (wf_map)

/-- per-tensor invariant of the gradients on the MSE walk: the loss is a scalar, everything else has length `n` -/
def mseP (N n : Nat) (k : Nat) (g : Tensor ℝ) : Prop :=
  if k = N + 4 then Shaped [] g else Shaped [n] g

/-- **MSE on a leaf prediction**: `BackPropagate` of the loss succeeds and `p.Gradient()` is `2(pᵢ − tᵢ)/n` -/
theorem mse_backprop_leaf (bm : BMode) (H : Heap ℝ) (p t n : Nat) (hR : Reach bm H) (hp : p < H.size) (ht : t < H.size)
    (wp : (H.val p).WF) (wt : (H.val t).WF) (dp : (H.val p).dims = [n]) (dt : (H.val t).dims = [n])
    (hpt : H.tracked p = true) (hpc : H.dirty p = false) (htt : H.tracked t = false) (htc : H.dirty t = false)
    (hleaf : (H.ctx p).edges = []) :
    ∃ r H', lossCompute Loss.mse (some p) (some t) H = .ok (r, H') ∧ (backprop bm H' r).status = .ok () ∧
      (backprop bm H' r).heap.grad p
        = some ⟨[n], List.zipWith (fun tv pv => 2 * (pv - tv) / (n : ℝ)) (H.val t).data (H.val p).data⟩ := by
  obtain ⟨r, H', hrun, himp⟩ := mse_backprop bm H p t n hR hp ht wp wt dp dt hpt hpc htt htc
  have hok : (backprop bm H' r).status = .ok () := by
    have hn : 0 < n := wp.2 n (by rw [dp]; simp)
    have lp : (H.val p).data.length = n := by rw [wp.1, dp]; simp [prod]
    have lt' : (H.val t).data.length = n := by rw [wt.1, dt]; simp [prod]
    have hZ : ((H.val t).data.zip (H.val p).data).length = prod [n] := by simp [prod, lp, lt']
    have hd : ∀ y ∈ [n], 0 < y := by simpa using hn
    have t0 : St H t ⟨[n], ((H.val t).data.zip (H.val p).data).map (fun z => z.1)⟩ false (H.ctx t).edges :=
      ⟨ht, by rw [List.map_fst_zip (by omega), ← dt], htc, htt, fun h => by cases h⟩
    have p0 : St H p ⟨[n], ((H.val t).data.zip (H.val p).data).map (fun z => z.2)⟩ true (H.ctx p).edges :=
      ⟨hp, by rw [List.map_snd_zip (by omega), ← dp], hpc, hpt, fun _ => rfl⟩
    obtain ⟨H1, r1, e1, s1, ta1, pb1, d1⟩ := g_arith hZ hd .sub t0 p0
    rw [Bool.false_or] at d1
    obtain ⟨H2, r2, e2, s2, d2_2⟩ := g_pow d1 (Scalar.two : ℝ)
    have wd : (⟨[n], ((H.val t).data.zip (H.val p).data).map (fun z => Arith.sub.fn z.1 z.2)⟩ : Tensor ℝ).WF := wf_map hZ hd _
    have wd2 : (vPow (⟨[n], ((H.val t).data.zip (H.val p).data).map (fun z => Arith.sub.fn z.1 z.2)⟩ : Tensor ℝ) Scalar.two).WF :=
      map_wf _ _ wd
    obtain ⟨H3, r3, e3, s3, l3⟩ := g_along d2_2 .mean 0 _ (C12.vAlong_rank1 .mean _ n rfl wd2)
    have R1 : Reach bm H1 := Reach.arith hR ht hp r1
    have R2 : Reach bm H2 := Reach.pow R1 d1.lt r2
    have R3 : Reach bm H3 := Reach.along R2 d2_2.lt r3
    have hrule : alongRule (α := ℝ) .mean H1.size H2.size (0 : Int).toNat = .avgAlongX H1.size 0 := rfl
    rw [hrule] at l3
    have hrun' : lossCompute Loss.mse (some p) (some t) H = .ok (H2.size, H3) := by
      unfold lossCompute
      rw [bind_run (show (getHeap : HM ℝ (Heap ℝ)) H = .ok (H, H) from rfl)]
      have hv : lossValid H Loss.mse (some p) (some t) = .ok (p, t) := by simp [lossValid, dp, dt]
      rw [bind_run (show (liftOut (lossValid H Loss.mse (some p) (some t)) : HM ℝ (Nat × Nat)) H = .ok ((p, t), H) by rw [hv]; rfl)]
      simp only []
      rw [bind_run r1, bind_run r2]
      exact r3
    obtain ⟨rfl, rfl⟩ := run_unique hrun' hrun
    have i1 : H1.size = H.size + 3 := s1
    have i2 : H2.size = H.size + 4 := by omega
    rw [i1] at d2_2 l3
    rw [i2] at l3 ⊢
    have hdag := reach_dag R3
    have f23 : Extends H2 H3 := e3
    have f13 : Extends H1 H3 := e2.trans f23
    have f03 : Extends H H3 := e1.trans f13
    have Pp := p0.mono f03
    have Ppb := pb1.mono f13
    have Pd := d1.mono f13
    have Pd2 := d2_2.mono f23
    obtain ⟨tl, el⟩ := st_facts l3
    obtain ⟨td2, ed2⟩ := st_facts Pd2
    obtain ⟨td, ed⟩ := st_facts Pd
    obtain ⟨tb, eb⟩ := st_facts Ppb
    have ta : H3.tracked H.size = false := (ta1.mono f13).tracked
    have ep : (H3.ctx p).edges = [] := by rw [f03.ctx hp]; exact hleaf
    have hfresh := (fresh_lossCompute (α := ℝ) Loss.mse (some p) (some t) H _ _ hrun').2
    have gp : H3.grad p = none := by
      have := reach_clean_nograd hR p hpc
      simp only [Heap.grad, f03.ctx hp] at this ⊢; exact this
    have hM : ∀ v ∈ backwardOrder H3 (H.size + 4), v = H.size + 4 ∨ v = H.size + 3 ∨ v = H.size + 2 ∨ v = H.size + 1 ∨ v = p := by
      apply order_subset H3 (H.size + 4)
      · left; rfl
      · intro u hu v hv
        have hvt : H3.tracked v = true := by
          unfold succs at hv; exact (List.mem_filter.mp hv).2
        obtain ⟨e, he, rfl⟩ := mem_succs_edge H3 u v hv
        rcases hu with rfl | rfl | rfl | rfl | rfl
        · rw [el] at he; simp at he; subst he; simp
        · rw [ed2] at he; simp at he; subst he; simp
        · rw [ed] at he; simp [C13x.arithEdges] at he
          rcases he with rfl | rfl
          · simp at hvt; rw [ta] at hvt; cases hvt
          · simp
        · rw [eb] at he; simp at he; subst he; simp
        · rw [ep] at he; simp at he
    let Hm := markDirty H3 (backwardOrder H3 (H.size + 4))
    have hv1 : ∀ k, Hm.val k = H3.val k := fun k => markDirty_val _ _ k
    let D : Tensor ℝ := ⟨[n], List.zipWith (fun tv pv => tv - pv) (H.val t).data (H.val p).data⟩
    have vD : Hm.val (H.size + 2) = D := by
      rw [hv1, Pd.val]
      simp only [D, Arith.fn, sub_eq]
      congr 1
      simp [List.zip, List.map_zipWith]
    have wD : D.WF := ⟨by simp [D, lt', lp, prod], fun d hd => by simp [D] at hd; subst hd; exact hn⟩
    have vD2 : (Hm.val (H.size + 3)).dims = [n] := by rw [hv1, Pd2.val]; rfl
    have vP : Hm.val p = H.val p := by rw [hv1, f03.val hp]
    have vB : (Hm.val (H.size + 1)).dims = (Hm.val p).dims := by rw [hv1, Ppb.val, vP, dp]
    have wl : (H3.val (H.size + 4)).WF := by rw [l3.val]; exact ⟨by simp [prod], by simp⟩
    apply backprop_ok bm H3 (H.size + 4) hdag tl (mseP H.size n)
    · intro k a b ha hb
      unfold mseP at ha hb ⊢
      split
      · rename_i hk; rw [if_pos hk] at ha hb; exact shaped_add_ok [] a b ha hb
      · rename_i hk; rw [if_neg hk] at ha hb; exact shaped_add_ok [n] a b ha hb
    · intro k hk g hg
      rcases hM k hk with rfl | rfl | rfl | rfl | rfl
      · rw [hfresh _ (by omega)] at hg; cases hg
      · rw [hfresh _ (by omega)] at hg; cases hg
      · rw [hfresh _ (by omega)] at hg; cases hg
      · rw [hfresh _ (by omega)] at hg; cases hg
      · rw [gp] at hg; cases hg
    · unfold mseP
      rw [if_pos rfl]
      have := ones_shaped (H3.val (H.size + 4)) wl
      rw [l3.val] at this ⊢
      exact this
    · intro u hu e he htr gy hgy
      rcases hM u hu with rfl | rfl | rfl | rfl | rfl
      · -- the loss: MeanAlong rule on a scalar gradient
        rw [el] at he; simp at he; subst he
        dsimp only
        unfold mseP at hgy
        rw [if_pos rfl] at hgy
        obtain ⟨c, hc⟩ : ∃ c, gy = ⟨[], [c]⟩ := by
          obtain ⟨⟨hl, _⟩, hdm⟩ := hgy
          cases gy with
          | mk dims data =>
            simp only at hdm hl
            subst hdm
            simp [prod] at hl
            match data, hl with
            | [c], _ => exact ⟨c, rfl⟩
        subst hc
        refine ⟨⟨[n], (List.replicate n c).map (fun g => (1 / (n : ℝ)) * g)⟩, ?_, ?_⟩
        · have vD2' : ((markDirty H3 (backwardOrder H3 (H.size + 4))).val (H.size + 3)).dims = [n] := vD2
          simp only [evalRule, vD2', bind, Out.bind, C13.reducerBroadcasted_scalar c n hn, pure, List.getD_cons_zero]
          simp [vScale, Tensor.map]
        · unfold mseP
          rw [if_neg (by omega)]
          exact ⟨⟨by simp [prod], fun d hd => by simp at hd; subst hd; exact hn⟩, rfl⟩
      · -- d²: Pow rule
        rw [ed2] at he; simp at he; subst he
        dsimp only
        unfold mseP at hgy
        rw [if_neg (by omega)] at hgy
        have := C02.rule_pow bm Hm gy (H.size + 2) hgy.1 (by rw [vD]; exact wD) (by rw [vD]; exact hgy.2) 2
        rw [vD] at this
        refine ⟨_, by simpa [two_eq] using this, ?_⟩
        unfold mseP
        rw [if_neg (by omega)]
        refine ⟨⟨?_, hgy.1.2⟩, hgy.2⟩
        have hl : gy.data.length = n := by rw [hgy.1.1, hgy.2]; simp [prod]
        simp [D, hl, lt', lp]; rw [hgy.2]; simp [prod]
      · -- d = t − p: identity towards t' (untracked), negation towards p'
        rw [ed] at he; simp [C13x.arithEdges] at he
        unfold mseP at hgy
        rw [if_neg (by omega)] at hgy
        rcases he with rfl | rfl
        · simp at htr; rw [ta] at htr; cases htr
        · dsimp only
          refine ⟨_, (C02.rule_add_sub bm Hm gy).2, ?_⟩
          unfold mseP
          rw [if_neg (by omega)]
          exact ⟨⟨by simp [hgy.1.1], hgy.1.2⟩, hgy.2⟩
      · -- p' = Broadcast(p): equal shapes
        rw [eb] at he; simp at he; subst he
        dsimp only
        unfold mseP at hgy
        rw [if_neg (by omega)] at hgy
        refine ⟨gy, ?_, ?_⟩
        · simp only [evalRule]
          rw [show (Hm.val (H.size + 1)).dims = (Hm.val p).dims from vB]
          exact C13.bcastRule_same bm _ _
        · unfold mseP
          rw [if_neg (by omega)]
          exact hgy
      · rw [ep] at he; simp at he
  exact ⟨r, H', hrun, hok, himp hok⟩

end C13w
end Qeep
