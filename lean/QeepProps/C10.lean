import QeepProofs.Heap
/-!
# C10 — tensors behave as immutable values decoupled from caller-owned slices

In the Model every tensor is a heap node; a public call is a heap computation. `Frame m` says: when `m`
succeeds the new heap *extends* the old one — every existing node keeps its dims, its data AND its context
(gradient, tracking flags, back edges). So no operation changes the shape or elements of an existing tensor,
assigns a gradient, or changes tracking. Only `backprop` and `resetCtx` write contexts, and they never write
values.

Caller-owned slices: the Model's operations take their `dims` / `index` / `data` / tensor-list arguments as
*values* and every `Rule` stores its own copy, so "mutating the caller's slice later changes nothing" holds in
the Model by construction; that the Go code behaves like this Model (it copies on the way in and out) is what
the mutation programs of the correspondence run check (`gen/total.py: gen_C10`).
-/

namespace Qeep
namespace C10

variable {α : Type} [Scalar α]

/-- **No public forward operation changes any existing tensor** (value or context): all of them only allocate. -/
theorem forward_ops_only_allocate :
    (∀ x i, Frame (hSlice (α := α) x i)) ∧ (∀ x i p, Frame (hPatch (α := α) x i p)) ∧ (∀ x, Frame (hTranspose (α := α) x)) ∧
    (∀ x s, Frame (hReshape (α := α) x s)) ∧ (∀ x d, Frame (hUnSqueeze (α := α) x d)) ∧ (∀ x d, Frame (hSqueeze (α := α) x d)) ∧
    (∀ x d, Frame (hFlatten (α := α) x d)) ∧ (∀ x s, Frame (hBroadcast (α := α) x s)) ∧ (∀ r x d, Frame (hAlong (α := α) r x d)) ∧
    (∀ x (a : α), Frame (hScale x a)) ∧ (∀ x (a : α), Frame (hPow x a)) ∧ (∀ f x, Frame (hUnary (α := α) f x)) ∧
    (∀ c a b, Frame (hCmp (α := α) c a b)) ∧ (∀ o a b, Frame (hArith (α := α) o a b)) ∧ (∀ a b, Frame (hDot (α := α) a b)) ∧
    (∀ a b, Frame (hMatMul (α := α) a b)) ∧ (∀ xs d, Frame (hConcat (α := α) xs d)) ∧ (∀ v b, Frame (hLeaf (α := α) v b)) :=
  ⟨frame_hSlice, frame_hPatch, frame_hTranspose, frame_hReshape, frame_hUnSqueeze, frame_hSqueeze, frame_hFlatten,
   frame_hBroadcast, frame_hAlong, frame_hScale, frame_hPow, frame_hUnary, frame_hCmp, frame_hArith, frame_hDot,
   frame_hMatMul, frame_hConcat, frame_hLeaf⟩

/-- the same for the component entry points: activations, losses, the FC layer, the accuracy metric and the
    optimizer step (the previous weight tensor and its gradient are left exactly as they were) -/
theorem components_only_allocate :
    (∀ (a : Activation α) xs, Frame (actForward a xs)) ∧ (∀ l yp yt, Frame (lossCompute (α := α) l yp yt)) ∧
    (∀ c xs, Frame (fcForward (α := α) c xs)) ∧ (∀ (lr : α) w, Frame (sgdUpdate lr w)) ∧
    (∀ c yp yt, Frame (accAccumulate (α := α) c yp yt)) :=
  ⟨frame_actForward, frame_lossCompute, frame_fcForward, frame_sgdUpdate, frame_accAccumulate⟩

/-- what `Frame` gives for an existing tensor `n`: same dims, same elements, same gradient, same flags -/
theorem frame_unfold {β : Type} {m : HM α β} (hm : Frame m) {H H' : Heap α} {r : β} (h : m H = .ok (r, H'))
    {n : Nat} (hn : n < H.size) :
    (H'.val n).dims = (H.val n).dims ∧ (H'.val n).data = (H.val n).data ∧ H'.grad n = H.grad n ∧
    H'.tracked n = H.tracked n ∧ H'.dirty n = H.dirty n := by
  have e := hm H r H' h
  have hv := e.val hn
  have hc := e.ctx hn
  simp [Heap.grad, Heap.tracked, Heap.dirty, hv, hc]

/-- **BackPropagate changes no tensor's shape or elements**, whatever its outcome -/
theorem backprop_changes_no_value (bm : BMode) (H : Heap α) (root n : Nat) :
    (backprop bm H root).heap.val n = H.val n := (backprop_val bm H root n).1

/-- **ResetGradContext changes no value and no other tensor's context** -/
theorem reset_changes_only_own_context (H : Heap α) (n : Nat) (b : Bool) :
    (∀ m, (resetCtx H n b).val m = H.val m) ∧ (∀ m, m ≠ n → (resetCtx H n b).ctx m = H.ctx m) :=
  ⟨(resetCtx_frame H n b).2.1, (resetCtx_frame H n b).2.2⟩

/-- non-vacuity: a successful Scale on a one-node heap leaves node 0 as it was and allocates node 1 -/
example : ∃ r H', (hScale 0 (2 : Rat) : HM Rat Nat) #[⟨⟨[2], [1, 2]⟩, { tracked := true }⟩] = .ok (r, H') ∧
    H'.val 0 = ⟨[2], [1, 2]⟩ ∧ r = 1 := by
  refine ⟨1, _, rfl, ?_, rfl⟩
  decide

end C10
end Qeep
