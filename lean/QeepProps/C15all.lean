import QeepProps.C15y
import QeepProps.C15z
import QeepProps.C15w
/-! C15 — all property theorems: `C15`, `C15x`, `C15y` (local backward passes, Softmax for every rank and dim) and `C15z`
(Sigmoid, Relu, LeakyRelu, Tanh end to end: the gradient `BackPropagate` stores on the activation's input). `C15w` (leaf versions: `BackPropagate` succeeds, unconditionally, and stores `f'(x)`). -/
