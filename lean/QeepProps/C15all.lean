import QeepProps.C15y
import QeepProps.C15z
import QeepProps.C15w
import QeepProps.C15v
import QeepProps.C15u
import QeepProps.C15t
/-! C15 — all property theorems: `C15`, `C15x`, `C15y` (local backward passes, Softmax for every rank and dim) and `C15z`
(Sigmoid, Relu, LeakyRelu, Tanh end to end: the gradient `BackPropagate` stores on the activation's input). `C15w` (leaf versions: `BackPropagate` succeeds, unconditionally, and stores `f'(x)`). `C15v` (Softmax, rank 1: the graph with identities, Softmax inside any walk — `x.Gradient()` is `s_j·(G_j − bfac·Σ G_i s_i)` — and on its own output: zeros in `sum` mode, `s_j·(1 − 1/n)` in `mean` mode, finding D2). `C15u` (`sigmoid_in_walk`: Sigmoid inside any walk, `x.Gradient() = G ⊙ σ'(x)` for the gradient `G` the walk leaves on the output). `C15t` (`sg_edge_ok`: the same for the Sigmoid graph). -/
