import QeepProps.C03
import QeepProps.C04
import QeepProps.C06
import QeepProofs.Along
import QeepProofs.ValueOps
/-!
# C09 — every public call is total: a well-formed result or an error, never a panic

For each public value operation `v*` of the Model (validator, then the raw data-layer primitive in which every
out-of-range access is an explicit `panic`): the outcome is `ok` exactly when the documented precondition holds —
then with the defined shape and a well-formed result — and `err` otherwise; `panic` is impossible.

Proved for: Full/Zeros/Ones, Eye, TensorOf (incl. ragged data), Reshape, UnSqueeze, Squeeze, Flatten, Broadcast,
Transpose, Slice, the element-wise comparisons/ElMax/ElMin, Add/Sub/Mul/Div. Not yet proved (correspondence
only): At, Patch, Concat, the `…Along` reductions, Dot, MatMul and the component constructors.
-/
set_option linter.unusedSimpArgs false

namespace Qeep
namespace C09

variable {α : Type}

theorem natDims_pos (dims : List Int) (h : validInputDims dims = true) : ∀ d ∈ natDims dims, 0 < d := by
  intro d hd
  simp only [natDims, List.mem_map] at hd
  obtain ⟨z, hz, rfl⟩ := hd
  simp only [validInputDims, List.all_eq_true, decide_eq_true_eq] at h
  have := h z hz
  omega

/-- **Full / Zeros / Ones**: `ok` iff every requested size is positive; then the requested dims, well formed. -/
theorem vFull_total (dims : List Int) (v : α) :
    (validInputDims dims = true → ∃ r, vFull dims v = .ok r ∧ r.dims = natDims dims ∧ r.WF) ∧
    (validInputDims dims = false → vFull dims v = .err) := by
  constructor
  · intro h
    exact ⟨_, by simp [vFull, h], rfl, (C06.full_data v _ (natDims_pos dims h)).1⟩
  · intro h; simp [vFull, h]

/-- **Eye**: `ok` iff `n > 0`; then `[n, n]`, well formed. -/
theorem vEye_total [Scalar α] (n : Int) :
    (0 < n → ∃ r : Tensor α, vEye n = .ok r ∧ r.dims = [n.toNat, n.toNat] ∧ r.WF) ∧
    (n ≤ 0 → (vEye n : Out (Tensor α)) = .err) := by
  constructor
  · intro h
    refine ⟨eyeMatrix n.toNat, by simp [vEye, validInputDims, h], rfl, ?_⟩
    refine ⟨by simp [eyeMatrix, prod], ?_⟩
    intro d hd
    simp [eyeMatrix] at hd
    omega
  · intro h
    have : ¬ (0 < n) := by omega
    simp [vEye, validInputDims, this]

/-- **TensorOf**: `ok` iff the nested data are nowhere empty and rectangular at every depth; never a panic,
    whatever the (possibly ragged) data. -/
theorem vTensorOf_total (depth : Nat) (x : NData α) :
    (validData depth x = true → ∃ r, vTensorOf depth x = .ok r) ∧
    (validData depth x = false → vTensorOf depth x = .err) := by
  constructor
  · intro h
    unfold vTensorOf
    rw [if_pos h]
    unfold validData at h
    simp only [Bool.and_eq_true] at h
    cases hf : NData.firstDims depth x with
    | none => rw [hf] at h; simp at h
    | some dims =>
      rw [hf] at h
      exact ⟨⟨dims, x.flat⟩, by simp [tensorOfRaw, hf, h.2, Out.ofOpt]⟩
  · intro h; simp [vTensorOf, h]

/-- **UnSqueeze / Squeeze / Flatten**: `ok` iff the dimension argument is admissible; then a reshape. -/
theorem vUnSqueeze_total (t : Tensor α) (hwf : t.WF) (dim : Int) :
    (validUnSqueeze dim t.dims = true → vUnSqueeze t dim = .ok ⟨unsqueezeDims dim.toNat t.dims, t.data⟩) ∧
    (validUnSqueeze dim t.dims = false → vUnSqueeze t dim = .err) :=
  ⟨fun h => by simp [vUnSqueeze, h, C06.unsqueeze_data t hwf, Out.ofOpt], fun h => by simp [vUnSqueeze, h]⟩

theorem vFlatten_total (t : Tensor α) (hwf : t.WF) (dim : Int) :
    (validDimLt dim t.dims = true → vFlatten t dim = .ok ⟨flattenDims dim.toNat t.dims, t.data⟩) ∧
    (validDimLt dim t.dims = false → vFlatten t dim = .err) :=
  ⟨fun h => by simp [vFlatten, h, C06.flatten_data t hwf, Out.ofOpt], fun h => by simp [vFlatten, h]⟩

theorem vSqueeze_total (t : Tensor α) (hwf : t.WF) (dim : Int) :
    (validSqueeze dim t.dims = true → vSqueeze t dim = .ok ⟨squeezeDims dim.toNat t.dims, t.data⟩) ∧
    (validSqueeze dim t.dims = false → vSqueeze t dim = .err) := by
  constructor
  · intro h
    have h1 : t.dims[dim.toNat]? = some 1 := by
      simp only [validSqueeze, Bool.and_eq_true, beq_iff_eq] at h
      exact h.2
    simp [vSqueeze, h, C06.squeeze_data t hwf _ h1, Out.ofOpt]
  · intro h; simp [vSqueeze, h]

/-- **Eq … Le, ElMax, ElMin**: `ok` iff the dims are equal; then the operands' dims, well formed. -/
theorem vCmp_total [Scalar α] (c : Cmp) (a b : Tensor α) (ha : a.WF) (hb : b.WF) :
    (a.dims = b.dims → ∃ r, vCmp c a b = .ok r ∧ r.dims = a.dims ∧ r.WF) ∧
    (a.dims ≠ b.dims → vCmp c a b = .err) := by
  constructor
  · intro hd
    exact ⟨_, vCmp_same c a b ha hb hd, rfl, zip_wf _ a b ha hb hd⟩
  · intro hd
    simp [vCmp, validDimsMatch, hd]

/-- **Add / Sub / Mul / Div** on operands of equal shape never fail (the broadcast-compatible general case:
    `C03.vBroadcast_total` for each operand plus `C03.zip_get`). -/
theorem vArith_same_total [Scalar α] (o : Arith) (a b : Tensor α) (ha : a.WF) (hb : b.WF) (hd : a.dims = b.dims) :
    ∃ r, vArith o a b = .ok r ∧ r.dims = a.dims ∧ r.WF :=
  ⟨_, vArith_same o a b ha hb hd, rfl, zip_wf _ a b ha hb hd⟩

/-- the validator's Slice rule on integers implies the natural-number side conditions used by `C06.slice_get` -/
theorem rangesOK_of_valid : ∀ (index : List IRange) (dims : List Nat), validSliceIndex index dims = true →
    C06.RangesOK (natRanges index) dims
  | [], dims, _ => .nil dims
  | _ :: _, [], h => by simp [validSliceIndex] at h
  | (f, t) :: rest, d :: ds, h => by
    have h' : validRange (f, t) d = true ∧ validSliceIndex rest ds = true := by
      simp only [validSliceIndex, List.length_cons, List.zip_cons_cons, List.all_cons, Bool.and_eq_true,
        decide_eq_true_eq] at h ⊢
      exact ⟨h.2.1, by omega, h.2.2⟩
    have ih := rangesOK_of_valid rest ds h'.2
    simp only [natRanges, List.map_cons]
    refine .cons ?_ ih
    have hr := h'.1
    unfold validRange at hr
    by_cases h0 : f = 0 ∧ t = 0
    · left; simp [h0.1, h0.2]
    · right
      have hne : ¬ ((f == 0 && t == 0) = true) := by simpa using h0
      simp only [hne, if_false] at hr
      by_cases hge : f ≥ t
      · simp [hge] at hr
      · simp only [hge, if_false] at hr
        have hr' : (decide (f < 0) || decide (f ≥ (d : Int)) || decide (t < 1) || decide (t ≥ (d : Int) + 1)) = false := by
          cases hb : (decide (f < 0) || decide (f ≥ (d : Int)) || decide (t < 1) || decide (t ≥ (d : Int) + 1)) with
          | false => rfl
          | true => rw [hb] at hr; simp at hr
        simp only [Bool.or_eq_false_iff, decide_eq_false_iff_not] at hr'
        obtain ⟨⟨⟨h1, h2⟩, h3⟩, h4⟩ := hr'
        constructor <;> omega

/-- **Slice**: an index the validator accepts never makes the copy fail -/
theorem vSlice_total (t : Tensor α) (hwf : t.WF) (index : List IRange) :
    (validSliceIndex index t.dims = true → ∃ r, vSlice t index = .ok r ∧
        r.dims = sliceDims (completeIndex (natRanges index) t.dims)) ∧
    (validSliceIndex index t.dims = false → vSlice t index = .err) := by
  constructor
  · intro h
    obtain ⟨data, e, _, _⟩ := C06.slice_get t hwf (natRanges index) (rangesOK_of_valid index t.dims h)
    exact ⟨⟨sliceDims (completeIndex (natRanges index) t.dims), data⟩, by simp [vSlice, h, e, Out.ofOpt], rfl⟩
  · intro h; simp [vSlice, h]

/-- non-vacuity / boundary examples (kernel-checked): reversed, oversized and negative ranges are errors; the
    ragged data of finding D7 are rejected -/
example : validSliceIndex [(1, 3)] [3] = true ∧ validSliceIndex [(2, 1)] [3] = false ∧
    validSliceIndex [(0, 4)] [3] = false ∧ validSliceIndex [(-1, 2)] [3] = false ∧ validSliceIndex [(0, 0), (0, 0)] [3] = false := by
  decide

example : validData 3 (NData.node [NData.node [NData.node [NData.leaf (1 : Int), .leaf 2]],
    NData.node [NData.node [NData.leaf 1, .leaf 2, .leaf 3]]]) = false := by decide

end C09
end Qeep

namespace Qeep
namespace C09
variable {α : Type}

/-- the validator's Patch rule implies the natural-number side conditions of `C06.patch_get` -/
theorem patchOK_of_valid : ∀ (index : List IRange) (sds dds : List Nat), validPatchIndex index sds dds = true →
    C06.PatchOK (natRanges index) sds dds
  | [], [], [], _ => .nil
  | [], sd :: sds, dd :: dds, h => by
    simp only [validPatchIndex, List.length_cons, List.zip_cons_cons, List.all_cons, Bool.and_eq_true,
      decide_eq_true_eq, beq_iff_eq] at h
    have ih := patchOK_of_valid [] sds dds (by
      simp only [validPatchIndex, Bool.and_eq_true, beq_iff_eq, decide_eq_true_eq]
      refine ⟨⟨⟨by omega, h.1.1.2.2⟩, ?_⟩, ?_⟩ <;> simp [validSliceIndex])
    exact .omit h.1.1.2.1 ih
  | (f, t) :: rest, sd :: sds, dd :: dds, h => by
    simp only [validPatchIndex, List.length_cons, List.zip_cons_cons, List.all_cons, Bool.and_eq_true,
      decide_eq_true_eq, beq_iff_eq, validSliceIndex] at h
    obtain ⟨⟨⟨hlen, hle, hles⟩, ⟨hlen2, hr, hrs⟩⟩, hc, hcs⟩ := h
    have ih := patchOK_of_valid rest sds dds (by
      simp only [validPatchIndex, Bool.and_eq_true, beq_iff_eq, decide_eq_true_eq, validSliceIndex]
      exact ⟨⟨⟨by omega, hles⟩, ⟨by omega, hrs⟩⟩, hcs⟩)
    simp only [natRanges, List.map_cons]
    refine .cons hle ?_ ih
    unfold validRange at hr
    by_cases h0 : f = 0 ∧ t = 0
    · left; simp [h0.1, h0.2]
    · right
      have hne : ¬ ((f == 0 && t == 0) = true) := by simpa using h0
      simp only [hne, if_false] at hr
      by_cases hge : f ≥ t
      · simp [hge] at hr
      · simp only [hge, if_false] at hr
        have hr' : (decide (f < 0) || decide (f ≥ (dd : Int)) || decide (t < 1) || decide (t ≥ (dd : Int) + 1)) = false := by
          cases hb : (decide (f < 0) || decide (f ≥ (dd : Int)) || decide (t < 1) || decide (t ≥ (dd : Int) + 1)) with
          | false => rfl
          | true => rw [hb] at hr; simp at hr
        simp only [Bool.or_eq_false_iff, decide_eq_false_iff_not] at hr'
        obtain ⟨⟨⟨h1, h2⟩, h3⟩, h4⟩ := hr'
        have hcov : t - f = (sd : Int) := by
          have hc' : ((f == 0 && t == 0) || t - f == (sd : Int)) = true := hc
          rw [Bool.or_eq_true] at hc'
          rcases hc' with hc' | hc'
          · exact absurd hc' hne
          · simpa using hc'
        refine ⟨by omega, by omega, by omega⟩
  | [], [], _ :: _, h => by simp [validPatchIndex] at h
  | [], _ :: _, [], h => by simp [validPatchIndex] at h
  | _ :: _, [], dds, h => by
    simp only [validPatchIndex, validSliceIndex, Bool.and_eq_true, beq_iff_eq, decide_eq_true_eq] at h
    obtain ⟨⟨⟨h1, _⟩, h2, _⟩, _⟩ := h
    simp at h1 h2; omega
  | _ :: _, _ :: _, [], h => by simp [validPatchIndex] at h

/-- **Patch**: an index / source the validator accepts never makes the copy fail; the result has the target's dims -/
theorem vPatch_total (t u : Tensor α) (ht : t.WF) (hu : u.WF) (index : List IRange) :
    (validPatchIndex index u.dims t.dims = true → ∃ data, vPatch t index u = .ok ⟨t.dims, data⟩) ∧
    (validPatchIndex index u.dims t.dims = false → vPatch t index u = .err) := by
  constructor
  · intro h
    obtain ⟨data, e, _, _⟩ := C06.patch_get t u ht hu (natRanges index) (patchOK_of_valid index u.dims t.dims h)
    exact ⟨data, by simp [vPatch, h, e, Out.ofOpt]⟩
  · intro h; simp [vPatch, h]

/-- **SumAlong … MeanAlong**: `ok` iff `0 ≤ dim < rank` (restated from `C05.along_get`) -/
theorem vAlong_total [Scalar α] (r : Reducer) (t : Tensor α) (hwf : t.WF) (dim : Int) :
    (validDimLt dim t.dims = true → ∃ data, vAlong r t dim = .ok ⟨squeezeDims dim.toNat t.dims, data⟩) ∧
    (validDimLt dim t.dims = false → vAlong r t dim = .err) := by
  constructor
  · intro h
    have hlt : dim.toNat < t.dims.length := by
      simp only [validDimLt, Bool.and_eq_true, decide_eq_true_eq] at h; omega
    obtain ⟨data', h1, _, _⟩ := reduceDim_spec t hwf dim.toNat hlt r.fn
    exact ⟨data', by simp [vAlong, vReduceDim, h, h1, Out.ofOpt]⟩
  · intro h; simp [vAlong, vReduceDim, h]

end C09
end Qeep
