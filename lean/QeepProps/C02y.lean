import QeepProps.C02x
import QeepProps.C04x
import QeepProps.C05x
import QeepProofs.Calculus
import QeepProofs.Real
/-!
# C02 (contraction and reduction family) — MatMul, Dot, MaxAlong / MinAlong, VarAlong / StdAlong

Property C02: "each operation's backward rule is the vector-Jacobian product (VJP) of its forward function".
`QeepProps.C02` has the element-wise rules (as derivatives), `QeepProps.C02x` the linear structural rules (as adjoints).
This file has the remaining non-element-wise closures of `tensor/internal/gradtrack/gradients.go`; each theorem is about
`Qeep.evalRule bm H gy rule`, the body of one Go `gradFn` closure. Index conventions as in `C04x`: big-endian multi-indices,
`el t idx` = the element at `idx` (zero outside), `inner a b = Σ_k a_k·b_k` over row-major positions (`C02x.inner`).

## 1. MatMul (bilinear) — operands `bd ++ [m,n]`, `bd ++ [n,k]` with ANY common batch shape `bd` (`bd = []`: matrices),
upstream gradient `G : bd ++ [m,k]`; this is the general case, because `hMatMul` attaches the rules to the operands after
`broadcastForMatMul`
* `rule_matmulA` / `rule_matmulB` (any scalar domain): the closure succeeds, IS `G·Bᵀ` resp. `Aᵀ·G` (`vTranspose` then
  `vMatMul`), has dims `bd ++ [m,n]` resp. `bd ++ [n,k]`, is well formed, and element `[b…,i,p]` is `Σ_j G[b…,i,j]·B[b…,p,j]`
  resp. element `[b…,p,j]` is `Σ_i A[b…,i,p]·G[b…,i,j]` (left folds, the Go loop order); `rule_matmulA_real` / `_B_real`:
  the same with `Finset` sums over ℝ;
* `adjoint_matmulA`: `inner (dA·B) G = inner dA (G·Bᵀ)`; `adjoint_matmulB`: `inner (A·dB) G = inner dB (Aᵀ·G)` for all
  directions `dA`, `dB` — the closures are the adjoints (VJPs) of the two partial linear maps; `adjoint_matmul_rank2`: the
  plain-matrix case. `inner_batch2`: `inner` is the triple sum over batch position, row, column.

## 2. Dot — operands `bd ++ [n]` (any leading shape), upstream gradient of dims `bd` (`bd = []`: scalar-shaped)
* `rule_dot` / `rule_dot_real`: `rule(g)[b…,p] = g[b…] · other[b…,p]` (`gy.UnSqueeze(rank).Mul(other)`: the implicit
  broadcast of the trailing size-1 dimension is carried out); `vDot_get`: the public forward call;
* `adjoint_dot`: `inner (Dot(da, other)) g = inner da (rule g)`; `dot_vjp_real` (vectors): forward value `Σ a_k b_k`, rule
  `[g·b_i]`, and `g·b_i = ∂(g·Σ_k a_k b_k)/∂a_i` (`d_dot`).

## 4. MaxAlong / MinAlong (`Rule.extAlongX`)
* `rule_extAlong` (any rank, any `dim`, any scalar domain): element `i` of the result is
  `gy[i without dim] · Eq(x[i], y[i without dim])`, `Eq(a,b) = 1` if `Scalar.near a b` (`|a−b| ≤ 1e-240`) else `0`;
* rank 1 along dim 0: `rule_extAlong_rank1`, `rule_extAlong_rank1_real`; `extAlong_max_select` / `extAlong_min_select`:
  with `y` holding an upper (lower) bound `m` of the elements — as the maximum (minimum) is — the result is `g` exactly at
  the positions with `x_p ≥ m − 1e-240` (`x_p ≤ m + 1e-240`) and `0` elsewhere: EVERY tied extremum receives the full `g`;
* `maxAlong_vjp_deriv` / `minAlong_vjp_deriv`: with a unique extremum (margin `> 1e-240`) and `y` holding the true
  extremum, the result is `g·e_i` and each entry is the partial derivative of `g·max(x)` (`g·min(x)`);
* **finding (ℝ-instance artefact, not a code defect)**: `maxAlong_real_counterexample` — on the Model's ℝ instance
  (`negInf = posInf = 0`) the forward Max of an all-negative vector is `0` and the rule then returns zeros.
  `maxAlong_vjp_real_partial` / `minAlong_vjp_real_partial` (forward + backward on the instance itself: selection relative
  to the instance's `Tensor.max` / `Tensor.min`) and `maxAlong_vjp_deriv_real_partial` / `minAlong_vjp_deriv_real_partial`
  (derivative of the Model's own `Tensor.max` / `.min`, needing the extremum to be positive / negative) are the strongest
  statements about the instance; `along_rank1_fwd`: the forward `…Along(0)` of a vector.

## 3. VarAlong / StdAlong, rank-1 operand along dim 0 (the fibre is the whole vector)
* `rule_varAlong_rank1` / `rule_stdAlong_rank1` (any scalar domain): `n = 1` → `x.Scale(0)`; otherwise
  `[g · (2/(n−1)) · (x_p − mean)]_p` resp. `[g · (1/(n−1)) · ((x_p − mean)/s)]_p`, `s` the forward Std stored in `y`;
* calculus (Mathlib): `d_varF`: `∂Var/∂x_i = 2(x_i − mean)/(n−1)`; `d_stdF`: `∂Std/∂x_i = (x_i − mean)/((n−1)·Std)` where
  `Var ≠ 0`; `mean_ofFn` / `var_ofFn` / `std_ofFn`: the Model's `Tensor.mean/var/std` of `⟨[n], List.ofFn x⟩` ARE these;
* `varAlong_vjp_real`, `stdAlong_vjp_real` (`n ≥ 2`): rule value and `HasDerivAt (fun t => g · Tensor.var/std (x with
  x_i := t)) (rule entry i) (x_i)`; `varStdAlong_one_real`: the `n = 1` branch returns `[0]`, and the Model's Var / Std of a
  one-element vector are constantly `0`.

Every rule theorem has a kernel-checked (`decide`) witness on the `Scalar Int` instance next to it.
Not proved here: VarAlong / StdAlong for rank > 1 or `dim ≠ 0` (the rule text is the same per fibre).
-/
set_option linter.unusedSimpArgs false
set_option linter.unusedSectionVars false
set_option linter.unusedVariables false

namespace Qeep
namespace C02y
open RealScalar
open C04x (el at?_el valid_app valid2 vMatMul_get vTranspose_get_be vTranspose_ok foldl_congr')
open C02x (inner idxOf posOf valid_idxOf posOf_lt posOf_idxOf idxOf_posOf)

variable {α : Type}

/-! ## 1. MatMul -/

section matmul
variable [Scalar α]

/-- **`gradtrack.MatMul`, first operand: `gradFn = y.Gradient().MatMul(b.Transpose())`.** For `B : bd ++ [n,k]` and an
    upstream gradient `G : bd ++ [m,k]` (any common batch shape, all sizes): the closure succeeds, is `G·Bᵀ`, has the first
    operand's dims `bd ++ [m,n]`, and `(G·Bᵀ)[b…,i,p] = Σ_j G[b…,i,j]·B[b…,p,j]`. -/
theorem rule_matmulA (bm : BMode) (H : Heap α) (G : Tensor α) (b : Nat) (bd : List Nat) (m n k : Nat)
    (wG : G.WF) (wB : (H.val b).WF) (hdG : G.dims = bd ++ [m, k]) (hdB : (H.val b).dims = bd ++ [n, k]) :
    ∃ Bt r, vTranspose (H.val b) = .ok Bt ∧ vMatMul G Bt = .ok r ∧
      evalRule bm H G (.matmulA b) = .ok r ∧ r.dims = bd ++ [m, n] ∧ r.WF ∧
      ∀ pre i p, Valid bd pre → i < m → p < n →
        r.at? (pre ++ [i, p]) = some ((List.range k).foldl
          (fun s j => Scalar.add s (Scalar.mul (el G (pre ++ [i, j])) (el (H.val b) (pre ++ [p, j])))) Scalar.zero) := by
  obtain ⟨Bt, eBt⟩ := vTranspose_ok (H.val b) wB bd n k hdB
  obtain ⟨hdBt, wBt, hBt⟩ := vTranspose_get_be (H.val b) Bt wB bd n k hdB eBt
  obtain ⟨r, er, hdr, wr, hr⟩ := vMatMul_get G Bt wG wBt bd m k n hdG hdBt
  refine ⟨Bt, r, eBt, er, ?_, hdr, wr, ?_⟩
  · simp only [evalRule, bind, Out.bind, eBt]; exact er
  · intro pre i p hv hi hp
    rw [hr pre i p hv hi hp]
    congr 1
    apply foldl_congr'
    intro j hj s
    have hj' : j < k := List.mem_range.mp hj
    have e1 : el Bt (pre ++ [j, p]) = el (H.val b) (pre ++ [p, j]) := by unfold el; rw [hBt pre j p hv hj' hp]
    rw [e1]

/-- **`gradtrack.MatMul`, second operand: `gradFn = a.Transpose().MatMul(y.Gradient())`.** For `A : bd ++ [m,n]` and
    `G : bd ++ [m,k]`: the closure succeeds, is `Aᵀ·G`, has the second operand's dims `bd ++ [n,k]`, and
    `(Aᵀ·G)[b…,p,j] = Σ_i A[b…,i,p]·G[b…,i,j]`. -/
theorem rule_matmulB (bm : BMode) (H : Heap α) (G : Tensor α) (a : Nat) (bd : List Nat) (m n k : Nat)
    (wG : G.WF) (wA : (H.val a).WF) (hdG : G.dims = bd ++ [m, k]) (hdA : (H.val a).dims = bd ++ [m, n]) :
    ∃ At r, vTranspose (H.val a) = .ok At ∧ vMatMul At G = .ok r ∧
      evalRule bm H G (.matmulB a) = .ok r ∧ r.dims = bd ++ [n, k] ∧ r.WF ∧
      ∀ pre p j, Valid bd pre → p < n → j < k →
        r.at? (pre ++ [p, j]) = some ((List.range m).foldl
          (fun s i => Scalar.add s (Scalar.mul (el (H.val a) (pre ++ [i, p])) (el G (pre ++ [i, j])))) Scalar.zero) := by
  obtain ⟨At, eAt⟩ := vTranspose_ok (H.val a) wA bd m n hdA
  obtain ⟨hdAt, wAt, hAt⟩ := vTranspose_get_be (H.val a) At wA bd m n hdA eAt
  obtain ⟨r, er, hdr, wr, hr⟩ := vMatMul_get At G wAt wG bd n m k hdAt hdG
  refine ⟨At, r, eAt, er, ?_, hdr, wr, ?_⟩
  · simp only [evalRule, bind, Out.bind, eAt]; exact er
  · intro pre p j hv hp hj
    rw [hr pre p j hv hp hj]
    congr 1
    apply foldl_congr'
    intro i hi s
    have hi' : i < m := List.mem_range.mp hi
    have e1 : el At (pre ++ [p, i]) = el (H.val a) (pre ++ [i, p]) := by unfold el; rw [hAt pre p i hv hp hi']
    rw [e1]

end matmul

/-! ### over ℝ: sums, and adjointness -/

theorem foldl_add_range (f : ℕ → ℝ) : ∀ n : ℕ,
    (List.range n).foldl (fun s p => Scalar.add s (f p)) (Scalar.zero : ℝ) = ∑ p ∈ Finset.range n, f p
  | 0 => by simp
  | n + 1 => by
    rw [List.range_succ, List.foldl_append, foldl_add_range f n, Finset.sum_range_succ]
    simp only [List.foldl_cons, List.foldl_nil, add_eq]

theorem sum_range_mul (f : ℕ → ℝ) (b : ℕ) : ∀ a : ℕ,
    ∑ x ∈ Finset.range (a * b), f x = ∑ i ∈ Finset.range a, ∑ j ∈ Finset.range b, f (i * b + j)
  | 0 => by simp
  | a + 1 => by
    rw [Nat.succ_mul, Finset.sum_range_add, sum_range_mul f b a, Finset.sum_range_succ]

/-- row-major position of the element `[pre…, i, j]` of a tensor of dims `bd ++ [m, k]` -/
theorem at?_batch2 (t : Tensor α) (bd : List Nat) (m k : Nat) (hd : t.dims = bd ++ [m, k]) {pre : List Nat} {i j : Nat}
    (hv : Valid bd pre) (hi : i < m) (hj : j < k) :
    t.at? (pre ++ [i, j]) = t.data[posOf bd pre * (m * k) + (i * k + j)]? := by
  have hidx : Valid t.dims (pre ++ [i, j]) := by rw [hd]; exact valid_app hv (valid2 hi hj)
  rw [C04x.at?_eq_data t hidx, hd]
  have e1 : (bd ++ [m, k]).reverse = [k, m] ++ bd.reverse := by simp
  have e2 : (pre ++ [i, j]).reverse = [j, i] ++ pre.reverse := by simp
  rw [e1, e2]
  congr 1
  simp only [List.cons_append, List.nil_append, val, posOf]
  ring

/-- the pairing of two tensors of dims `bd ++ [m, k]` as a sum over batch position, row and column -/
theorem inner_batch2 (a b : Tensor ℝ) (bd : List Nat) (m k : Nat) (wa : a.WF) (hda : a.dims = bd ++ [m, k])
    (hdb : b.dims = bd ++ [m, k]) :
    inner a b = ∑ q ∈ Finset.range (prod bd), ∑ i ∈ Finset.range m, ∑ j ∈ Finset.range k,
      (a.at? (idxOf bd q ++ [i, j])).getD 0 * (b.at? (idxOf bd q ++ [i, j])).getD 0 := by
  have hbd : ∀ d ∈ bd, 0 < d := fun d hd => wa.2 d (by rw [hda]; simp [hd])
  unfold inner
  have hp : prod a.dims = prod bd * (m * k) := by rw [hda, prod_append]; simp [prod]
  rw [hp, sum_range_mul]
  apply Finset.sum_congr rfl
  intro q hq
  rw [sum_range_mul]
  apply Finset.sum_congr rfl
  intro i hi
  apply Finset.sum_congr rfl
  intro j hj
  have hq' := Finset.mem_range.mp hq
  have hv := valid_idxOf hbd q
  rw [at?_batch2 a bd m k hda hv (Finset.mem_range.mp hi) (Finset.mem_range.mp hj),
    at?_batch2 b bd m k hdb hv (Finset.mem_range.mp hi) (Finset.mem_range.mp hj), posOf_idxOf hbd hq']

theorem el_real (t : Tensor ℝ) (idx : List Nat) : el t idx = (t.at? idx).getD 0 := by
  unfold el; rw [zero_eq]

/-- **MatMul rule towards the first operand over ℝ**: `(G·Bᵀ)[b…, i, p] = Σ_j G[b…, i, j] · B[b…, p, j]` -/
theorem rule_matmulA_real (bm : BMode) (H : Heap ℝ) (G : Tensor ℝ) (b : Nat) (bd : List Nat) (m n k : Nat)
    (wG : G.WF) (wB : (H.val b).WF) (hdG : G.dims = bd ++ [m, k]) (hdB : (H.val b).dims = bd ++ [n, k]) :
    ∃ r, evalRule bm H G (.matmulA b) = .ok r ∧ r.dims = bd ++ [m, n] ∧ r.WF ∧
      ∀ pre i p, Valid bd pre → i < m → p < n →
        r.at? (pre ++ [i, p]) = some (∑ j ∈ Finset.range k, el G (pre ++ [i, j]) * el (H.val b) (pre ++ [p, j])) := by
  obtain ⟨_, r, _, _, e, hdr, wr, hget⟩ := rule_matmulA bm H G b bd m n k wG wB hdG hdB
  refine ⟨r, e, hdr, wr, ?_⟩
  intro pre i p hv hi hp
  rw [hget pre i p hv hi hp]
  congr 1
  exact foldl_add_range (fun j => el G (pre ++ [i, j]) * el (H.val b) (pre ++ [p, j])) k

/-- **MatMul rule towards the second operand over ℝ**: `(Aᵀ·G)[b…, p, j] = Σ_i A[b…, i, p] · G[b…, i, j]` -/
theorem rule_matmulB_real (bm : BMode) (H : Heap ℝ) (G : Tensor ℝ) (a : Nat) (bd : List Nat) (m n k : Nat)
    (wG : G.WF) (wA : (H.val a).WF) (hdG : G.dims = bd ++ [m, k]) (hdA : (H.val a).dims = bd ++ [m, n]) :
    ∃ r, evalRule bm H G (.matmulB a) = .ok r ∧ r.dims = bd ++ [n, k] ∧ r.WF ∧
      ∀ pre p j, Valid bd pre → p < n → j < k →
        r.at? (pre ++ [p, j]) = some (∑ i ∈ Finset.range m, el (H.val a) (pre ++ [i, p]) * el G (pre ++ [i, j])) := by
  obtain ⟨_, r, _, _, e, hdr, wr, hget⟩ := rule_matmulB bm H G a bd m n k wG wA hdG hdA
  refine ⟨r, e, hdr, wr, ?_⟩
  intro pre p j hv hp hj
  rw [hget pre p j hv hp hj]
  congr 1
  exact foldl_add_range (fun i => el (H.val a) (pre ++ [i, p]) * el G (pre ++ [i, j])) m

/-- forward MatMul over ℝ in sum form -/
theorem vMatMul_get_real (a b : Tensor ℝ) (ha : a.WF) (hb : b.WF) (bd : List Nat) (m n k : Nat)
    (hda : a.dims = bd ++ [m, n]) (hdb : b.dims = bd ++ [n, k]) :
    ∃ c, vMatMul a b = .ok c ∧ c.dims = bd ++ [m, k] ∧ c.WF ∧
      ∀ pre i j, Valid bd pre → i < m → j < k →
        c.at? (pre ++ [i, j]) = some (∑ p ∈ Finset.range n, el a (pre ++ [i, p]) * el b (pre ++ [p, j])) := by
  obtain ⟨c, e, hdc, wc, hget⟩ := vMatMul_get a b ha hb bd m n k hda hdb
  refine ⟨c, e, hdc, wc, ?_⟩
  intro pre i j hv hi hj
  rw [hget pre i j hv hi hj]
  congr 1
  exact foldl_add_range (fun p => el a (pre ++ [i, p]) * el b (pre ++ [p, j])) n

/-- **MatMul, first operand: the rule is the adjoint of `dA ↦ dA·B`** (over ℝ, every common batch shape, all sizes):
    `⟨dA·B, G⟩ = ⟨dA, G·Bᵀ⟩`. -/
theorem adjoint_matmulA (bm : BMode) (H : Heap ℝ) (b : Nat) (dA G Y r : Tensor ℝ) (bd : List Nat) (m n k : Nat)
    (wd : dA.WF) (hdd : dA.dims = bd ++ [m, n]) (wB : (H.val b).WF) (hdB : (H.val b).dims = bd ++ [n, k])
    (wG : G.WF) (hdG : G.dims = bd ++ [m, k])
    (hf : vMatMul dA (H.val b) = .ok Y) (hr : evalRule bm H G (.matmulA b) = .ok r) :
    inner Y G = inner dA r := by
  have hbd : ∀ d ∈ bd, 0 < d := fun d hd => wd.2 d (by rw [hdd]; simp [hd])
  obtain ⟨Y', eY, hdY, wY, hY⟩ := vMatMul_get_real dA (H.val b) wd wB bd m n k hdd hdB
  rw [hf] at eY; injection eY with eY; subst eY
  obtain ⟨r', er, hdr, wr, hR⟩ := rule_matmulA_real bm H G b bd m n k wG wB hdG hdB
  rw [hr] at er; injection er with er; subst er
  rw [inner_batch2 Y G bd m k wY hdY hdG, inner_batch2 dA r bd m n wd hdd hdr]
  apply Finset.sum_congr rfl
  intro q _
  have hv := valid_idxOf hbd q
  apply Finset.sum_congr rfl
  intro i hi
  have hi' := Finset.mem_range.mp hi
  have e1 : ∀ j ∈ Finset.range k, (Y.at? (idxOf bd q ++ [i, j])).getD 0 * (G.at? (idxOf bd q ++ [i, j])).getD 0
      = ∑ p ∈ Finset.range n, el dA (idxOf bd q ++ [i, p]) * el (H.val b) (idxOf bd q ++ [p, j])
          * el G (idxOf bd q ++ [i, j]) := by
    intro j hj
    rw [hY _ i j hv hi' (Finset.mem_range.mp hj), Option.getD_some, Finset.sum_mul, el_real G]
  have e2 : ∀ p ∈ Finset.range n, (dA.at? (idxOf bd q ++ [i, p])).getD 0 * (r.at? (idxOf bd q ++ [i, p])).getD 0
      = ∑ j ∈ Finset.range k, el dA (idxOf bd q ++ [i, p]) * el (H.val b) (idxOf bd q ++ [p, j])
          * el G (idxOf bd q ++ [i, j]) := by
    intro p hp
    rw [hR _ i p hv hi' (Finset.mem_range.mp hp), Option.getD_some, Finset.mul_sum, ← el_real dA]
    apply Finset.sum_congr rfl
    intro j _; ring
  rw [Finset.sum_congr rfl e1, Finset.sum_congr rfl e2, Finset.sum_comm]

/-- **MatMul, second operand: the rule is the adjoint of `dB ↦ A·dB`** (over ℝ, every common batch shape, all sizes):
    `⟨A·dB, G⟩ = ⟨dB, Aᵀ·G⟩`. -/
theorem adjoint_matmulB (bm : BMode) (H : Heap ℝ) (a : Nat) (dB G Y r : Tensor ℝ) (bd : List Nat) (m n k : Nat)
    (wd : dB.WF) (hdd : dB.dims = bd ++ [n, k]) (wA : (H.val a).WF) (hdA : (H.val a).dims = bd ++ [m, n])
    (wG : G.WF) (hdG : G.dims = bd ++ [m, k])
    (hf : vMatMul (H.val a) dB = .ok Y) (hr : evalRule bm H G (.matmulB a) = .ok r) :
    inner Y G = inner dB r := by
  have hbd : ∀ d ∈ bd, 0 < d := fun d hd => wd.2 d (by rw [hdd]; simp [hd])
  obtain ⟨Y', eY, hdY, wY, hY⟩ := vMatMul_get_real (H.val a) dB wA wd bd m n k hdA hdd
  rw [hf] at eY; injection eY with eY; subst eY
  obtain ⟨r', er, hdr, wr, hR⟩ := rule_matmulB_real bm H G a bd m n k wG wA hdG hdA
  rw [hr] at er; injection er with er; subst er
  rw [inner_batch2 Y G bd m k wY hdY hdG, inner_batch2 dB r bd n k wd hdd hdr]
  apply Finset.sum_congr rfl
  intro q _
  have hv := valid_idxOf hbd q
  have e1 : ∀ i ∈ Finset.range m, ∑ j ∈ Finset.range k,
        (Y.at? (idxOf bd q ++ [i, j])).getD 0 * (G.at? (idxOf bd q ++ [i, j])).getD 0
      = ∑ j ∈ Finset.range k, ∑ p ∈ Finset.range n, el (H.val a) (idxOf bd q ++ [i, p]) * el dB (idxOf bd q ++ [p, j])
          * el G (idxOf bd q ++ [i, j]) := by
    intro i hi
    apply Finset.sum_congr rfl
    intro j hj
    rw [hY _ i j hv (Finset.mem_range.mp hi) (Finset.mem_range.mp hj), Option.getD_some, Finset.sum_mul, el_real G]
  have e2 : ∀ p ∈ Finset.range n, ∑ j ∈ Finset.range k,
        (dB.at? (idxOf bd q ++ [p, j])).getD 0 * (r.at? (idxOf bd q ++ [p, j])).getD 0
      = ∑ j ∈ Finset.range k, ∑ i ∈ Finset.range m, el (H.val a) (idxOf bd q ++ [i, p]) * el dB (idxOf bd q ++ [p, j])
          * el G (idxOf bd q ++ [i, j]) := by
    intro p hp
    apply Finset.sum_congr rfl
    intro j hj
    rw [hR _ p j hv (Finset.mem_range.mp hp) (Finset.mem_range.mp hj), Option.getD_some, Finset.mul_sum, ← el_real dB]
    apply Finset.sum_congr rfl
    intro i _; ring
  rw [Finset.sum_congr rfl e1, Finset.sum_congr rfl e2]
  -- Σ_i Σ_j Σ_p = Σ_p Σ_j Σ_i
  rw [Finset.sum_comm]
  have e3 : ∀ j ∈ Finset.range k, ∑ i ∈ Finset.range m, ∑ p ∈ Finset.range n,
        el (H.val a) (idxOf bd q ++ [i, p]) * el dB (idxOf bd q ++ [p, j]) * el G (idxOf bd q ++ [i, j])
      = ∑ p ∈ Finset.range n, ∑ i ∈ Finset.range m,
        el (H.val a) (idxOf bd q ++ [i, p]) * el dB (idxOf bd q ++ [p, j]) * el G (idxOf bd q ++ [i, j]) :=
    fun j _ => Finset.sum_comm
  rw [Finset.sum_congr rfl e3, Finset.sum_comm]

/-- the plain-matrix case (`bd = []`) in double-sum form: for `m × n`, `n × k` matrices and an `m × k` upstream gradient
    the pairing `inner` is `Σ_i Σ_j`, and both adjoint identities hold -/
theorem adjoint_matmul_rank2 (bm : BMode) (H : Heap ℝ) (a b : Nat) (dA dB G YA YB rA rB : Tensor ℝ) (m n k : Nat)
    (wA : (H.val a).WF) (hdA : (H.val a).dims = [m, n]) (wB : (H.val b).WF) (hdB : (H.val b).dims = [n, k])
    (wdA : dA.WF) (hddA : dA.dims = [m, n]) (wdB : dB.WF) (hddB : dB.dims = [n, k])
    (wG : G.WF) (hdG : G.dims = [m, k])
    (hfA : vMatMul dA (H.val b) = .ok YA) (hrA : evalRule bm H G (.matmulA b) = .ok rA)
    (hfB : vMatMul (H.val a) dB = .ok YB) (hrB : evalRule bm H G (.matmulB a) = .ok rB) :
    inner YA G = inner dA rA ∧ inner YB G = inner dB rB :=
  ⟨adjoint_matmulA bm H b dA G YA rA [] m n k wdA hddA wB hdB wG hdG hfA hrA,
   adjoint_matmulB bm H a dB G YB rB [] m n k wdB hddB wA hdA wG hdG hfB hrB⟩

/-! ## 2. Dot -/

theorem compatLE_self : ∀ l : List Nat, C03x.compatLE l l = true
  | [] => rfl
  | a :: l => by simp [C03x.compatLE, compatLE_self l]

/-- row-major position of the element `[pre…, p]` of a tensor of dims `bd ++ [n]` -/
theorem at?_batch1 (t : Tensor α) (bd : List Nat) (n : Nat) (hd : t.dims = bd ++ [n]) {pre : List Nat} {p : Nat}
    (hv : Valid bd pre) (hp : p < n) :
    t.at? (pre ++ [p]) = t.data[posOf bd pre * n + p]? := by
  have hidx : Valid t.dims (pre ++ [p]) := by rw [hd]; exact valid_app hv (.cons hp .nil)
  rw [C04x.at?_eq_data t hidx, hd]
  have e1 : (bd ++ [n]).reverse = n :: bd.reverse := by simp
  have e2 : (pre ++ [p]).reverse = p :: pre.reverse := by simp
  rw [e1, e2]
  congr 1
  simp only [val, posOf]
  ring

section dot
variable [Scalar α]

/-- **`gradtrack.Dot`: `gradFn = y.Gradient().UnSqueeze(rank).Mul(other)`.** -/
theorem rule_dot (bm : BMode) (H : Heap α) (gy : Tensor α) (o : Nat) (bd : List Nat) (n : Nat)
    (wg : gy.WF) (wo : (H.val o).WF) (hdg : gy.dims = bd) (hdo : (H.val o).dims = bd ++ [n]) :
    ∃ r, evalRule bm H gy (.dotG o) = .ok r ∧ r.dims = bd ++ [n] ∧ r.WF ∧
      ∀ pre p, Valid bd pre → p < n →
        r.at? (pre ++ [p]) = some (Scalar.mul (el gy pre) (el (H.val o) (pre ++ [p]))) := by
  have hn : 0 < n := wo.2 n (by rw [hdo]; simp)
  -- UnSqueeze at the rank: dims `bd ++ [1]`, same data
  have hvu : validUnSqueeze (gy.dims.length : Int) gy.dims = true := by
    simp only [validUnSqueeze, Bool.and_eq_true, decide_eq_true_eq]; omega
  have hun : unsqueezeDims gy.dims.length gy.dims = bd ++ [1] := by
    unfold unsqueezeDims; rw [hdg]; simp
  have hu : vUnSqueeze gy (gy.dims.length : Int) = .ok ⟨bd ++ [1], gy.data⟩ := by
    unfold vUnSqueeze
    rw [if_pos hvu, Int.toNat_natCast, C06.unsqueeze_data gy wg, hun]
    rfl
  have wg' : (⟨bd ++ [1], gy.data⟩ : Tensor α).WF := by
    refine ⟨?_, ?_⟩
    · show gy.data.length = prod (bd ++ [1])
      rw [prod_append, wg.1, hdg]; simp [prod]
    · intro d hd
      simp only [List.mem_append, List.mem_cons, List.not_mem_nil, or_false] at hd
      rcases hd with hd | hd
      · exact wg.2 d (by rw [hdg]; exact hd)
      · omega
  have hcompat : C03x.compat (bd ++ [1]) (H.val o).dims = true := by
    rw [hdo]
    simp [C03x.compat, C03x.compatLE, compatLE_self]
  obtain ⟨r, er⟩ := (C03x.arith_total .mul ⟨bd ++ [1], gy.data⟩ (H.val o) wg' wo).1 hcompat
  obtain ⟨hrd, wr⟩ := C03x.arith_result_dims .mul _ _ r wg' wo er
  have htd : targetBroadcastDims (bd ++ [1]) (bd ++ [n]) = bd ++ [n] := by
    have : ¬ 1 > n := by omega
    simp [targetBroadcastDims, targetBroadcastLE, targetBroadcastLE_self, this]
  have hrd' : r.dims = bd ++ [n] := by rw [hrd, hdo]; exact htd
  refine ⟨r, ?_, hrd', wr, ?_⟩
  · simp only [evalRule, bind, Out.bind, hu]; exact er
  · intro pre p hv hp
    have hu' : Valid r.dims.reverse (p :: pre.reverse) := by
      rw [hrd']
      have := C04x.valid_reverse (valid_app hv (Valid.cons hp Valid.nil))
      simpa using this
    obtain ⟨x, y, hx, hy, hr⟩ := C03x.arith_get .mul _ _ r wg' wo er _ hu'
    have e0 : (p :: pre.reverse).reverse = pre ++ [p] := by simp
    rw [e0] at hr
    rw [hr]
    have hl : pre.reverse.length = bd.reverse.length := by simp [hv.length_eq]
    -- the second operand is read at the same index
    have hy' : (H.val o).at? (pre ++ [p]) = some y := by
      rw [← hy, hrd', hdo]
      have : (bd ++ [n]).reverse = n :: bd.reverse := by simp
      rw [this, projLE_self _ _ (by simp [hl])]
      simp
    -- the first at `pre ++ [0]`, which is `gy` at `pre`
    have hx' : gy.at? pre = some x := by
      rw [← hx, hrd']
      have e1 : (bd ++ [n]).reverse = n :: bd.reverse := by simp
      have e2 : (bd ++ [1]).reverse = 1 :: bd.reverse := by simp
      simp only [e1, e2, projLE, projLE_self _ _ hl]
      have hp0 : (if 1 = n then p else 0) = 0 := by
        split
        · omega
        · rfl
      rw [hp0]
      have hv0 : Valid (⟨bd ++ [1], gy.data⟩ : Tensor α).dims (pre ++ [0]) :=
        valid_app hv (Valid.cons (by omega) Valid.nil)
      have e3 : (0 :: pre.reverse).reverse = pre ++ [0] := by simp
      rw [e3, C04x.at?_eq_data _ hv0, C04x.at?_eq_data gy (by rw [hdg]; exact hv), hdg]
      simp only [e2]
      congr 1
      have : (pre ++ [0]).reverse = 0 :: pre.reverse := by simp
      rw [this]
      simp [val]
    unfold el
    rw [hx', hy']
    rfl

/-- the public `Dot` on operands of equal shape `bd ++ [n]` -/
theorem vDot_get (a b : Tensor α) (ha : a.WF) (hb : b.WF) (bd : List Nat) (n : Nat)
    (hda : a.dims = bd ++ [n]) (hdb : b.dims = bd ++ [n]) :
    ∃ c, vDot a b = .ok c ∧ c.dims = bd ∧ c.WF ∧
      ∀ pre, Valid bd pre →
        c.at? pre = some ((List.range n).foldl
          (fun s p => Scalar.add s (Scalar.mul (el a (pre ++ [p])) (el b (pre ++ [p])))) Scalar.zero) := by
  have hbd : ∀ d ∈ bd, 0 < d := fun d hd => ha.2 d (by rw [hda]; simp [hd])
  have hn : 0 < n := ha.2 n (by rw [hda]; simp)
  obtain ⟨da, xa⟩ := a
  obtain ⟨db, xb⟩ := b
  simp only at hda hdb
  subst hda
  subst hdb
  obtain ⟨data, e, hlen, hget⟩ := C04.dot_get bd n xa xb hbd hn ha.1 hb.1
    (fun pre p => el (⟨bd ++ [n], xa⟩ : Tensor α) (pre ++ [p]))
    (fun pre p => el (⟨bd ++ [n], xb⟩ : Tensor α) (pre ++ [p]))
    (fun pre p hv hp => at?_el _ ha (valid_app hv (.cons hp .nil)))
    (fun pre p hv hp => at?_el _ hb (valid_app hv (.cons hp .nil)))
  refine ⟨⟨bd, data⟩, ?_, rfl, ⟨hlen, hbd⟩, hget⟩
  have hvd : validDot (bd ++ [n]) (bd ++ [n]) = true := by simp [validDot]
  unfold vDot
  rw [if_pos hvd]
  simp only [vBroadcastPair, bind, Out.bind, targetBroadcastDims_self]
  rw [vBroadcastN_self ⟨bd ++ [n], xa⟩ ha]
  simp only []
  rw [vBroadcastN_self ⟨bd ++ [n], xb⟩ hb]
  simp only [pure, e, Out.ofOpt]

end dot

/-- **Dot rule over ℝ**: `rule(g)[b…, p] = g[b…] · other[b…, p]` -/
theorem rule_dot_real (bm : BMode) (H : Heap ℝ) (gy : Tensor ℝ) (o : Nat) (bd : List Nat) (n : Nat)
    (wg : gy.WF) (wo : (H.val o).WF) (hdg : gy.dims = bd) (hdo : (H.val o).dims = bd ++ [n]) :
    ∃ r, evalRule bm H gy (.dotG o) = .ok r ∧ r.dims = bd ++ [n] ∧ r.WF ∧
      ∀ pre p, Valid bd pre → p < n → r.at? (pre ++ [p]) = some (el gy pre * el (H.val o) (pre ++ [p])) :=
  rule_dot bm H gy o bd n wg wo hdg hdo

/-- forward Dot over ℝ in sum form -/
theorem vDot_get_real (a b : Tensor ℝ) (ha : a.WF) (hb : b.WF) (bd : List Nat) (n : Nat)
    (hda : a.dims = bd ++ [n]) (hdb : b.dims = bd ++ [n]) :
    ∃ c, vDot a b = .ok c ∧ c.dims = bd ∧ c.WF ∧
      ∀ pre, Valid bd pre → c.at? pre = some (∑ p ∈ Finset.range n, el a (pre ++ [p]) * el b (pre ++ [p])) := by
  obtain ⟨c, e, hdc, wc, hget⟩ := vDot_get a b ha hb bd n hda hdb
  refine ⟨c, e, hdc, wc, ?_⟩
  intro pre hv
  rw [hget pre hv]
  congr 1
  exact foldl_add_range (fun p => el a (pre ++ [p]) * el b (pre ++ [p])) n

/-- the pairing of two tensors of dims `bd ++ [n]` as a sum over batch position and last coordinate -/
theorem inner_batch1 (a b : Tensor ℝ) (bd : List Nat) (n : Nat) (wa : a.WF) (hda : a.dims = bd ++ [n])
    (hdb : b.dims = bd ++ [n]) :
    inner a b = ∑ q ∈ Finset.range (prod bd), ∑ p ∈ Finset.range n,
      (a.at? (idxOf bd q ++ [p])).getD 0 * (b.at? (idxOf bd q ++ [p])).getD 0 := by
  have hbd : ∀ d ∈ bd, 0 < d := fun d hd => wa.2 d (by rw [hda]; simp [hd])
  unfold inner
  have hp : prod a.dims = prod bd * n := by rw [hda, prod_append]; simp [prod]
  rw [hp, sum_range_mul]
  apply Finset.sum_congr rfl
  intro q hq
  apply Finset.sum_congr rfl
  intro p hp'
  have hv := valid_idxOf hbd q
  rw [at?_batch1 a bd n hda hv (Finset.mem_range.mp hp'), at?_batch1 b bd n hdb hv (Finset.mem_range.mp hp'),
    posOf_idxOf hbd (Finset.mem_range.mp hq)]

/-- the pairing of two tensors of dims `bd` as a sum over batch positions -/
theorem inner_batch0 (a b : Tensor ℝ) (bd : List Nat) (wa : a.WF) (wb : b.WF) (hda : a.dims = bd) (hdb : b.dims = bd) :
    inner a b = ∑ q ∈ Finset.range (prod bd), (a.at? (idxOf bd q)).getD 0 * (b.at? (idxOf bd q)).getD 0 := by
  unfold inner
  rw [hda]
  apply Finset.sum_congr rfl
  intro q hq
  have h1 := C02x.at?_idxOf a wa (by rw [hda]; exact Finset.mem_range.mp hq)
  have h2 := C02x.at?_idxOf b wb (by rw [hdb]; exact Finset.mem_range.mp hq)
  rw [hda] at h1
  rw [hdb] at h2
  rw [h1, h2]

/-- **Dot: the rule is the adjoint of `da ↦ Dot(da, other)`** (over ℝ, every leading shape, all sizes):
    `⟨Dot(da, other), g⟩ = ⟨da, g.UnSqueeze(rank) · other⟩`. -/
theorem adjoint_dot (bm : BMode) (H : Heap ℝ) (o : Nat) (da g y r : Tensor ℝ) (bd : List Nat) (n : Nat)
    (wd : da.WF) (hdd : da.dims = bd ++ [n]) (wo : (H.val o).WF) (hdo : (H.val o).dims = bd ++ [n])
    (wg : g.WF) (hdg : g.dims = bd)
    (hf : vDot da (H.val o) = .ok y) (hr : evalRule bm H g (.dotG o) = .ok r) :
    inner y g = inner da r := by
  have hbd : ∀ d ∈ bd, 0 < d := fun d hd => wd.2 d (by rw [hdd]; simp [hd])
  obtain ⟨y', ey, hdy, wy, hY⟩ := vDot_get_real da (H.val o) wd wo bd n hdd hdo
  rw [hf] at ey; injection ey with ey; subst ey
  obtain ⟨r', er, hdr, wr, hR⟩ := rule_dot_real bm H g o bd n wg wo hdg hdo
  rw [hr] at er; injection er with er; subst er
  rw [inner_batch0 y g bd wy wg hdy hdg, inner_batch1 da r bd n wd hdd hdr]
  apply Finset.sum_congr rfl
  intro q _
  have hv := valid_idxOf hbd q
  rw [hY _ hv, Option.getD_some, Finset.sum_mul]
  apply Finset.sum_congr rfl
  intro p hp
  rw [hR _ p hv (Finset.mem_range.mp hp), Option.getD_some, ← el_real da, ← el_real g]
  ring

/-! ### non-vacuity of parts 1 and 2 (kernel-checked on the `Scalar Int` instance) -/

/-- node 0: a 2×3 matrix `A`; node 1: a 3×2 matrix `B`; node 2: a vector of length 3 -/
def exHeap : Heap Int :=
  #[⟨⟨[2, 3], [1, 2, 3, 4, 5, 6]⟩, {}⟩, ⟨⟨[3, 2], [7, 8, 9, 10, 11, 12]⟩, {}⟩, ⟨⟨[3], [4, 5, 6]⟩, {}⟩]

/-- MatMul rules on `G = [[1,2],[3,4]]`: `G·Bᵀ` (2×3) and `Aᵀ·G` (3×2) -/
example : evalRule .sum exHeap ⟨[2, 2], [1, 2, 3, 4]⟩ (.matmulA 1) = .ok ⟨[2, 3], [23, 29, 35, 53, 67, 81]⟩ ∧
    evalRule .sum exHeap ⟨[2, 2], [1, 2, 3, 4]⟩ (.matmulB 0) = .ok ⟨[3, 2], [13, 18, 17, 24, 21, 30]⟩ := by decide

/-- Dot rule: scalar-shaped upstream `2` against the vector (node 2); upstream `[10, 100]` against the rows of node 0 -/
example : evalRule .sum exHeap ⟨[], [2]⟩ (.dotG 2) = .ok ⟨[3], [8, 10, 12]⟩ ∧
    evalRule .sum exHeap ⟨[2], [10, 100]⟩ (.dotG 0) = .ok ⟨[2, 3], [10, 20, 30, 400, 500, 600]⟩ := by decide

/-! ## 4. MaxAlong / MinAlong -/

/-- element of an element-wise combination of two tensors of equal dims -/
theorem at?_zip (f : α → α → α) (a b : Tensor α) (hd : a.dims = b.dims) {i : List Nat} (hv : Valid a.dims i) {x y : α}
    (hx : a.at? i = some x) (hy : b.at? i = some y) :
    (⟨a.dims, List.zipWith f a.data b.data⟩ : Tensor α).at? i = some (f x y) := by
  rw [C04x.at?_eq_data a hv] at hx
  rw [C04x.at?_eq_data b (by rw [← hd]; exact hv), ← hd] at hy
  rw [C04x.at?_eq_data (⟨a.dims, List.zipWith f a.data b.data⟩ : Tensor α) hv]
  simp [List.getElem?_zipWith, hx, hy]

section ext
variable [Scalar α]

/-- **`gradtrack.MaxAlong` / `MinAlong`: `gradFn = reducerBroadcasted(gy, x, dim).Mul(x.Eq(reducerBroadcasted(y, x, dim)))`** —
    what the Model computes, for every rank, every `dim`, all sizes and any scalar domain. -/
theorem rule_extAlong (bm : BMode) (H : Heap α) (gy : Tensor α) (x y dim : Nat) (wx : (H.val x).WF)
    (hdim : dim < (H.val x).dims.length) (wg : gy.WF) (hdg : gy.dims = squeezeDims dim (H.val x).dims)
    (wy : (H.val y).WF) (hdy : (H.val y).dims = squeezeDims dim (H.val x).dims) :
    ∃ r, evalRule bm H gy (.extAlongX x y dim) = .ok r ∧ r.dims = (H.val x).dims ∧ r.WF ∧
      ∀ i, Valid (H.val x).dims i →
        r.at? i = some (Scalar.mul (el gy (i.eraseIdx dim))
          (Scalar.ofBool (Scalar.near (el (H.val x) i) (el (H.val y) (i.eraseIdx dim))))) := by
  obtain ⟨gyb, e1, d1, w1, g1⟩ := C02x.reducerBroadcasted_get gy (H.val x).dims dim wx.2 hdim wg hdg
  obtain ⟨yb, e2, d2, w2, g2⟩ := C02x.reducerBroadcasted_get (H.val y) (H.val x).dims dim wx.2 hdim wy hdy
  have wgx := zip_wf Cmp.eq.fn (H.val x) yb wx w2 d2.symm
  have e3 := vCmp_same .eq (H.val x) yb wx w2 d2.symm
  have e4 := vArith_same .mul gyb ⟨(H.val x).dims, List.zipWith Cmp.eq.fn (H.val x).data yb.data⟩ w1 wgx d1
  refine ⟨⟨gyb.dims, List.zipWith Arith.mul.fn gyb.data (List.zipWith Cmp.eq.fn (H.val x).data yb.data)⟩, ?_, d1,
    zip_wf Arith.mul.fn gyb _ w1 wgx d1, ?_⟩
  · simp only [evalRule, bind, Out.bind, e1, e2, e3]; exact e4
  · intro i hi
    have hve := C02x.valid_eraseIdx dim hdim hi
    have hxi := at?_el (H.val x) wx hi
    have hyb : yb.at? i = some (el (H.val y) (i.eraseIdx dim)) := by
      rw [g2 i hi]; exact at?_el (H.val y) wy (by rw [hdy]; exact hve)
    have hgb : gyb.at? i = some (el gy (i.eraseIdx dim)) := by
      rw [g1 i hi]; exact at?_el gy wg (by rw [hdg]; exact hve)
    have hgx := at?_zip Cmp.eq.fn (H.val x) yb d2.symm hi hxi hyb
    have hi' : Valid gyb.dims i := by rw [d1]; exact hi
    exact at?_zip Arith.mul.fn gyb ⟨(H.val x).dims, List.zipWith Cmp.eq.fn (H.val x).data yb.data⟩ d1 hi' hgb hgx

end ext

/-! ### rank-1 operands along dim 0 -/

theorem at?_rank1 (n : Nat) (d : List α) (p : Nat) (hp : p < n) : (⟨[n], d⟩ : Tensor α).at? [p] = d[p]? := by
  simp [Tensor.at?, offset, hp, prod]

theorem at?_rank0 (d : List α) : (⟨[], d⟩ : Tensor α).at? [] = d[0]? := by
  simp [Tensor.at?, offset]

/-- a well-formed rank-1 tensor whose elements are `F` of the elements of a list `xs` of the same length -/
theorem rank1_eq_map (r : Tensor α) (n : Nat) (xs : List α) (F : α → α) (wr : r.WF) (hd : r.dims = [n])
    (hl : xs.length = n) (h : ∀ p (hp : p < n), r.at? [p] = some (F (xs[p]'(by omega)))) : r = ⟨[n], xs.map F⟩ := by
  obtain ⟨rd, rdata⟩ := r
  simp only at hd
  subst hd
  congr 1
  have hlen : rdata.length = n := by have := wr.1; simpa [prod] using this
  apply List.ext_getElem?
  intro p
  by_cases hp : p < n
  · have := h p hp
    rw [at?_rank1 n rdata p hp] at this
    rw [this, List.getElem?_map, List.getElem?_eq_getElem (by omega)]
    rfl
  · rw [List.getElem?_eq_none (by omega), List.getElem?_eq_none (by simp; omega)]

section ext1
variable [Scalar α]

/-- **MaxAlong / MinAlong rule, rank-1 operand along dim 0** (the fibre is the whole vector): with `g` the upstream
    gradient (scalar-shaped) and `m` the value stored in the forward result `y`, the closure returns the vector
    `[g · Eq(x_p, m)]_p`, `Eq(a, b) = 1` if `|a − b| ≤ 1e-240` (`Scalar.near`) else `0`. -/
theorem rule_extAlong_rank1 (bm : BMode) (H : Heap α) (x y n : Nat) (g m : α) (wx : (H.val x).WF)
    (hdx : (H.val x).dims = [n]) (hy : H.val y = ⟨[], [m]⟩) :
    evalRule bm H ⟨[], [g]⟩ (.extAlongX x y 0)
      = .ok ⟨[n], (H.val x).data.map (fun v => Scalar.mul g (Scalar.ofBool (Scalar.near v m)))⟩ := by
  have wg : (⟨[], [g]⟩ : Tensor α).WF := ⟨rfl, by simp⟩
  have wy : (H.val y).WF := by rw [hy]; exact ⟨rfl, by simp⟩
  have hsq : squeezeDims 0 (H.val x).dims = [] := by rw [hdx]; rfl
  obtain ⟨r, e, hdr, wr, hget⟩ := rule_extAlong bm H ⟨[], [g]⟩ x y 0 wx (by rw [hdx]; simp) wg hsq.symm wy
    (by rw [hy, hsq])
  rw [e]
  congr 1
  have hl : (H.val x).data.length = n := by have := wx.1; rw [hdx] at this; simpa [prod] using this
  apply rank1_eq_map r n (H.val x).data _ wr (by rw [hdr, hdx]) hl
  intro p hp
  have hv : Valid (H.val x).dims [p] := by rw [hdx]; exact .cons hp .nil
  rw [hget [p] hv]
  have e1 : el (⟨[], [g]⟩ : Tensor α) ([p].eraseIdx 0) = g := by simp [el, at?_rank0]
  have e2 : el (H.val y) ([p].eraseIdx 0) = m := by rw [hy]; simp [el, at?_rank0]
  have e3 : el (H.val x) [p] = (H.val x).data[p]'(by omega) := by
    unfold el
    rw [C04x.at?_eq_data (H.val x) hv, hdx]
    have hp' : p < (H.val x).data.length := by omega
    simp [val, List.getElem?_eq_getElem hp']
  rw [e1, e2, e3]

/-- the forward `MaxAlong(0)` / `MinAlong(0)` … of a rank-1 tensor: a scalar-shaped tensor holding the whole-tensor statistic -/
theorem along_rank1_fwd (rd : Reducer) (t : Tensor α) (n : Nat) (wt : t.WF) (hd : t.dims = [n]) :
    vAlong rd t 0 = .ok ⟨[], [rd.fn ⟨[n], t.data⟩]⟩ := by
  obtain ⟨td, tdata⟩ := t
  simp only at hd
  subst hd
  have hl : tdata.length = n := by have := wt.1; simpa [prod] using this
  obtain ⟨data', e, hlen, hspec⟩ := reduceDim_spec (⟨[n], tdata⟩ : Tensor α) wt 0 (by simp) rd.fn
  have hsq : squeezeDims 0 [n] = [] := rfl
  simp only [hsq] at e hlen hspec
  have hlen' : data'.length = 1 := hlen
  obtain ⟨fib, hfl, hfib, hval⟩ := hspec 0 (by simp [prod])
  have hS : (insLE ([n].length - 1 - 0) 0 (iterN (incr (delLE ([n].length - 1 - 0) [n].reverse)) 0
      (zerosLike (delLE ([n].length - 1 - 0) [n].reverse)))).reverse = [0] := rfl
  simp only [hS] at hfib hval
  have hfl' : fib.length = n := hfl
  have hfd : fib = tdata := by
    apply List.ext_getElem?
    intro i
    by_cases hi : i < n
    · have := (hfib i hi).1
      rw [this]
      exact at?_rank1 n tdata i hi
    · rw [List.getElem?_eq_none (by omega), List.getElem?_eq_none (by omega)]
  have hwd : sliceDims (windowOf 0 [n] [0]) = [n] := by simp [windowOf, unitWin, sliceDims]
  rw [hwd, hfd] at hval
  have hd' : data' = [rd.fn ⟨[n], tdata⟩] := by
    match data', hlen', hval with
    | [v], _, hv => simp at hv; rw [hv]
  have hv : validDimLt 0 [n] = true := by simp [validDimLt]
  simp only [vAlong, vReduceDim, hv, if_true, Int.toNat_zero, e, Out.ofOpt, hd']

end ext1

/-- the library's equality threshold `float64EqualityThreshold = 1e-240` over ℝ -/
noncomputable def θ : ℝ := 1 / (10 : ℝ) ^ 240

theorem θ_pos : 0 < θ := by unfold θ; positivity

/-- **MaxAlong / MinAlong rule over ℝ, rank-1 along dim 0**: `[g · (1 if |x_p − m| ≤ 1e-240 else 0)]_p` -/
theorem rule_extAlong_rank1_real (bm : BMode) (H : Heap ℝ) (x y n : Nat) (g m : ℝ) (wx : (H.val x).WF)
    (hdx : (H.val x).dims = [n]) (hy : H.val y = ⟨[], [m]⟩) :
    evalRule bm H ⟨[], [g]⟩ (.extAlongX x y 0)
      = .ok ⟨[n], (H.val x).data.map (fun v => g * (if |v - m| ≤ θ then 1 else 0))⟩ := by
  rw [rule_extAlong_rank1 bm H x y n g m wx hdx hy]
  congr 2
  apply List.map_congr_left
  intro v _
  rw [C03x.near_real, mul_eq]
  congr 1
  unfold θ
  by_cases h : |v - m| ≤ 1 / (10 : ℝ) ^ 240
  · simp [Scalar.ofBool, h]
  · simp [Scalar.ofBool, h]

/-- **MaxAlong, subgradient selection** (rank-1 along dim 0, over ℝ): if the value `m` stored in the forward result is an
    upper bound of the elements (as the maximum is), the closure returns `g` at every position with `x_p ≥ m − 1e-240`
    — in particular at EVERY position where `x_p = m` (all tied maxima receive the full `g`, the contributions are not
    split) — and `0` at every position with `x_p < m − 1e-240`. -/
theorem extAlong_max_select (bm : BMode) (H : Heap ℝ) (x y n : Nat) (g m : ℝ) (wx : (H.val x).WF)
    (hdx : (H.val x).dims = [n]) (hy : H.val y = ⟨[], [m]⟩) (hub : ∀ v ∈ (H.val x).data, v ≤ m) :
    evalRule bm H ⟨[], [g]⟩ (.extAlongX x y 0)
        = .ok ⟨[n], (H.val x).data.map (fun v => if m - θ ≤ v then g else 0)⟩ ∧
      (∀ v : ℝ, v = m → (if m - θ ≤ v then g else 0) = g) ∧
      (∀ v : ℝ, v < m - θ → (if m - θ ≤ v then g else 0) = 0) := by
  refine ⟨?_, ?_, ?_⟩
  · rw [rule_extAlong_rank1_real bm H x y n g m wx hdx hy]
    congr 2
    apply List.map_congr_left
    intro v hv
    have hle := hub v hv
    have habs : |v - m| = m - v := by rw [abs_of_nonpos (by linarith)]; ring
    rw [habs]
    by_cases h : m - θ ≤ v
    · rw [if_pos h, if_pos (by linarith), mul_one]
    · rw [if_neg h, if_neg (by intro h'; apply h; linarith), mul_zero]
  · intro v hv
    rw [if_pos (by rw [hv]; linarith [θ_pos])]
  · intro v hv
    rw [if_neg (by linarith)]

/-- **MinAlong, subgradient selection**: symmetric — `g` where `x_p ≤ m + 1e-240` (every tied minimum), `0` above -/
theorem extAlong_min_select (bm : BMode) (H : Heap ℝ) (x y n : Nat) (g m : ℝ) (wx : (H.val x).WF)
    (hdx : (H.val x).dims = [n]) (hy : H.val y = ⟨[], [m]⟩) (hlb : ∀ v ∈ (H.val x).data, m ≤ v) :
    evalRule bm H ⟨[], [g]⟩ (.extAlongX x y 0)
        = .ok ⟨[n], (H.val x).data.map (fun v => if v ≤ m + θ then g else 0)⟩ ∧
      (∀ v : ℝ, v = m → (if v ≤ m + θ then g else 0) = g) ∧
      (∀ v : ℝ, m + θ < v → (if v ≤ m + θ then g else 0) = 0) := by
  refine ⟨?_, ?_, ?_⟩
  · rw [rule_extAlong_rank1_real bm H x y n g m wx hdx hy]
    congr 2
    apply List.map_congr_left
    intro v hv
    have hle := hlb v hv
    have habs : |v - m| = v - m := abs_of_nonneg (by linarith)
    rw [habs]
    by_cases h : v ≤ m + θ
    · rw [if_pos h, if_pos (by linarith), mul_one]
    · rw [if_neg h, if_neg (by intro h'; apply h; linarith), mul_zero]
  · intro v hv
    rw [if_pos (by rw [hv]; linarith [θ_pos])]
  · intro v hv
    rw [if_neg (by linarith)]

/-- **MaxAlong(0) of a vector, forward and backward together, on the Model's ℝ instance**: the forward call stores
    `M = Tensor.max x` (a left fold from the instance's `negInf`, which is `0` over ℝ — see `C05x.max_real_partial`:
    `M` bounds every element, and IS the maximum of the data as soon as one element is `≥ 0`); the closure then
    returns `g` exactly at the positions with `x_p ≥ M − 1e-240` and `0` elsewhere. -/
theorem maxAlong_vjp_real_partial (bm : BMode) (H : Heap ℝ) (x y n : Nat) (g : ℝ) (wx : (H.val x).WF)
    (hdx : (H.val x).dims = [n]) (hy : vAlong .max (H.val x) 0 = .ok (H.val y)) :
    H.val y = ⟨[], [(H.val x).max]⟩ ∧
    evalRule bm H ⟨[], [g]⟩ (.extAlongX x y 0)
        = .ok ⟨[n], (H.val x).data.map (fun v => if (H.val x).max - θ ≤ v then g else 0)⟩ ∧
    (∀ v ∈ (H.val x).data, v ≤ (H.val x).max) ∧
    ((∃ v ∈ (H.val x).data, 0 ≤ v) → (H.val x).max ∈ (H.val x).data) := by
  have hyv : H.val y = ⟨[], [(H.val x).max]⟩ := by
    rw [along_rank1_fwd .max (H.val x) n wx hdx] at hy
    injection hy with hy
    rw [← hy]; rfl
  obtain ⟨_, h2, _, h4, _⟩ := C05x.max_real_partial (H.val x)
  exact ⟨hyv, (extAlong_max_select bm H x y n g _ wx hdx hyv h2).1, h2, h4⟩

/-- **MinAlong(0) of a vector, forward and backward together** (the ℝ instance's `posInf` is `0`: `C05x.min_real_partial`) -/
theorem minAlong_vjp_real_partial (bm : BMode) (H : Heap ℝ) (x y n : Nat) (g : ℝ) (wx : (H.val x).WF)
    (hdx : (H.val x).dims = [n]) (hy : vAlong .min (H.val x) 0 = .ok (H.val y)) :
    H.val y = ⟨[], [(H.val x).min]⟩ ∧
    evalRule bm H ⟨[], [g]⟩ (.extAlongX x y 0)
        = .ok ⟨[n], (H.val x).data.map (fun v => if v ≤ (H.val x).min + θ then g else 0)⟩ ∧
    (∀ v ∈ (H.val x).data, (H.val x).min ≤ v) ∧
    ((∃ v ∈ (H.val x).data, v ≤ 0) → (H.val x).min ∈ (H.val x).data) := by
  have hyv : H.val y = ⟨[], [(H.val x).min]⟩ := by
    rw [along_rank1_fwd .min (H.val x) n wx hdx] at hy
    injection hy with hy
    rw [← hy]; rfl
  obtain ⟨_, h2, _, h4, _⟩ := C05x.min_real_partial (H.val x)
  exact ⟨hyv, (extAlong_min_select bm H x y n g _ wx hdx hyv h2).1, h2, h4⟩

/-- **COUNTEREXAMPLE to "the MaxAlong rule, fed with the forward result, hands `g` to the positions of the maximum" on the
    Model's ℝ instance**: for the all-negative vector `[-1, -2]` the forward `MaxAlong(0)` returns `0` (the instance has
    `negInf := 0`, see `C05x.max_real_counterexample`), no element is within `1e-240` of `0`, and the closure returns
    `[0, 0]` instead of `[g, 0]`. An artefact of the ℝ instance, not of the Go code (whose fold identity is `math.Inf(-1)`):
    `extAlong_max_select` / `maxAlong_vjp_deriv` state the rule for `y` holding a true upper bound / the true maximum, and
    `maxAlong_vjp_real_partial` states what holds on the ℝ instance itself. -/
theorem maxAlong_real_counterexample (bm : BMode) :
    vAlong .max (⟨[2], [-1, -2]⟩ : Tensor ℝ) 0 = .ok ⟨[], [0]⟩ ∧
    evalRule bm (#[⟨⟨[2], [-1, -2]⟩, {}⟩, ⟨⟨[], [0]⟩, {}⟩] : Heap ℝ) ⟨[], [1]⟩ (.extAlongX 0 1 0) = .ok ⟨[2], [0, 0]⟩ := by
  have w : (⟨[2], [-1, -2]⟩ : Tensor ℝ).WF := ⟨rfl, by intro d hd; simp at hd; omega⟩
  constructor
  · rw [along_rank1_fwd .max _ 2 w rfl]
    simp only [Reducer.fn]
    rw [C05x.max_real_counterexample]
  · have h := rule_extAlong_rank1_real bm (#[⟨⟨[2], [-1, -2]⟩, {}⟩, ⟨⟨[], [0]⟩, {}⟩] : Heap ℝ) 0 1 2 1 0 w rfl rfl
    rw [h]
    have hθ : θ < 1 := by unfold θ; norm_num
    have e1 : ¬ |(-1 : ℝ) - 0| ≤ θ := by norm_num; linarith
    have e2 : ¬ |(-2 : ℝ) - 0| ≤ θ := by norm_num; linarith
    show Out.ok (⟨[2], [1 * (if |(-1 : ℝ) - 0| ≤ θ then 1 else 0), 1 * (if |(-2 : ℝ) - 0| ≤ θ then 1 else 0)]⟩ : Tensor ℝ) = _
    rw [if_neg e1, if_neg e2]
    norm_num

/-! ### where the maximiser is unique: the rule against the derivative of the Model's `Max` -/

theorem wf_ofFn {n : ℕ} (hn : 0 < n) (x : Fin n → ℝ) : (⟨[n], List.ofFn x⟩ : Tensor ℝ).WF :=
  ⟨by simp [prod], by intro d hd; simp at hd; omega⟩

/-- the Model's `Max` over ℝ (a left fold from the instance's `negInf = 0`) is characterised by: non-negative, an upper
    bound of the data, and equal to `0` or to an element -/
theorem max_eq_of (t : Tensor ℝ) (m : ℝ) (h0 : 0 ≤ m) (hub : ∀ v ∈ t.data, v ≤ m) (hmem : m = 0 ∨ m ∈ t.data) :
    t.max = m := by
  obtain ⟨g0, g1, g2, _, _⟩ := C05x.max_real_partial t
  apply le_antisymm
  · rcases g2 with h | h
    · rw [h]; exact h0
    · exact hub _ h
  · rcases hmem with h | h
    · rw [h]; exact g0
    · exact g1 _ h

/-- `Max` of a vector as a function of its (positive, strictly largest) coordinate `i` is the identity near `x_i` -/
theorem d_max_at_argmax {n : ℕ} (x : Fin n → ℝ) (i : Fin n) (hpos : 0 < x i) (hstrict : ∀ k, k ≠ i → x k < x i) :
    HasDerivAt (fun t => (⟨[n], List.ofFn (Function.update x i t)⟩ : Tensor ℝ).max) 1 (x i) := by
  obtain ⟨c0, c1, c2, _, _⟩ := C05x.max_real_partial (⟨[n], List.ofFn (Function.update x i 0)⟩ : Tensor ℝ)
  generalize hc : (⟨[n], List.ofFn (Function.update x i 0)⟩ : Tensor ℝ).max = c at c0 c1 c2
  have hci : c < x i := by
    rcases c2 with h | h
    · rw [h]; exact hpos
    · obtain ⟨k, hk⟩ := List.mem_ofFn.mp h
      by_cases hki : k = i
      · rw [hki, Function.update_self] at hk; rw [← hk]; exact hpos
      · rw [Function.update_of_ne hki] at hk; rw [← hk]; exact hstrict k hki
  have hev : (fun t => (⟨[n], List.ofFn (Function.update x i t)⟩ : Tensor ℝ).max) =ᶠ[nhds (x i)] fun t => t := by
    filter_upwards [eventually_gt_nhds hci] with t ht
    apply max_eq_of
    · linarith
    · intro v hv
      obtain ⟨k, hk⟩ := List.mem_ofFn.mp hv
      by_cases hki : k = i
      · rw [hki, Function.update_self] at hk; rw [← hk]
      · rw [Function.update_of_ne hki] at hk
        have : v ∈ (⟨[n], List.ofFn (Function.update x i 0)⟩ : Tensor ℝ).data :=
          List.mem_ofFn.mpr ⟨k, by rw [Function.update_of_ne hki]; exact hk⟩
        linarith [c1 v this]
    · right
      exact List.mem_ofFn.mpr ⟨i, by rw [Function.update_self]⟩
  exact (hasDerivAt_id (x i)).congr_of_eventuallyEq hev

/-- … and as a function of a coordinate `j` strictly below a non-negative largest coordinate `i` it is constant near `x_j` -/
theorem d_max_off_argmax {n : ℕ} (x : Fin n → ℝ) (i j : Fin n) (hpos : 0 ≤ x i) (hub : ∀ k, x k ≤ x i) (hj : x j < x i) :
    HasDerivAt (fun t => (⟨[n], List.ofFn (Function.update x j t)⟩ : Tensor ℝ).max) 0 (x j) := by
  have hji : j ≠ i := by intro h; rw [h] at hj; exact lt_irrefl _ hj
  have hev : (fun t => (⟨[n], List.ofFn (Function.update x j t)⟩ : Tensor ℝ).max) =ᶠ[nhds (x j)] fun _ => x i := by
    filter_upwards [eventually_lt_nhds hj] with t ht
    apply max_eq_of _ _ hpos
    · intro v hv
      obtain ⟨k, hk⟩ := List.mem_ofFn.mp hv
      by_cases hkj : k = j
      · rw [hkj, Function.update_self] at hk; rw [← hk]; exact ht.le
      · rw [Function.update_of_ne hkj] at hk; rw [← hk]; exact hub k
    · right
      exact List.mem_ofFn.mpr ⟨i, by rw [Function.update_of_ne (Ne.symm hji)]⟩
  exact (hasDerivAt_const (x j) (x i)).congr_of_eventuallyEq hev

/-- **MaxAlong(0) of a vector with a unique maximiser, over ℝ: the rule is the gradient of the Model's `Max`, times `g`.**
    If coordinate `i` exceeds every other coordinate by more than the equality threshold `1e-240` (and is positive — the
    ℝ instance folds from `0` instead of `−∞`), the closure returns `g` at `i` and `0` elsewhere, and each entry is the partial
    derivative with respect to that coordinate of `g · Max(x)`. (With ties — two coordinates within `1e-240` of the maximum —
    `Max` is not differentiable and the closure hands the full `g` to each of them: `extAlong_max_select`.) -/
theorem maxAlong_vjp_deriv_real_partial (bm : BMode) (H : Heap ℝ) (xn yn n : Nat) (x : Fin n → ℝ) (g : ℝ) (i : Fin n)
    (hx : H.val xn = ⟨[n], List.ofFn x⟩) (hy : vAlong .max (H.val xn) 0 = .ok (H.val yn))
    (hpos : 0 < x i) (hm : ∀ k, k ≠ i → x k < x i - θ) :
    evalRule bm H ⟨[], [g]⟩ (.extAlongX xn yn 0) = .ok ⟨[n], List.ofFn (fun p => if p = i then g else 0)⟩ ∧
    ∀ p, HasDerivAt (fun t => g * (⟨[n], List.ofFn (Function.update x p t)⟩ : Tensor ℝ).max)
      (if p = i then g else 0) (x p) := by
  have hn : 0 < n := Nat.lt_of_le_of_lt (Nat.zero_le _) i.isLt
  have wx : (H.val xn).WF := by rw [hx]; exact wf_ofFn hn x
  have hlt : ∀ k, k ≠ i → x k < x i := fun k hk => by linarith [hm k hk, θ_pos]
  have hub : ∀ k, x k ≤ x i := by
    intro k
    by_cases hk : k = i
    · rw [hk]
    · exact (hlt k hk).le
  have hM : (H.val xn).max = x i := by
    rw [hx]
    apply max_eq_of _ _ hpos.le
    · intro v hv
      obtain ⟨k, hk⟩ := List.mem_ofFn.mp hv
      rw [← hk]; exact hub k
    · right; exact List.mem_ofFn.mpr ⟨i, rfl⟩
  refine ⟨?_, ?_⟩
  · rw [(maxAlong_vjp_real_partial bm H xn yn n g wx (by rw [hx]) hy).2.1, hM, hx]
    congr 2
    rw [List.map_ofFn]
    congr 1
    funext p
    simp only [Function.comp_apply]
    by_cases hp : p = i
    · rw [if_pos hp, hp, if_pos (by linarith [θ_pos])]
    · rw [if_neg hp, if_neg (by linarith [hm p hp])]
  · intro p
    by_cases hp : p = i
    · subst hp
      rw [if_pos rfl]
      have := (d_max_at_argmax x p hpos hlt).const_mul g
      rwa [mul_one] at this
    · rw [if_neg hp]
      have := (d_max_off_argmax x i p hpos.le hub (hlt p hp)).const_mul g
      rwa [mul_zero] at this

/-! ### artefact-free form: `y` holds the true maximum `maxF x = sup_k x_k` (what `math.Inf(-1)` as fold identity gives) -/

/-- the maximum of a non-empty vector -/
noncomputable def maxF {n : ℕ} (hn : 0 < n) (x : Fin n → ℝ) : ℝ :=
  Finset.univ.sup' ⟨⟨0, hn⟩, Finset.mem_univ _⟩ x

theorem maxF_eq_of {n : ℕ} (hn : 0 < n) (x : Fin n → ℝ) (i : Fin n) (hub : ∀ k, x k ≤ x i) : maxF hn x = x i := by
  unfold maxF
  apply le_antisymm
  · exact Finset.sup'_le _ _ (fun k _ => hub k)
  · exact Finset.le_sup' x (Finset.mem_univ i)

/-- **MaxAlong(0) of a vector with a unique maximiser: the rule is the gradient of the maximum, times `g`** — `y` holding
    the true maximum `sup_k x_k`, no sign condition. If `x_i` exceeds every other coordinate by more than `1e-240`, the
    closure returns `g·e_i`, and its `p`-th entry is the partial derivative of `g · max(x)` with respect to `x_p`. -/
theorem maxAlong_vjp_deriv (bm : BMode) (H : Heap ℝ) (xn yn n : Nat) (hn : 0 < n) (x : Fin n → ℝ) (g : ℝ) (i : Fin n)
    (hx : H.val xn = ⟨[n], List.ofFn x⟩) (hy : H.val yn = ⟨[], [maxF hn x]⟩) (hm : ∀ k, k ≠ i → x k < x i - θ) :
    evalRule bm H ⟨[], [g]⟩ (.extAlongX xn yn 0) = .ok ⟨[n], List.ofFn (fun p => if p = i then g else 0)⟩ ∧
    ∀ p, HasDerivAt (fun t => g * maxF hn (Function.update x p t)) (if p = i then g else 0) (x p) := by
  have wx : (H.val xn).WF := by rw [hx]; exact wf_ofFn hn x
  have hlt : ∀ k, k ≠ i → x k < x i := fun k hk => by linarith [hm k hk, θ_pos]
  have hub : ∀ k, x k ≤ x i := by
    intro k
    by_cases hk : k = i
    · rw [hk]
    · exact (hlt k hk).le
  have hM : maxF hn x = x i := maxF_eq_of hn x i hub
  refine ⟨?_, ?_⟩
  · have hsel := (extAlong_max_select bm H xn yn n g (x i) wx (by rw [hx]) (by rw [hy, hM]) (by
      intro v hv
      rw [hx] at hv
      obtain ⟨k, hk⟩ := List.mem_ofFn.mp hv
      rw [← hk]; exact hub k)).1
    rw [hsel, hx]
    congr 2
    rw [List.map_ofFn]
    congr 1
    funext p
    simp only [Function.comp_apply]
    by_cases hp : p = i
    · rw [if_pos hp, hp, if_pos (by linarith [θ_pos])]
    · rw [if_neg hp, if_neg (by linarith [hm p hp])]
  · intro p
    by_cases hp : p = i
    · subst hp
      rw [if_pos rfl]
      have hev : (fun t => g * maxF hn (Function.update x p t)) =ᶠ[nhds (x p)] fun t => g * t := by
        filter_upwards [eventually_gt_nhds (show x p - θ < x p by linarith [θ_pos])] with t ht
        rw [maxF_eq_of hn (Function.update x p t) p (by
          intro k
          by_cases hk : k = p
          · rw [hk]
          · rw [Function.update_of_ne hk, Function.update_self]; linarith [hm k hk])]
        rw [Function.update_self]
      have := ((hasDerivAt_id (x p)).const_mul g).congr_of_eventuallyEq hev
      rwa [mul_one] at this
    · rw [if_neg hp]
      have hev : (fun t => g * maxF hn (Function.update x p t)) =ᶠ[nhds (x p)] fun _ => g * x i := by
        filter_upwards [eventually_lt_nhds (hlt p hp)] with t ht
        rw [maxF_eq_of hn (Function.update x p t) i (by
          intro k
          rw [Function.update_of_ne (Ne.symm hp)]
          by_cases hk : k = p
          · rw [hk, Function.update_self]; exact ht.le
          · rw [Function.update_of_ne hk]; exact hub k)]
        rw [Function.update_of_ne (Ne.symm hp)]
      exact (hasDerivAt_const (x p) (g * x i)).congr_of_eventuallyEq hev

/-! ### the same for `Min` (the ℝ instance folds from `posInf = 0`) -/

theorem min_eq_of (t : Tensor ℝ) (m : ℝ) (h0 : m ≤ 0) (hlb : ∀ v ∈ t.data, m ≤ v) (hmem : m = 0 ∨ m ∈ t.data) :
    t.min = m := by
  obtain ⟨g0, g1, g2, _, _⟩ := C05x.min_real_partial t
  apply le_antisymm
  · rcases hmem with h | h
    · rw [h]; exact g0
    · exact g1 _ h
  · rcases g2 with h | h
    · rw [h]; exact h0
    · exact hlb _ h

theorem d_min_at_argmin {n : ℕ} (x : Fin n → ℝ) (i : Fin n) (hneg : x i < 0) (hstrict : ∀ k, k ≠ i → x i < x k) :
    HasDerivAt (fun t => (⟨[n], List.ofFn (Function.update x i t)⟩ : Tensor ℝ).min) 1 (x i) := by
  obtain ⟨c0, c1, c2, _, _⟩ := C05x.min_real_partial (⟨[n], List.ofFn (Function.update x i 0)⟩ : Tensor ℝ)
  generalize hc : (⟨[n], List.ofFn (Function.update x i 0)⟩ : Tensor ℝ).min = c at c0 c1 c2
  have hci : x i < c := by
    rcases c2 with h | h
    · rw [h]; exact hneg
    · obtain ⟨k, hk⟩ := List.mem_ofFn.mp h
      by_cases hki : k = i
      · rw [hki, Function.update_self] at hk; rw [← hk]; exact hneg
      · rw [Function.update_of_ne hki] at hk; rw [← hk]; exact hstrict k hki
  have hev : (fun t => (⟨[n], List.ofFn (Function.update x i t)⟩ : Tensor ℝ).min) =ᶠ[nhds (x i)] fun t => t := by
    filter_upwards [eventually_lt_nhds hci] with t ht
    apply min_eq_of
    · linarith
    · intro v hv
      obtain ⟨k, hk⟩ := List.mem_ofFn.mp hv
      by_cases hki : k = i
      · rw [hki, Function.update_self] at hk; rw [← hk]
      · rw [Function.update_of_ne hki] at hk
        have : v ∈ (⟨[n], List.ofFn (Function.update x i 0)⟩ : Tensor ℝ).data :=
          List.mem_ofFn.mpr ⟨k, by rw [Function.update_of_ne hki]; exact hk⟩
        linarith [c1 v this]
    · right
      exact List.mem_ofFn.mpr ⟨i, by rw [Function.update_self]⟩
  exact (hasDerivAt_id (x i)).congr_of_eventuallyEq hev

theorem d_min_off_argmin {n : ℕ} (x : Fin n → ℝ) (i j : Fin n) (hneg : x i ≤ 0) (hlb : ∀ k, x i ≤ x k) (hj : x i < x j) :
    HasDerivAt (fun t => (⟨[n], List.ofFn (Function.update x j t)⟩ : Tensor ℝ).min) 0 (x j) := by
  have hji : j ≠ i := by intro h; rw [h] at hj; exact lt_irrefl _ hj
  have hev : (fun t => (⟨[n], List.ofFn (Function.update x j t)⟩ : Tensor ℝ).min) =ᶠ[nhds (x j)] fun _ => x i := by
    filter_upwards [eventually_gt_nhds hj] with t ht
    apply min_eq_of _ _ hneg
    · intro v hv
      obtain ⟨k, hk⟩ := List.mem_ofFn.mp hv
      by_cases hkj : k = j
      · rw [hkj, Function.update_self] at hk; rw [← hk]; exact ht.le
      · rw [Function.update_of_ne hkj] at hk; rw [← hk]; exact hlb k
    · right
      exact List.mem_ofFn.mpr ⟨i, by rw [Function.update_of_ne (Ne.symm hji)]⟩
  exact (hasDerivAt_const (x j) (x i)).congr_of_eventuallyEq hev

/-- **MinAlong(0) of a vector with a unique minimiser, over ℝ: the rule is the gradient of the Model's `Min`, times `g`**
    (coordinate `i` negative — the ℝ instance folds from `0` instead of `+∞` — and below every other by more than `1e-240`) -/
theorem minAlong_vjp_deriv_real_partial (bm : BMode) (H : Heap ℝ) (xn yn n : Nat) (x : Fin n → ℝ) (g : ℝ) (i : Fin n)
    (hx : H.val xn = ⟨[n], List.ofFn x⟩) (hy : vAlong .min (H.val xn) 0 = .ok (H.val yn))
    (hneg : x i < 0) (hm : ∀ k, k ≠ i → x i + θ < x k) :
    evalRule bm H ⟨[], [g]⟩ (.extAlongX xn yn 0) = .ok ⟨[n], List.ofFn (fun p => if p = i then g else 0)⟩ ∧
    ∀ p, HasDerivAt (fun t => g * (⟨[n], List.ofFn (Function.update x p t)⟩ : Tensor ℝ).min)
      (if p = i then g else 0) (x p) := by
  have hn : 0 < n := Nat.lt_of_le_of_lt (Nat.zero_le _) i.isLt
  have wx : (H.val xn).WF := by rw [hx]; exact wf_ofFn hn x
  have hlt : ∀ k, k ≠ i → x i < x k := fun k hk => by linarith [hm k hk, θ_pos]
  have hlb : ∀ k, x i ≤ x k := by
    intro k
    by_cases hk : k = i
    · rw [hk]
    · exact (hlt k hk).le
  have hM : (H.val xn).min = x i := by
    rw [hx]
    apply min_eq_of _ _ hneg.le
    · intro v hv
      obtain ⟨k, hk⟩ := List.mem_ofFn.mp hv
      rw [← hk]; exact hlb k
    · right; exact List.mem_ofFn.mpr ⟨i, rfl⟩
  refine ⟨?_, ?_⟩
  · rw [(minAlong_vjp_real_partial bm H xn yn n g wx (by rw [hx]) hy).2.1, hM, hx]
    congr 2
    rw [List.map_ofFn]
    congr 1
    funext p
    simp only [Function.comp_apply]
    by_cases hp : p = i
    · rw [if_pos hp, hp, if_pos (by linarith [θ_pos])]
    · rw [if_neg hp, if_neg (by linarith [hm p hp])]
  · intro p
    by_cases hp : p = i
    · subst hp
      rw [if_pos rfl]
      have := (d_min_at_argmin x p hneg hlt).const_mul g
      rwa [mul_one] at this
    · rw [if_neg hp]
      have := (d_min_off_argmin x i p hneg.le hlb (hlt p hp)).const_mul g
      rwa [mul_zero] at this

/-- the minimum of a non-empty vector -/
noncomputable def minF {n : ℕ} (hn : 0 < n) (x : Fin n → ℝ) : ℝ :=
  Finset.univ.inf' ⟨⟨0, hn⟩, Finset.mem_univ _⟩ x

theorem minF_eq_of {n : ℕ} (hn : 0 < n) (x : Fin n → ℝ) (i : Fin n) (hlb : ∀ k, x i ≤ x k) : minF hn x = x i := by
  unfold minF
  apply le_antisymm
  · exact Finset.inf'_le x (Finset.mem_univ i)
  · exact Finset.le_inf' _ _ (fun k _ => hlb k)

/-- **MinAlong(0) of a vector with a unique minimiser: the rule is the gradient of the minimum, times `g`** — `y` holding
    the true minimum `inf_k x_k`, no sign condition -/
theorem minAlong_vjp_deriv (bm : BMode) (H : Heap ℝ) (xn yn n : Nat) (hn : 0 < n) (x : Fin n → ℝ) (g : ℝ) (i : Fin n)
    (hx : H.val xn = ⟨[n], List.ofFn x⟩) (hy : H.val yn = ⟨[], [minF hn x]⟩) (hm : ∀ k, k ≠ i → x i + θ < x k) :
    evalRule bm H ⟨[], [g]⟩ (.extAlongX xn yn 0) = .ok ⟨[n], List.ofFn (fun p => if p = i then g else 0)⟩ ∧
    ∀ p, HasDerivAt (fun t => g * minF hn (Function.update x p t)) (if p = i then g else 0) (x p) := by
  have wx : (H.val xn).WF := by rw [hx]; exact wf_ofFn hn x
  have hlt : ∀ k, k ≠ i → x i < x k := fun k hk => by linarith [hm k hk, θ_pos]
  have hlb : ∀ k, x i ≤ x k := by
    intro k
    by_cases hk : k = i
    · rw [hk]
    · exact (hlt k hk).le
  have hM : minF hn x = x i := minF_eq_of hn x i hlb
  refine ⟨?_, ?_⟩
  · have hsel := (extAlong_min_select bm H xn yn n g (x i) wx (by rw [hx]) (by rw [hy, hM]) (by
      intro v hv
      rw [hx] at hv
      obtain ⟨k, hk⟩ := List.mem_ofFn.mp hv
      rw [← hk]; exact hlb k)).1
    rw [hsel, hx]
    congr 2
    rw [List.map_ofFn]
    congr 1
    funext p
    simp only [Function.comp_apply]
    by_cases hp : p = i
    · rw [if_pos hp, hp, if_pos (by linarith [θ_pos])]
    · rw [if_neg hp, if_neg (by linarith [hm p hp])]
  · intro p
    by_cases hp : p = i
    · subst hp
      rw [if_pos rfl]
      have hev : (fun t => g * minF hn (Function.update x p t)) =ᶠ[nhds (x p)] fun t => g * t := by
        filter_upwards [eventually_lt_nhds (show x p < x p + θ by linarith [θ_pos])] with t ht
        rw [minF_eq_of hn (Function.update x p t) p (by
          intro k
          by_cases hk : k = p
          · rw [hk]
          · rw [Function.update_of_ne hk, Function.update_self]; linarith [hm k hk])]
        rw [Function.update_self]
      have := ((hasDerivAt_id (x p)).const_mul g).congr_of_eventuallyEq hev
      rwa [mul_one] at this
    · rw [if_neg hp]
      have hev : (fun t => g * minF hn (Function.update x p t)) =ᶠ[nhds (x p)] fun _ => g * x i := by
        filter_upwards [eventually_gt_nhds (hlt p hp)] with t ht
        rw [minF_eq_of hn (Function.update x p t) i (by
          intro k
          rw [Function.update_of_ne (Ne.symm hp)]
          by_cases hk : k = p
          · rw [hk, Function.update_self]; exact ht.le
          · rw [Function.update_of_ne hk]; exact hlb k)]
        rw [Function.update_of_ne (Ne.symm hp)]
      exact (hasDerivAt_const (x p) (g * x i)).congr_of_eventuallyEq hev

/-- non-vacuity (kernel-checked on `Int`, where the threshold is 0): node 0 = `[3, 7, 7, 1, 1]`, node 1 = its Max `7`,
    node 2 = its Min `1`; upstream gradient `5`: both tied maxima receive `5`, both tied minima receive `5` -/
def exHeap4 : Heap Int := #[⟨⟨[5], [3, 7, 7, 1, 1]⟩, {}⟩, ⟨⟨[], [7]⟩, {}⟩, ⟨⟨[], [1]⟩, {}⟩]

example : vAlong .max (exHeap4.val 0) 0 = .ok (exHeap4.val 1) ∧ vAlong .min (exHeap4.val 0) 0 = .ok (exHeap4.val 2) ∧
    evalRule .sum exHeap4 ⟨[], [5]⟩ (.extAlongX 0 1 0) = .ok ⟨[5], [0, 5, 5, 0, 0]⟩ ∧
    evalRule .sum exHeap4 ⟨[], [5]⟩ (.extAlongX 0 2 0) = .ok ⟨[5], [0, 0, 0, 5, 5]⟩ := by decide

/-- the general-rank theorem `rule_extAlong` on a matrix: MaxAlong(1) of `[[1,2,3],[4,5,6]]` = `[3, 6]`, upstream `[10, 20]` -/
example : evalRule .sum (#[⟨⟨[2, 3], [1, 2, 3, 4, 5, 6]⟩, {}⟩, ⟨⟨[2], [3, 6]⟩, {}⟩] : Heap Int) ⟨[2], [10, 20]⟩ (.extAlongX 0 1 1)
    = .ok ⟨[2, 3], [0, 0, 10, 0, 0, 20]⟩ := by decide

/-! ## 3. VarAlong / StdAlong -/

theorem rank1_ext (r : Tensor α) (n : Nat) (l : List α) (wr : r.WF) (hd : r.dims = [n]) (hl : l.length = n)
    (h : ∀ p, p < n → r.at? [p] = l[p]?) : r = ⟨[n], l⟩ := by
  obtain ⟨rd, rdata⟩ := r
  simp only at hd
  subst hd
  congr 1
  have hlen : rdata.length = n := by have := wr.1; simpa [prod] using this
  apply List.ext_getElem?
  intro p
  by_cases hp : p < n
  · rw [← h p hp, at?_rank1 n rdata p hp]
  · rw [List.getElem?_eq_none (by omega), List.getElem?_eq_none (by omega)]

theorem zipWith_replicate_map {β : Type} (f : β → β → β) (g : β) (F : β → β) : ∀ (l : List β),
    List.zipWith f (List.replicate l.length g) (l.map F) = l.map (fun v => f g (F v))
  | [] => rfl
  | a :: l => by simp [List.replicate_succ, zipWith_replicate_map f g F l]

section var
variable [Scalar α]

theorem wf_scalar (c : α) : (⟨[], [c]⟩ : Tensor α).WF := ⟨rfl, by simp⟩
theorem wf_one (c : α) : (⟨[1], [c]⟩ : Tensor α).WF := ⟨rfl, by simp⟩

/-- `reducerBroadcasted` of a scalar-shaped tensor to a vector: `n` copies -/
theorem reducerBroadcasted_rank1 (g : α) (n : Nat) (hn : 0 < n) :
    reducerBroadcasted ⟨[], [g]⟩ [n] 0 = .ok ⟨[n], List.replicate n g⟩ := by
  obtain ⟨r, e, hd, wr, hget⟩ := C02x.reducerBroadcasted_get (⟨[], [g]⟩ : Tensor α) [n] 0
    (by intro d hd; simp at hd; omega) (by simp) (wf_scalar g) rfl
  rw [e]
  congr 1
  apply rank1_ext r n _ wr hd (by simp)
  intro p hp
  rw [hget [p] (.cons hp .nil)]
  simp [at?_rank0, hp]

theorem vUnSqueeze_scalar (c : α) : vUnSqueeze (⟨[], [c]⟩ : Tensor α) 0 = .ok ⟨[1], [c]⟩ := by
  have hvu : validUnSqueeze (0 : Int) ([] : List Nat) = true := by simp [validUnSqueeze]
  unfold vUnSqueeze
  rw [if_pos hvu, Int.toNat_zero, C06.unsqueeze_data _ (wf_scalar c)]
  rfl

/-- arithmetic of a vector with a one-element tensor: the element is broadcast over the vector -/
theorem arith_vec_one (o : Arith) (t : Tensor α) (n : Nat) (c : α) (wt : t.WF) (hd : t.dims = [n]) :
    vArith o t ⟨[1], [c]⟩ = .ok ⟨[n], t.data.map (fun v => o.fn v c)⟩ := by
  have hn : 0 < n := wt.2 n (by rw [hd]; simp)
  have hl : t.data.length = n := by have := wt.1; rw [hd] at this; simpa [prod] using this
  have hcompat : C03x.compat t.dims [1] = true := by rw [hd]; simp [C03x.compat, C03x.compatLE]
  obtain ⟨r, er⟩ := (C03x.arith_total o t ⟨[1], [c]⟩ wt (wf_one c)).1 hcompat
  obtain ⟨hrd, wr⟩ := C03x.arith_result_dims o _ _ r wt (wf_one c) er
  have htd : targetBroadcastDims [n] [1] = [n] := by
    have : (if n > 1 then n else 1) = n := by split <;> omega
    simp [targetBroadcastDims, targetBroadcastLE, this]
  have hrd' : r.dims = [n] := by rw [hrd, hd]; exact htd
  rw [er]
  congr 1
  apply rank1_eq_map r n t.data _ wr hrd' hl
  intro p hp
  have hu' : Valid r.dims.reverse [p] := by rw [hrd']; exact .cons hp .nil
  obtain ⟨x, y, hx, hy, hr⟩ := C03x.arith_get o _ _ r wt (wf_one c) er _ hu'
  have e0 : ([p] : List Nat).reverse = [p] := rfl
  rw [e0] at hr
  rw [hr]
  have hp0 : (if 1 = n then p else 0) = 0 := by split <;> omega
  have hy' : y = c := by
    rw [hrd'] at hy
    simp only [List.reverse_cons, List.reverse_nil, List.nil_append, projLE, hp0] at hy
    have : (⟨[1], [c]⟩ : Tensor α).at? [0] = some c := by simp [at?_rank1]
    rw [this] at hy
    injection hy with hy; exact hy.symm
  have hx' : x = t.data[p]'(by omega) := by
    rw [hrd', hd] at hx
    simp only [List.reverse_cons, List.reverse_nil, List.nil_append, projLE, if_true] at hx
    have hv : Valid t.dims [p] := by rw [hd]; exact .cons hp .nil
    rw [C04x.at?_eq_data t hv, hd] at hx
    have hp' : p < t.data.length := by omega
    simp [val, List.getElem?_eq_getElem hp'] at hx
    exact hx.symm
  rw [hx', hy']

/-- **`gradtrack.VarAlong`, rank-1 operand along dim 0** (the fibre is the whole vector; generic scalar domain): for `n = 1`
    zeros (`x.Scale(0)`), otherwise `[g · (2/(n−1)) · (x_p − mean(x))]_p`. -/
theorem rule_varAlong_rank1 (bm : BMode) (H : Heap α) (x n : Nat) (g : α) (wx : (H.val x).WF)
    (hdx : (H.val x).dims = [n]) :
    evalRule bm H ⟨[], [g]⟩ (.varAlongX x 0) =
      if n = 1 then .ok (vScale (H.val x) Scalar.zero)
      else .ok ⟨[n], (H.val x).data.map (fun v => Scalar.mul g
        (Scalar.mul (Scalar.div Scalar.two (Scalar.ofNat (n - 1))) (Scalar.sub v (H.val x).mean)))⟩ := by
  have hn : 0 < n := wx.2 n (by rw [hdx]; simp)
  have hl : (H.val x).data.length = n := by have := wx.1; rw [hdx] at this; simpa [prod] using this
  have hgd : (H.val x).dims.getD 0 0 = n := by rw [hdx]; rfl
  have hself : (⟨[n], (H.val x).data⟩ : Tensor α) = H.val x := by rw [← hdx]
  have e0 : ((0 : Nat) : Int) = 0 := rfl
  simp only [evalRule, bind, Out.bind, hgd, e0]
  rw [hdx, reducerBroadcasted_rank1 g n hn]
  simp only []
  by_cases h1 : n = 1
  · rw [if_pos h1, if_pos h1]; rfl
  · rw [if_neg h1, if_neg h1, along_rank1_fwd .mean (H.val x) n wx hdx]
    simp only [Reducer.fn, hself]
    rw [vUnSqueeze_scalar]
    simp only []
    rw [arith_vec_one .sub (H.val x) n _ wx hdx]
    simp only []
    have wgx : (vScale (⟨[n], (H.val x).data.map (fun v => Arith.sub.fn v (H.val x).mean)⟩ : Tensor α)
        (Scalar.div Scalar.two (Scalar.ofNat (n - 1)))).WF := by
      apply map_wf
      exact ⟨by simp [prod, hl], by intro d hd; simp at hd; omega⟩
    have wrep : (⟨[n], List.replicate n g⟩ : Tensor α).WF :=
      ⟨by simp [prod], by intro d hd; simp at hd; omega⟩
    rw [vArith_same .mul ⟨[n], List.replicate n g⟩ _ wrep wgx rfl]
    congr 2
    simp only [vScale, Tensor.map, List.map_map]
    rw [← hl]
    rw [zipWith_replicate_map]
    rfl

/-- **`gradtrack.StdAlong`, rank-1 operand along dim 0** (generic scalar domain), `s` the value stored in the forward result
    `y`: for `n = 1` zeros, otherwise `[g · (1/(n−1)) · ((x_p − mean(x)) / s)]_p`. -/
theorem rule_stdAlong_rank1 (bm : BMode) (H : Heap α) (x y n : Nat) (g s : α) (wx : (H.val x).WF)
    (hdx : (H.val x).dims = [n]) (hy : H.val y = ⟨[], [s]⟩) :
    evalRule bm H ⟨[], [g]⟩ (.stdAlongX x y 0) =
      if n = 1 then .ok (vScale (H.val x) Scalar.zero)
      else .ok ⟨[n], (H.val x).data.map (fun v => Scalar.mul g
        (Scalar.mul (Scalar.div Scalar.one (Scalar.ofNat (n - 1))) (Scalar.div (Scalar.sub v (H.val x).mean) s)))⟩ := by
  have hn : 0 < n := wx.2 n (by rw [hdx]; simp)
  have hl : (H.val x).data.length = n := by have := wx.1; rw [hdx] at this; simpa [prod] using this
  have hgd : (H.val x).dims.getD 0 0 = n := by rw [hdx]; rfl
  have hself : (⟨[n], (H.val x).data⟩ : Tensor α) = H.val x := by rw [← hdx]
  have e0 : ((0 : Nat) : Int) = 0 := rfl
  simp only [evalRule, bind, Out.bind, hgd, hy, e0]
  rw [hdx, reducerBroadcasted_rank1 g n hn]
  simp only []
  by_cases h1 : n = 1
  · rw [if_pos h1, if_pos h1]; rfl
  · rw [if_neg h1, if_neg h1, along_rank1_fwd .mean (H.val x) n wx hdx]
    simp only [Reducer.fn, hself]
    rw [vUnSqueeze_scalar]
    simp only []
    rw [arith_vec_one .sub (H.val x) n _ wx hdx]
    simp only []
    rw [vUnSqueeze_scalar]
    simp only []
    have w1 : (⟨[n], (H.val x).data.map (fun v => Arith.sub.fn v (H.val x).mean)⟩ : Tensor α).WF :=
      ⟨by simp [prod, hl], by intro d hd; simp at hd; omega⟩
    rw [arith_vec_one .div _ n s w1 rfl]
    simp only []
    have wgx : (vScale (⟨[n], ((H.val x).data.map (fun v => Arith.sub.fn v (H.val x).mean)).map
        (fun v => Arith.div.fn v s)⟩ : Tensor α) (Scalar.div Scalar.one (Scalar.ofNat (n - 1)))).WF := by
      apply map_wf
      exact ⟨by simp [prod, hl], by intro d hd; simp at hd; omega⟩
    have wrep : (⟨[n], List.replicate n g⟩ : Tensor α).WF :=
      ⟨by simp [prod], by intro d hd; simp at hd; omega⟩
    rw [vArith_same .mul ⟨[n], List.replicate n g⟩ _ wrep wgx rfl]
    congr 2
    simp only [vScale, Tensor.map, List.map_map]
    rw [← hl]
    rw [zipWith_replicate_map]
    rfl

end var

/-! ### the calculus: sample variance and standard deviation of a vector `x : Fin n → ℝ` -/

noncomputable def meanF {n : ℕ} (x : Fin n → ℝ) : ℝ := (∑ k, x k) / (n : ℝ)
/-- unbiased sample variance (denominator `n − 1`) -/
noncomputable def varF {n : ℕ} (x : Fin n → ℝ) : ℝ := (∑ k, (x k - meanF x) ^ 2) / ((n : ℝ) - 1)
noncomputable def stdF {n : ℕ} (x : Fin n → ℝ) : ℝ := Real.sqrt (varF x)

theorem sum_dev_zero {n : ℕ} (hn : 0 < n) (x : Fin n → ℝ) : ∑ k, (x k - meanF x) = 0 := by
  have hne : (n : ℝ) ≠ 0 := by exact_mod_cast hn.ne'
  rw [Finset.sum_sub_distrib, Finset.sum_const, Finset.card_univ, Fintype.card_fin, nsmul_eq_mul]
  unfold meanF
  field_simp
  ring

theorem d_meanF {n : ℕ} (x : Fin n → ℝ) (i : Fin n) :
    HasDerivAt (fun t => meanF (Function.update x i t)) (1 / (n : ℝ)) (x i) := by
  have h2 := (hasDerivAt_weighted_map id (fun _ => (1 : ℝ)) x (fun _ => 1) i (hasDerivAt_id (x i))).div_const (n : ℝ)
  simp only [one_mul, id_eq] at h2
  exact h2

/-- **`∂ Var / ∂ x_i = 2 (x_i − mean) / (n − 1)`** -/
theorem d_varF {n : ℕ} (hn : 0 < n) (x : Fin n → ℝ) (i : Fin n) :
    HasDerivAt (fun t => varF (Function.update x i t)) (2 / ((n : ℝ) - 1) * (x i - meanF x)) (x i) := by
  have hm := d_meanF x i
  have hk : ∀ k ∈ (Finset.univ : Finset (Fin n)),
      HasDerivAt (fun t => (Function.update x i t k - meanF (Function.update x i t)) ^ 2)
        (2 * (x k - meanF x) * ((if k = i then 1 else 0) - 1 / (n : ℝ))) (x i) := by
    intro k _
    have hu : HasDerivAt (fun t => Function.update x i t k) (if k = i then 1 else 0) (x i) := by
      by_cases hki : k = i
      · subst hki; simp only [Function.update_self, if_true]; exact hasDerivAt_id _
      · simp only [Function.update_of_ne hki, hki, if_false]; exact hasDerivAt_const _ _
    have := (hu.sub hm).pow 2
    refine this.congr_deriv ?_
    simp only [Pi.sub_apply, Function.update_eq_self]
    norm_num
  have hs := (HasDerivAt.fun_sum hk).div_const ((n : ℝ) - 1)
  unfold varF
  refine hs.congr_deriv ?_
  have e : ∑ k, 2 * (x k - meanF x) * ((if k = i then (1 : ℝ) else 0) - 1 / (n : ℝ)) = 2 * (x i - meanF x) := by
    have h1 : ∀ k, 2 * (x k - meanF x) * ((if k = i then (1 : ℝ) else 0) - 1 / (n : ℝ))
        = (if k = i then 2 * (x k - meanF x) else 0) - (2 / (n : ℝ)) * (x k - meanF x) := by
      intro k
      by_cases h : k = i
      · simp only [h, if_true]; ring
      · simp only [h, if_false]; ring
    simp only [h1, Finset.sum_sub_distrib, Finset.sum_ite_eq', Finset.mem_univ, if_true, ← Finset.mul_sum,
      sum_dev_zero hn x]
    ring
  rw [e]; ring

/-- **`∂ Std / ∂ x_i = (x_i − mean) / ((n − 1) · Std)`** where the variance does not vanish -/
theorem d_stdF {n : ℕ} (hn : 0 < n) (x : Fin n → ℝ) (i : Fin n) (hv : varF x ≠ 0) :
    HasDerivAt (fun t => stdF (Function.update x i t)) (1 / ((n : ℝ) - 1) * ((x i - meanF x) / stdF x)) (x i) := by
  have h := (d_varF hn x i).sqrt (by simpa only [Function.update_eq_self] using hv)
  unfold stdF
  refine h.congr_deriv ?_
  simp only [Function.update_eq_self]
  rcases eq_or_ne (Real.sqrt (varF x)) 0 with h0 | h0
  · simp [h0]
  · field_simp

/-! ### the Model's `Mean` / `Var` / `Std` of the vector tensor `⟨[n], List.ofFn x⟩` are these functions -/

theorem mean_ofFn {n : ℕ} (x : Fin n → ℝ) : (⟨[n], List.ofFn x⟩ : Tensor ℝ).mean = meanF x := by
  rw [C05x.mean_real]
  simp [prod, List.sum_ofFn, meanF]

theorem var_ofFn {n : ℕ} (hn : 2 ≤ n) (x : Fin n → ℝ) : (⟨[n], List.ofFn x⟩ : Tensor ℝ).var = varF x := by
  rw [C05.var_real, if_pos (by simp [prod]; omega), mean_ofFn]
  simp [prod, List.map_ofFn, List.sum_ofFn, varF, Function.comp_def]

theorem std_ofFn {n : ℕ} (hn : 2 ≤ n) (x : Fin n → ℝ) : (⟨[n], List.ofFn x⟩ : Tensor ℝ).std = stdF x := by
  rw [(C05x.std_real _).1, var_ofFn hn x]; rfl

/-- **VarAlong(0) of a vector of length `n ≥ 2` over ℝ: the rule is the gradient of the sample variance, times `g`.**
    The closure returns `[g · 2 (x_i − mean) / (n − 1)]_i`, and that entry is the partial derivative with respect to `x_i`
    of `g · Var(x)`, `Var` being the Model's own forward function `Tensor.var` on the vector. -/
theorem varAlong_vjp_real (bm : BMode) (H : Heap ℝ) (xn n : Nat) (x : Fin n → ℝ) (g : ℝ) (hn : 2 ≤ n)
    (hx : H.val xn = ⟨[n], List.ofFn x⟩) :
    evalRule bm H ⟨[], [g]⟩ (.varAlongX xn 0)
        = .ok ⟨[n], List.ofFn (fun i => g * (2 / ((n : ℝ) - 1) * (x i - meanF x)))⟩ ∧
    ∀ i, HasDerivAt (fun t => g * (⟨[n], List.ofFn (Function.update x i t)⟩ : Tensor ℝ).var)
      (g * (2 / ((n : ℝ) - 1) * (x i - meanF x))) (x i) := by
  have hn0 : 0 < n := by omega
  have wx : (H.val xn).WF := by rw [hx]; exact wf_ofFn hn0 x
  refine ⟨?_, ?_⟩
  · rw [rule_varAlong_rank1 bm H xn n g wx (by rw [hx]), if_neg (by omega), hx, mean_ofFn]
    congr 2
    rw [List.map_ofFn]
    congr 1
    funext i
    have hc : ((n - 1 : ℕ) : ℝ) = (n : ℝ) - 1 := by rw [Nat.cast_sub (by omega)]; simp
    simp [hc]
  · intro i
    have hf : (fun t => g * (⟨[n], List.ofFn (Function.update x i t)⟩ : Tensor ℝ).var)
        = fun t => g * varF (Function.update x i t) := by
      funext t; rw [var_ofFn hn]
    rw [hf]
    exact (d_varF hn0 x i).const_mul g

/-- **StdAlong(0) of a vector of length `n ≥ 2` over ℝ: the rule is the gradient of the sample standard deviation, times
    `g`** — `y` holding the forward value `Std(x)`. The closure returns `[g · (x_i − mean) / ((n − 1) · Std(x))]_i`
    (computed as `g · (1/(n−1)) · ((x_i − mean)/Std)`), and where `Var(x) ≠ 0` that entry is the partial derivative with
    respect to `x_i` of `g · Std(x)`, `Std` being the Model's `Tensor.std`. (For a constant vector `Std = 0`, the
    function is not differentiable and the closure divides by zero: over ℝ that gives 0, over float64 NaN.) -/
theorem stdAlong_vjp_real (bm : BMode) (H : Heap ℝ) (xn yn n : Nat) (x : Fin n → ℝ) (g : ℝ) (hn : 2 ≤ n)
    (hx : H.val xn = ⟨[n], List.ofFn x⟩) (hy : vAlong .std (H.val xn) 0 = .ok (H.val yn)) :
    H.val yn = ⟨[], [stdF x]⟩ ∧
    evalRule bm H ⟨[], [g]⟩ (.stdAlongX xn yn 0)
        = .ok ⟨[n], List.ofFn (fun i => g * (1 / ((n : ℝ) - 1) * ((x i - meanF x) / stdF x)))⟩ ∧
    (varF x ≠ 0 → ∀ i, HasDerivAt (fun t => g * (⟨[n], List.ofFn (Function.update x i t)⟩ : Tensor ℝ).std)
      (g * (1 / ((n : ℝ) - 1) * ((x i - meanF x) / stdF x))) (x i)) := by
  have hn0 : 0 < n := by omega
  have wx : (H.val xn).WF := by rw [hx]; exact wf_ofFn hn0 x
  have hyv : H.val yn = ⟨[], [stdF x]⟩ := by
    rw [along_rank1_fwd .std (H.val xn) n wx (by rw [hx])] at hy
    injection hy with hy
    rw [← hy, hx]
    simp only [Reducer.fn, std_ofFn hn x]
  refine ⟨hyv, ?_, ?_⟩
  · rw [rule_stdAlong_rank1 bm H xn yn n g (stdF x) wx (by rw [hx]) hyv, if_neg (by omega), hx, mean_ofFn]
    congr 2
    rw [List.map_ofFn]
    congr 1
    funext i
    have hc : ((n - 1 : ℕ) : ℝ) = (n : ℝ) - 1 := by rw [Nat.cast_sub (by omega)]; simp
    simp [hc]
  · intro hv i
    have hf : (fun t => g * (⟨[n], List.ofFn (Function.update x i t)⟩ : Tensor ℝ).std)
        = fun t => g * stdF (Function.update x i t) := by
      funext t; rw [std_ofFn hn]
    rw [hf]
    exact (d_stdF hn0 x i hv).const_mul g

/-- **the `n = 1` branch**: the closure of VarAlong / StdAlong on a one-element vector returns `[0]`, and indeed the
    Model's `Var` / `Std` of a one-element vector are constantly `0`, so their derivative is `0` -/
theorem varStdAlong_one_real (bm : BMode) (H : Heap ℝ) (xn yn : Nat) (a g s : ℝ) (hx : H.val xn = ⟨[1], [a]⟩)
    (hy : H.val yn = ⟨[], [s]⟩) :
    evalRule bm H ⟨[], [g]⟩ (.varAlongX xn 0) = .ok ⟨[1], [0]⟩ ∧
    evalRule bm H ⟨[], [g]⟩ (.stdAlongX xn yn 0) = .ok ⟨[1], [0]⟩ ∧
    HasDerivAt (fun t => g * (⟨[1], [t]⟩ : Tensor ℝ).var) 0 a ∧
    HasDerivAt (fun t => g * (⟨[1], [t]⟩ : Tensor ℝ).std) 0 a := by
  have wx : (H.val xn).WF := by rw [hx]; exact wf_one a
  have hv : ∀ t : ℝ, (⟨[1], [t]⟩ : Tensor ℝ).var = 0 ∧ (⟨[1], [t]⟩ : Tensor ℝ).std = 0 :=
    fun t => (C05x.std_real _).2.2.2.2 (by simp [prod])
  refine ⟨?_, ?_, ?_, ?_⟩
  · rw [rule_varAlong_rank1 bm H xn 1 g wx (by rw [hx]), if_pos rfl, hx]
    simp [vScale, Tensor.map]
  · rw [rule_stdAlong_rank1 bm H xn yn 1 g s wx (by rw [hx]) hy, if_pos rfl, hx]
    simp [vScale, Tensor.map]
  · have : (fun t => g * (⟨[1], [t]⟩ : Tensor ℝ).var) = fun _ => (0 : ℝ) := by funext t; rw [(hv t).1, mul_zero]
    rw [this]; exact hasDerivAt_const _ _
  · have : (fun t => g * (⟨[1], [t]⟩ : Tensor ℝ).std) = fun _ => (0 : ℝ) := by funext t; rw [(hv t).2, mul_zero]
    rw [this]; exact hasDerivAt_const _ _

/-- the derivative values in the customary form: `g · 2(x_i − mean)/(n−1)` and `g · (x_i − mean)/((n−1)·Std)` -/
theorem var_std_factor_forms (n : ℕ) (g xi μ s : ℝ) :
    g * (2 / ((n : ℝ) - 1) * (xi - μ)) = g * (2 * (xi - μ) / ((n : ℝ) - 1)) ∧
    g * (1 / ((n : ℝ) - 1) * ((xi - μ) / s)) = g * ((xi - μ) / (((n : ℝ) - 1) * s)) := by
  constructor
  · ring
  · rw [one_div, ← div_eq_inv_mul, div_div, mul_comm s]

/-! ### Dot on vectors: the rule against the derivative of the Model's forward function -/

theorem el_ofFn {n : ℕ} (x : Fin n → ℝ) (p : ℕ) (hp : p < n) : el (⟨[n], List.ofFn x⟩ : Tensor ℝ) [p] = x ⟨p, hp⟩ := by
  unfold el
  rw [at?_rank1 _ _ _ hp]
  simp [List.getElem?_ofFn, hp]

/-- `∂ (g · Σ_k a_k b_k) / ∂ a_i = g · b_i` -/
theorem d_dot {n : ℕ} (a b : Fin n → ℝ) (g : ℝ) (i : Fin n) :
    HasDerivAt (fun t => g * ∑ k, Function.update a i t k * b k) (g * b i) (a i) := by
  have h := (hasDerivAt_weighted_map id (fun _ => (1 : ℝ)) a b i (hasDerivAt_id (a i))).const_mul g
  simp only [id_eq, mul_one] at h
  have hf : (fun t => g * ∑ k, Function.update a i t k * b k) = fun t => g * ∑ k, b k * Function.update a i t k := by
    funext t
    congr 1
    apply Finset.sum_congr rfl
    intro k _; ring
  rw [hf]; exact h

/-- **Dot of two vectors over ℝ, forward and backward together**: the forward call returns the scalar-shaped tensor
    `Σ_k a_k b_k`; the closure applied to the scalar-shaped upstream gradient `g` returns `[g · b_i]_i`; and `g · b_i` is the
    partial derivative with respect to `a_i` of `g · Σ_k a_k b_k`. -/
theorem dot_vjp_real (bm : BMode) (H : Heap ℝ) (o n : Nat) (a b : Fin n → ℝ) (g : ℝ) (hn : 0 < n)
    (ho : H.val o = ⟨[n], List.ofFn b⟩) :
    vDot ⟨[n], List.ofFn a⟩ (H.val o) = .ok ⟨[], [∑ k, a k * b k]⟩ ∧
    evalRule bm H ⟨[], [g]⟩ (.dotG o) = .ok ⟨[n], List.ofFn (fun i => g * b i)⟩ ∧
    ∀ i, HasDerivAt (fun t => g * ∑ k, Function.update a i t k * b k) (g * b i) (a i) := by
  have wo : (H.val o).WF := by rw [ho]; exact wf_ofFn hn b
  refine ⟨?_, ?_, fun i => d_dot a b g i⟩
  · obtain ⟨c, e, hdc, wc, hget⟩ := vDot_get_real ⟨[n], List.ofFn a⟩ (H.val o) (wf_ofFn hn a) wo [] n rfl (by rw [ho]; rfl)
    rw [e]
    congr 1
    obtain ⟨cd, cdata⟩ := c
    simp only at hdc
    subst hdc
    have hlen : cdata.length = 1 := wc.1
    have h0 := hget [] .nil
    rw [at?_rank0] at h0
    have hsum : ∑ p ∈ Finset.range n, el (⟨[n], List.ofFn a⟩ : Tensor ℝ) ([] ++ [p]) * el (H.val o) ([] ++ [p])
        = ∑ k, a k * b k := by
      rw [Finset.sum_range]
      apply Finset.sum_congr rfl
      intro k _
      rw [ho]
      simp only [List.nil_append]
      rw [el_ofFn a k.val k.isLt, el_ofFn b k.val k.isLt]
    rw [hsum] at h0
    match cdata, hlen, h0 with
    | [v], _, hv => simp at hv; rw [hv]
  · obtain ⟨r, e, hdr, wr, hget⟩ := rule_dot_real bm H ⟨[], [g]⟩ o [] n (wf_scalar g) wo rfl (by rw [ho]; rfl)
    rw [e]
    congr 1
    apply rank1_ext r n _ wr hdr (by simp)
    intro p hp
    have := hget [] p .nil hp
    simp only [List.nil_append] at this
    rw [this, ho, el_ofFn b p hp]
    have e1 : el (⟨[], [g]⟩ : Tensor ℝ) [] = g := by simp [el, at?_rank0]
    rw [e1]
    simp [List.getElem?_ofFn, hp]

/-- non-vacuity (kernel-checked on `Int`): node 0 = `[1, 3, 5]` (mean 3, `2/(n−1) = 1`), node 1 = `[7]` (the `n = 1`
    branch), node 2 = `[1, 5]` (mean 3, `1/(n−1) = 1`), node 3 = a scalar `2` standing in for the forward Std value (the
    `Int` instance has no square root); upstream gradient `2` -/
def exHeap3 : Heap Int :=
  #[⟨⟨[3], [1, 3, 5]⟩, {}⟩, ⟨⟨[1], [7]⟩, {}⟩, ⟨⟨[2], [1, 5]⟩, {}⟩, ⟨⟨[], [2]⟩, {}⟩]

example : evalRule .sum exHeap3 ⟨[], [2]⟩ (.varAlongX 0 0) = .ok ⟨[3], [-4, 0, 4]⟩ ∧
    evalRule .sum exHeap3 ⟨[], [2]⟩ (.varAlongX 1 0) = .ok ⟨[1], [0]⟩ ∧
    evalRule .sum exHeap3 ⟨[], [2]⟩ (.stdAlongX 2 3 0) = .ok ⟨[2], [-2, 2]⟩ ∧
    evalRule .sum exHeap3 ⟨[], [2]⟩ (.stdAlongX 1 3 0) = .ok ⟨[1], [0]⟩ := by decide

end C02y
end Qeep
