import QeepProps.C02x
import QeepProps.C04x
import QeepProps.C05x
import QeepProofs.Calculus
import QeepProofs.Real
set_option linter.unusedSimpArgs false
set_option linter.unusedSectionVars false
set_option linter.unusedVariables false

namespace Qeep
namespace C02y
open RealScalar
open C04x (el at?_el valid_app valid2 vMatMul_get vTranspose_get_be vTranspose_ok foldl_congr')
open C02x (inner idxOf posOf valid_idxOf posOf_lt posOf_idxOf idxOf_posOf)

variable {α : Type}

/-! ## 1. MatMul -/

section matmul
variable [Scalar α]

theorem rule_matmulA (bm : BMode) (H : Heap α) (G : Tensor α) (b : Nat) (bd : List Nat) (m n k : Nat)
    (wG : G.WF) (wB : (H.val b).WF) (hdG : G.dims = bd ++ [m, k]) (hdB : (H.val b).dims = bd ++ [n, k]) :
    ∃ Bt r, vTranspose (H.val b) = .ok Bt ∧ vMatMul G Bt = .ok r ∧
      evalRule bm H G (.matmulA b) = .ok r ∧ r.dims = bd ++ [m, n] ∧ r.WF ∧
      ∀ pre i p, Valid bd pre → i < m → p < n →
        r.at? (pre ++ [i, p]) = some ((List.range k).foldl
          (fun s j => Scalar.add s (Scalar.mul (el G (pre ++ [i, j])) (el (H.val b) (pre ++ [p, j])))) Scalar.zero) := by
  obtain ⟨Bt, eBt⟩ := vTranspose_ok (H.val b) wB bd n k hdB
  obtain ⟨hdBt, wBt, hBt⟩ := vTranspose_get_be (H.val b) Bt wB bd n k hdB eBt
  obtain ⟨r, er, hdr, wr, hr⟩ := vMatMul_get G Bt wG wBt bd m k n hdG hdBt
  refine ⟨Bt, r, eBt, er, ?_, hdr, wr, ?_⟩
  · simp only [evalRule, bind, Out.bind, eBt]; exact er
  · intro pre i p hv hi hp
    rw [hr pre i p hv hi hp]
    congr 1
    apply foldl_congr'
    intro j hj s
    have hj' : j < k := List.mem_range.mp hj
    have e1 : el Bt (pre ++ [j, p]) = el (H.val b) (pre ++ [p, j]) := by unfold el; rw [hBt pre j p hv hj' hp]
    rw [e1]

theorem rule_matmulB (bm : BMode) (H : Heap α) (G : Tensor α) (a : Nat) (bd : List Nat) (m n k : Nat)
    (wG : G.WF) (wA : (H.val a).WF) (hdG : G.dims = bd ++ [m, k]) (hdA : (H.val a).dims = bd ++ [m, n]) :
    ∃ At r, vTranspose (H.val a) = .ok At ∧ vMatMul At G = .ok r ∧
      evalRule bm H G (.matmulB a) = .ok r ∧ r.dims = bd ++ [n, k] ∧ r.WF ∧
      ∀ pre p j, Valid bd pre → p < n → j < k →
        r.at? (pre ++ [p, j]) = some ((List.range m).foldl
          (fun s i => Scalar.add s (Scalar.mul (el (H.val a) (pre ++ [i, p])) (el G (pre ++ [i, j])))) Scalar.zero) := by
  obtain ⟨At, eAt⟩ := vTranspose_ok (H.val a) wA bd m n hdA
  obtain ⟨hdAt, wAt, hAt⟩ := vTranspose_get_be (H.val a) At wA bd m n hdA eAt
  obtain ⟨r, er, hdr, wr, hr⟩ := vMatMul_get At G wAt wG bd n m k hdAt hdG
  refine ⟨At, r, eAt, er, ?_, hdr, wr, ?_⟩
  · simp only [evalRule, bind, Out.bind, eAt]; exact er
  · intro pre p j hv hp hj
    rw [hr pre p j hv hp hj]
    congr 1
    apply foldl_congr'
    intro i hi s
    have hi' : i < m := List.mem_range.mp hi
    have e1 : el At (pre ++ [p, i]) = el (H.val a) (pre ++ [i, p]) := by unfold el; rw [hAt pre p i hv hp hi']
    rw [e1]

end matmul

/-! ### over ℝ: sums, and adjointness -/

theorem foldl_add_range (f : ℕ → ℝ) : ∀ n : ℕ,
    (List.range n).foldl (fun s p => Scalar.add s (f p)) (Scalar.zero : ℝ) = ∑ p ∈ Finset.range n, f p
  | 0 => by simp
  | n + 1 => by
    rw [List.range_succ, List.foldl_append, foldl_add_range f n, Finset.sum_range_succ]
    simp only [List.foldl_cons, List.foldl_nil, add_eq]

theorem sum_range_mul (f : ℕ → ℝ) (b : ℕ) : ∀ a : ℕ,
    ∑ x ∈ Finset.range (a * b), f x = ∑ i ∈ Finset.range a, ∑ j ∈ Finset.range b, f (i * b + j)
  | 0 => by simp
  | a + 1 => by
    rw [Nat.succ_mul, Finset.sum_range_add, sum_range_mul f b a, Finset.sum_range_succ]

/-- row-major position of the element `[pre…, i, j]` of a tensor of dims `bd ++ [m, k]` -/
theorem at?_batch2 (t : Tensor α) (bd : List Nat) (m k : Nat) (hd : t.dims = bd ++ [m, k]) {pre : List Nat} {i j : Nat}
    (hv : Valid bd pre) (hi : i < m) (hj : j < k) :
    t.at? (pre ++ [i, j]) = t.data[posOf bd pre * (m * k) + (i * k + j)]? := by
  have hidx : Valid t.dims (pre ++ [i, j]) := by rw [hd]; exact valid_app hv (valid2 hi hj)
  rw [C04x.at?_eq_data t hidx, hd]
  have e1 : (bd ++ [m, k]).reverse = [k, m] ++ bd.reverse := by simp
  have e2 : (pre ++ [i, j]).reverse = [j, i] ++ pre.reverse := by simp
  rw [e1, e2]
  congr 1
  simp only [List.cons_append, List.nil_append, val, posOf]
  ring

/-- the pairing of two tensors of dims `bd ++ [m, k]` as a sum over batch position, row and column -/
theorem inner_batch2 (a b : Tensor ℝ) (bd : List Nat) (m k : Nat) (wa : a.WF) (hda : a.dims = bd ++ [m, k])
    (hdb : b.dims = bd ++ [m, k]) :
    inner a b = ∑ q ∈ Finset.range (prod bd), ∑ i ∈ Finset.range m, ∑ j ∈ Finset.range k,
      (a.at? (idxOf bd q ++ [i, j])).getD 0 * (b.at? (idxOf bd q ++ [i, j])).getD 0 := by
  have hbd : ∀ d ∈ bd, 0 < d := fun d hd => wa.2 d (by rw [hda]; simp [hd])
  unfold inner
  have hp : prod a.dims = prod bd * (m * k) := by rw [hda, prod_append]; simp [prod]
  rw [hp, sum_range_mul]
  apply Finset.sum_congr rfl
  intro q hq
  rw [sum_range_mul]
  apply Finset.sum_congr rfl
  intro i hi
  apply Finset.sum_congr rfl
  intro j hj
  have hq' := Finset.mem_range.mp hq
  have hv := valid_idxOf hbd q
  rw [at?_batch2 a bd m k hda hv (Finset.mem_range.mp hi) (Finset.mem_range.mp hj),
    at?_batch2 b bd m k hdb hv (Finset.mem_range.mp hi) (Finset.mem_range.mp hj), posOf_idxOf hbd hq']

theorem el_real (t : Tensor ℝ) (idx : List Nat) : el t idx = (t.at? idx).getD 0 := by
  unfold el; rw [zero_eq]

/-- **MatMul rule towards the first operand over ℝ**: `(G·Bᵀ)[b…, i, p] = Σ_j G[b…, i, j] · B[b…, p, j]` -/
theorem rule_matmulA_real (bm : BMode) (H : Heap ℝ) (G : Tensor ℝ) (b : Nat) (bd : List Nat) (m n k : Nat)
    (wG : G.WF) (wB : (H.val b).WF) (hdG : G.dims = bd ++ [m, k]) (hdB : (H.val b).dims = bd ++ [n, k]) :
    ∃ r, evalRule bm H G (.matmulA b) = .ok r ∧ r.dims = bd ++ [m, n] ∧ r.WF ∧
      ∀ pre i p, Valid bd pre → i < m → p < n →
        r.at? (pre ++ [i, p]) = some (∑ j ∈ Finset.range k, el G (pre ++ [i, j]) * el (H.val b) (pre ++ [p, j])) := by
  obtain ⟨_, r, _, _, e, hdr, wr, hget⟩ := rule_matmulA bm H G b bd m n k wG wB hdG hdB
  refine ⟨r, e, hdr, wr, ?_⟩
  intro pre i p hv hi hp
  rw [hget pre i p hv hi hp]
  congr 1
  exact foldl_add_range (fun j => el G (pre ++ [i, j]) * el (H.val b) (pre ++ [p, j])) k

/-- **MatMul rule towards the second operand over ℝ**: `(Aᵀ·G)[b…, p, j] = Σ_i A[b…, i, p] · G[b…, i, j]` -/
theorem rule_matmulB_real (bm : BMode) (H : Heap ℝ) (G : Tensor ℝ) (a : Nat) (bd : List Nat) (m n k : Nat)
    (wG : G.WF) (wA : (H.val a).WF) (hdG : G.dims = bd ++ [m, k]) (hdA : (H.val a).dims = bd ++ [m, n]) :
    ∃ r, evalRule bm H G (.matmulB a) = .ok r ∧ r.dims = bd ++ [n, k] ∧ r.WF ∧
      ∀ pre p j, Valid bd pre → p < n → j < k →
        r.at? (pre ++ [p, j]) = some (∑ i ∈ Finset.range m, el (H.val a) (pre ++ [i, p]) * el G (pre ++ [i, j])) := by
  obtain ⟨_, r, _, _, e, hdr, wr, hget⟩ := rule_matmulB bm H G a bd m n k wG wA hdG hdA
  refine ⟨r, e, hdr, wr, ?_⟩
  intro pre p j hv hp hj
  rw [hget pre p j hv hp hj]
  congr 1
  exact foldl_add_range (fun i => el (H.val a) (pre ++ [i, p]) * el G (pre ++ [i, j])) m

/-- forward MatMul over ℝ in sum form -/
theorem vMatMul_get_real (a b : Tensor ℝ) (ha : a.WF) (hb : b.WF) (bd : List Nat) (m n k : Nat)
    (hda : a.dims = bd ++ [m, n]) (hdb : b.dims = bd ++ [n, k]) :
    ∃ c, vMatMul a b = .ok c ∧ c.dims = bd ++ [m, k] ∧ c.WF ∧
      ∀ pre i j, Valid bd pre → i < m → j < k →
        c.at? (pre ++ [i, j]) = some (∑ p ∈ Finset.range n, el a (pre ++ [i, p]) * el b (pre ++ [p, j])) := by
  obtain ⟨c, e, hdc, wc, hget⟩ := vMatMul_get a b ha hb bd m n k hda hdb
  refine ⟨c, e, hdc, wc, ?_⟩
  intro pre i j hv hi hj
  rw [hget pre i j hv hi hj]
  congr 1
  exact foldl_add_range (fun p => el a (pre ++ [i, p]) * el b (pre ++ [p, j])) n

/-- **MatMul, first operand: the rule is the adjoint of `dA ↦ dA·B`** (over ℝ, every common batch shape, all sizes):
    `⟨dA·B, G⟩ = ⟨dA, G·Bᵀ⟩`. -/
theorem adjoint_matmulA (bm : BMode) (H : Heap ℝ) (b : Nat) (dA G Y r : Tensor ℝ) (bd : List Nat) (m n k : Nat)
    (wd : dA.WF) (hdd : dA.dims = bd ++ [m, n]) (wB : (H.val b).WF) (hdB : (H.val b).dims = bd ++ [n, k])
    (wG : G.WF) (hdG : G.dims = bd ++ [m, k])
    (hf : vMatMul dA (H.val b) = .ok Y) (hr : evalRule bm H G (.matmulA b) = .ok r) :
    inner Y G = inner dA r := by
  have hbd : ∀ d ∈ bd, 0 < d := fun d hd => wd.2 d (by rw [hdd]; simp [hd])
  obtain ⟨Y', eY, hdY, wY, hY⟩ := vMatMul_get_real dA (H.val b) wd wB bd m n k hdd hdB
  rw [hf] at eY; injection eY with eY; subst eY
  obtain ⟨r', er, hdr, wr, hR⟩ := rule_matmulA_real bm H G b bd m n k wG wB hdG hdB
  rw [hr] at er; injection er with er; subst er
  rw [inner_batch2 Y G bd m k wY hdY hdG, inner_batch2 dA r bd m n wd hdd hdr]
  apply Finset.sum_congr rfl
  intro q _
  have hv := valid_idxOf hbd q
  apply Finset.sum_congr rfl
  intro i hi
  have hi' := Finset.mem_range.mp hi
  have e1 : ∀ j ∈ Finset.range k, (Y.at? (idxOf bd q ++ [i, j])).getD 0 * (G.at? (idxOf bd q ++ [i, j])).getD 0
      = ∑ p ∈ Finset.range n, el dA (idxOf bd q ++ [i, p]) * el (H.val b) (idxOf bd q ++ [p, j])
          * el G (idxOf bd q ++ [i, j]) := by
    intro j hj
    rw [hY _ i j hv hi' (Finset.mem_range.mp hj), Option.getD_some, Finset.sum_mul, el_real G]
  have e2 : ∀ p ∈ Finset.range n, (dA.at? (idxOf bd q ++ [i, p])).getD 0 * (r.at? (idxOf bd q ++ [i, p])).getD 0
      = ∑ j ∈ Finset.range k, el dA (idxOf bd q ++ [i, p]) * el (H.val b) (idxOf bd q ++ [p, j])
          * el G (idxOf bd q ++ [i, j]) := by
    intro p hp
    rw [hR _ i p hv hi' (Finset.mem_range.mp hp), Option.getD_some, Finset.mul_sum, ← el_real dA]
    apply Finset.sum_congr rfl
    intro j _; ring
  rw [Finset.sum_congr rfl e1, Finset.sum_congr rfl e2, Finset.sum_comm]

/-- **MatMul, second operand: the rule is the adjoint of `dB ↦ A·dB`** (over ℝ, every common batch shape, all sizes):
    `⟨A·dB, G⟩ = ⟨dB, Aᵀ·G⟩`. -/
theorem adjoint_matmulB (bm : BMode) (H : Heap ℝ) (a : Nat) (dB G Y r : Tensor ℝ) (bd : List Nat) (m n k : Nat)
    (wd : dB.WF) (hdd : dB.dims = bd ++ [n, k]) (wA : (H.val a).WF) (hdA : (H.val a).dims = bd ++ [m, n])
    (wG : G.WF) (hdG : G.dims = bd ++ [m, k])
    (hf : vMatMul (H.val a) dB = .ok Y) (hr : evalRule bm H G (.matmulB a) = .ok r) :
    inner Y G = inner dB r := by
  have hbd : ∀ d ∈ bd, 0 < d := fun d hd => wd.2 d (by rw [hdd]; simp [hd])
  obtain ⟨Y', eY, hdY, wY, hY⟩ := vMatMul_get_real (H.val a) dB wA wd bd m n k hdA hdd
  rw [hf] at eY; injection eY with eY; subst eY
  obtain ⟨r', er, hdr, wr, hR⟩ := rule_matmulB_real bm H G a bd m n k wG wA hdG hdA
  rw [hr] at er; injection er with er; subst er
  rw [inner_batch2 Y G bd m k wY hdY hdG, inner_batch2 dB r bd n k wd hdd hdr]
  apply Finset.sum_congr rfl
  intro q _
  have hv := valid_idxOf hbd q
  have e1 : ∀ i ∈ Finset.range m, ∑ j ∈ Finset.range k,
        (Y.at? (idxOf bd q ++ [i, j])).getD 0 * (G.at? (idxOf bd q ++ [i, j])).getD 0
      = ∑ j ∈ Finset.range k, ∑ p ∈ Finset.range n, el (H.val a) (idxOf bd q ++ [i, p]) * el dB (idxOf bd q ++ [p, j])
          * el G (idxOf bd q ++ [i, j]) := by
    intro i hi
    apply Finset.sum_congr rfl
    intro j hj
    rw [hY _ i j hv (Finset.mem_range.mp hi) (Finset.mem_range.mp hj), Option.getD_some, Finset.sum_mul, el_real G]
  have e2 : ∀ p ∈ Finset.range n, ∑ j ∈ Finset.range k,
        (dB.at? (idxOf bd q ++ [p, j])).getD 0 * (r.at? (idxOf bd q ++ [p, j])).getD 0
      = ∑ j ∈ Finset.range k, ∑ i ∈ Finset.range m, el (H.val a) (idxOf bd q ++ [i, p]) * el dB (idxOf bd q ++ [p, j])
          * el G (idxOf bd q ++ [i, j]) := by
    intro p hp
    apply Finset.sum_congr rfl
    intro j hj
    rw [hR _ p j hv (Finset.mem_range.mp hp) (Finset.mem_range.mp hj), Option.getD_some, Finset.mul_sum, ← el_real dB]
    apply Finset.sum_congr rfl
    intro i _; ring
  rw [Finset.sum_congr rfl e1, Finset.sum_congr rfl e2]
  -- Σ_i Σ_j Σ_p = Σ_p Σ_j Σ_i
  rw [Finset.sum_comm]
  have e3 : ∀ j ∈ Finset.range k, ∑ i ∈ Finset.range m, ∑ p ∈ Finset.range n,
        el (H.val a) (idxOf bd q ++ [i, p]) * el dB (idxOf bd q ++ [p, j]) * el G (idxOf bd q ++ [i, j])
      = ∑ p ∈ Finset.range n, ∑ i ∈ Finset.range m,
        el (H.val a) (idxOf bd q ++ [i, p]) * el dB (idxOf bd q ++ [p, j]) * el G (idxOf bd q ++ [i, j]) :=
    fun j _ => Finset.sum_comm
  rw [Finset.sum_congr rfl e3, Finset.sum_comm]

/-- the plain-matrix case (`bd = []`) in double-sum form: for `m × n`, `n × k` matrices and an `m × k` upstream gradient
    the pairing `inner` is `Σ_i Σ_j`, and both adjoint identities hold -/
theorem adjoint_matmul_rank2 (bm : BMode) (H : Heap ℝ) (a b : Nat) (dA dB G YA YB rA rB : Tensor ℝ) (m n k : Nat)
    (wA : (H.val a).WF) (hdA : (H.val a).dims = [m, n]) (wB : (H.val b).WF) (hdB : (H.val b).dims = [n, k])
    (wdA : dA.WF) (hddA : dA.dims = [m, n]) (wdB : dB.WF) (hddB : dB.dims = [n, k])
    (wG : G.WF) (hdG : G.dims = [m, k])
    (hfA : vMatMul dA (H.val b) = .ok YA) (hrA : evalRule bm H G (.matmulA b) = .ok rA)
    (hfB : vMatMul (H.val a) dB = .ok YB) (hrB : evalRule bm H G (.matmulB a) = .ok rB) :
    inner YA G = inner dA rA ∧ inner YB G = inner dB rB :=
  ⟨adjoint_matmulA bm H b dA G YA rA [] m n k wdA hddA wB hdB wG hdG hfA hrA,
   adjoint_matmulB bm H a dB G YB rB [] m n k wdB hddB wA hdA wG hdG hfB hrB⟩

/-! ## 2. Dot -/

theorem compatLE_self : ∀ l : List Nat, C03x.compatLE l l = true
  | [] => rfl
  | a :: l => by simp [C03x.compatLE, compatLE_self l]

/-- row-major position of the element `[pre…, p]` of a tensor of dims `bd ++ [n]` -/
theorem at?_batch1 (t : Tensor α) (bd : List Nat) (n : Nat) (hd : t.dims = bd ++ [n]) {pre : List Nat} {p : Nat}
    (hv : Valid bd pre) (hp : p < n) :
    t.at? (pre ++ [p]) = t.data[posOf bd pre * n + p]? := by
  have hidx : Valid t.dims (pre ++ [p]) := by rw [hd]; exact valid_app hv (.cons hp .nil)
  rw [C04x.at?_eq_data t hidx, hd]
  have e1 : (bd ++ [n]).reverse = n :: bd.reverse := by simp
  have e2 : (pre ++ [p]).reverse = p :: pre.reverse := by simp
  rw [e1, e2]
  congr 1
  simp only [val, posOf]
  ring

section dot
variable [Scalar α]

/-- **`gradtrack.Dot`: `gradFn = y.Gradient().UnSqueeze(rank).Mul(other)`.** -/
theorem rule_dot (bm : BMode) (H : Heap α) (gy : Tensor α) (o : Nat) (bd : List Nat) (n : Nat)
    (wg : gy.WF) (wo : (H.val o).WF) (hdg : gy.dims = bd) (hdo : (H.val o).dims = bd ++ [n]) :
    ∃ r, evalRule bm H gy (.dotG o) = .ok r ∧ r.dims = bd ++ [n] ∧ r.WF ∧
      ∀ pre p, Valid bd pre → p < n →
        r.at? (pre ++ [p]) = some (Scalar.mul (el gy pre) (el (H.val o) (pre ++ [p]))) := by
  have hn : 0 < n := wo.2 n (by rw [hdo]; simp)
  -- UnSqueeze at the rank: dims `bd ++ [1]`, same data
  have hvu : validUnSqueeze (gy.dims.length : Int) gy.dims = true := by
    simp only [validUnSqueeze, Bool.and_eq_true, decide_eq_true_eq]; omega
  have hun : unsqueezeDims gy.dims.length gy.dims = bd ++ [1] := by
    unfold unsqueezeDims; rw [hdg]; simp
  have hu : vUnSqueeze gy (gy.dims.length : Int) = .ok ⟨bd ++ [1], gy.data⟩ := by
    unfold vUnSqueeze
    rw [if_pos hvu, Int.toNat_natCast, C06.unsqueeze_data gy wg, hun]
    rfl
  have wg' : (⟨bd ++ [1], gy.data⟩ : Tensor α).WF := by
    refine ⟨?_, ?_⟩
    · show gy.data.length = prod (bd ++ [1])
      rw [prod_append, wg.1, hdg]; simp [prod]
    · intro d hd
      simp only [List.mem_append, List.mem_cons, List.not_mem_nil, or_false] at hd
      rcases hd with hd | hd
      · exact wg.2 d (by rw [hdg]; exact hd)
      · omega
  have hcompat : C03x.compat (bd ++ [1]) (H.val o).dims = true := by
    rw [hdo]
    simp [C03x.compat, C03x.compatLE, compatLE_self]
  obtain ⟨r, er⟩ := (C03x.arith_total .mul ⟨bd ++ [1], gy.data⟩ (H.val o) wg' wo).1 hcompat
  obtain ⟨hrd, wr⟩ := C03x.arith_result_dims .mul _ _ r wg' wo er
  have htd : targetBroadcastDims (bd ++ [1]) (bd ++ [n]) = bd ++ [n] := by
    have : ¬ 1 > n := by omega
    simp [targetBroadcastDims, targetBroadcastLE, targetBroadcastLE_self, this]
  have hrd' : r.dims = bd ++ [n] := by rw [hrd, hdo]; exact htd
  refine ⟨r, ?_, hrd', wr, ?_⟩
  · simp only [evalRule, bind, Out.bind, hu]; exact er
  · intro pre p hv hp
    have hu' : Valid r.dims.reverse (p :: pre.reverse) := by
      rw [hrd']
      have := C04x.valid_reverse (valid_app hv (Valid.cons hp Valid.nil))
      simpa using this
    obtain ⟨x, y, hx, hy, hr⟩ := C03x.arith_get .mul _ _ r wg' wo er _ hu'
    have e0 : (p :: pre.reverse).reverse = pre ++ [p] := by simp
    rw [e0] at hr
    rw [hr]
    have hl : pre.reverse.length = bd.reverse.length := by simp [hv.length_eq]
    -- the second operand is read at the same index
    have hy' : (H.val o).at? (pre ++ [p]) = some y := by
      rw [← hy, hrd', hdo]
      have : (bd ++ [n]).reverse = n :: bd.reverse := by simp
      rw [this, projLE_self _ _ (by simp [hl])]
      simp
    -- the first at `pre ++ [0]`, which is `gy` at `pre`
    have hx' : gy.at? pre = some x := by
      rw [← hx, hrd']
      have e1 : (bd ++ [n]).reverse = n :: bd.reverse := by simp
      have e2 : (bd ++ [1]).reverse = 1 :: bd.reverse := by simp
      simp only [e1, e2, projLE, projLE_self _ _ hl]
      have hp0 : (if 1 = n then p else 0) = 0 := by
        split
        · omega
        · rfl
      rw [hp0]
      have hv0 : Valid (⟨bd ++ [1], gy.data⟩ : Tensor α).dims (pre ++ [0]) :=
        valid_app hv (Valid.cons (by omega) Valid.nil)
      have e3 : (0 :: pre.reverse).reverse = pre ++ [0] := by simp
      rw [e3, C04x.at?_eq_data _ hv0, C04x.at?_eq_data gy (by rw [hdg]; exact hv), hdg]
      simp only [e2]
      congr 1
      have : (pre ++ [0]).reverse = 0 :: pre.reverse := by simp
      rw [this]
      simp [val]
    unfold el
    rw [hx', hy']
    rfl

/-- the public `Dot` on operands of equal shape `bd ++ [n]` -/
theorem vDot_get (a b : Tensor α) (ha : a.WF) (hb : b.WF) (bd : List Nat) (n : Nat)
    (hda : a.dims = bd ++ [n]) (hdb : b.dims = bd ++ [n]) :
    ∃ c, vDot a b = .ok c ∧ c.dims = bd ∧ c.WF ∧
      ∀ pre, Valid bd pre →
        c.at? pre = some ((List.range n).foldl
          (fun s p => Scalar.add s (Scalar.mul (el a (pre ++ [p])) (el b (pre ++ [p])))) Scalar.zero) := by
  have hbd : ∀ d ∈ bd, 0 < d := fun d hd => ha.2 d (by rw [hda]; simp [hd])
  have hn : 0 < n := ha.2 n (by rw [hda]; simp)
  obtain ⟨da, xa⟩ := a
  obtain ⟨db, xb⟩ := b
  simp only at hda hdb
  subst hda
  subst hdb
  obtain ⟨data, e, hlen, hget⟩ := C04.dot_get bd n xa xb hbd hn ha.1 hb.1
    (fun pre p => el (⟨bd ++ [n], xa⟩ : Tensor α) (pre ++ [p]))
    (fun pre p => el (⟨bd ++ [n], xb⟩ : Tensor α) (pre ++ [p]))
    (fun pre p hv hp => at?_el _ ha (valid_app hv (.cons hp .nil)))
    (fun pre p hv hp => at?_el _ hb (valid_app hv (.cons hp .nil)))
  refine ⟨⟨bd, data⟩, ?_, rfl, ⟨hlen, hbd⟩, hget⟩
  have hvd : validDot (bd ++ [n]) (bd ++ [n]) = true := by simp [validDot]
  unfold vDot
  rw [if_pos hvd]
  simp only [vBroadcastPair, bind, Out.bind, targetBroadcastDims_self]
  rw [vBroadcastN_self ⟨bd ++ [n], xa⟩ ha]
  simp only []
  rw [vBroadcastN_self ⟨bd ++ [n], xb⟩ hb]
  simp only [pure, e, Out.ofOpt]

end dot

/-- **Dot rule over ℝ**: `rule(g)[b…, p] = g[b…] · other[b…, p]` -/
theorem rule_dot_real (bm : BMode) (H : Heap ℝ) (gy : Tensor ℝ) (o : Nat) (bd : List Nat) (n : Nat)
    (wg : gy.WF) (wo : (H.val o).WF) (hdg : gy.dims = bd) (hdo : (H.val o).dims = bd ++ [n]) :
    ∃ r, evalRule bm H gy (.dotG o) = .ok r ∧ r.dims = bd ++ [n] ∧ r.WF ∧
      ∀ pre p, Valid bd pre → p < n → r.at? (pre ++ [p]) = some (el gy pre * el (H.val o) (pre ++ [p])) :=
  rule_dot bm H gy o bd n wg wo hdg hdo

/-- forward Dot over ℝ in sum form -/
theorem vDot_get_real (a b : Tensor ℝ) (ha : a.WF) (hb : b.WF) (bd : List Nat) (n : Nat)
    (hda : a.dims = bd ++ [n]) (hdb : b.dims = bd ++ [n]) :
    ∃ c, vDot a b = .ok c ∧ c.dims = bd ∧ c.WF ∧
      ∀ pre, Valid bd pre → c.at? pre = some (∑ p ∈ Finset.range n, el a (pre ++ [p]) * el b (pre ++ [p])) := by
  obtain ⟨c, e, hdc, wc, hget⟩ := vDot_get a b ha hb bd n hda hdb
  refine ⟨c, e, hdc, wc, ?_⟩
  intro pre hv
  rw [hget pre hv]
  congr 1
  exact foldl_add_range (fun p => el a (pre ++ [p]) * el b (pre ++ [p])) n

/-- the pairing of two tensors of dims `bd ++ [n]` as a sum over batch position and last coordinate -/
theorem inner_batch1 (a b : Tensor ℝ) (bd : List Nat) (n : Nat) (wa : a.WF) (hda : a.dims = bd ++ [n])
    (hdb : b.dims = bd ++ [n]) :
    inner a b = ∑ q ∈ Finset.range (prod bd), ∑ p ∈ Finset.range n,
      (a.at? (idxOf bd q ++ [p])).getD 0 * (b.at? (idxOf bd q ++ [p])).getD 0 := by
  have hbd : ∀ d ∈ bd, 0 < d := fun d hd => wa.2 d (by rw [hda]; simp [hd])
  unfold inner
  have hp : prod a.dims = prod bd * n := by rw [hda, prod_append]; simp [prod]
  rw [hp, sum_range_mul]
  apply Finset.sum_congr rfl
  intro q hq
  apply Finset.sum_congr rfl
  intro p hp'
  have hv := valid_idxOf hbd q
  rw [at?_batch1 a bd n hda hv (Finset.mem_range.mp hp'), at?_batch1 b bd n hdb hv (Finset.mem_range.mp hp'),
    posOf_idxOf hbd (Finset.mem_range.mp hq)]

/-- the pairing of two tensors of dims `bd` as a sum over batch positions -/
theorem inner_batch0 (a b : Tensor ℝ) (bd : List Nat) (wa : a.WF) (wb : b.WF) (hda : a.dims = bd) (hdb : b.dims = bd) :
    inner a b = ∑ q ∈ Finset.range (prod bd), (a.at? (idxOf bd q)).getD 0 * (b.at? (idxOf bd q)).getD 0 := by
  unfold inner
  rw [hda]
  apply Finset.sum_congr rfl
  intro q hq
  have h1 := C02x.at?_idxOf a wa (by rw [hda]; exact Finset.mem_range.mp hq)
  have h2 := C02x.at?_idxOf b wb (by rw [hdb]; exact Finset.mem_range.mp hq)
  rw [hda] at h1
  rw [hdb] at h2
  rw [h1, h2]

/-- **Dot: the rule is the adjoint of `da ↦ Dot(da, other)`** (over ℝ, every leading shape, all sizes):
    `⟨Dot(da, other), g⟩ = ⟨da, g.UnSqueeze(rank) · other⟩`. -/
theorem adjoint_dot (bm : BMode) (H : Heap ℝ) (o : Nat) (da g y r : Tensor ℝ) (bd : List Nat) (n : Nat)
    (wd : da.WF) (hdd : da.dims = bd ++ [n]) (wo : (H.val o).WF) (hdo : (H.val o).dims = bd ++ [n])
    (wg : g.WF) (hdg : g.dims = bd)
    (hf : vDot da (H.val o) = .ok y) (hr : evalRule bm H g (.dotG o) = .ok r) :
    inner y g = inner da r := by
  have hbd : ∀ d ∈ bd, 0 < d := fun d hd => wd.2 d (by rw [hdd]; simp [hd])
  obtain ⟨y', ey, hdy, wy, hY⟩ := vDot_get_real da (H.val o) wd wo bd n hdd hdo
  rw [hf] at ey; injection ey with ey; subst ey
  obtain ⟨r', er, hdr, wr, hR⟩ := rule_dot_real bm H g o bd n wg wo hdg hdo
  rw [hr] at er; injection er with er; subst er
  rw [inner_batch0 y g bd wy wg hdy hdg, inner_batch1 da r bd n wd hdd hdr]
  apply Finset.sum_congr rfl
  intro q _
  have hv := valid_idxOf hbd q
  rw [hY _ hv, Option.getD_some, Finset.sum_mul]
  apply Finset.sum_congr rfl
  intro p hp
  rw [hR _ p hv (Finset.mem_range.mp hp), Option.getD_some, ← el_real da, ← el_real g]
  ring

/-! ### non-vacuity of parts 1 and 2 (kernel-checked on the `Scalar Int` instance) -/

/-- node 0: a 2×3 matrix `A`; node 1: a 3×2 matrix `B`; node 2: a vector of length 3 -/
def exHeap : Heap Int :=
  #[⟨⟨[2, 3], [1, 2, 3, 4, 5, 6]⟩, {}⟩, ⟨⟨[3, 2], [7, 8, 9, 10, 11, 12]⟩, {}⟩, ⟨⟨[3], [4, 5, 6]⟩, {}⟩]

/-- MatMul rules on `G = [[1,2],[3,4]]`: `G·Bᵀ` (2×3) and `Aᵀ·G` (3×2) -/
example : evalRule .sum exHeap ⟨[2, 2], [1, 2, 3, 4]⟩ (.matmulA 1) = .ok ⟨[2, 3], [23, 29, 35, 53, 67, 81]⟩ ∧
    evalRule .sum exHeap ⟨[2, 2], [1, 2, 3, 4]⟩ (.matmulB 0) = .ok ⟨[3, 2], [13, 18, 17, 24, 21, 30]⟩ := by decide

/-- Dot rule: scalar-shaped upstream `2` against the vector (node 2); upstream `[10, 100]` against the rows of node 0 -/
example : evalRule .sum exHeap ⟨[], [2]⟩ (.dotG 2) = .ok ⟨[3], [8, 10, 12]⟩ ∧
    evalRule .sum exHeap ⟨[2], [10, 100]⟩ (.dotG 0) = .ok ⟨[2, 3], [10, 20, 30, 400, 500, 600]⟩ := by decide

/-! ## 4. MaxAlong / MinAlong -/

/-- element of an element-wise combination of two tensors of equal dims -/
theorem at?_zip (f : α → α → α) (a b : Tensor α) (hd : a.dims = b.dims) {i : List Nat} (hv : Valid a.dims i) {x y : α}
    (hx : a.at? i = some x) (hy : b.at? i = some y) :
    (⟨a.dims, List.zipWith f a.data b.data⟩ : Tensor α).at? i = some (f x y) := by
  rw [C04x.at?_eq_data a hv] at hx
  rw [C04x.at?_eq_data b (by rw [← hd]; exact hv), ← hd] at hy
  rw [C04x.at?_eq_data (⟨a.dims, List.zipWith f a.data b.data⟩ : Tensor α) hv]
  simp [List.getElem?_zipWith, hx, hy]

section ext
variable [Scalar α]

/-- **`gradtrack.MaxAlong` / `MinAlong`: `gradFn = reducerBroadcasted(gy, x, dim).Mul(x.Eq(reducerBroadcasted(y, x, dim)))`** —
    what the Model computes, for every rank, every `dim`, all sizes and any scalar domain. -/
theorem rule_extAlong (bm : BMode) (H : Heap α) (gy : Tensor α) (x y dim : Nat) (wx : (H.val x).WF)
    (hdim : dim < (H.val x).dims.length) (wg : gy.WF) (hdg : gy.dims = squeezeDims dim (H.val x).dims)
    (wy : (H.val y).WF) (hdy : (H.val y).dims = squeezeDims dim (H.val x).dims) :
    ∃ r, evalRule bm H gy (.extAlongX x y dim) = .ok r ∧ r.dims = (H.val x).dims ∧ r.WF ∧
      ∀ i, Valid (H.val x).dims i →
        r.at? i = some (Scalar.mul (el gy (i.eraseIdx dim))
          (Scalar.ofBool (Scalar.near (el (H.val x) i) (el (H.val y) (i.eraseIdx dim))))) := by
  obtain ⟨gyb, e1, d1, w1, g1⟩ := C02x.reducerBroadcasted_get gy (H.val x).dims dim wx.2 hdim wg hdg
  obtain ⟨yb, e2, d2, w2, g2⟩ := C02x.reducerBroadcasted_get (H.val y) (H.val x).dims dim wx.2 hdim wy hdy
  have wgx := zip_wf Cmp.eq.fn (H.val x) yb wx w2 d2.symm
  have e3 := vCmp_same .eq (H.val x) yb wx w2 d2.symm
  have e4 := vArith_same .mul gyb ⟨(H.val x).dims, List.zipWith Cmp.eq.fn (H.val x).data yb.data⟩ w1 wgx d1
  refine ⟨⟨gyb.dims, List.zipWith Arith.mul.fn gyb.data (List.zipWith Cmp.eq.fn (H.val x).data yb.data)⟩, ?_, d1,
    zip_wf Arith.mul.fn gyb _ w1 wgx d1, ?_⟩
  · simp only [evalRule, bind, Out.bind, e1, e2, e3]; exact e4
  · intro i hi
    have hve := C02x.valid_eraseIdx dim hdim hi
    have hxi := at?_el (H.val x) wx hi
    have hyb : yb.at? i = some (el (H.val y) (i.eraseIdx dim)) := by
      rw [g2 i hi]; exact at?_el (H.val y) wy (by rw [hdy]; exact hve)
    have hgb : gyb.at? i = some (el gy (i.eraseIdx dim)) := by
      rw [g1 i hi]; exact at?_el gy wg (by rw [hdg]; exact hve)
    have hgx := at?_zip Cmp.eq.fn (H.val x) yb d2.symm hi hxi hyb
    have hi' : Valid gyb.dims i := by rw [d1]; exact hi
    exact at?_zip Arith.mul.fn gyb ⟨(H.val x).dims, List.zipWith Cmp.eq.fn (H.val x).data yb.data⟩ d1 hi' hgb hgx

end ext

/-! ### rank-1 operands along dim 0 -/

theorem at?_rank1 (n : Nat) (d : List α) (p : Nat) (hp : p < n) : (⟨[n], d⟩ : Tensor α).at? [p] = d[p]? := by
  simp [Tensor.at?, offset, hp, prod]

theorem at?_rank0 (d : List α) : (⟨[], d⟩ : Tensor α).at? [] = d[0]? := by
  simp [Tensor.at?, offset]

/-- a well-formed rank-1 tensor whose elements are `F` of the elements of a list `xs` of the same length -/
theorem rank1_eq_map (r : Tensor α) (n : Nat) (xs : List α) (F : α → α) (wr : r.WF) (hd : r.dims = [n])
    (hl : xs.length = n) (h : ∀ p (hp : p < n), r.at? [p] = some (F (xs[p]'(by omega)))) : r = ⟨[n], xs.map F⟩ := by
  obtain ⟨rd, rdata⟩ := r
  simp only at hd
  subst hd
  congr 1
  have hlen : rdata.length = n := by have := wr.1; simpa [prod] using this
  apply List.ext_getElem?
  intro p
  by_cases hp : p < n
  · have := h p hp
    rw [at?_rank1 n rdata p hp] at this
    rw [this, List.getElem?_map, List.getElem?_eq_getElem (by omega)]
    rfl
  · rw [List.getElem?_eq_none (by omega), List.getElem?_eq_none (by simp; omega)]

section ext1
variable [Scalar α]

/-- **MaxAlong / MinAlong rule, rank-1 operand along dim 0** (the fibre is the whole vector): with `g` the upstream
    gradient (scalar-shaped) and `m` the value stored in the forward result `y`, the closure returns the vector
    `[g · Eq(x_p, m)]_p`, `Eq(a, b) = 1` if `|a − b| ≤ 1e-240` (`Scalar.near`) else `0`. -/
theorem rule_extAlong_rank1 (bm : BMode) (H : Heap α) (x y n : Nat) (g m : α) (wx : (H.val x).WF)
    (hdx : (H.val x).dims = [n]) (hy : H.val y = ⟨[], [m]⟩) :
    evalRule bm H ⟨[], [g]⟩ (.extAlongX x y 0)
      = .ok ⟨[n], (H.val x).data.map (fun v => Scalar.mul g (Scalar.ofBool (Scalar.near v m)))⟩ := by
  have wg : (⟨[], [g]⟩ : Tensor α).WF := ⟨rfl, by simp⟩
  have wy : (H.val y).WF := by rw [hy]; exact ⟨rfl, by simp⟩
  have hsq : squeezeDims 0 (H.val x).dims = [] := by rw [hdx]; rfl
  obtain ⟨r, e, hdr, wr, hget⟩ := rule_extAlong bm H ⟨[], [g]⟩ x y 0 wx (by rw [hdx]; simp) wg hsq.symm wy
    (by rw [hy, hsq])
  rw [e]
  congr 1
  have hl : (H.val x).data.length = n := by have := wx.1; rw [hdx] at this; simpa [prod] using this
  apply rank1_eq_map r n (H.val x).data _ wr (by rw [hdr, hdx]) hl
  intro p hp
  have hv : Valid (H.val x).dims [p] := by rw [hdx]; exact .cons hp .nil
  rw [hget [p] hv]
  have e1 : el (⟨[], [g]⟩ : Tensor α) ([p].eraseIdx 0) = g := by simp [el, at?_rank0]
  have e2 : el (H.val y) ([p].eraseIdx 0) = m := by rw [hy]; simp [el, at?_rank0]
  have e3 : el (H.val x) [p] = (H.val x).data[p]'(by omega) := by
    unfold el
    rw [C04x.at?_eq_data (H.val x) hv, hdx]
    have hp' : p < (H.val x).data.length := by omega
    simp [val, List.getElem?_eq_getElem hp']
  rw [e1, e2, e3]

/-- the forward `MaxAlong(0)` / `MinAlong(0)` … of a rank-1 tensor: a scalar-shaped tensor holding the whole-tensor statistic -/
theorem along_rank1_fwd (rd : Reducer) (t : Tensor α) (n : Nat) (wt : t.WF) (hd : t.dims = [n]) :
    vAlong rd t 0 = .ok ⟨[], [rd.fn ⟨[n], t.data⟩]⟩ := by
  obtain ⟨td, tdata⟩ := t
  simp only at hd
  subst hd
  have hl : tdata.length = n := by have := wt.1; simpa [prod] using this
  obtain ⟨data', e, hlen, hspec⟩ := reduceDim_spec (⟨[n], tdata⟩ : Tensor α) wt 0 (by simp) rd.fn
  have hsq : squeezeDims 0 [n] = [] := rfl
  simp only [hsq] at e hlen hspec
  have hlen' : data'.length = 1 := hlen
  obtain ⟨fib, hfl, hfib, hval⟩ := hspec 0 (by simp [prod])
  have hS : (insLE ([n].length - 1 - 0) 0 (iterN (incr (delLE ([n].length - 1 - 0) [n].reverse)) 0
      (zerosLike (delLE ([n].length - 1 - 0) [n].reverse)))).reverse = [0] := rfl
  simp only [hS] at hfib hval
  have hfl' : fib.length = n := hfl
  have hfd : fib = tdata := by
    apply List.ext_getElem?
    intro i
    by_cases hi : i < n
    · have := (hfib i hi).1
      rw [this]
      exact at?_rank1 n tdata i hi
    · rw [List.getElem?_eq_none (by omega), List.getElem?_eq_none (by omega)]
  have hwd : sliceDims (windowOf 0 [n] [0]) = [n] := by simp [windowOf, unitWin, sliceDims]
  rw [hwd, hfd] at hval
  have hd' : data' = [rd.fn ⟨[n], tdata⟩] := by
    match data', hlen', hval with
    | [v], _, hv => simp at hv; rw [hv]
  have hv : validDimLt 0 [n] = true := by simp [validDimLt]
  simp only [vAlong, vReduceDim, hv, if_true, Int.toNat_zero, e, Out.ofOpt, hd']

end ext1

end C02y
end Qeep
