import QeepProps.C08
import QeepProofs.Vals
/-!
# C07 — the gradient of a broadcast operand is the sum over its expanded copies

The tree VIOLATES this property (finding D2, `known_findings.json`): the `Broadcast` backward rule reduces with
`AvgAlong`. The Model carries the rule with a switch `BMode ∈ {mean, sum}`; the correspondence run shows that the
real code equals the `mean` instance on every program.

* `bcast_mean_is_not_sum` — kernel-checked witness (exact integers): `[2] → [3,2]` with an all-ones upstream gradient:
  the sum over the three copies is 3 per element, the rule with `mean` delivers 1.
* `arith_routes_through_broadcast` — Add / Sub / Mul / Div expand BOTH operands through the public `Broadcast`, so the
  rule sits on every implicit expansion (the result's back edges target the two broadcast results, whose own back
  edge is the `Broadcast` rule towards the original operand).

Not proved yet: that the `sum` instance is the vector-Jacobian product for every shape pair.
-/
set_option linter.unusedSimpArgs false

namespace Qeep
namespace C07

/-- the witness graph: x of shape [2] (tracked leaf), y = Broadcast(x, [3,2]) -/
def witness : Option (Heap Int × Nat) :=
  match ((do
      let x ← hLeaf ⟨[2], [10, 20]⟩ true
      hBroadcast x [3, 2]) : HM Int Nat) #[] with
  | .ok (y, H) => some (H, y)
  | _ => none

/-- **the rule of the tree is not the sum over the copies** (and the `sum` instance is): kernel-checked -/
theorem bcast_mean_is_not_sum :
    witness.map (fun (H, y) => (((backprop .sum H y).heap.grad 0).map Tensor.data,
                                ((backprop .mean H y).heap.grad 0).map Tensor.data))
      = some (some [3, 3], some [1, 1]) := by decide

variable {α : Type} [Scalar α]

/-- **implicit expansion goes through `Broadcast`**: a successful Add / Sub / Mul / Div allocates the broadcast of
    each operand (context: one back edge with the `Broadcast` rule towards the operand, when tracked) and its result's
    back edges target exactly those two nodes -/
theorem arith_routes_through_broadcast (o : Arith) (a b : Nat) (H H' : Heap α) (r : Nat)
    (h : hArith o a b H = .ok (r, H')) :
    ∃ a' b' Ha Hb shape,
      hBroadcast a shape H = .ok (a', Ha) ∧ hBroadcast b shape Ha = .ok (b', Hb) ∧
      Ha.ctx a' = mkCtx H [a] [⟨a, .bcastX a a'⟩] ∧ Hb.ctx b' = mkCtx Ha [b] [⟨b, .bcastX b b'⟩] ∧
      ∃ edges : List (Edge α), H'.ctx r = mkCtx Hb [a', b'] edges ∧ edges.map (·.target) = [a', b'] := by
  unfold hArith at h
  obtain ⟨p, H1, h1, h2⟩ := bind_ok h
  obtain ⟨a', b'⟩ := p
  unfold hBroadcastPair at h1
  obtain ⟨H0, H0', g0, k1⟩ := bind_ok h1
  obtain ⟨e0, e0'⟩ := getHeap_ok g0
  rw [e0, e0'] at k1
  obtain ⟨a1, Ha, g1, k2⟩ := bind_ok k1
  obtain ⟨b1, Hb, g2, k3⟩ := bind_ok k2
  have hp : (pure (a1, b1) : HM α (Nat × Nat)) Hb = .ok ((a1, b1), Hb) := rfl
  rw [hp] at k3
  injection k3 with k3
  injection k3 with e1 e2
  injection e1 with ea eb
  subst ea eb e2
  -- contexts of the two broadcast nodes
  have ca : Ha.ctx a1 = mkCtx H [a] [⟨a, .bcastX a a1⟩] := by
    unfold hBroadcast at g1
    obtain ⟨Hx, Hx', gx, kx⟩ := bind_ok g1
    obtain ⟨ex, ex'⟩ := getHeap_ok gx
    rw [ex, ex'] at kx
    obtain ⟨er, ec, _⟩ := C08.op1_ctx a _ _ H Ha a1 kx
    rw [ec, er]
  have cb : Hb.ctx b1 = mkCtx Ha [b] [⟨b, .bcastX b b1⟩] := by
    unfold hBroadcast at g2
    obtain ⟨Hx, Hx', gx, kx⟩ := bind_ok g2
    obtain ⟨ex, ex'⟩ := getHeap_ok gx
    rw [ex, ex'] at kx
    obtain ⟨er, ec, _⟩ := C08.op1_ctx b _ _ Ha Hb b1 kx
    rw [ec, er]
  obtain ⟨H3, H3', g3, k4⟩ := bind_ok h2
  obtain ⟨e3, e3'⟩ := getHeap_ok g3
  rw [e3, e3'] at k4
  obtain ⟨t, H4, g4, k5⟩ := bind_ok k4
  obtain ⟨_, e4'⟩ := liftOut_ok g4
  rw [e4'] at k5
  obtain ⟨_, _, cr, _⟩ := alloc_ok k5
  refine ⟨a1, b1, Ha, Hb, _, g1, g2, ca, cb, _, cr, ?_⟩
  cases o <;> rfl

end C07
end Qeep
