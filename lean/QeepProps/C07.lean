import QeepProps.C08
import QeepProps.C03
import QeepProofs.Vals
import QeepProofs.BcastSum
import QeepProofs.BcastCopies
/-!
# C07 — the gradient of a broadcast operand is the sum over its expanded copies

The tree VIOLATES this property (finding D2, `known_findings.json`): the `Broadcast` backward rule reduces with
`AvgAlong`. The Model carries the rule with a switch `BMode ∈ {mean, sum}`; the correspondence run shows that the
real code equals the `mean` instance on every program.

* `bcast_mean_is_not_sum` — kernel-checked witness (exact integers): `[2] → [3,2]` with an all-ones upstream gradient:
  the sum over the three copies is 3 per element, the rule with `mean` delivers 1.
* `arith_routes_through_broadcast` — Add / Sub / Mul / Div expand BOTH operands through the public `Broadcast`, so the
  rule sits on every implicit expansion (the result's back edges target the two broadcast results, whose own back
  edge is the `Broadcast` rule towards the original operand).

* `bcast_rule_sum_is_sum_over_copies` — for EVERY accepted shape pair and every upstream gradient, the rule in `sum` mode
  succeeds, delivers a gradient of the operand's own shape, and its element at `idx` is the iterated sum of the upstream
  gradient over every position `idx` was copied to (`copiesSum`: extra leading dims and expanded size-1 dims run over
  their whole range, unexpanded dims are fixed to `idx`'s coordinate) — nested in the order the code adds, so the
  statement is exact for any scalar type.
* `bcast_rule_sum_real` — over ℝ the iterated sum is the unordered sum over the duplicate-free list `copies` of exactly
  the target positions that project to `idx`; `broadcast_fills_from_projection` is the matching forward statement;
  `dot_routes_through_broadcast`, `matmul_routes_through_broadcast`: Dot and MatMul expansions carry the same rule.
* `broadcast_node_rule` — the same for the back edge of an actual `Broadcast` result in a heap (the validator hypothesis
  is discharged by the forward call having succeeded).
-/
set_option linter.unusedSimpArgs false

namespace Qeep
namespace C07

/-- the witness graph: x of shape [2] (tracked leaf), y = Broadcast(x, [3,2]) -/
def witness : Option (Heap Int × Nat) :=
  match ((do
      let x ← hLeaf ⟨[2], [10, 20]⟩ true
      hBroadcast x [3, 2]) : HM Int Nat) #[] with
  | .ok (y, H) => some (H, y)
  | _ => none

/-- **the rule of the tree is not the sum over the copies** (and the `sum` instance is): kernel-checked -/
theorem bcast_mean_is_not_sum :
    witness.map (fun (H, y) => (((backprop .sum H y).heap.grad 0).map Tensor.data,
                                ((backprop .mean H y).heap.grad 0).map Tensor.data))
      = some (some [3, 3], some [1, 1]) := by decide

variable {α : Type} [Scalar α]

/-- **implicit expansion goes through `Broadcast`**: a successful Add / Sub / Mul / Div allocates the broadcast of
    each operand (context: one back edge with the `Broadcast` rule towards the operand, when tracked) and its result's
    back edges target exactly those two nodes -/
theorem arith_routes_through_broadcast (o : Arith) (a b : Nat) (H H' : Heap α) (r : Nat)
    (h : hArith o a b H = .ok (r, H')) :
    ∃ a' b' Ha Hb shape,
      hBroadcast a shape H = .ok (a', Ha) ∧ hBroadcast b shape Ha = .ok (b', Hb) ∧
      Ha.ctx a' = mkCtx H [a] [⟨a, .bcastX a a'⟩] ∧ Hb.ctx b' = mkCtx Ha [b] [⟨b, .bcastX b b'⟩] ∧
      ∃ edges : List (Edge α), H'.ctx r = mkCtx Hb [a', b'] edges ∧ edges.map (·.target) = [a', b'] := by
  unfold hArith at h
  obtain ⟨p, H1, h1, h2⟩ := bind_ok h
  obtain ⟨a', b'⟩ := p
  unfold hBroadcastPair at h1
  obtain ⟨H0, H0', g0, k1⟩ := bind_ok h1
  obtain ⟨e0, e0'⟩ := getHeap_ok g0
  rw [e0, e0'] at k1
  obtain ⟨a1, Ha, g1, k2⟩ := bind_ok k1
  obtain ⟨b1, Hb, g2, k3⟩ := bind_ok k2
  have hp : (pure (a1, b1) : HM α (Nat × Nat)) Hb = .ok ((a1, b1), Hb) := rfl
  rw [hp] at k3
  injection k3 with k3
  injection k3 with e1 e2
  injection e1 with ea eb
  subst ea eb e2
  -- contexts of the two broadcast nodes
  have ca : Ha.ctx a1 = mkCtx H [a] [⟨a, .bcastX a a1⟩] := by
    unfold hBroadcast at g1
    obtain ⟨Hx, Hx', gx, kx⟩ := bind_ok g1
    obtain ⟨ex, ex'⟩ := getHeap_ok gx
    rw [ex, ex'] at kx
    obtain ⟨er, ec, _⟩ := C08.op1_ctx a _ _ H Ha a1 kx
    rw [ec, er]
  have cb : Hb.ctx b1 = mkCtx Ha [b] [⟨b, .bcastX b b1⟩] := by
    unfold hBroadcast at g2
    obtain ⟨Hx, Hx', gx, kx⟩ := bind_ok g2
    obtain ⟨ex, ex'⟩ := getHeap_ok gx
    rw [ex, ex'] at kx
    obtain ⟨er, ec, _⟩ := C08.op1_ctx b _ _ Ha Hb b1 kx
    rw [ec, er]
  obtain ⟨H3, H3', g3, k4⟩ := bind_ok h2
  obtain ⟨e3, e3'⟩ := getHeap_ok g3
  rw [e3, e3'] at k4
  obtain ⟨t, H4, g4, k5⟩ := bind_ok k4
  obtain ⟨_, e4'⟩ := liftOut_ok g4
  rw [e4'] at k5
  obtain ⟨_, _, cr, _⟩ := alloc_ok k5
  refine ⟨a1, b1, Ha, Hb, _, g1, g2, ca, cb, _, cr, ?_⟩
  cases o <;> rfl

/-- both broadcasting helpers (`broadcastForBinaryOp`, `broadcastForMatMul`): each operand goes through the public
    `Broadcast`, whose result carries the `Broadcast` rule as its only back edge -/
theorem pair_routes {a b : Nat} {s1 s2 : Heap α → List Int} {H H' : Heap α} {a' b' : Nat}
    (h : (do let H ← getHeap; let a' ← hBroadcast a (s1 H); let b' ← hBroadcast b (s2 H); pure (a', b') : HM α (Nat × Nat)) H
        = .ok ((a', b'), H')) :
    ∃ Ha, hBroadcast a (s1 H) H = .ok (a', Ha) ∧ hBroadcast b (s2 H) Ha = .ok (b', H') ∧
      Ha.ctx a' = mkCtx H [a] [⟨a, .bcastX a a'⟩] ∧ H'.ctx b' = mkCtx Ha [b] [⟨b, .bcastX b b'⟩] := by
  obtain ⟨H0, H0', g0, k1⟩ := bind_ok h
  obtain ⟨e0, e0'⟩ := getHeap_ok g0
  rw [e0, e0'] at k1
  obtain ⟨a1, Ha, g1, k2⟩ := bind_ok k1
  obtain ⟨b1, Hb, g2, k3⟩ := bind_ok k2
  have hp : (pure (a1, b1) : HM α (Nat × Nat)) Hb = .ok ((a1, b1), Hb) := rfl
  rw [hp] at k3
  injection k3 with k3
  injection k3 with e1 e2
  injection e1 with ea eb
  subst ea eb e2
  have ca : Ha.ctx a1 = mkCtx H [a] [⟨a, .bcastX a a1⟩] := by
    have g1' := g1
    unfold hBroadcast at g1'
    obtain ⟨Hx, Hx', gx, kx⟩ := bind_ok g1'
    obtain ⟨ex, ex'⟩ := getHeap_ok gx
    rw [ex, ex'] at kx
    obtain ⟨er, ec, _⟩ := C08.op1_ctx a _ _ H Ha a1 kx
    rw [ec, er]
  have cb : Hb.ctx b1 = mkCtx Ha [b] [⟨b, .bcastX b b1⟩] := by
    have g2' := g2
    unfold hBroadcast at g2'
    obtain ⟨Hx, Hx', gx, kx⟩ := bind_ok g2'
    obtain ⟨ex, ex'⟩ := getHeap_ok gx
    rw [ex, ex'] at kx
    obtain ⟨er, ec, _⟩ := C08.op1_ctx b _ _ Ha Hb b1 kx
    rw [ec, er]
  exact ⟨Ha, g1, g2, ca, cb⟩

/-- **Dot expands its operands through `Broadcast`**: the result's back edges target the two broadcast results -/
theorem dot_routes_through_broadcast (a b : Nat) (H H' : Heap α) (r : Nat) (h : hDot a b H = .ok (r, H')) :
    ∃ a' b' Ha Hb sa sb,
      hBroadcast a sa H = .ok (a', Ha) ∧ hBroadcast b sb Ha = .ok (b', Hb) ∧
      Ha.ctx a' = mkCtx H [a] [⟨a, .bcastX a a'⟩] ∧ Hb.ctx b' = mkCtx Ha [b] [⟨b, .bcastX b b'⟩] ∧
      H'.ctx r = mkCtx Hb [a', b'] [⟨a', .dotG b'⟩, ⟨b', .dotG a'⟩] := by
  unfold hDot at h
  obtain ⟨H0, H0', g0, k1⟩ := bind_ok h
  obtain ⟨e0, e0'⟩ := getHeap_ok g0
  rw [e0, e0'] at k1
  split at k1
  · obtain ⟨p, H1, h1, h2⟩ := bind_ok k1
    obtain ⟨a', b'⟩ := p
    obtain ⟨Ha, g1, g2, ca, cb⟩ := pair_routes
      (s1 := fun H => (targetBroadcastDims (H.val a).dims (H.val b).dims).map Int.ofNat)
      (s2 := fun H => (targetBroadcastDims (H.val a).dims (H.val b).dims).map Int.ofNat) h1
    obtain ⟨H3, H3', g3, k4⟩ := bind_ok h2
    obtain ⟨e3, e3'⟩ := getHeap_ok g3
    rw [e3, e3'] at k4
    obtain ⟨t, H4, g4, k5⟩ := bind_ok k4
    obtain ⟨_, e4'⟩ := liftOut_ok g4
    rw [e4'] at k5
    obtain ⟨_, _, cr, _⟩ := alloc_ok k5
    exact ⟨a', b', Ha, H1, _, _, g1, g2, ca, cb, cr⟩
  · simp [liftOut, Out.bind] at k1

/-- **MatMul expands its operands through `Broadcast`** (batch dims) -/
theorem matmul_routes_through_broadcast (a b : Nat) (H H' : Heap α) (r : Nat) (h : hMatMul a b H = .ok (r, H')) :
    ∃ a' b' Ha Hb sa sb,
      hBroadcast a sa H = .ok (a', Ha) ∧ hBroadcast b sb Ha = .ok (b', Hb) ∧
      Ha.ctx a' = mkCtx H [a] [⟨a, .bcastX a a'⟩] ∧ Hb.ctx b' = mkCtx Ha [b] [⟨b, .bcastX b b'⟩] ∧
      H'.ctx r = mkCtx Hb [a', b'] [⟨a', .matmulA b'⟩, ⟨b', .matmulB a'⟩] := by
  unfold hMatMul at h
  obtain ⟨H0, H0', g0, k1⟩ := bind_ok h
  obtain ⟨e0, e0'⟩ := getHeap_ok g0
  rw [e0, e0'] at k1
  split at k1
  · obtain ⟨p, H1, h1, h2⟩ := bind_ok k1
    obtain ⟨a', b'⟩ := p
    obtain ⟨Ha, g1, g2, ca, cb⟩ := pair_routes
      (s1 := fun H => (matMulShape (targetBroadcastDims (H.val a).dims (H.val b).dims) (H.val a).dims).map Int.ofNat)
      (s2 := fun H => (matMulShape (targetBroadcastDims (H.val a).dims (H.val b).dims) (H.val b).dims).map Int.ofNat) h1
    obtain ⟨H3, H3', g3, k4⟩ := bind_ok h2
    obtain ⟨e3, e3'⟩ := getHeap_ok g3
    rw [e3, e3'] at k4
    obtain ⟨t, H4, g4, k5⟩ := bind_ok k4
    obtain ⟨_, e4'⟩ := liftOut_ok g4
    rw [e4'] at k5
    obtain ⟨_, _, cr, _⟩ := alloc_ok k5
    exact ⟨a', b', Ha, H1, _, _, g1, g2, ca, cb, cr⟩
  · simp [liftOut, Out.bind] at k1

/-- **The `Broadcast` backward rule in `sum` mode is the sum over the expanded copies** — every accepted shape pair,
    every well-formed upstream gradient of the target shape. -/
theorem bcast_rule_sum_is_sum_over_copies (H : Heap α) (x y : Nat) (gy : Tensor α) (hwf : gy.WF)
    (hd : gy.dims = (H.val y).dims) (hv : validBroadcast (H.val x).dims (H.val y).dims = true) :
    ∃ g, evalRule .sum H gy (.bcastX x y) = .ok g ∧ g.WF ∧ g.dims = (H.val x).dims ∧
      ∀ idx, Valid (H.val x).dims idx → g.el idx = copiesSum (H.val x).dims (H.val y).dims idx gy := by
  unfold evalRule
  exact bcastRule_sum_spec _ _ gy hwf hd hv

/-- the rule on the back edge of an actual `Broadcast` result: the forward call having succeeded is enough -/
theorem broadcast_node_rule (x : Nat) (shape : List Int) (H H' : Heap α) (y : Nat) (hx : x < H.size) (hxw : (H.val x).WF)
    (h : hBroadcast x shape H = .ok (y, H')) (gy : Tensor α) (hwf : gy.WF) (hd : gy.dims = (H'.val y).dims) :
    (H'.val y).dims = natDims shape ∧
    ∃ g, evalRule .sum H' gy (.bcastX x y) = .ok g ∧ g.WF ∧ g.dims = (H.val x).dims ∧
      ∀ idx, Valid (H.val x).dims idx → g.el idx = copiesSum (H.val x).dims (natDims shape) idx gy := by
  obtain ⟨hv, _, hext⟩ := hBroadcast_val h
  have hvx : H'.val x = H.val x := hext.val hx
  have hvalid : validInputDims shape = true ∧ validBroadcast (H.val x).dims (natDims shape) = true := by
    apply Classical.byContradiction
    intro hn
    have := (C03.vBroadcast_total (H.val x) hxw shape).2 hn
    rw [this] at hv
    cases hv
  obtain ⟨r, hr, hrd, _⟩ := (C03.vBroadcast_total (H.val x) hxw shape).1 hvalid
  rw [hr] at hv
  have hry : H'.val y = r := by cases hv; rfl
  have hyd : (H'.val y).dims = natDims shape := by rw [hry, hrd]
  refine ⟨hyd, ?_⟩
  have := bcast_rule_sum_is_sum_over_copies H' x y gy hwf hd (by rw [hvx, hyd]; exact hvalid.2)
  rw [hvx, hyd] at this
  exact this

/-- **Over the reals: the gradient delivered to element `idx` of the operand is the sum of the upstream gradient over
    exactly the positions that element was copied to.** `copies` has no duplicates and contains precisely the valid
    target positions whose projection (`projBE`: drop the extra leading coordinates, expanded coordinates → 0) is `idx`;
    `broadcast_fills_from_projection` says the forward `Broadcast` fills position `j` from element `projBE … j`. -/
theorem bcast_rule_sum_real (H : Heap ℝ) (x y : Nat) (gy : Tensor ℝ) (hwf : gy.WF)
    (hd : gy.dims = (H.val y).dims) (hv : validBroadcast (H.val x).dims (H.val y).dims = true) :
    ∃ g, evalRule .sum H gy (.bcastX x y) = .ok g ∧ g.WF ∧ g.dims = (H.val x).dims ∧
      (∀ idx, Valid (H.val x).dims idx →
        g.el idx = ((copies (H.val x).dims (H.val y).dims idx).map gy.el).sum ∧
        (copies (H.val x).dims (H.val y).dims idx).Nodup ∧
        ∀ j, j ∈ copies (H.val x).dims (H.val y).dims idx ↔
          Valid (H.val y).dims j ∧ projBE (H.val x).dims (H.val y).dims j = idx) := by
  obtain ⟨g, h1, h2, h3, h4⟩ := bcast_rule_sum_is_sum_over_copies H x y gy hwf hd hv
  refine ⟨g, h1, h2, h3, ?_⟩
  intro idx hi
  exact ⟨by rw [h4 idx hi, copiesSum_real], copies_nodup _ _ _, fun j => mem_copies hv idx hi j⟩

/-- the forward side: `Broadcast` fills target position `j` from the operand's element `projBE src dst j` -/
theorem broadcast_fills_from_projection (x : Tensor ℝ) (hwf : x.WF) (dst : List Nat) (hpos : ∀ h ∈ dst, 0 < h)
    (hv : validBroadcast x.dims dst = true) :
    ∃ y, x.broadcastRaw dst = some y ∧ y.dims = dst ∧ y.WF ∧ ∀ j, Valid dst j → y.at? j = x.at? (projBE x.dims dst j) :=
  broadcast_el x hwf dst hpos hv

/-- non-vacuity and a reading of `copiesSum`: `[2] → [3,2]`, element 1 receives gy[0][1] + gy[1][1] + gy[2][1] -/
example : copiesSum [2] [3, 2] [1] (⟨[3, 2], [1, 10, 2, 20, 3, 30]⟩ : Tensor Int) = 60 := by decide

/-- `[2,1] → [2,3]`: element [1,0] receives the sum of row 1 -/
example : copiesSum [2, 1] [2, 3] [1, 0] (⟨[2, 3], [1, 2, 3, 10, 20, 30]⟩ : Tensor Int) = 60 := by decide

end C07
end Qeep
