import QeepProofs.Along
import QeepProofs.Real
/-!
# C05 — reductions return the defined statistic of the whole tensor or of each fibre
-/
set_option linter.unusedSimpArgs false

namespace Qeep
namespace C05
open RealScalar

variable {α : Type}

/-- **SumAlong … MeanAlong(dim)**: for every rank ≥ 1, every `dim` and all dimension sizes the public call is `ok`
    exactly when `0 ≤ dim < rank`; the result then has the operand's shape with `dim` removed, and element `j`
    (row-major) is the statistic of the `j`-th one-dimensional fibre along `dim` — never a panic. `S j` is the
    `j`-th output index with a 0 inserted at `dim` (see `reduceDim_spec`). -/
theorem along_get [Scalar α] (r : Reducer) (t : Tensor α) (hwf : t.WF) (dim : Int) :
    (validDimLt dim t.dims = true →
      let k := t.dims.length - 1 - dim.toNat
      let S := fun j => (insLE k 0 (iterN (incr (delLE k t.dims.reverse)) j (zerosLike (delLE k t.dims.reverse)))).reverse
      ∃ data', vAlong r t dim = .ok ⟨squeezeDims dim.toNat t.dims, data'⟩ ∧
        data'.length = prod (squeezeDims dim.toNat t.dims) ∧
        ∀ j, j < prod (squeezeDims dim.toNat t.dims) →
          ∃ fib : List α, fib.length = t.dims.getD dim.toNat 0 ∧
            (∀ i, i < t.dims.getD dim.toNat 0 → fib[i]? = t.at? ((S j).set dim.toNat i) ∧ (fib[i]?).isSome) ∧
            data'[j]? = some (r.fn ⟨sliceDims (windowOf dim.toNat t.dims (S j)), fib⟩)) ∧
    (validDimLt dim t.dims = false → vAlong r t dim = .err) := by
  constructor
  · intro hv k S
    have hlt : dim.toNat < t.dims.length := by
      simp only [validDimLt, Bool.and_eq_true, decide_eq_true_eq] at hv
      omega
    obtain ⟨data', h1, h2, h3⟩ := reduceDim_spec t hwf dim.toNat hlt r.fn
    exact ⟨data', by simp [vAlong, vReduceDim, hv, h1, Out.ofOpt], h2, h3⟩
  · intro hv; simp [vAlong, vReduceDim, hv]

/-- the whole-tensor reducers are left folds over the row-major element sequence, starting from the identity -/
theorem fold_def [Scalar α] (t : Tensor α) :
    t.sum = t.data.foldl Scalar.add Scalar.zero ∧ t.avg = Scalar.div t.sum (Scalar.ofNat t.numElems) ∧
    t.mean = t.avg ∧ t.std = Scalar.sqrt t.var := ⟨rfl, rfl, rfl, rfl⟩

theorem foldl_add_real (l : List ℝ) (a : ℝ) : l.foldl Scalar.add a = a + l.sum := by
  induction l generalizing a with
  | nil => simp
  | cons x xs ih =>
    rw [List.foldl_cons, ih, List.sum_cons, add_eq, add_assoc]

/-- **Sum / Avg / Mean over ℝ** -/
theorem sum_real (t : Tensor ℝ) : t.sum = t.data.sum ∧ t.avg = t.data.sum / (prod t.dims : ℝ) ∧ t.mean = t.avg := by
  have hs : t.sum = t.data.sum := by
    unfold Tensor.sum Tensor.fold
    rw [foldl_add_real, zero_eq, zero_add]
  refine ⟨hs, ?_, rfl⟩
  unfold Tensor.avg
  rw [hs, div_eq, ofNat_eq]; rfl

/-- **Var over ℝ**: the unbiased sample variance, `0` for a single element -/
theorem var_real (t : Tensor ℝ) :
    t.var = if 1 < prod t.dims then (t.data.map (fun x => (x - t.mean) ^ 2)).sum / ((prod t.dims : ℝ) - 1) else 0 := by
  have key : ∀ (l : List ℝ) (a m : ℝ), l.foldl (fun s x => Scalar.add s (Scalar.pow (Scalar.sub x m) Scalar.two)) a
      = a + (l.map (fun x => (x - m) ^ 2)).sum := by
    intro l
    induction l with
    | nil => intro a m; simp
    | cons x xs ih =>
      intro a m
      simp only [List.foldl_cons, List.map_cons, List.sum_cons, ih]
      simp only [add_eq, sub_eq, pow_eq, two_eq, Real.rpow_two]
      rw [add_assoc]
  unfold Tensor.var
  simp only [Tensor.fold, key]
  by_cases h : 1 < prod t.dims
  · have : (1 : ℝ) < (prod t.dims : ℝ) := by exact_mod_cast h
    simp [h, this, Scalar.gt, Tensor.numElems]
  · have : ¬ (1 : ℝ) < (prod t.dims : ℝ) := by
      intro h'; apply h; exact_mod_cast h'
    simp [h, this, Scalar.gt, Tensor.numElems]

/-- **Max over ℝ** (Min symmetric): the fold from an identity `b` is an upper bound of `b` and of every element
    and is attained (it is `b` or one of the elements) — hence the maximum whenever `b` is below every element, which
    holds for `math.Inf(-1)` -/
theorem max_fold_real (l : List ℝ) (b : ℝ) :
    let m := l.foldl (fun a x => if Scalar.gt a x then a else x) b
    b ≤ m ∧ (∀ x ∈ l, x ≤ m) ∧ (m = b ∨ m ∈ l) := by
  induction l generalizing b with
  | nil => simp
  | cons y ys ih =>
    simp only [List.foldl_cons]
    obtain ⟨h1, h2, h3⟩ := ih (if Scalar.gt b y then b else y)
    have hstep : b ≤ (if Scalar.gt b y then b else y) ∧ y ≤ (if Scalar.gt b y then b else y) := by
      simp only [Scalar.gt, lt_eq, decide_eq_true_eq]
      split <;> constructor <;> linarith
    refine ⟨le_trans hstep.1 h1, ?_, ?_⟩
    · intro x hx
      rcases List.mem_cons.mp hx with rfl | hx
      · exact le_trans hstep.2 h1
      · exact h2 x hx
    · rcases h3 with h3 | h3
      · rw [h3]
        simp only [Scalar.gt, lt_eq, decide_eq_true_eq]
        split
        · exact Or.inl rfl
        · exact Or.inr (by simp)
      · exact Or.inr (List.mem_cons_of_mem _ h3)

/-- non-vacuity: SumAlong on a [2,3] tensor, both dims (kernel-checked on `Int`) -/
example : (vAlong .sum (⟨[2, 3], [1, 2, 3, 4, 5, 6]⟩ : Tensor Int) 0 = .ok ⟨[3], [5, 7, 9]⟩) ∧
    (vAlong .sum (⟨[2, 3], [1, 2, 3, 4, 5, 6]⟩ : Tensor Int) 1 = .ok ⟨[2], [6, 15]⟩) := by decide

end C05
end Qeep
