import QeepProps.C15x
import QeepProps.C14y
import QeepProps.C02x
/-!
# C15, continued — Softmax along the configured dim, every rank: graph and local backward pass

`QeepProps/C15x.lean` treats Softmax on a rank-1 input. Here: input dims `P ++ n :: R`, `Dim = P.length` (every rank
`≥ 1`, every valid dim; rank 2 / `Dim = 1` is `P = [m]`, `R = []`), over `ℝ`, at index level (`Tensor.el`, index
`p ++ i :: q`).

* `softmax_graph_split` : the six tensors `actForward (.softmax dim)` allocates on a tracked, unspent input, their
  values (`s''[p,i,q] = Σ_k exp x[p,k,q]`, `r[p,i,q] = exp x[p,i,q] / Σ_k exp x[p,k,q]`) and their back edges;
* `softmax_local_vjp_split` (`BMode.sum`) : the rules along those edges map an upstream gradient `G` to
  `s[p,i,q] · (G[p,i,q] − Σ_k G[p,k,q] · s[p,k,q])`; `softmax_local_vjp_rank2` is the instance `[m, n]`, `Dim = 1`:
  `s_ij · (G_ij − Σ_k G_ik s_ik)`;
* `softmax_split_is_vjp` : that value is the product of the upstream fibre with the Jacobian `s_k (δ_kj − s_j)`
  (`C15x.d_softmax`, `C15x.softmax_jacobian_vjp`) and the partial derivative of the `G`-weighted output sum (Mathlib
  `HasDerivAt`);
* `softmax_vjp_on_graph_split`, `softmax_vjp_on_graph_rank2`, `softmax_vjp_on_graph_any` : both together on the heap the
  forward pass returns;
* `softmax_local_vjp_split_mean_partial`, `softmax_local_vjp_rank2_mean_partial` : with the library's `Broadcast` rule
  (`BMode.mean`, finding D2) the same chain delivers `s · (G − (1/n) Σ_k G_k s_k)`, which differs from the
  vector-Jacobian product at every position when `n > 1` and `Σ_k G_k s_k ≠ 0` (`softmax_mean_ne_vjp_split`).

Ingredients that are new relative to rank 1: the `Broadcast` rule `P ++ 1 :: R → P ++ n :: R` in both modes
(`bcastRule_split`, `bcast_split_el`; in `sum` mode it is the sum over the copies of `QeepProofs/BcastSum`:
`copiesSum_split`, `copiesSum_split_real`, `copiesSum_rank2`), the `Reshape` rule of `UnSqueeze` at index level
(`reshape_rule_el`), equal-shape arithmetic at index level (`arith_same_el`), the forward `Broadcast` of the
denominator at index level (`bcastN_split_el`).
-/
set_option linter.unusedSimpArgs false
set_option linter.unusedSectionVars false
set_option linter.unusedVariables false

namespace Qeep
namespace C15y
open RealScalar

/-! ## Index-level helpers -/

section Generic
variable {α : Type} [Scalar α]

/-- element of an element-wise combination of two well-formed tensors of equal dims -/
theorem zip_el (f : α → α → α) (a b : Tensor α) (ha : a.WF) (hb : b.WF) (hd : a.dims = b.dims) {u : List Nat}
    (hu : Valid a.dims u) :
    (⟨a.dims, List.zipWith f a.data b.data⟩ : Tensor α).el u = f (a.el u) (b.el u) := by
  have h1 := at?_some_el a ha hu
  have h2 := at?_some_el b hb (by rw [← hd]; exact hu)
  rw [C02x.at?_valid a hu] at h1
  rw [C02x.at?_valid b (by rw [← hd]; exact hu), ← hd] at h2
  apply C14y.el_of_at?
  rw [C02x.at?_valid (⟨a.dims, List.zipWith f a.data b.data⟩ : Tensor α) hu]
  simp only [List.getElem?_zipWith, h1, h2]

/-- arithmetic on operands of equal dims at index level -/
theorem arith_same_el (o : Arith) (a b : Tensor α) (ha : a.WF) (hb : b.WF) (hd : a.dims = b.dims) :
    ∃ r, vArith o a b = .ok r ∧ r.WF ∧ r.dims = a.dims ∧
      ∀ u, Valid a.dims u → r.el u = o.fn (a.el u) (b.el u) :=
  ⟨_, vArith_same o a b ha hb hd, zip_wf _ a b ha hb hd, rfl, fun u hu => zip_el _ a b ha hb hd hu⟩

theorem eraseIdx_split (p q : List Nat) (k : Nat) : (p ++ k :: q).eraseIdx p.length = p ++ q := by
  induction p with
  | nil => rfl
  | cons a p ih => simp only [List.cons_append, List.length_cons, List.eraseIdx_cons_succ, ih]

/-! ## The `Broadcast` rule `[P, 1, R] → [P, n, R]`, both modes -/

theorem bcastExpand_same (red : Tensor α → Int → Out (Tensor α)) (g : Tensor α) :
    ∀ (l : List Nat) (j : Nat), bcastExpand red j l l g = .ok g
  | [], j => rfl
  | a :: l, j => by
    simp only [bcastExpand, ne_eq, not_true_eq_false, if_false]
    exact bcastExpand_same red g l (j + 1)

theorem bcastExpand_prefix (red : Tensor α → Int → Out (Tensor α)) (g : Tensor α) (S D : List Nat) :
    ∀ (P : List Nat) (j : Nat), bcastExpand red j (P ++ S) (P ++ D) g = bcastExpand red (j + P.length) S D g
  | [], j => rfl
  | a :: P, j => by
    simp only [List.cons_append, bcastExpand, ne_eq, not_true_eq_false, if_false, List.length_cons]
    rw [bcastExpand_prefix red g S D P (j + 1)]
    congr 1
    omega

/-- the reducer the `Broadcast` rule uses -/
def bred (bm : BMode) : Reducer := match bm with | .mean => .avg | .sum => .sum

theorem bcastExpand_split (red : Tensor α → Int → Out (Tensor α)) (P R : List Nat) (n : Nat) (hn : 1 ≠ n) (g : Tensor α) :
    bcastExpand red 0 (P ++ 1 :: R) (P ++ n :: R) g
      = (red g (P.length : Int)).bind (fun g1 => vUnSqueeze g1 (P.length : Int)) := by
  rw [bcastExpand_prefix]
  simp only [Nat.zero_add, bcastExpand, hn, ne_eq, not_false_eq_true, if_true, bind, Out.bind]
  cases h1 : red g (P.length : Int) with
  | err => rfl
  | panic => rfl
  | ok g1 =>
    simp only []
    cases h2 : vUnSqueeze g1 (P.length : Int) with
    | err => rfl
    | panic => rfl
    | ok g2 =>
      simp only []
      exact bcastExpand_same _ g2 R _

/-- the `Broadcast` rule from `P ++ 1 :: R` to `P ++ n :: R`, `n ≠ 1`: reduce along `P.length`, re-insert the dim -/
theorem bcastRule_split (bm : BMode) (P R : List Nat) (n : Nat) (hn : 1 ≠ n) (g : Tensor α) :
    bcastRule bm (P ++ 1 :: R) (P ++ n :: R) g
      = (vAlong (bred bm) g (P.length : Int)).bind (fun g1 => vUnSqueeze g1 (P.length : Int)) := by
  have hl : (P ++ n :: R).length - (P ++ 1 :: R).length = 0 := by simp
  unfold bcastRule
  simp only [hl, bcastLead, bind, Out.bind, List.drop_zero]
  rw [bcastExpand_split _ P R n hn]
  cases bm <;> rfl

end Generic


section Generic2
variable {α : Type} [Scalar α]

/-- the `Reshape` rule from `P ++ 1 :: R` back to `P ++ R` (the rule of `UnSqueeze(P.length)`) at index level -/
theorem reshape_rule_el (bm : BMode) (H : Heap α) (s : Nat) (P R : List Nat) (g1 : Tensor α) (w1 : g1.WF)
    (d1 : g1.dims = P ++ 1 :: R) (hs : (H.val s).dims = P ++ R) :
    ∃ g2, evalRule bm H g1 (.reshapeX s) = .ok g2 ∧ g2.WF ∧ g2.dims = P ++ R ∧
      ∀ p q, Valid P p → Valid R q → g2.el (p ++ q) = g1.el (p ++ 0 :: q) := by
  have hpos : ∀ d ∈ P ++ R, 0 < d := by
    intro d hdm
    apply w1.2 d
    rw [d1]
    rcases List.mem_append.mp hdm with h | h
    · exact List.mem_append_left _ h
    · exact List.mem_append_right _ (List.mem_cons_of_mem _ h)
  have hprod : prod (P ++ R) = prod g1.dims := by
    rw [d1, prod_append, prod_append]; simp [prod]
  have h := (C06.vReshape_total g1 w1 ((P ++ R).map Int.ofNat)).1
    ⟨validInputDims_ofNat _ hpos, by rw [natDims_ofNat]; exact hprod⟩
  rw [natDims_ofNat] at h
  have w2 : (⟨P ++ R, g1.data⟩ : Tensor α).WF := ⟨by show g1.data.length = prod (P ++ R); rw [hprod]; exact w1.1, hpos⟩
  refine ⟨⟨P ++ R, g1.data⟩, by simp only [evalRule, hs]; exact h, w2, rfl, ?_⟩
  intro p q hp hq
  obtain ⟨r, e, _, dr, fr⟩ := unsqueeze_el (⟨P ++ R, g1.data⟩ : Tensor α) w2 P R rfl
  obtain ⟨hdata, _⟩ := C02x.reshape_fwd (.unsqueeze (P.length : Int)) _ r w2 e
  have hr : r = g1 := by
    cases r; cases g1
    simp only [Tensor.mk.injEq] at *
    exact ⟨dr.trans d1.symm, hdata⟩
  rw [← fr p q hp hq, hr]

end Generic2

/-! ## Over `ℝ` -/

theorem bred_fn (bm : BMode) (n : Nat) (l : List ℝ) :
    (bred bm).fn (⟨[n], l⟩ : Tensor ℝ) = C15x.bfac bm n * l.sum := by
  cases bm with
  | sum => simp only [bred, Reducer.fn, C15x.tensor_sum_eq, C15x.bfac, one_mul]
  | mean =>
    simp only [bred, Reducer.fn, Tensor.avg, C15x.tensor_sum_eq, C15x.bfac, Tensor.numElems, prod, div_eq, ofNat_eq,
      Nat.mul_one]
    rw [div_eq_mul_inv, one_div, mul_comm]

/-- **the `Broadcast` rule `[P, 1, R] → [P, n, R]` at index level**, both modes: element `(p, 0, q)` of the result is
    the sum (`sum` mode) or the average (`mean` mode, the library, finding D2) of the upstream gradient over the
    fibre `(p, k, q)`, `k < n` — the `n` positions the element was copied to. -/
theorem bcast_split_el (bm : BMode) (P R : List Nat) (n : Nat) (g : Tensor ℝ) (wg : g.WF) (dg : g.dims = P ++ n :: R) :
    ∃ r, bcastRule bm (P ++ 1 :: R) (P ++ n :: R) g = .ok r ∧ r.WF ∧ r.dims = P ++ 1 :: R ∧
      ∀ p q, Valid P p → Valid R q →
        r.el (p ++ 0 :: q) = C15x.bfac bm n * ((List.range n).map (fun k => g.el (p ++ k :: q))).sum := by
  by_cases h1 : n = 1
  · subst h1
    refine ⟨g, C13.bcastRule_same bm _ g, wg, dg, ?_⟩
    intro p q _ _
    cases bm <;> simp [C15x.bfac]
  · have hne : (1 : Nat) ≠ n := fun h => h1 h.symm
    have hdim : P.length < g.dims.length := by rw [dg]; simp
    obtain ⟨r1, e1, w1, d1, f1⟩ := C14y.along_el (bred bm) g wg P.length hdim
    rw [dg, C14y.squeeze_split] at d1 f1
    rw [C14y.getD_split] at f1
    obtain ⟨r, e2, w2, d2, f2⟩ := unsqueeze_el r1 w1 P R d1
    refine ⟨r, ?_, w2, d2, ?_⟩
    · rw [bcastRule_split bm P R n hne, e1]; exact e2
    · intro p q hp hq
      rw [f2 p q hp hq, f1 (p ++ q) (valid_app hp hq), bred_fn]
      congr 2
      apply List.map_congr_left
      intro k _
      rw [← hp.length_eq, C14y.insAt_split]


/-! ## Softmax along `dim = P.length` on an input of dims `P ++ n :: R` -/

/-- the softmax denominator on the fibre through `(p, ·, q)`: `Σ_{k<n} exp x[p,k,q]` -/
noncomputable def den (X : Tensor ℝ) (n : Nat) (p q : List Nat) : ℝ :=
  ((List.range n).map (fun k => Real.exp (X.el (p ++ k :: q)))).sum

/-- `softmax(x)` at `(p, i, q)`, along the middle position -/
noncomputable def sm (X : Tensor ℝ) (n : Nat) (p : List Nat) (i : Nat) (q : List Nat) : ℝ :=
  Real.exp (X.el (p ++ i :: q)) / den X n p q

/-- `Σ_{k<n} G[p,k,q] · softmax(x)[p,k,q]` -/
noncomputable def gdot (G X : Tensor ℝ) (n : Nat) (p q : List Nat) : ℝ :=
  ((List.range n).map (fun k => G.el (p ++ k :: q) * sm X n p k q)).sum

theorem scale_el (t : Tensor ℝ) (wt : t.WF) (c : ℝ) {u : List Nat} (hu : Valid t.dims u) :
    (vScale t c).el u = c * t.el u := by
  unfold vScale; rw [C14y.map_el _ t wt hu]; rfl

theorem pow_el (t : Tensor ℝ) (wt : t.WF) (c : ℝ) {u : List Nat} (hu : Valid t.dims u) :
    (vPow t c).el u = (t.el u) ^ c := by
  unfold vPow; rw [C14y.map_el _ t wt hu]; rfl

/-- the Softmax chain at any rank, along any dim, for either mode of the `Broadcast` rule:
    `s[p,i,q] · (G[p,i,q] − bfac · Σ_k G[p,k,q] s[p,k,q])` arrives at `x` -/
theorem softmax_chain_split (bm : BMode) (H : Heap ℝ) (x e s s' e' s'' : Nat) (P R : List Nat) (n : Nat) (G : Tensor ℝ)
    (dX : (H.val x).dims = P ++ n :: R)
    (he : H.val e = (H.val x).map Real.exp) (hs : (H.val s).dims = P ++ R) (hs' : (H.val s').dims = P ++ 1 :: R)
    (he' : H.val e' = H.val e)
    (ws'' : (H.val s'').WF) (ds'' : (H.val s'').dims = P ++ n :: R)
    (vs'' : ∀ p i q, Valid P p → i < n → Valid R q → (H.val s'').el (p ++ i :: q) = den (H.val x) n p q)
    (wX : (H.val x).WF) (wG : G.WF) (hd : G.dims = P ++ n :: R) :
    ∃ ga gb g1 g2 ce1 ce2 ge gx,
      evalRule bm H G (.divA s'') = .ok ga ∧
      evalRule bm H G (.divB e' s'') = .ok gb ∧
      evalRule bm H gb (.bcastX s' s'') = .ok g1 ∧
      evalRule bm H g1 (.reshapeX s) = .ok g2 ∧
      evalRule bm H g2 (.sumAlongX e P.length) = .ok ce1 ∧
      evalRule bm H ga (.bcastX e e') = .ok ce2 ∧
      vArith .add ce1 ce2 = .ok ge ∧
      evalRule bm H ge (.expX e) = .ok gx ∧ gx.WF ∧ gx.dims = P ++ n :: R ∧
      ∀ p i q, Valid P p → i < n → Valid R q →
        gx.el (p ++ i :: q)
          = sm (H.val x) n p i q * (G.el (p ++ i :: q) - C15x.bfac bm n * gdot G (H.val x) n p q) := by
  have hv : ∀ {p : List Nat} {i : Nat} {q : List Nat}, Valid P p → i < n → Valid R q →
      Valid (P ++ n :: R) (p ++ i :: q) := fun hp hi hq => valid_app hp (.cons hi hq)
  have wE : (H.val e).WF := by rw [he]; exact map_wf _ _ wX
  have dE : (H.val e).dims = P ++ n :: R := by rw [he]; exact dX
  have elE : ∀ u, Valid (P ++ n :: R) u → (H.val e).el u = Real.exp ((H.val x).el u) := by
    intro u hu; rw [he]; exact C14y.map_el _ _ wX (by rw [dX]; exact hu)
  have wE' : (H.val e').WF := by rw [he']; exact wE
  have dE' : (H.val e').dims = P ++ n :: R := by rw [he']; exact dE
  -- Div, towards the numerator
  obtain ⟨ga, ea, wa, da, fa⟩ := arith_same_el .div G (H.val s'') wG ws'' (by rw [hd, ds''])
  -- Div, towards the denominator
  have wn : (vScale (H.val e') (Scalar.neg Scalar.one)).WF := map_wf _ _ wE'
  have wd : (vPow (H.val s'') Scalar.two).WF := map_wf _ _ ws''
  have dn : (vScale (H.val e') (Scalar.neg Scalar.one)).dims = P ++ n :: R := dE'
  have dd : (vPow (H.val s'') Scalar.two).dims = P ++ n :: R := ds''
  obtain ⟨gb0, eb0, wb0, db0, fb0⟩ := arith_same_el .div _ _ wn wd (dn.trans dd.symm)
  obtain ⟨gb, eb, wb, db, fb⟩ := arith_same_el .mul G gb0 wG wb0 (by rw [db0, dn, hd])
  have rb : evalRule bm H G (.divB e' s'') = .ok gb := by
    simp only [evalRule, bind, Out.bind]
    rw [eb0]
    exact eb
  have fb' : ∀ p k q, Valid P p → k < n → Valid R q →
      gb.el (p ++ k :: q) = (-1 / den (H.val x) n p q) * (G.el (p ++ k :: q) * sm (H.val x) n p k q) := by
    intro p k q hp hk hq
    have hu := hv hp hk hq
    rw [fb _ (by rw [hd]; exact hu), fb0 _ (by rw [dn]; exact hu), scale_el _ wE' _ (by rw [dE']; exact hu),
      pow_el _ ws'' _ (by rw [ds'']; exact hu), vs'' p k q hp hk hq, he', elE _ hu]
    simp only [Arith.fn, mul_eq, div_eq, neg_eq, one_eq, two_eq, sm, Real.rpow_two]
    ring
  -- Broadcast rule [P,n,R] → [P,1,R]
  obtain ⟨g1, e1, w1, d1, f1⟩ := bcast_split_el bm P R n gb wb (db.trans hd)
  have r1 : evalRule bm H gb (.bcastX s' s'') = .ok g1 := by
    simp only [evalRule, hs', ds'']; exact e1
  -- Reshape rule [P,1,R] → [P,R]
  obtain ⟨g2, e2, w2, d2, f2⟩ := reshape_rule_el bm H s P R g1 w1 d1 hs
  -- SumAlong rule: replicate along the dim
  obtain ⟨ce1, e3, d3, w3, f3⟩ := C02x.rule_sumAlong bm H g2 e P.length wE (by rw [dE]; simp) w2
    (by rw [d2, dE, C14y.squeeze_split])
  have f3' : ∀ p i q, Valid P p → i < n → Valid R q → ce1.el (p ++ i :: q) = g2.el (p ++ q) := by
    intro p i q hp hi hq
    have := f3 (p ++ i :: q) (by rw [dE]; exact hv hp hi hq)
    rw [← hp.length_eq, eraseIdx_split] at this
    unfold Tensor.el; rw [this]
  -- sum at e, Exp rule
  obtain ⟨ge, e4, w4, d4, f4⟩ := arith_same_el .add ce1 ga w3 wa (by rw [d3, dE, da, hd])
  obtain ⟨gx, e5, w5, d5, f5⟩ := arith_same_el .mul ge (H.val e) w4 wE (by rw [d4, d3])
  refine ⟨ga, gb, g1, g2, ce1, ga, ge, gx, ea, rb, r1, e2, e3, C15x.r_bcast bm H ga e e' (by rw [he']), e4, e5, w5,
    by rw [d5, d4, d3, dE], ?_⟩
  intro p i q hp hi hq
  have hu := hv hp hi hq
  have hsum : ((List.range n).map (fun k => gb.el (p ++ k :: q))).sum
      = (-1 / den (H.val x) n p q) * gdot G (H.val x) n p q := by
    unfold gdot
    rw [← List.sum_map_mul_left]
    congr 1
    apply List.map_congr_left
    intro k hk
    exact fb' p k q hp (List.mem_range.mp hk) hq
  rw [f5 _ (by rw [d4, d3, dE]; exact hu), f4 _ (by rw [d3, dE]; exact hu), f3' p i q hp hi hq, f2 p q hp hq,
    f1 p q hp hq, hsum, fa _ (by rw [hd]; exact hu), vs'' p i q hp hi hq, elE _ hu]
  simp only [Arith.fn, mul_eq, div_eq, add_eq, sm]
  ring


/-- **Softmax along `dim = P.length`, input dims `P ++ n :: R` (every rank, every dim), local backward pass,
    `Broadcast` rule in `sum` mode.** Same edges as `C15x.softmax_graph`, with the shapes of the general case:
    `e = Exp(x)`, `s = SumAlong(e, dim)` (dims `P ++ R`), `s' = UnSqueeze(s, dim)` (dims `P ++ 1 :: R`),
    `e' = Broadcast(e)` (identity), `s'' = Broadcast(s')` (a genuine expansion `P ++ 1 :: R → P ++ n :: R`),
    `r = Div(e', s'')`. What arrives at `x`, at every index `(p, i, q)`:
    `s[p,i,q] · (G[p,i,q] − Σ_k G[p,k,q] · s[p,k,q])` — the product of `G` with the Jacobian
    `s_k (δ_ki − s_i)` of softmax on the fibre through `(p, ·, q)` (`softmax_split_is_vjp`). -/
theorem softmax_local_vjp_split (H : Heap ℝ) (x e s s' e' s'' : Nat) (P R : List Nat) (n : Nat) (G : Tensor ℝ)
    (dX : (H.val x).dims = P ++ n :: R)
    (he : H.val e = (H.val x).map Real.exp) (hs : (H.val s).dims = P ++ R) (hs' : (H.val s').dims = P ++ 1 :: R)
    (he' : H.val e' = H.val e)
    (ws'' : (H.val s'').WF) (ds'' : (H.val s'').dims = P ++ n :: R)
    (vs'' : ∀ p i q, Valid P p → i < n → Valid R q → (H.val s'').el (p ++ i :: q) = den (H.val x) n p q)
    (wX : (H.val x).WF) (wG : G.WF) (hd : G.dims = P ++ n :: R) :
    ∃ ga gb g1 g2 ce1 ce2 ge gx,
      evalRule .sum H G (.divA s'') = .ok ga ∧
      evalRule .sum H G (.divB e' s'') = .ok gb ∧
      evalRule .sum H gb (.bcastX s' s'') = .ok g1 ∧
      evalRule .sum H g1 (.reshapeX s) = .ok g2 ∧
      evalRule .sum H g2 (.sumAlongX e P.length) = .ok ce1 ∧
      evalRule .sum H ga (.bcastX e e') = .ok ce2 ∧
      vArith .add ce1 ce2 = .ok ge ∧
      evalRule .sum H ge (.expX e) = .ok gx ∧ gx.WF ∧ gx.dims = P ++ n :: R ∧
      ∀ p i q, Valid P p → i < n → Valid R q →
        gx.el (p ++ i :: q) = sm (H.val x) n p i q * (G.el (p ++ i :: q) - gdot G (H.val x) n p q) := by
  have key := softmax_chain_split .sum H x e s s' e' s'' P R n G dX he hs hs' he' ws'' ds'' vs'' wX wG hd
  simp only [C15x.bfac, one_mul] at key
  exact key

/-- **the same chain with the library's `Broadcast` rule (`mean` mode, finding D2)** — the strongest true statement:
    the factor `1/n` appears on the `Σ` term, so the result is NOT the vector-Jacobian product for `n > 1`
    (`softmax_mean_ne_vjp_split`). -/
theorem softmax_local_vjp_split_mean_partial (H : Heap ℝ) (x e s s' e' s'' : Nat) (P R : List Nat) (n : Nat) (G : Tensor ℝ)
    (dX : (H.val x).dims = P ++ n :: R)
    (he : H.val e = (H.val x).map Real.exp) (hs : (H.val s).dims = P ++ R) (hs' : (H.val s').dims = P ++ 1 :: R)
    (he' : H.val e' = H.val e)
    (ws'' : (H.val s'').WF) (ds'' : (H.val s'').dims = P ++ n :: R)
    (vs'' : ∀ p i q, Valid P p → i < n → Valid R q → (H.val s'').el (p ++ i :: q) = den (H.val x) n p q)
    (wX : (H.val x).WF) (wG : G.WF) (hd : G.dims = P ++ n :: R) :
    ∃ ga gb g1 g2 ce1 ce2 ge gx,
      evalRule .mean H G (.divA s'') = .ok ga ∧
      evalRule .mean H G (.divB e' s'') = .ok gb ∧
      evalRule .mean H gb (.bcastX s' s'') = .ok g1 ∧
      evalRule .mean H g1 (.reshapeX s) = .ok g2 ∧
      evalRule .mean H g2 (.sumAlongX e P.length) = .ok ce1 ∧
      evalRule .mean H ga (.bcastX e e') = .ok ce2 ∧
      vArith .add ce1 ce2 = .ok ge ∧
      evalRule .mean H ge (.expX e) = .ok gx ∧ gx.WF ∧ gx.dims = P ++ n :: R ∧
      ∀ p i q, Valid P p → i < n → Valid R q →
        gx.el (p ++ i :: q)
          = sm (H.val x) n p i q * (G.el (p ++ i :: q) - 1 / (n : ℝ) * gdot G (H.val x) n p q) :=
  softmax_chain_split .mean H x e s s' e' s'' P R n G dX he hs hs' he' ws'' ds'' vs'' wX wG hd

/-! ### rank 2, `dim = 1` (each row a fibre) -/

/-- `Σ_k exp x[i,k]` -/
noncomputable def rowDen (X : Tensor ℝ) (n i : Nat) : ℝ := ((List.range n).map (fun k => Real.exp (X.el [i, k]))).sum

/-- `softmax(x)[i,j]`, row-wise -/
noncomputable def sm2 (X : Tensor ℝ) (n i j : Nat) : ℝ := Real.exp (X.el [i, j]) / rowDen X n i

/-- `Σ_k G[i,k] · softmax(x)[i,k]` -/
noncomputable def gdot2 (G X : Tensor ℝ) (n i : Nat) : ℝ := ((List.range n).map (fun k => G.el [i, k] * sm2 X n i k)).sum

theorem rowDen_eq (X : Tensor ℝ) (n i : Nat) : rowDen X n i = den X n [i] [] := rfl
theorem sm2_eq (X : Tensor ℝ) (n i j : Nat) : sm2 X n i j = sm X n [i] j [] := rfl
theorem gdot2_eq (G X : Tensor ℝ) (n i : Nat) : gdot2 G X n i = gdot G X n [i] [] := rfl

/-- the chain on a rank-2 input `[m, n]`, Softmax along dim 1, either mode -/
theorem softmax_chain_rank2 (bm : BMode) (H : Heap ℝ) (x e s s' e' s'' : Nat) (m n : Nat) (G : Tensor ℝ)
    (dX : (H.val x).dims = [m, n])
    (he : H.val e = (H.val x).map Real.exp) (hs : (H.val s).dims = [m]) (hs' : (H.val s').dims = [m, 1])
    (he' : H.val e' = H.val e)
    (ws'' : (H.val s'').WF) (ds'' : (H.val s'').dims = [m, n])
    (vs'' : ∀ i j, i < m → j < n → (H.val s'').el [i, j] = rowDen (H.val x) n i)
    (wX : (H.val x).WF) (wG : G.WF) (hd : G.dims = [m, n]) :
    ∃ ga gb g1 g2 ce1 ce2 ge gx,
      evalRule bm H G (.divA s'') = .ok ga ∧
      evalRule bm H G (.divB e' s'') = .ok gb ∧
      evalRule bm H gb (.bcastX s' s'') = .ok g1 ∧
      evalRule bm H g1 (.reshapeX s) = .ok g2 ∧
      evalRule bm H g2 (.sumAlongX e 1) = .ok ce1 ∧
      evalRule bm H ga (.bcastX e e') = .ok ce2 ∧
      vArith .add ce1 ce2 = .ok ge ∧
      evalRule bm H ge (.expX e) = .ok gx ∧ gx.WF ∧ gx.dims = [m, n] ∧
      ∀ i j, i < m → j < n →
        gx.el [i, j] = sm2 (H.val x) n i j * (G.el [i, j] - C15x.bfac bm n * gdot2 G (H.val x) n i) := by
  obtain ⟨ga, gb, g1, g2, ce1, ce2, ge, gx, k1, k2, k3, k4, k5, k6, k7, k8, k9, k10, k11⟩ :=
    softmax_chain_split bm H x e s s' e' s'' [m] [] n G dX he hs hs' he' ws'' ds''
      (by
        intro p i q hp hi hq
        cases hq
        cases hp with
        | cons hi0 hnil => cases hnil; exact vs'' _ _ hi0 hi)
      wX wG hd
  refine ⟨ga, gb, g1, g2, ce1, ce2, ge, gx, k1, k2, k3, k4, k5, k6, k7, k8, k9, k10, ?_⟩
  intro i j hi hj
  exact k11 [i] j [] (.cons hi .nil) hj .nil

/-- **Softmax on a rank-2 input `[m, n]` along dim 1, local backward pass, `Broadcast` rule in `sum` mode**: what
    arrives at `x` is, at `(i, j)`, `s_ij · (G_ij − Σ_k G_ik · s_ik)` with `s_ij = exp(x_ij) / Σ_k exp(x_ik)` — the
    vector-Jacobian product of the row-wise softmax (`softmax_jacobian_vjp` row by row, see `softmax_split_is_vjp`). -/
theorem softmax_local_vjp_rank2 (H : Heap ℝ) (x e s s' e' s'' : Nat) (m n : Nat) (G : Tensor ℝ)
    (dX : (H.val x).dims = [m, n])
    (he : H.val e = (H.val x).map Real.exp) (hs : (H.val s).dims = [m]) (hs' : (H.val s').dims = [m, 1])
    (he' : H.val e' = H.val e)
    (ws'' : (H.val s'').WF) (ds'' : (H.val s'').dims = [m, n])
    (vs'' : ∀ i j, i < m → j < n → (H.val s'').el [i, j] = rowDen (H.val x) n i)
    (wX : (H.val x).WF) (wG : G.WF) (hd : G.dims = [m, n]) :
    ∃ ga gb g1 g2 ce1 ce2 ge gx,
      evalRule .sum H G (.divA s'') = .ok ga ∧
      evalRule .sum H G (.divB e' s'') = .ok gb ∧
      evalRule .sum H gb (.bcastX s' s'') = .ok g1 ∧
      evalRule .sum H g1 (.reshapeX s) = .ok g2 ∧
      evalRule .sum H g2 (.sumAlongX e 1) = .ok ce1 ∧
      evalRule .sum H ga (.bcastX e e') = .ok ce2 ∧
      vArith .add ce1 ce2 = .ok ge ∧
      evalRule .sum H ge (.expX e) = .ok gx ∧ gx.WF ∧ gx.dims = [m, n] ∧
      ∀ i j, i < m → j < n →
        gx.el [i, j] = sm2 (H.val x) n i j * (G.el [i, j] - gdot2 G (H.val x) n i) := by
  have key := softmax_chain_rank2 .sum H x e s s' e' s'' m n G dX he hs hs' he' ws'' ds'' vs'' wX wG hd
  simp only [C15x.bfac, one_mul] at key
  exact key

/-- rank 2 with the library's `Broadcast` rule (`mean`, finding D2): factor `1/n` on the `Σ` term -/
theorem softmax_local_vjp_rank2_mean_partial (H : Heap ℝ) (x e s s' e' s'' : Nat) (m n : Nat) (G : Tensor ℝ)
    (dX : (H.val x).dims = [m, n])
    (he : H.val e = (H.val x).map Real.exp) (hs : (H.val s).dims = [m]) (hs' : (H.val s').dims = [m, 1])
    (he' : H.val e' = H.val e)
    (ws'' : (H.val s'').WF) (ds'' : (H.val s'').dims = [m, n])
    (vs'' : ∀ i j, i < m → j < n → (H.val s'').el [i, j] = rowDen (H.val x) n i)
    (wX : (H.val x).WF) (wG : G.WF) (hd : G.dims = [m, n]) :
    ∃ ga gb g1 g2 ce1 ce2 ge gx,
      evalRule .mean H G (.divA s'') = .ok ga ∧
      evalRule .mean H G (.divB e' s'') = .ok gb ∧
      evalRule .mean H gb (.bcastX s' s'') = .ok g1 ∧
      evalRule .mean H g1 (.reshapeX s) = .ok g2 ∧
      evalRule .mean H g2 (.sumAlongX e 1) = .ok ce1 ∧
      evalRule .mean H ga (.bcastX e e') = .ok ce2 ∧
      vArith .add ce1 ce2 = .ok ge ∧
      evalRule .mean H ge (.expX e) = .ok gx ∧ gx.WF ∧ gx.dims = [m, n] ∧
      ∀ i j, i < m → j < n →
        gx.el [i, j] = sm2 (H.val x) n i j * (G.el [i, j] - 1 / (n : ℝ) * gdot2 G (H.val x) n i) :=
  softmax_chain_rank2 .mean H x e s s' e' s'' m n G dX he hs hs' he' ws'' ds'' vs'' wX wG hd


/-! ### the calculus side: the delivered value is the vector-Jacobian product on the fibre -/

theorem range_sum_fin (n : Nat) (f : Nat → ℝ) : ((List.range n).map f).sum = ∑ k : Fin n, f k := by
  induction n with
  | zero => simp
  | succ n ih =>
    rw [List.range_succ, List.map_append, List.sum_append, ih, Fin.sum_univ_castSucc]
    simp

/-- the fibre of `X` through `(p, ·, q)` as a vector -/
noncomputable def fibre (X : Tensor ℝ) (n : Nat) (p q : List Nat) : Fin n → ℝ := fun k => X.el (p ++ (k : Nat) :: q)

theorem sm_softmaxF (X : Tensor ℝ) (n : Nat) (p q : List Nat) (j : Fin n) :
    sm X n p j q = C15x.softmaxF (fibre X n p q) j := by
  unfold sm den C15x.softmaxF fibre
  rw [range_sum_fin]

theorem gdot_softmaxF (G X : Tensor ℝ) (n : Nat) (p q : List Nat) :
    gdot G X n p q = ∑ k : Fin n, fibre G n p q k * C15x.softmaxF (fibre X n p q) k := by
  unfold gdot
  rw [range_sum_fin]
  apply Finset.sum_congr rfl
  intro k _
  rw [sm_softmaxF]
  rfl

/-- **what `softmax_local_vjp_split` delivers at `(p, j, q)` is the vector-Jacobian product of softmax on the fibre
    through `(p, ·, q)`**: the product of the upstream fibre with the Jacobian `s_k (δ_kj − s_j)` (`C15x.d_softmax`), and
    the partial derivative with respect to `x[p,j,q]` of the `G`-weighted sum of the fibre's outputs. -/
theorem softmax_split_is_vjp (G X : Tensor ℝ) (n : Nat) (p q : List Nat) (j : Fin n) :
    sm X n p j q * (G.el (p ++ (j : Nat) :: q) - gdot G X n p q)
      = ∑ k : Fin n, fibre G n p q k *
          (C15x.softmaxF (fibre X n p q) k * ((if k = j then 1 else 0) - C15x.softmaxF (fibre X n p q) j)) ∧
    HasDerivAt (fun t => ∑ k : Fin n, fibre G n p q k * C15x.softmaxF (Function.update (fibre X n p q) j t) k)
      (sm X n p j q * (G.el (p ++ (j : Nat) :: q) - gdot G X n p q)) (fibre X n p q j) := by
  rw [sm_softmaxF, gdot_softmaxF]
  exact ⟨(C15x.softmax_jacobian_vjp (fibre X n p q) (fibre G n p q) j).symm,
    C15x.softmax_vjp_deriv (fibre X n p q) (fibre G n p q) j⟩

theorem den_pos (X : Tensor ℝ) (n : Nat) (hn : 0 < n) (p q : List Nat) : 0 < den X n p q := by
  unfold den
  rw [range_sum_fin]
  exact Finset.sum_pos (fun k _ => Real.exp_pos _) ⟨⟨0, hn⟩, Finset.mem_univ _⟩

/-- the `mean` result differs from the vector-Jacobian product at EVERY position as soon as `n > 1` and
    `Σ_k G[p,k,q] s[p,k,q] ≠ 0` (e.g. `x = [[0,0]]`, `G = [[1,0]]`: the product with the Jacobian is `[[¼, −¼]]`, the
    `mean` chain delivers `[[⅜, −⅛]]`) -/
theorem softmax_mean_ne_vjp_split (X : Tensor ℝ) (n : Nat) (hn : 1 < n) (p q : List Nat) (i : Nat) (g d : ℝ) (hd : d ≠ 0) :
    sm X n p i q * (g - 1 / (n : ℝ) * d) ≠ sm X n p i q * (g - d) := by
  have hs : sm X n p i q ≠ 0 := (div_pos (Real.exp_pos _) (den_pos X n (by omega) p q)).ne'
  have hn' : (n : ℝ) ≠ 0 := by positivity
  have hn1 : (n : ℝ) ≠ 1 := by
    intro h
    have : n = 1 := by exact_mod_cast h
    omega
  intro h
  have h2 := mul_left_cancel₀ hs h
  have h3 : 1 / (n : ℝ) * d = 1 * d := by linarith
  have h4 := mul_right_cancel₀ hd h3
  apply hn1
  field_simp at h4
  linarith

/-! ### the rule's iterated sum over the copies, for this shape pair (link to `bcastRule_sum_spec`) -/

section Copies
variable {α : Type} [Scalar α]

theorem expSum_same : ∀ {R q : List Nat}, Valid R q → ∀ (f : List Nat → α), expSum R R q f = f q
  | _, _, .nil, f => by simp [expSum]
  | _, _, .cons (s := i) hi hv, f => by
    simp only [expSum, ne_eq, not_true_eq_false, if_false]
    exact expSum_same hv (fun q => f (i :: q))

theorem expSum_prefix (S D i : List Nat) : ∀ {P p : List Nat}, Valid P p → ∀ (f : List Nat → α),
    expSum (P ++ S) (P ++ D) (p ++ i) f = expSum S D i (fun t => f (p ++ t))
  | _, _, .nil, f => rfl
  | _, _, .cons (s := a) hi hv, f => by
    simp only [List.cons_append, expSum, ne_eq, not_true_eq_false, if_false]
    exact expSum_prefix S D i hv (fun q => f (a :: q))

/-- `copiesSum [P,1,R] [P,n,R] (p,0,q) g = Σ_k g[p,k,q]` (`n ≠ 1`; in the summation order of the code) -/
theorem copiesSum_split (P R : List Nat) (n : Nat) (hn : 1 ≠ n) {p q : List Nat} (hp : Valid P p) (hq : Valid R q)
    (g : Tensor α) :
    copiesSum (P ++ 1 :: R) (P ++ n :: R) (p ++ 0 :: q) g = sumOver n (fun k => g.el (p ++ k :: q)) := by
  have hl : (P ++ n :: R).length - (P ++ 1 :: R).length = 0 := by simp
  unfold copiesSum
  simp only [hl, List.take_zero, List.drop_zero, leadSum, List.nil_append]
  rw [expSum_prefix _ _ _ hp]
  simp only [expSum, hn, ne_eq, not_false_eq_true, if_true]
  rw [expSum_same hq]

end Copies

/-- over `ℝ`, for every `n` (also `n = 1`): `copiesSum [P,1,R] [P,n,R] (p,0,q) g = Σ_{k<n} g[p,k,q]`; in particular
    `copiesSum [m,1] [m,n] [i,0] G = Σ_k G[i,k]` -/
theorem copiesSum_split_real (P R : List Nat) (n : Nat) {p q : List Nat} (hp : Valid P p) (hq : Valid R q)
    (g : Tensor ℝ) :
    copiesSum (P ++ 1 :: R) (P ++ n :: R) (p ++ 0 :: q) g = ((List.range n).map (fun k => g.el (p ++ k :: q))).sum := by
  by_cases h1 : n = 1
  · subst h1
    have hl : (P ++ 1 :: R).length - (P ++ 1 :: R).length = 0 := by simp
    unfold copiesSum
    simp only [hl, List.take_zero, List.drop_zero, leadSum, List.nil_append]
    rw [expSum_same (valid_app hp (.cons (by omega) hq))]
    simp
  · rw [copiesSum_split P R n (fun h => h1 h.symm) hp hq, sumOver_real]

theorem copiesSum_rank2 (m n i : Nat) (hi : i < m) (G : Tensor ℝ) :
    copiesSum [m, 1] [m, n] [i, 0] G = ((List.range n).map (fun k => G.el [i, k])).sum :=
  copiesSum_split_real [m] [] n (p := [i]) (q := []) (.cons hi .nil) .nil G


/-! ### the graph Softmax builds, any rank, any dim -/

/-- forward `Broadcast` of a `[P, 1, R]` tensor to `[P, n, R]` at index level: repetition along the expanded position -/
theorem bcastN_split_el (t : Tensor ℝ) (wt : t.WF) (P R : List Nat) (n : Nat) (hn : 0 < n) (dt : t.dims = P ++ 1 :: R) :
    ∃ y, vBroadcastN t (P ++ n :: R) = .ok y ∧ y.WF ∧ y.dims = P ++ n :: R ∧
      ∀ p i q, Valid P p → i < n → Valid R q → y.el (p ++ i :: q) = t.el (p ++ 0 :: q) := by
  have hpos : ∀ h ∈ P ++ n :: R, 0 < h := by
    intro h hm
    simp only [List.mem_append, List.mem_cons] at hm
    rcases hm with h1 | h1 | h1
    · exact wt.2 h (by rw [dt]; exact List.mem_append_left _ h1)
    · omega
    · exact wt.2 h (by rw [dt]; exact List.mem_append_right _ (List.mem_cons_of_mem _ h1))
  have hv : validBroadcast t.dims (P ++ n :: R) = true := by
    rw [dt]
    unfold validBroadcast
    rw [C02x.validBroadcastLE_reverse _ _ (by simp)]
    have := C02x.validBroadcastLE_set_one P.length (P ++ n :: R)
    rwa [C14y.set_split] at this
  obtain ⟨y, e, dy, wy, fy⟩ := broadcast_el t wt _ hpos hv
  refine ⟨y, ?_, wy, dy, ?_⟩
  · unfold vBroadcastN vBroadcast
    rw [validInputDims_ofNat _ hpos, natDims_ofNat]
    simp only [Bool.true_and]
    rw [if_pos hv, e]; rfl
  · intro p i q hp hi hq
    have := fy (p ++ i :: q) (valid_app hp (.cons hi hq))
    have hl : (P ++ n :: R).length - (P ++ 1 :: R).length = 0 := by simp
    rw [dt] at this
    simp only [projBE, hl, List.drop_zero] at this
    rw [C14y.projLE_split P R p q n i hp.length_eq hq.length_eq hi] at this
    unfold Tensor.el
    rw [this]

/-- **the graph Softmax (`Dim = P.length`) builds** on a tracked, unspent input `x` of dims `P ++ n :: R` (every rank
    `≥ 1`, every valid dim): six new tensors `e = Exp(x)`, `s = SumAlong(e,dim)`, `s' = UnSqueeze(s,dim)`,
    `e' = Broadcast(e)`, `s'' = Broadcast(s')`, `r = Div(e',s'')`; their values at index level — in particular
    `s''[p,i,q] = Σ_k exp x[p,k,q]` and `r[p,i,q] = softmax` on the fibre — and their back edges. -/
theorem softmax_graph_split (H : Heap ℝ) (x : Nat) (P R : List Nat) (n : Nat) (hwf : (H.val x).WF)
    (dX : (H.val x).dims = P ++ n :: R) (l : C15x.Live H x) :
    ∃ e s s' e' s'' r H', actForward (Activation.softmax P.length) [some x] H = .ok (r, H') ∧ Extends H H' ∧
      H'.val x = H.val x ∧
      H'.val e = (H.val x).map Real.exp ∧ (H'.val s).dims = P ++ R ∧ (H'.val s').dims = P ++ 1 :: R ∧
      H'.val e' = H'.val e ∧ (H'.val s'').WF ∧ (H'.val s'').dims = P ++ n :: R ∧
      (∀ p i q, Valid P p → i < n → Valid R q → (H'.val s'').el (p ++ i :: q) = den (H.val x) n p q) ∧
      (H'.val r).WF ∧ (H'.val r).dims = P ++ n :: R ∧
      (∀ p i q, Valid P p → i < n → Valid R q → (H'.val r).el (p ++ i :: q) = sm (H.val x) n p i q) ∧
      H'.ctx e = C15x.liveCtx [⟨x, .expX e⟩] ∧
      H'.ctx s = C15x.liveCtx [⟨e, .sumAlongX e P.length⟩] ∧
      H'.ctx s' = C15x.liveCtx [⟨s, .reshapeX s⟩] ∧
      H'.ctx e' = C15x.liveCtx [⟨e, .bcastX e e'⟩] ∧
      H'.ctx s'' = C15x.liveCtx [⟨s', .bcastX s' s''⟩] ∧
      H'.ctx r = C15x.liveCtx [⟨e', .divA s''⟩, ⟨s'', .divB e' s''⟩] := by
  have hn : 0 < n := hwf.2 n (by rw [dX]; simp)
  -- values
  have we : (vUnary .exp (H.val x)).WF := map_wf _ _ hwf
  have hde : (vUnary .exp (H.val x)).dims = P ++ n :: R := dX
  have hel : ∀ u, Valid (P ++ n :: R) u → (vUnary .exp (H.val x)).el u = Real.exp ((H.val x).el u) :=
    fun u hu => C14y.map_el _ _ hwf (by rw [dX]; exact hu)
  obtain ⟨sv, v1, wsv, dsv, esv⟩ := sumAlong_el (vUnary .exp (H.val x)) we P.length (by rw [hde]; simp)
  rw [hde, C14y.squeeze_split] at dsv esv
  rw [C14y.getD_split] at esv
  obtain ⟨sv', v2, wsv', dsv', esv'⟩ := unsqueeze_el sv wsv P R dsv
  obtain ⟨yv, v3, wy, dy, ey⟩ := C14y.arith_split_el .div (vUnary .exp (H.val x)) sv' we wsv' P R n hde dsv'
  have hden : ∀ p q, Valid P p → Valid R q → sv'.el (p ++ 0 :: q) = den (H.val x) n p q := by
    intro p q hp hq
    rw [esv' p q hp hq, esv (p ++ q) (valid_app hp hq), sumOver_real]
    unfold den
    congr 1
    apply List.map_congr_left
    intro k hk
    rw [← hp.length_eq, C14y.insAt_split, hel _ (valid_app hp (.cons (List.mem_range.mp hk) hq))]
  -- run
  obtain ⟨e, H1, h1⟩ := ran_hUnary .exp x H
  obtain ⟨s, H2, h2⟩ := ran_hAlong .sum e (P.length : Int) H1 sv (by rw [h1.val]; exact v1)
  obtain ⟨s', H3, h3⟩ := C15x.ran_hUnSqueeze s (P.length : Int) H2 sv' (by rw [h2.val]; exact v2)
  have e13 : Extends H1 H3 := h2.ext.trans h3.ext
  have he3 : H3.val e = vUnary .exp (H.val x) := by rw [e13.val h1.lt, h1.val]
  obtain ⟨r, H4, h4⟩ := C14y.ran_hArith_of_val .div e s' H3 (Nat.lt_of_lt_of_le h1.lt e13.1) h3.lt
    (by rw [he3]; exact we) (by rw [h3.val]; exact wsv') yv (by rw [he3, h3.val]; exact v3)
  have hrun : actForward (Activation.softmax P.length) [some x] H = .ok (r, H4) := by
    unfold actForward
    rw [bind_run (show (liftOut (oneInput [some x]) : HM ℝ Nat) H = .ok (x, H) from rfl)]
    simp only []
    rw [bind_run (show (getHeap : HM ℝ (Heap ℝ)) H = .ok (H, H) from rfl)]
    have hnot : ¬ ((H.val x).dims.length ≤ P.length) := by rw [dX]; simp
    rw [if_neg hnot]
    rw [bind_run h1.run, bind_run h2.run, bind_run h3.run]
    exact h4.run
  -- contexts
  obtain ⟨_, _, ce, le1⟩ := C15x.hUnary_live h1.run l
  obtain ⟨_, _, cs, ls⟩ := C15x.hAlong_live h2.run le1
  obtain ⟨_, _, cs', ls'⟩ := C15x.hUnSqueeze_live h3.run ls
  have le3 : C15x.Live H3 e := le1.ext e13
  obtain ⟨e', s'', e4, ve', vs'', _, ce', cs'', cr, le', ls'', lr⟩ := C15x.hArith_live h4.run le3 ls'
  rw [he3, h3.val] at ve' vs''
  rw [hde, dsv', C14y.target_split P R n hn] at ve' vs''
  have hself := vBroadcastN_self _ we
  rw [hde] at hself
  rw [hself] at ve'
  injection ve' with ve'
  obtain ⟨bv, b1, wb, db, fb⟩ := bcastN_split_el sv' wsv' P R n hn dsv'
  rw [b1] at vs''
  injection vs'' with vs''
  have hext : Extends H H4 := ((h1.ext.trans h2.ext).trans h3.ext).trans h4.ext
  have hE4 : H4.val e = (H.val x).map Real.exp := by rw [e4.val le3.1, he3]; rfl
  refine ⟨e, s, s', e', s'', r, H4, hrun, hext, hext.val l.1, hE4, ?_, ?_, ?_, ?_, ?_, ?_, ?_, ?_, ?_, ?_, ?_, ?_, ce',
    cs'', cr⟩
  · rw [(h3.ext.trans h4.ext).val h2.lt, h2.val]; exact dsv
  · rw [h4.ext.val h3.lt, h3.val]; exact dsv'
  · rw [← ve', hE4]; rfl
  · rw [← vs'']; exact wb
  · rw [← vs'']; exact db
  · intro p i q hp hi hq
    rw [← vs'', fb p i q hp hi hq, hden p q hp hq]
  · rw [h4.val]; exact wy
  · rw [h4.val]; exact dy
  · intro p i q hp hi hq
    rw [h4.val, ey p i q hp hi hq, hel _ (valid_app hp (.cons hi hq)), hden p q hp hq]
    rfl
  · rw [(e13.trans e4).ctx le1.1, ce]; rfl
  · rw [(h3.ext.trans h4.ext).ctx ls.1, cs]; rfl
  · rw [h4.ext.ctx ls'.1, cs']

/-- **Softmax along any dim, any rank: graph and local backward pass together** (`Broadcast` rule in `sum` mode), on
    the heap the forward pass returns: the forward value is softmax on each fibre, the back edges are the ones listed,
    and for every upstream gradient `G` of the result's shape the rules along exactly those edges deliver
    `s[p,i,q] · (G[p,i,q] − Σ_k G[p,k,q] s[p,k,q])` at `x` — the vector-Jacobian product (`softmax_split_is_vjp`). -/
theorem softmax_vjp_on_graph_split (H : Heap ℝ) (x : Nat) (P R : List Nat) (n : Nat) (hwf : (H.val x).WF)
    (dX : (H.val x).dims = P ++ n :: R) (l : C15x.Live H x) :
    ∃ e s s' e' s'' r H', actForward (Activation.softmax P.length) [some x] H = .ok (r, H') ∧
      (H'.val r).dims = P ++ n :: R ∧
      (∀ p i q, Valid P p → i < n → Valid R q → (H'.val r).el (p ++ i :: q) = sm (H.val x) n p i q) ∧
      H'.ctx r = C15x.liveCtx [⟨e', .divA s''⟩, ⟨s'', .divB e' s''⟩] ∧
      H'.ctx s'' = C15x.liveCtx [⟨s', .bcastX s' s''⟩] ∧ H'.ctx s' = C15x.liveCtx [⟨s, .reshapeX s⟩] ∧
      H'.ctx s = C15x.liveCtx [⟨e, .sumAlongX e P.length⟩] ∧ H'.ctx e' = C15x.liveCtx [⟨e, .bcastX e e'⟩] ∧
      H'.ctx e = C15x.liveCtx [⟨x, .expX e⟩] ∧
      ∀ G : Tensor ℝ, G.WF → G.dims = P ++ n :: R →
        ∃ ga gb g1 g2 ce1 ce2 ge gx,
          evalRule .sum H' G (.divA s'') = .ok ga ∧ evalRule .sum H' G (.divB e' s'') = .ok gb ∧
          evalRule .sum H' gb (.bcastX s' s'') = .ok g1 ∧ evalRule .sum H' g1 (.reshapeX s) = .ok g2 ∧
          evalRule .sum H' g2 (.sumAlongX e P.length) = .ok ce1 ∧ evalRule .sum H' ga (.bcastX e e') = .ok ce2 ∧
          vArith .add ce1 ce2 = .ok ge ∧
          evalRule .sum H' ge (.expX e) = .ok gx ∧ gx.WF ∧ gx.dims = P ++ n :: R ∧
          ∀ p i q, Valid P p → i < n → Valid R q →
            gx.el (p ++ i :: q) = sm (H.val x) n p i q * (G.el (p ++ i :: q) - gdot G (H.val x) n p q) := by
  obtain ⟨e, s, s', e', s'', r, H', hrun, _, hx, he, hs, hs', he', ws'', ds'', vs'', _, dr, vr, ce, cs, cs', ce', cs'', cr⟩ :=
    softmax_graph_split H x P R n hwf dX l
  refine ⟨e, s, s', e', s'', r, H', hrun, dr, vr, cr, cs'', cs', cs, ce', ce, ?_⟩
  intro G wG hd
  have := softmax_local_vjp_split H' x e s s' e' s'' P R n G (by rw [hx]; exact dX) (by rw [hx]; exact he) hs hs' he'
    ws'' ds'' (by rw [hx]; exact vs'') (by rw [hx]; exact hwf) wG hd
  rw [hx] at this
  exact this

/-- rank 2, `Dim = 1`: graph and local backward pass together, at `[i, j]` -/
theorem softmax_vjp_on_graph_rank2 (H : Heap ℝ) (x m n : Nat) (hwf : (H.val x).WF)
    (dX : (H.val x).dims = [m, n]) (l : C15x.Live H x) :
    ∃ e s s' e' s'' r H', actForward (Activation.softmax 1) [some x] H = .ok (r, H') ∧
      (H'.val r).dims = [m, n] ∧
      (∀ i j, i < m → j < n → (H'.val r).el [i, j] = sm2 (H.val x) n i j) ∧
      H'.ctx r = C15x.liveCtx [⟨e', .divA s''⟩, ⟨s'', .divB e' s''⟩] ∧
      H'.ctx s'' = C15x.liveCtx [⟨s', .bcastX s' s''⟩] ∧ H'.ctx s' = C15x.liveCtx [⟨s, .reshapeX s⟩] ∧
      H'.ctx s = C15x.liveCtx [⟨e, .sumAlongX e 1⟩] ∧ H'.ctx e' = C15x.liveCtx [⟨e, .bcastX e e'⟩] ∧
      H'.ctx e = C15x.liveCtx [⟨x, .expX e⟩] ∧
      ∀ G : Tensor ℝ, G.WF → G.dims = [m, n] →
        ∃ ga gb g1 g2 ce1 ce2 ge gx,
          evalRule .sum H' G (.divA s'') = .ok ga ∧ evalRule .sum H' G (.divB e' s'') = .ok gb ∧
          evalRule .sum H' gb (.bcastX s' s'') = .ok g1 ∧ evalRule .sum H' g1 (.reshapeX s) = .ok g2 ∧
          evalRule .sum H' g2 (.sumAlongX e 1) = .ok ce1 ∧ evalRule .sum H' ga (.bcastX e e') = .ok ce2 ∧
          vArith .add ce1 ce2 = .ok ge ∧
          evalRule .sum H' ge (.expX e) = .ok gx ∧ gx.WF ∧ gx.dims = [m, n] ∧
          ∀ i j, i < m → j < n →
            gx.el [i, j] = sm2 (H.val x) n i j * (G.el [i, j] - gdot2 G (H.val x) n i) := by
  obtain ⟨e, s, s', e', s'', r, H', hrun, dr, vr, cr, cs'', cs', cs, ce', ce, hG⟩ :=
    softmax_vjp_on_graph_split H x [m] [] n hwf dX l
  refine ⟨e, s, s', e', s'', r, H', hrun, dr, fun i j hi hj => vr [i] j [] (.cons hi .nil) hj .nil, cr, cs'', cs', cs,
    ce', ce, ?_⟩
  intro G wG hd
  obtain ⟨ga, gb, g1, g2, ce1, ce2, ge, gx, k1, k2, k3, k4, k5, k6, k7, k8, k9, k10, k11⟩ := hG G wG hd
  exact ⟨ga, gb, g1, g2, ce1, ce2, ge, gx, k1, k2, k3, k4, k5, k6, k7, k8, k9, k10,
    fun i j hi hj => k11 [i] j [] (.cons hi .nil) hj .nil⟩

/-- **every rank `≥ 1`, every valid `dim`** (no split form in the hypotheses): the dims split as `P ++ n :: R` with
    `P.length = dim`, and graph and local backward pass are as in `softmax_vjp_on_graph_split` -/
theorem softmax_vjp_on_graph_any (H : Heap ℝ) (x dim : Nat) (hwf : (H.val x).WF) (hdim : dim < (H.val x).dims.length)
    (l : C15x.Live H x) :
    ∃ P R n, (H.val x).dims = P ++ n :: R ∧ P.length = dim ∧
    ∃ e s s' e' s'' r H', actForward (Activation.softmax dim) [some x] H = .ok (r, H') ∧
      (H'.val r).dims = P ++ n :: R ∧
      (∀ p i q, Valid P p → i < n → Valid R q → (H'.val r).el (p ++ i :: q) = sm (H.val x) n p i q) ∧
      H'.ctx r = C15x.liveCtx [⟨e', .divA s''⟩, ⟨s'', .divB e' s''⟩] ∧
      H'.ctx s'' = C15x.liveCtx [⟨s', .bcastX s' s''⟩] ∧ H'.ctx s' = C15x.liveCtx [⟨s, .reshapeX s⟩] ∧
      H'.ctx s = C15x.liveCtx [⟨e, .sumAlongX e dim⟩] ∧ H'.ctx e' = C15x.liveCtx [⟨e, .bcastX e e'⟩] ∧
      H'.ctx e = C15x.liveCtx [⟨x, .expX e⟩] ∧
      ∀ G : Tensor ℝ, G.WF → G.dims = P ++ n :: R →
        ∃ ga gb g1 g2 ce1 ce2 ge gx,
          evalRule .sum H' G (.divA s'') = .ok ga ∧ evalRule .sum H' G (.divB e' s'') = .ok gb ∧
          evalRule .sum H' gb (.bcastX s' s'') = .ok g1 ∧ evalRule .sum H' g1 (.reshapeX s) = .ok g2 ∧
          evalRule .sum H' g2 (.sumAlongX e dim) = .ok ce1 ∧ evalRule .sum H' ga (.bcastX e e') = .ok ce2 ∧
          vArith .add ce1 ce2 = .ok ge ∧
          evalRule .sum H' ge (.expX e) = .ok gx ∧ gx.WF ∧ gx.dims = P ++ n :: R ∧
          ∀ p i q, Valid P p → i < n → Valid R q →
            gx.el (p ++ i :: q) = sm (H.val x) n p i q * (G.el (p ++ i :: q) - gdot G (H.val x) n p q) := by
  obtain ⟨hsp, hl⟩ := C14y.dims_split (H.val x).dims dim hdim
  refine ⟨_, _, _, hsp, hl, ?_⟩
  have key := softmax_vjp_on_graph_split H x _ _ _ hwf hsp l
  rw [hl] at key
  exact key

/-- non-vacuity: a heap with a tracked, unspent, well-formed rank-2 tensor (and a rank-3 one) -/
example : ∃ (H : Heap ℝ) (x : Nat), (H.val x).WF ∧ (H.val x).dims = [2, 2] ∧ C15x.Live H x :=
  ⟨#[⟨⟨[2, 2], [0, 0, 1, -1]⟩, freshCtx true⟩], 0, by simp [Heap.val, Tensor.WF, prod], by simp [Heap.val],
    by simp [C15x.Live, Heap.tracked, Heap.dirty, Heap.ctx, freshCtx]⟩

example : ∃ (H : Heap ℝ) (x : Nat), (H.val x).WF ∧ (H.val x).dims = [2] ++ 3 :: [2] ∧ C15x.Live H x :=
  ⟨#[⟨⟨[2, 3, 2], [1, 2, 3, 4, 5, 6, 7, 8, 9, 10, 11, 12]⟩, freshCtx true⟩], 0, by simp [Heap.val, Tensor.WF, prod],
    by simp [Heap.val], by simp [C15x.Live, Heap.tracked, Heap.dirty, Heap.ctx, freshCtx]⟩

end C15y
end Qeep
