import QeepProps.C05
/-!
# C05 (extension) — Min, Std, Avg / Mean over ℝ

`QeepProps.C05` has `sum_real`, `var_real`, `max_fold_real`. Here the remaining whole-tensor statistics, over `ℝ`.

## Min / Max and the fold identity — what the model really computes over ℝ

`Tensor.min` is the left fold of `fun a x => if a < x then a else x` from `Scalar.posInf` (`math.Inf(1)` in the code),
`Tensor.max` the fold of `fun a x => if a > x then a else x` from `Scalar.negInf`. `ℝ` has no infinities: the instance in
`QeepProofs/Real.lean` sets `negInf := 0`, `posInf := 0`. Consequently the literal statement

    "over ℝ, `Tensor.min` of a non-empty data list is the minimum of the list"      — is FALSE for the model as written:

`(⟨[2], [1, 2]⟩ : Tensor ℝ).min = 0` (`min_real_counterexample`; symmetrically `(⟨[2], [-1, -2]⟩ : Tensor ℝ).max = 0`,
`max_real_counterexample`). This is an artefact of the ℝ instance, not of the code (for `Float` the identity is the real
`+Inf`). What IS true, and proved here:

* `min_fold_real` — for EVERY identity `b`: the fold is `≤ b`, `≤` every element, and is `b` or one of the elements
  (mirror of `C05.max_fold_real`);
* `min_fold_is_min` / `max_fold_is_max` — if the list is non-empty and the identity is above (below) every element — the
  property `math.Inf(±1)` has — the fold IS the minimum (maximum): a member of the list that bounds every member;
* `min_real_partial` / `max_real_partial` — the strongest statement about `Tensor.min` / `Tensor.max` on the ℝ instance
  itself: it is the minimum of `0 :: data` (maximum of `0 :: data`), hence the true minimum exactly when some element is
  `≤ 0` (resp. `≥ 0`).

## Var / Std

`Tensor.var` divides by `n - 1` (`n = prod dims`) when `n > 1` and is `0` otherwise (`C05.var_real`), so it is `≥ 0` for
every tensor (`var_nonneg_real`), and `Tensor.std = √var` satisfies `std² = var`, `std ≥ 0`, `std = 0` when `n ≤ 1`
(`std_real`).
-/
set_option linter.unusedSimpArgs false
set_option linter.unusedVariables false

namespace Qeep
namespace C05x
open RealScalar

/-! ### Min -/

/-- **Min over ℝ, any fold identity** (mirror of `C05.max_fold_real`): the fold from an identity `b` is a lower bound of
    `b` and of every element and is attained (it is `b` or one of the elements) -/
theorem min_fold_real (l : List ℝ) (b : ℝ) :
    let m := l.foldl (fun a x => if Scalar.lt a x then a else x) b
    m ≤ b ∧ (∀ x ∈ l, m ≤ x) ∧ (m = b ∨ m ∈ l) := by
  induction l generalizing b with
  | nil => simp
  | cons y ys ih =>
    simp only [List.foldl_cons]
    obtain ⟨h1, h2, h3⟩ := ih (if Scalar.lt b y then b else y)
    have hstep : (if Scalar.lt b y then b else y) ≤ b ∧ (if Scalar.lt b y then b else y) ≤ y := by
      simp only [lt_eq, decide_eq_true_eq]
      split <;> constructor <;> linarith
    refine ⟨le_trans h1 hstep.1, ?_, ?_⟩
    · intro x hx
      rcases List.mem_cons.mp hx with rfl | hx
      · exact le_trans h1 hstep.2
      · exact h2 x hx
    · rcases h3 with h3 | h3
      · rw [h3]
        simp only [lt_eq, decide_eq_true_eq]
        split
        · exact Or.inl rfl
        · exact Or.inr (by simp)
      · exact Or.inr (List.mem_cons_of_mem _ h3)

/-- **with an identity above every element (`math.Inf(1)`), the Min fold of a non-empty list is its minimum**:
    one of the elements, and `≤` every element -/
theorem min_fold_is_min (l : List ℝ) (b : ℝ) (hne : l ≠ []) (hb : ∀ x ∈ l, x ≤ b) :
    let m := l.foldl (fun a x => if Scalar.lt a x then a else x) b
    m ∈ l ∧ ∀ x ∈ l, m ≤ x := by
  intro m
  obtain ⟨h1, h2, h3⟩ := min_fold_real l b
  refine ⟨?_, h2⟩
  rcases h3 with h3 | h3
  · obtain ⟨x0, hx0⟩ := List.exists_mem_of_ne_nil l hne
    have e : x0 = m := le_antisymm (by rw [show m = b from h3]; exact hb x0 hx0) (h2 x0 hx0)
    rw [← e]; exact hx0
  · exact h3

/-- the same for Max (completes `C05.max_fold_real`): with an identity below every element (`math.Inf(-1)`), the Max
    fold of a non-empty list is its maximum -/
theorem max_fold_is_max (l : List ℝ) (b : ℝ) (hne : l ≠ []) (hb : ∀ x ∈ l, b ≤ x) :
    let m := l.foldl (fun a x => if Scalar.gt a x then a else x) b
    m ∈ l ∧ ∀ x ∈ l, x ≤ m := by
  intro m
  obtain ⟨h1, h2, h3⟩ := C05.max_fold_real l b
  refine ⟨?_, h2⟩
  rcases h3 with h3 | h3
  · obtain ⟨x0, hx0⟩ := List.exists_mem_of_ne_nil l hne
    have e : x0 = m := le_antisymm (h2 x0 hx0) (by rw [show m = b from h3]; exact hb x0 hx0)
    rw [← e]; exact hx0
  · exact h3

theorem min_unfold (t : Tensor ℝ) : t.min = t.data.foldl (fun a x => if Scalar.lt a x then a else x) 0 := rfl
theorem max_unfold (t : Tensor ℝ) : t.max = t.data.foldl (fun a x => if Scalar.gt a x then a else x) 0 := rfl

/-- **COUNTEREXAMPLE to "`Tensor.min` over ℝ is the minimum of the data"**: the ℝ instance models `+Inf` as `0`, so the Min
    of `[1, 2]` is `0` -/
theorem min_real_counterexample : (⟨[2], [1, 2]⟩ : Tensor ℝ).min = 0 := by
  rw [min_unfold]
  simp only [List.foldl_cons, List.foldl_nil, lt_eq]
  norm_num

/-- the symmetric counterexample for Max: the Max of `[-1, -2]` over ℝ is `0` -/
theorem max_real_counterexample : (⟨[2], [-1, -2]⟩ : Tensor ℝ).max = 0 := by
  rw [max_unfold]
  simp only [List.foldl_cons, List.foldl_nil, Scalar.gt, lt_eq]
  norm_num

/-- **`Tensor.min` on the ℝ instance, exactly**: the minimum of `0 :: data` — `≤ 0`, `≤` every element, equal to `0` or to
    an element; it is the minimum of the data (a member bounding every member) as soon as some element is `≤ 0`, and it
    is `0` — NOT the minimum — when every element is positive. -/
theorem min_real_partial (t : Tensor ℝ) :
    t.min ≤ 0 ∧ (∀ x ∈ t.data, t.min ≤ x) ∧ (t.min = 0 ∨ t.min ∈ t.data) ∧
    ((∃ x ∈ t.data, x ≤ 0) → t.min ∈ t.data) ∧ ((∀ x ∈ t.data, 0 < x) → t.min = 0) := by
  obtain ⟨h1, h2, h3⟩ := min_fold_real t.data 0
  rw [← min_unfold] at h1 h2 h3
  refine ⟨h1, h2, h3, ?_, ?_⟩
  · rintro ⟨x, hx, hx0⟩
    rcases h3 with h3 | h3
    · have e : x = t.min := le_antisymm (by rw [h3]; exact hx0) (h2 x hx)
      rw [← e]; exact hx
    · exact h3
  · intro hpos
    rcases h3 with h3 | h3
    · exact h3
    · exact absurd h1 (not_le.mpr (hpos _ h3))

/-- **`Tensor.max` on the ℝ instance, exactly**: the maximum of `0 :: data` -/
theorem max_real_partial (t : Tensor ℝ) :
    0 ≤ t.max ∧ (∀ x ∈ t.data, x ≤ t.max) ∧ (t.max = 0 ∨ t.max ∈ t.data) ∧
    ((∃ x ∈ t.data, 0 ≤ x) → t.max ∈ t.data) ∧ ((∀ x ∈ t.data, x < 0) → t.max = 0) := by
  obtain ⟨h1, h2, h3⟩ := C05.max_fold_real t.data 0
  rw [← max_unfold] at h1 h2 h3
  refine ⟨h1, h2, h3, ?_, ?_⟩
  · rintro ⟨x, hx, hx0⟩
    rcases h3 with h3 | h3
    · have e : x = t.max := le_antisymm (h2 x hx) (by rw [h3]; exact hx0)
      rw [← e]; exact hx
    · exact h3
  · intro hneg
    rcases h3 with h3 | h3
    · exact h3
    · exact absurd h1 (not_le.mpr (hneg _ h3))

/-! ### Avg / Mean -/

/-- **Avg over ℝ**: the sum of the elements divided by the number of elements `n = prod dims` (`0` when `n = 0`:
    Mathlib's `x / 0 = 0`; a well-formed tensor has `n ≥ 1`) -/
theorem avg_real (t : Tensor ℝ) : t.avg = t.data.sum / (prod t.dims : ℝ) := (C05.sum_real t).2.1

/-- **Mean over ℝ** is Avg -/
theorem mean_real (t : Tensor ℝ) : t.mean = t.data.sum / (prod t.dims : ℝ) := by
  rw [(C05.sum_real t).2.2]; exact avg_real t

/-- for a tensor whose data has the length its shape says, the divisor is the number of data elements, and
    `n * mean` is the sum -/
theorem mean_real_wf (t : Tensor ℝ) (hl : t.data.length = prod t.dims) (hn : 0 < prod t.dims) :
    t.mean = t.data.sum / (t.data.length : ℝ) ∧ t.avg = t.mean ∧ (t.data.length : ℝ) * t.mean = t.data.sum := by
  have hpos : (0 : ℝ) < (prod t.dims : ℝ) := by exact_mod_cast hn
  refine ⟨by rw [mean_real, hl], ((C05.sum_real t).2.2).symm, ?_⟩
  rw [mean_real, hl]
  field_simp

theorem sum_map_sub_const (l : List ℝ) (m : ℝ) : (l.map (fun x => x - m)).sum = l.sum - (l.length : ℝ) * m := by
  induction l with
  | nil => simp
  | cons x xs ih =>
    simp only [List.map_cons, List.sum_cons, List.length_cons, ih]
    push_cast
    ring

/-- the mean is the centre: the deviations from it sum to zero -/
theorem mean_centres_real (t : Tensor ℝ) (hl : t.data.length = prod t.dims) (hn : 0 < prod t.dims) :
    (t.data.map (fun x => x - t.mean)).sum = 0 := by
  rw [sum_map_sub_const, (mean_real_wf t hl hn).2.2, sub_self]

/-! ### Var / Std -/

theorem sum_nonneg_of (l : List ℝ) (h : ∀ x ∈ l, 0 ≤ x) : 0 ≤ l.sum := by
  induction l with
  | nil => simp
  | cons x xs ih =>
    rw [List.sum_cons]
    exact add_nonneg (h x (by simp)) (ih (fun y hy => h y (List.mem_cons_of_mem _ hy)))

/-- **Var is never negative** (whatever `n`: it is `0` for `n ≤ 1`, and a sum of squares over `n - 1 > 0` otherwise) -/
theorem var_nonneg_real (t : Tensor ℝ) : 0 ≤ t.var := by
  rw [C05.var_real]
  split
  · rename_i h
    have hn : (1 : ℝ) < (prod t.dims : ℝ) := by exact_mod_cast h
    apply div_nonneg
    · apply sum_nonneg_of
      intro y hy
      obtain ⟨x, _, rfl⟩ := List.mem_map.mp hy
      exact sq_nonneg _
    · linarith
  · exact le_refl _

/-- **Std over ℝ** is the non-negative square root of Var: `std = √var`, `std² = var`, `std ≥ 0`; for `n ≥ 2` it is the
    root of the unbiased sample variance (denominator `n - 1`); for `n ≤ 1` it is `0` -/
theorem std_real (t : Tensor ℝ) :
    t.std = Real.sqrt t.var ∧ t.std ^ 2 = t.var ∧ 0 ≤ t.std ∧
    (1 < prod t.dims →
      t.std = Real.sqrt ((t.data.map (fun x => (x - t.mean) ^ 2)).sum / ((prod t.dims : ℝ) - 1))) ∧
    (prod t.dims ≤ 1 → t.var = 0 ∧ t.std = 0) := by
  have hs : t.std = Real.sqrt t.var := rfl
  refine ⟨hs, ?_, ?_, ?_, ?_⟩
  · rw [hs]; exact Real.sq_sqrt (var_nonneg_real t)
  · rw [hs]; exact Real.sqrt_nonneg _
  · intro h
    rw [hs, C05.var_real, if_pos h]
  · intro h
    have hv : t.var = 0 := by rw [C05.var_real, if_neg (by omega)]
    exact ⟨hv, by rw [hs, hv, Real.sqrt_zero]⟩

/-- `std` determines `var` and conversely: two tensors have the same Std iff they have the same Var -/
theorem std_eq_iff_var_eq (s t : Tensor ℝ) : s.std = t.std ↔ s.var = t.var := by
  constructor
  · intro h
    rw [← (std_real s).2.1, ← (std_real t).2.1, h]
  · intro h
    rw [(std_real s).1, (std_real t).1, h]

/-- non-vacuity over ℝ: Avg / Var / Std of `[1, 3]` are `2`, `2`, `√2`; Var / Std of a single element are `0` -/
example : (⟨[2], [1, 3]⟩ : Tensor ℝ).avg = 2 ∧ (⟨[2], [1, 3]⟩ : Tensor ℝ).var = 2 ∧
    (⟨[2], [1, 3]⟩ : Tensor ℝ).std = Real.sqrt 2 ∧ (⟨[1], [5]⟩ : Tensor ℝ).var = 0 := by
  have ha : (⟨[2], [1, 3]⟩ : Tensor ℝ).avg = 2 := by
    rw [avg_real]; norm_num [prod]
  have hm : (⟨[2], [1, 3]⟩ : Tensor ℝ).mean = 2 := by rw [(C05.sum_real _).2.2, ha]
  have hv : (⟨[2], [1, 3]⟩ : Tensor ℝ).var = 2 := by
    rw [C05.var_real, hm]; norm_num [prod]
  refine ⟨ha, hv, by rw [(std_real _).1, hv], ?_⟩
  rw [C05.var_real]; norm_num [prod]

/-- non-vacuity on the executable instance (`Int`, where the identities are ∓10¹²): Min / Max are the extrema -/
example : (⟨[3], [4, -7, 5]⟩ : Tensor Int).min = -7 ∧ (⟨[3], [4, -7, 5]⟩ : Tensor Int).max = 5 ∧
    (⟨[3], [4, 7, 5]⟩ : Tensor Int).min = 4 := by decide

end C05x
end Qeep
