import QeepProps.C11z
import QeepProps.C16w
/-!
# C11 — a whole training LOOP on an FC layer: every step succeeds and is a gradient-descent step, for every number of steps

`FCInv` is the state a training loop on one FC layer is in before a step: the heap is one the public API can build, the two
parameters are distinct tracked, unspent leaves of shape `[O]`, the input is an untracked, unspent `[N, D]` data tensor.
`fc_step_inv`: from such a state one step (`Forward`; `BackPropagate`; `Update` + `ResetGradContext(true)` for `W` and `B`)
succeeds, replaces the parameters by `W − lr·c·∂/∂W`, `B − lr·c·∂/∂B` (`c = 1` in `sum` mode, `1/N` in `mean` mode: `bscale`) and ends in such a state again — whatever else
the heap contains, in particular the spent graphs of all earlier steps. `fc_training_loop`: hence by induction ANY number of
steps succeeds and `W_n[o] = W_0[o] − n·lr·c·Σ_nΣ_d x`, `B_n[o] = B_0[o] − n·lr·c·N`.
-/
set_option linter.unusedSimpArgs false
set_option linter.unusedSectionVars false
set_option linter.unusedVariables false

namespace Qeep
namespace C11w
open RealScalar C01 C11x C16x C16z C16w C15x C15w

structure FCInv (bm : BMode) (H : Heap ℝ) (w b x N D O : Nat) : Prop where
  reach : Reach bm H
  lw : Live H w
  lb : Live H b
  hx : x < H.size
  cx : H.dirty x = false
  ux : H.tracked x = false
  hwb : w ≠ b
  ww : (H.val w).WF
  wb : (H.val b).WF
  wx : (H.val x).WF
  dw : (H.val w).dims = [O]
  db : (H.val b).dims = [O]
  dx : (H.val x).dims = [N, D]
  leafw : (H.ctx w).edges = []
  leafb : (H.ctx b).edges = []

/-- `Update` leads from a reachable heap to a reachable heap -/
theorem reach_sgdUpdate {bm : BMode} {lr : ℝ} {H H' : Heap ℝ} {w r : Nat} (hR : Reach bm H) (hw : w < H.size)
    (h : sgdUpdate lr (some w) H = .ok (r, H')) : Reach bm H' := by
  unfold sgdUpdate at h
  simp only [] at h
  obtain ⟨g, H1, h1, h2⟩ := bind_ok h
  have R1 : Reach bm H1 := Reach.gradNode hR h1
  have x1 : Extends H H1 := frame_hGradNode w H g H1 h1
  cases g with
  | none => obtain ⟨e, _⟩ := liftOut_ok h2; cases e
  | some gn =>
    simp only [] at h2
    have hgn : gn < H1.size := by
      unfold hGradNode at h1
      obtain ⟨H0, H0', g0, k1⟩ := bind_ok h1
      obtain ⟨e0, e0'⟩ := getHeap_ok g0
      rw [e0, e0'] at k1
      cases hg : H.grad w with
      | none => rw [hg] at k1; simp [pure, StateT.pure] at k1
      | some gg =>
        rw [hg] at k1
        simp only [] at k1
        obtain ⟨kk, Hk, a1, a2⟩ := bind_ok k1
        have := alloc_ok a1
        have hs := alloc_grows a1
        simp [pure, StateT.pure] at a2
        obtain ⟨rfl, rfl⟩ := a2
        omega
    obtain ⟨d, H2, h3, h4⟩ := bind_ok h2
    have R2 : Reach bm H2 := Reach.scale R1 hgn h3
    have x2 : Extends H1 H2 := frame_hScale gn lr H1 d H2 h3
    have hd : d < H2.size := by
      have := (C15z.hScale_id h3)
      omega
    exact Reach.arith R2 (by have := x1.1; have := x2.1; omega) hd h4

/-- the run of the optimizer half on two weights, taken apart -/
theorem update_two_inv {lr : ℝ} {Hb H' : Heap ℝ} {w b : Nat} {rs : List Nat} (h : updateAll lr [w, b] Hb = .ok (rs, H')) :
    ∃ r1 r2 Ha Hc, rs = [r1, r2] ∧ sgdUpdate lr (some w) Hb = .ok (r1, Ha) ∧
      sgdUpdate lr (some b) (resetCtx Ha r1 true) = .ok (r2, Hc) ∧ H' = resetCtx Hc r2 true := by
  unfold updateAll at h
  obtain ⟨r1, Ha, u1, h⟩ := bind_ok h
  obtain ⟨_, H2, k1, h⟩ := bind_ok h
  have e2 : H2 = resetCtx Ha r1 true := by
    unfold hReset at k1; injection k1 with k1; injection k1 with _ k1; exact k1.symm
  obtain ⟨rs', Hz, u2, h⟩ := bind_ok h
  have ez : (pure (r1 :: rs') : HM ℝ (List Nat)) Hz = .ok (r1 :: rs', Hz) := rfl
  rw [ez] at h
  injection h with h; injection h with h1 h2
  subst h1 h2
  unfold updateAll at u2
  obtain ⟨r2, Hc, u3, u2⟩ := bind_ok u2
  obtain ⟨_, H4, k2, u2⟩ := bind_ok u2
  have e4 : H4 = resetCtx Hc r2 true := by
    unfold hReset at k2; injection k2 with k2; injection k2 with _ k2; exact k2.symm
  obtain ⟨rs'', Hy, u4, u2⟩ := bind_ok u2
  unfold updateAll at u4
  have e5 : (pure ([] : List Nat) : HM ℝ (List Nat)) H4 = .ok ([], H4) := rfl
  rw [e5] at u4
  injection u4 with u4; injection u4 with a1 a2
  subst a1 a2
  have e6 : (pure ([r2] : List Nat) : HM ℝ (List Nat)) H4 = .ok ([r2], H4) := rfl
  rw [e6] at u2
  injection u2 with u2; injection u2 with b1 b2
  subst b1 b2
  subst e2
  exact ⟨r1, r2, Ha, Hc, rfl, u1, u3, e4⟩

theorem freshLeaf_live {H : Heap ℝ} {r : Nat} (h : H.ctx r = freshLeaf) : Live H r ∧ (H.ctx r).edges = [] ∧ H.grad r = none := by
  have t : H.tracked r = true := by simp [Heap.tracked, h, freshLeaf]
  exact ⟨⟨C01x.tracked_lt_size H r t, t, by simp [Heap.dirty, h, freshLeaf]⟩, by simp [h, freshLeaf], by simp [Heap.grad, h, freshLeaf]⟩

/-- **one step of the loop keeps the loop's invariant** (see the header) -/
theorem fc_step_inv (bm : BMode) (lr : ℝ) {H : Heap ℝ} {w b x N D O : Nat} (inv : FCInv bm H w b x N D O) :
    ∃ rw rb H', trainStep bm lr (fcForward ⟨some w, some b⟩ [some x]) [w, b] H = .ok ([rw, rb], H') ∧
      FCInv bm H' rw rb x N D O ∧ H'.val x = H.val x ∧
      (∀ o, o < O → (H'.val rw).el [o]
          = (H.val w).el [o] - lr * (bscale bm N * ∑ n ∈ Finset.range N, ∑ d ∈ Finset.range D, (H.val x).el [n, d])) ∧
      (∀ o, o < O → (H'.val rb).el [o] = (H.val b).el [o] - lr * (bscale bm N * (N : ℝ))) := by
  obtain ⟨hR, lw, lb, hx, cx, ux, hwb, ww, wb, wx, dw, db, dx, leafw, leafb⟩ := inv
  obtain ⟨H1, hfwd, hext, hsz, hbp, hvis, dW, dB, gW, gB, wW, dWd, wB, dBd, eW, eB⟩ :=
    fc_backprop_leaf2 bm H w b x N D O hR lw lb hx cx ux hwb ww wb wx dw db dx leafw leafb
  have vw : H1.val w = H.val w := hext.val lw.1
  have vb : H1.val b = H.val b := hext.val lb.1
  have vx : H1.val x = H.val x := hext.val hx
  obtain ⟨rs, H', hstep, hlen, hkeep, hspec⟩ := train_step_law bm lr (fcForward ⟨some w, some b⟩ [some x]) [w, b] H H1
    (H.size + 8) hfwd hbp [dW, dB] rfl (by
      intro k w' g hk hg
      match k, hk, hg with
      | 0, hk, hg =>
        simp at hk hg; subst hk hg
        exact ⟨by have := lw.1; omega, gW, by rw [vw]; exact ww, wW, by rw [vw, dWd, dw]⟩
      | 1, hk, hg =>
        simp at hk hg; subst hk hg
        exact ⟨by have := lb.1; omega, gB, by rw [vb]; exact wb, wB, by rw [vb, dBd, db]⟩
      | k + 2, hk, _ => simp at hk)
  -- the optimizer half taken apart: reachability and the order of the two new tensors
  have hrun := hstep
  unfold trainStep at hrun
  simp only [hfwd, hbp] at hrun
  obtain ⟨rw, rb, Ha, Hc, ers, u1, u2, eH'⟩ := update_two_inv hrun
  subst ers
  have R1 : Reach bm H1 := reach_fcForward hR lw.1 lb.1 hx hfwd
  have Rb : Reach bm (backprop bm H1 (H.size + 8)).heap := Reach.backprop R1
  have sb : (backprop bm H1 (H.size + 8)).heap.size = H1.size := (backprop_val bm H1 (H.size + 8) 0).2
  have Ra : Reach bm Ha := reach_sgdUpdate Rb (by rw [sb]; have := lw.1; omega) u1
  obtain ⟨b1, b2⟩ := sgd_bounds lr _ Ha w rw (by rw [sb]; have := lw.1; omega) u1
  obtain ⟨s2, _, _⟩ := resetCtx_frame Ha rw true
  have xa : Extends (backprop bm H1 (H.size + 8)).heap Ha := frame_sgdUpdate lr (some w) _ rw Ha u1
  have R2 : Reach bm (resetCtx Ha rw true) := Reach.reset Ra
  have hb2 : b < (resetCtx Ha rw true).size := by rw [s2]; have := xa.1; have := lb.1; omega
  have Rc : Reach bm Hc := reach_sgdUpdate R2 hb2 u2
  obtain ⟨b3, b4⟩ := sgd_bounds lr _ Hc b rb hb2 u2
  have R' : Reach bm H' := by rw [eH']; exact Reach.reset Rc
  have hne : rw ≠ rb := by omega
  -- the two new parameters
  obtain ⟨_, v0, c0⟩ := hspec 0 w dW rw rfl rfl rfl
  obtain ⟨_, v1, c1⟩ := hspec 1 b dB rb rfl rfl rfl
  rw [vw] at v0; rw [vb] at v1
  obtain ⟨l0, f0, _⟩ := freshLeaf_live c0
  obtain ⟨l1, f1, _⟩ := freshLeaf_live c1
  -- the input is untouched
  have hxw : x ≠ w := by intro h; rw [h, dw] at dx; simp at dx
  have hxb : x ≠ b := by intro h; rw [h, db] at dx; simp at dx
  have hx1 : x < H1.size := by omega
  have hxn : x ∉ backwardOrder H1 (H.size + 8) := by
    intro hm
    rcases hvis x hm with h | h | h
    · omega
    · exact hxw h
    · exact hxb h
  have cxb : (backprop bm H1 (H.size + 8)).heap.ctx x = H1.ctx x := C20.backprop_footprint_reachable bm H1 _ R1 x hxn
  obtain ⟨kv, kc⟩ := hkeep.2 x (by rw [sb]; exact hx1)
  have cx' : H'.ctx x = H.ctx x := by rw [kc, cxb, hext.ctx hx]
  have vx' : H'.val x = H.val x := by rw [kv, (backprop_val bm H1 (H.size + 8) x).1, vx]
  refine ⟨rw, rb, H', hstep, ?_, vx', ?_, ?_⟩
  · refine ⟨R', l0, l1, by have := hkeep.1; omega, ?_, ?_, hne, ?_, ?_, by rw [vx']; exact wx, by rw [v0]; exact dw,
      by rw [v1]; exact db, by rw [vx']; exact dx, f0, f1⟩
    · simp only [Heap.dirty, cx'] at cx ⊢; exact cx
    · simp only [Heap.tracked, cx'] at ux ⊢; exact ux
    · rw [v0]; exact zip_wf _ (H.val w) dW ww wW (by rw [dw, dWd])
    · rw [v1]; exact zip_wf _ (H.val b) dB wb wB (by rw [db, dBd])
  · intro o ho
    rw [v0]
    unfold stepped
    rw [C15y.zip_el _ (H.val w) dW ww wW (by rw [dw, dWd]) (by rw [dw]; exact valid1 ho), eW o ho]
    simp [sub_eq, mul_eq]
  · intro o ho
    rw [v1]
    unfold stepped
    rw [C15y.zip_el _ (H.val b) dB wb wB (by rw [db, dBd]) (by rw [db]; exact valid1 ho), eB o ho]
    simp [sub_eq, mul_eq]

/-- `n` steps of the training loop on the layer: each step hands the NEW parameter tensors to the next -/
noncomputable def steps (bm : BMode) (lr : ℝ) (x : Nat) : Nat → Nat × Nat → HM ℝ (Nat × Nat)
  | 0, wb => pure wb
  | n + 1, (w, b) => fun H =>
      match trainStep bm lr (fcForward ⟨some w, some b⟩ [some x]) [w, b] H with
      | .ok ([rw, rb], H') => steps bm lr x n (rw, rb) H'
      | .ok _ => .err
      | .err => .err
      | .panic => .panic

/-- **the whole loop**: from a state satisfying `FCInv`, ANY number `n` of training steps succeeds, ends in such a state,
    leaves the input as it was, and the parameters are `W − n·lr·c·∂/∂W`, `B − n·lr·c·∂/∂B` of `Σ y` with `c = 1` in `sum`
    mode — gradient descent — and `c = 1/N` in `mean` mode, the tree as it is (finding D2): there the loop descends `N` times
    more slowly than the property demands (the derivatives do not depend on the parameters because `Σ y` is affine in them) -/
theorem fc_training_loop (bm : BMode) (lr : ℝ) (x N D O : Nat) : ∀ (n : Nat) (H : Heap ℝ) (w b : Nat), FCInv bm H w b x N D O →
    ∃ w' b' H', steps bm lr x n (w, b) H = .ok ((w', b'), H') ∧ FCInv bm H' w' b' x N D O ∧ H'.val x = H.val x ∧
      (∀ o, o < O → (H'.val w').el [o]
          = (H.val w).el [o] - (n : ℝ) * (lr * (bscale bm N * ∑ i ∈ Finset.range N, ∑ d ∈ Finset.range D, (H.val x).el [i, d]))) ∧
      (∀ o, o < O → (H'.val b').el [o] = (H.val b).el [o] - (n : ℝ) * (lr * (bscale bm N * (N : ℝ))))
  | 0, H, w, b, inv => ⟨w, b, H, rfl, inv, rfl, fun o _ => by simp, fun o _ => by simp⟩
  | n + 1, H, w, b, inv => by
    obtain ⟨rw, rb, H1, hstep, inv1, vx, e1, e2⟩ := fc_step_inv bm lr inv
    obtain ⟨w', b', H', hrun, inv', vx', f1, f2⟩ := fc_training_loop bm lr x N D O n H1 rw rb inv1
    refine ⟨w', b', H', ?_, inv', by rw [vx', vx], ?_, ?_⟩
    · show (match trainStep bm lr (fcForward ⟨some w, some b⟩ [some x]) [w, b] H with
          | .ok ([rw, rb], H') => steps bm lr x n (rw, rb) H'
          | .ok _ => .err
          | .err => .err
          | .panic => .panic) = _
      rw [hstep]
      exact hrun
    · intro o ho
      rw [f1 o ho, e1 o ho, vx]
      push_cast
      ring
    · intro o ho
      rw [f2 o ho, e2 o ho]
      push_cast
      ring

/-- the invariant is satisfiable: `W = [3, 4]`, `B = [0, 1]` tracked leaves, `x = [[1, 2, 5]]` an untracked leaf -/
example (bm : BMode) : ∃ (H : Heap ℝ) (w b x N D O : Nat), FCInv bm H w b x N D O := by
  let H0 : Heap ℝ := #[⟨⟨[2], [3, 4]⟩, freshCtx true⟩]
  let H1 : Heap ℝ := H0.push ⟨⟨[2], [0, 1]⟩, freshCtx true⟩
  let H2 : Heap ℝ := H1.push ⟨⟨[1, 3], [1, 2, 5]⟩, freshCtx false⟩
  have r0 : Reach bm H0 := Reach.leaf (v := ⟨[2], [3, 4]⟩) (b := true) (r := 0) Reach.empty rfl
  have r1 : Reach bm H1 := Reach.leaf (v := ⟨[2], [0, 1]⟩) (b := true) (r := 1) r0 rfl
  have r2 : Reach bm H2 := Reach.leaf (v := ⟨[1, 3], [1, 2, 5]⟩) (b := false) (r := 2) r1 rfl
  refine ⟨H2, 0, 1, 2, 1, 3, 2, r2, ?_, ?_, by simp [H2, H1, H0], by simp [H2, H1, H0, Heap.dirty, Heap.ctx, freshCtx],
    by simp [H2, H1, H0, Heap.tracked, Heap.ctx, freshCtx], by omega, ?_, ?_, ?_, rfl, rfl, rfl,
    by simp [H2, H1, H0, Heap.ctx, freshCtx], by simp [H2, H1, H0, Heap.ctx, freshCtx]⟩
  · exact ⟨by simp [H2, H1, H0], by simp [H2, H1, H0, Heap.tracked, Heap.ctx, freshCtx], by simp [H2, H1, H0, Heap.dirty, Heap.ctx, freshCtx]⟩
  · exact ⟨by simp [H2, H1, H0], by simp [H2, H1, H0, Heap.tracked, Heap.ctx, freshCtx], by simp [H2, H1, H0, Heap.dirty, Heap.ctx, freshCtx]⟩
  · refine ⟨by simp [H2, H1, H0, Heap.val, prod], ?_⟩
    intro d hd; simp [H2, H1, H0, Heap.val] at hd; omega
  · refine ⟨by simp [H2, H1, H0, Heap.val, prod], ?_⟩
    intro d hd; simp [H2, H1, H0, Heap.val] at hd; omega
  · refine ⟨by simp [H2, H1, H0, Heap.val, prod], ?_⟩
    intro d hd; simp [H2, H1, H0, Heap.val] at hd; omega

end C11w
end Qeep
