import QeepProps.C02
import QeepProps.C08
import QeepProps.C14
import QeepProofs.Run
/-!
# C15 — activation gradients equal the derivative of the activation

Structure of the argument (over `ℝ`):

* `C01.backprop_adjoint`: along ANY graph — activation input a leaf or an interior node — every tensor receives, once per
  back edge, the edge's rule applied to the consumer's final gradient;
* here, per activation: (`*_graph`) the back edges the forward pass creates, and (`*_local_vjp`) the *local* backward pass
  through those edges: if `g` is the gradient arriving at the activation's result, the contributions arriving at the
  activation's input add up to `g_i · act'(x_i)` at every position — for every input shape and all values.

Proved: Relu (1, 0, and ½ on the tie band `|x| ≤ 1e-240` of the library's `Eq`), Tanh (`cosh⁻² = 1 − tanh²`).
LeakyRelu, Sigmoid and Softmax gradients are covered by the correspondence run only.
-/
set_option linter.unusedSimpArgs false

namespace Qeep
namespace C15
open RealScalar

/-- the derivative Relu's graph delivers: 1 above the tie band, 0 below, ½ inside -/
noncomputable def reluD (a : ℝ) : ℝ :=
  (if Scalar.near (max 0 a) a then 1 else 0) - (1 / 2) * (if Scalar.near a 0 then 1 else 0)

theorem reluD_cases (a : ℝ) (thr : ℝ) (hthr : thr = (Scalar.eqThr : ℝ)) (hpos : 0 < thr) :
    (thr < a → reluD a = 1) ∧ (a < -thr → reluD a = 0) ∧ (|a| ≤ thr → reluD a = 1 / 2) := by
  subst hthr
  have hn1 : ∀ u v : ℝ, Scalar.near u v = decide (|u - v| ≤ Scalar.eqThr) := fun u v => rfl
  refine ⟨?_, ?_, ?_⟩
  · intro h
    have h0 : 0 < a := lt_trans hpos h
    have e1 : |max 0 a - a| ≤ (Scalar.eqThr : ℝ) := by rw [max_eq_right h0.le]; simp [hpos.le]
    have e2 : ¬ |a - 0| ≤ (Scalar.eqThr : ℝ) := by rw [sub_zero, abs_of_pos h0]; linarith
    unfold reluD
    rw [hn1, hn1]
    simp only [decide_eq_true_eq]
    rw [if_pos e1, if_neg e2]; norm_num
  · intro h
    have h0 : a < 0 := by linarith
    have e1 : ¬ |max 0 a - a| ≤ (Scalar.eqThr : ℝ) := by
      rw [max_eq_left h0.le, zero_sub, abs_neg, abs_of_neg h0]; linarith
    have e3 : ¬ |a - 0| ≤ (Scalar.eqThr : ℝ) := by rw [sub_zero, abs_of_neg h0]; linarith
    unfold reluD
    rw [hn1, hn1]
    simp only [decide_eq_true_eq]
    rw [if_neg e1, if_neg e3]; norm_num
  · intro h
    have e3 : |a - 0| ≤ (Scalar.eqThr : ℝ) := by rwa [sub_zero]
    have e1 : |max 0 a - a| ≤ (Scalar.eqThr : ℝ) := by
      rcases le_total 0 a with h0 | h0
      · rw [max_eq_right h0]; simp [hpos.le]
      · rw [max_eq_left h0, zero_sub, abs_neg]; exact h
    unfold reluD
    rw [hn1, hn1]
    simp only [decide_eq_true_eq]
    rw [if_pos e1, if_pos e3]; norm_num

/-- **the graph Relu builds** on a tracked, unspent input: `z = 0·x` with one back edge (Scale rule) to `x`;
    `r = ElMax(z, x)` with the two tie-aware back edges to `z` and to `x` -/
theorem relu_graph (H : Heap ℝ) (x : Nat) (hx : x < H.size) (hwf : (H.val x).WF)
    (ht : H.tracked x = true) (hd : H.dirty x = false) :
    ∃ z r H', actForward Activation.relu [some x] H = .ok (r, H') ∧ z = H.size ∧ r = H.size + 1 ∧
      H'.val z = vScale (H.val x) 0 ∧ H'.val x = H.val x ∧
      H'.val r = ⟨(H.val x).dims, (H.val x).data.map (fun a => max 0 a)⟩ ∧
      (H'.ctx z).edges = [⟨x, .scaleX 0⟩] ∧
      (H'.ctx r).edges = [⟨z, .elext r z x⟩, ⟨x, .elext r x z⟩] ∧ H'.tracked r = true := by
  -- run the two steps explicitly
  have h1 : hScale x (Scalar.zero : ℝ) H = .ok (H.size, H.push ⟨vScale (H.val x) Scalar.zero, mkCtx H [x] [⟨x, .scaleX Scalar.zero⟩]⟩) := by
    simp [hScale, hOp1, hm_bind, getHeap, liftOut, alloc, Out.bind]
  let H1 : Heap ℝ := H.push ⟨vScale (H.val x) (Scalar.zero : ℝ), mkCtx H [x] [⟨x, .scaleX Scalar.zero⟩]⟩
  have e1 : Extends H H1 := extends_push H _
  have hz1 : H1.val H.size = vScale (H.val x) Scalar.zero := push_val_new H _
  have hx1 : H1.val x = H.val x := e1.val hx
  have hcmp := vCmp_same .elmax (H1.val H.size) (H1.val x) (by rw [hz1]; exact map_wf _ _ hwf) (by rw [hx1]; exact hwf)
    (by rw [hz1, hx1]; rfl)
  have hsize1 : H1.size = H.size + 1 := by simp [H1]
  let R : Tensor ℝ := ⟨(H1.val H.size).dims, List.zipWith Cmp.elmax.fn (H1.val H.size).data (H1.val x).data⟩
  let cr : Ctx ℝ := mkCtx H1 [H.size, x] [⟨H.size, .elext H1.size H.size x⟩, ⟨x, .elext H1.size x H.size⟩]
  let H2 : Heap ℝ := H1.push ⟨R, cr⟩
  have h2 : hCmp .elmax H.size x H1 = .ok (H1.size, H2) := by
    simp [hCmp, hm_bind, getHeap, liftOut, alloc, Out.bind, hcmp, H2, R, cr]
  have e2 : Extends H1 H2 := extends_push H1 _
  have hxd : H1.dirty x = false := by simp [Heap.dirty, e1.ctx hx] at hd ⊢; exact hd
  have hxt : H1.tracked x = true := by simp [Heap.tracked, e1.ctx hx] at ht ⊢; exact ht
  have hzc : H1.ctx H.size = mkCtx H [x] [⟨x, .scaleX Scalar.zero⟩] := by simp [H1, Heap.ctx]
  have hzd : H1.dirty H.size = false := by
    simp only [Heap.dirty, hzc]
    cases h : (mkCtx H [x] [⟨x, Rule.scaleX (Scalar.zero : ℝ)⟩]).dirty with
    | false => rfl
    | true =>
      have := (C08.mkCtx_dirty_iff H [x] [⟨x, Rule.scaleX (Scalar.zero : ℝ)⟩]).mp h
      simp [hd] at this
  have hrc : H2.ctx H1.size = cr := by simp [H2, Heap.ctx]
  refine ⟨H.size, H1.size, H2, ?_, rfl, hsize1, ?_, ?_, ?_, ?_, ?_, ?_⟩
  · unfold actForward
    rw [bind_run (show (liftOut (oneInput [some x]) : HM ℝ Nat) H = .ok (x, H) from rfl)]
    simp only []
    rw [bind_run h1]
    exact h2
  · rw [e2.val (by rw [hsize1]; omega), hz1]; simp
  · rw [e2.val (by rw [hsize1]; omega), hx1]
  · have : H2.val H1.size = R := push_val_new H1 _
    rw [this]
    simp only [R, hz1, hx1, vScale, Tensor.map, Cmp.fn, C14.zipWith_map_left]
    congr 1
    apply List.map_congr_left
    intro a _; simp
  · rw [e2.ctx (by rw [hsize1]; omega), hzc]
    have hxd0 : H.dirty x = false := hd
    simp [mkCtx, hxd0, ht]
  · rw [hrc]
    simp [cr, mkCtx, hxd, hzd, hxt]
  · simp only [Heap.tracked, hrc, cr]
    rw [C08.mkCtx_tracked_iff]
    exact ⟨⟨x, by simp, hxt⟩, by intro n hn; simp at hn; rcases hn with rfl | rfl <;> assumption⟩

/-- value of the tie-aware ElMax / ElMin rule when result and both operands are element-wise images of one tensor `X` -/
theorem elext_maps (bm : BMode) (H : Heap ℝ) (y a b : Nat) (X G : Tensor ℝ) (fy fa fb : ℝ → ℝ)
    (hy : H.val y = X.map fy) (ha : H.val a = X.map fa) (hb : H.val b = X.map fb)
    (wX : X.WF) (wG : G.WF) (hd : G.dims = X.dims) :
    evalRule bm H G (.elext y a b) = .ok ⟨G.dims, List.zipWith (fun g v =>
      g * ((if Scalar.near (fy v) (fa v) then 1 else 0) - (1 / 2) * (if Scalar.near (fa v) (fb v) then 1 else 0))) G.data X.data⟩ := by
  simp only [evalRule, hy, ha, hb, bind, Out.bind]
  have wy := map_wf fy X wX
  have wa := map_wf fa X wX
  have wb := map_wf fb X wX
  rw [vCmp_same .eq _ _ wy wa rfl]
  simp only []
  rw [vCmp_same .eq _ _ wa wb rfl]
  simp only []
  have w1 : (⟨(X.map fy).dims, List.zipWith Cmp.eq.fn (X.map fy).data (X.map fa).data⟩ : Tensor ℝ).WF := zip_wf _ _ _ wy wa rfl
  have w2 : (vScale (⟨(X.map fa).dims, List.zipWith Cmp.eq.fn (X.map fa).data (X.map fb).data⟩ : Tensor ℝ) Scalar.half).WF :=
    map_wf _ _ (zip_wf _ _ _ wa wb rfl)
  rw [vArith_same .sub _ _ w1 w2 rfl]
  simp only []
  have w3 := zip_wf Arith.sub.fn _ _ w1 w2 rfl
  rw [vArith_same .mul G _ wG w3 (by simpa [Tensor.map] using hd)]
  simp only [Tensor.map, vScale, Cmp.fn, Arith.fn]
  congr 2
  have hl : G.data.length = X.data.length := by rw [wG.1, wX.1, hd]
  apply List.ext_getElem
  · simp [hl]
  · intro i h1 h2
    simp only [List.getElem_zipWith, List.getElem_map, mul_eq, sub_eq, Scalar.ofBool, half_eq, one_eq, zero_eq]

/-- **Relu, local backward pass**: with `g` the gradient arriving at Relu's result, the contribution through
    `z = 0·x` vanishes and the direct contribution is `g_i · relu'(x_i)`; their sum — what Relu's input receives — is
    `g_i · relu'(x_i)` with `relu' = 1` above the tie band, `0` below, `½` inside (`reluD_cases`). Any shape, any values. -/
theorem relu_local_vjp (bm : BMode) (H : Heap ℝ) (x z r : Nat) (G : Tensor ℝ)
    (hz : H.val z = vScale (H.val x) 0) (hr : H.val r = ⟨(H.val x).dims, (H.val x).data.map (fun a => max 0 a)⟩)
    (wX : (H.val x).WF) (wG : G.WF) (hd : G.dims = (H.val x).dims) :
    ∃ gz c1 c2, evalRule bm H G (.elext r z x) = .ok gz ∧ evalRule bm H G (.elext r x z) = .ok c1 ∧
      evalRule bm H gz (.scaleX 0) = .ok c2 ∧
      vArith .add c1 c2 = .ok ⟨G.dims, List.zipWith (fun g a => g * reluD a) G.data (H.val x).data⟩ := by
  have hX : H.val x = (H.val x).map id := by simp [Tensor.map]
  have hZ : H.val z = (H.val x).map (fun a => 0 * a) := by rw [hz]; simp [vScale, Tensor.map]
  have hR : H.val r = (H.val x).map (fun a => max 0 a) := by rw [hr]; rfl
  have e1 := elext_maps bm H r z x (H.val x) G (fun a => max 0 a) (fun a => 0 * a) id hR hZ hX wX wG hd
  have e2 := elext_maps bm H r x z (H.val x) G (fun a => max 0 a) id (fun a => 0 * a) hR hX hZ wX wG hd
  refine ⟨_, _, _, e1, e2, rfl, ?_⟩
  -- c1 + 0·gz
  have hl : G.data.length = (H.val x).data.length := by rw [wG.1, wX.1, hd]
  have wc : ∀ (f : ℝ → ℝ → ℝ), (⟨G.dims, List.zipWith f G.data (H.val x).data⟩ : Tensor ℝ).WF := by
    intro f
    refine ⟨?_, wG.2⟩
    simp only [List.length_zipWith]; rw [hl, Nat.min_self, ← hl, wG.1]
  have hv : ∀ (t : Tensor ℝ) (a : ℝ), vScale t a = t.map (fun u => a * u) := fun t a => rfl
  rw [hv, vArith_same .add _ _ (wc _) (map_wf _ _ (wc _)) rfl]
  simp only [Tensor.map, Arith.fn]
  congr 2
  apply List.ext_getElem
  · simp [hl]
  · intro i h1 h2
    simp [reluD]

/-- **Tanh**: one back edge, rule `g · cosh(x)⁻²`, and `cosh⁻²` is the derivative of `tanh` (`= 1 − tanh²`) -/
theorem tanh_local_vjp (bm : BMode) (H : Heap ℝ) (x : Nat) (G : Tensor ℝ) (wX : (H.val x).WF) (wG : G.WF)
    (hd : G.dims = (H.val x).dims) :
    evalRule bm H G (.tanhX x) = .ok ⟨G.dims, List.zipWith (fun g a => g * (Real.cosh a) ^ (-2 : ℝ)) G.data (H.val x).data⟩ ∧
    (∀ a : ℝ, HasDerivAt Real.tanh ((Real.cosh a) ^ (-2 : ℝ)) a) ∧
    (∀ a : ℝ, (Real.cosh a) ^ (-2 : ℝ) = 1 - Real.tanh a ^ 2) := by
  refine ⟨C02.rule_tanh bm H G x wG wX hd, d_tanh, ?_⟩
  intro a
  have hc : Real.cosh a ≠ 0 := (Real.cosh_pos a).ne'
  rw [show (-2 : ℝ) = -((2 : ℕ) : ℝ) by norm_num, Real.rpow_neg (Real.cosh_pos a).le, Real.rpow_natCast,
    Real.tanh_eq_sinh_div_cosh]
  field_simp
  nlinarith [Real.cosh_sq a]

end C15
end Qeep
