import QeepProps.C15x
import QeepProps.C01w
import QeepProps.C08z
/-!
# C15 — what `BackPropagate` stores on an activation's input (end to end)

`sigmoid_backprop`: take ANY heap the public API can build (`Reach`), any tracked, unspent tensor `x` in it — a leaf or the
output of earlier tracked operations (being unspent it carries no gradient: `reach_clean_nograd`); run `Sigmoid.Forward(x)` and then
`tensor.BackPropagate` on the result. If the back-propagation returns without error, `x.Gradient()` is exactly
`s(x)·(1 − s(x))` element by element (the upstream weighting is the all-ones seed), which is the Mathlib derivative of the
logistic function (`C15x.d_sig`). The proof runs the real walk: `C01w.grad_root` / `grad_single` / `grad_two` (every
tensor receives exactly what its consumers deliver, each back edge once) over the seven-node graph `C15x.sigmoid_graph`
describes, with the rule evaluations of `C15x.sigmoid_local_vjp`; the input's own ancestors are walked too and do not
matter (they are older, so none of them has an edge into the graph).
-/
set_option linter.unusedSimpArgs false
set_option linter.unusedSectionVars false
set_option linter.unusedVariables false

namespace Qeep
namespace C15z
open RealScalar C15x C01 C01x C01z C01w C20

section ids
variable {α : Type} [Scalar α]

theorem hOp1_id {x : Nat} {v : Out (Tensor α)} {rule : Nat → Rule α} {H H' : Heap α} {r : Nat}
    (h : hOp1 x v rule H = .ok (r, H')) : r = H.size ∧ H'.size = H.size + 1 := by
  unfold hOp1 at h
  obtain ⟨t, H1, h1, h2⟩ := bind_ok h
  obtain ⟨e1, rfl⟩ := liftOut_ok h1
  obtain ⟨H0, H2, h3, h4⟩ := bind_ok h2
  obtain ⟨rfl, rfl⟩ := getHeap_ok h3
  exact ⟨(alloc_ok h4).1, alloc_grows h4⟩

theorem hPow_id {x : Nat} {a : α} {H H' : Heap α} {r : Nat} (h : hPow x a H = .ok (r, H')) :
    r = H.size ∧ H'.size = H.size + 1 := by
  unfold hPow at h
  obtain ⟨H0, H1, h1, h2⟩ := bind_ok h
  obtain ⟨e0, e1⟩ := getHeap_ok h1
  rw [e0, e1] at h2
  exact hOp1_id h2

theorem hScale_id {x : Nat} {a : α} {H H' : Heap α} {r : Nat} (h : hScale x a H = .ok (r, H')) :
    r = H.size ∧ H'.size = H.size + 1 := by
  unfold hScale at h
  obtain ⟨H0, H1, h1, h2⟩ := bind_ok h
  obtain ⟨e0, e1⟩ := getHeap_ok h1
  rw [e0, e1] at h2
  exact hOp1_id h2

theorem hUnary_id {f : Unary} {x : Nat} {H H' : Heap α} {r : Nat} (h : hUnary f x H = .ok (r, H')) :
    r = H.size ∧ H'.size = H.size + 1 := by
  unfold hUnary at h
  obtain ⟨H0, H1, h1, h2⟩ := bind_ok h
  obtain ⟨e0, e1⟩ := getHeap_ok h1
  rw [e0, e1] at h2
  exact hOp1_id h2

theorem hBroadcast_id {x : Nat} {s : List Int} {H H' : Heap α} {r : Nat} (h : hBroadcast x s H = .ok (r, H')) :
    r = H.size ∧ H'.size = H.size + 1 := by
  unfold hBroadcast at h
  obtain ⟨H0, H1, h1, h2⟩ := bind_ok h
  obtain ⟨e0, e1⟩ := getHeap_ok h1
  rw [e0, e1] at h2
  exact hOp1_id h2

/-- `hArith_live` with the identities of the three tensors it allocates -/
theorem hArith_live_id {o : Arith} {a b : Nat} {H H' : Heap α} {r : Nat} (h : hArith o a b H = .ok (r, H'))
    (la : Live H a) (lb : Live H b) :
    ∃ a' b', a' = H.size ∧ b' = H.size + 1 ∧ r = H.size + 2 ∧ H'.size = H.size + 3 ∧ Extends H H' ∧
      vBroadcastN (H.val a) (targetBroadcastDims (H.val a).dims (H.val b).dims) = .ok (H'.val a') ∧
      vBroadcastN (H.val b) (targetBroadcastDims (H.val a).dims (H.val b).dims) = .ok (H'.val b') ∧
      vArith o (H.val a) (H.val b) = .ok (H'.val r) ∧
      H'.ctx a' = liveCtx [⟨a, .bcastX a a'⟩] ∧ H'.ctx b' = liveCtx [⟨b, .bcastX b b'⟩] ∧
      H'.ctx r = liveCtx (arithEdges o a' b') ∧ Live H' a' ∧ Live H' b' ∧ Live H' r := by
  obtain ⟨hv, _, hlt, hext⟩ := hArith_val la.1 lb.1 h
  unfold hArith at h
  obtain ⟨p, H1, h1, h2⟩ := bind_ok h
  obtain ⟨a', b'⟩ := p
  unfold hBroadcastPair at h1
  obtain ⟨H0, H0', g0, k1⟩ := bind_ok h1
  obtain ⟨e0, e0'⟩ := getHeap_ok g0
  rw [e0, e0'] at k1
  obtain ⟨a1, Ha, g1, k2⟩ := bind_ok k1
  obtain ⟨b1, Hb, g2, k3⟩ := bind_ok k2
  have hp : (pure (a1, b1) : HM α (Nat × Nat)) Hb = .ok ((a1, b1), Hb) := rfl
  rw [hp] at k3
  injection k3 with k3
  injection k3 with e1 e2
  injection e1 with ea eb
  subst ea eb e2
  obtain ⟨va, xa, ca, lva⟩ := hBroadcast_live g1 la
  obtain ⟨vb, xb, cb, lvb⟩ := hBroadcast_live g2 (lb.ext xa)
  obtain ⟨ia, sa⟩ := hBroadcast_id g1
  obtain ⟨ib, sb⟩ := hBroadcast_id g2
  rw [xa.val lb.1] at vb
  obtain ⟨H3, H3', g3, k4⟩ := bind_ok h2
  obtain ⟨e3, e3'⟩ := getHeap_ok g3
  rw [e3, e3'] at k4
  obtain ⟨t, H4, g4, k5⟩ := bind_ok k4
  obtain ⟨_, e4'⟩ := liftOut_ok g4
  rw [e4'] at k5
  obtain ⟨ir, _, cr, xr⟩ := alloc_ok k5
  have sr := alloc_grows k5
  have lva' : Live Hb a1 := lva.ext xb
  have hcr : H'.ctx r = liveCtx (arithEdges o a1 b1) := by
    rw [cr, mkCtx_live2 Hb a1 b1 _ lva' lvb]
    cases o <;> rfl
  refine ⟨a1, b1, ia, by omega, by omega, by omega, hext, ?_, ?_, hv, ?_, ?_, hcr, lva'.ext xr, lvb.ext xr, live_of_ctx hlt hcr⟩
  · rw [(xb.trans xr).val lva.1]; exact va
  · rw [xr.val lvb.1]; exact vb
  · rw [(xb.trans xr).ctx lva.1]; exact ca
  · rw [xr.ctx lvb.1]; exact cb

end ids

/-- **the Sigmoid graph with the identities of its tensors**: on a heap of size `N` the seven new tensors are `N … N+6`;
    the heap stays reachable -/
theorem sigmoid_full (bm : BMode) (H : Heap ℝ) (x : Nat) (hR : Reach bm H) (hwf : (H.val x).WF) (l : Live H x) :
    ∃ r H', actForward Activation.sigmoid [some x] H = .ok (r, H') ∧ Extends H H' ∧ Reach bm H' ∧
      r = H.size + 6 ∧ H'.size = H.size + 7 ∧
      H'.val x = H.val x ∧
      H'.val (H.size + 2) = (H.val x).map (fun a => Real.exp (-a)) ∧
      H'.val (H.size + 3) = H'.val H.size ∧ H'.val (H.size + 4) = H'.val (H.size + 2) ∧
      H'.val (H.size + 5) = (H.val x).map (fun a => 1 + Real.exp (-a)) ∧
      H'.val r = (H.val x).map sig ∧
      H'.ctx H.size = liveCtx [⟨x, .powX x 0⟩] ∧
      H'.ctx (H.size + 1) = liveCtx [⟨x, .scaleX (-1)⟩] ∧
      H'.ctx (H.size + 2) = liveCtx [⟨H.size + 1, .expX (H.size + 2)⟩] ∧
      H'.ctx (H.size + 3) = liveCtx [⟨H.size, .bcastX H.size (H.size + 3)⟩] ∧
      H'.ctx (H.size + 4) = liveCtx [⟨H.size + 2, .bcastX (H.size + 2) (H.size + 4)⟩] ∧
      H'.ctx (H.size + 5) = liveCtx [⟨H.size + 3, .idG⟩, ⟨H.size + 4, .idG⟩] ∧
      H'.ctx (H.size + 6) = liveCtx [⟨H.size + 5, .powX (H.size + 5) (-1)⟩] := by
  obtain ⟨r, H', hrun, hext, hval⟩ := C14.sigmoid_value H x l.1 hwf
  have h := hrun
  unfold actForward at h
  rw [bind_run (show (liftOut (oneInput [some x]) : HM ℝ Nat) H = .ok (x, H) from rfl)] at h
  simp only [] at h
  obtain ⟨o, H1, g1, h⟩ := bind_ok h
  obtain ⟨vo, e1, co, lo⟩ := hPow_live g1 l
  obtain ⟨io, s1⟩ := hPow_id g1
  obtain ⟨x1, H2, g2, h⟩ := bind_ok h
  obtain ⟨vx1, e2, cx1, lx1⟩ := hScale_live g2 (l.ext e1)
  obtain ⟨ix1, s2⟩ := hScale_id g2
  obtain ⟨x2, H3, g3, h⟩ := bind_ok h
  obtain ⟨vx2, e3, cx2, lx2⟩ := hUnary_live g3 lx1
  obtain ⟨ix2, s3⟩ := hUnary_id g3
  obtain ⟨y, H4, g4, g5⟩ := bind_ok h
  have lo3 : Live H3 o := (lo.ext e2).ext e3
  obtain ⟨o', x2', io', ix2', iy, s4, e4, vo', vx2', vy, co', cx2', cy, lo', lx2', ly⟩ := hArith_live_id g4 lo3 lx2
  obtain ⟨vr, e5, cr, lr⟩ := hPow_live g5 ly
  obtain ⟨ir, s5⟩ := hPow_id g5
  -- reachability, step by step
  have R1 : Reach bm H1 := Reach.pow hR l.1 g1
  have R2 : Reach bm H2 := Reach.scale R1 (l.ext e1).1 g2
  have R3 : Reach bm H3 := Reach.unary R2 lx1.1 g3
  have R4 : Reach bm H4 := Reach.arith R3 lo3.1 lx2.1 g4
  have R5 : Reach bm H' := Reach.pow R4 ly.1 g5
  -- identities
  have eo : o = H.size := io
  have ex1 : x1 = H.size + 1 := by omega
  have ex2 : x2 = H.size + 2 := by omega
  have eo' : o' = H.size + 3 := by omega
  have ex2' : x2' = H.size + 4 := by omega
  have ey : y = H.size + 5 := by omega
  have er : r = H.size + 6 := by omega
  -- values below the Add
  have hx1 : H1.val x = H.val x := e1.val l.1
  have ho3 : H3.val o = vPow (H.val x) Scalar.zero := by rw [(e2.trans e3).val lo.1, vo]
  have hx23 : H3.val x2 = (H.val x).map (fun a => Real.exp (-a)) := by
    rw [vx2, vx1, hx1]
    simp only [vUnary, vScale, Tensor.map, Unary.fn, List.map_map]
    congr 1
    apply List.map_congr_left
    intro a _
    simp
  have wo : (H3.val o).WF := by rw [ho3]; exact map_wf _ _ hwf
  have wx2 : (H3.val x2).WF := by rw [hx23]; exact map_wf _ _ hwf
  have hdd : (H3.val o).dims = (H3.val x2).dims := by rw [ho3, hx23]; rfl
  rw [← hdd, targetBroadcastDims_self, vBroadcastN_self _ wo] at vo'
  rw [← hdd, targetBroadcastDims_self, hdd, vBroadcastN_self _ wx2] at vx2'
  rw [vArith_same .add _ _ wo wx2 hdd] at vy
  injection vo' with vo'
  injection vx2' with vx2'
  injection vy with vy
  have e45 : Extends H4 H' := e5
  have e35 : Extends H3 H' := e4.trans e5
  subst eo ex1 ex2 eo' ex2' ey
  refine ⟨r, H', hrun, hext, R5, er, by omega, hext.val l.1, ?_, ?_, ?_, ?_, ?_, ?_, ?_, ?_, ?_, ?_, ?_, ?_⟩
  · rw [e35.val lx2.1, hx23]
  · rw [e45.val lo'.1, e35.val lo3.1, vo']
  · rw [e45.val lx2'.1, e35.val lx2.1, vx2']
  · rw [e45.val ly.1, ← vy, ho3, hx23]
    simp only [vPow, Tensor.map, Arith.fn]
    congr 1
    rw [C14.zipWith_maps]
    apply List.map_congr_left
    intro a _
    simp
  · rw [hval]; rfl
  · rw [(((e2.trans e3).trans e4).trans e5).ctx lo.1, co, zero_eq]
  · rw [((e3.trans e4).trans e5).ctx lx1.1, cx1, neg_eq, one_eq]
  · rw [e35.ctx lx2.1, cx2]; rfl
  · rw [e45.ctx lo'.1, co']
  · rw [e45.ctx lx2'.1, cx2']
  · rw [e45.ctx ly.1, cy]; rfl
  · rw [← er, cr, neg_eq, one_eq]

theorem liveCtx_grad (H : Heap ℝ) (n : Nat) (es : List (Edge ℝ)) (h : H.ctx n = liveCtx es) :
    H.grad n = none ∧ H.tracked n = true ∧ (H.ctx n).edges = es := by
  simp [Heap.grad, Heap.tracked, h, liveCtx]

theorem mem_succs_edge (H : Heap ℝ) (u v : Nat) (h : v ∈ succs H u) : ∃ e ∈ (H.ctx u).edges, e.target = v := by
  unfold succs at h
  obtain ⟨hm, _⟩ := List.mem_filter.mp h
  obtain ⟨e, he, rfl⟩ := List.mem_map.mp hm
  exact ⟨e, he, rfl⟩

theorem no_edge_to (H : Heap ℝ) (v n : Nat) (es : List (Edge ℝ)) (hc : H.ctx v = liveCtx es)
    (h : ∀ e ∈ es, e.target ≠ n) : ∀ e ∈ (H.ctx v).edges, e.target ≠ n := by
  rw [(liveCtx_grad H v es hc).2.2]; exact h

/-- closes `∀ e ∈ edges v, e.target ≠ n` for a node whose context is known, by listing the node's edges -/
macro "edge_ne" c:term : tactic =>
  `(tactic| exact no_edge_to _ _ _ _ $c (by simp <;> omega))

/-- **Sigmoid, end to end** (see the header) -/
theorem sigmoid_backprop (bm : BMode) (H : Heap ℝ) (x : Nat) (hR : Reach bm H) (hwf : (H.val x).WF) (l : Live H x) :
    ∃ r H', actForward Activation.sigmoid [some x] H = .ok (r, H') ∧ H'.val r = (H.val x).map sig ∧
      ((backprop bm H' r).status = .ok () →
        (backprop bm H' r).heap.grad x
          = some ⟨(H.val x).dims, (H.val x).data.map (fun a => sig a * (1 - sig a))⟩) := by
  obtain ⟨r, H', hrun, hext, hR', er, hsz, vx, vx2, vo', vx2', vy, vr, c0, c1, c2, c3, c4, c5, c6⟩ :=
    sigmoid_full bm H x hR hwf l
  refine ⟨r, H', hrun, vr, ?_⟩
  intro hok
  have hgx : H.grad x = none := reach_clean_nograd hR x l.2.2
  subst er
  have hdag := reach_dag hR'
  have hxN : x < H.size := l.1
  obtain ⟨g6, t6, e6⟩ := liveCtx_grad H' _ _ c6
  obtain ⟨g5, t5, e5⟩ := liveCtx_grad H' _ _ c5
  obtain ⟨g4, t4, e4⟩ := liveCtx_grad H' _ _ c4
  obtain ⟨g3, t3, e3⟩ := liveCtx_grad H' _ _ c3
  obtain ⟨g2, t2, e2⟩ := liveCtx_grad H' _ _ c2
  obtain ⟨g1, t1, e1⟩ := liveCtx_grad H' _ _ c1
  obtain ⟨g0, t0, e0⟩ := liveCtx_grad H' _ _ c0
  have tx : H'.tracked x = true := by have := l.2.1; simp only [Heap.tracked, hext.ctx hxN] at this ⊢; exact this
  have gx : H'.grad x = none := by simp only [Heap.grad, hext.ctx hxN] at hgx ⊢; exact hgx
  obtain ⟨hroot, hcl, _, hnd⟩ := backwardOrder_spec H' (H.size + 6) hdag t6
  -- who is visited
  have hM : ∀ v ∈ backwardOrder H' (H.size + 6), v = H.size + 6 ∨ v = H.size + 5 ∨ v = H.size + 3 ∨ v = H.size + 4 ∨
      v = H.size ∨ v = H.size + 2 ∨ v = H.size + 1 ∨ v ≤ x := by
    apply order_subset H' (H.size + 6)
    · left; rfl
    · intro u hu v hv
      obtain ⟨e, he, rfl⟩ := mem_succs_edge H' u v hv
      rcases hu with rfl | rfl | rfl | rfl | rfl | rfl | rfl | hle
      · rw [e6] at he; simp at he; subst he; simp
      · rw [e5] at he; simp at he; rcases he with rfl | rfl <;> simp
      · rw [e3] at he; simp at he; subst he; simp
      · rw [e4] at he; simp at he; subst he; simp
      · rw [e0] at he; simp at he; subst he; simp
      · rw [e2] at he; simp at he; subst he; simp
      · rw [e1] at he; simp at he; subst he; simp
      · have := hdag u e he
        right; right; right; right; right; right; right; omega
  have mem_of (u v : Nat) (hu : u ∈ backwardOrder H' (H.size + 6)) (r' : Rule ℝ) (he : (⟨v, r'⟩ : Edge ℝ) ∈ (H'.ctx u).edges)
      (hv : H'.tracked v = true) : v ∈ backwardOrder H' (H.size + 6) := by
    apply hcl u hu
    unfold succs
    exact List.mem_filter.mpr ⟨List.mem_map.mpr ⟨⟨v, r'⟩, he, rfl⟩, hv⟩
  have m6 := hroot
  have m5 := mem_of _ (H.size + 5) m6 (.powX (H.size + 5) (-1)) (by rw [e6]; simp) t5
  have m3 := mem_of _ (H.size + 3) m5 .idG (by rw [e5]; simp) t3
  have m4 := mem_of _ (H.size + 4) m5 .idG (by rw [e5]; simp) t4
  have m0 := mem_of _ H.size m3 (.bcastX H.size (H.size + 3)) (by rw [e3]; simp) t0
  have m2 := mem_of _ (H.size + 2) m4 (.bcastX (H.size + 2) (H.size + 4)) (by rw [e4]; simp) t2
  have m1 := mem_of _ (H.size + 1) m2 (.expX (H.size + 2)) (by rw [e2]; simp) t1
  -- values seen by the rules (spent flags do not change values)
  let H1 := markDirty H' (backwardOrder H' (H.size + 6))
  have hv1 : ∀ n, H1.val n = H'.val n := fun n => markDirty_val _ _ n
  let X := H.val x
  let G : Tensor ℝ := vPow (X.map sig) Scalar.zero
  have sG : Shaped X.dims G := ones_shaped (X.map sig) (map_wf _ _ hwf)
  have wG : G.WF := sG.1
  have hd : G.dims = X.dims := sG.2
  have shp : ∀ φ, Shaped X.dims (gz G X φ) := fun φ => ⟨gz_wf G X φ hwf wG hd, hd⟩
  -- the walk, tensor by tensor
  have f6 : (backprop bm H' (H.size + 6)).heap.grad (H.size + 6) = some (gz G X (fun _ => 1)) := by
    rw [gz_one G X hwf wG hd]
    have := grad_root bm H' (H.size + 6) hdag t6 hok g6 (by rw [vr]; exact map_wf _ _ hwf)
    rw [vr] at this
    exact this
  let φy : ℝ → ℝ := fun a => 1 * (-1 * (1 + Real.exp (-a)) ^ ((-1 : ℝ) - 1))
  have f5 : (backprop bm H' (H.size + 6)).heap.grad (H.size + 5) = some (gz G X φy) := by
    apply grad_single bm H' (H.size + 6) hdag t6 hok (H.size + 5) (H.size + 6) m6 (by omega) g5 t5 (.powX (H.size + 5) (-1))
      (by rw [e6]; simp) ?_ (gz G X (fun _ => 1)) (gz G X φy) f6 ?_ X.dims (shp _)
    · intro v hv hne
      rcases hM v hv with rfl | rfl | rfl | rfl | rfl | rfl | rfl | hle
      · exact absurd rfl hne
      · edge_ne c5
      · edge_ne c3
      · edge_ne c4
      · edge_ne c0
      · edge_ne c2
      · edge_ne c1
      · intro e he; have := hdag v e he; omega
    · exact r_pow bm H1 G X (fun _ => 1) (fun a => 1 + Real.exp (-a)) (H.size + 5) hwf wG hd (-1) (by norm_num)
        (by rw [hv1, vy])
  have f3 : (backprop bm H' (H.size + 6)).heap.grad (H.size + 3) = some (gz G X φy) := by
    apply grad_single bm H' (H.size + 6) hdag t6 hok (H.size + 3) (H.size + 5) m5 (by omega) g3 t3 .idG
      (by rw [e5]; simp) ?_ (gz G X φy) (gz G X φy) f5 (r_id bm H1 G X φy) X.dims (shp _)
    intro v hv hne
    rcases hM v hv with rfl | rfl | rfl | rfl | rfl | rfl | rfl | hle
    · edge_ne c6
    · exact absurd rfl hne
    · edge_ne c3
    · edge_ne c4
    · edge_ne c0
    · edge_ne c2
    · edge_ne c1
    · intro e he; have := hdag v e he; omega
  have f4 : (backprop bm H' (H.size + 6)).heap.grad (H.size + 4) = some (gz G X φy) := by
    apply grad_single bm H' (H.size + 6) hdag t6 hok (H.size + 4) (H.size + 5) m5 (by omega) g4 t4 .idG
      (by rw [e5]; simp) ?_ (gz G X φy) (gz G X φy) f5 (r_id bm H1 G X φy) X.dims (shp _)
    intro v hv hne
    rcases hM v hv with rfl | rfl | rfl | rfl | rfl | rfl | rfl | hle
    · edge_ne c6
    · exact absurd rfl hne
    · edge_ne c3
    · edge_ne c4
    · edge_ne c0
    · edge_ne c2
    · edge_ne c1
    · intro e he; have := hdag v e he; omega
  have f0 : (backprop bm H' (H.size + 6)).heap.grad H.size = some (gz G X φy) := by
    apply grad_single bm H' (H.size + 6) hdag t6 hok H.size (H.size + 3) m3 (by omega) g0 t0 (.bcastX H.size (H.size + 3))
      (by rw [e3]; simp) ?_ (gz G X φy) (gz G X φy) f3
      (r_bcast bm H1 _ H.size (H.size + 3) (by rw [hv1, hv1, vo'])) X.dims (shp _)
    intro v hv hne
    rcases hM v hv with rfl | rfl | rfl | rfl | rfl | rfl | rfl | hle
    · edge_ne c6
    · edge_ne c5
    · exact absurd rfl hne
    · edge_ne c4
    · edge_ne c0
    · edge_ne c2
    · edge_ne c1
    · intro e he; have := hdag v e he; omega
  have f2 : (backprop bm H' (H.size + 6)).heap.grad (H.size + 2) = some (gz G X φy) := by
    apply grad_single bm H' (H.size + 6) hdag t6 hok (H.size + 2) (H.size + 4) m4 (by omega) g2 t2
      (.bcastX (H.size + 2) (H.size + 4))
      (by rw [e4]; simp) ?_ (gz G X φy) (gz G X φy) f4
      (r_bcast bm H1 _ (H.size + 2) (H.size + 4) (by rw [hv1, hv1, vx2'])) X.dims (shp _)
    intro v hv hne
    rcases hM v hv with rfl | rfl | rfl | rfl | rfl | rfl | rfl | hle
    · edge_ne c6
    · edge_ne c5
    · edge_ne c3
    · exact absurd rfl hne
    · edge_ne c0
    · edge_ne c2
    · edge_ne c1
    · intro e he; have := hdag v e he; omega
  let φ1 : ℝ → ℝ := fun a => φy a * Real.exp (-a)
  have f1 : (backprop bm H' (H.size + 6)).heap.grad (H.size + 1) = some (gz G X φ1) := by
    apply grad_single bm H' (H.size + 6) hdag t6 hok (H.size + 1) (H.size + 2) m2 (by omega) g1 t1 (.expX (H.size + 2))
      (by rw [e2]; simp) ?_ (gz G X φy) (gz G X φ1) f2
      (r_exp bm H1 G X φy (fun a => Real.exp (-a)) (H.size + 2) hwf wG hd (by rw [hv1, vx2])) X.dims (shp _)
    intro v hv hne
    rcases hM v hv with rfl | rfl | rfl | rfl | rfl | rfl | rfl | hle
    · edge_ne c6
    · edge_ne c5
    · edge_ne c3
    · edge_ne c4
    · edge_ne c0
    · exact absurd rfl hne
    · edge_ne c1
    · intro e he; have := hdag v e he; omega
  -- the input: two consumers
  have hX : H1.val x = X.map id := by rw [hv1, vx]; simp [Tensor.map, X]
  have fx := grad_two bm H' (H.size + 6) hdag t6 hok x (H.size + 1) H.size m1 m0 (by omega) (by omega) gx tx
    (.scaleX (-1)) (.powX x 0) (by rw [e1]; simp) (by rw [e0]; simp)
    (by
      intro v hv hn1 hn0
      rcases hM v hv with rfl | rfl | rfl | rfl | rfl | rfl | rfl | hle
      · edge_ne c6
      · edge_ne c5
      · edge_ne c3
      · edge_ne c4
      · exact absurd rfl hn0
      · edge_ne c2
      · exact absurd rfl hn1
      · intro e he; have := hdag v e he; omega)
    (gz G X φ1) (gz G X (fun a => -1 * φ1 a)) (gz G X φy) (gz G X (fun _ => 0)) _ f1 f0
    (r_scale bm H1 G X φ1 (-1)) (r_pow0 bm H1 G X φy id x hwf wG hd hX) X.dims (shp _) (shp _)
    (gz_add G X _ _ hwf wG hd)
  rw [fx]
  congr 1
  rw [gz_congr G X _ _ sig_factor]
  -- G is all ones
  simp only [gz, G, vPow, Tensor.map, X]
  congr 1
  rw [List.map_map, C14.zipWith_map_left]
  simp [List.zipWith_self]

/-! ## Relu -/

theorem hCmp_id {c : Cmp} {a b : Nat} {H H' : Heap ℝ} {r : Nat} (h : hCmp c a b H = .ok (r, H')) :
    r = H.size := (hCmp_val h).2.1

/-- the Relu graph with identities: `z = N`, `r = N + 1` -/
theorem relu_full (bm : BMode) (H : Heap ℝ) (x : Nat) (hR : Reach bm H) (hwf : (H.val x).WF) (l : Live H x) :
    ∃ r H', actForward Activation.relu [some x] H = .ok (r, H') ∧ Extends H H' ∧ Reach bm H' ∧
      r = H.size + 1 ∧ H'.val x = H.val x ∧
      H'.val H.size = (H.val x).map (fun a => 0 * a) ∧
      H'.val r = (H.val x).map (fun a => max 0 a) ∧
      H'.ctx H.size = liveCtx [⟨x, .scaleX 0⟩] ∧
      H'.ctx (H.size + 1) = liveCtx [⟨H.size, .elext (H.size + 1) H.size x⟩, ⟨x, .elext (H.size + 1) x H.size⟩] := by
  obtain ⟨r, H', hrun, hext, hval⟩ := C14.relu_value H x l.1 hwf
  have h := hrun
  unfold actForward at h
  rw [bind_run (show (liftOut (oneInput [some x]) : HM ℝ Nat) H = .ok (x, H) from rfl)] at h
  simp only [] at h
  obtain ⟨z, H1, g1, g2⟩ := bind_ok h
  obtain ⟨vz, e1, cz, lz⟩ := hScale_live g1 l
  obtain ⟨iz, s1⟩ := hScale_id g1
  have lx1 : Live H1 x := l.ext e1
  obtain ⟨vr, e2, cr, lr⟩ := hCmp_ext_live (Or.inl rfl) g2 lz lx1
  have ir := hCmp_id g2
  have R1 : Reach bm H1 := Reach.scale hR l.1 g1
  have R2 : Reach bm H' := Reach.cmp R1 lz.1 lx1.1 g2
  have er : r = H.size + 1 := by omega
  subst iz
  refine ⟨r, H', hrun, hext, R2, er, hext.val l.1, ?_, ?_, ?_, ?_⟩
  · rw [e2.val lz.1, vz]; simp [vScale, Tensor.map]
  · rw [hval]; rfl
  · rw [e2.ctx lz.1, cz, zero_eq]
  · rw [← er, cr]

/-- **Relu, end to end**: after `Relu.Forward(x)` and a successful `BackPropagate` of the result, `x.Gradient()` is
    `relu'(x)` element by element — 1 above the tie band, 0 below, ½ inside (`C15.reluD_cases`) — whatever `x` was computed from -/
theorem relu_backprop (bm : BMode) (H : Heap ℝ) (x : Nat) (hR : Reach bm H) (hwf : (H.val x).WF) (l : Live H x) :
    ∃ r H', actForward Activation.relu [some x] H = .ok (r, H') ∧ H'.val r = (H.val x).map (fun a => max 0 a) ∧
      ((backprop bm H' r).status = .ok () →
        (backprop bm H' r).heap.grad x = some ⟨(H.val x).dims, (H.val x).data.map C15.reluD⟩) := by
  obtain ⟨r, H', hrun, hext, hR', er, vx, vz, vr, c0, c1⟩ := relu_full bm H x hR hwf l
  refine ⟨r, H', hrun, vr, ?_⟩
  intro hok
  have hgx : H.grad x = none := reach_clean_nograd hR x l.2.2
  subst er
  have hdag := reach_dag hR'
  have hxN : x < H.size := l.1
  obtain ⟨g1, t1, e1⟩ := liveCtx_grad H' _ _ c1
  obtain ⟨g0, t0, e0⟩ := liveCtx_grad H' _ _ c0
  have tx : H'.tracked x = true := by have := l.2.1; simp only [Heap.tracked, hext.ctx hxN] at this ⊢; exact this
  have gx : H'.grad x = none := by simp only [Heap.grad, hext.ctx hxN] at hgx ⊢; exact hgx
  obtain ⟨hroot, hcl, _, hnd⟩ := backwardOrder_spec H' (H.size + 1) hdag t1
  have hM : ∀ v ∈ backwardOrder H' (H.size + 1), v = H.size + 1 ∨ v = H.size ∨ v ≤ x := by
    apply order_subset H' (H.size + 1)
    · left; rfl
    · intro u hu v hv
      obtain ⟨e, he, rfl⟩ := mem_succs_edge H' u v hv
      rcases hu with rfl | rfl | hle
      · rw [e1] at he; simp at he; rcases he with rfl | rfl <;> simp
      · rw [e0] at he; simp at he; subst he; simp
      · have := hdag u e he
        right; right; omega
  have m1 := hroot
  have m0 : H.size ∈ backwardOrder H' (H.size + 1) := by
    apply hcl (H.size + 1) m1
    unfold succs
    exact List.mem_filter.mpr ⟨List.mem_map.mpr ⟨⟨H.size, .elext (H.size + 1) H.size x⟩, by rw [e1]; simp, rfl⟩, t0⟩
  let H1 := markDirty H' (backwardOrder H' (H.size + 1))
  have hv1 : ∀ n, H1.val n = H'.val n := fun n => markDirty_val _ _ n
  let X := H.val x
  let G : Tensor ℝ := vPow (X.map (fun a => max 0 a)) Scalar.zero
  have sG : Shaped X.dims G := ones_shaped (X.map (fun a => max 0 a)) (map_wf _ _ hwf)
  have wG : G.WF := sG.1
  have hd : G.dims = X.dims := sG.2
  have shp : ∀ φ, Shaped X.dims (gz G X φ) := fun φ => ⟨gz_wf G X φ hwf wG hd, hd⟩
  have hX : H1.val x = X.map id := by rw [hv1, vx]; simp [Tensor.map, X]
  have hZ : H1.val H.size = X.map (fun a => 0 * a) := by rw [hv1, vz]
  have hRv : H1.val (H.size + 1) = X.map (fun a => max 0 a) := by rw [hv1, vr]
  have f1 : (backprop bm H' (H.size + 1)).heap.grad (H.size + 1) = some (gz G X (fun _ => 1)) := by
    rw [gz_one G X hwf wG hd]
    have := grad_root bm H' (H.size + 1) hdag t1 hok g1 (by rw [vr]; exact map_wf _ _ hwf)
    rw [vr] at this
    exact this
  -- z receives the ElMax rule towards its first operand
  have f0 := grad_single bm H' (H.size + 1) hdag t1 hok H.size (H.size + 1) m1 (by omega) g0 t0
    (.elext (H.size + 1) H.size x) (by rw [e1]; simp [List.filter_cons, show ¬ x = H.size by omega])
    (by
      intro v hv hne
      rcases hM v hv with rfl | rfl | hle
      · exact absurd rfl hne
      · edge_ne c0
      · intro e he; have := hdag v e he; omega)
    (gz G X (fun _ => 1)) _ f1
    (r_elext bm H1 G X (fun _ => 1) hwf wG hd (H.size + 1) H.size x (fun a => max 0 a) (fun a => 0 * a) id hRv hZ hX)
    X.dims (shp _)
  -- x: from r directly, and from z through Scale(0)
  have fx := grad_two bm H' (H.size + 1) hdag t1 hok x (H.size + 1) H.size m1 m0 (by omega) (by omega) gx tx
    (.elext (H.size + 1) x H.size) (.scaleX 0)
    (by rw [e1]; simp [List.filter_cons, show ¬ H.size = x by omega]) (by rw [e0]; simp)
    (by
      intro v hv hn1 hn0
      rcases hM v hv with rfl | rfl | hle
      · exact absurd rfl hn1
      · exact absurd rfl hn0
      · intro e he; have := hdag v e he; omega)
    (gz G X (fun _ => 1)) _ _ _ _ f1 f0
    (r_elext bm H1 G X (fun _ => 1) hwf wG hd (H.size + 1) x H.size (fun a => max 0 a) id (fun a => 0 * a) hRv hX hZ)
    (r_scale bm H1 G X _ 0) X.dims (shp _) (shp _)
    (gz_add G X _ _ hwf wG hd)
  rw [fx]
  congr 1
  -- G is all ones; the tie-aware coefficient is reluD
  simp only [gz, G, vPow, Tensor.map, X]
  congr 1
  rw [List.map_map, C14.zipWith_map_left]
  simp only [List.zipWith_self, Function.comp]
  apply List.map_congr_left
  intro a _
  simp only [C15.reluD, id]
  ring_nf
  simp

/-! ## Tanh -/

/-- **Tanh, end to end**: `x.Gradient()` after `Tanh.Forward(x)` and a successful `BackPropagate` is `cosh(x)⁻² = 1 − tanh²(x)` -/
theorem tanh_backprop (bm : BMode) (H : Heap ℝ) (x : Nat) (hR : Reach bm H) (hwf : (H.val x).WF) (l : Live H x) :
    ∃ r H', actForward Activation.tanh [some x] H = .ok (r, H') ∧ H'.val r = (H.val x).map Real.tanh ∧
      ((backprop bm H' r).status = .ok () →
        (backprop bm H' r).heap.grad x = some ⟨(H.val x).dims, (H.val x).data.map (fun a => (Real.cosh a) ^ (-2 : ℝ))⟩) := by
  obtain ⟨r, H', hrun, hext, hval⟩ := C14.tanh_value H x
  have h := hrun
  unfold actForward at h
  rw [bind_run (show (liftOut (oneInput [some x]) : HM ℝ Nat) H = .ok (x, H) from rfl)] at h
  simp only [] at h
  obtain ⟨vr, e1, cr, lr⟩ := hUnary_live h l
  obtain ⟨ir, s1⟩ := hUnary_id h
  have hR' : Reach bm H' := Reach.unary hR l.1 h
  have vr' : H'.val r = (H.val x).map Real.tanh := by rw [hval]; rfl
  refine ⟨r, H', hrun, vr', ?_⟩
  intro hok
  have hgx : H.grad x = none := reach_clean_nograd hR x l.2.2
  subst ir
  have hdag := reach_dag hR'
  have hxN : x < H.size := l.1
  have cr' : H'.ctx H.size = liveCtx [⟨x, .tanhX x⟩] := cr
  obtain ⟨g0, t0, e0⟩ := liveCtx_grad H' _ _ cr'
  have tx : H'.tracked x = true := by have := l.2.1; simp only [Heap.tracked, hext.ctx hxN] at this ⊢; exact this
  have gx : H'.grad x = none := by simp only [Heap.grad, hext.ctx hxN] at hgx ⊢; exact hgx
  obtain ⟨hroot, hcl, _, hnd⟩ := backwardOrder_spec H' H.size hdag t0
  have hM : ∀ v ∈ backwardOrder H' H.size, v = H.size ∨ v ≤ x := by
    apply order_subset H' H.size
    · left; rfl
    · intro u hu v hv
      obtain ⟨e, he, rfl⟩ := mem_succs_edge H' u v hv
      rcases hu with rfl | hle
      · rw [e0] at he; simp at he; subst he; simp
      · have := hdag u e he
        right; omega
  let H1 := markDirty H' (backwardOrder H' H.size)
  have hv1 : ∀ n, H1.val n = H'.val n := fun n => markDirty_val _ _ n
  let X := H.val x
  let G : Tensor ℝ := vPow (X.map Real.tanh) Scalar.zero
  have sG : Shaped X.dims G := ones_shaped (X.map Real.tanh) (map_wf _ _ hwf)
  have wX1 : (H1.val x).WF := by rw [hv1, hext.val hxN]; exact hwf
  have hd1 : G.dims = (H1.val x).dims := by rw [hv1, hext.val hxN]; exact sG.2
  have f0 : (backprop bm H' H.size).heap.grad H.size = some G := by
    have := grad_root bm H' H.size hdag t0 hok g0 (by rw [vr']; exact map_wf _ _ hwf)
    rw [vr'] at this
    exact this
  have fx := grad_single bm H' H.size hdag t0 hok x H.size hroot (by omega) gx tx (.tanhX x) (by rw [e0]; simp)
    (by
      intro v hv hne
      rcases hM v hv with rfl | hle
      · exact absurd rfl hne
      · intro e he; have := hdag v e he; omega)
    G _ f0 (C15.tanh_local_vjp bm H1 x G wX1 sG.1 hd1).1 X.dims
    ⟨⟨by
        have hl : G.data.length = (H1.val x).data.length := by rw [sG.1.1, wX1.1, hd1]
        simp only [List.length_zipWith, hl, Nat.min_self]; rw [← hl]; exact sG.1.1, sG.1.2⟩, sG.2⟩
  rw [fx]
  congr 1
  rw [hv1, hext.val hxN]
  simp only [G, vPow, Tensor.map, X]
  congr 1
  rw [List.map_map, C14.zipWith_map_left]
  simp [List.zipWith_self]

/-! ## LeakyRelu -/

/-- the LeakyRelu graph with identities: `z = N`, `s1 = N+1`, `s2 = N+2`, `s3 = N+3`, `s1' = N+4`, `s3' = N+5`, `r = N+6` -/
theorem leaky_full (bm : BMode) (m : ℝ) (H : Heap ℝ) (x : Nat) (hR : Reach bm H) (hwf : (H.val x).WF) (l : Live H x) :
    ∃ r H', actForward (Activation.leaky m) [some x] H = .ok (r, H') ∧ Extends H H' ∧ Reach bm H' ∧
      r = H.size + 6 ∧ H'.val x = H.val x ∧
      H'.val H.size = (H.val x).map (fun a => 0 * a) ∧
      H'.val (H.size + 1) = (H.val x).map (fun a => max 0 a) ∧ H'.val (H.size + 2) = (H.val x).map (fun a => min 0 a) ∧
      H'.val (H.size + 4) = H'.val (H.size + 1) ∧ H'.val (H.size + 5) = H'.val (H.size + 3) ∧
      H'.val r = (H.val x).map (fun a => max 0 a + m * min 0 a) ∧
      H'.ctx H.size = liveCtx [⟨x, .scaleX 0⟩] ∧
      H'.ctx (H.size + 1) = liveCtx [⟨H.size, .elext (H.size + 1) H.size x⟩, ⟨x, .elext (H.size + 1) x H.size⟩] ∧
      H'.ctx (H.size + 2) = liveCtx [⟨H.size, .elext (H.size + 2) H.size x⟩, ⟨x, .elext (H.size + 2) x H.size⟩] ∧
      H'.ctx (H.size + 3) = liveCtx [⟨H.size + 2, .scaleX m⟩] ∧
      H'.ctx (H.size + 4) = liveCtx [⟨H.size + 1, .bcastX (H.size + 1) (H.size + 4)⟩] ∧
      H'.ctx (H.size + 5) = liveCtx [⟨H.size + 3, .bcastX (H.size + 3) (H.size + 5)⟩] ∧
      H'.ctx (H.size + 6) = liveCtx [⟨H.size + 4, .idG⟩, ⟨H.size + 5, .idG⟩] := by
  obtain ⟨r, H', hrun, hext, hval⟩ := C14.leaky_value m H x l.1 hwf
  have h := hrun
  unfold actForward at h
  rw [bind_run (show (liftOut (oneInput [some x]) : HM ℝ Nat) H = .ok (x, H) from rfl)] at h
  simp only [] at h
  obtain ⟨z, H1, g1, h⟩ := bind_ok h
  obtain ⟨vz, e1, cz, lz⟩ := hScale_live g1 l
  obtain ⟨iz, sz1⟩ := hScale_id g1
  have lx1 : Live H1 x := l.ext e1
  obtain ⟨s1, H2, g2, h⟩ := bind_ok h
  obtain ⟨vs1, e2, cs1, ls1⟩ := hCmp_ext_live (Or.inl rfl) g2 lz lx1
  have is1 := hCmp_id g2
  obtain ⟨s2, H3, g3, h⟩ := bind_ok h
  obtain ⟨vs2, e3, cs2, ls2⟩ := hCmp_ext_live (Or.inr rfl) g3 (lz.ext e2) (lx1.ext e2)
  have is2 := hCmp_id g3
  obtain ⟨s3, H4, g4, g5⟩ := bind_ok h
  obtain ⟨vs3, e4, cs3, ls3⟩ := hScale_live g4 ls2
  obtain ⟨is3, sz4⟩ := hScale_id g4
  have ls14 : Live H4 s1 := (ls1.ext e3).ext e4
  obtain ⟨s1', s3', is1', is3', ir, sz5, e5, vs1', vs3', vr, cs1', cs3', cr, ls1', ls3', lr⟩ := hArith_live_id g5 ls14 ls3
  -- sizes
  have sz2 : H2.size = H1.size + 1 := by
    have := ls1.1; have h2 := e2.1; have := hCmp_id g2
    unfold hCmp at g2
    obtain ⟨H0, H1', h1, h2'⟩ := bind_ok g2
    obtain ⟨ea, eb⟩ := getHeap_ok h1
    rw [ea, eb] at h2'
    obtain ⟨t, H2', h3, h4⟩ := bind_ok h2'
    obtain ⟨_, e2'⟩ := liftOut_ok h3
    rw [e2'] at h4
    exact alloc_grows h4
  have sz3 : H3.size = H2.size + 1 := by
    unfold hCmp at g3
    obtain ⟨H0, H1', h1, h2'⟩ := bind_ok g3
    obtain ⟨ea, eb⟩ := getHeap_ok h1
    rw [ea, eb] at h2'
    obtain ⟨t, H2', h3, h4⟩ := bind_ok h2'
    obtain ⟨_, e2'⟩ := liftOut_ok h3
    rw [e2'] at h4
    exact alloc_grows h4
  have R1 : Reach bm H1 := Reach.scale hR l.1 g1
  have R2 : Reach bm H2 := Reach.cmp R1 lz.1 lx1.1 g2
  have R3 : Reach bm H3 := Reach.cmp R2 (lz.ext e2).1 (lx1.ext e2).1 g3
  have R4 : Reach bm H4 := Reach.scale R3 ls2.1 g4
  have R5 : Reach bm H' := Reach.arith R4 ls14.1 ls3.1 g5
  have ez : z = H.size := iz
  have es1 : s1 = H.size + 1 := by omega
  have es2 : s2 = H.size + 2 := by omega
  have es3 : s3 = H.size + 3 := by omega
  have es1' : s1' = H.size + 4 := by omega
  have es3' : s3' = H.size + 5 := by omega
  have er : r = H.size + 6 := by omega
  -- values (as in `C15x.leaky_graph`)
  have hx1 : H1.val x = H.val x := e1.val l.1
  have hz1 : H1.val z = (H.val x).map (fun a => 0 * a) := by rw [vz]; simp [vScale, Tensor.map]
  have wz : (H1.val z).WF := by rw [hz1]; exact map_wf _ _ hwf
  have wx : (H1.val x).WF := by rw [hx1]; exact hwf
  have hdzx : (H1.val z).dims = (H1.val x).dims := by rw [hz1, hx1]; rfl
  rw [vCmp_same .elmax _ _ wz wx hdzx] at vs1
  rw [e2.val lz.1, e2.val lx1.1, vCmp_same .elmin _ _ wz wx hdzx] at vs2
  injection vs1 with vs1
  injection vs2 with vs2
  have hs1 : H2.val s1 = (H.val x).map (fun a => max 0 a) := by
    rw [← vs1, hz1, hx1]
    simp only [Tensor.map, Cmp.fn, C14.zipWith_map_left]
    congr 1
    apply List.map_congr_left
    intro a _; simp
  have hs2 : H3.val s2 = (H.val x).map (fun a => min 0 a) := by
    rw [← vs2, hz1, hx1]
    simp only [Tensor.map, Cmp.fn, C14.zipWith_map_left]
    congr 1
    apply List.map_congr_left
    intro a _; simp
  have hs14 : H4.val s1 = (H.val x).map (fun a => max 0 a) := by rw [(e3.trans e4).val ls1.1, hs1]
  have hs34 : H4.val s3 = (H.val x).map (fun a => m * min 0 a) := by
    rw [vs3, hs2]; simp only [vScale, Tensor.map, List.map_map]; rfl
  have w1 : (H4.val s1).WF := by rw [hs14]; exact map_wf _ _ hwf
  have w3 : (H4.val s3).WF := by rw [hs34]; exact map_wf _ _ hwf
  have hdd : (H4.val s1).dims = (H4.val s3).dims := by rw [hs14, hs34]; rfl
  rw [← hdd, targetBroadcastDims_self, vBroadcastN_self _ w1] at vs1'
  rw [← hdd, targetBroadcastDims_self, hdd, vBroadcastN_self _ w3] at vs3'
  injection vs1' with vs1'
  injection vs3' with vs3'
  subst ez es1 es2 es3 es1' es3'
  refine ⟨r, H', hrun, hext, R5, er, hext.val l.1, ?_, ?_, ?_, ?_, ?_, ?_, ?_, ?_, ?_, ?_, ?_, ?_, ?_⟩
  · rw [(((e2.trans e3).trans e4).trans e5).val lz.1, hz1]
  · rw [e5.val ls14.1, hs14]
  · rw [(e4.trans e5).val ls2.1, hs2]
  · rw [e5.val ls14.1, vs1']
  · rw [e5.val ls3.1, vs3']
  · rw [hval]; rfl
  · rw [(((e2.trans e3).trans e4).trans e5).ctx lz.1, cz, zero_eq]
  · rw [((e3.trans e4).trans e5).ctx ls1.1, cs1]
  · rw [(e4.trans e5).ctx ls2.1, cs2]
  · rw [e5.ctx ls3.1, cs3]
  · exact cs1'
  · exact cs3'
  · rw [← er, cr]; rfl

/-- **LeakyRelu, end to end**: `x.Gradient()` after `LeakyRelu.Forward(x)` and a successful `BackPropagate` is `leakyD m x`
    element by element: 1 above the tie band, `m` below, `(1+m)/2` inside (`C15x.leakyD_cases`) -/
theorem leaky_backprop (bm : BMode) (m : ℝ) (H : Heap ℝ) (x : Nat) (hR : Reach bm H) (hwf : (H.val x).WF) (l : Live H x) :
    ∃ r H', actForward (Activation.leaky m) [some x] H = .ok (r, H') ∧
      H'.val r = (H.val x).map (fun a => max 0 a + m * min 0 a) ∧
      ((backprop bm H' r).status = .ok () →
        (backprop bm H' r).heap.grad x = some ⟨(H.val x).dims, (H.val x).data.map (leakyD m)⟩) := by
  obtain ⟨r, H', hrun, hext, hR', er, vx, vz, vs1, vs2, vs1', vs3', vr, c0, c1, c2, c3, c4, c5, c6⟩ :=
    leaky_full bm m H x hR hwf l
  refine ⟨r, H', hrun, vr, ?_⟩
  intro hok
  have hgx : H.grad x = none := reach_clean_nograd hR x l.2.2
  subst er
  have hdag := reach_dag hR'
  have hxN : x < H.size := l.1
  obtain ⟨g6, t6, e6⟩ := liveCtx_grad H' _ _ c6
  obtain ⟨g5, t5, e5⟩ := liveCtx_grad H' _ _ c5
  obtain ⟨g4, t4, e4⟩ := liveCtx_grad H' _ _ c4
  obtain ⟨g3, t3, e3⟩ := liveCtx_grad H' _ _ c3
  obtain ⟨g2, t2, e2⟩ := liveCtx_grad H' _ _ c2
  obtain ⟨g1, t1, e1⟩ := liveCtx_grad H' _ _ c1
  obtain ⟨g0, t0, e0⟩ := liveCtx_grad H' _ _ c0
  have tx : H'.tracked x = true := by have := l.2.1; simp only [Heap.tracked, hext.ctx hxN] at this ⊢; exact this
  have gx : H'.grad x = none := by simp only [Heap.grad, hext.ctx hxN] at hgx ⊢; exact hgx
  obtain ⟨hroot, hcl, _, hnd⟩ := backwardOrder_spec H' (H.size + 6) hdag t6
  have hM : ∀ v ∈ backwardOrder H' (H.size + 6), v = H.size + 6 ∨ v = H.size + 5 ∨ v = H.size + 4 ∨ v = H.size + 3 ∨
      v = H.size + 2 ∨ v = H.size + 1 ∨ v = H.size ∨ v ≤ x := by
    apply order_subset H' (H.size + 6)
    · left; rfl
    · intro u hu v hv
      obtain ⟨e, he, rfl⟩ := mem_succs_edge H' u v hv
      rcases hu with rfl | rfl | rfl | rfl | rfl | rfl | rfl | hle
      · rw [e6] at he; simp at he; rcases he with rfl | rfl <;> simp
      · rw [e5] at he; simp at he; subst he; simp
      · rw [e4] at he; simp at he; subst he; simp
      · rw [e3] at he; simp at he; subst he; simp
      · rw [e2] at he; simp at he; rcases he with rfl | rfl <;> simp
      · rw [e1] at he; simp at he; rcases he with rfl | rfl <;> simp
      · rw [e0] at he; simp at he; subst he; simp
      · have := hdag u e he
        right; right; right; right; right; right; right; omega
  have mem_of (u v : Nat) (hu : u ∈ backwardOrder H' (H.size + 6)) (r' : Rule ℝ) (he : (⟨v, r'⟩ : Edge ℝ) ∈ (H'.ctx u).edges)
      (hv : H'.tracked v = true) : v ∈ backwardOrder H' (H.size + 6) := by
    apply hcl u hu
    unfold succs
    exact List.mem_filter.mpr ⟨List.mem_map.mpr ⟨⟨v, r'⟩, he, rfl⟩, hv⟩
  have m6 := hroot
  have m4 := mem_of _ (H.size + 4) m6 .idG (by rw [e6]; simp) t4
  have m5 := mem_of _ (H.size + 5) m6 .idG (by rw [e6]; simp) t5
  have m1 := mem_of _ (H.size + 1) m4 (.bcastX (H.size + 1) (H.size + 4)) (by rw [e4]; simp) t1
  have m3 := mem_of _ (H.size + 3) m5 (.bcastX (H.size + 3) (H.size + 5)) (by rw [e5]; simp) t3
  have m2 := mem_of _ (H.size + 2) m3 (.scaleX m) (by rw [e3]; simp) t2
  have m0 := mem_of _ H.size m2 (.elext (H.size + 2) H.size x) (by rw [e2]; simp) t0
  let H1 := markDirty H' (backwardOrder H' (H.size + 6))
  have hv1 : ∀ n, H1.val n = H'.val n := fun n => markDirty_val _ _ n
  let X := H.val x
  let G : Tensor ℝ := vPow (X.map (fun a => max 0 a + m * min 0 a)) Scalar.zero
  have sG : Shaped X.dims G := ones_shaped (X.map (fun a => max 0 a + m * min 0 a)) (map_wf _ _ hwf)
  have wG : G.WF := sG.1
  have hd : G.dims = X.dims := sG.2
  have shp : ∀ φ, Shaped X.dims (gz G X φ) := fun φ => ⟨gz_wf G X φ hwf wG hd, hd⟩
  have hX : H1.val x = X.map id := by rw [hv1, vx]; simp [Tensor.map, X]
  have hZ : H1.val H.size = X.map (fun a => 0 * a) := by rw [hv1, vz]
  have hS1 : H1.val (H.size + 1) = X.map (fun a => max 0 a) := by rw [hv1, vs1]
  have hS2 : H1.val (H.size + 2) = X.map (fun a => min 0 a) := by rw [hv1, vs2]
  have one : gz G X (fun _ => 1) = G := gz_one G X hwf wG hd
  have f6 : (backprop bm H' (H.size + 6)).heap.grad (H.size + 6) = some (gz G X (fun _ => 1)) := by
    rw [one]
    have := grad_root bm H' (H.size + 6) hdag t6 hok g6 (by rw [vr]; exact map_wf _ _ hwf)
    rw [vr] at this
    exact this
  have f4 : (backprop bm H' (H.size + 6)).heap.grad (H.size + 4) = some (gz G X (fun _ => 1)) := by
    apply grad_single bm H' (H.size + 6) hdag t6 hok (H.size + 4) (H.size + 6) m6 (by omega) g4 t4 .idG
      (by rw [e6]; simp) ?_ _ _ f6 (r_id bm H1 G X _) X.dims (shp _)
    intro v hv hne
    rcases hM v hv with rfl | rfl | rfl | rfl | rfl | rfl | rfl | hle
    · exact absurd rfl hne
    · edge_ne c5
    · edge_ne c4
    · edge_ne c3
    · edge_ne c2
    · edge_ne c1
    · edge_ne c0
    · intro e he; have := hdag v e he; omega
  have f5 : (backprop bm H' (H.size + 6)).heap.grad (H.size + 5) = some (gz G X (fun _ => 1)) := by
    apply grad_single bm H' (H.size + 6) hdag t6 hok (H.size + 5) (H.size + 6) m6 (by omega) g5 t5 .idG
      (by rw [e6]; simp) ?_ _ _ f6 (r_id bm H1 G X _) X.dims (shp _)
    intro v hv hne
    rcases hM v hv with rfl | rfl | rfl | rfl | rfl | rfl | rfl | hle
    · exact absurd rfl hne
    · edge_ne c5
    · edge_ne c4
    · edge_ne c3
    · edge_ne c2
    · edge_ne c1
    · edge_ne c0
    · intro e he; have := hdag v e he; omega
  have f1 : (backprop bm H' (H.size + 6)).heap.grad (H.size + 1) = some (gz G X (fun _ => 1)) := by
    apply grad_single bm H' (H.size + 6) hdag t6 hok (H.size + 1) (H.size + 4) m4 (by omega) g1 t1
      (.bcastX (H.size + 1) (H.size + 4)) (by rw [e4]; simp) ?_ _ _ f4
      (r_bcast bm H1 _ (H.size + 1) (H.size + 4) (by rw [hv1, hv1, vs1'])) X.dims (shp _)
    intro v hv hne
    rcases hM v hv with rfl | rfl | rfl | rfl | rfl | rfl | rfl | hle
    · edge_ne c6
    · edge_ne c5
    · exact absurd rfl hne
    · edge_ne c3
    · edge_ne c2
    · edge_ne c1
    · edge_ne c0
    · intro e he; have := hdag v e he; omega
  have f3 : (backprop bm H' (H.size + 6)).heap.grad (H.size + 3) = some (gz G X (fun _ => 1)) := by
    apply grad_single bm H' (H.size + 6) hdag t6 hok (H.size + 3) (H.size + 5) m5 (by omega) g3 t3
      (.bcastX (H.size + 3) (H.size + 5)) (by rw [e5]; simp) ?_ _ _ f5
      (r_bcast bm H1 _ (H.size + 3) (H.size + 5) (by rw [hv1, hv1, vs3'])) X.dims (shp _)
    intro v hv hne
    rcases hM v hv with rfl | rfl | rfl | rfl | rfl | rfl | rfl | hle
    · edge_ne c6
    · exact absurd rfl hne
    · edge_ne c4
    · edge_ne c3
    · edge_ne c2
    · edge_ne c1
    · edge_ne c0
    · intro e he; have := hdag v e he; omega
  have f2 : (backprop bm H' (H.size + 6)).heap.grad (H.size + 2) = some (gz G X (fun a => m * 1)) := by
    apply grad_single bm H' (H.size + 6) hdag t6 hok (H.size + 2) (H.size + 3) m3 (by omega) g2 t2
      (.scaleX m) (by rw [e3]; simp) ?_ _ _ f3 (r_scale bm H1 G X _ m) X.dims (shp _)
    intro v hv hne
    rcases hM v hv with rfl | rfl | rfl | rfl | rfl | rfl | rfl | hle
    · edge_ne c6
    · edge_ne c5
    · edge_ne c4
    · exact absurd rfl hne
    · edge_ne c2
    · edge_ne c1
    · edge_ne c0
    · intro e he; have := hdag v e he; omega
  -- z: from ElMin and from ElMax
  let nr : ℝ → ℝ → ℝ := fun u v => if Scalar.near u v then 1 else 0
  let κ2z : ℝ → ℝ := fun a => (m * 1) * (nr (min 0 a) (0 * a) - (1 / 2) * nr (0 * a) (id a))
  let κ2x : ℝ → ℝ := fun a => (m * 1) * (nr (min 0 a) (id a) - (1 / 2) * nr (id a) (0 * a))
  let κ1z : ℝ → ℝ := fun a => 1 * (nr (max 0 a) (0 * a) - (1 / 2) * nr (0 * a) (id a))
  let κ1x : ℝ → ℝ := fun a => 1 * (nr (max 0 a) (id a) - (1 / 2) * nr (id a) (0 * a))
  have a1 : evalRule bm H1 (gz G X (fun a => m * 1)) (.elext (H.size + 2) H.size x) = .ok (gz G X κ2z) :=
    r_elext bm H1 G X (fun a => m * 1) hwf wG hd (H.size + 2) H.size x _ _ _ hS2 hZ hX
  have a2 : evalRule bm H1 (gz G X (fun a => m * 1)) (.elext (H.size + 2) x H.size) = .ok (gz G X κ2x) :=
    r_elext bm H1 G X (fun a => m * 1) hwf wG hd (H.size + 2) x H.size _ _ _ hS2 hX hZ
  have a3 : evalRule bm H1 (gz G X (fun _ => 1)) (.elext (H.size + 1) H.size x) = .ok (gz G X κ1z) :=
    r_elext bm H1 G X (fun _ => 1) hwf wG hd (H.size + 1) H.size x _ _ _ hS1 hZ hX
  have a4 : evalRule bm H1 (gz G X (fun _ => 1)) (.elext (H.size + 1) x H.size) = .ok (gz G X κ1x) :=
    r_elext bm H1 G X (fun _ => 1) hwf wG hd (H.size + 1) x H.size _ _ _ hS1 hX hZ
  have f0 : (backprop bm H' (H.size + 6)).heap.grad H.size = some (gz G X (fun a => κ2z a + κ1z a)) :=
    grad_two bm H' (H.size + 6) hdag t6 hok H.size (H.size + 2) (H.size + 1) m2 m1 (by omega) (by omega) g0 t0
      (.elext (H.size + 2) H.size x) (.elext (H.size + 1) H.size x)
      (by rw [e2]; simp [List.filter_cons, show ¬ x = H.size by omega])
      (by rw [e1]; simp [List.filter_cons, show ¬ x = H.size by omega])
      (by
        intro v hv hn2 hn1
        rcases hM v hv with rfl | rfl | rfl | rfl | rfl | rfl | rfl | hle
        · edge_ne c6
        · edge_ne c5
        · edge_ne c4
        · edge_ne c3
        · exact absurd rfl hn2
        · exact absurd rfl hn1
        · edge_ne c0
        · intro e he; have := hdag v e he; omega)
      _ _ _ _ _ f2 f1 a1 a3 X.dims (shp _) (shp _) (gz_add G X _ _ hwf wG hd)
  -- x: three consumers
  let κ3 : ℝ → ℝ := fun a => 0 * (κ2z a + κ1z a)
  have a5 : evalRule bm H1 (gz G X (fun a => κ2z a + κ1z a)) (.scaleX 0) = .ok (gz G X κ3) := r_scale bm H1 G X _ 0
  let cs : List Consumer :=
    [⟨H.size + 2, .elext (H.size + 2) x H.size, gz G X (fun a => m * 1), gz G X κ2x⟩,
     ⟨H.size + 1, .elext (H.size + 1) x H.size, gz G X (fun _ => 1), gz G X κ1x⟩,
     ⟨H.size, .scaleX 0, gz G X (fun a => κ2z a + κ1z a), gz G X κ3⟩]
  have s12 := shaped_add X.dims _ _ _ (shp κ2x) (shp κ1x) (gz_add G X κ2x κ1x hwf wG hd)
  have s123 := shaped_add X.dims _ _ _ (shp (fun a => κ2x a + κ1x a)) (shp κ3) (gz_add G X (fun a => κ2x a + κ1x a) κ3 hwf wG hd)
  have fx := grad_list bm H' (H.size + 6) hdag t6 hok x (by omega) gx tx cs (by simp [cs]) (by simp [cs]) X.dims
    (by
      intro c hc
      simp only [cs, List.mem_cons, List.mem_singleton, List.not_mem_nil, or_false] at hc
      rcases hc with rfl | rfl | rfl
      · exact ⟨m2, by rw [e2]; simp [List.filter_cons, show ¬ H.size = x by omega], f2, a2, shp _⟩
      · exact ⟨m1, by rw [e1]; simp [List.filter_cons, show ¬ H.size = x by omega], f1, a4, shp _⟩
      · exact ⟨m0, by rw [e0]; simp, f0, a5, shp _⟩)
    (by
      intro v hv hnot
      simp only [cs, List.map_cons, List.map_nil, List.mem_cons, List.mem_singleton, List.not_mem_nil, or_false, not_or] at hnot
      rcases hM v hv with rfl | rfl | rfl | rfl | rfl | rfl | rfl | hle
      · edge_ne c6
      · edge_ne c5
      · edge_ne c4
      · edge_ne c3
      · exact absurd rfl hnot.1
      · exact absurd rfl hnot.2.1
      · exact absurd rfl hnot.2.2
      · intro e he; have := hdag v e he; omega)
    (gz G X (fun a => (κ2x a + κ1x a) + κ3 a)) (shp _)
    (by
      intro t
      rw [s123.2 t, s12.2 t]
      simp [cs]
      ring)
  rw [fx]
  congr 1
  have hk : ∀ a, (κ2x a + κ1x a) + κ3 a = leakyD m a := by
    intro a
    simp only [κ2x, κ1x, κ3, κ2z, κ1z, nr, id, zero_mul, leakyD, C15.reluD, minD]
    ring
  rw [gz_congr G X _ _ hk]
  simp only [gz, G, vPow, Tensor.map, X]
  congr 1
  rw [List.map_map, C14.zipWith_map_left]
  simp only [List.zipWith_self, Function.comp]
  apply List.map_congr_left
  intro a _
  simp

/-- the hypotheses of the end-to-end theorems are satisfiable: a heap with one tracked leaf -/
example : ∃ (H : Heap ℝ) (x : Nat), Reach BMode.mean H ∧ (H.val x).WF ∧ Live H x := by
  refine ⟨#[⟨⟨[2], [1, 2]⟩, freshCtx true⟩], 0, Reach.leaf (v := ⟨[2], [1, 2]⟩) (b := true) (r := 0) Reach.empty rfl, ?_, ?_⟩
  · refine ⟨by simp [Heap.val, prod], ?_⟩
    intro d hd; simp [Heap.val] at hd; omega
  · exact ⟨by simp, by simp [Heap.tracked, Heap.ctx, freshCtx], by simp [Heap.dirty, Heap.ctx, freshCtx]⟩

end C15z
end Qeep
