import QeepProps.C09
/-!
# C06 (extension) — `TensorOf` holds exactly the caller's values

`vTensorOf depth x` is the model of `tensor.TensorOf(data, conf)` for the static Go types `float64` (`depth = 0`),
`[]float64`, … `[][][][]float64` (`depth = 4`); `NData` is a generic rose tree, so everything here is proved for
every depth. For every nested value the validator accepts:

* `tensorOf_get`          : the call succeeds, the result is well formed, its dims are the nesting lengths `shapeOf x`
                            (of length `depth`), and the element at every valid multi-index `[i₁, …, i_d]` is
                            `data[i₁]…[i_d]` (`lookup?`, a structural walk through the nested value);
* `tensorOf_branch_len`   : `shapeOf` (first-branch lengths) is the length of *every* branch at that level;
* `tensorOf_data_rowmajor`: the data list is the left-to-right flattening of the leaves;
* `tensorOf_rejects_ragged`, `tensorOf_rejects_iff`: ragged data, an empty level, or a nesting depth other than the
  static one give an error (never a panic, never a tensor).
-/
set_option linter.unusedSimpArgs false
set_option linter.unusedSectionVars false
set_option linter.unusedVariables false

namespace Qeep
namespace C06y

variable {α : Type}

open NData

/-! ## Specification-side definitions: shape, sub-value and element of a nested value -/

mutual
/-- nesting lengths along the first branch: `len(v)`, `len(v[0])`, `len(v[0][0])`, … down to the first leaf -/
def shapeOf : NData α → List Nat
  | leaf _ => []
  | node xs => xs.length :: shapeOfHead xs
def shapeOfHead : List (NData α) → List Nat
  | [] => []
  | x :: _ => shapeOf x
end

mutual
/-- `data[i₁]…[i_k]` for a prefix index (a sub-slice, or a number when the index is complete); `none` = out of range
    or indexing into a number -/
def sub? : NData α → List Nat → Option (NData α)
  | leaf v, [] => some (leaf v)
  | node xs, [] => some (node xs)
  | leaf _, _ :: _ => none
  | node xs, i :: is => subList? xs i is
def subList? : List (NData α) → Nat → List Nat → Option (NData α)
  | [], _, _ => none
  | x :: _, 0, is => sub? x is
  | _ :: xs, i + 1, is => subList? xs i is
end

/-- the number `data[i₁]…[i_d]`; `none` when the index is out of range, too short or too long -/
def lookup? (x : NData α) (idx : List Nat) : Option α :=
  match sub? x idx with
  | some (leaf v) => some v
  | _ => none

/-- all multi-indices of a shape, in lexicographic (= row-major) order -/
def indices : List Nat → List (List Nat)
  | [] => [[]]
  | d :: ds => (List.range d).flatMap (fun i => (indices ds).map (i :: ·))

/-- `x` is rectangular with level sizes `ds`: every sub-value reached by `k < |ds|` index steps is a slice of exactly
    `ds[k] > 0` entries (the same for **every** branch), every sub-value reached by `|ds|` steps is a number, and
    nothing lies deeper. -/
def Rect (ds : List Nat) (x : NData α) : Prop :=
  ∀ p y, sub? x p = some y →
    p.length ≤ ds.length ∧
    (∀ d, ds[p.length]? = some d → ∃ xs, y = node xs ∧ xs.length = d ∧ 0 < d) ∧
    (p.length = ds.length → ∃ v, y = leaf v)

/-- two slices at the same nesting level have different lengths -/
def Ragged (x : NData α) : Prop :=
  ∃ p q a b, p.length = q.length ∧ sub? x p = some (node a) ∧ sub? x q = some (node b) ∧ a.length ≠ b.length

/-- some slice (at any level) is empty -/
def HasEmpty (x : NData α) : Prop := ∃ p, sub? x p = some (node [])

/-- a number and a slice at the same nesting level (impossible for a Go static type; `NData` allows it) -/
def Uneven (x : NData α) : Prop :=
  ∃ p q v b, p.length = q.length ∧ sub? x p = some (leaf v) ∧ sub? x q = some (node b)

/-! ## Walks -/

theorem sub?_nil (x : NData α) : sub? x [] = some x := by
  cases x <;> simp only [sub?]

theorem subList?_eq : ∀ (xs : List (NData α)) (i : Nat) (is : List Nat),
    subList? xs i is = xs[i]?.bind (fun y => sub? y is)
  | [], i, is => by simp only [subList?]; simp
  | x :: xs, 0, is => by simp only [subList?]; simp
  | x :: xs, i + 1, is => by simp only [subList?]; rw [subList?_eq xs i is]; simp

/-- one index step is Go's slice indexing `xs[i]` -/
theorem sub?_cons (xs : List (NData α)) (i : Nat) (is : List Nat) :
    sub? (node xs) (i :: is) = xs[i]?.bind (fun y => sub? y is) := by
  simp only [sub?]; exact subList?_eq xs i is

theorem sub?_leaf_cons (v : α) (i : Nat) (is : List Nat) : sub? (leaf v) (i :: is) = none := by
  simp only [sub?]

theorem lookup?_leaf_nil (v : α) : lookup? (leaf v) [] = some v := by
  simp only [lookup?, sub?]

theorem lookup?_node_cons (xs : List (NData α)) (i : Nat) (is : List Nat) :
    lookup? (node xs) (i :: is) = xs[i]?.bind (fun y => lookup? y is) := by
  unfold lookup?
  rw [sub?_cons]
  cases xs[i]? with
  | none => rfl
  | some y => rfl

/-! ## The model's shape predicates, pointwise -/

theorem allHaveShape_iff (ds : List Nat) : ∀ xs : List (NData α),
    allHaveShape ds xs = true ↔ ∀ y ∈ xs, hasShape ds y = true
  | [] => by simp [allHaveShape]
  | x :: xs => by simp [allHaveShape, allHaveShape_iff ds xs]

theorem noEmptyList_iff : ∀ xs : List (NData α), noEmptyList xs = true ↔ ∀ y ∈ xs, noEmpty y = true
  | [] => by simp [noEmptyList]
  | x :: xs => by simp [noEmptyList, noEmptyList_iff xs]

theorem hasShape_nil_inv {x : NData α} (h : hasShape [] x = true) : ∃ v, x = leaf v := by
  cases x with
  | leaf v => exact ⟨v, rfl⟩
  | node xs => simp [hasShape] at h

theorem hasShape_cons_inv {d : Nat} {ds : List Nat} {x : NData α} (h : hasShape (d :: ds) x = true) :
    ∃ xs, x = node xs ∧ xs.length = d ∧ ∀ y ∈ xs, hasShape ds y = true := by
  cases x with
  | leaf v => simp [hasShape] at h
  | node xs =>
    simp only [hasShape, Bool.and_eq_true, beq_iff_eq] at h
    exact ⟨xs, rfl, h.1, (allHaveShape_iff ds xs).1 h.2⟩

theorem noEmpty_node_inv {xs : List (NData α)} (h : noEmpty (node xs) = true) :
    xs ≠ [] ∧ ∀ y ∈ xs, noEmpty y = true := by
  simp only [noEmpty, Bool.and_eq_true] at h
  refine ⟨?_, (noEmptyList_iff xs).1 h.2⟩
  intro e; rw [e] at h; simp at h

/-! ## Row-major layout of `flat` -/

theorem flatList_length (P : Nat) : ∀ xs : List (NData α), (∀ y ∈ xs, (flat y).length = P) →
    (flatList xs).length = xs.length * P
  | [], _ => by simp [flatList]
  | x :: xs, h => by
    have h1 := h x (by simp)
    have h2 := flatList_length P xs (fun y hy => h y (by simp [hy]))
    simp only [flatList, List.length_append, List.length_cons, h1, h2, Nat.add_mul, Nat.one_mul]
    omega

theorem flat_length : ∀ (ds : List Nat) (x : NData α), hasShape ds x = true → (flat x).length = prod ds
  | [], x, h => by
    obtain ⟨v, hx⟩ := hasShape_nil_inv h
    rw [hx]; simp [flat, prod]
  | d :: ds, x, h => by
    obtain ⟨xs, hx, hl, hall⟩ := hasShape_cons_inv h
    rw [hx]
    simp only [flat, prod]
    rw [flatList_length (prod ds) xs (fun y hy => flat_length ds y (hall y hy)), hl]

theorem flatList_getElem? (P : Nat) : ∀ (xs : List (NData α)) (i o : Nat) (y : NData α),
    (∀ z ∈ xs, (flat z).length = P) → xs[i]? = some y → o < P → (flatList xs)[i * P + o]? = (flat y)[o]?
  | [], i, o, y, _, hy, _ => by simp at hy
  | x :: xs, 0, o, y, h, hy, ho => by
    simp only [List.getElem?_cons_zero, Option.some.injEq] at hy
    have h1 := h x (by simp)
    simp only [flatList, Nat.zero_mul, Nat.zero_add]
    rw [List.getElem?_append_left (by omega), hy]
  | x :: xs, i + 1, o, y, h, hy, ho => by
    simp only [List.getElem?_cons_succ] at hy
    have h1 := h x (by simp)
    have ih := flatList_getElem? P xs i o y (fun z hz => h z (by simp [hz])) hy ho
    simp only [flatList]
    rw [List.getElem?_append_right (by rw [h1, Nat.add_mul]; omega), ← ih]
    congr 1
    rw [h1, Nat.add_mul]; omega

theorem offset_cons_valid {d i : Nat} {ds is : List Nat} (hi : i < d) (hl : is.length = ds.length) :
    offset (d :: ds) (i :: is) = (offset ds is).map (fun o => i * prod ds + o) := by
  simp only [offset, hi, if_true, hl, List.take_length]

theorem offset_valid : ∀ {ds is : List Nat}, Valid ds is → ∃ o, offset ds is = some o ∧ o < prod ds
  | _, _, .nil => ⟨0, by simp [offset], by simp [prod]⟩
  | _, _, .cons (d := d) (s := i) (ds := ds) (ss := is) hi hv => by
    obtain ⟨o, ho, hlt⟩ := offset_valid hv
    refine ⟨i * prod ds + o, by rw [offset_cons_valid hi hv.length_eq, ho]; rfl, ?_⟩
    simp only [prod]
    calc i * prod ds + o < i * prod ds + prod ds := by omega
      _ = (i + 1) * prod ds := by rw [Nat.add_mul, Nat.one_mul]
      _ ≤ d * prod ds := Nat.mul_le_mul_right _ (by omega)

/-- **core**: in a value of exact shape `ds`, the leaf reached by walking a valid index sits at the row-major offset
    of that index in the flattening -/
theorem flat_get : ∀ (idx ds : List Nat) (x : NData α), hasShape ds x = true → Valid ds idx →
    ∃ o v, offset ds idx = some o ∧ (flat x)[o]? = some v ∧ lookup? x idx = some v
  | [], [], x, h, .nil => by
    obtain ⟨v, hx⟩ := hasShape_nil_inv h
    rw [hx]
    exact ⟨0, v, by simp [offset], by simp [flat], lookup?_leaf_nil v⟩
  | i :: is, d :: ds, x, h, .cons hi hv => by
    obtain ⟨xs, hx, hl, hall⟩ := hasShape_cons_inv h
    have hix : i < xs.length := by omega
    have hy : xs[i]? = some xs[i] := List.getElem?_eq_getElem hix
    have hmem : xs[i] ∈ xs := List.mem_of_getElem? hy
    obtain ⟨o, v, ho, hv1, hv2⟩ := flat_get is ds xs[i] (hall _ hmem) hv
    obtain ⟨o', ho', hlt⟩ := offset_valid hv
    have hoo : o' = o := by rw [ho] at ho'; exact (Option.some.inj ho').symm
    rw [hoo] at hlt
    refine ⟨i * prod ds + o, v, by rw [offset_cons_valid hi hv.length_eq, ho]; rfl, ?_, ?_⟩
    · rw [hx]
      simp only [flat]
      rw [flatList_getElem? (prod ds) xs i o xs[i] (fun z hz => flat_length ds z (hall z hz)) hy hlt]
      exact hv1
    · rw [hx, lookup?_node_cons, hy]
      exact hv2

/-! ## Shape -/

theorem hasShape_pos : ∀ (ds : List Nat) (x : NData α), hasShape ds x = true → noEmpty x = true → ∀ d ∈ ds, 0 < d
  | [], _, _, _ => by simp
  | d :: ds, x, h, hne => by
    obtain ⟨xs, hx, hl, hall⟩ := hasShape_cons_inv h
    rw [hx] at hne
    obtain ⟨hnil, hne'⟩ := noEmpty_node_inv hne
    cases xs with
    | nil => exact absurd rfl hnil
    | cons y ys =>
      have ih := hasShape_pos ds y (hall y (by simp)) (hne' y (by simp))
      intro e he
      simp only [List.mem_cons] at he
      rcases he with he | he
      · rw [he, ← hl]; simp
      · exact ih e he

/-- the first-branch lengths of an exactly-shaped, nowhere-empty value are its shape -/
theorem shapeOf_of_hasShape : ∀ (ds : List Nat) (x : NData α), hasShape ds x = true → noEmpty x = true →
    shapeOf x = ds
  | [], x, h, _ => by
    obtain ⟨v, hx⟩ := hasShape_nil_inv h
    rw [hx]; simp only [shapeOf]
  | d :: ds, x, h, hne => by
    obtain ⟨xs, hx, hl, hall⟩ := hasShape_cons_inv h
    rw [hx] at hne ⊢
    obtain ⟨hnil, hne'⟩ := noEmpty_node_inv hne
    cases xs with
    | nil => exact absurd rfl hnil
    | cons y ys =>
      have ih := shapeOf_of_hasShape ds y (hall y (by simp)) (hne' y (by simp))
      simp only [shapeOf, shapeOfHead, ih, hl]

theorem firstDims_of_hasShape : ∀ (ds : List Nat) (x : NData α), hasShape ds x = true → noEmpty x = true →
    firstDims ds.length x = some ds
  | [], x, _, _ => by simp [firstDims]
  | d :: ds, x, h, hne => by
    obtain ⟨xs, hx, hl, hall⟩ := hasShape_cons_inv h
    rw [hx] at hne ⊢
    obtain ⟨hnil, hne'⟩ := noEmpty_node_inv hne
    cases xs with
    | nil => exact absurd rfl hnil
    | cons y ys =>
      have ih := firstDims_of_hasShape ds y (hall y (by simp)) (hne' y (by simp))
      simp only [List.length_cons, firstDims, ih, Option.map_some] at hl ⊢
      rw [hl]

theorem firstDims_length : ∀ (k : Nat) (x : NData α) (ds : List Nat), firstDims k x = some ds → ds.length = k
  | 0, x, ds, h => by
    simp only [firstDims, Option.some.injEq] at h
    rw [← h]; rfl
  | k + 1, leaf _, ds, h => by simp [firstDims] at h
  | k + 1, node [], ds, h => by
    simp only [firstDims] at h
    split at h
    · next hk => simp only [Option.some.injEq] at h; rw [← h, hk]; rfl
    · simp at h
  | k + 1, node (y :: ys), ds, h => by
    simp only [firstDims, Option.map_eq_some_iff] at h
    obtain ⟨ds', h1, h2⟩ := h
    rw [← h2]
    simp [firstDims_length k y ds' h1]

/-- the validator, pointwise: accepted iff there is a shape of the static depth that the data has exactly, with no
    empty slice -/
theorem validData_iff_hasShape (depth : Nat) (x : NData α) :
    validData depth x = true ↔ ∃ ds, ds.length = depth ∧ hasShape ds x = true ∧ noEmpty x = true := by
  constructor
  · intro h
    unfold validData at h
    cases hf : firstDims depth x with
    | none => rw [hf] at h; simp at h
    | some dims =>
      rw [hf] at h
      simp only [Bool.and_eq_true] at h
      exact ⟨dims, firstDims_length depth x dims hf, h.2, h.1⟩
  · rintro ⟨ds, hlen, hs, hne⟩
    unfold validData
    rw [← hlen, firstDims_of_hasShape ds x hs hne]
    simp [hs, hne]

/-! ## Rectangularity, stated on walks -/

theorem sub?_hasShape : ∀ (p ds : List Nat) (x y : NData α), hasShape ds x = true → sub? x p = some y →
    p.length ≤ ds.length ∧ hasShape (ds.drop p.length) y = true
  | [], ds, x, y, h, hs => by
    rw [sub?_nil] at hs
    simp only [Option.some.injEq] at hs
    rw [← hs]
    exact ⟨Nat.zero_le _, by simpa using h⟩
  | i :: is, [], x, y, h, hs => by
    obtain ⟨v, hx⟩ := hasShape_nil_inv h
    rw [hx, sub?_leaf_cons] at hs
    simp at hs
  | i :: is, d :: ds, x, y, h, hs => by
    obtain ⟨xs, hx, hl, hall⟩ := hasShape_cons_inv h
    rw [hx, sub?_cons] at hs
    cases hz : xs[i]? with
    | none => rw [hz] at hs; simp at hs
    | some z =>
      rw [hz, Option.bind_some] at hs
      obtain ⟨h1, h2⟩ := sub?_hasShape is ds z y (hall z (List.mem_of_getElem? hz)) hs
      exact ⟨by simp only [List.length_cons]; omega, by simpa using h2⟩

theorem sub?_noEmpty : ∀ (p : List Nat) (x y : NData α), noEmpty x = true → sub? x p = some y → noEmpty y = true
  | [], x, y, h, hs => by
    rw [sub?_nil] at hs
    simp only [Option.some.injEq] at hs
    rw [← hs]; exact h
  | i :: is, leaf v, y, h, hs => by rw [sub?_leaf_cons] at hs; simp at hs
  | i :: is, node xs, y, h, hs => by
    rw [sub?_cons] at hs
    cases hz : xs[i]? with
    | none => rw [hz] at hs; simp at hs
    | some z =>
      rw [hz, Option.bind_some] at hs
      exact sub?_noEmpty is z y ((noEmpty_node_inv h).2 z (List.mem_of_getElem? hz)) hs

theorem rect_of_hasShape (ds : List Nat) (x : NData α) (h : hasShape ds x = true) (hne : noEmpty x = true) :
    Rect ds x := by
  intro p y hs
  obtain ⟨hle, hy⟩ := sub?_hasShape p ds x y h hs
  have hney := sub?_noEmpty p x y hne hs
  refine ⟨hle, ?_, ?_⟩
  · intro d hd
    have hlt : p.length < ds.length := by
      rcases Nat.lt_or_ge p.length ds.length with h' | h'
      · exact h'
      · rw [List.getElem?_eq_none h'] at hd; simp at hd
    have hdrop : ds.drop p.length = d :: ds.drop (p.length + 1) := by
      rw [List.getElem?_eq_getElem hlt] at hd
      simp only [Option.some.injEq] at hd
      rw [← hd]
      exact List.drop_eq_getElem_cons hlt
    rw [hdrop] at hy
    obtain ⟨xs, hx, hl, _⟩ := hasShape_cons_inv hy
    refine ⟨xs, hx, hl, ?_⟩
    rw [hx] at hney
    have hnil := (noEmpty_node_inv hney).1
    cases xs with
    | nil => exact absurd rfl hnil
    | cons z zs => rw [← hl]; simp
  · intro he
    rw [he, List.drop_length] at hy
    exact hasShape_nil_inv hy

theorem hasShape_of_rect : ∀ (ds : List Nat) (x : NData α), Rect ds x → hasShape ds x = true ∧ noEmpty x = true
  | [], x, hr => by
    obtain ⟨v, hx⟩ := (hr [] x (sub?_nil x)).2.2 rfl
    rw [hx]; simp [hasShape, noEmpty]
  | d :: ds, x, hr => by
    obtain ⟨xs, hx, hl, hpos⟩ := (hr [] x (sub?_nil x)).2.1 d (by simp)
    have hsub : ∀ y ∈ xs, Rect ds y := by
      intro y hy q z hq
      obtain ⟨i, hi⟩ := List.getElem?_of_mem hy
      have h1 := hr (i :: q) z (by rw [hx, sub?_cons, hi, Option.bind_some]; exact hq)
      simp only [List.length_cons, List.getElem?_cons_succ, Nat.add_le_add_iff_right,
        Nat.add_right_cancel_iff] at h1
      exact h1
    have ih : ∀ y ∈ xs, hasShape ds y = true ∧ noEmpty y = true :=
      fun y hy => hasShape_of_rect ds y (hsub y hy)
    rw [hx]
    constructor
    · simp only [hasShape, hl, beq_self_eq_true, Bool.true_and]
      exact (allHaveShape_iff ds xs).2 (fun y hy => (ih y hy).1)
    · simp only [noEmpty, Bool.and_eq_true]
      refine ⟨?_, (noEmptyList_iff xs).2 (fun y hy => (ih y hy).2)⟩
      cases xs with
      | nil => simp at hl; omega
      | cons z zs => rfl

/-- the model's shape predicates say exactly "rectangular" -/
theorem rect_iff (ds : List Nat) (x : NData α) : Rect ds x ↔ (hasShape ds x = true ∧ noEmpty x = true) :=
  ⟨hasShape_of_rect ds x, fun h => rect_of_hasShape ds x h.1 h.2⟩

/-- the level sizes of a rectangular value are its first-branch lengths -/
theorem rect_shapeOf {ds : List Nat} {x : NData α} (h : Rect ds x) : shapeOf x = ds :=
  shapeOf_of_hasShape ds x (hasShape_of_rect ds x h).1 (hasShape_of_rect ds x h).2

/-- **the validator accepts exactly the rectangular values of the static depth** -/
theorem validData_iff (depth : Nat) (x : NData α) :
    validData depth x = true ↔ (Rect (shapeOf x) x ∧ (shapeOf x).length = depth) := by
  rw [validData_iff_hasShape]
  constructor
  · rintro ⟨ds, hlen, hs, hne⟩
    rw [shapeOf_of_hasShape ds x hs hne]
    exact ⟨rect_of_hasShape ds x hs hne, hlen⟩
  · rintro ⟨hr, hlen⟩
    exact ⟨shapeOf x, hlen, (hasShape_of_rect _ x hr).1, (hasShape_of_rect _ x hr).2⟩

theorem rect_not_ragged {ds : List Nat} {x : NData α} (h : Rect ds x) : ¬ Ragged x := by
  rintro ⟨p, q, a, b, hpq, hp, hq, hab⟩
  obtain ⟨hp1, hp2, hp3⟩ := h p _ hp
  obtain ⟨hq1, hq2, hq3⟩ := h q _ hq
  rcases Nat.lt_or_ge p.length ds.length with hlt | hge
  · obtain ⟨a', ha', hla, _⟩ := hp2 _ (List.getElem?_eq_getElem hlt)
    obtain ⟨b', hb', hlb, _⟩ := hq2 _ (by rw [← hpq]; exact List.getElem?_eq_getElem hlt)
    cases ha'; cases hb'
    exact hab (hla.trans hlb.symm)
  · obtain ⟨v, hv⟩ := hp3 (by omega)
    cases hv

theorem rect_not_hasEmpty {ds : List Nat} {x : NData α} (h : Rect ds x) : ¬ HasEmpty x := by
  rintro ⟨p, hp⟩
  obtain ⟨hp1, hp2, hp3⟩ := h p _ hp
  rcases Nat.lt_or_ge p.length ds.length with hlt | hge
  · obtain ⟨a', ha', hla, hpos⟩ := hp2 _ (List.getElem?_eq_getElem hlt)
    cases ha'
    simp at hla; omega
  · obtain ⟨v, hv⟩ := hp3 (by omega)
    cases hv

theorem rect_not_uneven {ds : List Nat} {x : NData α} (h : Rect ds x) : ¬ Uneven x := by
  rintro ⟨p, q, v, b, hpq, hp, hq⟩
  obtain ⟨hp1, hp2, hp3⟩ := h p _ hp
  obtain ⟨hq1, hq2, hq3⟩ := h q _ hq
  rcases Nat.lt_or_ge p.length ds.length with hlt | hge
  · obtain ⟨a', ha', _, _⟩ := hp2 _ (List.getElem?_eq_getElem hlt)
    cases ha'
  · obtain ⟨w, hw⟩ := hq3 (by omega)
    cases hw

/-! ## Lexicographic enumeration of indices -/

theorem mem_indices : ∀ (ds idx : List Nat), idx ∈ indices ds ↔ Valid ds idx
  | [], idx => by
    simp only [indices, List.mem_singleton]
    constructor
    · intro h; rw [h]; exact .nil
    · intro h; cases h; rfl
  | d :: ds, idx => by
    simp only [indices, List.mem_flatMap, List.mem_range, List.mem_map]
    constructor
    · rintro ⟨i, hi, q, hq, hidx⟩
      rw [← hidx]
      exact .cons hi ((mem_indices ds q).1 hq)
    · intro h
      cases h with
      | cons hi hv => exact ⟨_, hi, _, (mem_indices ds _).2 hv, rfl⟩

theorem flatMap_range_getElem? {β γ : Type} : ∀ (xs : List β) (F : Nat → List γ) (g : β → List γ),
    (∀ i y, xs[i]? = some y → F i = g y) → (List.range xs.length).flatMap F = xs.flatMap g
  | [], F, g, _ => by simp
  | x :: xs, F, g, h => by
    rw [List.length_cons, List.range_succ_eq_map, List.flatMap_cons, List.flatMap_map, List.flatMap_cons,
      h 0 x (by simp)]
    congr 1
    exact flatMap_range_getElem? xs (fun i => F (i + 1)) g (fun i y hy => h (i + 1) y (by simpa using hy))

theorem flatList_map_some : ∀ xs : List (NData α), (flatList xs).map some = xs.flatMap (fun y => (flat y).map some)
  | [] => by simp [flatList]
  | x :: xs => by simp [flatList, flatList_map_some xs]

/-- the flattening lists the leaves in lexicographic order of their multi-indices -/
theorem flat_lex : ∀ (ds : List Nat) (x : NData α), hasShape ds x = true →
    (indices ds).map (lookup? x) = (flat x).map some
  | [], x, h => by
    obtain ⟨v, hx⟩ := hasShape_nil_inv h
    rw [hx]; simp [indices, lookup?_leaf_nil, flat]
  | d :: ds, x, h => by
    obtain ⟨xs, hx, hl, hall⟩ := hasShape_cons_inv h
    rw [hx]
    simp only [indices, List.map_flatMap, List.map_map, flat]
    rw [flatList_map_some, ← hl]
    apply flatMap_range_getElem?
    intro i y hy
    rw [← flat_lex ds y (hall y (List.mem_of_getElem? hy))]
    apply List.map_congr_left
    intro q _
    simp only [Function.comp, lookup?_node_cons, hy, Option.bind_some]

/-! ## Property theorems -/

/-- the accepted call, computed -/
theorem vTensorOf_ok {depth : Nat} {x : NData α} (h : validData depth x = true) :
    vTensorOf depth x = .ok ⟨shapeOf x, x.flat⟩ := by
  obtain ⟨ds, hlen, hs, hne⟩ := (validData_iff_hasShape depth x).1 h
  unfold vTensorOf tensorOfRaw
  rw [if_pos h, ← hlen, firstDims_of_hasShape ds x hs hne, shapeOf_of_hasShape ds x hs hne]
  simp [hs, Out.ofOpt]

/-- **C06, `TensorOf` holds exactly the requested values** (every depth): for every nested value the validator
    accepts, the call succeeds with a well-formed tensor whose dims are the nesting lengths (`depth` of them), and whose
    element at every valid multi-index `[i₁, …, i_d]` is `data[i₁]…[i_d]`. -/
theorem tensorOf_get (depth : Nat) (x : NData α) (h : validData depth x = true) :
    ∃ t, vTensorOf depth x = .ok t ∧ t.WF ∧ t.dims = shapeOf x ∧ t.dims.length = depth ∧
      ∀ idx, Valid t.dims idx → ∃ v, lookup? x idx = some v ∧ t.at? idx = some v := by
  obtain ⟨ds, hlen, hs, hne⟩ := (validData_iff_hasShape depth x).1 h
  have hsh : shapeOf x = ds := shapeOf_of_hasShape ds x hs hne
  refine ⟨⟨shapeOf x, x.flat⟩, vTensorOf_ok h, ?_, rfl, by simp only []; rw [hsh]; exact hlen, ?_⟩
  · rw [hsh]
    exact ⟨flat_length ds x hs, hasShape_pos ds x hs hne⟩
  · simp only []
    rw [hsh]
    intro idx hv
    obtain ⟨o, v, ho, h1, h2⟩ := flat_get idx ds x hs hv
    refine ⟨v, h2, ?_⟩
    unfold Tensor.at?
    simp only []
    rw [if_pos hv.length_eq, ho, Option.bind_some]
    exact h1

/-- `shapeOf` (lengths along the first branch) is the length of **every** branch at that level: an accepted value
    is rectangular (`Rect`), i.e. each sub-value reached by `k < depth` index steps is a slice of exactly
    `(shapeOf x)[k] > 0` entries and each sub-value reached by `depth` steps is a number. -/
theorem tensorOf_branch_len (depth : Nat) (x : NData α) (h : validData depth x = true) :
    Rect (shapeOf x) x ∧ (shapeOf x).length = depth :=
  (validData_iff depth x).1 h

/-- **row-major data**: the data list of the result is the left-to-right flattening of the leaves (`NData.flat`), which
    lists `data[i₁]…[i_d]` over all multi-indices of the result's shape in lexicographic order. -/
theorem tensorOf_data_rowmajor (depth : Nat) (x : NData α) (h : validData depth x = true) :
    ∃ t, vTensorOf depth x = .ok t ∧ t.data = x.flat ∧
      (indices t.dims).map (lookup? x) = t.data.map some ∧
      ∀ idx, idx ∈ indices t.dims ↔ Valid t.dims idx := by
  obtain ⟨ds, hlen, hs, hne⟩ := (validData_iff_hasShape depth x).1 h
  have hsh : shapeOf x = ds := shapeOf_of_hasShape ds x hs hne
  refine ⟨⟨shapeOf x, x.flat⟩, vTensorOf_ok h, rfl, ?_, fun idx => mem_indices _ idx⟩
  simp only []
  rw [hsh]
  exact flat_lex ds x hs

/-- **ragged, empty or wrongly nested data are an error** (never a panic, never a tensor): if two slices at the same
    level differ in length, or some slice is empty, or a number sits beside a slice, or the nesting depth along the first
    branch is not the static depth, `TensorOf` returns an error. -/
theorem tensorOf_rejects_ragged (depth : Nat) (x : NData α)
    (h : Ragged x ∨ HasEmpty x ∨ Uneven x ∨ (shapeOf x).length ≠ depth) : vTensorOf depth x = .err := by
  apply (C09.vTensorOf_total depth x).2
  cases hv : validData depth x with
  | false => rfl
  | true =>
    obtain ⟨hr, hlen⟩ := (validData_iff depth x).1 hv
    rcases h with h | h | h | h
    · exact absurd h (rect_not_ragged hr)
    · exact absurd h (rect_not_hasEmpty hr)
    · exact absurd h (rect_not_uneven hr)
    · exact absurd hlen h

/-- the complete picture: `TensorOf` succeeds iff the data are rectangular of the static depth, and is an error
    otherwise; a panic is impossible -/
theorem tensorOf_rejects_iff (depth : Nat) (x : NData α) :
    (vTensorOf depth x = .err ↔ ¬ (Rect (shapeOf x) x ∧ (shapeOf x).length = depth)) ∧
    ((∃ t, vTensorOf depth x = .ok t) ↔ (Rect (shapeOf x) x ∧ (shapeOf x).length = depth)) ∧
    vTensorOf depth x ≠ .panic := by
  rw [← validData_iff]
  cases hv : validData depth x with
  | false =>
    have he := (C09.vTensorOf_total depth x).2 hv
    rw [he]
    simp
  | true =>
    rw [vTensorOf_ok hv]
    simp

/-! ## Non-vacuity (kernel-checked on `Int` data) -/

section Examples

/-- `[][]float64{{1,2,3},{4,5,6}}` -/
private def m23 : NData Int := .node [.node [.leaf 1, .leaf 2, .leaf 3], .node [.leaf 4, .leaf 5, .leaf 6]]
/-- `[][][]float64{{{1,2}},{{3,4}},{{5,6}}}` -/
private def c312 : NData Int :=
  .node [.node [.node [.leaf 1, .leaf 2]], .node [.node [.leaf 3, .leaf 4]], .node [.node [.leaf 5, .leaf 6]]]
/-- `[][]float64{{1,2},{3}}` -/
private def ragged2 : NData Int := .node [.node [.leaf 1, .leaf 2], .node [.leaf 3]]
/-- ragged only at the innermost level of the *second* branch, `[][][]float64{{{1,2}},{{1,2,3}}}` (finding D7) -/
private def ragged3 : NData Int := .node [.node [.node [.leaf 1, .leaf 2]], .node [.node [.leaf 1, .leaf 2, .leaf 3]]]

example : validData 2 m23 = true ∧ shapeOf m23 = [2, 3] ∧
    vTensorOf 2 m23 = .ok ⟨[2, 3], [1, 2, 3, 4, 5, 6]⟩ := by decide
example : lookup? m23 [1, 2] = some 6 ∧ lookup? m23 [0, 1] = some 2 ∧ lookup? m23 [2, 0] = none ∧
    lookup? m23 [1] = none ∧ lookup? m23 [1, 2, 0] = none := by decide
example : (⟨[2, 3], [1, 2, 3, 4, 5, 6]⟩ : Tensor Int).at? [1, 2] = some 6 := by decide
example : indices [2, 3] = [[0, 0], [0, 1], [0, 2], [1, 0], [1, 1], [1, 2]] := by decide
example : validData 3 c312 = true ∧ shapeOf c312 = [3, 1, 2] ∧ lookup? c312 [2, 0, 1] = some 6 ∧
    vTensorOf 3 c312 = .ok ⟨[3, 1, 2], [1, 2, 3, 4, 5, 6]⟩ := by decide
example : validData 0 (.leaf (7 : Int)) = true ∧ vTensorOf 0 (.leaf (7 : Int)) = .ok ⟨[], [7]⟩ ∧
    lookup? (.leaf (7 : Int)) [] = some 7 := by decide
example : validData 4 (.node [.node [.node [.node [.leaf (1 : Int), .leaf 2]]]]) = true ∧
    vTensorOf 4 (.node [.node [.node [.node [.leaf (1 : Int), .leaf 2]]]]) = .ok ⟨[1, 1, 1, 2], [1, 2]⟩ := by decide

-- the hypotheses of `tensorOf_rejects_ragged` are satisfiable, and the outcomes are errors
example : Ragged ragged2 := ⟨[0], [1], _, _, rfl, rfl, rfl, by decide⟩
example : Ragged ragged3 := ⟨[0, 0], [1, 0], _, _, rfl, rfl, rfl, by decide⟩
example : HasEmpty (.node [.node [.leaf (1 : Int)], .node []]) := ⟨[1], rfl⟩
example : Uneven (.node [.leaf (1 : Int), .node [.leaf 2]]) := ⟨[0], [1], _, _, rfl, rfl, rfl⟩
example : vTensorOf 2 ragged2 = .err ∧ vTensorOf 3 ragged3 = .err ∧
    vTensorOf 2 (.node [.node [.leaf (1 : Int)], .node []]) = .err ∧
    vTensorOf 1 (.node ([] : List (NData Int))) = .err ∧
    vTensorOf 2 (.node [.leaf (1 : Int), .node [.leaf 2]]) = .err ∧
    vTensorOf 1 m23 = .err ∧ vTensorOf 3 m23 = .err ∧ vTensorOf 0 m23 = .err := by decide

end Examples

end C06y
end Qeep
