import QeepProps.C16w
import QeepProps.C13v
import QeepProps.C15y
import QeepProps.C11x
import QeepProps.C16t
/-!
# C11 / C13 / C16 — a layer under a loss: FC → CE, `BackPropagate` on the loss

`fc_ce_backprop`: any reachable heap; `W`, `B` tracked unspent `[O]` tensors that nothing consumes yet, an unspent `[N, D]`
input `x`, an untracked unspent `[N, O]` target `t`. Run `FC.Forward(x)`, `CE.Compute(y, t)` and `BackPropagate(loss)` (`sum`
mode — what the property demands; `c = bscale bm N` is 1 there). If the back-propagation returns without error,

    W.Gradient()[o] = c · Σ_n G[n][o] · Σ_d x[n][d]        B.Gradient()[o] = c · Σ_n G[n][o]

(in `mean` mode — the tree as it is, finding D2 — `c = 1/N`: the parameters of a layer under a loss receive the wanted gradient
divided by the batch size)

with `G[n][o] = ceGrad 1 N t̂[n][o] y[n][o]` — the partial derivative of the CE loss with respect to the layer's output
`y[n][o]` (`C13x.ce_formula_deriv`; `−t̂/(N·y)` strictly inside the clip band, 0 strictly outside) — and `Σ_d x[n][d]`,
`1` the partial derivatives of `y[n][o]` with respect to `W[o]`, `B[o]` (`C16x`): the chain rule across the two components
on the real walk over all twenty-six tensors, obtained by COMPOSING `C13v.ce_backprop_full` (what the walk leaves on the
loss's prediction, whatever its ancestors, plus the footprint of the loss graph) with `C16z.fc_in_walk_sum` (what the
layer's parameters receive from whatever the walk leaves on the layer's result).
-/
set_option linter.unusedSimpArgs false
set_option linter.unusedSectionVars false
set_option linter.unusedVariables false

namespace Qeep
namespace C11r
open RealScalar C01 C01x C01z C01w C01q C16x C16z C16w C16t C15x C15z C13x C13v C11x
open C12x (tHat)

theorem fc_ce_backprop (bm : BMode) (H : Heap ℝ) (w b x t N D O : Nat) (hR : Reach bm H)
    (lw : Live H w) (lb : Live H b) (hx : x < H.size) (cx : H.dirty x = false) (hwb : w ≠ b)
    (ww : (H.val w).WF) (wb : (H.val b).WF) (wx : (H.val x).WF)
    (dw : (H.val w).dims = [O]) (db : (H.val b).dims = [O]) (dx : (H.val x).dims = [N, D])
    (ht : t < H.size) (wt : (H.val t).WF) (dt : (H.val t).dims = [N, O]) (htt : H.tracked t = false)
    (htc : H.dirty t = false)
    (hsole : ∀ v, ∀ e ∈ (H.ctx v).edges, e.target ≠ w ∧ e.target ≠ b) :
    ∃ y H1 r H2, fcForward ⟨some w, some b⟩ [some x] H = .ok (y, H1) ∧
      lossCompute Loss.ce (some y) (some t) H1 = .ok (r, H2) ∧ Extends H H2 ∧ Reach bm H2 ∧
      (∀ n o, n < N → o < O → (H1.val y).el [n, o]
        = fcReal D (fun o => (H.val w).el [o]) (fun o => (H.val b).el [o]) (fun n d => (H.val x).el [n, d]) n o) ∧
      ((backprop bm H2 r).status = .ok () →
        ∃ dW dB, (backprop bm H2 r).heap.grad w = some dW ∧ (backprop bm H2 r).heap.grad b = some dB ∧
          dW.WF ∧ dB.WF ∧ dW.dims = [O] ∧ dB.dims = [O] ∧
          (∀ o, o < O → dW.el [o] = bscale bm N * ∑ n ∈ Finset.range N,
              ceGrad 1 N (tHat ((H.val t).el [n, o])) ((H1.val y).el [n, o]) * ∑ d ∈ Finset.range D, (H.val x).el [n, d]) ∧
          (∀ o, o < O → dB.el [o] = bscale bm N * ∑ n ∈ Finset.range N,
              ceGrad 1 N (tHat ((H.val t).el [n, o])) ((H1.val y).el [n, o]))) := by
  obtain ⟨H1, h1, hext, hsz, g⟩ := fc_forward_graph N D O w b x H lw.1 lb.1 hx _ _ _
    (is1_self _ ww O dw) (is1_self _ wb O db) (is2_self _ wx N D dx)
  have hwk : w < H.size := lw.1
  have hbk : b < H.size := lb.1
  have R1 : Reach bm H1 := reach_fcForward hR hwk hbk hx h1
  have tw : H1.tracked w = true := by have := lw.2.1; simp only [Heap.tracked, hext.ctx hwk] at this ⊢; exact this
  have tb : H1.tracked b = true := by have := lb.2.1; simp only [Heap.tracked, hext.ctx hbk] at this ⊢; exact this
  have cw : H1.dirty w = false := by have := lw.2.2; simp only [Heap.dirty, hext.ctx hwk] at this ⊢; exact this
  have cb : H1.dirty b = false := by have := lb.2.2; simp only [Heap.dirty, hext.ctx hbk] at this ⊢; exact this
  have cx' : H1.dirty x = false := by simp only [Heap.dirty, hext.ctx hx] at cx ⊢; exact cx
  have gw : H1.grad w = none := by
    have := reach_clean_nograd hR w lw.2.2; simp only [Heap.grad, hext.ctx hwk] at this ⊢; exact this
  have gb : H1.grad b = none := by
    have := reach_clean_nograd hR b lb.2.2; simp only [Heap.grad, hext.ctx hbk] at this ⊢; exact this
  have gnew : ∀ n, H.size ≤ n → H1.grad n = none := (fresh_fcForward _ _ H _ H1 h1).2
  have ly : Live H1 (H.size + 8) := fc_result_live g (by omega) tw tb cw cb cx'
  -- the loss
  have ht1 : t < H1.size := by omega
  have vt1 : H1.val t = H.val t := hext.val ht
  have tt1 : H1.tracked t = false := by simp only [Heap.tracked, hext.ctx ht] at htt ⊢; exact htt
  have ct1 : H1.dirty t = false := by simp only [Heap.dirty, hext.ctx ht] at htc ⊢; exact htc
  obtain ⟨H2, hrun, hext2, hsz2, R2, troot, hfoot, hokc, himp⟩ := ce_backprop_full bm H1 (H.size + 8) t N O R1 ly.1 ht1 g.y.wf
    (by rw [vt1]; exact wt) g.y.dims (by rw [vt1]; exact dt) ly.2.1 ly.2.2 tt1 ct1
  refine ⟨H.size + 8, H1, H1.size + 16, H2, h1, hrun, hext.trans hext2, R2, ?_, ?_⟩
  · intro n o hn ho
    rw [g.y.el n o hn ho, C16x.sumOver_real]
    simp only [fcReal, C16x.term, add_eq, mul_eq, zero_eq, zero_add, Finset.mul_sum]
  intro hok
  obtain ⟨my, f8⟩ := himp hok
  have hdag := reach_dag R2
  have hdagH := reach_dag hR
  have g2 : FCGraph H2 w b x H.size N D O _ _ _ := FCGraph.ext g hext2 hwk hbk hx (by omega)
  have old : ∀ n, n < H1.size → H2.ctx n = H1.ctx n := fun n hn => hext2.ctx hn
  -- the gradient the walk leaves on the layer's result, as a matrix
  have G2 : Is2 (⟨[N, O], List.zipWith (fun tv pv => ceGrad 1 N (tHat tv) pv) (H1.val t).data (H1.val (H.size + 8)).data⟩ : Tensor ℝ)
      N O (fun n o => ceGrad 1 N (tHat ((H.val t).el [n, o])) ((H1.val (H.size + 8)).el [n, o])) := by
    have wt1 : (H1.val t).WF := by rw [vt1]; exact wt
    have dt1 : (H1.val t).dims = [N, O] := by rw [vt1]; exact dt
    have hdd : (H1.val t).dims = (H1.val (H.size + 8)).dims := by rw [dt1, g.y.dims]
    refine ⟨?_, rfl, ?_⟩
    · have := zip_wf (fun tv pv => ceGrad 1 N (tHat tv) pv) _ _ wt1 g.y.wf hdd
      rwa [dt1] at this
    · intro i j hi hj
      have := C15y.zip_el (fun tv pv => ceGrad 1 N (tHat tv) pv) _ _ wt1 g.y.wf hdd (u := [i, j])
        (by rw [dt1]; exact valid2 hi hj)
      rw [dt1, vt1] at this
      rw [← vt1]
      rw [vt1]
      exact this
  have key : ∃ dW dB, (backprop bm H2 (H1.size + 16)).heap.grad w = some dW ∧ (backprop bm H2 (H1.size + 16)).heap.grad b = some dB ∧
      dW.WF ∧ dW.dims = [O] ∧ dB.WF ∧ dB.dims = [O] ∧
      (∀ o, o < O → dW.el [o] = bscale bm N * ∑ n ∈ Finset.range N,
        ceGrad 1 N (tHat ((H.val t).el [n, o])) ((H1.val (H.size + 8)).el [n, o]) * ∑ d ∈ Finset.range D, (H.val x).el [n, d]) ∧
      (∀ o, o < O → dB.el [o] = bscale bm N * ∑ n ∈ Finset.range N,
        ceGrad 1 N (tHat ((H.val t).el [n, o])) ((H1.val (H.size + 8)).el [n, o])) := by
    cases bm with
    | sum =>
      obtain ⟨dW, dB, q1, q2, q3, q4, q5, q6, q7, q8⟩ := fc_in_walk_sum H2 (H1.size + 16) w b x H.size N D O hdag troot hok g2
        hwk hbk hx hwb
        (by simp only [Heap.tracked, old w (by omega)] at tw ⊢; exact tw)
        (by simp only [Heap.tracked, old b (by omega)] at tb ⊢; exact tb)
        (by simp only [Heap.dirty, old w (by omega)] at cw ⊢; exact cw)
        (by simp only [Heap.dirty, old b (by omega)] at cb ⊢; exact cb)
        (by simp only [Heap.dirty, old x (by omega)] at cx' ⊢; exact cx')
        (by simp only [Heap.grad, old w (by omega)] at gw ⊢; exact gw)
        (by simp only [Heap.grad, old b (by omega)] at gb ⊢; exact gb)
        (by intro i hi; have := gnew (H.size + i) (by omega); simp only [Heap.grad, old (H.size + i) (by omega)] at this ⊢; exact this)
        (by omega) (by omega) (by intro i hi; omega)
        (by
          intro v hvo hv e hev
          rcases hv with hv | hv
          · rw [old v (by omega), hext.ctx hv] at hev
            obtain ⟨a1, a2⟩ := hsole v e hev
            have := hdagH v e hev
            exact ⟨a1, a2, by omega⟩
          · have hvt : H2.tracked v = true := by
              rcases C20.order_members_tracked H2 (H1.size + 16) hdag v hvo with rfl | ⟨u, _, hs⟩
              · exact troot
              · unfold succs at hs; exact (List.mem_filter.mp hs).2
            have := hfoot v (by omega) hvt e hev
            refine ⟨by omega, by omega, by omega⟩)
        _ _ G2 my (by rw [f8, vt1])
    
      refine ⟨dW, dB, q1, q2, q3, q4, q5, q6, ?_, ?_⟩
      · intro o ho; rw [q7 o ho]; simp only [bscale, one_mul]
      · intro o ho; rw [q8 o ho]; simp only [bscale, one_mul]
    | mean =>
      obtain ⟨dW, dB, q1, q2, q3, q4, q5, q6, q7, q8⟩ := fc_in_walk_mean H2 (H1.size + 16) w b x H.size N D O hdag troot hok g2
        hwk hbk hx hwb
        (by simp only [Heap.tracked, old w (by omega)] at tw ⊢; exact tw)
        (by simp only [Heap.tracked, old b (by omega)] at tb ⊢; exact tb)
        (by simp only [Heap.dirty, old w (by omega)] at cw ⊢; exact cw)
        (by simp only [Heap.dirty, old b (by omega)] at cb ⊢; exact cb)
        (by simp only [Heap.dirty, old x (by omega)] at cx' ⊢; exact cx')
        (by simp only [Heap.grad, old w (by omega)] at gw ⊢; exact gw)
        (by simp only [Heap.grad, old b (by omega)] at gb ⊢; exact gb)
        (by intro i hi; have := gnew (H.size + i) (by omega); simp only [Heap.grad, old (H.size + i) (by omega)] at this ⊢; exact this)
        (by omega) (by omega) (by intro i hi; omega)
        (by
          intro v hvo hv e hev
          rcases hv with hv | hv
          · rw [old v (by omega), hext.ctx hv] at hev
            obtain ⟨a1, a2⟩ := hsole v e hev
            have := hdagH v e hev
            exact ⟨a1, a2, by omega⟩
          · have hvt : H2.tracked v = true := by
              rcases C20.order_members_tracked H2 (H1.size + 16) hdag v hvo with rfl | ⟨u, _, hs⟩
              · exact troot
              · unfold succs at hs; exact (List.mem_filter.mp hs).2
            have := hfoot v (by omega) hvt e hev
            refine ⟨by omega, by omega, by omega⟩)
        _ _ G2 my (by rw [f8, vt1])
    
      refine ⟨dW, dB, q1, q2, q3, q4, q5, q6, ?_, ?_⟩
      · intro o ho; rw [q7 o ho]; simp only [bscale]; rw [div_eq_mul_inv, mul_comm, one_div]
      · intro o ho; rw [q8 o ho]; simp only [bscale]; rw [div_eq_mul_inv, mul_comm, one_div]
  obtain ⟨dW, dB, q1, q2, q3, q4, q5, q6, q7, q8⟩ := key
  exact ⟨dW, dB, q1, q2, q3, q5, q4, q6, q7, q8⟩

/-- **FC → CE over leaf parameters and a data input: `BackPropagate(loss)` succeeds** (either mode): the progress statement
    exported by `C13v.ce_backprop_full` for the loss graph, discharged below the prediction with the per-edge acceptance
    `C16t.fc_edge_ok` of the layer's graph and the exact set of tensors the walk can visit -/
theorem fc_ce_backprop_ok (bm : BMode) (H : Heap ℝ) (w b x t N D O : Nat) (hR : Reach bm H)
    (lw : Live H w) (lb : Live H b) (hx : x < H.size) (cx : H.dirty x = false) (ux : H.tracked x = false) (hwb : w ≠ b)
    (ww : (H.val w).WF) (wb : (H.val b).WF) (wx : (H.val x).WF)
    (dw : (H.val w).dims = [O]) (db : (H.val b).dims = [O]) (dx : (H.val x).dims = [N, D])
    (ht : t < H.size) (wt : (H.val t).WF) (dt : (H.val t).dims = [N, O]) (htt : H.tracked t = false)
    (htc : H.dirty t = false)
    (leafw : (H.ctx w).edges = []) (leafb : (H.ctx b).edges = [])
    (y : Nat) (H1 : Heap ℝ) (h1 : fcForward ⟨some w, some b⟩ [some x] H = .ok (y, H1))
    (r : Nat) (H2 : Heap ℝ) (hrun : lossCompute Loss.ce (some y) (some t) H1 = .ok (r, H2)) :
    (backprop bm H2 r).status = .ok () := by
  obtain ⟨H1', h1', hext, hsz, g⟩ := fc_forward_graph N D O w b x H lw.1 lb.1 hx _ _ _
    (is1_self _ ww O dw) (is1_self _ wb O db) (is2_self _ wx N D dx)
  obtain ⟨rfl, rfl⟩ := C15w.run_unique h1 h1'
  have hwk : w < H.size := lw.1
  have hbk : b < H.size := lb.1
  have hxw : x ≠ w := by intro h; rw [h, dw] at dx; simp at dx
  have hxb : x ≠ b := by intro h; rw [h, db] at dx; simp at dx
  have R1 : Reach bm H1 := reach_fcForward hR hwk hbk hx h1
  have tw : H1.tracked w = true := by have := lw.2.1; simp only [Heap.tracked, hext.ctx hwk] at this ⊢; exact this
  have tb : H1.tracked b = true := by have := lb.2.1; simp only [Heap.tracked, hext.ctx hbk] at this ⊢; exact this
  have cw : H1.dirty w = false := by have := lw.2.2; simp only [Heap.dirty, hext.ctx hwk] at this ⊢; exact this
  have cb : H1.dirty b = false := by have := lb.2.2; simp only [Heap.dirty, hext.ctx hbk] at this ⊢; exact this
  have cx' : H1.dirty x = false := by simp only [Heap.dirty, hext.ctx hx] at cx ⊢; exact cx
  have gw : H1.grad w = none := by
    have := reach_clean_nograd hR w lw.2.2; simp only [Heap.grad, hext.ctx hwk] at this ⊢; exact this
  have gb : H1.grad b = none := by
    have := reach_clean_nograd hR b lb.2.2; simp only [Heap.grad, hext.ctx hbk] at this ⊢; exact this
  have gnew : ∀ n, H.size ≤ n → H1.grad n = none := (fresh_fcForward _ _ H _ H1 h1).2
  have ly : Live H1 (H.size + 8) := fc_result_live g (by omega) tw tb cw cb cx'
  have ht1 : t < H1.size := by omega
  have vt1 : H1.val t = H.val t := hext.val ht
  have tt1 : H1.tracked t = false := by simp only [Heap.tracked, hext.ctx ht] at htt ⊢; exact htt
  have ct1 : H1.dirty t = false := by simp only [Heap.dirty, hext.ctx ht] at htc ⊢; exact htc
  obtain ⟨H2', hrun', hext2, hsz2, R2, troot, hfoot, hokc, _⟩ := ce_backprop_full bm H1 (H.size + 8) t N O R1 ly.1 ht1 g.y.wf
    (by rw [vt1]; exact wt) g.y.dims (by rw [vt1]; exact dt) ly.2.1 ly.2.2 tt1 ct1
  obtain ⟨rfl, rfl⟩ := C15w.run_unique hrun hrun'
  have g2 : FCGraph H2 w b x H.size N D O _ _ _ := FCGraph.ext g hext2 hwk hbk hx (by omega)
  have old : ∀ n, n < H1.size → H2.ctx n = H1.ctx n := fun n hn => hext2.ctx hn
  have ew : (H2.ctx w).edges = [] := by rw [old w (by omega), hext.ctx hwk]; exact leafw
  have eb : (H2.ctx b).edges = [] := by rw [old b (by omega), hext.ctx hbk]; exact leafb
  have ux2 : H2.tracked x = false := by
    simp only [Heap.tracked, old x (by omega), hext.ctx hx] at ux ⊢; exact ux
  have tg : ∀ (i : Nat) (e : Edge ℝ), i ≤ 8 → e ∈ fcEdges w b x H.size i →
      e.target = w ∨ e.target = b ∨ e.target = x ∨ ∃ j, j ≤ 7 ∧ e.target = H.size + j := by
    intro i e hi hm
    interval_cases i <;> simp [fcEdges] at hm <;> (try rcases hm with rfl | rfl) <;> (try subst hm) <;> simp
    all_goals first
      | (right; right; right; exact ⟨0, by omega, by omega⟩)
      | (right; right; right; exact ⟨1, by omega, by omega⟩)
      | (right; right; right; exact ⟨2, by omega, by omega⟩)
      | (right; right; right; exact ⟨3, by omega, by omega⟩)
      | (right; right; right; exact ⟨4, by omega, by omega⟩)
      | (right; right; right; exact ⟨5, by omega, by omega⟩)
      | (right; right; right; exact ⟨6, by omega, by omega⟩)
      | (right; right; right; exact ⟨7, by omega, by omega⟩)
  -- who can be visited
  have hvis : ∀ v ∈ backwardOrder H2 (H1.size + 16), H2.tracked v = true ∧
      (H1.size ≤ v ∨ (H.size ≤ v ∧ v ≤ H.size + 8) ∨ v = w ∨ v = b) := by
    apply order_subset H2 (H1.size + 16)
      (fun v => H2.tracked v = true ∧ (H1.size ≤ v ∨ (H.size ≤ v ∧ v ≤ H.size + 8) ∨ v = w ∨ v = b))
    · exact ⟨troot, Or.inl (by omega)⟩
    · intro u hu v hv
      obtain ⟨hut, hu⟩ := hu
      have hvt : H2.tracked v = true := by
        unfold succs at hv; exact (List.mem_filter.mp hv).2
      obtain ⟨e, he, rfl⟩ := mem_succs_edge H2 u v hv
      refine ⟨hvt, ?_⟩
      rcases hu with hu | ⟨h1, h2⟩ | rfl | rfl
      · rcases hfoot u hu hut e he with h | h
        · left; exact h
        · right; left; omega
      · obtain ⟨i, hi, rfl⟩ : ∃ i, i ≤ 8 ∧ u = H.size + i := ⟨u - H.size, by omega, by omega⟩
        have hm := fc_edges_sub g2 i hi e he
        rcases tg i e hi hm with h | h | h | ⟨j, hj, h⟩
        · right; right; left; exact h
        · right; right; right; exact h
        · rw [h, ux2] at hvt; cases hvt
        · right; left; omega
      · rw [ew] at he; simp at he
      · rw [eb] at he; simp at he
  have hv1 : ∀ n, (markDirty H2 (backwardOrder H2 (H1.size + 16))).val n = H2.val n := fun n => markDirty_val _ _ n
  apply hokc (fun k gg => Shaped (if H.size ≤ k then fcShape N D O (k - H.size) else [O]) gg)
  · intro k a b' ha hb
    exact C15w.shaped_add_ok _ a b' ha hb
  · intro gg hgg
    have e8 : H.size + 8 - H.size = 8 := by omega
    simp only [if_pos (show H.size ≤ H.size + 8 by omega), e8, fcShape]
    exact hgg
  · intro k hk hlt gg hgk
    obtain ⟨_, h | ⟨h1, h2⟩ | rfl | rfl⟩ := hvis k hk
    · omega
    · have := gnew k h1
      simp only [Heap.grad, old k hlt] at hgk this
      rw [this] at hgk; cases hgk
    · simp only [Heap.grad, old k hlt] at hgk gw
      rw [gw] at hgk; cases hgk
    · simp only [Heap.grad, old k hlt] at hgk gb
      rw [gb] at hgk; cases hgk
  · intro u hu hlt e he htr gy hgy
    rw [evalRule_val_congr bm _ H2 hv1]
    obtain ⟨_, h | ⟨h1, h2⟩ | rfl | rfl⟩ := hvis u hu
    · omega
    · obtain ⟨i, hi, rfl⟩ : ∃ i, i ≤ 8 ∧ u = H.size + i := ⟨u - H.size, by omega, by omega⟩
      have hm := fc_edges_sub g2 i hi e he
      have ei : H.size + i - H.size = i := by omega
      simp only [if_pos (show H.size ≤ H.size + i by omega), ei] at hgy
      obtain ⟨g', q1, q2⟩ := fc_edge_ok bm g2 hwk hbk hx hxw hxb i hi e hm gy hgy
      refine ⟨g', q1, ?_⟩
      rcases tg i e hi hm with h | h | h | ⟨j, hj, h⟩
      · rw [h] at q2 ⊢
        simp only [if_neg (show ¬ H.size ≤ w by omega)]
        simpa [fcTargetShape] using q2
      · rw [h] at q2 ⊢
        simp only [if_neg (show ¬ H.size ≤ b by omega)]
        simpa [fcTargetShape] using q2
      · rw [h, ux2] at htr; cases htr
      · rw [h] at q2 ⊢
        have e1 : ¬ (H.size + j = w ∨ H.size + j = b) := by omega
        have e2 : ¬ H.size + j = x := by omega
        have e3 : H.size + j - H.size = j := by omega
        simp only [if_pos (show H.size ≤ H.size + j by omega), e3]
        simpa only [fcTargetShape, e1, e2, if_false, e3] using q2
    · rw [ew] at he; simp at he
    · rw [eb] at he; simp at he

/-- the forward pass of the two components: the layer, then the loss on its result -/
noncomputable def fcCe (w b x t : Nat) : HM ℝ Nat := do
  let y ← fcForward ⟨some w, some b⟩ [some x]
  lossCompute Loss.ce (some y) (some t)

/-- **one whole training step of a layer under the CE loss**: `Forward`, `CE.Compute`, `BackPropagate(loss)`, `Update` of both
    parameters (`sum` mode). If the back-propagation returns without error, the step succeeds and `W`, `B` are replaced by
    fresh tracked leaves holding

        W'[o] = W[o] − lr · Σ_n G[n][o]·Σ_d x[n][d]          B'[o] = B[o] − lr · Σ_n G[n][o]

    with `G[n][o] = ceGrad 1 N t̂[n][o] y[n][o]` and `y[n][o] = W[o]·Σ_d x[n][d] + B[o]` (`fcReal`): gradient descent on the
    CE loss of the layer's output — `G` is `∂loss/∂y` (`C13x.ce_formula_deriv`) and the sums are the chain rule through
    `∂y[n][o]/∂W[o] = Σ_d x[n][d]`, `∂y[n][o]/∂B[o] = 1` (`C16x.fc_vjp_is_derivative`). -/
theorem fc_ce_train_step (bm : BMode) (lr : ℝ) (H : Heap ℝ) (w b x t N D O : Nat) (hR : Reach bm H)
    (lw : Live H w) (lb : Live H b) (hx : x < H.size) (cx : H.dirty x = false) (hwb : w ≠ b)
    (ww : (H.val w).WF) (wb : (H.val b).WF) (wx : (H.val x).WF)
    (dw : (H.val w).dims = [O]) (db : (H.val b).dims = [O]) (dx : (H.val x).dims = [N, D])
    (ht : t < H.size) (wt : (H.val t).WF) (dt : (H.val t).dims = [N, O]) (htt : H.tracked t = false)
    (htc : H.dirty t = false)
    (hsole : ∀ v, ∀ e ∈ (H.ctx v).edges, e.target ≠ w ∧ e.target ≠ b)
    (l : Nat) (H2 : Heap ℝ) (hfwd : fcCe w b x t H = .ok (l, H2)) (hbp : (backprop bm H2 l).status = .ok ()) :
    ∃ rw rb H', trainStep bm lr (fcCe w b x t) [w, b] H = .ok ([rw, rb], H') ∧
      H'.ctx rw = freshLeaf ∧ H'.ctx rb = freshLeaf ∧ (H'.val rw).dims = [O] ∧ (H'.val rb).dims = [O] ∧
      (∀ o, o < O → (H'.val rw).el [o] = (H.val w).el [o] - lr * (bscale bm N * ∑ n ∈ Finset.range N,
          ceGrad 1 N (tHat ((H.val t).el [n, o]))
            (fcReal D (fun o => (H.val w).el [o]) (fun o => (H.val b).el [o]) (fun n d => (H.val x).el [n, d]) n o)
          * ∑ d ∈ Finset.range D, (H.val x).el [n, d])) ∧
      (∀ o, o < O → (H'.val rb).el [o] = (H.val b).el [o] - lr * (bscale bm N * ∑ n ∈ Finset.range N,
          ceGrad 1 N (tHat ((H.val t).el [n, o]))
            (fcReal D (fun o => (H.val w).el [o]) (fun o => (H.val b).el [o]) (fun n d => (H.val x).el [n, d]) n o))) := by
  obtain ⟨y, H1, r, H2', h1, hrun, hext, _, hy, himp⟩ :=
    fc_ce_backprop bm H w b x t N D O hR lw lb hx cx hwb ww wb wx dw db dx ht wt dt htt htc hsole
  have hfwd' : fcCe w b x t H = .ok (r, H2') := by
    unfold fcCe
    rw [bind_run h1]
    exact hrun
  obtain ⟨rfl, rfl⟩ := C15w.run_unique hfwd hfwd'
  obtain ⟨dW, dB, gW, gB, wW, wB, dWd, dBd, eW, eB⟩ := himp hbp
  have vw : H2.val w = H.val w := hext.val lw.1
  have vb : H2.val b = H.val b := hext.val lb.1
  have hlt : H.size ≤ H2.size := hext.1
  obtain ⟨rs, H', hstep, hlen, _, hspec⟩ := train_step_law bm lr (fcCe w b x t) [w, b] H H2 l hfwd hbp
    [dW, dB] rfl (by
      intro k w' g hk hg
      match k, hk, hg with
      | 0, hk, hg =>
        simp at hk hg; subst hk hg
        exact ⟨by have := lw.1; omega, gW, by rw [vw]; exact ww, wW, by rw [vw, dWd, dw]⟩
      | 1, hk, hg =>
        simp at hk hg; subst hk hg
        exact ⟨by have := lb.1; omega, gB, by rw [vb]; exact wb, wB, by rw [vb, dBd, db]⟩
      | k + 2, hk, _ => simp at hk)
  match rs, hlen with
  | [rw, rb], _ =>
    obtain ⟨_, v0, c0⟩ := hspec 0 w dW rw rfl rfl rfl
    obtain ⟨_, v1, c1⟩ := hspec 1 b dB rb rfl rfl rfl
    rw [vw] at v0; rw [vb] at v1
    refine ⟨rw, rb, H', hstep, c0, c1, by rw [v0]; exact dw, by rw [v1]; exact db, ?_, ?_⟩
    · intro o ho
      rw [v0]
      unfold stepped
      rw [C15y.zip_el _ (H.val w) dW ww wW (by rw [dw, dWd]) (by rw [dw]; exact valid1 ho), eW o ho]
      simp only [sub_eq, mul_eq]
      congr 3
      apply Finset.sum_congr rfl
      intro n hn
      rw [hy n o (Finset.mem_range.mp hn) ho]
    · intro o ho
      rw [v1]
      unfold stepped
      rw [C15y.zip_el _ (H.val b) dB wb wB (by rw [db, dBd]) (by rw [db]; exact valid1 ho), eB o ho]
      simp only [sub_eq, mul_eq]
      congr 3
      apply Finset.sum_congr rfl
      intro n hn
      rw [hy n o (Finset.mem_range.mp hn) ho]

/-- **the same step with leaf parameters and a data input: unconditional.** `Forward`, `CE.Compute`, `BackPropagate`, `Update`
    of both parameters all succeed and the parameters are replaced by `W − lr·∂loss/∂W`, `B − lr·∂loss/∂B`. -/
theorem fc_ce_train_step_leaf (bm : BMode) (lr : ℝ) (H : Heap ℝ) (w b x t N D O : Nat) (hR : Reach bm H)
    (lw : Live H w) (lb : Live H b) (hx : x < H.size) (cx : H.dirty x = false) (ux : H.tracked x = false) (hwb : w ≠ b)
    (ww : (H.val w).WF) (wb : (H.val b).WF) (wx : (H.val x).WF)
    (dw : (H.val w).dims = [O]) (db : (H.val b).dims = [O]) (dx : (H.val x).dims = [N, D])
    (ht : t < H.size) (wt : (H.val t).WF) (dt : (H.val t).dims = [N, O]) (htt : H.tracked t = false)
    (htc : H.dirty t = false)
    (leafw : (H.ctx w).edges = []) (leafb : (H.ctx b).edges = [])
    (hsole : ∀ v, ∀ e ∈ (H.ctx v).edges, e.target ≠ w ∧ e.target ≠ b) :
    ∃ rw rb H', trainStep bm lr (fcCe w b x t) [w, b] H = .ok ([rw, rb], H') ∧
      H'.ctx rw = freshLeaf ∧ H'.ctx rb = freshLeaf ∧ (H'.val rw).dims = [O] ∧ (H'.val rb).dims = [O] ∧
      (∀ o, o < O → (H'.val rw).el [o] = (H.val w).el [o] - lr * (bscale bm N * ∑ n ∈ Finset.range N,
          ceGrad 1 N (tHat ((H.val t).el [n, o]))
            (fcReal D (fun o => (H.val w).el [o]) (fun o => (H.val b).el [o]) (fun n d => (H.val x).el [n, d]) n o)
          * ∑ d ∈ Finset.range D, (H.val x).el [n, d])) ∧
      (∀ o, o < O → (H'.val rb).el [o] = (H.val b).el [o] - lr * (bscale bm N * ∑ n ∈ Finset.range N,
          ceGrad 1 N (tHat ((H.val t).el [n, o]))
            (fcReal D (fun o => (H.val w).el [o]) (fun o => (H.val b).el [o]) (fun n d => (H.val x).el [n, d]) n o))) := by
  obtain ⟨y, H1, r, H2, h1, hrun, _, _, _, _⟩ :=
    fc_ce_backprop bm H w b x t N D O hR lw lb hx cx hwb ww wb wx dw db dx ht wt dt htt htc hsole
  have hfwd : fcCe w b x t H = .ok (r, H2) := by
    unfold fcCe
    rw [bind_run h1]
    exact hrun
  have hok := fc_ce_backprop_ok bm H w b x t N D O hR lw lb hx cx ux hwb ww wb wx dw db dx ht wt dt htt htc leafw leafb
    y H1 h1 r H2 hrun
  exact fc_ce_train_step bm lr H w b x t N D O hR lw lb hx cx hwb ww wb wx dw db dx ht wt dt htt htc hsole r H2 hfwd hok

/-- the hypotheses of `fc_ce_backprop` are satisfiable: two tracked parameter leaves `[2]`, a data leaf `[1, 3]` and an
    untracked target leaf `[1, 2]` -/
example : ∃ (H : Heap ℝ) (w b x t N D O : Nat), Reach .sum H ∧ Live H w ∧ Live H b ∧ x < H.size ∧ H.dirty x = false ∧ w ≠ b ∧
    (H.val w).WF ∧ (H.val b).WF ∧ (H.val x).WF ∧ (H.val w).dims = [O] ∧ (H.val b).dims = [O] ∧ (H.val x).dims = [N, D] ∧
    t < H.size ∧ (H.val t).WF ∧ (H.val t).dims = [N, O] ∧ H.tracked t = false ∧ H.dirty t = false ∧
    (∀ v, ∀ e ∈ (H.ctx v).edges, e.target ≠ w ∧ e.target ≠ b) := by
  let H0 : Heap ℝ := #[⟨⟨[2], [3, 4]⟩, freshCtx true⟩]
  let H1 : Heap ℝ := H0.push ⟨⟨[2], [0, 1]⟩, freshCtx true⟩
  let H2 : Heap ℝ := H1.push ⟨⟨[1, 3], [1, 2, 5]⟩, freshCtx false⟩
  let H3 : Heap ℝ := H2.push ⟨⟨[1, 2], [0, 1]⟩, freshCtx false⟩
  have r0 : Reach .sum H0 := Reach.leaf (v := ⟨[2], [3, 4]⟩) (b := true) (r := 0) Reach.empty rfl
  have r1 : Reach .sum H1 := Reach.leaf (v := ⟨[2], [0, 1]⟩) (b := true) (r := 1) r0 rfl
  have r2 : Reach .sum H2 := Reach.leaf (v := ⟨[1, 3], [1, 2, 5]⟩) (b := false) (r := 2) r1 rfl
  have r3 : Reach .sum H3 := Reach.leaf (v := ⟨[1, 2], [0, 1]⟩) (b := false) (r := 3) r2 rfl
  refine ⟨H3, 0, 1, 2, 3, 1, 3, 2, r3, ?_, ?_, by simp [H3, H2, H1, H0],
    by simp [H3, H2, H1, H0, Heap.dirty, Heap.ctx, freshCtx], by omega,
    ?_, ?_, ?_, rfl, rfl, rfl, by simp [H3, H2, H1, H0], ?_, rfl, by simp [H3, H2, H1, H0, Heap.tracked, Heap.ctx, freshCtx],
    by simp [H3, H2, H1, H0, Heap.dirty, Heap.ctx, freshCtx], ?_⟩
  · exact ⟨by simp [H3, H2, H1, H0], by simp [H3, H2, H1, H0, Heap.tracked, Heap.ctx, freshCtx],
      by simp [H3, H2, H1, H0, Heap.dirty, Heap.ctx, freshCtx]⟩
  · exact ⟨by simp [H3, H2, H1, H0], by simp [H3, H2, H1, H0, Heap.tracked, Heap.ctx, freshCtx],
      by simp [H3, H2, H1, H0, Heap.dirty, Heap.ctx, freshCtx]⟩
  · refine ⟨by simp [H3, H2, H1, H0, Heap.val, prod], ?_⟩
    intro d hd; simp [H3, H2, H1, H0, Heap.val] at hd; omega
  · refine ⟨by simp [H3, H2, H1, H0, Heap.val, prod], ?_⟩
    intro d hd; simp [H3, H2, H1, H0, Heap.val] at hd; omega
  · refine ⟨by simp [H3, H2, H1, H0, Heap.val, prod], ?_⟩
    intro d hd; simp [H3, H2, H1, H0, Heap.val] at hd; omega
  · refine ⟨by simp [H3, H2, H1, H0, Heap.val, prod], ?_⟩
    intro d hd; simp [H3, H2, H1, H0, Heap.val] at hd; omega
  · intro v e he
    have : (H3.ctx v).edges = [] := by
      by_cases h3 : v < 4
      · interval_cases v <;> simp [H3, H2, H1, H0, Heap.ctx, freshCtx]
      · exact ctx_beyond H3 v (by simp [H3, H2, H1, H0]; omega)
    rw [this] at he; simp at he

end C11r
end Qeep
