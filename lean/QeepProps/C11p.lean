import QeepProps.C11r
import QeepProps.C11s
import Mathlib.Tactic.IntervalCases
/-!
# C11 — the training LOOP of a layer under the CE loss: every step succeeds and the parameters follow gradient descent

Everything is stated for either mode `bm` of the Broadcast rule with the factor `c = bscale bm N`: `c = 1` in `sum` mode — what
the property demands — and `c = 1/N` in `mean` mode, the tree as it is (finding D2): there every step is the gradient-descent
step with learning rate `lr/N`, i.e. the loop descends `N` times more slowly than the optimizer's `lr` says.

`FCCEInv`: the state before a step — reachable heap; `W`, `B` distinct tracked unspent LEAVES `[O]` that no tensor
points at; an untracked unspent `[N, D]` input `x`; an untracked unspent `[N, O]` target `t`. Nothing is assumed about the
rest of the heap, which after `k` steps contains the spent graphs of all earlier steps.

`fc_ce_step_inv`: one step — `FC.Forward(x)`, `CE.Compute(y, t)`, `BackPropagate(loss)`, `Update` + `ResetGradContext(true)` of
`W` and `B` — SUCCEEDS, ends in such a state again with `x`, `t` unchanged, and the new parameters are
`gdStep (lr·c) (W, B) = (W − lr·c·∂loss/∂W, B − lr·c·∂loss/∂B)`.

`fc_ce_training_loop`: by induction over the number of steps, ANY number `n` of steps succeeds and the parameters are the
`n`-th iterate of `gdStep (lr·c)` from the initial ones: the loop follows the gradient-descent trajectory of its loss — here the
gradient depends on the current parameters (unlike `C11w.fc_training_loop`, where `Σ y` is affine), so the trajectory is the
iteration of the map, not a closed form.
-/
set_option linter.unusedSimpArgs false
set_option linter.unusedSectionVars false
set_option linter.unusedVariables false

namespace Qeep
namespace C11p
open RealScalar C01 C11x C11t C11r C11s C11w C16x C16z C16w C15x C15w C13x
open C12x (tHat)

structure FCCEInv (bm : BMode) (H : Heap ℝ) (w b x t N D O : Nat) : Prop where
  reach : Reach bm H
  lw : Live H w
  lb : Live H b
  hx : x < H.size
  cx : H.dirty x = false
  ux : H.tracked x = false
  hwb : w ≠ b
  ww : (H.val w).WF
  wb : (H.val b).WF
  wx : (H.val x).WF
  dw : (H.val w).dims = [O]
  db : (H.val b).dims = [O]
  dx : (H.val x).dims = [N, D]
  ht : t < H.size
  wt : (H.val t).WF
  dt : (H.val t).dims = [N, O]
  htt : H.tracked t = false
  htc : H.dirty t = false
  leafw : (H.ctx w).edges = []
  leafb : (H.ctx b).edges = []
  hsole : ∀ v, ∀ e ∈ (H.ctx v).edges, e.target ≠ w ∧ e.target ≠ b

/-- one gradient-descent step on the CE loss of the layer's output, on the parameter vectors: `X n d` the input, `T n o` the
    targets, `fcReal D W B X n o = W o·Σ_d X n d + B o` the layer's output, `ceGrad 1 N t̂ y = ∂loss/∂y` -/
noncomputable def gdStep (lr : ℝ) (N D : Nat) (X T : Nat → Nat → ℝ) (WB : (Nat → ℝ) × (Nat → ℝ)) : (Nat → ℝ) × (Nat → ℝ) :=
  (fun o => WB.1 o - lr * ∑ n ∈ Finset.range N,
      ceGrad 1 N (tHat (T n o)) (fcReal D WB.1 WB.2 X n o) * ∑ d ∈ Finset.range D, X n d,
   fun o => WB.2 o - lr * ∑ n ∈ Finset.range N, ceGrad 1 N (tHat (T n o)) (fcReal D WB.1 WB.2 X n o))

/-- `gdStep` at output `o` reads the parameters at `o` only -/
theorem gdStep_congr (lr : ℝ) (N D O : Nat) (X T : Nat → Nat → ℝ) (P Q : (Nat → ℝ) × (Nat → ℝ))
    (h : ∀ o, o < O → P.1 o = Q.1 o ∧ P.2 o = Q.2 o) :
    ∀ o, o < O → (gdStep lr N D X T P).1 o = (gdStep lr N D X T Q).1 o ∧ (gdStep lr N D X T P).2 o = (gdStep lr N D X T Q).2 o := by
  intro o ho
  obtain ⟨h1, h2⟩ := h o ho
  simp only [gdStep, fcReal, h1, h2, and_self]

theorem gdIter_congr (lr : ℝ) (N D O : Nat) (X T : Nat → Nat → ℝ) : ∀ (n : Nat) (P Q : (Nat → ℝ) × (Nat → ℝ)),
    (∀ o, o < O → P.1 o = Q.1 o ∧ P.2 o = Q.2 o) →
    ∀ o, o < O → ((gdStep lr N D X T)^[n] P).1 o = ((gdStep lr N D X T)^[n] Q).1 o ∧
      ((gdStep lr N D X T)^[n] P).2 o = ((gdStep lr N D X T)^[n] Q).2 o
  | 0, P, Q, h => by simpa using h
  | n + 1, P, Q, h => by
    rw [Function.iterate_succ_apply, Function.iterate_succ_apply]
    exact gdIter_congr lr N D O X T n _ _ (gdStep_congr lr N D O X T P Q h)

/-- **one step of the loop keeps the loop's invariant** (see the header) -/
theorem fc_ce_step_inv (bm : BMode) (lr : ℝ) {H : Heap ℝ} {w b x t N D O : Nat} (inv : FCCEInv bm H w b x t N D O) :
    ∃ rw rb H', trainStep bm lr (fcCe w b x t) [w, b] H = .ok ([rw, rb], H') ∧
      FCCEInv bm H' rw rb x t N D O ∧ H'.val x = H.val x ∧ H'.val t = H.val t ∧
      (∀ o, o < O → (H'.val rw).el [o] = (gdStep (lr * bscale bm N) N D (fun n d => (H.val x).el [n, d]) (fun n o => (H.val t).el [n, o])
          (fun o => (H.val w).el [o], fun o => (H.val b).el [o])).1 o) ∧
      (∀ o, o < O → (H'.val rb).el [o] = (gdStep (lr * bscale bm N) N D (fun n d => (H.val x).el [n, d]) (fun n o => (H.val t).el [n, o])
          (fun o => (H.val w).el [o], fun o => (H.val b).el [o])).2 o) := by
  obtain ⟨hR, lw, lb, hx, cx, ux, hwb, ww, wb, wx, dw, db, dx, ht, wt, dt, htt, htc, leafw, leafb, hsole⟩ := inv
  obtain ⟨y, H1, r, H2, h1, hrun, hext, R2, hy, himp⟩ :=
    fc_ce_backprop bm H w b x t N D O hR lw lb hx cx hwb ww wb wx dw db dx ht wt dt htt htc hsole
  have hfwd : fcCe w b x t H = .ok (r, H2) := by
    unfold fcCe
    rw [bind_run h1]
    exact hrun
  have hok := fc_ce_backprop_ok bm H w b x t N D O hR lw lb hx cx ux hwb ww wb wx dw db dx ht wt dt htt htc leafw leafb
    y H1 h1 r H2 hrun
  obtain ⟨dW, dB, gW, gB, wW, wB, dWd, dBd, eW, eB⟩ := himp hok
  have vH : ∀ n, n < H.size → H2.val n = H.val n := fun n hn => hext.val hn
  have cH : ∀ n, n < H.size → H2.ctx n = H.ctx n := fun n hn => hext.ctx hn
  have hs2 := hext.1
  obtain ⟨rs, H', hstep, hlen, _, hspec⟩ := train_step_law bm lr (fcCe w b x t) [w, b] H H2 r hfwd hok
    [dW, dB] rfl (by
      intro k w' g hk hg
      match k, hk, hg with
      | 0, hk, hg =>
        simp at hk hg; subst hk hg
        exact ⟨by have := lw.1; omega, gW, by rw [vH _ lw.1]; exact ww, wW, by rw [vH _ lw.1, dWd, dw]⟩
      | 1, hk, hg =>
        simp at hk hg; subst hk hg
        exact ⟨by have := lb.1; omega, gB, by rw [vH _ lb.1]; exact wb, wB, by rw [vH _ lb.1, dBd, db]⟩
      | k + 2, hk, _ => simp at hk)
  have hdag2 := reach_dag R2
  -- the optimizer half
  have hrun' := hstep
  unfold trainStep at hrun'
  simp only [hfwd, hok] at hrun'
  have Rb : Reach bm (backprop bm H2 r).heap := Reach.backprop R2
  have sb : (backprop bm H2 r).heap.size = H2.size := (backprop_val bm H2 r 0).2
  have hws : ∀ w' ∈ [w, b], w' < (backprop bm H2 r).heap.size := by
    intro w' hw'
    rw [sb]
    simp at hw'
    have := lw.1; have := lb.1
    rcases hw' with rfl | rfl <;> omega
  have R' : Reach bm H' := reach_updateAll lr _ _ H' rs Rb hws hrun'
  obtain ⟨hpw, hge⟩ := updateAll_sorted lr _ _ H' rs hws hrun'
  have clean2 : ∀ n, n < H.size → H.dirty n = false → H2.grad n = none := by
    intro n hn hc
    have := reach_clean_nograd hR n hc
    simp only [Heap.grad, cH n hn] at this ⊢; exact this
  have visited_of : ∀ n g, H2.grad n = none → (backprop bm H2 r).heap.grad n = some g → n ∈ backwardOrder H2 r := by
    intro n g hn hg
    apply Classical.byContradiction
    intro hnot
    have := C20.backprop_footprint bm H2 r hdag2 n hnot
    simp only [Heap.grad, this] at hg hn
    rw [hn] at hg; cases hg
  have htr2 : H2.tracked r = true := by
    have m := visited_of w dW (clean2 w lw.1 lw.2.2) gW
    unfold backwardOrder at m
    split at m
    · assumption
    · simp at m
  have hdirty : ∀ w' ∈ [w, b], w' < (backprop bm H2 r).heap.size ∧ (backprop bm H2 r).heap.dirty w' = true := by
    intro w' hw'
    refine ⟨hws w' hw', ?_⟩
    simp at hw'
    rcases hw' with rfl | rfl
    · exact C08.bp_marks_spent bm H2 _ htr2 _ (visited_of _ dW (clean2 _ lw.1 lw.2.2) gW) (by have := lw.1; omega)
    · exact C08.bp_marks_spent bm H2 _ htr2 _ (visited_of _ dB (clean2 _ lb.1 lb.2.2) gB) (by have := lb.1; omega)
  have noedge := updateAll_no_edges lr _ _ H' rs hdirty hrun'
  obtain ⟨hsz', old⟩ := updateAll_old lr _ _ H' rs hws hrun'
  match rs, hlen with
  | [rw, rb], _ =>
    obtain ⟨_, v1, c1⟩ := hspec 0 w dW rw rfl rfl rfl
    obtain ⟨_, v2, c2⟩ := hspec 1 b dB rb rfl rfl rfl
    rw [vH _ lw.1] at v1; rw [vH _ lb.1] at v2
    obtain ⟨l1, e1, _⟩ := freshLeaf_live c1
    obtain ⟨l2, e2, _⟩ := freshLeaf_live c2
    simp only [List.pairwise_cons, List.mem_cons, List.mem_singleton, List.not_mem_nil, or_false, forall_eq_or_imp, forall_eq,
      List.Pairwise.nil, and_true, IsEmpty.forall_iff, implies_true] at hpw
    have ge1 := hge rw (by simp); have ge2 := hge rb (by simp)
    rw [sb] at ge1 ge2 hsz'
    -- the input and the target are untouched
    have untouched : ∀ z, z < H.size → H.tracked z = false → H'.ctx z = H.ctx z ∧ H'.val z = H.val z := by
      intro z hz uz
      have hz2 : z < H2.size := by omega
      have uz2 : H2.tracked z = false := by simp only [Heap.tracked, cH z hz] at uz ⊢; exact uz
      have hzn : z ∉ backwardOrder H2 r := by
        intro hm
        have := order_tracked H2 _ hdag2 z hm
        rw [uz2] at this; cases this
      have czb : (backprop bm H2 r).heap.ctx z = H2.ctx z := C20.backprop_footprint bm H2 _ hdag2 z hzn
      obtain ⟨oc, ov⟩ := old z (by rw [sb]; exact hz2)
      exact ⟨by rw [oc, czb, cH z hz], by rw [ov, (backprop_val bm H2 r z).1, vH z hz]⟩
    obtain ⟨cx', vx'⟩ := untouched x hx ux
    obtain ⟨ct', vt'⟩ := untouched t ht htt
    refine ⟨rw, rb, H', hstep, ?_, vx', vt', ?_, ?_⟩
    · refine ⟨R', l1, l2, by omega, ?_, ?_, by omega, ?_, ?_, by rw [vx']; exact wx, by rw [v1]; exact dw,
        by rw [v2]; exact db, by rw [vx']; exact dx, by omega, by rw [vt']; exact wt, by rw [vt']; exact dt, ?_, ?_, e1, e2, ?_⟩
      · simp only [Heap.dirty, cx'] at cx ⊢; exact cx
      · simp only [Heap.tracked, cx'] at ux ⊢; exact ux
      · rw [v1]; exact zip_wf _ (H.val w) dW ww wW (by rw [dw, dWd])
      · rw [v2]; exact zip_wf _ (H.val b) dB wb wB (by rw [db, dBd])
      · simp only [Heap.tracked, ct'] at htt ⊢; exact htt
      · simp only [Heap.dirty, ct'] at htc ⊢; exact htc
      · -- nobody points at the new parameters
        intro v e he
        by_cases hv : v < H2.size
        · rw [(old v (by rw [sb]; exact hv)).1] at he
          have := reach_dag Rb v e he
          exact ⟨by omega, by omega⟩
        · rw [noedge v (by rw [sb]; omega)] at he; simp at he
    · intro o ho
      rw [v1]
      unfold stepped
      rw [C15y.zip_el _ (H.val w) dW ww wW (by rw [dw, dWd]) (by rw [dw]; exact valid1 ho), eW o ho]
      simp only [sub_eq, mul_eq, gdStep]
      rw [mul_assoc]
      congr 3
      apply Finset.sum_congr rfl
      intro n hn
      rw [hy n o (Finset.mem_range.mp hn) ho]
    · intro o ho
      rw [v2]
      unfold stepped
      rw [C15y.zip_el _ (H.val b) dB wb wB (by rw [db, dBd]) (by rw [db]; exact valid1 ho), eB o ho]
      simp only [sub_eq, mul_eq, gdStep]
      rw [mul_assoc]
      congr 3
      apply Finset.sum_congr rfl
      intro n hn
      rw [hy n o (Finset.mem_range.mp hn) ho]

/-- `n` steps of the training loop: each step hands the NEW parameter tensors to the next -/
noncomputable def steps (bm : BMode) (lr : ℝ) (x t : Nat) : Nat → Nat × Nat → HM ℝ (Nat × Nat)
  | 0, wb => pure wb
  | n + 1, (w, b) => fun H =>
      match trainStep bm lr (fcCe w b x t) [w, b] H with
      | .ok ([rw, rb], H') => steps bm lr x t n (rw, rb) H'
      | .ok _ => .err
      | .err => .err
      | .panic => .panic

/-- **the whole loop**: from a state satisfying `FCCEInv`, ANY number `n` of training steps succeeds, ends in such a state,
    leaves the input and the target as they were, and the parameters are the `n`-th iterate of the gradient-descent map
    `gdStep` of the CE loss, started at the initial parameters: the loop follows the gradient-descent trajectory of its loss -/
theorem fc_ce_training_loop (bm : BMode) (lr : ℝ) (x t N D O : Nat) : ∀ (n : Nat) (H : Heap ℝ) (w b : Nat), FCCEInv bm H w b x t N D O →
    ∃ w' b' H', steps bm lr x t n (w, b) H = .ok ((w', b'), H') ∧ FCCEInv bm H' w' b' x t N D O ∧
      H'.val x = H.val x ∧ H'.val t = H.val t ∧
      (∀ o, o < O → (H'.val w').el [o] = ((gdStep (lr * bscale bm N) N D (fun n d => (H.val x).el [n, d]) (fun n o => (H.val t).el [n, o]))^[n]
          (fun o => (H.val w).el [o], fun o => (H.val b).el [o])).1 o) ∧
      (∀ o, o < O → (H'.val b').el [o] = ((gdStep (lr * bscale bm N) N D (fun n d => (H.val x).el [n, d]) (fun n o => (H.val t).el [n, o]))^[n]
          (fun o => (H.val w).el [o], fun o => (H.val b).el [o])).2 o)
  | 0, H, w, b, inv => ⟨w, b, H, rfl, inv, rfl, rfl, fun o _ => rfl, fun o _ => rfl⟩
  | n + 1, H, w, b, inv => by
    obtain ⟨rw, rb, H1, hstep, inv1, vx, vt, e1, e2⟩ := fc_ce_step_inv bm lr inv
    obtain ⟨w', b', H', hrun, inv', vx', vt', f1, f2⟩ := fc_ce_training_loop bm lr x t N D O n H1 rw rb inv1
    have hc := gdIter_congr (lr * bscale bm N) N D O (fun n d => (H.val x).el [n, d]) (fun n o => (H.val t).el [n, o]) n
      (fun o => (H1.val rw).el [o], fun o => (H1.val rb).el [o])
      (gdStep (lr * bscale bm N) N D (fun n d => (H.val x).el [n, d]) (fun n o => (H.val t).el [n, o])
        (fun o => (H.val w).el [o], fun o => (H.val b).el [o]))
      (fun o ho => ⟨e1 o ho, e2 o ho⟩)
    refine ⟨w', b', H', ?_, inv', by rw [vx', vx], by rw [vt', vt], ?_, ?_⟩
    · show (match trainStep bm lr (fcCe w b x t) [w, b] H with
          | .ok ([rw, rb], H') => steps bm lr x t n (rw, rb) H'
          | .ok _ => .err
          | .err => .err
          | .panic => .panic) = _
      rw [hstep]
      exact hrun
    · intro o ho
      rw [f1 o ho, vx, vt, Function.iterate_succ_apply]
      exact (hc o ho).1
    · intro o ho
      rw [f2 o ho, vx, vt, Function.iterate_succ_apply]
      exact (hc o ho).2

/-- the invariant is satisfiable: `W = [3, 4]`, `B = [0, 1]` tracked leaves, `x = [[1, 2, 5]]`, `t = [[0, 1]]` untracked leaves -/
example (bm : BMode) : ∃ (H : Heap ℝ) (w b x t N D O : Nat), FCCEInv bm H w b x t N D O := by
  let H0 : Heap ℝ := #[⟨⟨[2], [3, 4]⟩, freshCtx true⟩]
  let H1 : Heap ℝ := H0.push ⟨⟨[2], [0, 1]⟩, freshCtx true⟩
  let H2 : Heap ℝ := H1.push ⟨⟨[1, 3], [1, 2, 5]⟩, freshCtx false⟩
  let H3 : Heap ℝ := H2.push ⟨⟨[1, 2], [0, 1]⟩, freshCtx false⟩
  have r0 : Reach bm H0 := Reach.leaf (v := ⟨[2], [3, 4]⟩) (b := true) (r := 0) Reach.empty rfl
  have r1 : Reach bm H1 := Reach.leaf (v := ⟨[2], [0, 1]⟩) (b := true) (r := 1) r0 rfl
  have r2 : Reach bm H2 := Reach.leaf (v := ⟨[1, 3], [1, 2, 5]⟩) (b := false) (r := 2) r1 rfl
  have r3 : Reach bm H3 := Reach.leaf (v := ⟨[1, 2], [0, 1]⟩) (b := false) (r := 3) r2 rfl
  have hed : ∀ v, (H3.ctx v).edges = [] := by
    intro v
    by_cases h3 : v < 4
    · interval_cases v <;> simp [H3, H2, H1, H0, Heap.ctx, freshCtx]
    · exact C16z.ctx_beyond H3 v (by simp [H3, H2, H1, H0]; omega)
  refine ⟨H3, 0, 1, 2, 3, 1, 3, 2, r3, ?_, ?_, by simp [H3, H2, H1, H0],
    by simp [H3, H2, H1, H0, Heap.dirty, Heap.ctx, freshCtx], by simp [H3, H2, H1, H0, Heap.tracked, Heap.ctx, freshCtx],
    by omega, ?_, ?_, ?_, rfl, rfl, rfl, by simp [H3, H2, H1, H0], ?_, rfl,
    by simp [H3, H2, H1, H0, Heap.tracked, Heap.ctx, freshCtx], by simp [H3, H2, H1, H0, Heap.dirty, Heap.ctx, freshCtx],
    hed 0, hed 1, ?_⟩
  · exact ⟨by simp [H3, H2, H1, H0], by simp [H3, H2, H1, H0, Heap.tracked, Heap.ctx, freshCtx],
      by simp [H3, H2, H1, H0, Heap.dirty, Heap.ctx, freshCtx]⟩
  · exact ⟨by simp [H3, H2, H1, H0], by simp [H3, H2, H1, H0, Heap.tracked, Heap.ctx, freshCtx],
      by simp [H3, H2, H1, H0, Heap.dirty, Heap.ctx, freshCtx]⟩
  · refine ⟨by simp [H3, H2, H1, H0, Heap.val, prod], ?_⟩
    intro d hd; simp [H3, H2, H1, H0, Heap.val] at hd; omega
  · refine ⟨by simp [H3, H2, H1, H0, Heap.val, prod], ?_⟩
    intro d hd; simp [H3, H2, H1, H0, Heap.val] at hd; omega
  · refine ⟨by simp [H3, H2, H1, H0, Heap.val, prod], ?_⟩
    intro d hd; simp [H3, H2, H1, H0, Heap.val] at hd; omega
  · refine ⟨by simp [H3, H2, H1, H0, Heap.val, prod], ?_⟩
    intro d hd; simp [H3, H2, H1, H0, Heap.val] at hd; omega
  · intro v e he
    rw [hed v] at he; simp at he

end C11p
end Qeep
