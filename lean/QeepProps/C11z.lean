import QeepProps.C11x
import QeepProps.C16z
import QeepProps.C15y
import QeepProps.C15w
import Mathlib.Tactic.IntervalCases
/-!
# C11 — one whole training step on an FC layer, end to end

`fc_train_step`: on any heap the public API can build, with an FC layer whose parameters `W, B : [O]` are tracked, unspent
and not consumed elsewhere, and an unspent input `x : [N, D]`: the step `Forward(x)`; `BackPropagate(y)`;
`SGD.Update(&W)`, `SGD.Update(&B)` (each followed by `ResetGradContext(true)`) — `C11x.trainStep` — whenever the
back-propagation returns without error, succeeds and replaces `W` and `B` by fresh tracked leaves with
`W'[o] = W[o] − lr·Σ_n Σ_d x[n][d]` and `B'[o] = B[o] − lr·N` (`sum` mode): gradient descent on `Σ_{n,o} y[n][o]` with the
partial derivatives `fc_backward_is_gradient` identifies. Composition of `C11x.train_step_law` (the step replaces every
weight `w` by `w − lr·g`, `g` what the walk left) and `C16z.fc_backprop` (what the walk leaves).
-/
set_option linter.unusedSimpArgs false
set_option linter.unusedSectionVars false
set_option linter.unusedVariables false

namespace Qeep
namespace C11z
open RealScalar C01 C11x C16x C16z C15x C15w

theorem fc_train_step (lr : ℝ) (H : Heap ℝ) (w b x N D O : Nat) (hR : Reach .sum H)
    (lw : Live H w) (lb : Live H b) (hx : x < H.size) (cx : H.dirty x = false) (hwb : w ≠ b)
    (ww : (H.val w).WF) (wb : (H.val b).WF) (wx : (H.val x).WF)
    (dw : (H.val w).dims = [O]) (db : (H.val b).dims = [O]) (dx : (H.val x).dims = [N, D])
    (hsole : ∀ v, ∀ e ∈ (H.ctx v).edges, e.target ≠ w ∧ e.target ≠ b)
    (y : Nat) (H1 : Heap ℝ) (hfwd : fcForward ⟨some w, some b⟩ [some x] H = .ok (y, H1))
    (hbp : (backprop .sum H1 y).status = .ok ()) :
    ∃ rw rb H', trainStep .sum lr (fcForward ⟨some w, some b⟩ [some x]) [w, b] H = .ok ([rw, rb], H') ∧
      H'.ctx rw = freshLeaf ∧ H'.ctx rb = freshLeaf ∧ (H'.val rw).dims = [O] ∧ (H'.val rb).dims = [O] ∧
      (∀ o, o < O → (H'.val rw).el [o]
          = (H.val w).el [o] - lr * ∑ n ∈ Finset.range N, ∑ d ∈ Finset.range D, (H.val x).el [n, d]) ∧
      (∀ o, o < O → (H'.val rb).el [o] = (H.val b).el [o] - lr * (N : ℝ)) := by
  obtain ⟨y', H1', hrun, himp⟩ := fc_backprop H w b x N D O hR lw lb hx cx hwb ww wb wx dw db dx hsole
  obtain ⟨rfl, rfl⟩ := run_unique hfwd hrun
  obtain ⟨dW, dB, gW, gB, wW, dWd, wB, dBd, eW, eB⟩ := himp hbp
  obtain ⟨hext, _⟩ := fresh_fcForward _ _ H _ H1 hfwd
  have vw : H1.val w = H.val w := hext.val lw.1
  have vb : H1.val b = H.val b := hext.val lb.1
  have hlt : H.size ≤ H1.size := hext.1
  obtain ⟨rs, H', hstep, hlen, _, hspec⟩ := train_step_law .sum lr (fcForward ⟨some w, some b⟩ [some x]) [w, b] H H1 y hfwd hbp
    [dW, dB] rfl (by
      intro k w' g hk hg
      match k, hk, hg with
      | 0, hk, hg =>
        simp at hk hg; subst hk hg
        exact ⟨by have := lw.1; omega, gW, by rw [vw]; exact ww, wW, by rw [vw, dWd, dw]⟩
      | 1, hk, hg =>
        simp at hk hg; subst hk hg
        exact ⟨by have := lb.1; omega, gB, by rw [vb]; exact wb, wB, by rw [vb, dBd, db]⟩
      | k + 2, hk, _ => simp at hk)
  match rs, hlen with
  | [rw, rb], _ =>
    obtain ⟨_, v0, c0⟩ := hspec 0 w dW rw rfl rfl rfl
    obtain ⟨_, v1, c1⟩ := hspec 1 b dB rb rfl rfl rfl
    rw [vw] at v0; rw [vb] at v1
    refine ⟨rw, rb, H', hstep, c0, c1, by rw [v0]; exact dw, by rw [v1]; exact db, ?_, ?_⟩
    · intro o ho
      rw [v0]
      unfold stepped
      rw [C15y.zip_el _ (H.val w) dW ww wW (by rw [dw, dWd]) (by rw [dw]; exact valid1 ho), eW o ho]
      simp [sub_eq, mul_eq]
    · intro o ho
      rw [v1]
      unfold stepped
      rw [C15y.zip_el _ (H.val b) dB wb wB (by rw [db, dBd]) (by rw [db]; exact valid1 ho), eB o ho]
      simp [sub_eq, mul_eq]

/-- **the same step with leaf parameters and a data input: unconditional.** `Forward`, `BackPropagate`, `Update` of both
    parameters all succeed and the parameters are replaced by `W − lr·∂/∂W`, `B − lr·∂/∂B` of `Σ y`. -/
theorem fc_train_step_leaf (lr : ℝ) (H : Heap ℝ) (w b x N D O : Nat) (hR : Reach .sum H)
    (lw : Live H w) (lb : Live H b) (hx : x < H.size) (cx : H.dirty x = false) (ux : H.tracked x = false) (hwb : w ≠ b)
    (ww : (H.val w).WF) (wb : (H.val b).WF) (wx : (H.val x).WF)
    (dw : (H.val w).dims = [O]) (db : (H.val b).dims = [O]) (dx : (H.val x).dims = [N, D])
    (leafw : (H.ctx w).edges = []) (leafb : (H.ctx b).edges = [])
    (hsole : ∀ v, ∀ e ∈ (H.ctx v).edges, e.target ≠ w ∧ e.target ≠ b) :
    ∃ rw rb H', trainStep .sum lr (fcForward ⟨some w, some b⟩ [some x]) [w, b] H = .ok ([rw, rb], H') ∧
      H'.ctx rw = freshLeaf ∧ H'.ctx rb = freshLeaf ∧ (H'.val rw).dims = [O] ∧ (H'.val rb).dims = [O] ∧
      (∀ o, o < O → (H'.val rw).el [o]
          = (H.val w).el [o] - lr * ∑ n ∈ Finset.range N, ∑ d ∈ Finset.range D, (H.val x).el [n, d]) ∧
      (∀ o, o < O → (H'.val rb).el [o] = (H.val b).el [o] - lr * (N : ℝ)) := by
  obtain ⟨y, H1, hfwd, hok, _⟩ := fc_backprop_leaf H w b x N D O hR lw lb hx cx ux hwb ww wb wx dw db dx leafw leafb hsole
  exact fc_train_step lr H w b x N D O hR lw lb hx cx hwb ww wb wx dw db dx hsole y H1 hfwd hok

/-- the hypotheses of `fc_train_step_leaf` are satisfiable: `W = [3, 4]`, `B = [0, 1]` tracked leaves, `x = [[1, 2, 5]]` -/
example : ∃ (H : Heap ℝ) (w b x N D O : Nat), Reach .sum H ∧ Live H w ∧ Live H b ∧ x < H.size ∧ H.dirty x = false ∧
    H.tracked x = false ∧ w ≠ b ∧
    (H.val w).WF ∧ (H.val b).WF ∧ (H.val x).WF ∧ (H.val w).dims = [O] ∧ (H.val b).dims = [O] ∧ (H.val x).dims = [N, D] ∧
    (H.ctx w).edges = [] ∧ (H.ctx b).edges = [] ∧
    (∀ v, ∀ e ∈ (H.ctx v).edges, e.target ≠ w ∧ e.target ≠ b) := by
  let H0 : Heap ℝ := #[⟨⟨[2], [3, 4]⟩, freshCtx true⟩]
  let H1 : Heap ℝ := H0.push ⟨⟨[2], [0, 1]⟩, freshCtx true⟩
  let H2 : Heap ℝ := H1.push ⟨⟨[1, 3], [1, 2, 5]⟩, freshCtx false⟩
  have r0 : Reach .sum H0 := Reach.leaf (v := ⟨[2], [3, 4]⟩) (b := true) (r := 0) Reach.empty rfl
  have r1 : Reach .sum H1 := Reach.leaf (v := ⟨[2], [0, 1]⟩) (b := true) (r := 1) r0 rfl
  have r2 : Reach .sum H2 := Reach.leaf (v := ⟨[1, 3], [1, 2, 5]⟩) (b := false) (r := 2) r1 rfl
  have hed : ∀ v, (H2.ctx v).edges = [] := by
    intro v
    by_cases h3 : v < 3
    · interval_cases v <;> simp [H2, H1, H0, Heap.ctx, freshCtx]
    · exact ctx_beyond H2 v (by simp [H2, H1, H0]; omega)
  refine ⟨H2, 0, 1, 2, 1, 3, 2, r2, ?_, ?_, by simp [H2, H1, H0], by simp [H2, H1, H0, Heap.dirty, Heap.ctx, freshCtx],
    by simp [H2, H1, H0, Heap.tracked, Heap.ctx, freshCtx], by omega, ?_, ?_, ?_, rfl, rfl, rfl, hed 0, hed 1, ?_⟩
  · exact ⟨by simp [H2, H1, H0], by simp [H2, H1, H0, Heap.tracked, Heap.ctx, freshCtx], by simp [H2, H1, H0, Heap.dirty, Heap.ctx, freshCtx]⟩
  · exact ⟨by simp [H2, H1, H0], by simp [H2, H1, H0, Heap.tracked, Heap.ctx, freshCtx], by simp [H2, H1, H0, Heap.dirty, Heap.ctx, freshCtx]⟩
  · refine ⟨by simp [H2, H1, H0, Heap.val, prod], ?_⟩
    intro d hd; simp [H2, H1, H0, Heap.val] at hd; omega
  · refine ⟨by simp [H2, H1, H0, Heap.val, prod], ?_⟩
    intro d hd; simp [H2, H1, H0, Heap.val] at hd; omega
  · refine ⟨by simp [H2, H1, H0, Heap.val, prod], ?_⟩
    intro d hd; simp [H2, H1, H0, Heap.val] at hd; omega
  · intro v e he
    rw [hed v] at he; simp at he

end C11z
end Qeep
