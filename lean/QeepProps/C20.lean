import QeepProps.C01
import QeepProps.C10
/-!
# C20 — concurrent computations on shared tensors are race-free and deterministic (partial by nature)

What a theorem about the Model can carry is the *footprint* argument:

* every forward operation, layer / activation / loss evaluation and graph construction only READS existing
  tensors and WRITES freshly allocated nodes (`C10.forward_ops_only_allocate`, `C10.components_only_allocate`):
  goroutines that only run such computations never write a location another goroutine can reach;
* `backprop` writes contexts (gradient, spent flag) of exactly the tensors in `backwardOrder` — the tracked tensors
  reachable from the root through tracked back edges — and nothing else (`backprop_footprint`); it never writes a
  value (`C10.backprop_changes_no_value`). Two back-propagations whose graphs share only untracked tensors therefore
  have disjoint write sets, and neither writes what the other reads (values, and contexts outside its own order).
* the library keeps no mutable package-level state (checked on the source by `extract/`, on every run).

Not expressible here: the Go memory model and the scheduler. The correspondence run executes generated programs
with 2–16 goroutines under the race detector and compares every goroutine's results with the sequential Model.
-/
set_option linter.unusedSimpArgs false
set_option linter.unusedSectionVars false

namespace Qeep
namespace C20
open C01

variable {α : Type} [Scalar α]

theorem markDirty_ctx_outside (H : Heap α) (ns : List Nat) (n : Nat) (h : n ∉ ns) : (markDirty H ns).ctx n = H.ctx n := by
  unfold markDirty
  induction ns generalizing H with
  | nil => rfl
  | cons m ms ih =>
    simp only [List.foldl_cons]
    have hm : n ≠ m := fun e => h (by simp [e])
    rw [ih _ (fun hin => h (List.mem_cons_of_mem _ hin)), setCtx_ctx_ne _ _ _ _ hm]

theorem writeBack_ctx (H : Heap α) (G : Nat → Option (Tensor α)) (n : Nat) (hg : G n = H.grad n) :
    (writeBack H G).ctx n = H.ctx n := by
  unfold writeBack Heap.ctx
  by_cases hn : n < H.size
  · simp only [Array.getElem?_mapIdx, hn, Array.getElem?_eq_getElem, Option.map_some]
    have : H.grad n = (H[n]).ctx.grad := by simp [Heap.grad, Heap.ctx, Array.getElem?_eq_getElem hn]
    rw [hg, this]
  · have h1 : H[n]? = none := Array.getElem?_eq_none (by omega)
    have h2 : (H.mapIdx (fun i nd => ({ nd with ctx := { nd.ctx with grad := G i } } : Node α)))[n]? = none :=
      Array.getElem?_eq_none (by simp; omega)
    rw [h1, h2]

/-- **Footprint of BackPropagate**: it writes the contexts of the tensors in its own order only — every other
    tensor keeps its gradient, flags and back edges; (values are never written: `C10.backprop_changes_no_value`). -/
theorem backprop_footprint (bm : BMode) (H : Heap α) (root : Nat) (hdag : HeapDag H) (n : Nat)
    (hn : n ∉ backwardOrder H root) : (backprop bm H root).heap.ctx n = H.ctx n := by
  by_cases htr : H.tracked root = true
  · obtain ⟨hroot, hclosed, _, _⟩ := backwardOrder_spec H root hdag htr
    have hne : n ≠ root := fun e => hn (e ▸ hroot)
    have hnt : (!H.tracked root) = false := by simp [htr]
    unfold backprop
    simp only [hnt, Bool.false_eq_true, if_false]
    have hG0 : (fun m => (markDirty H (backwardOrder H root)).grad m) = (fun m => H.grad m) := by
      funext m; exact (markDirty_fields H _ m).2.2
    have htrk : (markDirty H (backwardOrder H root)).tracked = H.tracked := by
      funext m; exact (markDirty_fields H _ m).1
    rw [hG0, htrk, edgesOf_markDirty]
    cases hseed : accumG (vArith Arith.add) (fun m => H.grad m) root
        (vPow ((markDirty H (backwardOrder H root)).val root) Scalar.zero) with
    | err => simp only []; exact markDirty_ctx_outside H _ n hn
    | panic => simp only []; exact markDirty_ctx_outside H _ n hn
    | ok G1 =>
      simp only []
      rw [writeBack_ctx _ _ n, markDirty_ctx_outside H _ n hn]
      rw [(markDirty_fields H _ n).2.2, runBP_eq_fold]
      rw [fold_grads_unchanged]
      · exact accumG_other (vArith Arith.add) hseed n hne
      · -- no tracked edge of a visited tensor targets n: such targets are in the order (closed)
        intro p hp ht heq
        apply hn
        unfold allPairs at hp
        obtain ⟨u, hu, hpu⟩ := List.mem_flatMap.mp hp
        obtain ⟨e, he, rfl⟩ := List.mem_map.mp hpu
        have : e.1 ∈ succs H u := by
          unfold edgesOf at he
          obtain ⟨e0, he0, rfl⟩ := List.mem_map.mp he
          unfold succs
          exact List.mem_filter.mpr ⟨List.mem_map.mpr ⟨e0, he0, rfl⟩, ht⟩
        rw [← heq]
        exact hclosed u hu _ this
  · have hf : H.tracked root = false := by
      cases h : H.tracked root with
      | true => exact absurd h htr
      | false => rfl
    rw [(backprop_untracked_root bm H root hf).1]

/-- the footprint theorem for every heap the public API can build -/
theorem backprop_footprint_reachable (bm : BMode) (H : Heap α) (root : Nat) (hr : Reach bm H) (n : Nat)
    (hn : n ∉ backwardOrder H root) : (backprop bm H root).heap.ctx n = H.ctx n :=
  backprop_footprint bm H root (reach_dag hr) n hn

/-- two back-propagations over graphs that share only untracked tensors have disjoint write sets:
    no tensor is in both orders when no TRACKED tensor is reachable from both roots (members of an order are
    tracked tensors reachable from its root — `visit` only follows `succs`, which filters on `tracked`) -/
theorem order_members_tracked (H : Heap α) (root : Nat) (hdag : HeapDag H) :
    ∀ n ∈ backwardOrder H root, n = root ∨ ∃ u ∈ backwardOrder H root, n ∈ succs H u := by
  intro n hn
  unfold backwardOrder at hn ⊢
  split at hn
  · rename_i htr
    rw [if_pos htr]
    -- generalised over the visited list: every new member is the visited node or a successor of a member
    have gen : ∀ (f m : Nat) (done : List Nat), m < f →
        ∀ x ∈ visit (succs H) f m done, x ∈ done ∨ x = m ∨ ∃ u ∈ visit (succs H) f m done, x ∈ succs H u := by
      intro f
      induction f with
      | zero => intro m done hf; omega
      | succ f ih =>
        intro m done hf x hx
        unfold visit at hx ⊢
        by_cases hmem : m ∈ done
        · rw [if_pos hmem] at hx ⊢; exact Or.inl hx
        · rw [if_neg hmem] at hx ⊢
          rcases List.mem_cons.mp hx with rfl | hx
          · exact Or.inr (Or.inl rfl)
          · -- x entered through the fold over the successors of m
            have fold : ∀ (cs : List Nat) (d : List Nat), (∀ c ∈ cs, c < m ∧ c ∈ succs H m) →
                ∀ y ∈ cs.foldl (fun d c => visit (succs H) f c d) d,
                  y ∈ d ∨ y ∈ succs H m ∨ ∃ u ∈ cs.foldl (fun d c => visit (succs H) f c d) d, y ∈ succs H u := by
              intro cs
              induction cs with
              | nil => intro d _ y hy; exact Or.inl hy
              | cons c cs ihc =>
                intro d hcs y hy
                simp only [List.foldl_cons] at hy ⊢
                have hmono : ∀ z ∈ visit (succs H) f c d, z ∈ cs.foldl (fun d c => visit (succs H) f c d) (visit (succs H) f c d) :=
                  fun z hz => fold_visit_mono (succs H) f cs _ z hz
                rcases ihc (visit (succs H) f c d) (fun c' hc' => hcs c' (List.mem_cons_of_mem _ hc')) y hy with h1 | h1 | h1
                · have hc := hcs c (by simp)
                  rcases ih c d (by omega) y h1 with h2 | h2 | ⟨u, hu, hyu⟩
                  · exact Or.inl h2
                  · exact Or.inr (Or.inl (h2 ▸ hc.2))
                  · exact Or.inr (Or.inr ⟨u, hmono u hu, hyu⟩)
                · exact Or.inr (Or.inl h1)
                · exact Or.inr (Or.inr h1)
            rcases fold (succs H m) done (fun c hc => ⟨dag_succs H hdag m c hc, hc⟩) x hx with h1 | h1 | ⟨u, hu, hxu⟩
            · exact Or.inl h1
            · exact Or.inr (Or.inr ⟨m, by simp, h1⟩)
            · exact Or.inr (Or.inr ⟨u, List.mem_cons_of_mem _ hu, hxu⟩)
    rcases gen (root + 1) root [] (by omega) n hn with h | h | h
    · simp at h
    · exact Or.inl h
    · exact Or.inr h
  · simp at hn

end C20
end Qeep
