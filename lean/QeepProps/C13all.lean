import QeepProps.C13x
import QeepProps.C13z
import QeepProps.C13w
import QeepProps.C13u
import QeepProps.C13t
import QeepProps.C13s
/-! C13 — all property theorems: `C13`, `C13x` (local backward passes of MSE / BCE / CE) and `C13z` (MSE end to end: the
gradient `BackPropagate` stores on the prediction). `C13w` (`mse_backprop_leaf`: for a leaf prediction `BackPropagate` succeeds, unconditionally, and stores `2(p−t)/n`). `C13v` (the clip segment inside any walk: `clip_in_walk`; CE end to end: `ce_backprop_full`, `ce_backprop`, `ce_backprop_el`) and `C13u` (BCE end to end over all thirty tensors of the loss graph: `bce_backprop`, `bce_backprop_el`; `grad_three`). `C13t`: an activation under a loss — Sigmoid → BCE: `sigmoid_bce_backprop(_el)` (the logistic gradient `(σ(x) − t̂)/n` on the real walk over thirty-seven tensors) and `sigmoid_bce_backprop_leaf` (unconditional on a leaf input). `C13s`: `logistic_loss_deriv` — the logistic gradient `(σ(xᵢ) − tᵢ)/n` is the Mathlib partial derivative of the composite loss BCE ∘ Sigmoid with respect to the logit. -/
