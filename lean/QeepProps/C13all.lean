import QeepProps.C13x
import QeepProps.C13z
import QeepProps.C13w
/-! C13 — all property theorems: `C13`, `C13x` (local backward passes of MSE / BCE / CE) and `C13z` (MSE end to end: the
gradient `BackPropagate` stores on the prediction). `C13w` (`mse_backprop_leaf`: for a leaf prediction `BackPropagate` succeeds, unconditionally, and stores `2(p−t)/n`). -/
