import QeepProps.C13x
import QeepProps.C13z
/-! C13 — all property theorems: `C13`, `C13x` (local backward passes of MSE / BCE / CE) and `C13z` (MSE end to end: the
gradient `BackPropagate` stores on the prediction). -/
