import QeepProps.C13u
import QeepProps.C15u
import QeepProps.C15t
import QeepProps.C16z
import Mathlib.Tactic.IntervalCases
import Mathlib.Tactic.FieldSimp
/-!
# C13 / C15 — an activation under a loss: Sigmoid → BCE, the logistic gradient

`sigmoid_bce_backprop`: any reachable heap, a tracked unspent rank-1 input `x` (leaf or not) that nothing consumes yet, an
untracked unspent target `t`. Run `Sigmoid.Forward(x)`, `BCE.Compute(s, t)` and `BackPropagate(loss)`. If the back-propagation
returns without error, `x.Gradient()[i] = bceGrad 1 n t̂ᵢ σ(xᵢ) · σ(xᵢ)(1 − σ(xᵢ))` — the chain rule across the two components on
the real walk over thirty-seven tensors, by COMPOSING `C13u.bce_backprop_full` with `C15u.sigmoid_in_walk` — and where `σ(xᵢ)`
is strictly inside the clip band this is the textbook logistic gradient `(σ(xᵢ) − t̂ᵢ)/n` (`sigmoid_bce_backprop_el`), 0 where
it is strictly outside.
-/
set_option linter.unusedSimpArgs false
set_option linter.unusedSectionVars false
set_option linter.unusedVariables false

namespace Qeep
namespace C13t
open RealScalar C13x C13z C13v C13u C15x C15z C15u C01 C01x C01z C01w C01q C20
open C12x (tHat pHat)

theorem zip3 (B : ℝ → ℝ → ℝ) (φ σ : ℝ → ℝ) : ∀ (T X : List ℝ),
    List.zipWith (fun g a => g * φ a) (List.zipWith B T (X.map σ)) X = List.zipWith (fun tv a => B tv (σ a) * φ a) T X
  | [], _ => by simp
  | _ :: _, [] => by simp
  | tv :: T, a :: X => by simp [zip3 B φ σ T X]

/-- the logistic identity: `∂BCE/∂p · σ' = (σ − t)/n` -/
theorem logistic_identity (n : Nat) (hn : 0 < n) (τ s : ℝ) (h0 : s ≠ 0) (h1 : 1 - s ≠ 0) :
    (1 * (-1 / (n : ℝ)) * (τ / s - (1 - τ) / (1 - s))) * (s * (1 - s)) = (s - τ) / (n : ℝ) := by
  have hn' : (n : ℝ) ≠ 0 := by exact_mod_cast (Nat.pos_iff_ne_zero.mp hn)
  field_simp
  ring

theorem sigmoid_bce_backprop (bm : BMode) (H : Heap ℝ) (x t n : Nat) (hR : Reach bm H) (hwf : (H.val x).WF) (l : Live H x)
    (dx : (H.val x).dims = [n]) (ht : t < H.size) (wt : (H.val t).WF) (dt : (H.val t).dims = [n])
    (htt : H.tracked t = false) (htc : H.dirty t = false)
    (hsole : ∀ v, ∀ e ∈ (H.ctx v).edges, e.target ≠ x) :
    ∃ s H1 r H2, actForward Activation.sigmoid [some x] H = .ok (s, H1) ∧
      lossCompute Loss.bce (some s) (some t) H1 = .ok (r, H2) ∧
      ((backprop bm H2 r).status = .ok () →
        (backprop bm H2 r).heap.grad x = some ⟨[n], List.zipWith
          (fun tv a => bceGrad 1 n (tHat tv) (sig a) * (sig a * (1 - sig a))) (H.val t).data (H.val x).data⟩) := by
  obtain ⟨s, H1, hrun1, hext1, R1, es, hsz1, vx, v2, v3, v4, v5, vr, c0, c1, c2, c3, c4, c5, c6⟩ :=
    sigmoid_full bm H x hR hwf l
  subst es
  have hxk : x < H.size := l.1
  have ls : Live H1 (H.size + 6) :=
    ⟨by omega, by simp [Heap.tracked, c6, liveCtx], by simp [Heap.dirty, c6, liveCtx]⟩
  have ws : (H1.val (H.size + 6)).WF := by rw [vr]; exact map_wf _ _ hwf
  have ds : (H1.val (H.size + 6)).dims = [n] := by rw [vr]; exact dx
  have ht1 : t < H1.size := by omega
  have vt1 : H1.val t = H.val t := hext1.val ht
  have tt1 : H1.tracked t = false := by simp only [Heap.tracked, hext1.ctx ht] at htt ⊢; exact htt
  have ct1 : H1.dirty t = false := by simp only [Heap.dirty, hext1.ctx ht] at htc ⊢; exact htc
  obtain ⟨H2, hrun2, hext2, hsz2, R2, troot, hfoot, hokc, himp⟩ := bce_backprop_full bm H1 (H.size + 6) t n R1 ls.1 ht1 ws
    (by rw [vt1]; exact wt) ds (by rw [vt1]; exact dt) ls.2.1 ls.2.2 tt1 ct1
  refine ⟨H.size + 6, H1, H1.size + 29, H2, hrun1, hrun2, ?_⟩
  intro hok
  obtain ⟨my, f6⟩ := himp hok
  have hdag := reach_dag R2
  have hdagH := reach_dag hR
  have old : ∀ k, k < H1.size → H2.ctx k = H1.ctx k := fun k hk => hext2.ctx hk
  have oldv : ∀ k, k < H1.size → H2.val k = H1.val k := fun k hk => hext2.val hk
  have vx2 : H2.val x = H.val x := by rw [oldv x (by omega), vx]
  have wG : (⟨[n], List.zipWith (fun tv pv => bceGrad 1 n (tHat tv) pv) (H1.val t).data (H1.val (H.size + 6)).data⟩ : Tensor ℝ).WF := by
    have wt1 : (H1.val t).WF := by rw [vt1]; exact wt
    have dt1 : (H1.val t).dims = [n] := by rw [vt1]; exact dt
    have := zip_wf (fun tv pv => bceGrad 1 n (tHat tv) pv) _ _ wt1 ws (by rw [dt1, ds])
    rwa [dt1] at this
  have res := sigmoid_in_walk bm H2 (H1.size + 29) x H.size hdag troot hok (by rw [vx2]; exact hwf) hxk
    (by rw [oldv _ (by omega), v2, vx2])
    (by rw [oldv _ (by omega), oldv _ (by omega), v3])
    (by rw [oldv _ (by omega), oldv _ (by omega), v4])
    (by rw [oldv _ (by omega), v5, vx2])
    (by
      intro i hi
      rw [old _ (by omega)]
      interval_cases i <;> simp only [sgEdges, Nat.add_zero]
      · exact c0
      · exact c1
      · exact c2
      · exact c3
      · exact c4
      · exact c5
      · exact c6)
    (by have := l.2.1; simp only [Heap.tracked, old x (by omega), hext1.ctx hxk] at this ⊢; exact this)
    (by have := reach_clean_nograd hR x l.2.2; simp only [Heap.grad, old x (by omega), hext1.ctx hxk] at this ⊢; exact this)
    (by omega) (by intro i hi; omega)
    (by
      intro v hvo hv e hev
      rcases hv with hv | hv
      · rw [old v (by omega), hext1.ctx hv] at hev
        have a1 := hsole v e hev
        have := hdagH v e hev
        exact ⟨a1, by omega⟩
      · have hvt : H2.tracked v = true := by
          rcases C20.order_members_tracked H2 (H1.size + 29) hdag v hvo with rfl | ⟨u, _, hs⟩
          · exact troot
          · unfold succs at hs; exact (List.mem_filter.mp hs).2
        have := hfoot v (by omega) hvt e hev
        exact ⟨by omega, by omega⟩)
    _ wG (by rw [vx2, dx]) my f6
  rw [res]
  unfold gz
  rw [vx2, vt1, vr]
  simp only [Tensor.map]
  rw [zip3]

/-- **Sigmoid → BCE on a leaf input: unconditional.** `BackPropagate(loss)` SUCCEEDS (either mode): the progress statement of
    `C13u.bce_backprop_full`, discharged below the prediction with the per-edge acceptance `C15t.sg_edge_ok` of the Sigmoid
    graph and the set of tensors the walk can visit; hence `x.Gradient()` is the logistic gradient of `sigmoid_bce_backprop`. -/
theorem sigmoid_bce_backprop_leaf (bm : BMode) (H : Heap ℝ) (x t n : Nat) (hR : Reach bm H) (hwf : (H.val x).WF) (l : Live H x)
    (dx : (H.val x).dims = [n]) (ht : t < H.size) (wt : (H.val t).WF) (dt : (H.val t).dims = [n])
    (htt : H.tracked t = false) (htc : H.dirty t = false) (hleaf : (H.ctx x).edges = [])
    (hsole : ∀ v, ∀ e ∈ (H.ctx v).edges, e.target ≠ x) :
    ∃ s H1 r H2, actForward Activation.sigmoid [some x] H = .ok (s, H1) ∧
      lossCompute Loss.bce (some s) (some t) H1 = .ok (r, H2) ∧ (backprop bm H2 r).status = .ok () ∧
      (backprop bm H2 r).heap.grad x = some ⟨[n], List.zipWith
        (fun tv a => bceGrad 1 n (tHat tv) (sig a) * (sig a * (1 - sig a))) (H.val t).data (H.val x).data⟩ := by
  obtain ⟨s, H1, r, H2, h1, h2, himp⟩ := sigmoid_bce_backprop bm H x t n hR hwf l dx ht wt dt htt htc hsole
  refine ⟨s, H1, r, H2, h1, h2, ?_⟩
  suffices hok : (backprop bm H2 r).status = .ok () from ⟨hok, himp hok⟩
  obtain ⟨s', H1', hrun1, hext1, R1, es, hsz1, vx, v2, v3, v4, v5, vr, c0, c1, c2, c3, c4, c5, c6⟩ :=
    sigmoid_full bm H x hR hwf l
  obtain ⟨rfl, rfl⟩ := C15w.run_unique h1 hrun1
  subst es
  have hxk : x < H.size := l.1
  have ls : Live H1 (H.size + 6) :=
    ⟨by omega, by simp [Heap.tracked, c6, liveCtx], by simp [Heap.dirty, c6, liveCtx]⟩
  have ws : (H1.val (H.size + 6)).WF := by rw [vr]; exact map_wf _ _ hwf
  have ds : (H1.val (H.size + 6)).dims = [n] := by rw [vr]; exact dx
  have ht1 : t < H1.size := by omega
  have vt1 : H1.val t = H.val t := hext1.val ht
  have tt1 : H1.tracked t = false := by simp only [Heap.tracked, hext1.ctx ht] at htt ⊢; exact htt
  have ct1 : H1.dirty t = false := by simp only [Heap.dirty, hext1.ctx ht] at htc ⊢; exact htc
  obtain ⟨H2', hrun2, hext2, hsz2, R2, troot, hfoot, hokc, _⟩ := bce_backprop_full bm H1 (H.size + 6) t n R1 ls.1 ht1 ws
    (by rw [vt1]; exact wt) ds (by rw [vt1]; exact dt) ls.2.1 ls.2.2 tt1 ct1
  obtain ⟨rfl, rfl⟩ := C15w.run_unique h2 hrun2
  have old : ∀ k, k < H1.size → H2.ctx k = H1.ctx k := fun k hk => hext2.ctx hk
  have oldv : ∀ k, k < H1.size → H2.val k = H1.val k := fun k hk => hext2.val hk
  have vx2 : H2.val x = H.val x := by rw [oldv x (by omega), vx]
  have hc : ∀ i, i ≤ 6 → H2.ctx (H.size + i) = liveCtx (sgEdges x H.size i) := by
    intro i hi
    rw [old _ (by omega)]
    interval_cases i <;> simp only [sgEdges, Nat.add_zero]
    · exact c0
    · exact c1
    · exact c2
    · exact c3
    · exact c4
    · exact c5
    · exact c6
  have ex : (H2.ctx x).edges = [] := by rw [old x (by omega), hext1.ctx hxk]; exact hleaf
  have gx : H2.grad x = none := by
    have := reach_clean_nograd hR x l.2.2; simp only [Heap.grad, old x (by omega), hext1.ctx hxk] at this ⊢; exact this
  have tgs : ∀ (i : Nat) (e : Edge ℝ), i ≤ 6 → e ∈ sgEdges x H.size i →
      e.target = x ∨ ∃ j, j ≤ 5 ∧ e.target = H.size + j := by
    intro i e hi hm
    interval_cases i <;> simp [sgEdges] at hm <;> (try rcases hm with rfl | rfl) <;> (try subst hm) <;> simp
    all_goals first
      | (exact ⟨0, by omega, by omega⟩)
      | (exact ⟨1, by omega, by omega⟩)
      | (exact ⟨2, by omega, by omega⟩)
      | (exact ⟨3, by omega, by omega⟩)
      | (exact ⟨4, by omega, by omega⟩)
      | (exact ⟨5, by omega, by omega⟩)
  have hvis : ∀ v ∈ backwardOrder H2 (H1.size + 29), H2.tracked v = true ∧
      (H1.size ≤ v ∨ (H.size ≤ v ∧ v ≤ H.size + 6) ∨ v = x) := by
    apply order_subset H2 (H1.size + 29) (fun v => H2.tracked v = true ∧ (H1.size ≤ v ∨ (H.size ≤ v ∧ v ≤ H.size + 6) ∨ v = x))
    · exact ⟨troot, Or.inl (by omega)⟩
    · intro u hu v hv
      obtain ⟨hut, hu⟩ := hu
      have hvt : H2.tracked v = true := by
        unfold succs at hv; exact (List.mem_filter.mp hv).2
      obtain ⟨e, he, rfl⟩ := mem_succs_edge H2 u v hv
      refine ⟨hvt, ?_⟩
      rcases hu with hu | ⟨h1', h2'⟩ | rfl
      · rcases hfoot u hu hut e he with h | h
        · left; exact h
        · right; left; omega
      · obtain ⟨i, hi, rfl⟩ : ∃ i, i ≤ 6 ∧ u = H.size + i := ⟨u - H.size, by omega, by omega⟩
        rw [hc i hi] at he
        simp only [liveCtx] at he
        rcases tgs i e hi he with h | ⟨j, hj, h⟩
        · right; right; exact h
        · right; left; omega
      · rw [ex] at he; simp at he
  have hv1 : ∀ k, (markDirty H2 (backwardOrder H2 (H1.size + 29))).val k = H2.val k := fun k => markDirty_val _ _ k
  apply hokc (fun _ gg => Shaped [n] gg)
  · intro k a b' ha hb
    exact C15w.shaped_add_ok _ a b' ha hb
  · intro gg hgg; exact hgg
  · intro k hk hlt gg hgk
    obtain ⟨_, h | ⟨h1', h2'⟩ | rfl⟩ := hvis k hk
    · omega
    · obtain ⟨i, hi, rfl⟩ : ∃ i, i ≤ 6 ∧ k = H.size + i := ⟨k - H.size, by omega, by omega⟩
      have := (liveCtx_grad H2 _ _ (hc i hi)).1
      rw [this] at hgk; cases hgk
    · rw [gx] at hgk; cases hgk
  · intro u hu hlt e he htr gy hgy
    rw [C16z.evalRule_val_congr bm _ H2 hv1]
    obtain ⟨_, h | ⟨h1', h2'⟩ | rfl⟩ := hvis u hu
    · omega
    · obtain ⟨i, hi, rfl⟩ : ∃ i, i ≤ 6 ∧ u = H.size + i := ⟨u - H.size, by omega, by omega⟩
      rw [hc i hi] at he
      simp only [liveCtx] at he
      have hgy' : Shaped (H2.val x).dims gy := by rw [vx2, dx]; exact hgy
      obtain ⟨g', q1, q2⟩ := C15t.sg_edge_ok bm H2 x H.size (by rw [vx2]; exact hwf)
        (by rw [oldv _ (by omega), v2, vx2])
        (by rw [oldv _ (by omega), oldv _ (by omega), v3])
        (by rw [oldv _ (by omega), oldv _ (by omega), v4])
        (by rw [oldv _ (by omega), v5, vx2]) i hi e he gy hgy'
      rw [vx2, dx] at q2
      exact ⟨g', q1, q2⟩
    · rw [ex] at he; simp at he

/-- **the logistic gradient**: position `i` of `x.Gradient()` is `(σ(xᵢ) − t̂ᵢ)/n` where `σ(xᵢ)` is strictly inside the clip
    band of BCE, and 0 where it is strictly outside -/
theorem sigmoid_bce_backprop_el (bm : BMode) (H : Heap ℝ) (x t n : Nat) (hR : Reach bm H) (hwf : (H.val x).WF) (l : Live H x)
    (dx : (H.val x).dims = [n]) (ht : t < H.size) (wt : (H.val t).WF) (dt : (H.val t).dims = [n])
    (htt : H.tracked t = false) (htc : H.dirty t = false)
    (hsole : ∀ v, ∀ e ∈ (H.ctx v).edges, e.target ≠ x) :
    ∃ s H1 r H2, actForward Activation.sigmoid [some x] H = .ok (s, H1) ∧
      lossCompute Loss.bce (some s) (some t) H1 = .ok (r, H2) ∧
      ((backprop bm H2 r).status = .ok () →
        ∃ K, (backprop bm H2 r).heap.grad x = some K ∧ K.dims = [n] ∧
          ∀ (i : Nat) (hi : i < n) (tv a : ℝ), (H.val t).data[i]? = some tv → (H.val x).data[i]? = some a →
            (1 / 10 ^ 12 + 1 / 10 ^ 240 < sig a → sig a < 1 - 1 / 10 ^ 12 - 1 / 10 ^ 240 →
              K.data[i]? = some ((sig a - tHat tv) / (n : ℝ))) ∧
            (sig a < 1 / 10 ^ 12 - 1 / 10 ^ 240 ∨ 1 - 1 / 10 ^ 12 + 1 / 10 ^ 240 < sig a → K.data[i]? = some 0)) := by
  obtain ⟨s, H1, r, H2, h1, h2, himp⟩ := sigmoid_bce_backprop bm H x t n hR hwf l dx ht wt dt htt htc hsole
  have hn : 0 < n := hwf.2 n (by rw [dx]; simp)
  refine ⟨s, H1, r, H2, h1, h2, fun hok => ⟨_, himp hok, rfl, ?_⟩⟩
  intro i hi tv a htv ha
  have hget : (List.zipWith (fun tv a => bceGrad 1 n (tHat tv) (sig a) * (sig a * (1 - sig a))) (H.val t).data (H.val x).data)[i]?
      = some (bceGrad 1 n (tHat tv) (sig a) * (sig a * (1 - sig a))) := by
    rw [List.getElem?_zipWith, htv, ha]
  have hθ : (0 : ℝ) < 1 / 10 ^ 240 := by positivity
  have hε : (0 : ℝ) < 1 / 10 ^ 12 := by positivity
  refine ⟨fun p q => ?_, fun p => ?_⟩
  · rw [hget, bceGrad_inside 1 n _ (sig a) p q, logistic_identity n hn _ _ (by linarith) (by linarith)]
  · rw [hget, bceGrad_outside 1 n _ (sig a) p, zero_mul]

end C13t
end Qeep
