import QeepProps.C15z
/-!
# C01 — the same tensor twice in one call: `y = x.Mul(x)`

`mul_self_backprop`: on any reachable heap, for a tracked unspent `x` (leaf or not), after `y = x.Mul(x)` and a successful
`BackPropagate(y)`: `x.Gradient() = 2·x` element by element — the derivative of `Σ x²`. The two operands are one tensor; the
library gives each its own `Broadcast` node, both with a back edge into `x`, and the walk adds the two deliveries (`grad_two`).
-/
set_option linter.unusedSimpArgs false
set_option linter.unusedSectionVars false
set_option linter.unusedVariables false

namespace Qeep
namespace C01u
open RealScalar C15x C15z C01 C01x C01z C01w

theorem mul_self_backprop (bm : BMode) (H : Heap ℝ) (x : Nat) (hR : Reach bm H) (hwf : (H.val x).WF) (l : Live H x) :
    ∃ r H', hArith .mul x x H = .ok (r, H') ∧
      ((backprop bm H' r).status = .ok () →
        (backprop bm H' r).heap.grad x = some ⟨(H.val x).dims, (H.val x).data.map (fun a => 2 * a)⟩) := by
  have hxN : x < H.size := l.1
  -- the call succeeds (same shapes)
  obtain ⟨r, H', hrun⟩ : ∃ r H', hArith .mul x x H = .ok (r, H') := by
    obtain ⟨r, H', h⟩ := ran_hArith_same .mul x x H hxN hxN hwf hwf rfl
    exact ⟨r, H', h.run⟩
  refine ⟨r, H', hrun, ?_⟩
  intro hok
  obtain ⟨a', b', ia, ib, ir, hsz, hext, va, vb, vr, ca, cb, cr, la, lb, lr⟩ := hArith_live_id hrun l l
  subst ia ib ir
  have R' : Reach bm H' := Reach.arith hR hxN hxN hrun
  have hdag := reach_dag R'
  rw [targetBroadcastDims_self, vBroadcastN_self _ hwf] at va vb
  injection va with va
  injection vb with vb
  have hgx : H.grad x = none := reach_clean_nograd hR x l.2.2
  have tx : H'.tracked x = true := by have := l.2.1; simp only [Heap.tracked, hext.ctx hxN] at this ⊢; exact this
  have gx : H'.grad x = none := by simp only [Heap.grad, hext.ctx hxN] at hgx ⊢; exact hgx
  obtain ⟨g2, t2, e2⟩ := liveCtx_grad H' _ _ cr
  obtain ⟨g0, t0, e0⟩ := liveCtx_grad H' _ _ ca
  obtain ⟨g1, t1, e1⟩ := liveCtx_grad H' _ _ cb
  simp only [arithEdges] at e2
  obtain ⟨hroot, hcl, _, _⟩ := backwardOrder_spec H' (H.size + 2) hdag t2
  have hlt := order_lt_size H' (H.size + 2) hdag t2
  have mem_of (u v : Nat) (hu : u ∈ backwardOrder H' (H.size + 2)) (r' : Rule ℝ) (hev : (⟨v, r'⟩ : Edge ℝ) ∈ (H'.ctx u).edges)
      (hv : H'.tracked v = true) : v ∈ backwardOrder H' (H.size + 2) := by
    apply hcl u hu
    unfold succs
    exact List.mem_filter.mpr ⟨List.mem_map.mpr ⟨⟨v, r'⟩, hev, rfl⟩, hv⟩
  have m0 := mem_of _ H.size hroot (.mulG (H.size + 1)) (by rw [e2]; simp) t0
  have m1 := mem_of _ (H.size + 1) hroot (.mulG H.size) (by rw [e2]; simp) t1
  let X := H.val x
  let H1 := markDirty H' (backwardOrder H' (H.size + 2))
  have hv1 : ∀ n, H1.val n = H'.val n := fun n => markDirty_val _ _ n
  have vr' : H'.val (H.size + 2) = ⟨X.dims, List.zipWith (fun a b => a * b) X.data X.data⟩ := by
    have := vArith_same .mul X X hwf hwf rfl
    rw [this] at vr
    injection vr with vr
    rw [← vr]; rfl
  have wr : (H'.val (H.size + 2)).WF := by rw [vr']; exact zip_wf _ X X hwf hwf rfl
  let G : Tensor ℝ := vPow (H'.val (H.size + 2)) Scalar.zero
  have sG : Shaped X.dims G := by
    have := ones_shaped _ wr
    have hd' : (H'.val (H.size + 2)).dims = X.dims := by rw [vr']
    rw [hd'] at this; exact this
  have hd : G.dims = X.dims := sG.2
  have f2 := grad_root bm H' (H.size + 2) hdag t2 hok g2 wr
  have f2' : (backprop bm H' (H.size + 2)).heap.grad (H.size + 2) = some (gz G X (fun _ => 1)) := by
    rw [gz_one G X hwf sG.1 hd]; exact f2
  -- nobody else points into the two copies or into x: every other visited tensor is older than x's consumers
  have hold : ∀ v ∈ backwardOrder H' (H.size + 2), v ≠ H.size + 2 → v ≠ H.size → v ≠ H.size + 1 → v < H.size := by
    intro v hv h2 h0 h1'
    have := hlt v hv
    omega
  have hXid : H1.val H.size = X.map id := by rw [hv1, ← va]; simp [Tensor.map, X]
  have hXid1 : H1.val (H.size + 1) = X.map id := by rw [hv1, ← vb]; simp [Tensor.map, X]
  have f0 : (backprop bm H' (H.size + 2)).heap.grad H.size = some (gz G X (fun a => 1 * id a)) := by
    apply grad_single' bm H' (H.size + 2) hdag t2 hok H.size (H.size + 2) hroot (by omega) g0 t0 (.mulG (H.size + 1))
      (by rw [e2]; simp [List.filter_cons]) ?_ (gz G X (fun _ => 1)) _ f2'
      (by
        have := C15x.r_exp bm H1 G X (fun _ => 1) id (H.size + 1) hwf sG.1 hd hXid1
        simpa [evalRule] using this)
    intro v hv hne e he
    by_cases h1' : v = H.size + 1
    · subst h1'; rw [e1] at he; simp at he; subst he; simp; omega
    · by_cases h0 : v = H.size
      · subst h0; rw [e0] at he; simp at he; subst he; simp; omega
      · have := hdag v e he
        have := hold v hv hne h0 h1'
        omega
  have f1 : (backprop bm H' (H.size + 2)).heap.grad (H.size + 1) = some (gz G X (fun a => 1 * id a)) := by
    apply grad_single' bm H' (H.size + 2) hdag t2 hok (H.size + 1) (H.size + 2) hroot (by omega) g1 t1 (.mulG H.size)
      (by rw [e2]; simp [List.filter_cons]) ?_ (gz G X (fun _ => 1)) _ f2'
      (by
        have := C15x.r_exp bm H1 G X (fun _ => 1) id H.size hwf sG.1 hd hXid
        simpa [evalRule] using this)
    intro v hv hne e he
    by_cases h1' : v = H.size + 1
    · subst h1'; rw [e1] at he; simp at he; subst he; simp; omega
    · by_cases h0 : v = H.size
      · subst h0; rw [e0] at he; simp at he; subst he; simp; omega
      · have := hdag v e he
        have := hold v hv hne h0 h1'
        omega
  have shp : ∀ φ, Shaped X.dims (gz G X φ) := fun φ => ⟨gz_wf G X φ hwf sG.1 hd, hd⟩
  have fx := grad_two bm H' (H.size + 2) hdag t2 hok x H.size (H.size + 1) m0 m1 (by omega) (by omega) gx tx
    (.bcastX x H.size) (.bcastX x (H.size + 1)) (by rw [e0]; simp [List.filter_cons]) (by rw [e1]; simp [List.filter_cons])
    (by
      intro v hv h0 h1' e he
      by_cases h2 : v = H.size + 2
      · subst h2; rw [e2] at he; simp at he; rcases he with rfl | rfl <;> simp <;> omega
      · have hvo := hold v hv h2 h0 h1'
        rw [hext.ctx hvo] at he
        -- an older tensor pointing at x would have to be newer than x … but it may be: x has older CONSUMERS only if they are visited
        have := reach_dag hR v e he
        intro heq
        -- v is visited, older than the copies, and has an edge into x: then v > x; but visited tensors older than the
        -- copies are x and its ancestors, all ≤ x
        have hle : v ≤ x := by
          have hP : ∀ n ∈ backwardOrder H' (H.size + 2), n = H.size + 2 ∨ n = H.size ∨ n = H.size + 1 ∨ n ≤ x := by
            apply order_subset H' (H.size + 2)
            · left; rfl
            · intro u hu w hw
              obtain ⟨e', he', rfl⟩ := mem_succs_edge H' u _ hw
              rcases hu with rfl | rfl | rfl | hle
              · rw [e2] at he'; simp at he'; rcases he' with rfl | rfl <;> simp
              · rw [e0] at he'; simp at he'; subst he'; simp
              · rw [e1] at he'; simp at he'; subst he'; simp
              · have := hdag u e' he'
                right; right; right; omega
          rcases hP v hv with h | h | h | h
          · exact absurd h h2
          · exact absurd h h0
          · exact absurd h h1'
          · exact h
        omega)
    (gz G X (fun a => 1 * id a)) (gz G X (fun a => 1 * id a)) (gz G X (fun a => 1 * id a)) (gz G X (fun a => 1 * id a)) _ f0 f1
    (r_bcast bm H1 _ x H.size (by rw [hv1, hv1, ← va, hext.val hxN]))
    (r_bcast bm H1 _ x (H.size + 1) (by rw [hv1, hv1, ← vb, hext.val hxN])) X.dims (shp _) (shp _)
    (gz_add G X _ _ hwf sG.1 hd)
  rw [fx]
  congr 1
  simp only [gz, G, vPow, Tensor.map, X, vr']
  congr 1
  apply List.ext_getElem
  · simp
  · intro i h1 h2
    simp
    ring

end C01u
end Qeep
