import QeepProps.C13v
/-!
# C13 — BCE end to end

`bce_backprop`: any reachable heap, a tracked unspent prediction `p` (leaf or not) and an untracked unspent target `t` of
length `n`; run `BCE.Compute(p, t)` and `tensor.BackPropagate(loss)`. If the back-propagation returns without error,
`p.Gradient()` is exactly `bceGrad 1 n t̂ᵢ pᵢ = (−1/n)·(t̂ᵢ/p̂ᵢ − (1−t̂ᵢ)/(1−p̂ᵢ))·clipD ε (1−ε) pᵢ` at every position: the
derivative of the BCE formula strictly inside the clip band, 0 strictly outside (`bce_backprop_el`).

The walk is the real one over all thirty tensors `lossCompute .bce` allocates: the two paths to `p̂` through `log p̂` and
`log(1 − p̂)`, the constant `p̂⁰` (consumed twice, by `1 − t̂` and `1 − p̂`; its `Pow(·,0)` rule hands zeros to `p̂`), the fan-in
of three at `p̂`, and the clip segment (`C13v.clip_in_walk`). Whatever `p` was computed from is walked as well and does not
matter.

`bce_backprop_full` is the form for composition (footprint of the thirty tensors, the prediction is visited, and the progress
statement: the walk succeeds as soon as its part below the prediction accepts gradients of the prediction's shape);
`bce_backprop_leaf`: on a leaf prediction `BackPropagate` SUCCEEDS and stores the derivative, unconditionally.
-/
set_option linter.unusedSimpArgs false
set_option linter.unusedSectionVars false
set_option linter.unusedVariables false
set_option linter.unnecessarySeqFocus false
set_option linter.unreachableTactic false

namespace Qeep
namespace C13u
open RealScalar C13x C13z C13v C15x C15z C15w C01 C01x C01z C01w C01q C01p C16x C20
open C12x (wf_map tHat pHat clipR)

/-- **three consumers** `u1, u2, u3` (distinct), each with exactly one back edge into `n`: `n` receives the sum -/
theorem grad_three (bm : BMode) (H : Heap ℝ) (root : Nat) (hdag : HeapDag H) (htr : H.tracked root = true)
    (hok : (backprop bm H root).status = .ok ()) (n u1 u2 u3 : Nat) (hu1 : u1 ∈ backwardOrder H root)
    (hu2 : u2 ∈ backwardOrder H root) (hu3 : u3 ∈ backwardOrder H root) (h12 : u1 ≠ u2) (h13 : u1 ≠ u3) (h23 : u2 ≠ u3)
    (hnr : n ≠ root) (hg : H.grad n = none) (htn : H.tracked n = true) (r1 r2 r3 : Rule ℝ)
    (hf1 : (H.ctx u1).edges.filter (fun e => decide (e.target = n)) = [⟨n, r1⟩])
    (hf2 : (H.ctx u2).edges.filter (fun e => decide (e.target = n)) = [⟨n, r2⟩])
    (hf3 : (H.ctx u3).edges.filter (fun e => decide (e.target = n)) = [⟨n, r3⟩])
    (hother : ∀ v ∈ backwardOrder H root, v ≠ u1 → v ≠ u2 → v ≠ u3 → ∀ e ∈ (H.ctx v).edges, e.target ≠ n)
    (gy1 g1 gy2 g2 gy3 g3 s12 s : Tensor ℝ) (hgy1 : (backprop bm H root).heap.grad u1 = some gy1)
    (hgy2 : (backprop bm H root).heap.grad u2 = some gy2) (hgy3 : (backprop bm H root).heap.grad u3 = some gy3)
    (hp1 : evalRule bm (markDirty H (backwardOrder H root)) gy1 r1 = .ok g1)
    (hp2 : evalRule bm (markDirty H (backwardOrder H root)) gy2 r2 = .ok g2)
    (hp3 : evalRule bm (markDirty H (backwardOrder H root)) gy3 r3 = .ok g3) (ds : List Nat)
    (hs1 : Shaped ds g1) (hs2 : Shaped ds g2) (hs3 : Shaped ds g3)
    (hadd1 : vArith .add g1 g2 = .ok s12) (hadd2 : vArith .add s12 g3 = .ok s) :
    (backprop bm H root).heap.grad n = some s := by
  obtain ⟨ss12, hd12⟩ := shaped_add ds g1 g2 s12 hs1 hs2 hadd1
  obtain ⟨ss, hd⟩ := shaped_add ds s12 g3 s ss12 hs3 hadd2
  apply grad_list bm H root hdag htr hok n hnr hg htn [⟨u1, r1, gy1, g1⟩, ⟨u2, r2, gy2, g2⟩, ⟨u3, r3, gy3, g3⟩]
    (by simp) (by simp; exact ⟨⟨h12, h13⟩, h23⟩) ds ?_ ?_ s ss ?_
  · intro c hc
    simp at hc
    rcases hc with rfl | rfl | rfl
    · exact ⟨hu1, hf1, hgy1, hp1, hs1⟩
    · exact ⟨hu2, hf2, hgy2, hp2, hs2⟩
    · exact ⟨hu3, hf3, hgy3, hp3, hs3⟩
  · intro v hv hnot
    simp at hnot
    exact hother v hv hnot.1 hnot.2.1 hnot.2.2
  · intro t
    simp
    rw [hd, hd12]
    ring

set_option maxHeartbeats 3200000 in
/-- **BCE, end to end, with the footprint of the loss graph and the progress statement**: the run allocates exactly thirty
    tensors, the loss is the last one and is tracked, every TRACKED new tensor has back edges only into new tensors or into the
    prediction; `BackPropagate(loss)` succeeds as soon as the part of the walk below the prediction accepts gradients of the
    prediction's shape (`C01p.backprop_ok` with the per-edge acceptance of all thirty tensors); and after a successful
    `BackPropagate(loss)` the prediction holds `bceGrad 1 n t̂ p` -/
theorem bce_backprop_full (bm : BMode) (H : Heap ℝ) (p t n : Nat) (hR : Reach bm H) (hp : p < H.size) (ht : t < H.size)
    (wp : (H.val p).WF) (wt : (H.val t).WF) (dp : (H.val p).dims = [n]) (dt : (H.val t).dims = [n])
    (hpt : H.tracked p = true) (hpc : H.dirty p = false) (htt : H.tracked t = false) (htc : H.dirty t = false) :
    ∃ H', lossCompute Loss.bce (some p) (some t) H = .ok (H.size + 29, H') ∧ Extends H H' ∧ H'.size = H.size + 30 ∧
      Reach bm H' ∧ H'.tracked (H.size + 29) = true ∧
      (∀ v, H.size ≤ v → H'.tracked v = true → ∀ e ∈ (H'.ctx v).edges, H.size ≤ e.target ∨ e.target = p) ∧
      (∀ (P : Nat → Tensor ℝ → Prop),
        (∀ k a b, P k a → P k b → ∃ s, vArith .add a b = .ok s ∧ P k s) →
        (∀ g, Shaped [n] g → P p g) →
        (∀ k ∈ backwardOrder H' (H.size + 29), k < H.size → ∀ g, H'.grad k = some g → P k g) →
        (∀ u ∈ backwardOrder H' (H.size + 29), u < H.size → ∀ e ∈ (H'.ctx u).edges, H'.tracked e.target = true →
          ∀ gy, P u gy → ∃ g, evalRule bm (markDirty H' (backwardOrder H' (H.size + 29))) gy e.rule = .ok g ∧ P e.target g) →
        (backprop bm H' (H.size + 29)).status = .ok ()) ∧
      ((backprop bm H' (H.size + 29)).status = .ok () →
        p ∈ backwardOrder H' (H.size + 29) ∧
        (backprop bm H' (H.size + 29)).heap.grad p
          = some ⟨[n], List.zipWith (fun tv pv => bceGrad 1 n (tHat tv) pv) (H.val t).data (H.val p).data⟩) := by
  have hn : 0 < n := wp.2 n (by rw [dp]; simp)
  have lp : (H.val p).data.length = n := by rw [wp.1, dp]; simp [prod]
  have lt' : (H.val t).data.length = n := by rw [wt.1, dt]; simp [prod]
  have hZn : ((H.val t).data.zip (H.val p).data).length = n := by simp [lp, lt']
  have hZ : ((H.val t).data.zip (H.val p).data).length = prod [n] := by simp [prod, lp, lt']
  have hd : ∀ y ∈ [n], 0 < y := by simpa using hn
  have t0 : St H t ⟨[n], ((H.val t).data.zip (H.val p).data).map (fun z => z.1)⟩ (H.tracked t) (H.ctx t).edges :=
    ⟨ht, by rw [List.map_fst_zip (by omega), ← dt], htc, rfl, fun _ => rfl⟩
  have p0 : St H p ⟨[n], ((H.val t).data.zip (H.val p).data).map (fun z => z.2)⟩ true (H.ctx p).edges :=
    ⟨hp, by rw [List.map_snd_zip (by omega), ← dp], hpc, hpt, fun _ => rfl⟩
  obtain ⟨H1, r1, e1, s1, a0, a1, a2, a3, yt1⟩ := g_clip hZ hd t0 (Scalar.zero : ℝ) Scalar.one
  have yt0 := yt1
  have hth : (fun z : ℝ × ℝ => max (Scalar.zero : ℝ) (min z.1 Scalar.one)) = fun z => tHat z.1 := by
    funext z; simp only [tHat, clipR, zero_eq, one_eq]
  rw [hth] at yt1
  obtain ⟨H2, r2, e2, s2, q0, q1, q2, q3, q4⟩ := g_clip hZ hd (p0.mono e1) (Scalar.eps : ℝ) Scalar.oneMinusEps
  have hph : (fun z : ℝ × ℝ => max (Scalar.eps : ℝ) (min z.2 Scalar.oneMinusEps)) = fun z => pHat z.2 := by
    funext z; simp only [pHat, clipR, C12x.eps_val, C12x.oneMinusEps_val]
  have ph2 := q4
  rw [hph] at ph2
  obtain ⟨H3, r3, e3, s3, lg3⟩ := g_log ph2
  rw [vLog_map] at lg3
  obtain ⟨H4, r4, e4, s4, tb4, lgb4, s1_4⟩ := g_arith hZ hd .mul (yt1.mono (e2.trans e3)) lg3
  rw [Bool.or_true] at s1_4
  obtain ⟨H5, r5, e5, s5, o5⟩ := g_pow (ph2.mono (e3.trans e4)) (Scalar.zero : ℝ)
  rw [vPow_zero_map] at o5
  obtain ⟨H6, r6, e6, s6, ob6, ttb6, t2_6⟩ := g_arith hZ hd .sub o5 (yt1.mono (((e2.trans e3).trans e4).trans e5))
  rw [Bool.true_or] at t2_6
  obtain ⟨H7, r7, e7, s7, ob7, phb7, y2_7⟩ := g_arith hZ hd .sub (o5.mono e6)
    (ph2.mono (((e3.trans e4).trans e5).trans e6))
  rw [Bool.true_or] at y2_7
  obtain ⟨H8, r8, e8, s8, lg2_8⟩ := g_log y2_7
  rw [vLog_map] at lg2_8
  obtain ⟨H9, r9, e9, s9, t2b9, lg2b9, s2_9⟩ := g_arith hZ hd .mul (t2_6.mono (e7.trans e8)) lg2_8
  rw [Bool.or_true] at s2_9
  obtain ⟨H10, r10, e10, s10, s1b10, s2b10, l10⟩ := g_arith hZ hd .add
    (s1_4.mono ((((e5.trans e6).trans e7).trans e8).trans e9)) s2_9
  rw [Bool.or_true] at l10
  obtain ⟨H11, r11, e11, s11, ln11⟩ := g_scale l10 (Scalar.neg Scalar.one : ℝ)
  have wl : (vScale (⟨[n], ((H.val t).data.zip (H.val p).data).map (fun z => Arith.add.fn
      (Arith.mul.fn (tHat z.1) (Real.log (pHat z.2)))
      (Arith.mul.fn (Arith.sub.fn 1 (tHat z.1)) (Real.log (Arith.sub.fn 1 (pHat z.2)))))⟩ : Tensor ℝ)
      (Scalar.neg Scalar.one)).WF := map_wf _ _ (wf_map hZ hd _)
  obtain ⟨H12, r12, e12, s12, r_12⟩ := g_along ln11 .mean 0 _ (C12.vAlong_rank1 .mean _ n rfl wl)
  have hneg : (Scalar.neg Scalar.one : ℝ) = -1 := by simp only [neg_eq, one_eq]
  rw [hneg] at ln11
  have hrule : alongRule (α := ℝ) .mean H10.size H11.size (0 : Int).toNat = .avgAlongX H10.size 0 := rfl
  rw [hrule] at r_12
  -- reachability
  have R1 := reach_clip hZ hd hR t0 _ _ r1
  have R2 := reach_clip hZ hd R1 (p0.mono e1) _ _ r2
  have R3 := Reach.unary R2 q4.lt r3
  have R4 := Reach.arith R3 (yt1.mono (e2.trans e3)).lt lg3.lt r4
  have R5 := Reach.pow R4 (ph2.mono (e3.trans e4)).lt r5
  have R6 := Reach.arith R5 o5.lt (yt1.mono (((e2.trans e3).trans e4).trans e5)).lt r6
  have R7 := Reach.arith R6 (o5.mono e6).lt (ph2.mono (((e3.trans e4).trans e5).trans e6)).lt r7
  have R8 := Reach.unary R7 y2_7.lt r8
  have R9 := Reach.arith R8 (t2_6.mono (e7.trans e8)).lt lg2_8.lt r9
  have R10 := Reach.arith R9 (s1_4.mono ((((e5.trans e6).trans e7).trans e8).trans e9)).lt s2_9.lt r10
  have R11 := Reach.scale R10 l10.lt r11
  have R12 := Reach.along R11 ln11.lt r12
  have hrun : lossCompute Loss.bce (some p) (some t) H = .ok (H11.size, H12) := by
    unfold lossCompute
    rw [bind_run (show (getHeap : HM ℝ (Heap ℝ)) H = .ok (H, H) from rfl)]
    have hv : lossValid H Loss.bce (some p) (some t) = .ok (p, t) := by simp [lossValid, dp, dt]
    rw [bind_run (show (liftOut (lossValid H Loss.bce (some p) (some t)) : HM ℝ (Nat × Nat)) H = .ok ((p, t), H) by rw [hv]; rfl)]
    simp only []
    rw [bind_run r1, bind_run r2, bind_run r3, bind_run r4, bind_run r5, bind_run r6,
      bind_run r7, bind_run r8, bind_run r9, bind_run r10, bind_run r11]
    exact r12
  have i1 : H1.size = H.size + 5 := s1
  have i2 : H2.size = H.size + 10 := by omega
  have i3 : H3.size = H.size + 11 := by omega
  have i4 : H4.size = H.size + 14 := by omega
  have i5 : H5.size = H.size + 15 := by omega
  have i6 : H6.size = H.size + 18 := by omega
  have i7 : H7.size = H.size + 21 := by omega
  have i8 : H8.size = H.size + 22 := by omega
  have i9 : H9.size = H.size + 25 := by omega
  have i10 : H10.size = H.size + 28 := by omega
  have i11 : H11.size = H.size + 29 := by omega
  have hdag := reach_dag R12
  have f11 : Extends H11 H12 := e12
  have f10 : Extends H10 H12 := e11.trans f11
  have f9 : Extends H9 H12 := e10.trans f10
  have f8 : Extends H8 H12 := e9.trans f9
  have f7 : Extends H7 H12 := e8.trans f8
  have f6 : Extends H6 H12 := e7.trans f7
  have f5 : Extends H5 H12 := e6.trans f6
  have f4 : Extends H4 H12 := e5.trans f5
  have f3 : Extends H3 H12 := e4.trans f4
  have f2 : Extends H2 H12 := e3.trans f3
  have f1 : Extends H1 H12 := e2.trans f2
  have f0 : Extends H H12 := e1.trans f1
  have Pp := p0.mono f0
  have Q0 := q0.mono f2
  have Q1 := q1.mono f2
  have Q2 := q2.mono f2
  have Q3 := q3.mono f2
  have Q4 := q4.mono f2
  have Pph := ph2.mono f2
  have Plg := lg3.mono f3
  have Ptb := tb4.mono f4
  have Plgb := lgb4.mono f4
  have Ps1 := s1_4.mono f4
  have Po := o5.mono f5
  have Pob := ob6.mono f6
  have Pttb := ttb6.mono f6
  have Pt2 := t2_6.mono f6
  have Pob2 := ob7.mono f7
  have Pphb := phb7.mono f7
  have Py2 := y2_7.mono f7
  have Plg2 := lg2_8.mono f8
  have Pt2b := t2b9.mono f9
  have Plg2b := lg2b9.mono f9
  have Ps2 := s2_9.mono f9
  have Ps1b := s1b10.mono f10
  have Ps2b := s2b10.mono f10
  have Pl := l10.mono f10
  have Pln := ln11.mono f11
  obtain ⟨t_loss, ed_loss⟩ := st_facts r_12
  obtain ⟨t_ln, ed_ln⟩ := st_facts Pln
  obtain ⟨t_l, ed_l⟩ := st_facts Pl
  obtain ⟨t_s1b, ed_s1b⟩ := st_facts Ps1b
  obtain ⟨t_s2b, ed_s2b⟩ := st_facts Ps2b
  obtain ⟨t_s1, ed_s1⟩ := st_facts Ps1
  obtain ⟨t_s2, ed_s2⟩ := st_facts Ps2
  obtain ⟨t_lgb, ed_lgb⟩ := st_facts Plgb
  obtain ⟨t_lg, ed_lg⟩ := st_facts Plg
  obtain ⟨t_t2b, ed_t2b⟩ := st_facts Pt2b
  obtain ⟨t_lg2b, ed_lg2b⟩ := st_facts Plg2b
  obtain ⟨t_t2, ed_t2⟩ := st_facts Pt2
  obtain ⟨t_lg2, ed_lg2⟩ := st_facts Plg2
  obtain ⟨t_ob, ed_ob⟩ := st_facts Pob
  obtain ⟨t_y2, ed_y2⟩ := st_facts Py2
  obtain ⟨t_ob2, ed_ob2⟩ := st_facts Pob2
  obtain ⟨t_phb, ed_phb⟩ := st_facts Pphb
  obtain ⟨t_o, ed_o⟩ := st_facts Po
  obtain ⟨t9, ed9⟩ := st_facts Q4
  obtain ⟨t8, ed8⟩ := st_facts Q3
  obtain ⟨t7, ed7⟩ := st_facts Q2
  obtain ⟨t6, ed6⟩ := st_facts Q1
  obtain ⟨t5, ed5⟩ := st_facts Q0
  have tp : H12.tracked p = true := Pp.tracked
  have t_tb : H12.tracked H3.size = false := by rw [Ptb.tracked, htt]
  have t_ttb : H12.tracked (H5.size + 1) = false := by rw [Pttb.tracked, htt]
  have hfresh := (fresh_lossCompute (α := ℝ) Loss.bce (some p) (some t) H _ _ hrun).2
  have gp : H12.grad p = none := by
    have := reach_clean_nograd hR p hpc
    simp only [Heap.grad, f0.ctx hp] at this ⊢; exact this
  obtain ⟨hroot, hcl, _, hnd⟩ := backwardOrder_spec H12 H11.size hdag t_loss
  -- the visited tensors
  have hM : ∀ v ∈ backwardOrder H12 H11.size, v = H11.size ∨ v = H10.size ∨ v = H9.size + 2 ∨ v = H9.size ∨ v = H9.size + 1 ∨ v = H3.size + 2 ∨ v = H8.size + 2 ∨ v = H3.size + 1 ∨ v = H2.size ∨ v = H8.size ∨ v = H8.size + 1 ∨ v = H5.size + 2 ∨ v = H7.size ∨ v = H5.size ∨ v = H6.size + 2 ∨ v = H6.size ∨ v = H6.size + 1 ∨ v = H4.size ∨
      (H1.size ≤ v ∧ v ≤ H1.size + 4) ∨ v ≤ p := by
    apply order_subset H12 H11.size
    · left; rfl
    · intro u hu v hv
      have hvt : H12.tracked v = true := by
        unfold succs at hv; exact (List.mem_filter.mp hv).2
      obtain ⟨e, he, rfl⟩ := mem_succs_edge H12 u v hv
      rcases hu with rfl | rfl | rfl | rfl | rfl | rfl | rfl | rfl | rfl | rfl | rfl | rfl | rfl | rfl | rfl | rfl | rfl | rfl | ⟨h1, h2⟩ | hle
      · rw [ed_loss] at he; simp at he; subst he; simp
      · rw [ed_ln] at he; simp at he; subst he; simp
      · rw [ed_l] at he; simp [C13x.arithEdges] at he
        rcases he with rfl | rfl
        · simp
        · simp
      · rw [ed_s1b] at he; simp at he; subst he; simp
      · rw [ed_s2b] at he; simp at he; subst he; simp
      · rw [ed_s1] at he; simp [C13x.arithEdges] at he
        rcases he with rfl | rfl
        · simp at hvt; rw [t_tb] at hvt; cases hvt
        · simp
      · rw [ed_s2] at he; simp [C13x.arithEdges] at he
        rcases he with rfl | rfl
        · simp
        · simp
      · rw [ed_lgb] at he; simp at he; subst he; simp
      · rw [ed_lg] at he; simp at he; subst he; simp
      · rw [ed_t2b] at he; simp at he; subst he; simp
      · rw [ed_lg2b] at he; simp at he; subst he; simp
      · rw [ed_t2] at he; simp [C13x.arithEdges] at he
        rcases he with rfl | rfl
        · simp
        · simp at hvt; rw [t_ttb] at hvt; cases hvt
      · rw [ed_lg2] at he; simp at he; subst he; simp
      · rw [ed_ob] at he; simp at he; subst he; simp
      · rw [ed_y2] at he; simp [C13x.arithEdges] at he
        rcases he with rfl | rfl
        · simp
        · simp
      · rw [ed_ob2] at he; simp at he; subst he; simp
      · rw [ed_phb] at he; simp at he; subst he; simp
      · rw [ed_o] at he; simp at he; subst he; simp
      · obtain ⟨i, hi, rfl⟩ : ∃ i, i ≤ 4 ∧ u = H1.size + i := ⟨u - H1.size, by omega, by omega⟩
        interval_cases i
        · rw [Nat.add_zero, ed5] at he; simp at he; subst he; simp
        · rw [ed6] at he; simp at he; subst he; simp
        · rw [ed7] at he; simp at he; subst he; simp
        · rw [ed8] at he; simp at he; rcases he with rfl | rfl <;> simp
        · rw [ed9] at he; simp at he; rcases he with rfl | rfl <;> simp
      · have := hdag u e he
        omega
  -- every back edge the walk can follow
  have hE : ∀ v ∈ backwardOrder H12 H11.size, ∀ e ∈ (H12.ctx v).edges,
      (v = H11.size ∧ e.target = H10.size) ∨
      (v = H10.size ∧ e.target = H9.size + 2) ∨
      (v = H9.size + 2 ∧ e.target = H9.size) ∨
      (v = H9.size + 2 ∧ e.target = H9.size + 1) ∨
      (v = H9.size ∧ e.target = H3.size + 2) ∨
      (v = H9.size + 1 ∧ e.target = H8.size + 2) ∨
      (v = H3.size + 2 ∧ e.target = H3.size) ∨
      (v = H3.size + 2 ∧ e.target = H3.size + 1) ∨
      (v = H8.size + 2 ∧ e.target = H8.size) ∨
      (v = H8.size + 2 ∧ e.target = H8.size + 1) ∨
      (v = H3.size + 1 ∧ e.target = H2.size) ∨
      (v = H2.size ∧ e.target = H1.size + 4) ∨
      (v = H8.size ∧ e.target = H5.size + 2) ∨
      (v = H8.size + 1 ∧ e.target = H7.size) ∨
      (v = H5.size + 2 ∧ e.target = H5.size) ∨
      (v = H5.size + 2 ∧ e.target = H5.size + 1) ∨
      (v = H7.size ∧ e.target = H6.size + 2) ∨
      (v = H5.size ∧ e.target = H4.size) ∨
      (v = H6.size + 2 ∧ e.target = H6.size) ∨
      (v = H6.size + 2 ∧ e.target = H6.size + 1) ∨
      (v = H6.size ∧ e.target = H4.size) ∨
      (v = H6.size + 1 ∧ e.target = H1.size + 4) ∨
      (v = H4.size ∧ e.target = H1.size + 4) ∨
      ((H1.size ≤ v ∧ v ≤ H1.size + 4) ∧ (e.target = p ∨ (H1.size ≤ e.target ∧ e.target ≤ H1.size + 3))) ∨
      (v ≤ p ∧ e.target < v) := by
    intro v hv e he
    rcases hM v hv with rfl | rfl | rfl | rfl | rfl | rfl | rfl | rfl | rfl | rfl | rfl | rfl | rfl | rfl | rfl | rfl | rfl | rfl | ⟨h1, h2⟩ | hle
    · rw [ed_loss] at he; simp at he; subst he; simp <;> omega
    · rw [ed_ln] at he; simp at he; subst he; simp <;> omega
    · rw [ed_l] at he; simp [C13x.arithEdges] at he
      rcases he with rfl | rfl <;> simp <;> omega
    · rw [ed_s1b] at he; simp at he; subst he; simp <;> omega
    · rw [ed_s2b] at he; simp at he; subst he; simp <;> omega
    · rw [ed_s1] at he; simp [C13x.arithEdges] at he
      rcases he with rfl | rfl <;> simp <;> omega
    · rw [ed_s2] at he; simp [C13x.arithEdges] at he
      rcases he with rfl | rfl <;> simp <;> omega
    · rw [ed_lgb] at he; simp at he; subst he; simp <;> omega
    · rw [ed_lg] at he; simp at he; subst he; simp <;> omega
    · rw [ed_t2b] at he; simp at he; subst he; simp <;> omega
    · rw [ed_lg2b] at he; simp at he; subst he; simp <;> omega
    · rw [ed_t2] at he; simp [C13x.arithEdges] at he
      rcases he with rfl | rfl <;> simp <;> omega
    · rw [ed_lg2] at he; simp at he; subst he; simp <;> omega
    · rw [ed_ob] at he; simp at he; subst he; simp <;> omega
    · rw [ed_y2] at he; simp [C13x.arithEdges] at he
      rcases he with rfl | rfl <;> simp <;> omega
    · rw [ed_ob2] at he; simp at he; subst he; simp <;> omega
    · rw [ed_phb] at he; simp at he; subst he; simp <;> omega
    · rw [ed_o] at he; simp at he; subst he; simp <;> omega
    · obtain ⟨i, hi, rfl⟩ : ∃ i, i ≤ 4 ∧ v = H1.size + i := ⟨v - H1.size, by omega, by omega⟩
      interval_cases i
      · rw [Nat.add_zero, ed5] at he; simp at he; subst he; simp <;> omega
      · rw [ed6] at he; simp at he; subst he; simp <;> omega
      · rw [ed7] at he; simp at he; subst he; simp <;> omega
      · rw [ed8] at he; simp at he; rcases he with rfl | rfl <;> simp <;> omega
      · rw [ed9] at he; simp at he; rcases he with rfl | rfl <;> simp <;> omega
    · have := hdag v e he
      omega
  have hfoot : ∀ v, H.size ≤ v → H12.tracked v = true → ∀ e ∈ (H12.ctx v).edges, H.size ≤ e.target ∨ e.target = p := by
    intro v hv hvt e he
    have hlt := tracked_lt_size H12 v hvt
    have hc : v = H.size ∨ v = H.size + 1 ∨ v = H.size + 2 ∨ v = H.size + 3 ∨ v = H.size + 4 ∨ v = H1.size ∨ v = H1.size + 1 ∨ v = H1.size + 2 ∨ v = H1.size + 3 ∨ v = H1.size + 4 ∨ v = H2.size ∨ v = H3.size ∨ v = H3.size + 1 ∨ v = H3.size + 2 ∨ v = H4.size ∨ v = H5.size ∨ v = H5.size + 1 ∨ v = H5.size + 2 ∨ v = H6.size ∨ v = H6.size + 1 ∨ v = H6.size + 2 ∨ v = H7.size ∨ v = H8.size ∨ v = H8.size + 1 ∨ v = H8.size + 2 ∨ v = H9.size ∨ v = H9.size + 1 ∨ v = H9.size + 2 ∨ v = H10.size ∨ v = H11.size := by omega
    rcases hc with rfl | rfl | rfl | rfl | rfl | rfl | rfl | rfl | rfl | rfl | rfl | rfl | rfl | rfl | rfl | rfl | rfl | rfl | rfl | rfl | rfl | rfl | rfl | rfl | rfl | rfl | rfl | rfl | rfl | rfl
    · rw [(a0.mono f1).tracked, htt] at hvt; cases hvt
    · rw [(a1.mono f1).tracked, htt] at hvt; cases hvt
    · rw [(a2.mono f1).tracked, htt] at hvt; cases hvt
    · rw [(a3.mono f1).tracked, htt] at hvt; cases hvt
    · rw [(yt0.mono f1).tracked, htt] at hvt; cases hvt
    · rw [ed5] at he; simp at he; subst he; simp <;> omega
    · rw [ed6] at he; simp at he; subst he; simp <;> omega
    · rw [ed7] at he; simp at he; subst he; simp <;> omega
    · rw [ed8] at he; simp at he; rcases he with rfl | rfl <;> simp <;> omega
    · rw [ed9] at he; simp at he; rcases he with rfl | rfl <;> simp <;> omega
    · rw [ed_lg] at he; simp at he; subst he; simp <;> omega
    · rw [t_tb] at hvt; cases hvt
    · rw [ed_lgb] at he; simp at he; subst he; simp <;> omega
    · rw [ed_s1] at he; simp [C13x.arithEdges] at he; rcases he with rfl | rfl <;> simp <;> omega
    · rw [ed_o] at he; simp at he; subst he; simp <;> omega
    · rw [ed_ob] at he; simp at he; subst he; simp <;> omega
    · rw [t_ttb] at hvt; cases hvt
    · rw [ed_t2] at he; simp [C13x.arithEdges] at he; rcases he with rfl | rfl <;> simp <;> omega
    · rw [ed_ob2] at he; simp at he; subst he; simp <;> omega
    · rw [ed_phb] at he; simp at he; subst he; simp <;> omega
    · rw [ed_y2] at he; simp [C13x.arithEdges] at he; rcases he with rfl | rfl <;> simp <;> omega
    · rw [ed_lg2] at he; simp at he; subst he; simp <;> omega
    · rw [ed_t2b] at he; simp at he; subst he; simp <;> omega
    · rw [ed_lg2b] at he; simp at he; subst he; simp <;> omega
    · rw [ed_s2] at he; simp [C13x.arithEdges] at he; rcases he with rfl | rfl <;> simp <;> omega
    · rw [ed_s1b] at he; simp at he; subst he; simp <;> omega
    · rw [ed_s2b] at he; simp at he; subst he; simp <;> omega
    · rw [ed_l] at he; simp [C13x.arithEdges] at he; rcases he with rfl | rfl <;> simp <;> omega
    · rw [ed_ln] at he; simp at he; subst he; simp <;> omega
    · rw [ed_loss] at he; simp at he; subst he; simp <;> omega
  have wlv : (H12.val H11.size).WF := by rw [r_12.val]; exact ⟨by simp [prod], by simp⟩
  have hrun29 : lossCompute Loss.bce (some p) (some t) H = .ok (H.size + 29, H12) := by rw [← i11]; exact hrun
  refine ⟨H12, hrun29, f0, by omega, R12, by rw [← i11]; exact t_loss, hfoot, ?_, ?_⟩
  · -- the walk succeeds as soon as the part below the prediction does
    rw [← i11]
    intro P hPadd hPp hPold hPedge
    obtain ⟨dimsOf, dOr, dOo⟩ : ∃ dimsOf : Nat → List Nat, dimsOf H11.size = [] ∧ ∀ k, k ≠ H11.size → dimsOf k = [n] :=
      ⟨fun k => if k = H11.size then [] else [n], by simp, by intro k h1; simp [h1]⟩
    obtain ⟨P', hPn, hPo⟩ : ∃ P' : Nat → Tensor ℝ → Prop, (∀ k g, H.size ≤ k → (P' k g ↔ Shaped (dimsOf k) g)) ∧
        (∀ k g, k < H.size → (P' k g ↔ P k g)) :=
      ⟨fun k g => if H.size ≤ k then Shaped (dimsOf k) g else P k g, by intro k g hk; simp [hk],
        by intro k g hk; simp [show ¬ H.size ≤ k by omega]⟩
    have hv1 : ∀ k, (markDirty H12 (backwardOrder H12 H11.size)).val k = H12.val k := fun k => markDirty_val _ _ k
    have sh : ∀ {k : Nat} {f : ℝ × ℝ → ℝ}, H12.val k = ⟨[n], ((H.val t).data.zip (H.val p).data).map f⟩ →
        Shaped [n] ((markDirty H12 (backwardOrder H12 H11.size)).val k) := by
      intro k f h; rw [hv1, h]; exact ⟨wf_map hZ hd _, rfl⟩
    have S_p := sh Pp.val
    have S_1 := sh Q1.val
    have S_2 := sh Q2.val
    have S_3 := sh Q3.val
    have S_4 := sh Q4.val
    have S_tb := sh Ptb.val
    have S_lg2b := sh Plg2b.val
    have S_t2b := sh Pt2b.val
    have S_y2 := sh Py2.val
    have S_ln : Shaped [n] ((markDirty H12 (backwardOrder H12 H11.size)).val H10.size) := by
      rw [hv1, Pln.val]; exact ⟨map_wf _ _ (wf_map hZ hd _), rfl⟩
    have dd : ∀ {a b : Nat} {va vb : Tensor ℝ}, H12.val a = va → H12.val b = vb → va.dims = vb.dims →
        ((markDirty H12 (backwardOrder H12 H11.size)).val a).dims = ((markDirty H12 (backwardOrder H12 H11.size)).val b).dims := by
      intro a b va vb h1 h2 h3; rw [hv1, hv1, h1, h2, h3]
    have D_s1 := dd Ps1.val Ps1b.val rfl
    have D_lg := dd Plg.val Plgb.val rfl
    have D_s2 := dd Ps2.val Ps2b.val rfl
    have D_t2 := dd Pt2.val Pt2b.val rfl
    have D_lg2 := dd Plg2.val Plg2b.val rfl
    have D_o1 := dd Po.val Pob.val rfl
    have D_o2 := dd Po.val Pob2.val rfl
    have D_ph := dd Pph.val Pphb.val rfl
    have toN : ∀ k g, H.size ≤ k → k ≠ H11.size → Shaped [n] g → P' k g := fun k g h1 h2 hg =>
      (hPn k g h1).mpr (by rw [dOo k h2]; exact hg)
    have toP : ∀ g, Shaped [n] g → P' p g := fun g hg => (hPo p g hp).mpr (hPp g hg)
    have frN : ∀ k g, H.size ≤ k → k ≠ H11.size → P' k g → Shaped [n] g := fun k g h1 h2 hg => by
      have := (hPn k g h1).mp hg; rwa [dOo k h2] at this
    have mapS : ∀ (gy : Tensor ℝ) (f : ℝ → ℝ), Shaped [n] gy → Shaped [n] ⟨gy.dims, gy.data.map f⟩ := fun gy f hgy =>
      ⟨⟨by simp [hgy.1.1], hgy.1.2⟩, hgy.2⟩
    apply backprop_ok bm H12 H11.size hdag t_loss P'
    · intro k a b ha hb
      by_cases hk : H.size ≤ k
      · rw [hPn k _ hk] at ha hb
        obtain ⟨s, e1, e2⟩ := shaped_add_ok _ a b ha hb
        exact ⟨s, e1, (hPn k _ hk).mpr e2⟩
      · rw [hPo k _ (by omega)] at ha hb
        obtain ⟨s, e1, e2⟩ := hPadd k a b ha hb
        exact ⟨s, e1, (hPo k _ (by omega)).mpr e2⟩
    · intro k hk g hg
      by_cases hk2 : H.size ≤ k
      · rw [hfresh k hk2] at hg; cases hg
      · exact (hPo k _ (by omega)).mpr (hPold k hk (by omega) g hg)
    · rw [hPn _ _ (by omega), dOr]
      have := ones_shaped (H12.val H11.size) wlv
      rw [r_12.val] at this ⊢
      exact this
    · intro u hu e he htr gy hgy
      rcases hM u hu with rfl | rfl | rfl | rfl | rfl | rfl | rfl | rfl | rfl | rfl | rfl | rfl | rfl | rfl | rfl | rfl | rfl | rfl | ⟨h1, h2⟩ | hle
      · rw [ed_loss] at he; simp at he; subst he; dsimp only
        rw [hPn _ _ (by omega), dOr] at hgy
        obtain ⟨r, e, hdm, wr, _⟩ := C02x.rule_avgAlong bm (markDirty H12 (backwardOrder H12 H11.size)) gy H10.size 0 S_ln.1
          (by rw [S_ln.2]; simp) hgy.1 (by rw [S_ln.2, hgy.2]; rfl)
        exact ⟨r, e, toN _ _ (by omega) (by omega) ⟨wr, by rw [hdm, S_ln.2]⟩⟩
      · have hgy := frN _ _ (by omega) (by omega) hgy
        rw [ed_ln] at he; simp at he; subst he; dsimp only
        exact ⟨_, C02.rule_scale bm _ gy (-1), toN _ _ (by omega) (by omega) (mapS gy _ hgy)⟩
      · have hgy := frN _ _ (by omega) (by omega) hgy
        rw [ed_l] at he; simp [C13x.arithEdges] at he
        rcases he with rfl | rfl <;> dsimp only
        · exact ⟨gy, (C02.rule_add_sub bm _ gy).1, toN _ _ (by omega) (by omega) hgy⟩
        · exact ⟨gy, (C02.rule_add_sub bm _ gy).1, toN _ _ (by omega) (by omega) hgy⟩
      · have hgy := frN _ _ (by omega) (by omega) hgy
        rw [ed_s1b] at he; simp at he; subst he; dsimp only
        exact ⟨gy, r_bcast bm _ gy D_s1, toN _ _ (by omega) (by omega) hgy⟩
      · have hgy := frN _ _ (by omega) (by omega) hgy
        rw [ed_s2b] at he; simp at he; subst he; dsimp only
        exact ⟨gy, r_bcast bm _ gy D_s2, toN _ _ (by omega) (by omega) hgy⟩
      · have hgy := frN _ _ (by omega) (by omega) hgy
        rw [ed_s1] at he; simp [C13x.arithEdges] at he
        rcases he with rfl | rfl
        · simp at htr; rw [t_tb] at htr; cases htr
        · dsimp only
          have hdd : gy.dims = ((markDirty H12 (backwardOrder H12 H11.size)).val H3.size).dims := by rw [hgy.2, S_tb.2]
          exact ⟨_, (C02.rule_mul_div bm _ gy H3.size H3.size hgy.1 S_tb.1 S_tb.1 hdd hdd).1,
            toN _ _ (by omega) (by omega) ⟨zip_wf _ gy _ hgy.1 S_tb.1 hdd, hgy.2⟩⟩
      · have hgy := frN _ _ (by omega) (by omega) hgy
        rw [ed_s2] at he; simp [C13x.arithEdges] at he
        rcases he with rfl | rfl <;> dsimp only
        · have hdd : gy.dims = ((markDirty H12 (backwardOrder H12 H11.size)).val (H8.size + 1)).dims := by rw [hgy.2, S_lg2b.2]
          exact ⟨_, (C02.rule_mul_div bm _ gy (H8.size + 1) (H8.size + 1) hgy.1 S_lg2b.1 S_lg2b.1 hdd hdd).1,
            toN _ _ (by omega) (by omega) ⟨zip_wf _ gy _ hgy.1 S_lg2b.1 hdd, hgy.2⟩⟩
        · have hdd : gy.dims = ((markDirty H12 (backwardOrder H12 H11.size)).val H8.size).dims := by rw [hgy.2, S_t2b.2]
          exact ⟨_, (C02.rule_mul_div bm _ gy H8.size H8.size hgy.1 S_t2b.1 S_t2b.1 hdd hdd).1,
            toN _ _ (by omega) (by omega) ⟨zip_wf _ gy _ hgy.1 S_t2b.1 hdd, hgy.2⟩⟩
      · have hgy := frN _ _ (by omega) (by omega) hgy
        rw [ed_lgb] at he; simp at he; subst he; dsimp only
        exact ⟨gy, r_bcast bm _ gy D_lg, toN _ _ (by omega) (by omega) hgy⟩
      · have hgy := frN _ _ (by omega) (by omega) hgy
        rw [ed_lg] at he; simp at he; subst he; dsimp only
        have hdd : gy.dims = ((markDirty H12 (backwardOrder H12 H11.size)).val (H1.size + 4)).dims := by rw [hgy.2, S_4.2]
        exact ⟨_, C02.rule_log bm _ gy (H1.size + 4) hgy.1 S_4.1 hdd,
          toN _ _ (by omega) (by omega) ⟨zip_wf _ gy _ hgy.1 S_4.1 hdd, hgy.2⟩⟩
      · have hgy := frN _ _ (by omega) (by omega) hgy
        rw [ed_t2b] at he; simp at he; subst he; dsimp only
        exact ⟨gy, r_bcast bm _ gy D_t2, toN _ _ (by omega) (by omega) hgy⟩
      · have hgy := frN _ _ (by omega) (by omega) hgy
        rw [ed_lg2b] at he; simp at he; subst he; dsimp only
        exact ⟨gy, r_bcast bm _ gy D_lg2, toN _ _ (by omega) (by omega) hgy⟩
      · have hgy := frN _ _ (by omega) (by omega) hgy
        rw [ed_t2] at he; simp [C13x.arithEdges] at he
        rcases he with rfl | rfl
        · dsimp only
          exact ⟨gy, (C02.rule_add_sub bm _ gy).1, toN _ _ (by omega) (by omega) hgy⟩
        · simp at htr; rw [t_ttb] at htr; cases htr
      · have hgy := frN _ _ (by omega) (by omega) hgy
        rw [ed_lg2] at he; simp at he; subst he; dsimp only
        have hdd : gy.dims = ((markDirty H12 (backwardOrder H12 H11.size)).val (H6.size + 2)).dims := by rw [hgy.2, S_y2.2]
        exact ⟨_, C02.rule_log bm _ gy (H6.size + 2) hgy.1 S_y2.1 hdd,
          toN _ _ (by omega) (by omega) ⟨zip_wf _ gy _ hgy.1 S_y2.1 hdd, hgy.2⟩⟩
      · have hgy := frN _ _ (by omega) (by omega) hgy
        rw [ed_ob] at he; simp at he; subst he; dsimp only
        exact ⟨gy, r_bcast bm _ gy D_o1, toN _ _ (by omega) (by omega) hgy⟩
      · have hgy := frN _ _ (by omega) (by omega) hgy
        rw [ed_y2] at he; simp [C13x.arithEdges] at he
        rcases he with rfl | rfl <;> dsimp only
        · exact ⟨gy, (C02.rule_add_sub bm _ gy).1, toN _ _ (by omega) (by omega) hgy⟩
        · exact ⟨_, (C02.rule_add_sub bm _ gy).2, toN _ _ (by omega) (by omega) (mapS gy _ hgy)⟩
      · have hgy := frN _ _ (by omega) (by omega) hgy
        rw [ed_ob2] at he; simp at he; subst he; dsimp only
        exact ⟨gy, r_bcast bm _ gy D_o2, toN _ _ (by omega) (by omega) hgy⟩
      · have hgy := frN _ _ (by omega) (by omega) hgy
        rw [ed_phb] at he; simp at he; subst he; dsimp only
        exact ⟨gy, r_bcast bm _ gy D_ph, toN _ _ (by omega) (by omega) hgy⟩
      · have hgy := frN _ _ (by omega) (by omega) hgy
        rw [ed_o] at he; simp at he; subst he; dsimp only
        have h0 := r_pow0 bm (markDirty H12 (backwardOrder H12 H11.size)) (d := [n]) gy ((hv1 (H1.size + 4)).trans Pph.val)
        rw [zero_eq] at h0
        exact ⟨_, h0, toN _ _ (by omega) (by omega) ⟨wf_map hZ hd _, rfl⟩⟩
      · -- the clip
        obtain ⟨i, hi, rfl⟩ : ∃ i, i ≤ 4 ∧ u = H1.size + i := ⟨u - H1.size, by omega, by omega⟩
        have hgs : Shaped [n] gy := frN _ _ (by omega) (by omega) hgy
        interval_cases i
        · rw [Nat.add_zero, ed5] at he; simp at he; subst he; dsimp only
          have := r_pow0 bm (markDirty H12 (backwardOrder H12 H11.size)) (d := [n]) gy ((hv1 p).trans Pp.val)
          rw [zero_eq] at this
          exact ⟨_, this, toP _ ⟨wf_map hZ hd _, rfl⟩⟩
        · rw [ed6] at he; simp at he; subst he; dsimp only
          exact ⟨_, C02.rule_scale bm _ gy _, toN _ _ (by omega) (by omega) (mapS gy _ hgs)⟩
        · rw [ed7] at he; simp at he; subst he; dsimp only
          exact ⟨_, C02.rule_scale bm _ gy _, toN _ _ (by omega) (by omega) (mapS gy _ hgs)⟩
        · rw [ed8] at he; simp at he
          rcases he with rfl | rfl <;> dsimp only
          · obtain ⟨r, e1, e2⟩ := elext_ok bm _ gy (H1.size + 3) p (H1.size + 2) [n] hgs S_3 S_p S_2
            exact ⟨r, e1, toP r e2⟩
          · obtain ⟨r, e1, e2⟩ := elext_ok bm _ gy (H1.size + 3) (H1.size + 2) p [n] hgs S_3 S_2 S_p
            exact ⟨r, e1, toN _ r (by omega) (by omega) e2⟩
        · rw [ed9] at he; simp at he
          rcases he with rfl | rfl <;> dsimp only
          · obtain ⟨r, e1, e2⟩ := elext_ok bm _ gy (H1.size + 4) (H1.size + 1) (H1.size + 3) [n] hgs S_4 S_1 S_3
            exact ⟨r, e1, toN _ r (by omega) (by omega) e2⟩
          · obtain ⟨r, e1, e2⟩ := elext_ok bm _ gy (H1.size + 4) (H1.size + 3) (H1.size + 1) [n] hgs S_4 S_3 S_1
            exact ⟨r, e1, toN _ r (by omega) (by omega) e2⟩
      · -- below the prediction
        rw [hPo u _ (by omega)] at hgy
        obtain ⟨g, e1, e2⟩ := hPedge u hu (by omega) e he htr gy hgy
        exact ⟨g, e1, (hPo _ _ (by have := hdag u e he; omega)).mpr e2⟩
  rw [← i11]
  intro hok
  have mem_of (u v : Nat) (hu : u ∈ backwardOrder H12 H11.size) (r' : Rule ℝ)
      (he : (⟨v, r'⟩ : Edge ℝ) ∈ (H12.ctx u).edges) (hv : H12.tracked v = true) : v ∈ backwardOrder H12 H11.size := by
    apply hcl u hu
    unfold succs
    exact List.mem_filter.mpr ⟨List.mem_map.mpr ⟨⟨v, r'⟩, he, rfl⟩, hv⟩
  have seg : ∀ (a b : Nat) (rs : List (Rule ℝ)) (G g : Tensor ℝ), SolePath H12 H11.size a rs b →
      a ∈ backwardOrder H12 H11.size → (backprop bm H12 H11.size).heap.grad a = some G →
      evalPath bm (markDirty H12 (backwardOrder H12 H11.size)) rs G = .ok g →
      (backprop bm H12 H11.size).heap.grad b = some g ∧ b ∈ backwardOrder H12 H11.size := by
    intro a b rs G g pS ha hG hev
    obtain ⟨g', h1, h2, h3⟩ := grad_path bm H12 H11.size hdag t_loss hok _ _ _ pS G ha hG
    rw [hev] at h1
    cases h1
    exact ⟨h2, h3⟩
  -- the root's gradient
  have f_loss : (backprop bm H12 H11.size).heap.grad H11.size = some ⟨[], [1]⟩ := by
    have := grad_root bm H12 H11.size hdag t_loss hok (hfresh _ (by omega)) wlv
    rw [r_12.val] at this
    simpa [vPow, Tensor.map] using this
  -- the values the rules read
  have hv1 : ∀ k, (markDirty H12 (backwardOrder H12 H11.size)).val k = H12.val k := fun k => markDirty_val _ _ k
  have V_tb := (hv1 H3.size).trans Ptb.val
  have V_lg2b := (hv1 (H8.size + 1)).trans Plg2b.val
  have V_t2b := (hv1 H8.size).trans Pt2b.val
  have V_y2 := (hv1 (H6.size + 2)).trans Py2.val
  have V_ph := (hv1 (H1.size + 4)).trans Pph.val
  have D_ln : ((markDirty H12 (backwardOrder H12 H11.size)).val H10.size).dims = [n] := by rw [hv1, Pln.val]; rfl
  have D_s1 : ((markDirty H12 (backwardOrder H12 H11.size)).val (H3.size + 2)).dims
      = ((markDirty H12 (backwardOrder H12 H11.size)).val H9.size).dims := by rw [hv1, hv1, Ps1.val, Ps1b.val]
  have D_lg : ((markDirty H12 (backwardOrder H12 H11.size)).val H2.size).dims
      = ((markDirty H12 (backwardOrder H12 H11.size)).val (H3.size + 1)).dims := by rw [hv1, hv1, Plg.val, Plgb.val]
  have D_s2 : ((markDirty H12 (backwardOrder H12 H11.size)).val (H8.size + 2)).dims
      = ((markDirty H12 (backwardOrder H12 H11.size)).val (H9.size + 1)).dims := by rw [hv1, hv1, Ps2.val, Ps2b.val]
  have D_t2 : ((markDirty H12 (backwardOrder H12 H11.size)).val (H5.size + 2)).dims
      = ((markDirty H12 (backwardOrder H12 H11.size)).val H8.size).dims := by rw [hv1, hv1, Pt2.val, Pt2b.val]
  have D_lg2 : ((markDirty H12 (backwardOrder H12 H11.size)).val H7.size).dims
      = ((markDirty H12 (backwardOrder H12 H11.size)).val (H8.size + 1)).dims := by rw [hv1, hv1, Plg2.val, Plg2b.val]
  have D_o1 : ((markDirty H12 (backwardOrder H12 H11.size)).val H4.size).dims
      = ((markDirty H12 (backwardOrder H12 H11.size)).val H5.size).dims := by rw [hv1, hv1, Po.val, Pob.val]
  have D_o2 : ((markDirty H12 (backwardOrder H12 H11.size)).val H4.size).dims
      = ((markDirty H12 (backwardOrder H12 H11.size)).val H6.size).dims := by rw [hv1, hv1, Po.val, Pob2.val]
  have D_ph : ((markDirty H12 (backwardOrder H12 H11.size)).val (H1.size + 4)).dims
      = ((markDirty H12 (backwardOrder H12 H11.size)).val (H6.size + 1)).dims := by rw [hv1, hv1, Pph.val, Pphb.val]
  -- loss → ln → l
  have pS0 : SolePath H12 H11.size H11.size [.avgAlongX H10.size 0, .scaleX (-1)] (H9.size + 2) := by
    refine .cons (t := H10.size) (by rw [ed_loss]; simp [List.filter_cons, C13x.arithEdges]) (by intro v hv hne e he het; have := hE v hv e he; omega) t_ln
      (hfresh _ (by omega)) (by omega) ?_
    refine .cons (t := H9.size + 2) (by rw [ed_ln]; simp [List.filter_cons, C13x.arithEdges]) (by intro v hv hne e he het; have := hE v hv e he; omega) t_l
      (hfresh _ (by omega)) (by omega) ?_
    exact .nil _
  obtain ⟨f_l, m_l⟩ := seg _ _ _ _ _ pS0 hroot f_loss (by
    rw [evalPath_cons (r_avg1 bm _ (Z := (H.val t).data.zip (H.val p).data) H10.size n 1 hn D_ln hZn),
      evalPath_cons (r_scale bm _ (-1) _)]
    rfl)
  -- l → s1b → s1 → lgb → lg
  have pSA : SolePath H12 H11.size (H9.size + 2)
      [.idG, .bcastX (H3.size + 2) H9.size, .mulG H3.size, .bcastX H2.size (H3.size + 1)] H2.size := by
    refine .cons (t := H9.size) (by rw [ed_l]; simp [List.filter_cons, C13x.arithEdges]) (by intro v hv hne e he het; have := hE v hv e he; omega) t_s1b
      (hfresh _ (by omega)) (by omega) ?_
    refine .cons (t := H3.size + 2) (by rw [ed_s1b]; simp [List.filter_cons, C13x.arithEdges]) (by intro v hv hne e he het; have := hE v hv e he; omega) t_s1
      (hfresh _ (by omega)) (by omega) ?_
    refine .cons (t := H3.size + 1) (by rw [ed_s1]; simp [List.filter_cons, C13x.arithEdges]) (by intro v hv hne e he het; have := hE v hv e he; omega) t_lgb
      (hfresh _ (by omega)) (by omega) ?_
    refine .cons (t := H2.size) (by rw [ed_lgb]; simp [List.filter_cons, C13x.arithEdges]) (by intro v hv hne e he het; have := hE v hv e he; omega) t_lg
      (hfresh _ (by omega)) (by omega) ?_
    exact .nil _
  obtain ⟨f_lg, m_lg⟩ := seg _ _ _ _ _ pSA m_l f_l (by
    rw [evalPath_cons (r_id bm _ _), evalPath_cons (r_bcast bm _ _ D_s1), evalPath_cons (r_mul bm _ hZ hd V_tb _),
      evalPath_cons (r_bcast bm _ _ D_lg)]
    rfl)
  -- l → s2b → s2
  have pSS : SolePath H12 H11.size (H9.size + 2) [.idG, .bcastX (H8.size + 2) (H9.size + 1)] (H8.size + 2) := by
    refine .cons (t := H9.size + 1) (by rw [ed_l]; simp [List.filter_cons, C13x.arithEdges]) (by intro v hv hne e he het; have := hE v hv e he; omega) t_s2b
      (hfresh _ (by omega)) (by omega) ?_
    refine .cons (t := H8.size + 2) (by rw [ed_s2b]; simp [List.filter_cons, C13x.arithEdges]) (by intro v hv hne e he het; have := hE v hv e he; omega) t_s2
      (hfresh _ (by omega)) (by omega) ?_
    exact .nil _
  obtain ⟨f_s2, m_s2⟩ := seg _ _ _ _ _ pSS m_l f_l (by
    rw [evalPath_cons (r_id bm _ _), evalPath_cons (r_bcast bm _ _ D_s2)]
    rfl)
  -- s2 → t2b → t2 → ob
  have pSO : SolePath H12 H11.size (H8.size + 2)
      [.mulG (H8.size + 1), .bcastX (H5.size + 2) H8.size, .idG] H5.size := by
    refine .cons (t := H8.size) (by rw [ed_s2]; simp [List.filter_cons, C13x.arithEdges]) (by intro v hv hne e he het; have := hE v hv e he; omega) t_t2b
      (hfresh _ (by omega)) (by omega) ?_
    refine .cons (t := H5.size + 2) (by rw [ed_t2b]; simp [List.filter_cons, C13x.arithEdges]) (by intro v hv hne e he het; have := hE v hv e he; omega) t_t2
      (hfresh _ (by omega)) (by omega) ?_
    refine .cons (t := H5.size) (by rw [ed_t2]; simp [List.filter_cons, C13x.arithEdges]) (by intro v hv hne e he het; have := hE v hv e he; omega) t_ob
      (hfresh _ (by omega)) (by omega) ?_
    exact .nil _
  obtain ⟨f_ob, m_ob⟩ := seg _ _ _ _ _ pSO m_s2 f_s2 (by
    rw [evalPath_cons (r_mul bm _ hZ hd V_lg2b _), evalPath_cons (r_bcast bm _ _ D_t2), evalPath_cons (r_id bm _ _)]
    rfl)
  -- s2 → lg2b → lg2 → y2
  have pSY : SolePath H12 H11.size (H8.size + 2)
      [.mulG H8.size, .bcastX H7.size (H8.size + 1), .logX (H6.size + 2)] (H6.size + 2) := by
    refine .cons (t := H8.size + 1) (by rw [ed_s2]; simp [List.filter_cons, C13x.arithEdges]) (by intro v hv hne e he het; have := hE v hv e he; omega) t_lg2b
      (hfresh _ (by omega)) (by omega) ?_
    refine .cons (t := H7.size) (by rw [ed_lg2b]; simp [List.filter_cons, C13x.arithEdges]) (by intro v hv hne e he het; have := hE v hv e he; omega) t_lg2
      (hfresh _ (by omega)) (by omega) ?_
    refine .cons (t := H6.size + 2) (by rw [ed_lg2]; simp [List.filter_cons, C13x.arithEdges]) (by intro v hv hne e he het; have := hE v hv e he; omega) t_y2
      (hfresh _ (by omega)) (by omega) ?_
    exact .nil _
  obtain ⟨f_y2, m_y2⟩ := seg _ _ _ _ _ pSY m_s2 f_s2 (by
    rw [evalPath_cons (r_mul bm _ hZ hd V_t2b _), evalPath_cons (r_bcast bm _ _ D_lg2),
      evalPath_cons (r_log bm _ hZ hd V_y2 _)]
    rfl)
  -- y2 → ob' and y2 → phb
  have pSO2 : SolePath H12 H11.size (H6.size + 2) [.idG] H6.size := by
    refine .cons (t := H6.size) (by rw [ed_y2]; simp [List.filter_cons, C13x.arithEdges]) (by intro v hv hne e he het; have := hE v hv e he; omega) t_ob2
      (hfresh _ (by omega)) (by omega) ?_
    exact .nil _
  obtain ⟨f_ob2, m_ob2⟩ := seg _ _ _ _ _ pSO2 m_y2 f_y2 (by
    rw [evalPath_cons (r_id bm _ _)]
    rfl)
  have pSP : SolePath H12 H11.size (H6.size + 2) [.negG] (H6.size + 1) := by
    refine .cons (t := H6.size + 1) (by rw [ed_y2]; simp [List.filter_cons, C13x.arithEdges]) (by intro v hv hne e he het; have := hE v hv e he; omega) t_phb
      (hfresh _ (by omega)) (by omega) ?_
    exact .nil _
  obtain ⟨f_phb, m_phb⟩ := seg _ _ _ _ _ pSP m_y2 f_y2 (by
    rw [evalPath_cons (r_neg bm _ _)]
    rfl)
  -- o = p̂⁰ is consumed by the two subtractions
  have m_o := mem_of _ H4.size m_ob (.bcastX H4.size H5.size) (by rw [ed_ob]; simp) t_o
  have f_o := grad_two bm H12 H11.size hdag t_loss hok H4.size H5.size H6.size m_ob m_ob2 (by omega) (by omega)
    (hfresh _ (by omega)) t_o _ _ (by rw [ed_ob]; simp [List.filter_cons]) (by rw [ed_ob2]; simp [List.filter_cons])
    (by intro v hv h1 h2 e he het; have := hE v hv e he; omega)
    _ _ _ _ _ f_ob f_ob2 (r_bcast bm _ _ D_o1) (r_bcast bm _ _ D_o2) [n] ⟨wf_map hZ hd _, rfl⟩ ⟨wf_map hZ hd _, rfl⟩
    (add_maps hZ hd _ _)
  -- p̂ is consumed by log, by p̂⁰ and by 1 − p̂
  have m_ph := mem_of _ (H1.size + 4) m_lg (.logX (H1.size + 4)) (by rw [ed_lg]; simp) t9
  have f_ph := grad_three bm H12 H11.size hdag t_loss hok (H1.size + 4) H2.size H4.size (H6.size + 1) m_lg m_o m_phb
    (by omega) (by omega) (by omega) (by omega) (hfresh _ (by omega)) t9 _ _ _
    (by rw [ed_lg]; simp [List.filter_cons]) (by rw [ed_o]; simp [List.filter_cons])
    (by rw [ed_phb]; simp [List.filter_cons])
    (by intro v hv h1 h2 h3 e he het; have := hE v hv e he; omega)
    _ _ _ _ _ _ _ _ f_lg f_o f_phb (r_log bm _ hZ hd V_ph _) (r_pow0 bm _ _ V_ph) (r_bcast bm _ _ D_ph) [n]
    ⟨wf_map hZ hd _, rfl⟩ ⟨wf_map hZ hd _, rfl⟩ ⟨wf_map hZ hd _, rfl⟩ (add_maps hZ hd _ _) (add_maps hZ hd _ _)
  -- the clip segment
  have fp := clip_in_walk bm H12 H11.size p H1.size hZ hd (fun z => z.2) (Scalar.eps : ℝ) Scalar.oneMinusEps hdag t_loss hok
    Pp.val tp gp Q0 Q1 Q2 Q3 Q4 (by omega) (fun i hi => hfresh _ (by omega)) (by omega) (fun i hi => by omega)
    (by intro v hv hvk e he; have := hE v hv e he; omega)
    _ m_ph f_ph
  refine ⟨?_, ?_⟩
  · have m8 := mem_of _ (H1.size + 3) m_ph (.elext (H1.size + 4) (H1.size + 3) (H1.size + 1)) (by rw [ed9]; simp) t8
    exact mem_of _ p m8 (.elext (H1.size + 3) p (H1.size + 2)) (by rw [ed8]; simp) tp
  rw [fp, C12x.zipWith_as_map]
  congr 2
  apply List.map_congr_left
  intro z _
  simp only [bceGrad, C12x.eps_val, C12x.oneMinusEps_val, Arith.fn, sub_eq]
  ring

/-- **BCE, end to end** (see the header) -/
theorem bce_backprop (bm : BMode) (H : Heap ℝ) (p t n : Nat) (hR : Reach bm H) (hp : p < H.size) (ht : t < H.size)
    (wp : (H.val p).WF) (wt : (H.val t).WF) (dp : (H.val p).dims = [n]) (dt : (H.val t).dims = [n])
    (hpt : H.tracked p = true) (hpc : H.dirty p = false) (htt : H.tracked t = false) (htc : H.dirty t = false) :
    ∃ r H', lossCompute Loss.bce (some p) (some t) H = .ok (r, H') ∧
      ((backprop bm H' r).status = .ok () →
        (backprop bm H' r).heap.grad p
          = some ⟨[n], List.zipWith (fun tv pv => bceGrad 1 n (tHat tv) pv) (H.val t).data (H.val p).data⟩) := by
  obtain ⟨H', hrun, _, _, _, _, _, _, hg⟩ := bce_backprop_full bm H p t n hR hp ht wp wt dp dt hpt hpc htt htc
  exact ⟨_, H', hrun, fun hok => (hg hok).2⟩

/-- **BCE on a leaf prediction: unconditional.** `BackPropagate` of the loss SUCCEEDS and stores `bceGrad 1 n t̂ p` -/
theorem bce_backprop_leaf (bm : BMode) (H : Heap ℝ) (p t n : Nat) (hR : Reach bm H) (hp : p < H.size) (ht : t < H.size)
    (wp : (H.val p).WF) (wt : (H.val t).WF) (dp : (H.val p).dims = [n]) (dt : (H.val t).dims = [n])
    (hpt : H.tracked p = true) (hpc : H.dirty p = false) (htt : H.tracked t = false) (htc : H.dirty t = false)
    (hleaf : (H.ctx p).edges = []) :
    ∃ r H', lossCompute Loss.bce (some p) (some t) H = .ok (r, H') ∧ (backprop bm H' r).status = .ok () ∧
      (backprop bm H' r).heap.grad p
        = some ⟨[n], List.zipWith (fun tv pv => bceGrad 1 n (tHat tv) pv) (H.val t).data (H.val p).data⟩ := by
  obtain ⟨H', hrun, hext, hsz, R', troot, hfoot, hokc, hg⟩ :=
    bce_backprop_full bm H p t n hR hp ht wp wt dp dt hpt hpc htt htc
  have ep : (H'.ctx p).edges = [] := by rw [hext.ctx hp]; exact hleaf
  have gp : H'.grad p = none := by
    have := reach_clean_nograd hR p hpc
    simp only [Heap.grad, hext.ctx hp] at this ⊢; exact this
  have hvis : ∀ v ∈ backwardOrder H' (H.size + 29), H'.tracked v = true ∧ (H.size ≤ v ∨ v = p) := by
    apply order_subset H' (H.size + 29) (fun v => H'.tracked v = true ∧ (H.size ≤ v ∨ v = p))
    · exact ⟨troot, Or.inl (by omega)⟩
    · intro u hu v hv
      obtain ⟨hut, hu⟩ := hu
      have hvt : H'.tracked v = true := by
        unfold succs at hv; exact (List.mem_filter.mp hv).2
      obtain ⟨e, he, rfl⟩ := mem_succs_edge H' u v hv
      rcases hu with hu | rfl
      · exact ⟨hvt, hfoot u hu hut e he⟩
      · rw [ep] at he; simp at he
  have hok := hokc (fun _ g => Shaped [n] g) (fun _ a b ha hb => shaped_add_ok _ a b ha hb) (fun g hg => hg)
    (by
      intro k hk hlt g hgk
      obtain ⟨_, h | rfl⟩ := hvis k hk
      · omega
      · rw [gp] at hgk; cases hgk)
    (by
      intro u hu hlt e he
      obtain ⟨_, h | rfl⟩ := hvis u hu
      · omega
      · rw [ep] at he; simp at he)
  exact ⟨_, H', hrun, hok, (hg hok).2⟩

/-- **BCE, end to end, element by element**: position `i` of `p.Gradient()` is `(−1/n)·(t̂ᵢ/pᵢ − (1−t̂ᵢ)/(1−pᵢ))` — the partial
    derivative of the BCE formula (`C13x.bce_formula_deriv`) — where the prediction is strictly inside the clip band, and 0
    where it is strictly outside -/
theorem bce_backprop_el (bm : BMode) (H : Heap ℝ) (p t n : Nat) (hR : Reach bm H) (hp : p < H.size) (ht : t < H.size)
    (wp : (H.val p).WF) (wt : (H.val t).WF) (dp : (H.val p).dims = [n]) (dt : (H.val t).dims = [n])
    (hpt : H.tracked p = true) (hpc : H.dirty p = false) (htt : H.tracked t = false) (htc : H.dirty t = false) :
    ∃ r H', lossCompute Loss.bce (some p) (some t) H = .ok (r, H') ∧
      ((backprop bm H' r).status = .ok () →
        ∃ K, (backprop bm H' r).heap.grad p = some K ∧ K.dims = [n] ∧ K.data.length = n ∧
          ∀ (i : Nat) (hi : i < n) (tv pv : ℝ), (H.val t).data[i]? = some tv → (H.val p).data[i]? = some pv →
            (1 / 10 ^ 12 + 1 / 10 ^ 240 < pv → pv < 1 - 1 / 10 ^ 12 - 1 / 10 ^ 240 →
              K.data[i]? = some ((-1 / (n : ℝ)) * (tHat tv / pv - (1 - tHat tv) / (1 - pv)))) ∧
            (pv < 1 / 10 ^ 12 - 1 / 10 ^ 240 ∨ 1 - 1 / 10 ^ 12 + 1 / 10 ^ 240 < pv → K.data[i]? = some 0)) := by
  obtain ⟨r, H', hrun, hg⟩ := bce_backprop bm H p t n hR hp ht wp wt dp dt hpt hpc htt htc
  have lp : (H.val p).data.length = n := by rw [wp.1, dp]; simp [prod]
  have lt' : (H.val t).data.length = n := by rw [wt.1, dt]; simp [prod]
  refine ⟨r, H', hrun, fun hok => ⟨_, hg hok, rfl, by simp [lp, lt'], ?_⟩⟩
  intro i hi tv pv htv hpv
  have hget : (List.zipWith (fun tv pv => bceGrad 1 n (tHat tv) pv) (H.val t).data (H.val p).data)[i]?
      = some (bceGrad 1 n (tHat tv) pv) := by
    rw [List.getElem?_zipWith, htv, hpv]
  refine ⟨fun a b => ?_, fun a => ?_⟩
  · rw [hget, bceGrad_inside 1 n _ pv a b, one_mul]
  · rw [hget, bceGrad_outside 1 n _ pv a]

/-- the hypotheses of `bce_backprop` are satisfiable: a tracked prediction leaf and an untracked target leaf of length 2 -/
example : ∃ (H : Heap ℝ) (p t n : Nat), Reach BMode.mean H ∧ p < H.size ∧ t < H.size ∧ (H.val p).WF ∧ (H.val t).WF ∧
    (H.val p).dims = [n] ∧ (H.val t).dims = [n] ∧ H.tracked p = true ∧ H.dirty p = false ∧ H.tracked t = false ∧
    H.dirty t = false := by
  refine ⟨#[⟨⟨[2], [1 / 4, 3 / 4]⟩, freshCtx true⟩, ⟨⟨[2], [0, 1]⟩, freshCtx false⟩], 0, 1, 2, ?_, by simp, by simp, ?_, ?_,
    rfl, rfl,
    by simp [Heap.tracked, Heap.ctx, freshCtx], by simp [Heap.dirty, Heap.ctx, freshCtx],
    by simp [Heap.tracked, Heap.ctx, freshCtx], by simp [Heap.dirty, Heap.ctx, freshCtx]⟩
  · exact Reach.leaf (v := ⟨[2], [0, 1]⟩) (b := false) (r := 1)
      (Reach.leaf (v := ⟨[2], [1 / 4, 3 / 4]⟩) (b := true) (r := 0) Reach.empty rfl) rfl
  · refine ⟨by simp [Heap.val, prod], ?_⟩
    intro d hd; simp [Heap.val] at hd; omega
  · refine ⟨by simp [Heap.val, prod], ?_⟩
    intro d hd; simp [Heap.val] at hd; omega

end C13u
end Qeep
