import QeepProps.C16w
import QeepProps.C16u
import QeepProps.C15u
import QeepProps.C15y
/-!
# C11 — a two-layer network end to end: FC → Sigmoid → FC

`mlp_backprop`: on any heap the public API can build, with two FC layers whose four parameter tensors are distinct, tracked,
unspent and not consumed elsewhere, and an unspent input `x : [N, D]`: run `y₁ = FC₁(x)`, `a = Sigmoid(y₁)`, `y₂ = FC₂(a)` and
`BackPropagate(y₂)`. If the walk returns without error then (`sum` mode) the four gradients are the partial derivatives of
`Σ y₂` by the chain rule:

* `W₂.Gradient()[p] = Σ_n Σ_o a[n][o]`, `B₂.Gradient()[p] = N`,
* `W₁.Gradient()[o] = Σ_n (Σ_p W₂[p])·σ'(y₁[n][o])·Σ_d x[n][d]`, `B₁.Gradient()[o] = Σ_n (Σ_p W₂[p])·σ'(y₁[n][o])`.

The proof composes four component theorems about the REAL walk, each applied to the same 25-tensor graph: `fc_in_walk_sum`
(FC₂'s parameters), `fc_x_in_walk` (what FC₂ passes to its input), `sigmoid_in_walk`, `fc_in_walk_sum` (FC₁'s parameters).
-/
set_option linter.unusedSimpArgs false
set_option linter.unusedSectionVars false
set_option linter.unusedVariables false

namespace Qeep
namespace C11v
open RealScalar C01 C01x C01z C01w C01q C16x C16z C16w C16u C15x C15z C15u

theorem mlp_backprop (H : Heap ℝ) (w1 b1 w2 b2 x N D O P : Nat) (hR : Reach .sum H)
    (lw1 : Live H w1) (lb1 : Live H b1) (lw2 : Live H w2) (lb2 : Live H b2)
    (hx : x < H.size) (cx : H.dirty x = false)
    (h12 : w1 ≠ b1) (h34 : w2 ≠ b2) (h13 : w1 ≠ w2) (h14 : w1 ≠ b2) (h23 : b1 ≠ w2) (h24 : b1 ≠ b2)
    (ww1 : (H.val w1).WF) (wb1 : (H.val b1).WF) (ww2 : (H.val w2).WF) (wb2 : (H.val b2).WF) (wx : (H.val x).WF)
    (dw1 : (H.val w1).dims = [O]) (db1 : (H.val b1).dims = [O]) (dw2 : (H.val w2).dims = [P]) (db2 : (H.val b2).dims = [P])
    (dx : (H.val x).dims = [N, D])
    (hsole : ∀ v, ∀ e ∈ (H.ctx v).edges, e.target ≠ w1 ∧ e.target ≠ b1 ∧ e.target ≠ w2 ∧ e.target ≠ b2) :
    ∃ H1 H2 H3, fcForward ⟨some w1, some b1⟩ [some x] H = .ok (H.size + 8, H1) ∧
      actForward Activation.sigmoid [some (H.size + 8)] H1 = .ok (H.size + 9 + 6, H2) ∧
      fcForward ⟨some w2, some b2⟩ [some (H.size + 9 + 6)] H2 = .ok (H.size + 16 + 8, H3) ∧
      (∀ n o, n < N → o < O → (H2.val (H.size + 9 + 6)).el [n, o] = sig ((H1.val (H.size + 8)).el [n, o])) ∧
      ((backprop .sum H3 (H.size + 16 + 8)).status = .ok () →
        ∃ dW1 dB1 dW2 dB2,
          (backprop .sum H3 (H.size + 16 + 8)).heap.grad w1 = some dW1 ∧ (backprop .sum H3 (H.size + 16 + 8)).heap.grad b1 = some dB1 ∧
          (backprop .sum H3 (H.size + 16 + 8)).heap.grad w2 = some dW2 ∧ (backprop .sum H3 (H.size + 16 + 8)).heap.grad b2 = some dB2 ∧
          dW1.WF ∧ dB1.WF ∧ dW2.WF ∧ dB2.WF ∧ dW1.dims = [O] ∧ dB1.dims = [O] ∧ dW2.dims = [P] ∧ dB2.dims = [P] ∧
          (∀ o, o < O → dW1.el [o] = ∑ n ∈ Finset.range N,
              ((∑ p ∈ Finset.range P, (H.val w2).el [p]) * (sig ((H1.val (H.size + 8)).el [n, o]) * (1 - sig ((H1.val (H.size + 8)).el [n, o]))))
                * ∑ d ∈ Finset.range D, (H.val x).el [n, d]) ∧
          (∀ o, o < O → dB1.el [o] = ∑ n ∈ Finset.range N,
              (∑ p ∈ Finset.range P, (H.val w2).el [p]) * (sig ((H1.val (H.size + 8)).el [n, o]) * (1 - sig ((H1.val (H.size + 8)).el [n, o])))) ∧
          (∀ p, p < P → dW2.el [p] = ∑ n ∈ Finset.range N, ∑ o ∈ Finset.range O, (H2.val (H.size + 9 + 6)).el [n, o]) ∧
          (∀ p, p < P → dB2.el [p] = (N : ℝ))) := by
  have hw1 := lw1.1; have hb1 := lb1.1; have hw2 := lw2.1; have hb2 := lb2.1
  -- stage 1: the first layer
  obtain ⟨H1, r1, x1, s1, g1⟩ := fc_forward_graph N D O w1 b1 x H hw1 hb1 hx _ _ _
    (is1_self _ ww1 O dw1) (is1_self _ wb1 O db1) (is2_self _ wx N D dx)
  have R1 : Reach .sum H1 := reach_fcForward hR hw1 hb1 hx r1
  have flag1 : ∀ n, n < H.size → H1.ctx n = H.ctx n := fun n hn => x1.ctx hn
  have ly1 : Live H1 (H.size + 8) := fc_result_live g1 (by omega)
    (by have := lw1.2.1; simp only [Heap.tracked, flag1 w1 hw1] at this ⊢; exact this)
    (by have := lb1.2.1; simp only [Heap.tracked, flag1 b1 hb1] at this ⊢; exact this)
    (by have := lw1.2.2; simp only [Heap.dirty, flag1 w1 hw1] at this ⊢; exact this)
    (by have := lb1.2.2; simp only [Heap.dirty, flag1 b1 hb1] at this ⊢; exact this)
    (by simp only [Heap.dirty, flag1 x hx] at cx ⊢; exact cx)
  -- stage 2: the activation
  obtain ⟨a, H2, r2, x2, R2, ea, s2, _, v2, v3, v4, v5, va, c0, c1, c2, c3, c4, c5, c6⟩ :=
    sigmoid_full .sum H1 (H.size + 8) R1 g1.y.wf ly1
  subst ea
  rw [s1] at r2 s2 v2 v3 v4 v5 va c0 c1 c2 c3 c4 c5 c6
  have wa : (H2.val (H.size + 9 + 6)).WF := by rw [va]; exact map_wf _ _ g1.y.wf
  have da : (H2.val (H.size + 9 + 6)).dims = [N, O] := by rw [va]; exact g1.y.dims
  have flag2 : ∀ n, n < H.size + 9 → H2.ctx n = H1.ctx n := fun n hn => x2.ctx (by omega)
  have val2 : ∀ n, n < H.size + 9 → H2.val n = H1.val n := fun n hn => x2.val (by omega)
  -- stage 3: the second layer
  have hw2' : w2 < H2.size := by omega
  have hb2' : b2 < H2.size := by omega
  have vw2 : H2.val w2 = H.val w2 := by rw [val2 w2 (by omega), x1.val hw2]
  have vb2 : H2.val b2 = H.val b2 := by rw [val2 b2 (by omega), x1.val hb2]
  obtain ⟨H3, r3, x3, s3, g3⟩ := fc_forward_graph N O P w2 b2 (H.size + 9 + 6) H2 hw2' hb2' (by omega) _ _ _
    (is1_self _ (by rw [vw2]; exact ww2) P (by rw [vw2]; exact dw2))
    (is1_self _ (by rw [vb2]; exact wb2) P (by rw [vb2]; exact db2)) (is2_self _ wa N O da)
  have R3 : Reach .sum H3 := reach_fcForward R2 hw2' hb2' (by omega) r3
  have k3 : H2.size = H.size + 16 := by omega
  rw [k3] at r3 s3 g3
  refine ⟨H1, H2, H3, r1, r2, r3, ?_, ?_⟩
  · intro n o hn ho
    rw [va]
    exact C14y.map_el sig _ g1.y.wf (by rw [g1.y.dims]; exact valid2 hn ho)
  intro hok
  -- everything in the final heap
  have hdag := reach_dag R3
  have hdagH := reach_dag hR
  have flag3 : ∀ n, n < H.size + 16 → H3.ctx n = H2.ctx n := fun n hn => x3.ctx (by omega)
  have val3 : ∀ n, n < H.size + 16 → H3.val n = H2.val n := fun n hn => x3.val (by omega)
  have ctxH : ∀ n, n < H.size → H3.ctx n = H.ctx n := fun n hn => by rw [flag3 n (by omega), flag2 n (by omega), flag1 n hn]
  have valH : ∀ n, n < H.size → H3.val n = H.val n := fun n hn => by rw [val3 n (by omega), val2 n (by omega), x1.val hn]
  have G1 : FCGraph H3 w1 b1 x H.size N D O _ _ _ := FCGraph.ext g1 (x2.trans x3) hw1 hb1 hx (by omega)
  have hc : ∀ i, i ≤ 6 → H3.ctx (H.size + 9 + i) = liveCtx (sgEdges (H.size + 8) (H.size + 9) i) := by
    intro i hi
    rw [flag3 (H.size + 9 + i) (by omega)]
    interval_cases i
    · exact c0
    · exact c1
    · exact c2
    · exact c3
    · exact c4
    · exact c5
    · exact c6
  -- where an edge of the final heap can come from
  have hE : ∀ v, ∀ e ∈ (H3.ctx v).edges,
      (v < H.size ∧ e ∈ (H.ctx v).edges) ∨ (∃ i, i ≤ 8 ∧ v = H.size + i ∧ e ∈ fcEdges w1 b1 x H.size i) ∨
      (∃ i, i ≤ 6 ∧ v = H.size + 9 + i ∧ e ∈ sgEdges (H.size + 8) (H.size + 9) i) ∨
      (∃ i, i ≤ 8 ∧ v = H.size + 16 + i ∧ e ∈ fcEdges w2 b2 (H.size + 9 + 6) (H.size + 16) i) := by
    intro v e he
    by_cases h1 : v < H.size
    · left; rw [ctxH v h1] at he; exact ⟨h1, he⟩
    · by_cases h2 : v < H.size + 9
      · right; left
        obtain ⟨i, hi, rfl⟩ : ∃ i, i ≤ 8 ∧ v = H.size + i := ⟨v - H.size, by omega, by omega⟩
        exact ⟨i, hi, rfl, fc_edges_sub G1 i hi e he⟩
      · by_cases h3 : v < H.size + 16
        · right; right; left
          obtain ⟨i, hi, rfl⟩ : ∃ i, i ≤ 6 ∧ v = H.size + 9 + i := ⟨v - (H.size + 9), by omega, by omega⟩
          rw [hc i hi] at he
          exact ⟨i, hi, rfl, he⟩
        · by_cases h4 : v < H.size + 25
          · right; right; right
            obtain ⟨i, hi, rfl⟩ : ∃ i, i ≤ 8 ∧ v = H.size + 16 + i := ⟨v - (H.size + 16), by omega, by omega⟩
            exact ⟨i, hi, rfl, fc_edges_sub g3 i hi e he⟩
          · rw [C16z.ctx_beyond H3 v (by omega)] at he; simp at he
  -- flags of the parameters and of the layer results in the final heap
  have live3 : ∀ n, n < H.size → Live H n → H3.tracked n = true ∧ H3.dirty n = false ∧ H3.grad n = none := by
    intro n hn l
    have g := reach_clean_nograd hR n l.2.2
    refine ⟨?_, ?_, ?_⟩
    · have := l.2.1; simp only [Heap.tracked, ctxH n hn] at this ⊢; exact this
    · have := l.2.2; simp only [Heap.dirty, ctxH n hn] at this ⊢; exact this
    · simp only [Heap.grad, ctxH n hn] at g ⊢; exact g
  obtain ⟨tw1, cw1, gw1⟩ := live3 w1 hw1 lw1
  obtain ⟨tb1, cb1, gb1⟩ := live3 b1 hb1 lb1
  obtain ⟨tw2, cw2, gw2⟩ := live3 w2 hw2 lw2
  obtain ⟨tb2, cb2, gb2⟩ := live3 b2 hb2 lb2
  have cx3 : H3.dirty x = false := by simp only [Heap.dirty, ctxH x hx] at cx ⊢; exact cx
  have gn1 : ∀ n, H.size ≤ n → H1.grad n = none := (fresh_fcForward _ _ H _ H1 r1).2
  have gn2 : ∀ n, H.size + 9 ≤ n → H2.grad n = none := fun n hn => (fresh_actForward _ _ H1 _ H2 r2).2 n (by omega)
  have gn3 : ∀ n, H.size + 16 ≤ n → H3.grad n = none := fun n hn => (fresh_fcForward _ _ H2 _ H3 r3).2 n (by omega)
  have gnew : ∀ n, H.size ≤ n → H3.grad n = none := by
    intro n hn
    by_cases h2 : n < H.size + 9
    · have := gn1 n hn
      simp only [Heap.grad, flag3 n (by omega), flag2 n h2] at this ⊢; exact this
    · by_cases h3 : n < H.size + 16
      · have := gn2 n (by omega)
        simp only [Heap.grad, flag3 n h3] at this ⊢; exact this
      · exact gn3 n (by omega)
  -- the activation's result in the final heap: live
  obtain ⟨_, ta2, _⟩ := liveCtx_grad H2 _ _ c6
  have ta3 : H3.tracked (H.size + 9 + 6) = true := by simp only [Heap.tracked, flag3 (H.size + 9 + 6) (by omega)] at ta2 ⊢; exact ta2
  have ca3 : H3.dirty (H.size + 9 + 6) = false := by
    have : H2.dirty (H.size + 9 + 6) = false := by simp [Heap.dirty, c6, liveCtx]
    simp only [Heap.dirty, flag3 (H.size + 9 + 6) (by omega)] at this ⊢; exact this
  have ly3 : Live H3 (H.size + 16 + 8) := fc_result_live g3 (by omega) tw2 tb2 cw2 cb2 ca3
  have ty1 : H3.tracked (H.size + 8) = true := by
    have := ly1.2.1; simp only [Heap.tracked, flag3 (H.size + 8) (by omega), flag2 (H.size + 8) (by omega)] at this ⊢; exact this
  obtain ⟨hroot, _, _, _⟩ := backwardOrder_spec H3 (H.size + 16 + 8) hdag ly3.2.1
  -- the root keeps the all-ones seed
  have hG : Is2 (vPow (H3.val (H.size + 16 + 8)) Scalar.zero) N P (fun _ _ => 1) := ones_is2 _ N P _ g3.y
  have f24 := grad_root .sum H3 (H.size + 16 + 8) hdag ly3.2.1 hok (gnew _ (by omega)) g3.y.wf
  -- visited ⇒ the final gradient differs from none ⇒ (contrapositive) a tensor that got a gradient was visited
  have visited_of : ∀ n g, H3.grad n = none → (backprop .sum H3 (H.size + 16 + 8)).heap.grad n = some g →
      n ∈ backwardOrder H3 (H.size + 16 + 8) := by
    intro n g hn hg
    apply Classical.byContradiction
    intro hnot
    have := C20.backprop_footprint .sum H3 (H.size + 16 + 8) hdag n hnot
    simp only [Heap.grad, this] at hg hn
    rw [hn] at hg; cases hg
  have hxw1 : x ≠ w1 := by intro h; rw [h, dw1] at dx; simp at dx
  have hxb1 : x ≠ b1 := by intro h; rw [h, db1] at dx; simp at dx
  have hxw2 : x ≠ w2 := by intro h; rw [h, dw2] at dx; simp at dx
  have hxb2 : x ≠ b2 := by intro h; rw [h, db2] at dx; simp at dx
  -- (D) the second layer's parameters
  obtain ⟨dW2, dB2, q1, q2, q3, q4, q5, q6, q7, q8⟩ := fc_in_walk_sum H3 (H.size + 16 + 8) w2 b2 (H.size + 9 + 6) (H.size + 16) N O P hdag
    ly3.2.1 hok g3 (by omega) (by omega) (by omega) h34 tw2 tb2 cw2 cb2 ca3 gw2 gb2 (fun i hi => gnew _ (by omega))
    (by omega) (by omega) (by intro i hi; omega)
    (by
      intro v _ hvk e he
      rcases hE v e he with ⟨h1, hm⟩ | ⟨i, hi, rfl, hm⟩ | ⟨i, hi, rfl, hm⟩ | ⟨i, hi, rfl, hm⟩
      · obtain ⟨_, _, a3, a4⟩ := hsole v e hm
        have := hdagH v e hm
        exact ⟨a3, a4, by omega⟩
      · interval_cases i <;> simp [fcEdges, sgEdges] at hm <;> (try rcases hm with rfl | rfl) <;> (try subst hm) <;> simp <;> omega
      · interval_cases i <;> simp [fcEdges, sgEdges] at hm <;> (try rcases hm with rfl | rfl) <;> (try subst hm) <;> simp <;> omega
      · omega)
    _ _ hG hroot f24
  -- (A) what the second layer passes to its input
  obtain ⟨dA, pA, wA, dAd, eA⟩ := fc_x_in_walk .sum H3 (H.size + 16 + 8) w2 b2 (H.size + 9 + 6) (H.size + 16) N O P hdag
    ly3.2.1 hok g3 (by omega) (by omega) (by omega) ta3 cw2 cb2 ca3 (gnew _ (by omega)) (fun i hi => gnew _ (by omega))
    (by omega) (by intro i hi; omega)
    (by
      intro v _ hvk e he
      rcases hE v e he with ⟨h1, hm⟩ | ⟨i, hi, rfl, hm⟩ | ⟨i, hi, rfl, hm⟩ | ⟨i, hi, rfl, hm⟩
      · have := hdagH v e hm
        exact ⟨by omega, by omega⟩
      · interval_cases i <;> simp [fcEdges, sgEdges] at hm <;> (try rcases hm with rfl | rfl) <;> (try subst hm) <;> simp <;> omega
      · interval_cases i <;> simp [fcEdges, sgEdges] at hm <;> (try rcases hm with rfl | rfl) <;> (try subst hm) <;> simp <;> omega
      · omega)
    _ _ hG hroot f24
  have mA := visited_of _ _ (gnew _ (by omega)) pA
  -- (B) through the activation
  have vy1 : H3.val (H.size + 8) = H1.val (H.size + 8) := by rw [val3 (H.size + 8) (by omega), val2 (H.size + 8) (by omega)]
  have pY := sigmoid_in_walk .sum H3 (H.size + 16 + 8) (H.size + 8) (H.size + 9) hdag ly3.2.1 hok
    (by rw [vy1]; exact g1.y.wf) (by omega)
    (by rw [val3 (H.size + 9 + 2) (by omega), vy1]; exact v2)
    (by rw [val3 (H.size + 9 + 3) (by omega), val3 (H.size + 9) (by omega)]; exact v3)
    (by rw [val3 (H.size + 9 + 4) (by omega), val3 (H.size + 9 + 2) (by omega)]; exact v4)
    (by rw [val3 (H.size + 9 + 5) (by omega), vy1]; exact v5)
    hc ty1 (gnew _ (by omega)) (by omega) (by intro i hi; omega)
    (by
      intro v _ hvk e he
      rcases hE v e he with ⟨h1, hm⟩ | ⟨i, hi, rfl, hm⟩ | ⟨i, hi, rfl, hm⟩ | ⟨i, hi, rfl, hm⟩
      · have := hdagH v e hm
        exact ⟨by omega, by omega⟩
      · interval_cases i <;> simp [fcEdges, sgEdges] at hm <;> (try rcases hm with rfl | rfl) <;> (try subst hm) <;> simp <;> omega
      · omega
      · interval_cases i <;> simp [fcEdges, sgEdges] at hm <;> (try rcases hm with rfl | rfl) <;> (try subst hm) <;> simp <;> omega)
    dA wA (by rw [dAd, vy1, g1.y.dims]) mA pA
  have mY := visited_of _ _ (gnew _ (by omega)) pY
  -- the gradient on y₁ as a matrix
  have GY : Is2 (gz dA (H3.val (H.size + 8)) (fun a => sig a * (1 - sig a))) N O
      (fun n o => dA.el [n, o] * (sig ((H1.val (H.size + 8)).el [n, o]) * (1 - sig ((H1.val (H.size + 8)).el [n, o])))) := by
    have wY : (H3.val (H.size + 8)).WF := by rw [vy1]; exact g1.y.wf
    have hdd : dA.dims = (H3.val (H.size + 8)).dims := by rw [dAd, vy1, g1.y.dims]
    refine ⟨gz_wf dA _ _ wY wA hdd, by rw [gz_dims, dAd], ?_⟩
    intro n o hn ho
    unfold gz
    rw [Qeep.C15y.zip_el _ dA (H3.val (H.size + 8)) wA wY hdd (by rw [dAd]; exact valid2 hn ho), vy1]
  -- (C) the first layer's parameters
  obtain ⟨dW1, dB1, p1, p2, p3, p4, p5, p6, p7, p8⟩ := fc_in_walk_sum H3 (H.size + 16 + 8) w1 b1 x H.size N D O hdag
    ly3.2.1 hok G1 hw1 hb1 hx h12 tw1 tb1 cw1 cb1 cx3 gw1 gb1 (fun i hi => gnew _ (by omega))
    (by omega) (by omega) (by intro i hi; omega)
    (by
      intro v _ hvk e he
      rcases hE v e he with ⟨h1, hm⟩ | ⟨i, hi, rfl, hm⟩ | ⟨i, hi, rfl, hm⟩ | ⟨i, hi, rfl, hm⟩
      · obtain ⟨a1, a2, _, _⟩ := hsole v e hm
        have := hdagH v e hm
        exact ⟨a1, a2, by omega⟩
      · omega
      · interval_cases i <;> simp [fcEdges, sgEdges] at hm <;> (try rcases hm with rfl | rfl) <;> (try subst hm) <;> simp <;> omega
      · interval_cases i <;> simp [fcEdges, sgEdges] at hm <;> (try rcases hm with rfl | rfl) <;> (try subst hm) <;> simp <;> omega)
    _ _ GY mY pY
  refine ⟨dW1, dB1, dW2, dB2, p1, p2, q1, q2, p3, p5, q3, q5, p4, p6, q4, q6, ?_, ?_, ?_, ?_⟩
  · intro o ho
    rw [p7 o ho]
    apply Finset.sum_congr rfl
    intro n hn
    have hn' : n < N := Finset.mem_range.mp hn
    rw [eA n o hn' ho]
    simp only [mul_one, vw2]
  · intro o ho
    rw [p8 o ho]
    apply Finset.sum_congr rfl
    intro n hn
    have hn' : n < N := Finset.mem_range.mp hn
    rw [eA n o hn' ho]
    simp only [mul_one, vw2]
  · intro p hp
    rw [q7 p hp]
    simp
  · intro p hp
    rw [q8 p hp]
    simp

end C11v
end Qeep
