import QeepProps.C11
import QeepProps.C17
import QeepProps.C01
/-!
# C11 (composition) — one training step at model level

`updateAll lr ws` is the optimizer half of a step: for every weight pointer, `Update` then `ResetGradContext(true)`.
`trainStep` is the whole step: forward pass and loss (any computation `lossOf` built from the library's operations),
`BackPropagate(loss)`, then `updateAll`.

* `updateAll_spec` — for any number of weights of any shapes whose gradients have their shapes: the step succeeds; the
  k-th replacement weight holds `w_k - lr * g_k` element-wise, where `g_k` is the gradient the back-propagation left
  on `w_k`; it is a FRESH tracked leaf (no gradient, no back edges, not spent) — nothing of the old graph is reachable
  from it; and every tensor that existed before keeps its value and its context.
* `train_step_law` — the same for the whole step, with the gradients being those of `backprop` on the heap after the
  forward pass (which `C01.backprop_adjoint` / `C01x.backprop_chain_rule` characterise as the derivative of the loss).
* `fresh_leaf_stops_walk` — a later back-propagation that reaches a replaced weight stops there: the new weight has
  no successors, so no gradient, edge or spent flag of an earlier step can be reached through it.
-/
set_option linter.unusedSimpArgs false
set_option linter.unusedSectionVars false

namespace Qeep
namespace C11x

variable {α : Type} [Scalar α]

/-- `ResetGradContext(tracked)` as a step of the heap monad -/
def hReset (n : Nat) (tracked : Bool) : HM α Unit := fun H => .ok ((), resetCtx H n tracked)

/-- optimizer half of a training step: `Update(p)` then `(*p).ResetGradContext(true)` for every weight pointer -/
def updateAll (lr : α) : List Nat → HM α (List Nat)
  | [] => pure []
  | w :: ws => do
    let r ← sgdUpdate lr (some w)
    hReset r true
    let rs ← updateAll lr ws
    pure (r :: rs)

/-- the replacement of weight value `w` by gradient `g` -/
def stepped (lr : α) (w g : Tensor α) : Tensor α :=
  ⟨w.dims, List.zipWith (fun wv gv => Scalar.sub wv (Scalar.mul lr gv)) w.data g.data⟩

def freshLeaf : Ctx α := { tracked := true, dirty := false, grad := none, edges := [] }

/-- old tensors are untouched: same size prefix, same values, same contexts -/
def Keeps (H H' : Heap α) : Prop :=
  H.size ≤ H'.size ∧ ∀ n, n < H.size → H'.val n = H.val n ∧ H'.ctx n = H.ctx n

theorem Keeps.refl (H : Heap α) : Keeps H H := ⟨Nat.le_refl _, fun _ _ => ⟨rfl, rfl⟩⟩

theorem Keeps.trans {A B C : Heap α} (h1 : Keeps A B) (h2 : Keeps B C) : Keeps A C :=
  ⟨Nat.le_trans h1.1 h2.1, fun n hn => by
    obtain ⟨a, b⟩ := h1.2 n hn
    obtain ⟨c, d⟩ := h2.2 n (Nat.lt_of_lt_of_le hn h1.1)
    exact ⟨by rw [c, a], by rw [d, b]⟩⟩

theorem keeps_of_extends {H H' : Heap α} (e : Extends H H') : Keeps H H' :=
  ⟨e.1, fun n hn => ⟨e.val hn, e.ctx hn⟩⟩

theorem keeps_reset (H : Heap α) (r : Nat) (b : Bool) (K : Heap α) (hK : K.size ≤ r) (k : Keeps K H) :
    Keeps K (resetCtx H r b) := by
  obtain ⟨s, v, c⟩ := resetCtx_frame H r b
  refine ⟨by rw [s]; exact k.1, fun n hn => ?_⟩
  obtain ⟨a, b'⟩ := k.2 n hn
  exact ⟨by rw [v, a], by rw [c n (by omega), b']⟩

/-- the replacement weight is a newly allocated tensor -/
theorem sgd_bounds (lr : α) (H H' : Heap α) (w r : Nat) (hw : w < H.size) (h : sgdUpdate lr (some w) H = .ok (r, H')) :
    H.size ≤ r ∧ r < H'.size := by
  unfold sgdUpdate at h
  simp only [] at h
  obtain ⟨g, H1, h1, h2⟩ := bind_ok h
  have x1 : Extends H H1 := frame_hGradNode w H g H1 h1
  cases g with
  | none => obtain ⟨e, _⟩ := liftOut_ok h2; cases e
  | some gn =>
    simp only [] at h2
    obtain ⟨d, H2, h3, h4⟩ := bind_ok h2
    have x2 : Extends H1 H2 := frame_hScale gn lr H1 d H2 h3
    have hd : d < H2.size := by
      unfold hScale at h3
      obtain ⟨Hx, Hx', gx, kx⟩ := bind_ok h3
      obtain ⟨ex, ex'⟩ := getHeap_ok gx
      rw [ex, ex'] at kx
      exact hOp1_size kx
    have hw2 : w < H2.size := Nat.lt_of_lt_of_le hw (Nat.le_trans x1.1 x2.1)
    obtain ⟨_, hge, hlt, _⟩ := hArith_val hw2 hd h4
    exact ⟨Nat.le_trans (Nat.le_trans x1.1 x2.1) hge, hlt⟩

/-- **the optimizer half of a step** (see the header) -/
theorem updateAll_spec (lr : α) : ∀ (ws : List Nat) (H : Heap α) (gs : List (Tensor α)),
    gs.length = ws.length →
    (∀ (k : Nat) w g, ws[k]? = some w → gs[k]? = some g →
        w < H.size ∧ H.grad w = some g ∧ (H.val w).WF ∧ g.WF ∧ g.dims = (H.val w).dims) →
    ∃ rs H', updateAll lr ws H = .ok (rs, H') ∧ rs.length = ws.length ∧ Keeps H H' ∧
      ∀ (k : Nat) w g r, ws[k]? = some w → gs[k]? = some g → rs[k]? = some r →
        H.size ≤ r ∧ r < H'.size ∧ H'.val r = stepped lr (H.val w) g ∧ H'.ctx r = freshLeaf
  | [], H, gs, _, _ => ⟨[], H, rfl, rfl, Keeps.refl H, fun k w g r hw => by simp at hw⟩
  | w :: ws, H, [], hl, _ => by simp at hl
  | w :: ws, H, g :: gs, hl, hall => by
    obtain ⟨hw, hg, wfw, wfg, hd⟩ := hall 0 w g rfl rfl
    obtain ⟨r, H1, hrun, hext, hval⟩ := C17.sgd_update lr H w g hw hg wfw wfg hd
    obtain ⟨hrge, hrlt⟩ := sgd_bounds lr H H1 w r hw hrun
    -- after the reset
    let H2 : Heap α := resetCtx H1 r true
    obtain ⟨s2, v2, c2⟩ := resetCtx_frame H1 r true
    have k2 : Keeps H H2 := keeps_reset H1 r true H hrge (keeps_of_extends hext)
    have hfresh : H2.ctx r = freshLeaf := (C08.reset_is_fresh_leaf H1 r true hrlt).1
    -- the remaining weights see the same values and gradients
    have hall' : ∀ (k : Nat) w' g', ws[k]? = some w' → gs[k]? = some g' →
        w' < H2.size ∧ H2.grad w' = some g' ∧ (H2.val w').WF ∧ g'.WF ∧ g'.dims = (H2.val w').dims := by
      intro k w' g' hw' hg'
      obtain ⟨a, b, c, d, e⟩ := hall (k + 1) w' g' (by simpa using hw') (by simpa using hg')
      obtain ⟨kv, kc⟩ := k2.2 w' a
      refine ⟨Nat.lt_of_lt_of_le a k2.1, ?_, by rw [kv]; exact c, d, by rw [kv]; exact e⟩
      unfold Heap.grad; rw [kc]; exact b
    obtain ⟨rs, H3, hrun3, hlen3, k3, hspec3⟩ := updateAll_spec lr ws H2 gs (by simpa using hl) hall'
    refine ⟨r :: rs, H3, ?_, by simp [hlen3], k2.trans k3, ?_⟩
    · unfold updateAll
      simp only [bind, StateT.bind, hrun, hReset, pure, StateT.pure, Out.bind]
      show (updateAll lr ws H2).bind _ = _
      rw [hrun3]
      rfl
    · intro k w' g' r' hw' hg' hr'
      cases k with
      | zero =>
        simp only [List.getElem?_cons_zero, Option.some.injEq] at hw' hg' hr'
        subst hw' hg' hr'
        have hr2 : r < H2.size := by rw [s2]; exact hrlt
        obtain ⟨kv, kc⟩ := k3.2 r hr2
        refine ⟨hrge, Nat.lt_of_lt_of_le hr2 k3.1, ?_, by rw [kc]; exact hfresh⟩
        rw [kv, v2 r, hval]; rfl
      | succ k =>
        simp only [List.getElem?_cons_succ] at hw' hg' hr'
        obtain ⟨a, b, c, d⟩ := hspec3 k w' g' r' hw' hg' hr'
        obtain ⟨wlt, _, _, _, _⟩ := hall (k + 1) w' g' (by simpa using hw') (by simpa using hg')
        refine ⟨Nat.le_trans k2.1 a, b, ?_, d⟩
        rw [c, (k2.2 w' wlt).1]

/-- one whole training step: forward + loss (`lossOf`), `BackPropagate(loss)`, then `Update` + `ResetGradContext(true)`
    for every weight -/
def trainStep (bm : BMode) (lr : α) (lossOf : HM α Nat) (ws : List Nat) : HM α (List Nat) := fun H =>
  match lossOf H with
  | .ok (l, H1) =>
    match (backprop bm H1 l).status with
    | .ok _ => updateAll lr ws (backprop bm H1 l).heap
    | .err => .err
    | .panic => .panic
  | .err => .err
  | .panic => .panic

/-- **one training step** (see the header): the gradients are those `backprop` leaves on the weights in the heap after
    the forward pass; values are read in that heap (`backprop` changes no value). -/
theorem train_step_law (bm : BMode) (lr : α) (lossOf : HM α Nat) (ws : List Nat) (H H1 : Heap α) (l : Nat)
    (hfwd : lossOf H = .ok (l, H1)) (hbp : (backprop bm H1 l).status = .ok ())
    (gs : List (Tensor α)) (hl : gs.length = ws.length)
    (hall : ∀ (k : Nat) w g, ws[k]? = some w → gs[k]? = some g →
        w < H1.size ∧ (backprop bm H1 l).heap.grad w = some g ∧ (H1.val w).WF ∧ g.WF ∧ g.dims = (H1.val w).dims) :
    ∃ rs H', trainStep bm lr lossOf ws H = .ok (rs, H') ∧ rs.length = ws.length ∧ Keeps (backprop bm H1 l).heap H' ∧
      ∀ (k : Nat) w g r, ws[k]? = some w → gs[k]? = some g → rs[k]? = some r →
        H1.size ≤ r ∧ H'.val r = stepped lr (H1.val w) g ∧ H'.ctx r = freshLeaf := by
  have hsize : (backprop bm H1 l).heap.size = H1.size := (backprop_val bm H1 l 0).2
  have hall' : ∀ (k : Nat) w g, ws[k]? = some w → gs[k]? = some g →
      w < (backprop bm H1 l).heap.size ∧ (backprop bm H1 l).heap.grad w = some g ∧
      ((backprop bm H1 l).heap.val w).WF ∧ g.WF ∧ g.dims = ((backprop bm H1 l).heap.val w).dims := by
    intro k w g hw hg
    obtain ⟨a, b, c, d, e⟩ := hall k w g hw hg
    rw [(backprop_val bm H1 l w).1]
    exact ⟨by rw [hsize]; exact a, b, c, d, e⟩
  obtain ⟨rs, H', hrun, hlen, hk, hspec⟩ := updateAll_spec lr ws (backprop bm H1 l).heap gs hl hall'
  refine ⟨rs, H', ?_, hlen, hk, ?_⟩
  · unfold trainStep
    simp only [hfwd, hbp]
    exact hrun
  · intro k w g r hw hg hr
    obtain ⟨a, _, c, d⟩ := hspec k w g r hw hg hr
    rw [(backprop_val bm H1 l w).1] at c
    exact ⟨by rw [← hsize]; exact a, c, d⟩

/-- **a replaced weight is where any later walk stops**: it has no successors, so from it no gradient, back edge or
    spent flag of an earlier step is reachable; a back-propagation rooted at it visits it alone -/
theorem fresh_leaf_stops_walk (H : Heap α) (r : Nat) (h : H.ctx r = freshLeaf) :
    succs H r = [] ∧ backwardOrder H r = [r] ∧ H.grad r = none ∧ H.dirty r = false := by
  have hs : succs H r = [] := by simp [succs, h, freshLeaf]
  refine ⟨hs, ?_, by simp [Heap.grad, h, freshLeaf], by simp [Heap.dirty, h, freshLeaf]⟩
  have ht : H.tracked r = true := by simp [Heap.tracked, h, freshLeaf]
  unfold backwardOrder
  simp only [ht, if_true]
  unfold visit
  simp [hs]

/-- non-vacuity (kernel-checked on `Int`): two weights with gradients; the step replaces both by fresh leaves holding
    `w - lr * g` -/
def Hex : Heap Int := #[⟨⟨[2], [10, 20]⟩, { tracked := true, dirty := true, grad := some ⟨[2], [1, 3]⟩ }⟩,
                         ⟨⟨[], [5]⟩, { tracked := true, dirty := true, grad := some ⟨[], [2]⟩ }⟩]

def probe : List (List Int × Bool × Bool × Nat × Bool) :=
  match updateAll (2 : Int) [0, 1] Hex with
  | .ok (rs, H') => rs.map (fun r => ((H'.val r).data, (H'.ctx r).tracked, (H'.ctx r).dirty, (H'.ctx r).edges.length, (H'.grad r).isSome))
  | _ => []

set_option maxRecDepth 4000 in
example : probe = [([8, 14], true, false, 0, false), ([1], true, false, 0, false)] := by decide

end C11x
end Qeep
