import QeepProps.C11u
import QeepProps.C11t
import Mathlib.Tactic.IntervalCases
/-!
# C11 — the training LOOP of the two-layer network FC → Sigmoid → FC: every step succeeds, for every number of steps

`MLPInv`: the state before a step — reachable heap; four distinct parameter tensors that are tracked, unspent leaves of shapes
`[O], [O], [P], [P]` and that no tensor of the heap points at; an untracked, unspent `[N, D]` input. `mlp_step_inv`: one step
(forward through both layers, `BackPropagate`, `Update` + `ResetGradContext(true)` of the four parameters) succeeds and ends
in such a state again, with the input unchanged. `mlp_training_loop`: by induction any number of steps succeeds. What each
step does to the parameters is `mlp_train_step_leaf` (gradient descent on `Σ y₂` with the chain-rule derivatives; the
derivatives depend on the current parameters, so there is no closed form over `n` steps as there is for the single layer).
-/
set_option linter.unusedSimpArgs false
set_option linter.unusedSectionVars false
set_option linter.unusedVariables false

namespace Qeep
namespace C11s
open RealScalar C01 C11x C11t C11u C11w C16x C16z C16w C15x C15w

structure MLPInv (H : Heap ℝ) (w1 b1 w2 b2 x N D O P : Nat) : Prop where
  reach : Reach .sum H
  lw1 : Live H w1
  lb1 : Live H b1
  lw2 : Live H w2
  lb2 : Live H b2
  hx : x < H.size
  cx : H.dirty x = false
  ux : H.tracked x = false
  h12 : w1 ≠ b1
  h34 : w2 ≠ b2
  h13 : w1 ≠ w2
  h14 : w1 ≠ b2
  h23 : b1 ≠ w2
  h24 : b1 ≠ b2
  ww1 : (H.val w1).WF
  wb1 : (H.val b1).WF
  ww2 : (H.val w2).WF
  wb2 : (H.val b2).WF
  wx : (H.val x).WF
  dw1 : (H.val w1).dims = [O]
  db1 : (H.val b1).dims = [O]
  dw2 : (H.val w2).dims = [P]
  db2 : (H.val b2).dims = [P]
  dx : (H.val x).dims = [N, D]
  lf1 : (H.ctx w1).edges = []
  lf2 : (H.ctx b1).edges = []
  lf3 : (H.ctx w2).edges = []
  lf4 : (H.ctx b2).edges = []
  hsole : ∀ v, ∀ e ∈ (H.ctx v).edges, e.target ≠ w1 ∧ e.target ≠ b1 ∧ e.target ≠ w2 ∧ e.target ≠ b2

/-- every member of a walk is tracked -/
theorem order_tracked (H : Heap ℝ) (root : Nat) (hdag : HeapDag H) (n : Nat) (hn : n ∈ backwardOrder H root) :
    H.tracked n = true := by
  rcases C20.order_members_tracked H root hdag n hn with rfl | ⟨u, _, hs⟩
  · unfold backwardOrder at hn
    split at hn
    · assumption
    · simp at hn
  · unfold succs at hs
    exact by simpa using (List.mem_filter.mp hs).2

/-- the optimizer half keeps the heap reachable -/
theorem reach_updateAll {bm : BMode} (lr : ℝ) : ∀ (ws : List Nat) (H H' : Heap ℝ) (rs : List Nat), Reach bm H →
    (∀ w ∈ ws, w < H.size) → updateAll lr ws H = .ok (rs, H') → Reach bm H'
  | [], H, H', rs, hR, _, h => by
    unfold updateAll at h
    have e : (pure ([] : List Nat) : HM ℝ (List Nat)) H = .ok ([], H) := rfl
    rw [e] at h; injection h with h; injection h with _ h2; subst h2; exact hR
  | w :: ws, H, H', rs, hR, hws, h => by
    unfold updateAll at h
    obtain ⟨r, Ha, u1, h⟩ := bind_ok h
    obtain ⟨_, H2, k1, h⟩ := bind_ok h
    have e2 : H2 = resetCtx Ha r true := by
      unfold hReset at k1; injection k1 with k1; injection k1 with _ k1; exact k1.symm
    obtain ⟨rs', Hz, u2, h⟩ := bind_ok h
    have ez : (pure (r :: rs') : HM ℝ (List Nat)) Hz = .ok (r :: rs', Hz) := rfl
    rw [ez] at h; injection h with h; injection h with _ h2; subst h2
    have hw : w < H.size := hws w (by simp)
    have xa : Extends H Ha := frame_sgdUpdate lr (some w) H r Ha u1
    obtain ⟨s2, _, _⟩ := resetCtx_frame Ha r true
    subst e2
    have Ra : Reach bm Ha := reach_sgdUpdate hR hw u1
    exact reach_updateAll lr ws (resetCtx Ha r true) Hz rs' (Reach.reset Ra)
      (fun w' hw' => by rw [s2]; have := hws w' (by simp [hw']); have := xa.1; omega) u2

/-- the new weights are newer than everything before and come in increasing order -/
theorem updateAll_sorted (lr : ℝ) : ∀ (ws : List Nat) (H H' : Heap ℝ) (rs : List Nat), (∀ w ∈ ws, w < H.size) →
    updateAll lr ws H = .ok (rs, H') → rs.Pairwise (· < ·) ∧ ∀ r ∈ rs, H.size ≤ r
  | [], H, H', rs, _, h => by
    unfold updateAll at h
    have e : (pure ([] : List Nat) : HM ℝ (List Nat)) H = .ok ([], H) := rfl
    rw [e] at h; injection h with h; injection h with h1 _; subst h1; simp
  | w :: ws, H, H', rs, hws, h => by
    unfold updateAll at h
    obtain ⟨r, Ha, u1, h⟩ := bind_ok h
    obtain ⟨_, H2, k1, h⟩ := bind_ok h
    have e2 : H2 = resetCtx Ha r true := by
      unfold hReset at k1; injection k1 with k1; injection k1 with _ k1; exact k1.symm
    obtain ⟨rs', Hz, u2, h⟩ := bind_ok h
    have ez : (pure (r :: rs') : HM ℝ (List Nat)) Hz = .ok (r :: rs', Hz) := rfl
    rw [ez] at h; injection h with h; injection h with h1 _; subst h1
    have hw : w < H.size := hws w (by simp)
    have xa : Extends H Ha := frame_sgdUpdate lr (some w) H r Ha u1
    obtain ⟨b1, b2⟩ := sgd_bounds lr H Ha w r hw u1
    obtain ⟨s2, _, _⟩ := resetCtx_frame Ha r true
    subst e2
    obtain ⟨p1, p2⟩ := updateAll_sorted lr ws (resetCtx Ha r true) Hz rs'
      (fun w' hw' => by rw [s2]; have := hws w' (by simp [hw']); have := xa.1; omega) u2
    refine ⟨List.pairwise_cons.mpr ⟨fun r' hr' => by have := p2 r' hr'; rw [s2] at this; omega, p1⟩, ?_⟩
    intro r' hr'
    rcases List.mem_cons.mp hr' with rfl | h'
    · exact b1
    · have := p2 r' h'; rw [s2] at this; have := xa.1; omega

/-- **one step of the two-layer training loop keeps the loop's invariant** -/
theorem mlp_step_inv (lr : ℝ) {H : Heap ℝ} {w1 b1 w2 b2 x N D O P : Nat} (inv : MLPInv H w1 b1 w2 b2 x N D O P) :
    ∃ r1 r2 r3 r4 H', trainStep .sum lr (mlpForward w1 b1 w2 b2 x) [w1, b1, w2, b2] H = .ok ([r1, r2, r3, r4], H') ∧
      MLPInv H' r1 r2 r3 r4 x N D O P ∧ H'.val x = H.val x := by
  obtain ⟨hR, lw1, lb1, lw2, lb2, hx, cx, ux, h12, h34, h13, h14, h23, h24, ww1, wb1, ww2, wb2, wx, dw1, db1, dw2, db2, dx,
    lf1, lf2, lf3, lf4, hsole⟩ := inv
  obtain ⟨H1, H2, H3, q1, q2, q3, hav, hok, dW1, dB1, dW2, dB2, g1, g2, g3, g4, f1, f2, f3, f4, d1, d2, d3, d4, _⟩ :=
    mlp_backprop_leaf H w1 b1 w2 b2 x N D O P hR lw1 lb1 lw2 lb2 hx cx ux h12 h34 h13 h14 h23 h24 ww1 wb1 ww2 wb2 wx
      dw1 db1 dw2 db2 dx lf1 lf2 lf3 lf4 hsole
  have x1 : Extends H H1 := frame_fcForward _ _ H _ H1 q1
  have x2 : Extends H1 H2 := frame_actForward _ _ H1 _ H2 q2
  have x3 : Extends H2 H3 := frame_fcForward _ _ H2 _ H3 q3
  have xe : Extends H H3 := (x1.trans x2).trans x3
  have hfwd : mlpForward w1 b1 w2 b2 x H = .ok (H.size + 16 + 8, H3) := by
    unfold mlpForward
    rw [bind_run q1, bind_run q2]
    exact q3
  have vH : ∀ n, n < H.size → H3.val n = H.val n := fun n hn => xe.val hn
  have cH : ∀ n, n < H.size → H3.ctx n = H.ctx n := fun n hn => xe.ctx hn
  have hs3 := xe.1
  obtain ⟨rs, H', hstep, hlen, _, hspec⟩ := train_step_law .sum lr (mlpForward w1 b1 w2 b2 x) [w1, b1, w2, b2] H H3
    (H.size + 16 + 8) hfwd hok [dW1, dB1, dW2, dB2] rfl (by
      intro k w' g hk hg
      match k, hk, hg with
      | 0, hk, hg =>
        simp at hk hg; subst hk hg
        exact ⟨by have := lw1.1; omega, g1, by rw [vH _ lw1.1]; exact ww1, f1, by rw [vH _ lw1.1, d1, dw1]⟩
      | 1, hk, hg =>
        simp at hk hg; subst hk hg
        exact ⟨by have := lb1.1; omega, g2, by rw [vH _ lb1.1]; exact wb1, f2, by rw [vH _ lb1.1, d2, db1]⟩
      | 2, hk, hg =>
        simp at hk hg; subst hk hg
        exact ⟨by have := lw2.1; omega, g3, by rw [vH _ lw2.1]; exact ww2, f3, by rw [vH _ lw2.1, d3, dw2]⟩
      | 3, hk, hg =>
        simp at hk hg; subst hk hg
        exact ⟨by have := lb2.1; omega, g4, by rw [vH _ lb2.1]; exact wb2, f4, by rw [vH _ lb2.1, d4, db2]⟩
      | k + 4, hk, _ => simp at hk)
  -- reachability of the heap after the forward pass
  have R3 : Reach .sum H3 := by
    obtain ⟨H1', r1', x1', s1, gg1⟩ := fc_forward_graph N D O w1 b1 x H lw1.1 lb1.1 hx _ _ _
      (is1_self _ ww1 O dw1) (is1_self _ wb1 O db1) (is2_self _ wx N D dx)
    have e1 := (run_unique q1 r1').2; subst e1
    have R1 : Reach .sum H1 := reach_fcForward hR lw1.1 lb1.1 hx q1
    have flag1 : ∀ n, n < H.size → H1.ctx n = H.ctx n := fun n hn => x1.ctx hn
    have ly1 : Live H1 (H.size + 8) := fc_result_live gg1 (by omega)
      (by have := lw1.2.1; simp only [Heap.tracked, flag1 w1 lw1.1] at this ⊢; exact this)
      (by have := lb1.2.1; simp only [Heap.tracked, flag1 b1 lb1.1] at this ⊢; exact this)
      (by have := lw1.2.2; simp only [Heap.dirty, flag1 w1 lw1.1] at this ⊢; exact this)
      (by have := lb1.2.2; simp only [Heap.dirty, flag1 b1 lb1.1] at this ⊢; exact this)
      (by simp only [Heap.dirty, flag1 x hx] at cx ⊢; exact cx)
    obtain ⟨a, H2', r2', _, R2, _⟩ := C15z.sigmoid_full .sum H1 (H.size + 8) R1 gg1.y.wf ly1
    have e2 := (run_unique q2 r2').2; subst e2
    exact reach_fcForward R2 (by have := lw2.1; have := x1.1; have := x2.1; omega)
      (by have := lb2.1; have := x1.1; have := x2.1; omega) (by have := x2.1; have := s1; omega) q3
  have hdag3 := reach_dag R3
  -- the optimizer half
  have hrun := hstep
  unfold trainStep at hrun
  simp only [hfwd, hok] at hrun
  have Rb : Reach .sum (backprop .sum H3 (H.size + 16 + 8)).heap := Reach.backprop R3
  have sb : (backprop .sum H3 (H.size + 16 + 8)).heap.size = H3.size := (backprop_val .sum H3 (H.size + 16 + 8) 0).2
  have hws : ∀ w ∈ [w1, b1, w2, b2], w < (backprop .sum H3 (H.size + 16 + 8)).heap.size := by
    intro w hw
    rw [sb]
    simp at hw
    have := lw1.1; have := lb1.1; have := lw2.1; have := lb2.1
    rcases hw with rfl | rfl | rfl | rfl <;> omega
  have R' : Reach .sum H' := reach_updateAll lr _ _ H' rs Rb hws hrun
  obtain ⟨hpw, hge⟩ := updateAll_sorted lr _ _ H' rs hws hrun
  -- the four weights are spent after the walk (each received a gradient, so each was visited)
  have clean3 : ∀ n, n < H.size → H.dirty n = false → H3.grad n = none := by
    intro n hn hc
    have := reach_clean_nograd hR n hc
    simp only [Heap.grad, cH n hn] at this ⊢; exact this
  have visited_of : ∀ n g, H3.grad n = none → (backprop .sum H3 (H.size + 16 + 8)).heap.grad n = some g →
      n ∈ backwardOrder H3 (H.size + 16 + 8) := by
    intro n g hn hg
    apply Classical.byContradiction
    intro hnot
    have := C20.backprop_footprint .sum H3 (H.size + 16 + 8) hdag3 n hnot
    simp only [Heap.grad, this] at hg hn
    rw [hn] at hg; cases hg
  have htr3 : H3.tracked (H.size + 16 + 8) = true := by
    have m := visited_of w1 dW1 (clean3 w1 lw1.1 lw1.2.2) g1
    unfold backwardOrder at m
    split at m
    · assumption
    · simp at m
  have hdirty : ∀ w ∈ [w1, b1, w2, b2], w < (backprop .sum H3 (H.size + 16 + 8)).heap.size ∧
      (backprop .sum H3 (H.size + 16 + 8)).heap.dirty w = true := by
    intro w hw
    refine ⟨hws w hw, ?_⟩
    simp at hw
    rcases hw with rfl | rfl | rfl | rfl
    · exact C08.bp_marks_spent .sum H3 _ htr3 _ (visited_of _ dW1 (clean3 _ lw1.1 lw1.2.2) g1) (by have := lw1.1; omega)
    · exact C08.bp_marks_spent .sum H3 _ htr3 _ (visited_of _ dB1 (clean3 _ lb1.1 lb1.2.2) g2) (by have := lb1.1; omega)
    · exact C08.bp_marks_spent .sum H3 _ htr3 _ (visited_of _ dW2 (clean3 _ lw2.1 lw2.2.2) g3) (by have := lw2.1; omega)
    · exact C08.bp_marks_spent .sum H3 _ htr3 _ (visited_of _ dB2 (clean3 _ lb2.1 lb2.2.2) g4) (by have := lb2.1; omega)
  have noedge := updateAll_no_edges lr _ _ H' rs hdirty hrun
  obtain ⟨hsz', old⟩ := updateAll_old lr _ _ H' rs hws hrun
  match rs, hlen with
  | [r1, r2, r3, r4], _ =>
    obtain ⟨_, v1, c1⟩ := hspec 0 w1 dW1 r1 rfl rfl rfl
    obtain ⟨_, v2, c2⟩ := hspec 1 b1 dB1 r2 rfl rfl rfl
    obtain ⟨_, v3, c3⟩ := hspec 2 w2 dW2 r3 rfl rfl rfl
    obtain ⟨_, v4, c4⟩ := hspec 3 b2 dB2 r4 rfl rfl rfl
    rw [vH _ lw1.1] at v1; rw [vH _ lb1.1] at v2; rw [vH _ lw2.1] at v3; rw [vH _ lb2.1] at v4
    obtain ⟨l1, e1, _⟩ := freshLeaf_live c1
    obtain ⟨l2, e2, _⟩ := freshLeaf_live c2
    obtain ⟨l3, e3, _⟩ := freshLeaf_live c3
    obtain ⟨l4, e4, _⟩ := freshLeaf_live c4
    simp only [List.pairwise_cons, List.mem_cons, List.mem_singleton, List.not_mem_nil, or_false, forall_eq_or_imp, forall_eq,
      List.Pairwise.nil, and_true, IsEmpty.forall_iff, implies_true] at hpw
    have ge1 := hge r1 (by simp); have ge2 := hge r2 (by simp); have ge3 := hge r3 (by simp); have ge4 := hge r4 (by simp)
    rw [sb] at ge1 ge2 ge3 ge4 hsz'
    -- the input is untouched
    have hx3 : x < H3.size := by omega
    have ux3 : H3.tracked x = false := by simp only [Heap.tracked, cH x hx] at ux ⊢; exact ux
    have hxn : x ∉ backwardOrder H3 (H.size + 16 + 8) := by
      intro hm
      have := order_tracked H3 _ hdag3 x hm
      rw [ux3] at this; cases this
    have cxb : (backprop .sum H3 (H.size + 16 + 8)).heap.ctx x = H3.ctx x := C20.backprop_footprint .sum H3 _ hdag3 x hxn
    obtain ⟨oc, ov⟩ := old x (by rw [sb]; exact hx3)
    have cx' : H'.ctx x = H.ctx x := by rw [oc, cxb, cH x hx]
    have vx' : H'.val x = H.val x := by rw [ov, (backprop_val .sum H3 (H.size + 16 + 8) x).1, vH x hx]
    refine ⟨r1, r2, r3, r4, H', hstep, ?_, vx'⟩
    refine ⟨R', l1, l2, l3, l4, by omega, ?_, ?_, by omega, by omega, by omega, by omega, by omega, by omega,
      ?_, ?_, ?_, ?_, by rw [vx']; exact wx, by rw [v1]; exact dw1, by rw [v2]; exact db1, by rw [v3]; exact dw2,
      by rw [v4]; exact db2, by rw [vx']; exact dx, e1, e2, e3, e4, ?_⟩
    · simp only [Heap.dirty, cx'] at cx ⊢; exact cx
    · simp only [Heap.tracked, cx'] at ux ⊢; exact ux
    · rw [v1]; exact zip_wf _ (H.val w1) dW1 ww1 f1 (by rw [dw1, d1])
    · rw [v2]; exact zip_wf _ (H.val b1) dB1 wb1 f2 (by rw [db1, d2])
    · rw [v3]; exact zip_wf _ (H.val w2) dW2 ww2 f3 (by rw [dw2, d3])
    · rw [v4]; exact zip_wf _ (H.val b2) dB2 wb2 f4 (by rw [db2, d4])
    · -- nobody points at the new parameters
      intro v e he
      by_cases hv : v < H3.size
      · rw [(old v (by rw [sb]; exact hv)).1] at he
        have := reach_dag Rb v e he
        refine ⟨by omega, by omega, by omega, by omega⟩
      · rw [noedge v (by rw [sb]; omega)] at he; simp at he

/-- `n` steps of the two-layer training loop: each step hands the NEW parameter tensors to the next -/
noncomputable def steps (lr : ℝ) (x : Nat) : Nat → Nat × Nat × Nat × Nat → HM ℝ (Nat × Nat × Nat × Nat)
  | 0, ps => pure ps
  | n + 1, (w1, b1, w2, b2) => fun H =>
      match trainStep .sum lr (mlpForward w1 b1 w2 b2 x) [w1, b1, w2, b2] H with
      | .ok ([r1, r2, r3, r4], H') => steps lr x n (r1, r2, r3, r4) H'
      | .ok _ => .err
      | .err => .err
      | .panic => .panic

/-- **the whole loop**: from a state satisfying `MLPInv`, ANY number of training steps of the two-layer network succeeds, ends in
    such a state and leaves the input as it was (every single step is the gradient-descent step of `mlp_train_step_leaf`) -/
theorem mlp_training_loop (lr : ℝ) (x N D O P : Nat) : ∀ (n : Nat) (H : Heap ℝ) (w1 b1 w2 b2 : Nat),
    MLPInv H w1 b1 w2 b2 x N D O P →
    ∃ w1' b1' w2' b2' H', steps lr x n (w1, b1, w2, b2) H = .ok ((w1', b1', w2', b2'), H') ∧
      MLPInv H' w1' b1' w2' b2' x N D O P ∧ H'.val x = H.val x
  | 0, H, w1, b1, w2, b2, inv => ⟨w1, b1, w2, b2, H, rfl, inv, rfl⟩
  | n + 1, H, w1, b1, w2, b2, inv => by
    obtain ⟨r1, r2, r3, r4, H1, hstep, inv1, vx⟩ := mlp_step_inv lr inv
    obtain ⟨w1', b1', w2', b2', H', hrun, inv', vx'⟩ := mlp_training_loop lr x N D O P n H1 r1 r2 r3 r4 inv1
    refine ⟨w1', b1', w2', b2', H', ?_, inv', by rw [vx', vx]⟩
    show (match trainStep .sum lr (mlpForward w1 b1 w2 b2 x) [w1, b1, w2, b2] H with
        | .ok ([r1, r2, r3, r4], H') => steps lr x n (r1, r2, r3, r4) H'
        | .ok _ => .err
        | .err => .err
        | .panic => .panic) = _
    rw [hstep]
    exact hrun

/-- the invariant is satisfiable: `W₁ = [3, 4]`, `B₁ = [0, 1]`, `W₂ = [2]`, `B₂ = [5]` tracked leaves, `x = [[1, 2, 5]]` untracked -/
example : ∃ (H : Heap ℝ) (w1 b1 w2 b2 x N D O P : Nat), MLPInv H w1 b1 w2 b2 x N D O P := by
  let H0 : Heap ℝ := #[⟨⟨[2], [3, 4]⟩, freshCtx true⟩]
  let H1 : Heap ℝ := H0.push ⟨⟨[2], [0, 1]⟩, freshCtx true⟩
  let H2 : Heap ℝ := H1.push ⟨⟨[1], [2]⟩, freshCtx true⟩
  let H3 : Heap ℝ := H2.push ⟨⟨[1], [5]⟩, freshCtx true⟩
  let H4 : Heap ℝ := H3.push ⟨⟨[1, 3], [1, 2, 5]⟩, freshCtx false⟩
  have r0 : Reach .sum H0 := Reach.leaf (v := ⟨[2], [3, 4]⟩) (b := true) (r := 0) Reach.empty rfl
  have r1 : Reach .sum H1 := Reach.leaf (v := ⟨[2], [0, 1]⟩) (b := true) (r := 1) r0 rfl
  have r2 : Reach .sum H2 := Reach.leaf (v := ⟨[1], [2]⟩) (b := true) (r := 2) r1 rfl
  have r3 : Reach .sum H3 := Reach.leaf (v := ⟨[1], [5]⟩) (b := true) (r := 3) r2 rfl
  have r4 : Reach .sum H4 := Reach.leaf (v := ⟨[1, 3], [1, 2, 5]⟩) (b := false) (r := 4) r3 rfl
  have hed : ∀ v, (H4.ctx v).edges = [] := by
    intro v
    by_cases h5 : v < 5
    · interval_cases v <;> simp [H4, H3, H2, H1, H0, Heap.ctx, freshCtx]
    · exact C16z.ctx_beyond H4 v (by simp [H4, H3, H2, H1, H0]; omega)
  have lv : ∀ k, k < 4 → Live H4 k := by
    intro k hk
    interval_cases k <;>
      exact ⟨by simp [H4, H3, H2, H1, H0], by simp [H4, H3, H2, H1, H0, Heap.tracked, Heap.ctx, freshCtx],
        by simp [H4, H3, H2, H1, H0, Heap.dirty, Heap.ctx, freshCtx]⟩
  have wf : ∀ k, k < 5 → (H4.val k).WF := by
    intro k hk
    interval_cases k <;>
      exact ⟨by simp [H4, H3, H2, H1, H0, Heap.val, prod], by intro d hd; simp [H4, H3, H2, H1, H0, Heap.val] at hd; omega⟩
  exact ⟨H4, 0, 1, 2, 3, 4, 1, 3, 2, 1, r4, lv 0 (by omega), lv 1 (by omega), lv 2 (by omega), lv 3 (by omega),
    by simp [H4, H3, H2, H1, H0], by simp [H4, H3, H2, H1, H0, Heap.dirty, Heap.ctx, freshCtx],
    by simp [H4, H3, H2, H1, H0, Heap.tracked, Heap.ctx, freshCtx], by omega, by omega, by omega, by omega, by omega, by omega,
    wf 0 (by omega), wf 1 (by omega), wf 2 (by omega), wf 3 (by omega), wf 4 (by omega), rfl, rfl, rfl, rfl, rfl,
    hed 0, hed 1, hed 2, hed 3, fun v e he => by rw [hed v] at he; simp at he⟩

end C11s
end Qeep
