import QeepProps.C15z
import QeepProps.C01p
/-!
# C15 / C02 — on a leaf input `BackPropagate` of an activation's result SUCCEEDS and stores the derivative

The end-to-end theorems of `C15z` keep "BackPropagate returned no error" as a hypothesis because the walk continues into
whatever the input was computed from. For an input that is a leaf (no back edges: a parameter, a data tensor, a tensor
after `ResetGradContext`) the walk is over the component's own tensors, every rule on it succeeds on a gradient of the
input's shape, and `C01p.backprop_ok` gives success outright.
-/
set_option linter.unusedSimpArgs false
set_option linter.unusedSectionVars false
set_option linter.unusedVariables false

namespace Qeep
namespace C15w
open RealScalar C15x C15z C01 C01x C01z C01w C01p C20

theorem shaped_add_ok (ds : List Nat) (a b : Tensor ℝ) (ha : Shaped ds a) (hb : Shaped ds b) :
    ∃ s, vArith .add a b = .ok s ∧ Shaped ds s := by
  have hd : a.dims = b.dims := by rw [ha.2, hb.2]
  have h := vArith_same .add a b ha.1 hb.1 hd
  exact ⟨_, h, (shaped_add ds a b _ ha hb h).1⟩

theorem shaped_gz (X gy : Tensor ℝ) (wX : X.WF) (h : Shaped X.dims gy) : gz gy X (fun _ => 1) = gy :=
  gz_one gy X wX h.1 h.2

theorem run_unique {β : Type} {m : HM ℝ β} {H : Heap ℝ} {r1 r2 : β} {H1 H2 : Heap ℝ}
    (h1 : m H = .ok (r1, H1)) (h2 : m H = .ok (r2, H2)) : r1 = r2 ∧ H1 = H2 := by
  rw [h1] at h2
  injection h2 with h2
  injection h2 with a b
  exact ⟨a, b⟩

/-- **Tanh on a leaf**: `BackPropagate` succeeds and `x.Gradient()` is `cosh(x)⁻²` -/
theorem tanh_backprop_leaf (bm : BMode) (H : Heap ℝ) (x : Nat) (hR : Reach bm H) (hwf : (H.val x).WF) (l : Live H x)
    (hleaf : (H.ctx x).edges = []) :
    ∃ r H', actForward Activation.tanh [some x] H = .ok (r, H') ∧ (backprop bm H' r).status = .ok () ∧
      (backprop bm H' r).heap.grad x = some ⟨(H.val x).dims, (H.val x).data.map (fun a => (Real.cosh a) ^ (-2 : ℝ))⟩ := by
  obtain ⟨r, H', hrun, vr, himp⟩ := tanh_backprop bm H x hR hwf l
  have hok : (backprop bm H' r).status = .ok () := by
    have h := hrun
    unfold actForward at h
    rw [bind_run (show (liftOut (oneInput [some x]) : HM ℝ Nat) H = .ok (x, H) from rfl)] at h
    simp only [] at h
    obtain ⟨_, e1, cr, lr⟩ := hUnary_live h l
    obtain ⟨ir, _⟩ := hUnary_id h
    have hR' : Reach bm H' := Reach.unary hR l.1 h
    subst ir
    have hdag := reach_dag hR'
    have hxN : x < H.size := l.1
    have cr' : H'.ctx H.size = liveCtx [⟨x, .tanhX x⟩] := cr
    obtain ⟨g0, t0, e0⟩ := liveCtx_grad H' _ _ cr'
    have ex : (H'.ctx x).edges = [] := by rw [e1.ctx hxN]; exact hleaf
    have gx : H'.grad x = none := by
      have := reach_clean_nograd hR x l.2.2
      simp only [Heap.grad, e1.ctx hxN] at this ⊢; exact this
    have hM : ∀ v ∈ backwardOrder H' H.size, v = H.size ∨ v = x := by
      apply order_subset H' H.size
      · left; rfl
      · intro u hu v hv
        obtain ⟨e, he, rfl⟩ := mem_succs_edge H' u v hv
        rcases hu with rfl | rfl
        · rw [e0] at he; simp at he; subst he; simp
        · rw [ex] at he; simp at he
    let X := H.val x
    have hvx : ∀ ns, (markDirty H' ns).val x = X := fun ns => by rw [markDirty_val, e1.val hxN]
    apply backprop_ok bm H' H.size hdag t0 (fun _ g => Shaped X.dims g)
      (fun n a b ha hb => shaped_add_ok X.dims a b ha hb)
    · intro n hn g hg
      rcases hM n hn with rfl | rfl
      · rw [g0] at hg; cases hg
      · rw [gx] at hg; cases hg
    · have := ones_shaped (H'.val H.size) (by rw [vr]; exact map_wf _ _ hwf)
      rw [vr] at this ⊢
      exact this
    · intro u hu e he ht gy hgy
      rcases hM u hu with rfl | rfl
      · rw [e0] at he; simp at he; subst he
        have wX1 : ((markDirty H' (backwardOrder H' H.size)).val x).WF := by rw [hvx]; exact hwf
        have hd1 : gy.dims = ((markDirty H' (backwardOrder H' H.size)).val x).dims := by rw [hvx]; exact hgy.2
        refine ⟨_, (C15.tanh_local_vjp bm _ x gy wX1 hgy.1 hd1).1, ⟨⟨?_, hgy.1.2⟩, hgy.2⟩⟩
        have hl : gy.data.length = ((markDirty H' (backwardOrder H' H.size)).val x).data.length := by
          rw [hgy.1.1, wX1.1, hd1]
        simp only [List.length_zipWith, hl, Nat.min_self]; rw [← hl]; exact hgy.1.1
      · rw [ex] at he; simp at he
  exact ⟨r, H', hrun, hok, himp hok⟩

/-- a rule result for an arbitrary gradient of the input's shape, from the `gz` calculus -/
theorem via_gz {bm : BMode} {Hm : Heap ℝ} {X gy : Tensor ℝ} {r : Rule ℝ} {φ : ℝ → ℝ} (wX : X.WF) (h : Shaped X.dims gy)
    (hr : evalRule bm Hm (gz gy X (fun _ => 1)) r = .ok (gz gy X φ)) :
    ∃ g, evalRule bm Hm gy r = .ok g ∧ Shaped X.dims g := by
  rw [shaped_gz X gy wX h] at hr
  exact ⟨_, hr, ⟨gz_wf gy X φ wX h.1 h.2, h.2⟩⟩

/-- **Sigmoid on a leaf**: `BackPropagate` succeeds and `x.Gradient()` is `s(x)(1 − s(x))` -/
theorem sigmoid_backprop_leaf (bm : BMode) (H : Heap ℝ) (x : Nat) (hR : Reach bm H) (hwf : (H.val x).WF) (l : Live H x)
    (hleaf : (H.ctx x).edges = []) :
    ∃ r H', actForward Activation.sigmoid [some x] H = .ok (r, H') ∧ (backprop bm H' r).status = .ok () ∧
      (backprop bm H' r).heap.grad x = some ⟨(H.val x).dims, (H.val x).data.map (fun a => sig a * (1 - sig a))⟩ := by
  obtain ⟨r, H', hrun, vr0, himp⟩ := sigmoid_backprop bm H x hR hwf l
  have hok : (backprop bm H' r).status = .ok () := by
    obtain ⟨r1, H1, hrun1, hext, hR', er, hsz, vx, vx2, vo', vx2', vy, vr, c0, c1, c2, c3, c4, c5, c6⟩ :=
      sigmoid_full bm H x hR hwf l
    obtain ⟨rfl, rfl⟩ := run_unique hrun hrun1
    subst er
    have hdag := reach_dag hR'
    have hxN : x < H.size := l.1
    obtain ⟨g6, t6, e6⟩ := liveCtx_grad H' _ _ c6
    obtain ⟨g5, t5, e5⟩ := liveCtx_grad H' _ _ c5
    obtain ⟨g4, t4, e4⟩ := liveCtx_grad H' _ _ c4
    obtain ⟨g3, t3, e3⟩ := liveCtx_grad H' _ _ c3
    obtain ⟨g2, t2, e2⟩ := liveCtx_grad H' _ _ c2
    obtain ⟨g1, t1, e1⟩ := liveCtx_grad H' _ _ c1
    obtain ⟨g0, t0, e0⟩ := liveCtx_grad H' _ _ c0
    have ex : (H'.ctx x).edges = [] := by rw [hext.ctx hxN]; exact hleaf
    have gx : H'.grad x = none := by
      have := reach_clean_nograd hR x l.2.2
      simp only [Heap.grad, hext.ctx hxN] at this ⊢; exact this
    have hM : ∀ v ∈ backwardOrder H' (H.size + 6), v = H.size + 6 ∨ v = H.size + 5 ∨ v = H.size + 3 ∨ v = H.size + 4 ∨
        v = H.size ∨ v = H.size + 2 ∨ v = H.size + 1 ∨ v = x := by
      apply order_subset H' (H.size + 6)
      · left; rfl
      · intro u hu v hv
        obtain ⟨e, he, rfl⟩ := mem_succs_edge H' u v hv
        rcases hu with rfl | rfl | rfl | rfl | rfl | rfl | rfl | rfl
        · rw [e6] at he; simp at he; subst he; simp
        · rw [e5] at he; simp at he; rcases he with rfl | rfl <;> simp
        · rw [e3] at he; simp at he; subst he; simp
        · rw [e4] at he; simp at he; subst he; simp
        · rw [e0] at he; simp at he; subst he; simp
        · rw [e2] at he; simp at he; subst he; simp
        · rw [e1] at he; simp at he; subst he; simp
        · rw [ex] at he; simp at he
    let X := H.val x
    let Hm := markDirty H' (backwardOrder H' (H.size + 6))
    have hv1 : ∀ n, Hm.val n = H'.val n := fun n => markDirty_val _ _ n
    have hX : Hm.val x = X.map id := by rw [hv1, vx]; simp [Tensor.map, X]
    apply backprop_ok bm H' (H.size + 6) hdag t6 (fun _ g => Shaped X.dims g)
      (fun n a b ha hb => shaped_add_ok X.dims a b ha hb)
    · intro n hn g hg
      rcases hM n hn with rfl | rfl | rfl | rfl | rfl | rfl | rfl | rfl
      · rw [g6] at hg; cases hg
      · rw [g5] at hg; cases hg
      · rw [g3] at hg; cases hg
      · rw [g4] at hg; cases hg
      · rw [g0] at hg; cases hg
      · rw [g2] at hg; cases hg
      · rw [g1] at hg; cases hg
      · rw [gx] at hg; cases hg
    · have := ones_shaped (H'.val (H.size + 6)) (by rw [vr]; exact map_wf _ _ hwf)
      rw [vr] at this ⊢
      exact this
    · intro u hu e he ht gy hgy
      have wG := hgy.1
      have hd := hgy.2
      rcases hM u hu with rfl | rfl | rfl | rfl | rfl | rfl | rfl | rfl
      · rw [e6] at he; simp at he; subst he
        exact via_gz hwf hgy (r_pow bm Hm gy X (fun _ => 1) (fun a => 1 + Real.exp (-a)) (H.size + 5) hwf wG hd (-1)
          (by norm_num) (by rw [hv1, vy]))
      · rw [e5] at he; simp at he
        rcases he with rfl | rfl
        · exact via_gz hwf hgy (r_id bm Hm gy X (fun _ => 1))
        · exact via_gz hwf hgy (r_id bm Hm gy X (fun _ => 1))
      · rw [e3] at he; simp at he; subst he
        exact via_gz hwf hgy (r_bcast bm Hm _ H.size (H.size + 3) (by rw [hv1, hv1, vo']))
      · rw [e4] at he; simp at he; subst he
        exact via_gz hwf hgy (r_bcast bm Hm _ (H.size + 2) (H.size + 4) (by rw [hv1, hv1, vx2']))
      · rw [e0] at he; simp at he; subst he
        exact via_gz hwf hgy (r_pow0 bm Hm gy X (fun _ => 1) id x hwf wG hd hX)
      · rw [e2] at he; simp at he; subst he
        exact via_gz hwf hgy (r_exp bm Hm gy X (fun _ => 1) (fun a => Real.exp (-a)) (H.size + 2) hwf wG hd (by rw [hv1, vx2]))
      · rw [e1] at he; simp at he; subst he
        exact via_gz hwf hgy (r_scale bm Hm gy X (fun _ => 1) (-1))
      · rw [ex] at he; simp at he
  exact ⟨r, H', hrun, hok, himp hok⟩

/-- **Relu on a leaf**: `BackPropagate` succeeds and `x.Gradient()` is the tie-aware derivative -/
theorem relu_backprop_leaf (bm : BMode) (H : Heap ℝ) (x : Nat) (hR : Reach bm H) (hwf : (H.val x).WF) (l : Live H x)
    (hleaf : (H.ctx x).edges = []) :
    ∃ r H', actForward Activation.relu [some x] H = .ok (r, H') ∧ (backprop bm H' r).status = .ok () ∧
      (backprop bm H' r).heap.grad x = some ⟨(H.val x).dims, (H.val x).data.map C15.reluD⟩ := by
  obtain ⟨r, H', hrun, vr0, himp⟩ := relu_backprop bm H x hR hwf l
  have hok : (backprop bm H' r).status = .ok () := by
    obtain ⟨r1, H1, hrun1, hext, hR', er, vx, vz, vr, c0, c1⟩ := relu_full bm H x hR hwf l
    obtain ⟨rfl, rfl⟩ := run_unique hrun hrun1
    subst er
    have hdag := reach_dag hR'
    have hxN : x < H.size := l.1
    obtain ⟨g1, t1, e1⟩ := liveCtx_grad H' _ _ c1
    obtain ⟨g0, t0, e0⟩ := liveCtx_grad H' _ _ c0
    have ex : (H'.ctx x).edges = [] := by rw [hext.ctx hxN]; exact hleaf
    have gx : H'.grad x = none := by
      have := reach_clean_nograd hR x l.2.2
      simp only [Heap.grad, hext.ctx hxN] at this ⊢; exact this
    have hM : ∀ v ∈ backwardOrder H' (H.size + 1), v = H.size + 1 ∨ v = H.size ∨ v = x := by
      apply order_subset H' (H.size + 1)
      · left; rfl
      · intro u hu v hv
        obtain ⟨e, he, rfl⟩ := mem_succs_edge H' u v hv
        rcases hu with rfl | rfl | rfl
        · rw [e1] at he; simp at he; rcases he with rfl | rfl <;> simp
        · rw [e0] at he; simp at he; subst he; simp
        · rw [ex] at he; simp at he
    let X := H.val x
    let Hm := markDirty H' (backwardOrder H' (H.size + 1))
    have hv1 : ∀ n, Hm.val n = H'.val n := fun n => markDirty_val _ _ n
    have hX : Hm.val x = X.map id := by rw [hv1, vx]; simp [Tensor.map, X]
    have hZ : Hm.val H.size = X.map (fun a => 0 * a) := by rw [hv1, vz]
    have hRv : Hm.val (H.size + 1) = X.map (fun a => max 0 a) := by rw [hv1, vr]
    apply backprop_ok bm H' (H.size + 1) hdag t1 (fun _ g => Shaped X.dims g)
      (fun n a b ha hb => shaped_add_ok X.dims a b ha hb)
    · intro n hn g hg
      rcases hM n hn with rfl | rfl | rfl
      · rw [g1] at hg; cases hg
      · rw [g0] at hg; cases hg
      · rw [gx] at hg; cases hg
    · have := ones_shaped (H'.val (H.size + 1)) (by rw [vr]; exact map_wf _ _ hwf)
      rw [vr] at this ⊢
      exact this
    · intro u hu e he ht gy hgy
      have wG := hgy.1
      have hd := hgy.2
      rcases hM u hu with rfl | rfl | rfl
      · rw [e1] at he; simp at he
        rcases he with rfl | rfl
        · exact via_gz hwf hgy (r_elext bm Hm gy X (fun _ => 1) hwf wG hd (H.size + 1) H.size x _ _ _ hRv hZ hX)
        · exact via_gz hwf hgy (r_elext bm Hm gy X (fun _ => 1) hwf wG hd (H.size + 1) x H.size _ _ _ hRv hX hZ)
      · rw [e0] at he; simp at he; subst he
        exact via_gz hwf hgy (r_scale bm Hm gy X (fun _ => 1) 0)
      · rw [ex] at he; simp at he
  exact ⟨r, H', hrun, hok, himp hok⟩

/-- **LeakyRelu on a leaf**: `BackPropagate` succeeds and `x.Gradient()` is `leakyD m x` -/
theorem leaky_backprop_leaf (bm : BMode) (m : ℝ) (H : Heap ℝ) (x : Nat) (hR : Reach bm H) (hwf : (H.val x).WF)
    (l : Live H x) (hleaf : (H.ctx x).edges = []) :
    ∃ r H', actForward (Activation.leaky m) [some x] H = .ok (r, H') ∧ (backprop bm H' r).status = .ok () ∧
      (backprop bm H' r).heap.grad x = some ⟨(H.val x).dims, (H.val x).data.map (leakyD m)⟩ := by
  obtain ⟨r, H', hrun, vr0, himp⟩ := leaky_backprop bm m H x hR hwf l
  have hok : (backprop bm H' r).status = .ok () := by
    obtain ⟨r1, H1, hrun1, hext, hR', er, vx, vz, vs1, vs2, vs1', vs3', vr, c0, c1, c2, c3, c4, c5, c6⟩ :=
      leaky_full bm m H x hR hwf l
    obtain ⟨rfl, rfl⟩ := run_unique hrun hrun1
    subst er
    have hdag := reach_dag hR'
    have hxN : x < H.size := l.1
    obtain ⟨g6, t6, e6⟩ := liveCtx_grad H' _ _ c6
    obtain ⟨g5, t5, e5⟩ := liveCtx_grad H' _ _ c5
    obtain ⟨g4, t4, e4⟩ := liveCtx_grad H' _ _ c4
    obtain ⟨g3, t3, e3⟩ := liveCtx_grad H' _ _ c3
    obtain ⟨g2, t2, e2⟩ := liveCtx_grad H' _ _ c2
    obtain ⟨g1, t1, e1⟩ := liveCtx_grad H' _ _ c1
    obtain ⟨g0, t0, e0⟩ := liveCtx_grad H' _ _ c0
    have ex : (H'.ctx x).edges = [] := by rw [hext.ctx hxN]; exact hleaf
    have gx : H'.grad x = none := by
      have := reach_clean_nograd hR x l.2.2
      simp only [Heap.grad, hext.ctx hxN] at this ⊢; exact this
    have hM : ∀ v ∈ backwardOrder H' (H.size + 6), v = H.size + 6 ∨ v = H.size + 5 ∨ v = H.size + 4 ∨ v = H.size + 3 ∨
        v = H.size + 2 ∨ v = H.size + 1 ∨ v = H.size ∨ v = x := by
      apply order_subset H' (H.size + 6)
      · left; rfl
      · intro u hu v hv
        obtain ⟨e, he, rfl⟩ := mem_succs_edge H' u v hv
        rcases hu with rfl | rfl | rfl | rfl | rfl | rfl | rfl | rfl
        · rw [e6] at he; simp at he; rcases he with rfl | rfl <;> simp
        · rw [e5] at he; simp at he; subst he; simp
        · rw [e4] at he; simp at he; subst he; simp
        · rw [e3] at he; simp at he; subst he; simp
        · rw [e2] at he; simp at he; rcases he with rfl | rfl <;> simp
        · rw [e1] at he; simp at he; rcases he with rfl | rfl <;> simp
        · rw [e0] at he; simp at he; subst he; simp
        · rw [ex] at he; simp at he
    let X := H.val x
    let Hm := markDirty H' (backwardOrder H' (H.size + 6))
    have hv1 : ∀ n, Hm.val n = H'.val n := fun n => markDirty_val _ _ n
    have hX : Hm.val x = X.map id := by rw [hv1, vx]; simp [Tensor.map, X]
    have hZ : Hm.val H.size = X.map (fun a => 0 * a) := by rw [hv1, vz]
    have hS1 : Hm.val (H.size + 1) = X.map (fun a => max 0 a) := by rw [hv1, vs1]
    have hS2 : Hm.val (H.size + 2) = X.map (fun a => min 0 a) := by rw [hv1, vs2]
    apply backprop_ok bm H' (H.size + 6) hdag t6 (fun _ g => Shaped X.dims g)
      (fun n a b ha hb => shaped_add_ok X.dims a b ha hb)
    · intro n hn g hg
      rcases hM n hn with rfl | rfl | rfl | rfl | rfl | rfl | rfl | rfl
      · rw [g6] at hg; cases hg
      · rw [g5] at hg; cases hg
      · rw [g4] at hg; cases hg
      · rw [g3] at hg; cases hg
      · rw [g2] at hg; cases hg
      · rw [g1] at hg; cases hg
      · rw [g0] at hg; cases hg
      · rw [gx] at hg; cases hg
    · have := ones_shaped (H'.val (H.size + 6)) (by rw [vr]; exact map_wf _ _ hwf)
      rw [vr] at this ⊢
      exact this
    · intro u hu e he ht gy hgy
      have wG := hgy.1
      have hd := hgy.2
      rcases hM u hu with rfl | rfl | rfl | rfl | rfl | rfl | rfl | rfl
      · rw [e6] at he; simp at he
        rcases he with rfl | rfl
        · exact via_gz hwf hgy (r_id bm Hm gy X (fun _ => 1))
        · exact via_gz hwf hgy (r_id bm Hm gy X (fun _ => 1))
      · rw [e5] at he; simp at he; subst he
        exact via_gz hwf hgy (r_bcast bm Hm _ (H.size + 3) (H.size + 5) (by rw [hv1, hv1, vs3']))
      · rw [e4] at he; simp at he; subst he
        exact via_gz hwf hgy (r_bcast bm Hm _ (H.size + 1) (H.size + 4) (by rw [hv1, hv1, vs1']))
      · rw [e3] at he; simp at he; subst he
        exact via_gz hwf hgy (r_scale bm Hm gy X (fun _ => 1) m)
      · rw [e2] at he; simp at he
        rcases he with rfl | rfl
        · exact via_gz hwf hgy (r_elext bm Hm gy X (fun _ => 1) hwf wG hd (H.size + 2) H.size x _ _ _ hS2 hZ hX)
        · exact via_gz hwf hgy (r_elext bm Hm gy X (fun _ => 1) hwf wG hd (H.size + 2) x H.size _ _ _ hS2 hX hZ)
      · rw [e1] at he; simp at he
        rcases he with rfl | rfl
        · exact via_gz hwf hgy (r_elext bm Hm gy X (fun _ => 1) hwf wG hd (H.size + 1) H.size x _ _ _ hS1 hZ hX)
        · exact via_gz hwf hgy (r_elext bm Hm gy X (fun _ => 1) hwf wG hd (H.size + 1) x H.size _ _ _ hS1 hX hZ)
      · rw [e0] at he; simp at he; subst he
        exact via_gz hwf hgy (r_scale bm Hm gy X (fun _ => 1) 0)
      · rw [ex] at he; simp at he
  exact ⟨r, H', hrun, hok, himp hok⟩

end C15w
end Qeep
