import QeepProps.C10
/-!
# C16 — the FC layer (validation, liveness of the parameters, footprint)

Proved: `Forward` rejects anything but exactly one non-nil rank-2 input with an error (never a panic);
the forward pass reads the parameter tensors *currently* stored in the layer (so what `Weights()` addresses is what the
next `Forward` uses, for any sequence of replacements — in the Model the pointer is the pair (layer, field));
the forward pass only allocates (no existing tensor, parameter or input is modified).

Not proved: the affine formula `y[b][o] = W[o]·Σ_d x[b][d] + B[o]` and the parameter gradients (needs the MatMul
element formula); covered by the correspondence run with non-uniform parameters, sizes up to 17 and replacements
through the pointers.
-/
set_option linter.unusedSimpArgs false

namespace Qeep
namespace C16

variable {α : Type} [Scalar α]

/-- **input validation**: not exactly one input, a nil input, or an input whose rank is not 2 → error -/
theorem fc_input_validation (c : FC) (H : Heap α) :
    fcForward c [] H = .err ∧ (∀ a b rest, fcForward c (a :: b :: rest) H = .err) ∧ fcForward c [none] H = .err ∧
    (∀ x, (H.val x).dims.length ≠ 2 → fcForward c [some x] H = .err) := by
  refine ⟨rfl, ?_, rfl, ?_⟩
  · intro a b rest
    unfold fcForward
    have : oneInput (a :: b :: rest) = .err := by cases a <;> rfl
    rw [this]; rfl
  intro x hx
  unfold fcForward
  rw [show (liftOut (oneInput [some x]) : HM α Nat) = (fun H => .ok (x, H)) from rfl]
  simp only [bind, StateT.bind, Out.bind, getHeap, hx, if_true, ne_eq, not_false_eq_true]
  rfl

/-- **the parameters are live**: `Forward` depends on the layer only through the tensors currently stored in its two
    fields — replacing a field (through the pointer handed out by `Weights()`) is what the next `Forward` reads -/
theorem fc_weights_live (c c' : FC) (xs : List (Option Nat)) (H : Heap α) (hw : c.w = c'.w) (hb : c.b = c'.b) :
    fcForward c xs H = fcForward c' xs H := by
  cases c; cases c'; simp only at hw hb; subst hw hb; rfl

/-- **footprint**: a forward pass modifies no existing tensor (parameters and input included) -/
theorem fc_only_allocates (c : FC) (xs : List (Option Nat)) : Frame (fcForward (α := α) c xs) := frame_fcForward c xs

end C16
end Qeep
