import QeepProps.C10
import QeepProofs.FC
import QeepProofs.Vals
/-!
# C16 — the FC layer (validation, liveness of the parameters, footprint)

Proved: `Forward` rejects anything but exactly one non-nil rank-2 input with an error (never a panic);
the forward pass reads the parameter tensors *currently* stored in the layer (so what `Weights()` addresses is what the
next `Forward` uses, for any sequence of replacements — in the Model the pointer is the pair (layer, field));
the forward pass only allocates (no existing tensor, parameter or input is modified).

Not proved: the affine formula `y[b][o] = W[o]·Σ_d x[b][d] + B[o]` and the parameter gradients (needs the MatMul
element formula); covered by the correspondence run with non-uniform parameters, sizes up to 17 and replacements
through the pointers.
-/
set_option linter.unusedSimpArgs false

namespace Qeep
namespace C16

variable {α : Type} [Scalar α]

/-- **input validation**: not exactly one input, a nil input, or an input whose rank is not 2 → error -/
theorem fc_input_validation (c : FC) (H : Heap α) :
    fcForward c [] H = .err ∧ (∀ a b rest, fcForward c (a :: b :: rest) H = .err) ∧ fcForward c [none] H = .err ∧
    (∀ x, (H.val x).dims.length ≠ 2 → fcForward c [some x] H = .err) := by
  refine ⟨rfl, ?_, rfl, ?_⟩
  · intro a b rest
    unfold fcForward
    have : oneInput (a :: b :: rest) = .err := by cases a <;> rfl
    rw [this]; rfl
  intro x hx
  unfold fcForward
  rw [show (liftOut (oneInput [some x]) : HM α Nat) = (fun H => .ok (x, H)) from rfl]
  simp only [bind, StateT.bind, Out.bind, getHeap, hx, if_true, ne_eq, not_false_eq_true]
  rfl

/-- **the parameters are live**: `Forward` depends on the layer only through the tensors currently stored in its two
    fields — replacing a field (through the pointer handed out by `Weights()`) is what the next `Forward` reads -/
theorem fc_weights_live (c c' : FC) (xs : List (Option Nat)) (H : Heap α) (hw : c.w = c'.w) (hb : c.b = c'.b) :
    fcForward c xs H = fcForward c' xs H := by
  cases c; cases c'; simp only at hw hb; subst hw hb; rfl

/-- **footprint**: a forward pass modifies no existing tensor (parameters and input included) -/
theorem fc_only_allocates (c : FC) (xs : List (Option Nat)) : Frame (fcForward (α := α) c xs) := frame_fcForward c xs

end C16
end Qeep

namespace Qeep
namespace C16
variable {α : Type} [Scalar α]

/-- the heap-level forward pass computes the value-level composition `fcV` of the current parameter and input values -/
theorem fc_forward_val (w b x : Nat) (H H' : Heap α) (r : Nat) (hw : w < H.size) (hb : b < H.size) (hx : x < H.size)
    (h : fcForward ⟨some w, some b⟩ [some x] H = .ok (r, H')) :
    fcV (H.val w) (H.val b) (H.val x) = .ok (H'.val r) ∧ Extends H H' := by
  unfold fcForward at h
  obtain ⟨x0, H0, g0, k1⟩ := bind_ok h
  obtain ⟨e0, e0'⟩ := liftOut_ok g0
  have hx0 : x0 = x := by simp [oneInput] at e0; exact e0.symm
  rw [e0', hx0] at k1
  obtain ⟨H1, H1', g1, k2⟩ := bind_ok k1
  obtain ⟨e1, e1'⟩ := getHeap_ok g1
  rw [e1, e1'] at k2
  by_cases hr : (H.val x).dims.length ≠ 2
  · rw [if_pos hr] at k2
    obtain ⟨e, _⟩ := liftOut_ok k2; cases e
  · rw [if_neg hr] at k2
    simp only [] at k2
    obtain ⟨w1, Ha, ga, k3⟩ := bind_ok k2
    obtain ⟨x1, Hb, gb, k4⟩ := bind_ok k3
    obtain ⟨y, Hc, gc, k5⟩ := bind_ok k4
    obtain ⟨s, Hd, gd, k6⟩ := bind_ok k5
    obtain ⟨va, ra, xa⟩ := hUnSqueeze_val ga
    obtain ⟨vb, rb, xb⟩ := hUnSqueeze_val gb
    have w1lt : w1 < Ha.size := by
      unfold hUnSqueeze at ga
      obtain ⟨Hx, Hx', gx, kx⟩ := bind_ok ga
      obtain ⟨ex, ex'⟩ := getHeap_ok gx
      rw [ex, ex'] at kx
      exact hOp1_size kx
    have x1lt : x1 < Hb.size := by
      unfold hUnSqueeze at gb
      obtain ⟨Hx, Hx', gx, kx⟩ := bind_ok gb
      obtain ⟨ex, ex'⟩ := getHeap_ok gx
      rw [ex, ex'] at kx
      exact hOp1_size kx
    obtain ⟨vc, _, ylt, xc⟩ := hMatMul_val (Nat.lt_of_lt_of_le w1lt xb.1) x1lt gc
    obtain ⟨vd, rd, xd⟩ := hAlong_val gd
    have slt : s < Hd.size := by
      unfold hAlong at gd
      obtain ⟨Hx, Hx', gx, kx⟩ := bind_ok gd
      obtain ⟨ex, ex'⟩ := getHeap_ok gx
      rw [ex, ex'] at kx
      exact hOp1_size kx
    have hbd : b < Hd.size := Nat.lt_of_lt_of_le hb (((xa.trans xb).trans xc).trans xd).1
    obtain ⟨ve, _, _, xe⟩ := hArith_val slt hbd k6
    refine ⟨?_, (((xa.trans xb).trans xc).trans xd).trans xe⟩
    unfold fcV
    simp only [bind, Out.bind]
    rw [va]
    simp only []
    have hxa : Ha.val x = H.val x := xa.val hx
    rw [← hxa, vb]
    simp only []
    have hw1b : Hb.val w1 = Ha.val w1 := xb.val w1lt
    rw [← hw1b, vc]
    simp only []
    rw [vd]
    simp only []
    have hbv : Hd.val b = H.val b := (((xa.trans xb).trans xc).trans xd).val hb
    rw [← hbv, ve]

/-- **FC is an affine map per output unit** — for every batch size `N`, feature count `D`, output count `O` (≥ 1) and
    all parameter / input values: whenever `Forward` returns a tensor it has shape `[N, O]` and
    `y[b][o] = (Σ_d (0 + W[o]·x[b][d])) + B[o]` (folds in execution order; over `ℝ`: `W[o]·Σ_d x[b][d] + B[o]`);
    row `b` depends on input row `b` only, and existing tensors are untouched. -/
theorem fc_forward (N D O : Nat) (w b x : Nat) (H H' : Heap α) (r : Nat) (hw : w < H.size) (hb : b < H.size) (hx : x < H.size)
    (hN : 0 < N) (hD : 0 < D) (hO : 0 < O)
    (dw : (H.val w).dims = [O]) (db : (H.val b).dims = [O]) (dx : (H.val x).dims = [N, D])
    (ww : (H.val w).WF) (wb : (H.val b).WF) (wx : (H.val x).WF)
    (Wf Bf : Nat → α) (Xf : Nat → Nat → α)
    (hW : ∀ o, o < O → (H.val w).data[o]? = some (Wf o)) (hB : ∀ o, o < O → (H.val b).data[o]? = some (Bf o))
    (hX : ∀ i d, i < N → d < D → (H.val x).data[i * D + d]? = some (Xf i d))
    (h : fcForward ⟨some w, some b⟩ [some x] H = .ok (r, H')) :
    (H'.val r).dims = [N, O] ∧ Extends H H' ∧
    ∀ i o, i < N → o < O →
      (H'.val r).at? [i, o] =
        some (Scalar.add
          (((List.range D).map (fun d => Scalar.add Scalar.zero (Scalar.mul (Wf o) (Xf i d)))).foldl Scalar.add Scalar.zero)
          (Bf o)) := by
  obtain ⟨hv, hext⟩ := fc_forward_val w b x H H' r hw hb hx h
  have e1 : H.val w = ⟨[O], (H.val w).data⟩ := by rw [← dw]
  have e2 : H.val b = ⟨[O], (H.val b).data⟩ := by rw [← db]
  have e3 : H.val x = ⟨[N, D], (H.val x).data⟩ := by rw [← dx]
  obtain ⟨data, s1, s2, s3⟩ := fcV_spec N D O (H.val w).data (H.val b).data (H.val x).data hN hD hO
    (by rw [ww.1, dw]; simp [prod]) (by rw [wb.1, db]; simp [prod]) (by rw [wx.1, dx]; simp [prod])
    Wf Bf Xf hW hB hX
  rw [← e1, ← e2, ← e3, hv] at s1
  injection s1 with s1
  rw [s1]
  exact ⟨rfl, hext, s3⟩

end C16
end Qeep
