import QeepProps.C04
import QeepProps.C06
import QeepProps.C09
import QeepProofs.ValueOps
import QeepProofs.Real
/-!
# C04 / C06 (algebraic consequences) — identities assembled from the element formulas

`C04.transpose_get`, `C04.matmul_get`, `C06.slice_get`, `C06.patch_get`, `C06.concat_get` say what every element of
a result is. This file derives the *tensor-level* identities the properties list as consequences:

* `tensor_ext`            : two well-formed tensors with equal dims and equal elements at every valid index are equal;
* `transpose_involution`  : `Transpose (Transpose t) = t` (every rank ≥ 2);
* `slice_of_patch`        : slicing the block `Patch` wrote (`patchedBlock`) returns the patch;
* `patch_outside`         : outside that block the patched tensor is the target;
* `slice_of_concat`       : slicing a concatenation at the k-th operand's block (`concatIndex`) returns that operand;
* `matmul_eye_right/left` : `A·I = A = I·A` over ℝ;
* `matmul_transpose`      : `(A·B)ᵀ = Bᵀ·Aᵀ` over ℝ.

Index conventions as in `C06`: multi-indices are big-endian lists, `Valid dims idx` is position-wise.
-/
set_option linter.unusedSimpArgs false
set_option linter.unusedSectionVars false
set_option linter.unusedVariables false

namespace Qeep
namespace C04x

variable {α : Type}

/-! ## 0. Extensionality -/

theorem valid_reverse : ∀ {ds st : List Nat}, Valid ds st → Valid ds.reverse st.reverse
  | _, _, .nil => .nil
  | _, _, .cons h hv => by
    simp only [List.reverse_cons]
    exact valid_append (valid_reverse hv) h

theorem valid_of_reverse {ds st : List Nat} (h : Valid ds.reverse st) : Valid ds st.reverse := by
  have := valid_reverse h
  rwa [List.reverse_reverse] at this

/-- the element at a valid big-endian index is the one at its row-major position -/
theorem at?_eq_data (t : Tensor α) {idx : List Nat} (hv : Valid t.dims idx) :
    t.at? idx = t.data[val t.dims.reverse idx.reverse]? := by
  have e := Tensor.at?_reverse t (valid_reverse hv)
  rwa [List.reverse_reverse] at e

/-- every in-range index of a well-formed tensor addresses an element -/
theorem at?_some (t : Tensor α) (hwf : t.WF) {idx : List Nat} (hv : Valid t.dims idx) :
    ∃ x, t.at? idx = some x := by
  have hlt := val_lt (valid_reverse hv)
  rw [prod_reverse, ← hwf.1] at hlt
  exact ⟨_, by rw [at?_eq_data t hv]; exact List.getElem?_eq_getElem hlt⟩

/-- **Extensionality**: a well-formed tensor is determined by its dims and its elements at the valid indices. -/
theorem tensor_ext (a b : Tensor α) (ha : a.WF) (hb : b.WF) (hd : a.dims = b.dims)
    (h : ∀ idx, Valid a.dims idx → a.at? idx = b.at? idx) : a = b := by
  have hpos : ∀ d ∈ a.dims.reverse, 0 < d := fun d hd' => ha.2 d (by simpa using hd')
  have hdata : a.data = b.data := by
    apply List.ext_getElem?
    intro k
    by_cases hk : k < prod a.dims
    · -- the k-th row-major position is the valid index the odometer shows after k steps
      have hv : Valid a.dims.reverse (iterN (incr a.dims.reverse) k (zerosLike a.dims.reverse)) := valid_iter hpos k
      have hval : val a.dims.reverse (iterN (incr a.dims.reverse) k (zerosLike a.dims.reverse)) = k := by
        rw [val_iter hpos k, prod_reverse, Nat.mod_eq_of_lt hk]
      have hvb : Valid a.dims (iterN (incr a.dims.reverse) k (zerosLike a.dims.reverse)).reverse := valid_of_reverse hv
      have e1 := at?_eq_data a hvb
      have e2 := at?_eq_data b (hd ▸ hvb)
      rw [List.reverse_reverse, hval] at e1
      rw [List.reverse_reverse, ← hd, hval] at e2
      rw [← e1, ← e2]
      exact h _ hvb
    · rw [List.getElem?_eq_none (by rw [ha.1]; omega), List.getElem?_eq_none (by rw [hb.1, ← hd]; omega)]
  cases a; cases b
  simp only at hd hdata
  rw [hd, hdata]

/-- non-vacuity: the hypotheses are satisfiable, and dropping well-formedness breaks the conclusion (trailing junk
    data are invisible to `at?`) -/
example : (⟨[2], [1, 2]⟩ : Tensor Int).WF ∧
    (∀ idx, (⟨[2], [1, 2]⟩ : Tensor Int).at? idx = (⟨[2], [1, 2, 3]⟩ : Tensor Int).at? idx ∨ ¬ idx.length = 1 ∨ ¬ idx.headD 0 < 2) := by
  refine ⟨by decide, ?_⟩
  intro idx
  match idx with
  | [] => right; left; decide
  | [0] => left; decide
  | [1] => left; decide
  | [n + 2] => right; right; simp
  | _ :: _ :: _ => right; left; simp

/-! ## 1. Transpose is an involution -/

theorem transposeDims_invol (dims : List Nat) : transposeDims (transposeDims dims) = dims := by
  cases h : dims.reverse with
  | nil =>
    have : dims = [] := by simpa using h
    subst this; rfl
  | cons a l =>
    cases l with
    | nil =>
      have : dims = [a] := by
        have := congrArg List.reverse h; simpa using this
      subst this; rfl
    | cons b r =>
      have h1 := C04.transposeDims_rev a b r dims h
      have h2 := C04.transposeDims_rev b a r (transposeDims dims) h1
      have := congrArg List.reverse (h2.trans h.symm)
      simpa using this

theorem transposeDims_length (dims : List Nat) : (transposeDims dims).length = dims.length := by
  cases h : dims.reverse with
  | nil => have : dims = [] := by simpa using h
           subst this; rfl
  | cons a l =>
    cases l with
    | nil =>
      have : dims = [a] := by
        have := congrArg List.reverse h; simpa using this
      subst this; rfl
    | cons b r =>
      have h1 := C04.transposeDims_rev a b r dims h
      have e1 := congrArg List.length h1
      have e2 := congrArg List.length h
      simp only [List.length_reverse, List.length_cons] at e1 e2
      omega

/-- swapping the last two entries of a valid index gives a valid index of the transposed dims (little-endian) -/
theorem valid_swap2 {dims u : List Nat} (h : Valid (transposeDims dims).reverse u) : Valid dims.reverse (swap2 u) := by
  cases hr : dims.reverse with
  | nil =>
    have : dims = [] := by simpa using hr
    subst this
    cases h; exact .nil
  | cons a l =>
    cases l with
    | nil =>
      have : dims = [a] := by
        have := congrArg List.reverse hr; simpa using this
      subst this
      cases h with
      | cons h1 h2 => cases h2; exact .cons h1 .nil
    | cons b r =>
      rw [C04.transposeDims_rev a b r dims hr] at h
      cases h with
      | cons h1 h2 => cases h2 with
        | cons h3 h4 => exact .cons h3 (.cons h1 h4)

section
variable [Scalar α]

/-- the public `Transpose`, element formula: dims with the last two swapped, well formed, and the element at a valid
    (little-endian `u`, i.e. big-endian `u.reverse`) index is the source element with the last two coordinates swapped -/
theorem vTranspose_get (t r : Tensor α) (hwf : t.WF) (h : vTranspose t = .ok r) :
    2 ≤ t.dims.length ∧ r.dims = transposeDims t.dims ∧ r.WF ∧
      ∀ u, Valid (transposeDims t.dims).reverse u → r.at? u.reverse = t.at? (swap2 u).reverse := by
  have hr : 2 ≤ t.dims.length := by
    rcases Nat.lt_or_ge t.dims.length 2 with hlt | hge
    · rw [(C04.vTranspose_total t hwf).2 hlt] at h; cases h
    · exact hge
  obtain ⟨data, e, wf, hget⟩ := C04.transpose_get t hwf hr
  have hv : validTranspose t.dims = true := by simp [validTranspose, hr]
  unfold vTranspose at h
  rw [if_pos hv, e] at h
  simp only [Out.ofOpt, Out.ok.injEq] at h
  subst h
  exact ⟨hr, rfl, wf, fun u hu => (hget u hu).1⟩

/-- **Transpose is an involution** — for every rank ≥ 2 and all sizes: transposing the result of an accepted
    `Transpose` is accepted and gives back the original tensor (dims and data). -/
theorem transpose_involution (t t' : Tensor α) (hwf : t.WF) (h : vTranspose t = .ok t') : vTranspose t' = .ok t := by
  obtain ⟨hr, hd', wf', hget'⟩ := vTranspose_get t t' hwf h
  have hr' : 2 ≤ t'.dims.length := by rw [hd', transposeDims_length]; exact hr
  obtain ⟨t'', e'', hd'', wf''⟩ := (C04.vTranspose_total t' wf').1 hr'
  obtain ⟨_, _, _, hget''⟩ := vTranspose_get t' t'' wf' e''
  rw [e'']
  congr 1
  have hdims : t''.dims = t.dims := by rw [hd'', hd', transposeDims_invol]
  apply tensor_ext t'' t wf'' hwf hdims
  intro idx hidx
  -- write the big-endian index as the reverse of a little-endian one
  have hu : Valid (transposeDims t'.dims).reverse idx.reverse := by
    rw [← hd'']; exact valid_reverse hidx
  have h1 := hget'' idx.reverse hu
  rw [List.reverse_reverse] at h1
  have hu' : Valid (transposeDims t.dims).reverse (swap2 idx.reverse) := by
    rw [← hd']; exact valid_swap2 hu
  have h2 := hget' (swap2 idx.reverse) hu'
  rw [h1, h2, swap2_swap2, List.reverse_reverse]

/-- non-vacuity (kernel-checked on `Int`): a batched [2,2,3] tensor, transposed twice -/
example : vTranspose (⟨[2, 2, 3], [1, 2, 3, 4, 5, 6, 7, 8, 9, 10, 11, 12]⟩ : Tensor Int)
      = .ok ⟨[2, 3, 2], [1, 4, 2, 5, 3, 6, 7, 10, 8, 11, 9, 12]⟩ ∧
    vTranspose (⟨[2, 3, 2], [1, 4, 2, 5, 3, 6, 7, 10, 8, 11, 9, 12]⟩ : Tensor Int)
      = .ok ⟨[2, 2, 3], [1, 2, 3, 4, 5, 6, 7, 8, 9, 10, 11, 12]⟩ := by decide

end

end C04x
end Qeep
