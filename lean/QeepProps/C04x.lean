import QeepProps.C04
import QeepProps.C06
import QeepProps.C09
import QeepProps.C03x
import QeepProofs.ValueOps
import QeepProofs.Real
/-!
# C04 / C06 (algebraic consequences) — identities assembled from the element formulas

`C04.transpose_get`, `C04.matmul_get`, `C06.slice_get`, `C06.patch_get`, `C06.concat_get` say what every element of
a result is. This file derives the *tensor-level* identities the properties list as consequences:

* `tensor_ext`            : two well-formed tensors with equal dims and equal elements at every valid index are equal;
* `transpose_involution`  : `Transpose (Transpose t) = t` (every rank ≥ 2);
* `slice_of_patch`        : slicing the block `Patch` wrote (`patchedBlock`) returns the patch;
* `patch_outside`         : outside that block the patched tensor is the target;
* `slice_of_concat`       : slicing a concatenation at the k-th operand's block (`concatIndex`) returns that operand;
* `vMatMul_get`, `vMatMul_get_matR/L` : the public `MatMul` element formula for a common batch shape, and for one
  plain matrix against a batch (the matrix is expanded over the batch dims);
* `matmul_eye_right/left` : `A·I = A = I·A` over ℝ, for a matrix or a batch of matrices of any batch rank;
* `matmul_transpose`      : `(A·B)ᵀ = Bᵀ·Aᵀ` over ℝ, for every common batch shape.

The ring identities are proved once for any scalar domain satisfying `RingLaws` and instantiated at ℝ; `Int` also
satisfies the laws, which gives kernel-checked (`decide`) witnesses. Everything else holds for every element type.

Index conventions as in `C06`: multi-indices are big-endian lists, `Valid dims idx` is position-wise.
-/
set_option linter.unusedSimpArgs false

namespace Qeep
namespace C04x

variable {α : Type}

/-! ## 0. Extensionality -/

theorem valid_reverse : ∀ {ds st : List Nat}, Valid ds st → Valid ds.reverse st.reverse
  | _, _, .nil => .nil
  | _, _, .cons h hv => by
    simp only [List.reverse_cons]
    exact valid_append (valid_reverse hv) h

theorem valid_of_reverse {ds st : List Nat} (h : Valid ds.reverse st) : Valid ds st.reverse := by
  have := valid_reverse h
  rwa [List.reverse_reverse] at this

/-- the element at a valid big-endian index is the one at its row-major position -/
theorem at?_eq_data (t : Tensor α) {idx : List Nat} (hv : Valid t.dims idx) :
    t.at? idx = t.data[val t.dims.reverse idx.reverse]? := by
  have e := Tensor.at?_reverse t (valid_reverse hv)
  rwa [List.reverse_reverse] at e

/-- every in-range index of a well-formed tensor addresses an element -/
theorem at?_some (t : Tensor α) (hwf : t.WF) {idx : List Nat} (hv : Valid t.dims idx) :
    ∃ x, t.at? idx = some x := by
  have hlt := val_lt (valid_reverse hv)
  rw [prod_reverse, ← hwf.1] at hlt
  exact ⟨_, by rw [at?_eq_data t hv]; exact List.getElem?_eq_getElem hlt⟩

/-- **Extensionality**: a well-formed tensor is determined by its dims and its elements at the valid indices. -/
theorem tensor_ext (a b : Tensor α) (ha : a.WF) (hb : b.WF) (hd : a.dims = b.dims)
    (h : ∀ idx, Valid a.dims idx → a.at? idx = b.at? idx) : a = b := by
  have hpos : ∀ d ∈ a.dims.reverse, 0 < d := fun d hd' => ha.2 d (by simpa using hd')
  have hdata : a.data = b.data := by
    apply List.ext_getElem?
    intro k
    by_cases hk : k < prod a.dims
    · -- the k-th row-major position is the valid index the odometer shows after k steps
      have hv : Valid a.dims.reverse (iterN (incr a.dims.reverse) k (zerosLike a.dims.reverse)) := valid_iter hpos k
      have hval : val a.dims.reverse (iterN (incr a.dims.reverse) k (zerosLike a.dims.reverse)) = k := by
        rw [val_iter hpos k, prod_reverse, Nat.mod_eq_of_lt hk]
      have hvb : Valid a.dims (iterN (incr a.dims.reverse) k (zerosLike a.dims.reverse)).reverse := valid_of_reverse hv
      have e1 := at?_eq_data a hvb
      have e2 := at?_eq_data b (hd ▸ hvb)
      rw [List.reverse_reverse, hval] at e1
      rw [List.reverse_reverse, ← hd, hval] at e2
      rw [← e1, ← e2]
      exact h _ hvb
    · rw [List.getElem?_eq_none (by rw [ha.1]; omega), List.getElem?_eq_none (by rw [hb.1, ← hd]; omega)]
  cases a; cases b
  simp only at hd hdata
  rw [hd, hdata]

/-- non-vacuity, and why well-formedness is a hypothesis: trailing junk data are invisible to `at?`, so the two tensors
    below agree on dims and on every valid index yet differ — the second one is not well formed -/
example : (⟨[2], [1, 2]⟩ : Tensor Int).WF ∧ ¬ (⟨[2], [1, 2, 3]⟩ : Tensor Int).WF ∧
    (⟨[2], [1, 2]⟩ : Tensor Int).at? [0] = (⟨[2], [1, 2, 3]⟩ : Tensor Int).at? [0] ∧
    (⟨[2], [1, 2]⟩ : Tensor Int).at? [1] = (⟨[2], [1, 2, 3]⟩ : Tensor Int).at? [1] ∧
    (⟨[2], [1, 2]⟩ : Tensor Int) ≠ ⟨[2], [1, 2, 3]⟩ := by decide

/-! ## 1. Transpose is an involution -/

theorem transposeDims_invol (dims : List Nat) : transposeDims (transposeDims dims) = dims := by
  cases h : dims.reverse with
  | nil =>
    have : dims = [] := by simpa using h
    subst this; rfl
  | cons a l =>
    cases l with
    | nil =>
      have : dims = [a] := by
        have := congrArg List.reverse h; simpa using this
      subst this; rfl
    | cons b r =>
      have h1 := C04.transposeDims_rev a b r dims h
      have h2 := C04.transposeDims_rev b a r (transposeDims dims) h1
      have := congrArg List.reverse (h2.trans h.symm)
      simpa using this

theorem transposeDims_length (dims : List Nat) : (transposeDims dims).length = dims.length := by
  cases h : dims.reverse with
  | nil => have : dims = [] := by simpa using h
           subst this; rfl
  | cons a l =>
    cases l with
    | nil =>
      have : dims = [a] := by
        have := congrArg List.reverse h; simpa using this
      subst this; rfl
    | cons b r =>
      have h1 := C04.transposeDims_rev a b r dims h
      have e1 := congrArg List.length h1
      have e2 := congrArg List.length h
      simp only [List.length_reverse, List.length_cons] at e1 e2
      omega

/-- swapping the last two entries of a valid index gives a valid index of the transposed dims (little-endian) -/
theorem valid_swap2 {dims u : List Nat} (h : Valid (transposeDims dims).reverse u) : Valid dims.reverse (swap2 u) := by
  cases hr : dims.reverse with
  | nil =>
    have : dims = [] := by simpa using hr
    subst this
    cases h; exact .nil
  | cons a l =>
    cases l with
    | nil =>
      have : dims = [a] := by
        have := congrArg List.reverse hr; simpa using this
      subst this
      cases h with
      | cons h1 h2 => cases h2; exact .cons h1 .nil
    | cons b r =>
      rw [C04.transposeDims_rev a b r dims hr] at h
      cases h with
      | cons h1 h2 => cases h2 with
        | cons h3 h4 => exact .cons h3 (.cons h1 h4)

/-- the public `Transpose`, element formula: dims with the last two swapped, well formed, and the element at a valid
    (little-endian `u`, i.e. big-endian `u.reverse`) index is the source element with the last two coordinates swapped -/
theorem vTranspose_get (t r : Tensor α) (hwf : t.WF) (h : vTranspose t = .ok r) :
    2 ≤ t.dims.length ∧ r.dims = transposeDims t.dims ∧ r.WF ∧
      ∀ u, Valid (transposeDims t.dims).reverse u → r.at? u.reverse = t.at? (swap2 u).reverse := by
  have hr : 2 ≤ t.dims.length := by
    rcases Nat.lt_or_ge t.dims.length 2 with hlt | hge
    · rw [(C04.vTranspose_total t hwf).2 hlt] at h; cases h
    · exact hge
  obtain ⟨data, e, wf, hget⟩ := C04.transpose_get t hwf hr
  have hv : validTranspose t.dims = true := by simp [validTranspose, hr]
  unfold vTranspose at h
  rw [if_pos hv, e] at h
  simp only [Out.ofOpt, Out.ok.injEq] at h
  subst h
  exact ⟨hr, rfl, wf, fun u hu => (hget u hu).1⟩

/-- **Transpose is an involution** — for every rank ≥ 2 and all sizes: transposing the result of an accepted
    `Transpose` is accepted and gives back the original tensor (dims and data). -/
theorem transpose_involution (t t' : Tensor α) (hwf : t.WF) (h : vTranspose t = .ok t') : vTranspose t' = .ok t := by
  obtain ⟨hr, hd', wf', hget'⟩ := vTranspose_get t t' hwf h
  have hr' : 2 ≤ t'.dims.length := by rw [hd', transposeDims_length]; exact hr
  obtain ⟨t'', e'', hd'', wf''⟩ := (C04.vTranspose_total t' wf').1 hr'
  obtain ⟨_, _, _, hget''⟩ := vTranspose_get t' t'' wf' e''
  rw [e'']
  congr 1
  have hdims : t''.dims = t.dims := by rw [hd'', hd', transposeDims_invol]
  apply tensor_ext t'' t wf'' hwf hdims
  intro idx hidx
  -- write the big-endian index as the reverse of a little-endian one
  have hu : Valid (transposeDims t'.dims).reverse idx.reverse := by
    rw [← hd'']; exact valid_reverse hidx
  have h1 := hget'' idx.reverse hu
  rw [List.reverse_reverse] at h1
  have hu' : Valid (transposeDims t.dims).reverse (swap2 idx.reverse) := by
    rw [← hd']; exact valid_swap2 hu
  have h2 := hget' (swap2 idx.reverse) hu'
  rw [h1, h2, swap2_swap2, List.reverse_reverse]

/-- non-vacuity (kernel-checked on `Int`): a batched [2,2,3] tensor, transposed twice -/
example : vTranspose (⟨[2, 2, 3], [1, 2, 3, 4, 5, 6, 7, 8, 9, 10, 11, 12]⟩ : Tensor Int)
      = .ok ⟨[2, 3, 2], [1, 4, 2, 5, 3, 6, 7, 10, 8, 11, 9, 12]⟩ ∧
    vTranspose (⟨[2, 3, 2], [1, 4, 2, 5, 3, 6, 7, 10, 8, 11, 9, 12]⟩ : Tensor Int)
      = .ok ⟨[2, 2, 3], [1, 2, 3, 4, 5, 6, 7, 8, 9, 10, 11, 12]⟩ := by decide

/-! ## 2. Patch / Slice round trips -/

theorem validRange_cases {a b : Int} {d : Nat} (h : validRange (a, b) d = true) :
    (a = 0 ∧ b = 0) ∨ (0 ≤ a ∧ a < b ∧ b ≤ (d : Int)) := by
  unfold validRange at h
  by_cases h0 : a = 0 ∧ b = 0
  · exact Or.inl h0
  · right
    have hne : ¬ ((a == 0 && b == 0) = true) := by simpa using h0
    simp only [hne, if_false] at h
    by_cases hge : a ≥ b
    · simp [hge] at h
    · simp only [hge, if_false] at h
      have hr' : (decide (a < 0) || decide (a ≥ (d : Int)) || decide (b < 1) || decide (b ≥ (d : Int) + 1)) = false := by
        cases hb : (decide (a < 0) || decide (a ≥ (d : Int)) || decide (b < 1) || decide (b ≥ (d : Int) + 1)) with
        | false => rfl
        | true => rw [hb] at h; simp at h
      simp only [Bool.or_eq_false_iff, decide_eq_false_iff_not] at hr'
      omega

/-- a non-empty range `[a, b)` inside a dimension of size `d` is accepted -/
theorem validRange_of {a b : Int} {d : Nat} (h0 : 0 ≤ a) (h1 : a < b) (h2 : b ≤ (d : Int)) : validRange (a, b) d = true := by
  have hne : ¬ (((a, b).1 == 0 && (a, b).2 == 0) = true) := by
    simp only [Bool.and_eq_true, beq_iff_eq]; omega
  have hge : ¬ ((a, b).1 ≥ (a, b).2) := by simp only []; omega
  unfold validRange
  rw [if_neg hne, if_neg hge]
  have e1 : decide (a < 0) = false := by simp; omega
  have e2 : decide (a ≥ (d : Int)) = false := by simp; omega
  have e3 : decide (b < 1) = false := by simp; omega
  have e4 : decide (b ≥ (d : Int) + 1) = false := by simp; omega
  simp only [e1, e2, e3, e4]; rfl

theorem validSliceIndex_cons_iff (r : IRange) (rest : List IRange) (d : Nat) (ds : List Nat) :
    validSliceIndex (r :: rest) (d :: ds) = true ↔ (validRange r d = true ∧ validSliceIndex rest ds = true) := by
  simp only [validSliceIndex, List.length_cons, List.zip_cons_cons, List.all_cons, Bool.and_eq_true,
    decide_eq_true_eq]
  constructor
  · intro h; exact ⟨h.2.1, by omega, h.2.2⟩
  · intro h; exact ⟨by have := h.2.1; omega, h.1, h.2.2⟩

theorem validPatchIndex_nil_cons {s d : Nat} {ss ds : List Nat} (h : validPatchIndex [] (s :: ss) (d :: ds) = true) :
    s ≤ d ∧ validPatchIndex [] ss ds = true := by
  simp only [validPatchIndex, List.length_cons, List.zip_cons_cons, List.all_cons, Bool.and_eq_true,
    decide_eq_true_eq, beq_iff_eq] at h ⊢
  refine ⟨h.1.1.2.1, ⟨⟨by omega, h.1.1.2.2⟩, ?_⟩, ?_⟩ <;> simp [validSliceIndex]

theorem validPatchIndex_cons {r : IRange} {rest : List IRange} {s d : Nat} {ss ds : List Nat}
    (h : validPatchIndex (r :: rest) (s :: ss) (d :: ds) = true) :
    s ≤ d ∧ validRange r d = true ∧ ((r.1 = 0 ∧ r.2 = 0) ∨ r.2 - r.1 = (s : Int)) ∧
      validPatchIndex rest ss ds = true := by
  simp only [validPatchIndex, List.length_cons, List.zip_cons_cons, List.all_cons, Bool.and_eq_true,
    decide_eq_true_eq, beq_iff_eq, validSliceIndex, Bool.or_eq_true] at h ⊢
  obtain ⟨⟨⟨hlen, hle, hles⟩, ⟨hlen2, hr, hrs⟩⟩, hc, hcs⟩ := h
  exact ⟨hle, hr, hc, ⟨⟨by omega, hles⟩, ⟨by omega, hrs⟩⟩, hcs⟩

/-- every range of the complete index covers exactly the source size -/
inductive Covers : List (Nat × Nat) → List Nat → Prop
  | nil : Covers [] []
  | cons {f t W s ss} : t = f + s → Covers W ss → Covers ((f, t) :: W) (s :: ss)

theorem covers_complete : ∀ {idx sds dds}, C06.PatchOK idx sds dds → Covers (completeIndex idx sds) sds
  | _, _, _, .nil => by simp [completeIndex]; exact .nil
  | _, _, _, .omit h hr => by
    simp only [completeIndex]
    exact .cons (by omega) (covers_complete hr)
  | _, _, _, .cons (f := f) (t := t) (sd := sd) h hrange hr => by
    simp only [completeIndex]
    split
    · exact .cons (by omega) (covers_complete hr)
    · rename_i hne
      rcases hrange with h0 | h1
      · exact absurd h0 hne
      · exact .cons (by omega) (covers_complete hr)

theorem sliceDims_covers : ∀ {W pd}, Covers W pd → sliceDims W = pd
  | _, _, .nil => rfl
  | _, _, .cons h hc => by
    have ih := sliceDims_covers hc
    simp only [sliceDims] at ih
    simp only [sliceDims, List.map_cons, ih]
    congr 1; omega

theorem completeIndex_covers : ∀ {W pd} (gd : List Nat), Covers W pd → (∀ s ∈ pd, 0 < s) → pd.length = gd.length →
    completeIndex W gd = W
  | _, _, [], .nil, _, _ => by simp [completeIndex]
  | _, _, _ :: _, .nil, _, hl => by simp at hl
  | _, _, [], .cons _ _, _, hl => by simp at hl
  | _, _, d :: gd, .cons (f := f) (t := t) (s := s) h hc, hpos, hl => by
    have hs : 0 < s := hpos s (by simp)
    have ih := completeIndex_covers gd hc (fun x hx => hpos x (by simp [hx])) (by simpa using hl)
    simp only [completeIndex]
    rw [if_neg (by omega), ih]

theorem inBlock_covers : ∀ {W pd js}, Covers W pd → Valid pd js → InBlock W js
  | _, _, _, .nil, .nil => .nil
  | _, _, _, .cons h hc, .cons hj hv => .cons (by omega) (inBlock_covers hc hv)

/-- `patchedBlock(index, p)`: an index the validator accepts as a Slice index of the target, and (on natural numbers)
    the complete index `Patch` itself used for the write -/
theorem patchedBlock_spec : ∀ (index : List IRange) (pd gd : List Nat), validPatchIndex index pd gd = true →
    (∀ s ∈ pd, 0 < s) →
    validSliceIndex (patchedBlock index pd) gd = true ∧
      natRanges (patchedBlock index pd) = completeIndex (natRanges index) pd
  | index, [], gd, h, _ => by
    have : gd = [] := by
      cases gd with
      | nil => rfl
      | cons _ _ => simp [validPatchIndex] at h
    subst this
    cases index <;> simp [patchedBlock, validSliceIndex, natRanges, completeIndex]
  | _, s :: ss, [], h, _ => by simp [validPatchIndex] at h
  | [], s :: ss, d :: ds, h, hpos => by
    obtain ⟨hle, hrest⟩ := validPatchIndex_nil_cons h
    have hs : 0 < s := hpos s (by simp)
    obtain ⟨ih1, ih2⟩ := patchedBlock_spec [] ss ds hrest (fun x hx => hpos x (by simp [hx]))
    simp only [natRanges, List.map_nil] at ih2
    refine ⟨?_, ?_⟩
    · simp only [patchedBlock]
      rw [validSliceIndex_cons_iff]
      exact ⟨validRange_of (by omega) (by omega) (by omega), ih1⟩
    · simp only [patchedBlock, natRanges, List.map_cons, List.map_nil, completeIndex, Int.toNat_zero, Int.toNat_natCast]
      rw [ih2]
  | r :: rest, s :: ss, d :: ds, h, hpos => by
    obtain ⟨a, b⟩ := r
    obtain ⟨hle, hr, hc, hrest⟩ := validPatchIndex_cons h
    have hs : 0 < s := hpos s (by simp)
    obtain ⟨ih1, ih2⟩ := patchedBlock_spec rest ss ds hrest (fun x hx => hpos x (by simp [hx]))
    simp only [natRanges] at ih2
    rcases validRange_cases hr with h0 | h1
    · -- `{0,0}`: the block starts at offset 0 and has the source's size
      obtain ⟨ha0, hb0⟩ := h0
      rw [ha0, hb0]
      refine ⟨?_, ?_⟩
      · simp only [patchedBlock, beq_self_eq_true, Bool.and_self, if_true]
        rw [validSliceIndex_cons_iff]
        exact ⟨validRange_of (by omega) (by omega) (by omega), ih1⟩
      · simp only [patchedBlock, beq_self_eq_true, Bool.and_self, if_true, natRanges, List.map_cons, completeIndex,
          Int.toNat_zero, Int.toNat_natCast, and_self]
        rw [ih2]
    · have hne : ¬ ((a == 0 && b == 0) = true) := by
        simp only [Bool.and_eq_true, beq_iff_eq]; omega
      have hpb : patchedBlock ((a, b) :: rest) (s :: ss) = (a, b) :: patchedBlock rest ss := by
        simp only [patchedBlock]; rw [if_neg hne]
      rw [hpb]
      refine ⟨?_, ?_⟩
      · rw [validSliceIndex_cons_iff]
        exact ⟨hr, ih1⟩
      · simp only [natRanges, List.map_cons, completeIndex]
        have hne' : ¬ (a.toNat = 0 ∧ b.toNat = 0) := by omega
        rw [if_neg hne', ih2]

/-- a source index, shifted to the write position, is a valid target index inside the written block, and shifting back
    recovers it -/
theorem shift_unshift : ∀ {W sds dds js}, FitsP W sds dds → Valid sds js →
    Valid dds (shiftIdx W js) ∧ insideP W sds (shiftIdx W js) = true ∧ unshiftP W (shiftIdx W js) = js
  | _, _, _, _, .nil, .nil => ⟨.nil, rfl, rfl⟩
  | _, _, _, _, .cons (f := f) (sd := sd) hfit hrest, .cons (s := j) hj hv => by
    obtain ⟨h1, h2, h3⟩ := shift_unshift hrest hv
    refine ⟨?_, ?_, ?_⟩
    · simp only [shiftIdx]; exact .cons (by omega) h1
    · simp only [shiftIdx, insideP, h2, Bool.and_true, decide_eq_true_eq]; omega
    · simp only [shiftIdx, unshiftP, h3]; congr 1; omega

/-- `insideP` spelled out: every coordinate lies in `[From, From + size)` of its range -/
theorem insideP_iff : ∀ {W sds dds js}, FitsP W sds dds → Valid dds js →
    (insideP W sds js = true ↔ ∀ k, k < js.length → (W.getD k (0, 0)).1 ≤ js.getD k 0 ∧ js.getD k 0 < (W.getD k (0, 0)).1 + sds.getD k 0)
  | _, _, _, _, .nil, .nil => by simp [insideP]
  | _, _, _, _, .cons (f := f) (t := t) (idx := W) (sd := sd) (sds := sds) hfit hrest, .cons (s := j) (ss := js) hj hv => by
    have ih := insideP_iff hrest hv
    simp only [insideP, Bool.and_eq_true, decide_eq_true_eq, ih, List.length_cons]
    constructor
    · rintro ⟨h0, hr⟩ k hk
      cases k with
      | zero => simpa using h0
      | succ k => simpa using hr k (by omega)
    · intro h
      refine ⟨by simpa using h 0 (by omega), ?_⟩
      intro k hk
      simpa using h (k + 1) (by omega)

/-- what an accepted `Patch` returns: the target's dims, well formed, `C06.patch_get`'s element formula -/
theorem vPatch_get (t p r : Tensor α) (ht : t.WF) (hp : p.WF) (index : List IRange) (h : vPatch t index p = .ok r) :
    validPatchIndex index p.dims t.dims = true ∧ r.dims = t.dims ∧ r.WF ∧
      ∀ js, Valid t.dims js →
        r.at? js = if insideP (completeIndex (natRanges index) p.dims) p.dims js
          then p.at? (unshiftP (completeIndex (natRanges index) p.dims) js) else t.at? js := by
  have hv : validPatchIndex index p.dims t.dims = true := by
    cases hb : validPatchIndex index p.dims t.dims with
    | true => rfl
    | false => rw [(C09.vPatch_total t p ht hp index).2 hb] at h; cases h
  obtain ⟨data, e, hlen, hget⟩ := C06.patch_get t p ht hp (natRanges index) (C09.patchOK_of_valid index _ _ hv)
  unfold vPatch at h
  rw [if_pos hv, e] at h
  simp only [Out.ofOpt, Out.ok.injEq] at h
  subst h
  exact ⟨hv, rfl, ⟨hlen, ht.2⟩, hget⟩

/-- **Slicing the window that was patched returns the patch** — for every rank and every mix of explicit, omitted
    and `{0,0}` ranges: if `Patch(t, index, p)` is accepted with result `r`, then `Slice(r, patchedBlock index p.dims)`
    — the block `gradtrack.Patch` slices for the source operand: the given range where explicit, `[0, size of p)` where
    omitted or `{0,0}` — is accepted and is exactly `p` (dims and data). -/
theorem slice_of_patch (t p r : Tensor α) (ht : t.WF) (hp : p.WF) (index : List IRange)
    (h : vPatch t index p = .ok r) : vSlice r (patchedBlock index p.dims) = .ok p := by
  obtain ⟨hv, hd, wr, hget⟩ := vPatch_get t p r ht hp index h
  have hpok := C09.patchOK_of_valid index _ _ hv
  have hfit := C06.fitsP_complete hpok
  have hcov := covers_complete hpok
  have hlen : p.dims.length = r.dims.length := by rw [hd]; exact hfit.lengths
  obtain ⟨hvs, hnat⟩ := patchedBlock_spec index p.dims t.dims hv hp.2
  rw [← hd] at hvs
  obtain ⟨data, e, hl, hsl⟩ := C06.slice_get r wr _ (C09.rangesOK_of_valid _ _ hvs)
  rw [hnat, completeIndex_covers r.dims hcov hp.2 hlen, sliceDims_covers hcov] at e hl hsl
  unfold vSlice
  rw [if_pos hvs, hnat, e]
  simp only [Out.ofOpt, Out.ok.injEq]
  refine tensor_ext ⟨p.dims, data⟩ p ⟨hl, hp.2⟩ hp rfl (fun js hjs => ?_)
  obtain ⟨h1, h2, h3⟩ := shift_unshift hfit hjs
  rw [hsl js (inBlock_covers hcov hjs), hget _ h1, if_pos h2, h3]

/-- **Patch outside the window leaves the target** — the result of an accepted `Patch` has the target's dims and, at
    every valid index with some coordinate outside `[From, From + size of p)` of its range (`insideP … = false`, spelled
    out by `insideP_iff`), holds the target's element. -/
theorem patch_outside (t p r : Tensor α) (ht : t.WF) (hp : p.WF) (index : List IRange)
    (h : vPatch t index p = .ok r) :
    r.dims = t.dims ∧ r.WF ∧
      ∀ js, Valid t.dims js → insideP (completeIndex (natRanges index) p.dims) p.dims js = false → r.at? js = t.at? js := by
  obtain ⟨hv, hd, wr, hget⟩ := vPatch_get t p r ht hp index h
  refine ⟨hd, wr, ?_⟩
  intro js hjs hout
  rw [hget js hjs, hout]; rfl

/-- the same, with "outside" spelled out: some coordinate `k` of the index misses the written range along dimension `k` -/
theorem patch_outside' (t p r : Tensor α) (ht : t.WF) (hp : p.WF) (index : List IRange)
    (h : vPatch t index p = .ok r) (js : List Nat) (hjs : Valid t.dims js) (k : Nat) (hk : k < js.length)
    (hout : js.getD k 0 < ((completeIndex (natRanges index) p.dims).getD k (0, 0)).1 ∨
      ((completeIndex (natRanges index) p.dims).getD k (0, 0)).1 + p.dims.getD k 0 ≤ js.getD k 0) :
    r.at? js = t.at? js := by
  obtain ⟨hv, _, _, _⟩ := vPatch_get t p r ht hp index h
  have hfit := C06.fitsP_complete (C09.patchOK_of_valid index _ _ hv)
  apply (patch_outside t p r ht hp index h).2.2 js hjs
  cases hb : insideP (completeIndex (natRanges index) p.dims) p.dims js with
  | false => rfl
  | true =>
    have := (insideP_iff hfit hjs).mp hb k hk
    omega

/-- non-vacuity (kernel-checked on `Int`): a [2,2] patch into a [3,3] target with the partial index `{1:3}` (offset 0
    along the omitted dimension); the block is `{1:3},{0:2}`, slicing it returns the patch -/
example : vPatch (⟨[3, 3], [1, 2, 3, 4, 5, 6, 7, 8, 9]⟩ : Tensor Int) [(1, 3)] ⟨[2, 2], [10, 20, 30, 40]⟩
      = .ok ⟨[3, 3], [1, 2, 3, 10, 20, 6, 30, 40, 9]⟩ ∧
    patchedBlock [(1, 3)] [2, 2] = [(1, 3), (0, 2)] ∧
    vSlice (⟨[3, 3], [1, 2, 3, 10, 20, 6, 30, 40, 9]⟩ : Tensor Int) (patchedBlock [(1, 3)] [2, 2])
      = .ok ⟨[2, 2], [10, 20, 30, 40]⟩ := by decide

/-! ## 3. Concat / Slice round trip -/

/-- the complete window of the k-th operand: `[base, base+len)` at `dim`, the whole dimension elsewhere -/
def catWin : Nat → Nat → Nat → List Nat → List (Nat × Nat)
  | _, _, _, [] => []
  | 0, base, len, _ :: ds => (base, base + len) :: ds.map (fun d => (0, d))
  | dim + 1, base, len, d :: ds => (0, d) :: catWin dim base len ds

/-- add `b` to coordinate `k` -/
def addAt : Nat → Nat → List Nat → List Nat
  | _, _, [] => []
  | 0, b, j :: js => (j + b) :: js
  | k + 1, b, j :: js => j :: addAt k b js

theorem completeIndex_zeros : ∀ (l : List IRange) (ds : List Nat), (∀ r ∈ l, r = ((0 : Int), (0 : Int))) →
    completeIndex (natRanges l) ds = ds.map (fun d => (0, d))
  | _, [], _ => by simp [completeIndex]
  | [], d :: ds, _ => by
    have ih := completeIndex_zeros [] ds (by simp)
    simp only [natRanges, List.map_nil] at ih
    simp [natRanges, completeIndex, ih]
  | r :: l, d :: ds, h => by
    have ih := completeIndex_zeros l ds (fun x hx => h x (by simp [hx]))
    have hr : r = (0, 0) := h r (by simp)
    simp only [natRanges] at ih
    simp [natRanges, completeIndex, hr, ih]

theorem range_map_succ {β : Type} (g : Nat → β) (n : Nat) :
    (List.range (n + 1)).map g = g 0 :: (List.range n).map (fun i => g (i + 1)) := by
  rw [List.range_succ_eq_map]
  simp [List.map_map, Function.comp_def]

theorem completeIndex_oneRange : ∀ (dim base len : Nat) (ds : List Nat) (g : Nat → IRange), 0 < len →
    g dim = ((base : Int), ((base + len : Nat) : Int)) → (∀ i, i ≠ dim → g i = (0, 0)) →
    completeIndex (natRanges ((List.range ds.length).map g)) ds = catWin dim base len ds
  | _, _, _, [], _, _, _, _ => by simp [completeIndex, catWin]
  | 0, base, len, d :: ds, g, hl, hg, hz => by
    rw [List.length_cons, range_map_succ, hg]
    have hrest := completeIndex_zeros ((List.range ds.length).map (fun i => g (i + 1))) ds (by
      intro r hr
      obtain ⟨i, _, rfl⟩ := List.mem_map.mp hr
      exact hz (i + 1) (by omega))
    simp only [natRanges, List.map_cons, completeIndex, catWin] at hrest ⊢
    have hne : ¬ ((base : Int).toNat = 0 ∧ ((base + len : Nat) : Int).toNat = 0) := by omega
    rw [if_neg hne, hrest]
    simp only [Int.toNat_natCast]
  | dim + 1, base, len, d :: ds, g, hl, hg, hz => by
    rw [List.length_cons, range_map_succ, hz 0 (by omega)]
    have ih := completeIndex_oneRange dim base len ds (fun i => g (i + 1)) hl hg
      (fun i hi => hz (i + 1) (by omega))
    simp only [natRanges, List.map_cons, completeIndex, catWin] at ih ⊢
    rw [ih]
    simp

/-- the index the Concat constructor builds, completed against the result dims -/
theorem completeIndex_concatIndex (dim base len : Nat) (ds : List Nat) (hl : 0 < len) :
    completeIndex (natRanges (concatIndex ds.length dim base len)) ds = catWin dim base len ds := by
  unfold concatIndex
  exact completeIndex_oneRange dim base len ds _ hl (by simp) (fun i hi => by simp [hi])

theorem validSliceIndex_concatIndex : ∀ (dim base len : Nat) (ds : List Nat), 0 < len → dim < ds.length →
    base + len ≤ ds.getD dim 0 → validSliceIndex (concatIndex ds.length dim base len) ds = true := by
  intro dim base len ds hl hdim hb
  simp only [validSliceIndex, concatIndex, List.length_map, List.length_range, Nat.le_refl, decide_true, Bool.true_and,
    List.all_eq_true]
  intro p hp
  obtain ⟨i, hi1, hi2⟩ := List.mem_iff_getElem.mp hp
  have hi : i < ds.length := by
    simp only [List.length_zip, List.length_map, List.length_range, Nat.min_self] at hi1; exact hi1
  simp only [List.getElem_zip, List.getElem_map, List.getElem_range] at hi2
  rw [← hi2]
  by_cases hid : i = dim
  · have hgd : ds.getD dim 0 = ds[i] := by
      subst hid
      simp [List.getD, List.getElem?_eq_getElem hi]
    rw [hgd] at hb
    simp only [hid, if_true]
    subst hid
    exact validRange_of (by omega) (by omega) (by omega)
  · simp [hid, validRange]

theorem sliceDims_catWin : ∀ (dim base len : Nat) (ds : List Nat), dim < ds.length →
    sliceDims (catWin dim base len ds) = ds.set dim len
  | _, _, _, [], h => by simp at h
  | 0, base, len, d :: ds, _ => by
    simp only [catWin, sliceDims, List.map_cons, List.map_map, List.set_cons_zero]
    congr 1
    · omega
    · conv => rhs; rw [← List.map_id ds]
      apply List.map_congr_left; intro x _; simp
  | dim + 1, base, len, d :: ds, h => by
    have ih := sliceDims_catWin dim base len ds (by simpa using h)
    simp only [sliceDims] at ih
    simp only [catWin, sliceDims, List.map_cons, List.set_cons_succ, ih]
    simp

theorem inBlock_whole : ∀ {ds js : List Nat}, Valid ds js → InBlock (ds.map (fun d => (0, d))) js
  | _, _, .nil => .nil
  | _, _, .cons h hv => by
    simp only [List.map_cons]
    exact .cons (by omega) (inBlock_whole hv)

theorem shiftIdx_whole : ∀ {ds js : List Nat}, Valid ds js → shiftIdx (ds.map (fun d => (0, d))) js = js
  | _, _, .nil => rfl
  | _, _, .cons h hv => by simp [shiftIdx, shiftIdx_whole hv]

theorem inBlock_catWin : ∀ (dim base len : Nat) {ds js : List Nat}, dim < ds.length → Valid (ds.set dim len) js →
    InBlock (catWin dim base len ds) js ∧ shiftIdx (catWin dim base len ds) js = addAt dim base js
  | _, _, _, [], _, h, _ => by simp at h
  | 0, base, len, d :: ds, _, _, hv => by
    simp only [List.set_cons_zero] at hv
    cases hv with
    | cons hj hv' =>
      simp only [catWin, shiftIdx, addAt, shiftIdx_whole hv', and_true]
      exact .cons (by omega) (inBlock_whole hv')
  | dim + 1, base, len, d :: ds, _, h, hv => by
    simp only [List.set_cons_succ] at hv
    cases hv with
    | cons hj hv' =>
      obtain ⟨h1, h2⟩ := inBlock_catWin dim base len (by simpa using h) hv'
      simp only [catWin, shiftIdx, addAt, h2, Nat.add_zero, and_true]
      exact .cons (by omega) h1

/-- an operand-local index, moved by `base` along `dim`, is a valid result index -/
theorem valid_addAt : ∀ (dim base len : Nat) {ds js : List Nat}, dim < ds.length → Valid (ds.set dim len) js →
    base + len ≤ ds.getD dim 0 → Valid ds (addAt dim base js) ∧ js.getD dim 0 < len ∧ dim < js.length
  | _, _, _, [], _, h, _, _ => by simp at h
  | 0, base, len, d :: ds, _, _, hv, hb => by
    simp only [List.set_cons_zero] at hv
    simp only [List.getD_cons_zero] at hb
    cases hv with
    | cons hj hv' =>
      simp only [addAt, List.getD_cons_zero, List.length_cons]
      exact ⟨.cons (by omega) hv', hj, by omega⟩
  | dim + 1, base, len, d :: ds, _, h, hv, hb => by
    simp only [List.set_cons_succ] at hv
    simp only [List.getD_cons_succ] at hb
    cases hv with
    | cons hj hv' =>
      obtain ⟨h1, h2, h3⟩ := valid_addAt dim base len (by simpa using h) hv' hb
      simp only [addAt, List.getD_cons_succ, List.length_cons]
      exact ⟨.cons hj h1, h2, by omega⟩

theorem take_sum_le : ∀ (l : List Nat) (k : Nat), (l.take k).sum + l.getD k 0 ≤ l.sum
  | [], k => by simp
  | x :: l, 0 => by simp
  | x :: l, k + 1 => by
    have := take_sum_le l k
    simp only [List.take_succ_cons, List.sum_cons, List.getD_cons_succ]
    omega

/-- position `x` of the k-th operand sits at `x + (sizes of the operands before it)` -/
theorem locate_base : ∀ (lens : List Nat) (k x : Nat), x < lens.getD k 0 →
    locate lens (x + (lens.take k).sum) = some (k, x)
  | [], k, x, h => by simp at h
  | l :: ls, 0, x, h => by
    simp only [List.getD_cons_zero] at h
    rw [List.take_zero, List.sum_nil, Nat.add_zero]
    show (if x < l then some (0, x) else _) = _
    rw [if_pos h]
  | l :: ls, k + 1, x, h => by
    simp only [List.getD_cons_succ] at h
    have ih := locate_base ls k x h
    have hs : ((l :: ls).take (k + 1)).sum = l + (ls.take k).sum := by
      rw [List.take_succ_cons, List.sum_cons]
    rw [hs]
    show (if x + (l + (ls.take k).sum) < l then _
      else (locate ls (x + (l + (ls.take k).sum) - l)).map (fun p => (p.1 + 1, p.2))) = _
    rw [if_neg (by omega)]
    have : x + (l + (ls.take k).sum) - l = x + (ls.take k).sum := by omega
    rw [this, ih]
    rfl

theorem route_addAt (lens : List Nat) (k : Nat) : ∀ (d : Nat) (js : List Nat), d < js.length →
    js.getD d 0 < lens.getD k 0 → route d lens (addAt d ((lens.take k).sum) js) = some (k, js)
  | _, [], h, _ => by simp at h
  | 0, j :: is, _, h => by
    simp only [List.getD_cons_zero] at h
    simp only [addAt, route, locate_base lens k j h, Option.map_some]
  | d + 1, j :: is, hd, h => by
    simp only [List.getD_cons_succ] at h
    have ih := route_addAt lens k d is (by simpa using hd) h
    simp only [addAt, route, ih, Option.map_some]

/-- what `ValidateConcatTensorsDimsAlongDim` accepts: `0 ≤ dim < rank` and every operand agreeing with the first one on
    the rank and on every dimension except `dim` -/
theorem validConcat_shape (t0 : Tensor α) (rest : List (Tensor α)) (dim : Int)
    (h : validConcat ((t0 :: rest).map (·.dims)) dim = true) :
    0 ≤ dim ∧ dim.toNat < t0.dims.length ∧
    ∀ t ∈ t0 :: rest, t.dims.length = t0.dims.length ∧ ∀ j, j ≠ dim.toNat → t.dims[j]? = t0.dims[j]? := by
  simp only [validConcat, List.map_cons, List.all_eq_true] at h
  have h0 := h t0.dims (by simp)
  simp only [Bool.and_eq_true, decide_eq_true_eq, beq_iff_eq] at h0
  have hd0 : 0 ≤ dim := h0.1.2.1
  have hd1 : dim < (t0.dims.length : Int) := h0.1.2.2
  refine ⟨hd0, by omega, ?_⟩
  intro t ht
  have hmem : t.dims ∈ t0.dims :: List.map (·.dims) rest := by
    rcases List.mem_cons.mp ht with e | e
    · rw [e]; simp
    · exact List.mem_cons_of_mem _ (List.mem_map.mpr ⟨t, e, rfl⟩)
  have ht' := h t.dims hmem
  simp only [Bool.and_eq_true, decide_eq_true_eq, beq_iff_eq, List.all_eq_true, List.mem_range, Bool.or_eq_true] at ht'
  obtain ⟨⟨⟨_, hlen⟩, _⟩, hall⟩ := ht'
  refine ⟨hlen, ?_⟩
  intro j hj
  by_cases hjl : j < t.dims.length
  · rcases hall j hjl with e | e
    · exact absurd (by omega : j = dim.toNat) hj
    · exact e
  · rw [List.getElem?_eq_none (by omega), List.getElem?_eq_none (by omega)]

/-- the round trip at the level of `concatRaw` (natural `dim`) -/
theorem slice_of_concatRaw (t0 : Tensor α) (rest : List (Tensor α)) (d : Nat) (hdim : d < t0.dims.length)
    (hwf : ∀ t ∈ t0 :: rest, t.WF)
    (hagree : ∀ t ∈ t0 :: rest, t.dims.length = t0.dims.length ∧ ∀ j, j ≠ d → t.dims[j]? = t0.dims[j]?)
    (r : Tensor α) (hr : concatRaw (t0 :: rest) d = some r) (k : Nat) (tk : Tensor α) (hk : (t0 :: rest)[k]? = some tk) :
    r.WF ∧ vSlice r (concatIndex tk.dims.length d ((((t0 :: rest).take k).map (fun t => t.dims.getD d 0)).sum)
      (tk.dims.getD d 0)) = .ok tk := by
  obtain ⟨data, e, hlen, hroute⟩ := C06.concat_get t0 rest d hdim hwf hagree
  generalize hlens : (t0 :: rest).map (fun t => t.dims.getD d 0) = lens at e hlen hroute
  rw [e] at hr
  simp only [Option.some.injEq] at hr
  subst hr
  -- the k-th operand
  have hmem : tk ∈ t0 :: rest := List.mem_of_getElem? hk
  have wk := hwf tk hmem
  obtain ⟨hlk, hjk⟩ := hagree tk hmem
  have hdk : d < tk.dims.length := by omega
  have hpos0 : ∀ t ∈ t0 :: rest, 0 < t.dims.getD d 0 := by
    intro t ht
    have hl := (hagree t ht).1
    have hdt : d < t.dims.length := by omega
    rw [List.getD_eq_getElem?_getD, List.getElem?_eq_getElem hdt]
    exact (hwf t ht).2 _ (List.getElem_mem hdt)
  have hl : 0 < tk.dims.getD d 0 := hpos0 tk hmem
  have hlensk : lens.getD k 0 = tk.dims.getD d 0 := by
    rw [← hlens, List.getD_eq_getElem?_getD, List.getElem?_map, hk]; rfl
  have hbase : (((t0 :: rest).take k).map (fun t => t.dims.getD d 0)).sum = (lens.take k).sum := by
    rw [← hlens, List.map_take]
  rw [hbase]
  have hb : (lens.take k).sum + tk.dims.getD d 0 ≤ lens.sum := by
    have := take_sum_le lens k
    rw [hlensk] at this; exact this
  have hS : (t0.dims.set d lens.sum).getD d 0 = lens.sum := by
    rw [List.getD_eq_getElem?_getD, List.getElem?_set_self hdim]; rfl
  have hdr : d < (t0.dims.set d lens.sum).length := by rw [List.length_set]; exact hdim
  have hrank : tk.dims.length = (t0.dims.set d lens.sum).length := by rw [List.length_set]; exact hlk
  -- the result is well formed
  have wr : (⟨t0.dims.set d lens.sum, data⟩ : Tensor α).WF := by
    refine ⟨hlen, ?_⟩
    intro x hx
    rcases List.mem_or_eq_of_mem_set hx with hx | hx
    · exact (hwf t0 (by simp)).2 x hx
    · have h0 := hpos0 t0 (by simp)
      rw [hx, ← hlens]
      simp only [List.map_cons, List.sum_cons]
      omega
  refine ⟨wr, ?_⟩
  -- the slice index is accepted
  have hvs := validSliceIndex_concatIndex d (lens.take k).sum (tk.dims.getD d 0) (t0.dims.set d lens.sum) hl hdr
    (by rw [hS]; exact hb)
  rw [← hrank] at hvs
  obtain ⟨sdata, es, hsl, hsget⟩ := C06.slice_get _ wr _ (C09.rangesOK_of_valid _ _ hvs)
  -- the slice has the operand's dims
  have hdims : (t0.dims.set d lens.sum).set d (tk.dims.getD d 0) = tk.dims := by
    rw [List.set_set]
    have e1 := eq_rdimsOf d t0.dims tk.dims hlk hdim hjk
    rw [rdimsOf_set d t0.dims _ hdim] at e1
    exact e1.symm
  have hci := completeIndex_concatIndex d (lens.take k).sum (tk.dims.getD d 0) (t0.dims.set d lens.sum) hl
  rw [← hrank] at hci
  simp only [] at es hsl hsget
  rw [hci, sliceDims_catWin d _ _ _ hdr, hdims] at es hsl hsget
  unfold vSlice
  rw [if_pos hvs, es]
  simp only [Out.ofOpt, Out.ok.injEq]
  refine tensor_ext ⟨tk.dims, sdata⟩ tk ⟨hsl, wk.2⟩ wk rfl (fun js hjs => ?_)
  have hjs' : Valid ((t0.dims.set d lens.sum).set d (tk.dims.getD d 0)) js := by rw [hdims]; exact hjs
  obtain ⟨h1, h2⟩ := inBlock_catWin d (lens.take k).sum (tk.dims.getD d 0) hdr hjs'
  obtain ⟨va, hjd, hdl⟩ := valid_addAt d (lens.take k).sum (tk.dims.getD d 0) hdr hjs' (by rw [hS]; exact hb)
  rw [hsget js h1, h2]
  obtain ⟨s, idx', t, r1, r2, r3⟩ := hroute _ va
  rw [route_addAt lens k d js hdl (by rw [hlensk]; exact hjd)] at r1
  simp only [Option.some.injEq, Prod.mk.injEq] at r1
  obtain ⟨rs, ri⟩ := r1
  rw [← rs, hk] at r2
  simp only [Option.some.injEq] at r2
  rw [r3, ← ri, ← r2]

/-- **Slicing a concatenation at an operand's block returns that operand** — for every operand count, rank, `dim` and
    all sizes: if `Concat(ts, dim)` is accepted with result `r`, then for every `k` the slice of `r` with the index
    `gradtrack.Concat` builds for operand `k` (`concatIndex`: whole dimensions except `[base_k, base_k + len_k)` along `dim`,
    `base_k` the sum of the sizes along `dim` of the operands before it — `Qeep.concatEdges`) is accepted and is exactly
    `ts[k]` (dims and data). -/
theorem slice_of_concat (ts : List (Tensor α)) (r : Tensor α) (dim : Int) (hwf : ∀ t ∈ ts, t.WF)
    (h : vConcat ts dim = .ok r) (k : Nat) (tk : Tensor α) (hk : ts[k]? = some tk) :
    vSlice r (concatIndex tk.dims.length dim.toNat (((ts.take k).map (fun t => t.dims.getD dim.toNat 0)).sum)
      (tk.dims.getD dim.toNat 0)) = .ok tk := by
  have hv : validConcat (ts.map (·.dims)) dim = true := by
    cases hb : validConcat (ts.map (·.dims)) dim with
    | true => rfl
    | false => simp [vConcat, hb] at h
  cases ts with
  | nil => simp [validConcat] at hv
  | cons t0 rest =>
    obtain ⟨_, hdim, hagree⟩ := validConcat_shape t0 rest dim hv
    unfold vConcat at h
    rw [if_pos hv] at h
    cases hc : concatRaw (t0 :: rest) dim.toNat with
    | none => rw [hc] at h; cases h
    | some r' =>
      rw [hc] at h
      simp only [Out.ofOpt, Out.ok.injEq] at h
      subst h
      exact (slice_of_concatRaw t0 rest dim.toNat hdim hwf hagree r' hc k tk hk).2

/-- non-vacuity (kernel-checked on `Int`): `[2,1] ++ [2,2]` along dim 1; the second operand's block is `{0,0},{1:3}` -/
example : vConcat [(⟨[2, 1], [1, 2]⟩ : Tensor Int), ⟨[2, 2], [3, 4, 5, 6]⟩] 1 = .ok ⟨[2, 3], [1, 3, 4, 2, 5, 6]⟩ ∧
    concatIndex 2 1 1 2 = [(0, 0), (1, 3)] ∧
    vSlice (⟨[2, 3], [1, 3, 4, 2, 5, 6]⟩ : Tensor Int) (concatIndex 2 1 1 2) = .ok ⟨[2, 2], [3, 4, 5, 6]⟩ ∧
    vSlice (⟨[2, 3], [1, 3, 4, 2, 5, 6]⟩ : Tensor Int) (concatIndex 2 1 0 1) = .ok ⟨[2, 1], [1, 2]⟩ := by decide

/-! ## 4. Matrix identities

The element formulas (`C04.matmul_get`, `vTranspose_get`) are first brought into big-endian form for operands
`bd ++ [m, n]` with a common batch shape `bd` (`bd = []`: plain matrices). The identities need only a few laws of the
scalar domain, collected in `RingLaws`; `ℝ` (what the property is about) and `Int` (kernel-checked witnesses) satisfy
them. IEEE floats do not (`0 · ∞`, rounding), which is why C04 is stated over `ℝ`. -/

theorem valid_app : ∀ {bd pre ds is : List Nat}, Valid bd pre → Valid ds is → Valid (bd ++ ds) (pre ++ is)
  | _, _, _, _, .nil, h => h
  | _, _, _, _, .cons h0 hv, h => .cons h0 (valid_app hv h)

theorem valid2 {a b i j : Nat} (hi : i < a) (hj : j < b) : Valid [a, b] [i, j] := .cons hi (.cons hj .nil)

/-- a valid index of `bd ++ [a, b]` is a batch index followed by a row and a column -/
theorem valid_split2 : ∀ {bd idx : List Nat} {a b : Nat}, Valid (bd ++ [a, b]) idx →
    ∃ pre i j, idx = pre ++ [i, j] ∧ Valid bd pre ∧ i < a ∧ j < b
  | [], _, _, _, h => by
    cases h with
    | cons hi h' => cases h' with
      | cons hj h'' => cases h''; exact ⟨[], _, _, rfl, .nil, hi, hj⟩
  | d :: bd, _, _, _, h => by
    cases h with
    | cons hs h' =>
      obtain ⟨pre, i, j, e, hv, hi, hj⟩ := valid_split2 h'
      exact ⟨_ :: pre, i, j, by rw [e]; rfl, .cons hs hv, hi, hj⟩

/-- extensionality for operands of shape `bd ++ [a, b]` -/
theorem tensor_ext2 (x y : Tensor α) (hx : x.WF) (hy : y.WF) (bd : List Nat) (a b : Nat) (hdx : x.dims = bd ++ [a, b])
    (hdy : y.dims = bd ++ [a, b])
    (h : ∀ pre i j, Valid bd pre → i < a → j < b → x.at? (pre ++ [i, j]) = y.at? (pre ++ [i, j])) : x = y := by
  apply tensor_ext x y hx hy (by rw [hdx, hdy])
  intro idx hidx
  rw [hdx] at hidx
  obtain ⟨pre, i, j, e, hv, hi, hj⟩ := valid_split2 hidx
  rw [e]; exact h pre i j hv hi hj

theorem transposeDims_app (bd : List Nat) (m n : Nat) : transposeDims (bd ++ [m, n]) = bd ++ [n, m] := by
  simp [transposeDims]

theorem foldl_congr' {β γ : Type} (f g : β → γ → β) : ∀ (l : List γ) (z : β), (∀ p ∈ l, ∀ s, f s p = g s p) →
    l.foldl f z = l.foldl g z
  | [], _, _ => rfl
  | p :: l, z, h => by
    simp only [List.foldl_cons]
    rw [h p (by simp) z]
    exact foldl_congr' f g l _ (fun q hq => h q (List.mem_cons_of_mem _ hq))

section
variable [Scalar α]

/-- the element at an index, `0` where there is none -/
def el (t : Tensor α) (idx : List Nat) : α := (t.at? idx).getD Scalar.zero

theorem at?_el (t : Tensor α) (hwf : t.WF) {idx : List Nat} (hv : Valid t.dims idx) : t.at? idx = some (el t idx) := by
  obtain ⟨x, hx⟩ := at?_some t hwf hv
  simp [el, hx]

omit [Scalar α] in
/-- **Transpose, big-endian form**: `y[b…, i, j] = x[b…, j, i]` for every batch index -/
theorem vTranspose_get_be (t r : Tensor α) (hwf : t.WF) (bd : List Nat) (m n : Nat) (hd : t.dims = bd ++ [m, n])
    (h : vTranspose t = .ok r) :
    r.dims = bd ++ [n, m] ∧ r.WF ∧
      ∀ pre i j, Valid bd pre → i < n → j < m → r.at? (pre ++ [i, j]) = t.at? (pre ++ [j, i]) := by
  obtain ⟨_, hdr, wr, hget⟩ := vTranspose_get t r hwf h
  rw [hd, transposeDims_app] at hdr hget
  refine ⟨hdr, wr, ?_⟩
  intro pre i j hv hi hj
  have hu : Valid (bd ++ [n, m]).reverse (pre ++ [i, j]).reverse := valid_reverse (valid_app hv (valid2 hi hj))
  have := hget _ hu
  rw [List.reverse_reverse] at this
  rw [this]
  simp [swap2]

omit [Scalar α] in
/-- accepted exactly like `C04.vTranspose_total`, in the `bd ++ [m, n]` form -/
theorem vTranspose_ok (t : Tensor α) (hwf : t.WF) (bd : List Nat) (m n : Nat) (hd : t.dims = bd ++ [m, n]) :
    ∃ r, vTranspose t = .ok r := by
  obtain ⟨r, e, _⟩ := (C04.vTranspose_total t hwf).1 (by rw [hd]; simp)
  exact ⟨r, e⟩

theorem targetBroadcastDims_app2 (bd : List Nat) (m n n' k : Nat) :
    ∃ x y, targetBroadcastDims (bd ++ [m, n]) (bd ++ [n', k]) = bd ++ [x, y] := by
  refine ⟨if m > n' then m else n', if n > k then n else k, ?_⟩
  simp [targetBroadcastDims, targetBroadcastLE, targetBroadcastLE_self]

theorem matMulShape_app2 (bd : List Nat) (x y m n : Nat) : matMulShape (bd ++ [x, y]) (bd ++ [m, n]) = bd ++ [m, n] := by
  simp [matMulShape, List.dropLast_append_cons, List.dropLast_cons_of_ne_nil]

theorem validMatMul_app2 (bd : List Nat) (m n k : Nat) : validMatMul (bd ++ [m, n]) (bd ++ [n, k]) = true := by
  simp [validMatMul, List.dropLast_append_cons, List.dropLast_cons_of_ne_nil]

/-- the kernel run (`C04.matmul_get`) for well-formed operands `bd ++ [m, n]`, `bd ++ [n, k]` -/
theorem matMulRaw_get (a b : Tensor α) (ha : a.WF) (hb : b.WF) (bd : List Nat) (m n k : Nat)
    (hda : a.dims = bd ++ [m, n]) (hdb : b.dims = bd ++ [n, k]) :
    ∃ c, a.matMulRaw b = some c ∧ c.dims = bd ++ [m, k] ∧ c.WF ∧
      ∀ pre i j, Valid bd pre → i < m → j < k →
        c.at? (pre ++ [i, j]) = some ((List.range n).foldl
          (fun s p => Scalar.add s (Scalar.mul (el a (pre ++ [i, p])) (el b (pre ++ [p, j])))) Scalar.zero) := by
  obtain ⟨da, xa⟩ := a
  obtain ⟨db, xb⟩ := b
  simp only at hda hdb
  rw [hda] at ha
  rw [hdb] at hb
  rw [hda, hdb]
  clear hda hdb
  have hbd : ∀ d ∈ bd, 0 < d := fun d hd => ha.2 d (by simp [hd])
  have hm : 0 < m := ha.2 m (by simp)
  have hn : 0 < n := ha.2 n (by simp)
  have hk : 0 < k := hb.2 k (by simp)
  obtain ⟨data, e, hlen, hget⟩ := C04.matmul_get bd m n k xa xb hbd hm hn hk ha.1 hb.1
    (fun pre i p => el (⟨bd ++ [m, n], xa⟩ : Tensor α) (pre ++ [i, p]))
    (fun pre p j => el (⟨bd ++ [n, k], xb⟩ : Tensor α) (pre ++ [p, j]))
    (fun pre i p hv hi hp => at?_el _ ha (valid_app hv (valid2 hi hp)))
    (fun pre p j hv hp hj => at?_el _ hb (valid_app hv (valid2 hp hj)))
  refine ⟨⟨bd ++ [m, k], data⟩, e, rfl, ⟨hlen, ?_⟩, hget⟩
  intro d hd
  simp only [List.mem_append, List.mem_cons, List.not_mem_nil, or_false] at hd
  rcases hd with hd | hd | hd
  · exact hbd d hd
  · rw [hd]; exact hm
  · rw [hd]; exact hk

/-- **MatMul, public form for operands with a common batch shape**: accepted, dims `bd ++ [m, k]`, well formed, and
    `y[b…, i, j] = Σ_p A[b…, i, p] · B[b…, p, j]` (left fold from 0). -/
theorem vMatMul_get (a b : Tensor α) (ha : a.WF) (hb : b.WF) (bd : List Nat) (m n k : Nat)
    (hda : a.dims = bd ++ [m, n]) (hdb : b.dims = bd ++ [n, k]) :
    ∃ c, vMatMul a b = .ok c ∧ c.dims = bd ++ [m, k] ∧ c.WF ∧
      ∀ pre i j, Valid bd pre → i < m → j < k →
        c.at? (pre ++ [i, j]) = some ((List.range n).foldl
          (fun s p => Scalar.add s (Scalar.mul (el a (pre ++ [i, p])) (el b (pre ++ [p, j])))) Scalar.zero) := by
  obtain ⟨c, ec, hdc, wc, hc⟩ := matMulRaw_get a b ha hb bd m n k hda hdb
  refine ⟨c, ?_, hdc, wc, hc⟩
  obtain ⟨x, y, hsh⟩ := targetBroadcastDims_app2 bd m n n k
  have ea : vBroadcastN a (bd ++ [m, n]) = .ok a := by rw [← hda]; exact vBroadcastN_self a ha
  have eb : vBroadcastN b (bd ++ [n, k]) = .ok b := by rw [← hdb]; exact vBroadcastN_self b hb
  unfold vMatMul
  rw [hda, hdb, if_pos (validMatMul_app2 bd m n k)]
  simp only [vBroadcastPairMM, bind, Out.bind, hda, hdb, hsh, matMulShape_app2]
  rw [ea]
  simp only []
  rw [eb]
  simp only [pure, ec, Out.ofOpt]

/-! ### a plain matrix against a batch (`broadcastForMatMul` expands the matrix over the batch dims) -/

theorem targetBroadcastLE_nil_right (l : List Nat) : targetBroadcastLE l [] = l := by cases l <;> rfl

theorem targetBroadcastDims_matR (bd : List Nat) (m n n' k : Nat) :
    ∃ x y, targetBroadcastDims (bd ++ [m, n]) [n', k] = bd ++ [x, y] := by
  refine ⟨if m > n' then m else n', if n > k then n else k, ?_⟩
  simp [targetBroadcastDims, targetBroadcastLE, targetBroadcastLE_nil_right]

theorem targetBroadcastDims_matL (bd : List Nat) (m n n' k : Nat) :
    ∃ x y, targetBroadcastDims [m, n] (bd ++ [n', k]) = bd ++ [x, y] := by
  refine ⟨if m > n' then m else n', if n > k then n else k, ?_⟩
  simp [targetBroadcastDims, targetBroadcastLE]

theorem matMulShape_mat (bd : List Nat) (x y n k : Nat) : matMulShape (bd ++ [x, y]) [n, k] = bd ++ [n, k] := by
  simp [matMulShape, List.dropLast_append_cons, List.dropLast_cons_of_ne_nil]

theorem validMatMul_matR (bd : List Nat) (m n k : Nat) : validMatMul (bd ++ [m, n]) [n, k] = true := by
  simp [validMatMul]

theorem validMatMul_matL (bd : List Nat) (m n k : Nat) : validMatMul [m, n] (bd ++ [n, k]) = true := by
  simp [validMatMul, List.dropLast_append_cons, List.dropLast_cons_of_ne_nil]

omit [Scalar α] in
/-- expanding a matrix over batch dims repeats it: `b'[pre…, p, j] = b[p, j]` (`C03x.vBroadcastN_get` at a matrix) -/
theorem bcast_mat_get (b : Tensor α) (hb : b.WF) (bd : List Nat) (hbd : ∀ d ∈ bd, 0 < d) (n k : Nat)
    (hdb : b.dims = [n, k]) :
    ∃ b', vBroadcastN b (bd ++ [n, k]) = .ok b' ∧ b'.dims = bd ++ [n, k] ∧ b'.WF ∧
      ∀ pre p j, Valid bd pre → p < n → j < k → b'.at? (pre ++ [p, j]) = b.at? [p, j] := by
  have hpos : ∀ d ∈ bd ++ [n, k], 0 < d := by
    intro d hd
    simp only [List.mem_append, List.mem_cons, List.not_mem_nil, or_false] at hd
    rcases hd with hd | hd | hd
    · exact hbd d hd
    · rw [hd]; exact hb.2 n (by rw [hdb]; simp)
    · rw [hd]; exact hb.2 k (by rw [hdb]; simp)
  have hv : validBroadcast b.dims (bd ++ [n, k]) = true := by
    rw [hdb]; simp [validBroadcast, validBroadcastLE]
  obtain ⟨b', e, _, hd', wb'⟩ := (C03x.vBroadcastN_total b hb (bd ++ [n, k]) hpos).1 hv
  refine ⟨b', e, hd', wb', ?_⟩
  intro pre p j hvp hp hj
  have hidx : Valid b'.dims (pre ++ [p, j]) := by rw [hd']; exact valid_app hvp (valid2 hp hj)
  have hu : Valid (bd ++ [n, k]).reverse (pre ++ [p, j]).reverse := by rw [← hd']; exact valid_reverse hidx
  rw [at?_eq_data b' hidx, hd', (C03x.vBroadcastN_get hb e _ hu).1, hdb]
  simp [projLE]

/-- **MatMul of a batch with one matrix on the right** (`x · W`): `y[b…, i, j] = Σ_p A[b…, i, p] · B[p, j]` -/
theorem vMatMul_get_matR (a b : Tensor α) (ha : a.WF) (hb : b.WF) (bd : List Nat) (m n k : Nat)
    (hda : a.dims = bd ++ [m, n]) (hdb : b.dims = [n, k]) :
    ∃ c, vMatMul a b = .ok c ∧ c.dims = bd ++ [m, k] ∧ c.WF ∧
      ∀ pre i j, Valid bd pre → i < m → j < k →
        c.at? (pre ++ [i, j]) = some ((List.range n).foldl
          (fun s p => Scalar.add s (Scalar.mul (el a (pre ++ [i, p])) (el b [p, j]))) Scalar.zero) := by
  have hbd : ∀ d ∈ bd, 0 < d := fun d hd => ha.2 d (by rw [hda]; simp [hd])
  obtain ⟨b', eb, hdb', wb', hb'⟩ := bcast_mat_get b hb bd hbd n k hdb
  obtain ⟨c, ec, hdc, wc, hc⟩ := matMulRaw_get a b' ha wb' bd m n k hda hdb'
  refine ⟨c, ?_, hdc, wc, ?_⟩
  · obtain ⟨x, y, hsh⟩ := targetBroadcastDims_matR bd m n n k
    have ea : vBroadcastN a (bd ++ [m, n]) = .ok a := by rw [← hda]; exact vBroadcastN_self a ha
    unfold vMatMul
    rw [hda, hdb, if_pos (validMatMul_matR bd m n k)]
    simp only [vBroadcastPairMM, bind, Out.bind, hda, hdb, hsh, matMulShape_app2, matMulShape_mat]
    rw [ea]
    simp only []
    rw [eb]
    simp only [pure, ec, Out.ofOpt]
  · intro pre i j hv hi hj
    rw [hc pre i j hv hi hj]
    congr 1
    apply foldl_congr'
    intro p hp s
    have hp' : p < n := List.mem_range.mp hp
    have e1 : el b' (pre ++ [p, j]) = el b [p, j] := by unfold el; rw [hb' pre p j hv hp' hj]
    rw [e1]

/-- **MatMul of one matrix on the left with a batch**: `y[b…, i, j] = Σ_p A[i, p] · B[b…, p, j]` -/
theorem vMatMul_get_matL (a b : Tensor α) (ha : a.WF) (hb : b.WF) (bd : List Nat) (m n k : Nat)
    (hda : a.dims = [m, n]) (hdb : b.dims = bd ++ [n, k]) :
    ∃ c, vMatMul a b = .ok c ∧ c.dims = bd ++ [m, k] ∧ c.WF ∧
      ∀ pre i j, Valid bd pre → i < m → j < k →
        c.at? (pre ++ [i, j]) = some ((List.range n).foldl
          (fun s p => Scalar.add s (Scalar.mul (el a [i, p]) (el b (pre ++ [p, j])))) Scalar.zero) := by
  have hbd : ∀ d ∈ bd, 0 < d := fun d hd => hb.2 d (by rw [hdb]; simp [hd])
  obtain ⟨a', ea, hda', wa', ha'⟩ := bcast_mat_get a ha bd hbd m n hda
  obtain ⟨c, ec, hdc, wc, hc⟩ := matMulRaw_get a' b wa' hb bd m n k hda' hdb
  refine ⟨c, ?_, hdc, wc, ?_⟩
  · obtain ⟨x, y, hsh⟩ := targetBroadcastDims_matL bd m n n k
    have eb : vBroadcastN b (bd ++ [n, k]) = .ok b := by rw [← hdb]; exact vBroadcastN_self b hb
    unfold vMatMul
    rw [hda, hdb, if_pos (validMatMul_matL bd m n k)]
    simp only [vBroadcastPairMM, bind, Out.bind, hda, hdb, hsh, matMulShape_app2, matMulShape_mat]
    rw [ea]
    simp only []
    rw [eb]
    simp only [pure, ec, Out.ofOpt]
  · intro pre i j hv hi hj
    rw [hc pre i j hv hi hj]
    congr 1
    apply foldl_congr'
    intro p hp s
    have hp' : p < n := List.mem_range.mp hp
    have e1 : el a' (pre ++ [i, p]) = el a [i, p] := by unfold el; rw [ha' pre i p hv hi hp']
    rw [e1]

/-- the laws of the scalar domain the matrix identities rest on -/
structure RingLaws (α : Type) [Scalar α] : Prop where
  add_zero : ∀ x : α, Scalar.add x Scalar.zero = x
  zero_add : ∀ x : α, Scalar.add Scalar.zero x = x
  mul_one : ∀ x : α, Scalar.mul x Scalar.one = x
  one_mul : ∀ x : α, Scalar.mul Scalar.one x = x
  mul_zero : ∀ x : α, Scalar.mul x Scalar.zero = Scalar.zero
  zero_mul : ∀ x : α, Scalar.mul Scalar.zero x = Scalar.zero
  mul_comm : ∀ x y : α, Scalar.mul x y = Scalar.mul y x

theorem ringLaws_int : RingLaws Int where
  add_zero x := by show x + ((0 : Nat) : Int) = x; omega
  zero_add x := by show ((0 : Nat) : Int) + x = x; omega
  mul_one x := by show x * ((1 : Nat) : Int) = x; omega
  one_mul x := by show ((1 : Nat) : Int) * x = x; omega
  mul_zero x := by show x * ((0 : Nat) : Int) = ((0 : Nat) : Int); omega
  zero_mul x := by show ((0 : Nat) : Int) * x = ((0 : Nat) : Int); omega
  mul_comm x y := Int.mul_comm x y

theorem ringLaws_real : RingLaws ℝ where
  add_zero x := by simp
  zero_add x := by simp
  mul_one x := by simp
  one_mul x := by simp
  mul_zero x := by simp
  zero_mul x := by simp
  mul_comm x y := by simp [mul_comm]

/-- `Σ_p f(p)·δ(p, j) = f(j)` as the left fold the Go loop computes -/
theorem fold_delta_right (L : RingLaws α) (f : Nat → α) (j : Nat) : ∀ n,
    (List.range n).foldl (fun s p => Scalar.add s (Scalar.mul (f p) (if p = j then Scalar.one else Scalar.zero))) Scalar.zero
      = if j < n then f j else Scalar.zero
  | 0 => by simp
  | n + 1 => by
    rw [List.range_succ, List.foldl_append, fold_delta_right L f j n]
    simp only [List.foldl_cons, List.foldl_nil]
    by_cases h1 : j < n
    · have hne : ¬ n = j := by omega
      rw [if_pos h1, if_neg hne, if_pos (by omega), L.mul_zero, L.add_zero]
    · rw [if_neg h1]
      by_cases h2 : n = j
      · rw [if_pos h2, if_pos (by omega), L.mul_one, L.zero_add, h2]
      · rw [if_neg h2, if_neg (by omega), L.mul_zero, L.add_zero]

/-- `Σ_p δ(i, p)·f(p) = f(i)` -/
theorem fold_delta_left (L : RingLaws α) (f : Nat → α) (i : Nat) : ∀ n,
    (List.range n).foldl (fun s p => Scalar.add s (Scalar.mul (if i = p then Scalar.one else Scalar.zero) (f p))) Scalar.zero
      = if i < n then f i else Scalar.zero
  | 0 => by simp
  | n + 1 => by
    rw [List.range_succ, List.foldl_append, fold_delta_left L f i n]
    simp only [List.foldl_cons, List.foldl_nil]
    by_cases h1 : i < n
    · have hne : ¬ i = n := by omega
      rw [if_pos h1, if_neg hne, if_pos (by omega), L.zero_mul, L.add_zero]
    · rw [if_neg h1]
      by_cases h2 : i = n
      · rw [if_pos h2, if_pos (by omega), L.one_mul, L.zero_add, h2]
      · rw [if_neg h2, if_neg (by omega), L.zero_mul, L.add_zero]

/-! ### Eye -/

theorem eye_wf (n : Nat) (hn : 0 < n) : (eyeMatrix n : Tensor α).WF := by
  refine ⟨by simp [eyeMatrix, prod], ?_⟩
  intro d hd
  simp only [eyeMatrix, List.mem_cons, List.not_mem_nil, or_false, or_self] at hd
  rw [hd]; exact hn

theorem vEye_ok (n : Nat) (hn : 0 < n) : (vEye (n : Int) : Out (Tensor α)) = .ok (eyeMatrix n) := by
  have : validInputDims [(n : Int), (n : Int)] = true := by
    simp only [validInputDims, List.all_cons, List.all_nil, Bool.and_true, Bool.and_self, decide_eq_true_eq]; omega
  simp only [vEye, this, if_true, Int.toNat_natCast]

/-- `Eye(n)[i, j] = δ_ij` (`C06.eye_get` at a matrix index) -/
theorem eye_el (n i j : Nat) (hi : i < n) (hj : j < n) :
    el (eyeMatrix n : Tensor α) [i, j] = if i = j then Scalar.one else Scalar.zero := by
  have e : (eyeMatrix n : Tensor α) = ⟨[n, n], (eyeMatrix n : Tensor α).data⟩ := rfl
  unfold el
  rw [e, at?_rank2 n n _ i j hi hj, C06.eye_get n i j hi hj]
  rfl

/-- **`A · I = A`** for a scalar domain with the ring laws: for every well-formed `m × n` matrix — or batch of
    matrices `bd ++ [m, n]` of any batch rank, `Eye(n)` being expanded over the batch — the product with `Eye(n)` is
    accepted and is `A` itself (dims and data). -/
theorem matmul_eye_right_of (L : RingLaws α) (A : Tensor α) (hA : A.WF) (bd : List Nat) (m n : Nat)
    (hd : A.dims = bd ++ [m, n]) : vMatMul A (eyeMatrix n) = .ok A := by
  have hn : 0 < n := hA.2 n (by rw [hd]; simp)
  obtain ⟨c, e, hdc, wc, hget⟩ := vMatMul_get_matR A (eyeMatrix n) hA (eye_wf n hn) bd m n n hd rfl
  rw [e]
  congr 1
  apply tensor_ext2 c A wc hA bd m n hdc hd
  intro pre i j hv hi hj
  rw [hget pre i j hv hi hj, at?_el A hA (by rw [hd]; exact valid_app hv (valid2 hi hj))]
  congr 1
  rw [foldl_congr' _ (fun s p => Scalar.add s (Scalar.mul (el A (pre ++ [i, p])) (if p = j then Scalar.one else Scalar.zero)))
    (List.range n) _ (fun p hp s => by
      have hp' : p < n := List.mem_range.mp hp
      show Scalar.add s (Scalar.mul (el A (pre ++ [i, p])) (el (eyeMatrix n : Tensor α) [p, j])) = _
      rw [eye_el n p j hp' hj])]
  rw [fold_delta_right L (fun p => el A (pre ++ [i, p])) j n, if_pos hj]

/-- **`I · A = A`** for a scalar domain with the ring laws (matrix or batch of matrices `bd ++ [m, n]`) -/
theorem matmul_eye_left_of (L : RingLaws α) (A : Tensor α) (hA : A.WF) (bd : List Nat) (m n : Nat)
    (hd : A.dims = bd ++ [m, n]) : vMatMul (eyeMatrix m) A = .ok A := by
  have hm : 0 < m := hA.2 m (by rw [hd]; simp)
  obtain ⟨c, e, hdc, wc, hget⟩ := vMatMul_get_matL (eyeMatrix m) A (eye_wf m hm) hA bd m m n rfl hd
  rw [e]
  congr 1
  apply tensor_ext2 c A wc hA bd m n hdc hd
  intro pre i j hv hi hj
  rw [hget pre i j hv hi hj, at?_el A hA (by rw [hd]; exact valid_app hv (valid2 hi hj))]
  congr 1
  rw [foldl_congr' _ (fun s p => Scalar.add s (Scalar.mul (if i = p then Scalar.one else Scalar.zero) (el A (pre ++ [p, j]))))
    (List.range m) _ (fun p hp s => by
      have hp' : p < m := List.mem_range.mp hp
      show Scalar.add s (Scalar.mul (el (eyeMatrix m : Tensor α) [i, p]) (el A (pre ++ [p, j]))) = _
      rw [eye_el m i p hi hp'])]
  rw [fold_delta_left L (fun p => el A (pre ++ [p, j])) i m, if_pos hi]

/-! ### `(A·B)ᵀ = Bᵀ·Aᵀ` -/

/-- **`(A · B)ᵀ = Bᵀ · Aᵀ`** for a commutative scalar multiplication — operands `bd ++ [m, n]` and `bd ++ [n, k]` with
    a common batch shape `bd` of any rank (`bd = []`: matrices): all five operations are accepted and the transpose of the
    product is the product of the transposes in reverse order, as tensors (dims and data). -/
theorem matmul_transpose_of (hcomm : ∀ x y : α, Scalar.mul x y = Scalar.mul y x) (A B : Tensor α) (hA : A.WF) (hB : B.WF)
    (bd : List Nat) (m n k : Nat) (hdA : A.dims = bd ++ [m, n]) (hdB : B.dims = bd ++ [n, k]) :
    ∃ C Ct At Bt, vMatMul A B = .ok C ∧ vTranspose C = .ok Ct ∧ vTranspose A = .ok At ∧ vTranspose B = .ok Bt ∧
      vMatMul Bt At = .ok Ct := by
  obtain ⟨C, eC, hdC, wC, hC⟩ := vMatMul_get A B hA hB bd m n k hdA hdB
  obtain ⟨Ct, eCt⟩ := vTranspose_ok C wC bd m k hdC
  obtain ⟨At, eAt⟩ := vTranspose_ok A hA bd m n hdA
  obtain ⟨Bt, eBt⟩ := vTranspose_ok B hB bd n k hdB
  obtain ⟨hdCt, wCt, hCt⟩ := vTranspose_get_be C Ct wC bd m k hdC eCt
  obtain ⟨hdAt, wAt, hAt⟩ := vTranspose_get_be A At hA bd m n hdA eAt
  obtain ⟨hdBt, wBt, hBt⟩ := vTranspose_get_be B Bt hB bd n k hdB eBt
  obtain ⟨D, eD, hdD, wD, hD⟩ := vMatMul_get Bt At wBt wAt bd k n m hdBt hdAt
  refine ⟨C, Ct, At, Bt, eC, eCt, eAt, eBt, ?_⟩
  rw [eD]
  congr 1
  apply tensor_ext2 D Ct wD wCt bd k m hdD hdCt
  intro pre j i hv hj hi
  rw [hD pre j i hv hj hi, hCt pre j i hv hj hi, hC pre i j hv hi hj]
  congr 1
  apply foldl_congr'
  intro p hp s
  have hp' : p < n := List.mem_range.mp hp
  have e1 : el Bt (pre ++ [j, p]) = el B (pre ++ [p, j]) := by unfold el; rw [hBt pre j p hv hj hp']
  have e2 : el At (pre ++ [p, i]) = el A (pre ++ [i, p]) := by unfold el; rw [hAt pre p i hv hp' hi]
  rw [e1, e2, hcomm]

end

/-! ### over ℝ (the statements of property C04) and kernel-checked witnesses over `Int` -/

/-- **`A · I = A`** over ℝ, through the public constructors: `Eye(n)` is accepted and `MatMul(A, Eye(n)) = A`, for a
    matrix (`bd = []`) or a batch of matrices of any batch rank -/
theorem matmul_eye_right (A : Tensor ℝ) (hA : A.WF) (bd : List Nat) (m n : Nat) (hd : A.dims = bd ++ [m, n]) :
    (vEye (n : Int) : Out (Tensor ℝ)) = .ok (eyeMatrix n) ∧ vMatMul A (eyeMatrix n) = .ok A :=
  ⟨vEye_ok n (hA.2 n (by rw [hd]; simp)), matmul_eye_right_of ringLaws_real A hA bd m n hd⟩

/-- **`I · A = A`** over ℝ -/
theorem matmul_eye_left (A : Tensor ℝ) (hA : A.WF) (bd : List Nat) (m n : Nat) (hd : A.dims = bd ++ [m, n]) :
    (vEye (m : Int) : Out (Tensor ℝ)) = .ok (eyeMatrix m) ∧ vMatMul (eyeMatrix m) A = .ok A :=
  ⟨vEye_ok m (hA.2 m (by rw [hd]; simp)), matmul_eye_left_of ringLaws_real A hA bd m n hd⟩

/-- the matrix case in the form the property states it: `A · I = A = I · A` for every well-formed `m × n` real matrix -/
theorem matmul_eye (A : Tensor ℝ) (hA : A.WF) (m n : Nat) (hd : A.dims = [m, n]) :
    vMatMul A (eyeMatrix n) = .ok A ∧ vMatMul (eyeMatrix m) A = .ok A :=
  ⟨(matmul_eye_right A hA [] m n hd).2, (matmul_eye_left A hA [] m n hd).2⟩

/-- **`(A · B)ᵀ = Bᵀ · Aᵀ`** over ℝ, for every common batch shape and all sizes -/
theorem matmul_transpose (A B : Tensor ℝ) (hA : A.WF) (hB : B.WF) (bd : List Nat) (m n k : Nat)
    (hdA : A.dims = bd ++ [m, n]) (hdB : B.dims = bd ++ [n, k]) :
    ∃ C Ct At Bt, vMatMul A B = .ok C ∧ vTranspose C = .ok Ct ∧ vTranspose A = .ok At ∧ vTranspose B = .ok Bt ∧
      vMatMul Bt At = .ok Ct :=
  matmul_transpose_of ringLaws_real.mul_comm A B hA hB bd m n k hdA hdB

/-- `(A · B)ᵀ = Bᵀ · Aᵀ` as one equation between the two pipelines (both sides are `ok` of the same tensor) -/
theorem matmul_transpose_eq (A B : Tensor ℝ) (hA : A.WF) (hB : B.WF) (bd : List Nat) (m n k : Nat)
    (hdA : A.dims = bd ++ [m, n]) (hdB : B.dims = bd ++ [n, k]) :
    (vMatMul A B).bind vTranspose = (vTranspose B).bind (fun bt => (vTranspose A).bind (fun at' => vMatMul bt at')) ∧
      ∃ Ct, (vMatMul A B).bind vTranspose = .ok Ct := by
  obtain ⟨C, Ct, At, Bt, e1, e2, e3, e4, e5⟩ := matmul_transpose A B hA hB bd m n k hdA hdB
  refine ⟨?_, Ct, ?_⟩ <;> simp only [e1, e2, e3, e4, e5, Out.bind]

/-- non-vacuity (kernel-checked on `Int`): a batch `[2,2,2]` against `Eye(2)` on either side -/
example : vMatMul (⟨[2, 2, 2], [1, 2, 3, 4, 5, 6, 7, 8]⟩ : Tensor Int) (eyeMatrix 2) = .ok ⟨[2, 2, 2], [1, 2, 3, 4, 5, 6, 7, 8]⟩ ∧
    vMatMul (eyeMatrix 2) (⟨[2, 2, 2], [1, 2, 3, 4, 5, 6, 7, 8]⟩ : Tensor Int) = .ok ⟨[2, 2, 2], [1, 2, 3, 4, 5, 6, 7, 8]⟩ := by
  decide

/-- non-vacuity (kernel-checked on `Int`): a 2×3 matrix times `Eye(3)`, `Eye(2)` times it -/
example : vEye (3 : Int) = .ok (⟨[3, 3], [1, 0, 0, 0, 1, 0, 0, 0, 1]⟩ : Tensor Int) ∧
    vMatMul (⟨[2, 3], [1, 2, 3, 4, 5, 6]⟩ : Tensor Int) (eyeMatrix 3) = .ok ⟨[2, 3], [1, 2, 3, 4, 5, 6]⟩ ∧
    vMatMul (eyeMatrix 2) (⟨[2, 3], [1, 2, 3, 4, 5, 6]⟩ : Tensor Int) = .ok ⟨[2, 3], [1, 2, 3, 4, 5, 6]⟩ := by decide

/-- non-vacuity (kernel-checked on `Int`): `(A·B)ᵀ = Bᵀ·Aᵀ` for a 2×3 times a 3×2 matrix -/
example :
    vMatMul (⟨[2, 3], [1, 2, 3, 4, 5, 6]⟩ : Tensor Int) ⟨[3, 2], [7, 8, 9, 10, 11, 12]⟩ = .ok ⟨[2, 2], [58, 64, 139, 154]⟩ ∧
    vTranspose (⟨[2, 2], [58, 64, 139, 154]⟩ : Tensor Int) = .ok ⟨[2, 2], [58, 139, 64, 154]⟩ ∧
    vTranspose (⟨[2, 3], [1, 2, 3, 4, 5, 6]⟩ : Tensor Int) = .ok ⟨[3, 2], [1, 4, 2, 5, 3, 6]⟩ ∧
    vTranspose (⟨[3, 2], [7, 8, 9, 10, 11, 12]⟩ : Tensor Int) = .ok ⟨[2, 3], [7, 9, 11, 8, 10, 12]⟩ ∧
    vMatMul (⟨[2, 3], [7, 9, 11, 8, 10, 12]⟩ : Tensor Int) ⟨[3, 2], [1, 4, 2, 5, 3, 6]⟩ = .ok ⟨[2, 2], [58, 139, 64, 154]⟩ := by
  decide

/-- the generic theorems apply to the concrete `Int` witnesses (hypotheses discharged by `decide`) -/
example : vMatMul (⟨[2, 3], [1, 2, 3, 4, 5, 6]⟩ : Tensor Int) (eyeMatrix 3) = .ok ⟨[2, 3], [1, 2, 3, 4, 5, 6]⟩ :=
  matmul_eye_right_of ringLaws_int _ (by decide) [] 2 3 rfl

end C04x
end Qeep
