import QeepProps.C01z
import QeepProps.C08
/-!
# C01 — from pairings to tensors: the stored gradient is determined element by element

`grad_eq_of_pairing`: over the reals, with the element-wise pairing `C01x.dotp`, if the gradient a walk stores on `n` pairs
with every unit tangent like a tensor `E` of the right shape, it IS `E`. Together with `C01z.final_pairing` this turns the
"sum over the consumers" statement into an equation between tensors.
-/
set_option linter.unusedSimpArgs false
set_option linter.unusedSectionVars false
set_option linter.unusedVariables false

namespace Qeep
namespace C01w
open C01 C01x C01z C20

/-- the `i`-th unit tangent of shape `ds` -/
noncomputable def unitT (ds : List Nat) (i : Nat) : Tensor ℝ :=
  ⟨ds, (List.range (prod ds)).map (fun k => if k = i then (1 : ℝ) else 0)⟩

theorem zipWith_unit_sum (l : List ℝ) (off i : Nat) :
    (List.zipWith (· * ·) l ((List.range' off l.length).map (fun k => if k = i then (1 : ℝ) else 0))).sum
      = if off ≤ i ∧ i < off + l.length then l.getD (i - off) 0 else 0 := by
  induction l generalizing off with
  | nil => simp
  | cons a l ih =>
    simp only [List.length_cons, List.range'_succ, List.map_cons, List.zipWith_cons_cons, List.sum_cons, ih (off + 1)]
    by_cases h0 : off = i
    · subst h0
      have : ¬ (off + 1 ≤ off ∧ off < off + 1 + l.length) := by omega
      simp [this]
    · simp only [h0, if_false, mul_zero, zero_add]
      by_cases h1 : off + 1 ≤ i ∧ i < off + 1 + l.length
      · have h2 : off ≤ i ∧ i < off + (l.length + 1) := by omega
        rw [if_pos h1, if_pos h2]
        have : i - off = (i - (off + 1)) + 1 := by omega
        rw [this, List.getD_cons_succ]
      · have h2 : ¬ (off ≤ i ∧ i < off + (l.length + 1)) := by omega
        rw [if_neg h1, if_neg h2]

theorem dotp_unit (g : Tensor ℝ) (wg : g.WF) (i : Nat) (hi : i < g.data.length) :
    dotp g (unitT g.dims i) = g.data.getD i 0 := by
  unfold dotp unitT
  simp only []
  have hl : prod g.dims = g.data.length := wg.1.symm
  rw [hl, List.range_eq_range']
  have := zipWith_unit_sum g.data 0 i
  simp only [Nat.zero_le, true_and, Nat.zero_add, Nat.sub_zero] at this
  rw [this, if_pos hi]

theorem ext_of_dotp (a b : Tensor ℝ) (wa : a.WF) (wb : b.WF) (hd : a.dims = b.dims)
    (h : ∀ i, i < a.data.length → dotp a (unitT a.dims i) = dotp b (unitT a.dims i)) : a = b := by
  have hl : a.data.length = b.data.length := by rw [wa.1, wb.1, hd]
  cases a with
  | mk ad adata =>
  cases b with
  | mk bd bdata =>
  simp only at hd hl h ⊢
  subst hd
  congr 1
  apply List.ext_getElem hl
  intro i h1 h2
  have e := h i h1
  rw [dotp_unit ⟨ad, adata⟩ wa i h1] at e
  have e2 := dotp_unit ⟨ad, bdata⟩ wb i h2
  simp only at e e2
  rw [e2] at e
  simpa [List.getD, h1, h2] using e

theorem sum_zero_of (F : Nat → ℝ) (M : List Nat) (hM : ∀ u ∈ M, F u = 0) : (M.map F).sum = 0 := by
  induction M with
  | nil => simp
  | cons y M ihM => simp [hM y (by simp), ihM (fun u hu => hM u (List.mem_cons_of_mem _ hu))]

/-- a sum over a duplicate-free list in which only one member contributes -/
theorem sum_one (F : Nat → ℝ) (L : List Nat) (hnd : L.Nodup) (c : Nat) (hc : c ∈ L)
    (hz : ∀ u ∈ L, u ≠ c → F u = 0) : (L.map F).sum = F c := by
  induction L with
  | nil => simp at hc
  | cons y M ihM =>
    have hy := List.nodup_cons.mp hnd
    simp only [List.map_cons, List.sum_cons]
    by_cases hyc : y = c
    · subst hyc
      rw [sum_zero_of F M (fun u hu => hz u (List.mem_cons_of_mem _ hu) (fun e => hy.1 (e ▸ hu)))]
      simp
    · rw [hz y (by simp) hyc]
      have hcM : c ∈ M := by
        rcases List.mem_cons.mp hc with rfl | h
        · exact absurd rfl hyc
        · exact h
      rw [ihM hy.2 hcM (fun u hu => hz u (List.mem_cons_of_mem _ hu))]
      simp

/-- a sum over a duplicate-free list in which only two members contribute -/
theorem sum_two (L : List Nat) (hnd : L.Nodup) (F : Nat → ℝ) (a b : Nat) (ha : a ∈ L) (hb : b ∈ L) (hab : a ≠ b)
    (h0 : ∀ u ∈ L, u ≠ a → u ≠ b → F u = 0) : (L.map F).sum = F a + F b := by
  induction L with
  | nil => simp at ha
  | cons x L ih =>
    have hx := List.nodup_cons.mp hnd
    simp only [List.map_cons, List.sum_cons]
    by_cases hxa : x = a
    · subst hxa
      have hbL : b ∈ L := by
        rcases List.mem_cons.mp hb with rfl | h
        · exact absurd rfl hab
        · exact h
      rw [sum_one F L hx.2 b hbL (fun u hu hub => h0 u (List.mem_cons_of_mem _ hu) (fun e => hx.1 (e ▸ hu)) hub)]
    · by_cases hxb : x = b
      · subst hxb
        have haL : a ∈ L := by
          rcases List.mem_cons.mp ha with rfl | h
          · exact absurd rfl hxa
          · exact h
        rw [sum_one F L hx.2 a haL (fun u hu hua => h0 u (List.mem_cons_of_mem _ hu) hua (fun e => hx.1 (e ▸ hu)))]
        ring
      · have haL : a ∈ L := by
          rcases List.mem_cons.mp ha with rfl | h
          · exact absurd rfl hxa
          · exact h
        have hbL : b ∈ L := by
          rcases List.mem_cons.mp hb with rfl | h
          · exact absurd rfl hxb
          · exact h
        rw [h0 x (by simp) hxa hxb, ih hx.2 haL hbL (fun u hu => h0 u (List.mem_cons_of_mem _ hu))]
        ring

/-- the invariant under which the element-wise pairing is additive: well-formed, of shape `ds` -/
def Shaped (ds : List Nat) (g : Tensor ℝ) : Prop := g.WF ∧ g.dims = ds

theorem shaped_add (ds : List Nat) (a b s : Tensor ℝ) (ha : Shaped ds a) (hb : Shaped ds b) (h : vArith .add a b = .ok s) :
    Shaped ds s ∧ ∀ t, dotp s t = dotp a t + dotp b t := dotp_add_same ds a b s ha hb h

theorem ones_shaped (v : Tensor ℝ) (wv : v.WF) : Shaped v.dims (vPow v Scalar.zero) := by
  refine ⟨⟨?_, wv.2⟩, rfl⟩
  simp [vPow, Tensor.map, wv.1]

/-- **the root keeps the all-ones seed**: nothing visited has a back edge into the root -/
theorem grad_root (bm : BMode) (H : Heap ℝ) (root : Nat) (hdag : HeapDag H) (htr : H.tracked root = true)
    (hok : (backprop bm H root).status = .ok ()) (hg : H.grad root = none) (wv : (H.val root).WF) :
    (backprop bm H root).heap.grad root = some (vPow (H.val root) Scalar.zero) := by
  have hlt : root < H.size := tracked_lt_size H root htr
  have key : ∀ t, ipo dotp ((backprop bm H root).heap.grad root) t = dotp (vPow (H.val root) Scalar.zero) t := by
    intro t
    obtain ⟨seedG, hseed, _, hp⟩ := final_pairing bm H root hdag htr hok dotp root hlt (Shaped (H.val root).dims)
      (shaped_add _) (by intro g h; rw [hg] at h; cases h) (fun _ => ones_shaped _ wv)
      (by
        intro u hu e he _ het
        have := hdag u e he
        have := order_le_root H root hdag u hu
        omega) t
    rw [hp]
    have hs : seedG root = some (vPow (H.val root) Scalar.zero) := by
      unfold accumG at hseed
      simp only [hg] at hseed
      cases hseed
      simp [updStore]
    rw [hs]
    simp only [ipo]
    have : ((backwardOrder H root).map (fun u => ((edgesOf H u).map (fun e =>
        edgeTerm dotp (fun r gy => evalRule bm (markDirty H (backwardOrder H root)) gy r) H.tracked
          (fun m => (backprop bm H root).heap.grad m) root t u e)).sum)).sum = 0 := by
      apply sum_zero_of
      intro u hu
      apply Eq.trans (b := (((edgesOf H u).map (fun _ => (0 : ℝ))).sum))
      · apply sum_congr_map
        intro e he
        unfold edgeTerm
        rw [if_neg]
        intro hc
        unfold edgesOf at he
        obtain ⟨e0, he0, rfl⟩ := List.mem_map.mp he
        have h1 := hdag u e0 he0
        have h2 := order_le_root H root hdag u hu
        simp only at hc
        omega
      · simp
    rw [this]; ring
  have hne := C08.bp_gives_gradients bm H root hdag htr hok root (backwardOrder_spec H root hdag htr).1 hlt
  cases hG : (backprop bm H root).heap.grad root with
  | none => exact absurd hG hne
  | some G =>
    obtain ⟨_, _, hgood, _⟩ := final_pairing bm H root hdag htr hok dotp root hlt (Shaped (H.val root).dims)
      (shaped_add _) (by intro g h; rw [hg] at h; cases h) (fun _ => ones_shaped _ wv)
      (by
        intro u hu e he _ het
        have := hdag u e he
        have := order_le_root H root hdag u hu
        omega) (unitT [] 0)
    have sG := hgood G hG
    have so := ones_shaped _ wv
    congr 1
    apply ext_of_dotp G _ sG.1 so.1 (by rw [sG.2, so.2])
    intro i _
    have := key (unitT G.dims i)
    rw [hG] at this
    exact this

/-- **a visited tensor other than the root that had no gradient receives exactly the sum of what its consumers
    deliver**: if that sum pairs with every tangent like the tensor `E`, the stored gradient is `E` -/
theorem grad_eq (bm : BMode) (H : Heap ℝ) (root : Nat) (hdag : HeapDag H) (htr : H.tracked root = true)
    (hok : (backprop bm H root).status = .ok ()) (n : Nat) (hmem : n ∈ backwardOrder H root) (hnr : n ≠ root)
    (hg : H.grad n = none) (ds : List Nat)
    (hrule : ∀ u ∈ backwardOrder H root, ∀ e ∈ (H.ctx u).edges, H.tracked e.target = true → e.target = n →
        ∀ gy g, (backprop bm H root).heap.grad u = some gy →
          evalRule bm (markDirty H (backwardOrder H root)) gy e.rule = .ok g → Shaped ds g)
    (E : Tensor ℝ) (sE : Shaped ds E)
    (hsum : ∀ t, ((backwardOrder H root).map (fun u => ((edgesOf H u).map (fun e =>
        edgeTerm dotp (fun r gy => evalRule bm (markDirty H (backwardOrder H root)) gy r) H.tracked
          (fun m => (backprop bm H root).heap.grad m) n t u e)).sum)).sum = dotp E t) :
    (backprop bm H root).heap.grad n = some E := by
  have hlt : n < H.size := order_lt_size H root hdag htr n hmem
  have fp := fun t => final_pairing bm H root hdag htr hok dotp n hlt (Shaped ds)
      (shaped_add _) (by intro g h; rw [hg] at h; cases h) (fun h => absurd h hnr) hrule t
  have hne := C08.bp_gives_gradients bm H root hdag htr hok n hmem hlt
  cases hG : (backprop bm H root).heap.grad n with
  | none => exact absurd hG hne
  | some G =>
    obtain ⟨seedG, hseed, hgood, _⟩ := fp (unitT [] 0)
    have sG := hgood G hG
    congr 1
    apply ext_of_dotp G E sG.1 sE.1 (by rw [sG.2, sE.2])
    intro i _
    obtain ⟨seedG', hseed', _, hp⟩ := fp (unitT G.dims i)
    rw [hG, hsum] at hp
    have hs : seedG' n = none := by
      unfold accumG at hseed'
      cases hr : H.grad root with
      | none =>
        simp only [hr] at hseed'
        cases hseed'
        simp [updStore, hnr, hg]
      | some old =>
        simp only [hr] at hseed'
        cases ha : vArith Arith.add old (vPow (H.val root) Scalar.zero) with
        | ok s =>
          rw [ha] at hseed'; simp only [Out.bind] at hseed'; cases hseed'
          simp [updStore, hnr, hg]
        | err => rw [ha] at hseed'; simp [Out.bind] at hseed'
        | panic => rw [ha] at hseed'; simp [Out.bind] at hseed'
    rw [hs] at hp
    simpa [ipo] using hp

theorem sum_filter_eq {β : Type} (l : List β) (p : β → Prop) [DecidablePred p] (f : β → ℝ) :
    (l.map (fun e => if p e then f e else 0)).sum = ((l.filter (fun e => decide (p e))).map f).sum := by
  induction l with
  | nil => simp
  | cons a l ih =>
    by_cases h : p a
    · simp [List.filter_cons, h, ih]
    · simp [List.filter_cons, h, ih]

/-- the edge sum of one visited tensor `u` into `n`, when exactly one of its back edges points to `n` -/
theorem edge_sum_single (H : Heap ℝ) (pull : Rule ℝ → Tensor ℝ → Out (Tensor ℝ)) (G : Nat → Option (Tensor ℝ))
    (n u : Nat) (t : Tensor ℝ) (r : Rule ℝ) (htn : H.tracked n = true)
    (hf : (H.ctx u).edges.filter (fun e => decide (e.target = n)) = [⟨n, r⟩]) :
    ((edgesOf H u).map (fun e => edgeTerm dotp pull H.tracked G n t u e)).sum
      = match G u with
        | some gy => (match pull r gy with | .ok g => dotp g t | _ => 0)
        | none => 0 := by
  unfold edgesOf
  rw [List.map_map]
  have : ((H.ctx u).edges.map ((fun e => edgeTerm dotp pull H.tracked G n t u e) ∘ fun e => (e.target, e.rule)))
      = (H.ctx u).edges.map (fun e => if e.target = n then
          (match G u with | some gy => (match pull e.rule gy with | .ok g => dotp g t | _ => 0) | none => 0) else 0) := by
    apply List.map_congr_left
    intro e _
    simp only [Function.comp, edgeTerm]
    by_cases h : e.target = n
    · rw [if_pos (⟨by rw [h]; exact htn, h⟩ : H.tracked e.target = true ∧ e.target = n), if_pos h]
      cases G u with
      | none => rfl
      | some gy => simp only []; cases hq : pull e.rule gy <;> simp [hq]
    · rw [if_neg (fun hc => h hc.2), if_neg h]
  rw [this, sum_filter_eq, hf]
  simp

/-- no back edge of `u` points to `n` -/
theorem edge_sum_none (H : Heap ℝ) (pull : Rule ℝ → Tensor ℝ → Out (Tensor ℝ)) (G : Nat → Option (Tensor ℝ))
    (n u : Nat) (t : Tensor ℝ) (hno : ∀ e ∈ (H.ctx u).edges, e.target ≠ n) :
    ((edgesOf H u).map (fun e => edgeTerm dotp pull H.tracked G n t u e)).sum = 0 := by
  apply Eq.trans (b := (((edgesOf H u).map (fun _ => (0 : ℝ))).sum))
  · apply sum_congr_map
    intro e he
    unfold edgesOf at he
    obtain ⟨e0, he0, rfl⟩ := List.mem_map.mp he
    unfold edgeTerm
    rw [if_neg]
    intro hc
    exact hno e0 he0 hc.2
  · simp

/-- **one consumer**: the only visited back edge into `n` comes from `u` with rule `r`; then `n` receives `r` applied to
    the final gradient of `u` -/
theorem grad_single (bm : BMode) (H : Heap ℝ) (root : Nat) (hdag : HeapDag H) (htr : H.tracked root = true)
    (hok : (backprop bm H root).status = .ok ()) (n u : Nat) (hu : u ∈ backwardOrder H root) (hnr : n ≠ root)
    (hg : H.grad n = none) (htn : H.tracked n = true) (r : Rule ℝ)
    (hf : (H.ctx u).edges.filter (fun e => decide (e.target = n)) = [⟨n, r⟩])
    (hother : ∀ v ∈ backwardOrder H root, v ≠ u → ∀ e ∈ (H.ctx v).edges, e.target ≠ n)
    (gy g : Tensor ℝ) (hgy : (backprop bm H root).heap.grad u = some gy)
    (hpull : evalRule bm (markDirty H (backwardOrder H root)) gy r = .ok g) (ds : List Nat) (hshape : Shaped ds g) :
    (backprop bm H root).heap.grad n = some g := by
  have hedge : (⟨n, r⟩ : Edge ℝ) ∈ (H.ctx u).edges := by
    have : (⟨n, r⟩ : Edge ℝ) ∈ (H.ctx u).edges.filter (fun e => decide (e.target = n)) := by rw [hf]; simp
    exact (List.mem_filter.mp this).1
  have hmem : n ∈ backwardOrder H root := by
    obtain ⟨_, hcl, _, _⟩ := backwardOrder_spec H root hdag htr
    apply hcl u hu
    unfold succs
    exact List.mem_filter.mpr ⟨List.mem_map.mpr ⟨⟨n, r⟩, hedge, rfl⟩, htn⟩
  obtain ⟨_, _, _, hnd⟩ := backwardOrder_spec H root hdag htr
  apply grad_eq bm H root hdag htr hok n hmem hnr hg ds ?_ g hshape
  · intro t
    rw [sum_one _ (backwardOrder H root) hnd u hu]
    · rw [edge_sum_single H _ _ n u t r htn hf, hgy]
      simp only [hpull]
    · intro v hv hvu
      exact edge_sum_none H _ _ n v t (hother v hv hvu)
  · intro v hv e he _ het gy' g' hgy' h'
    by_cases hvu : v = u
    · subst hvu
      have : e ∈ (H.ctx v).edges.filter (fun e => decide (e.target = n)) := List.mem_filter.mpr ⟨he, by simpa using het⟩
      rw [hf] at this
      simp at this
      subst this
      rw [hgy] at hgy'
      cases hgy'
      rw [hpull] at h'
      cases h'
      exact hshape
    · exact absurd het (hother v hv hvu e he)

/-- **two consumers** `u1 ≠ u2`, each with exactly one back edge into `n`: `n` receives the sum of the two deliveries -/
theorem grad_two (bm : BMode) (H : Heap ℝ) (root : Nat) (hdag : HeapDag H) (htr : H.tracked root = true)
    (hok : (backprop bm H root).status = .ok ()) (n u1 u2 : Nat) (hu1 : u1 ∈ backwardOrder H root)
    (hu2 : u2 ∈ backwardOrder H root) (h12 : u1 ≠ u2) (hnr : n ≠ root)
    (hg : H.grad n = none) (htn : H.tracked n = true) (r1 r2 : Rule ℝ)
    (hf1 : (H.ctx u1).edges.filter (fun e => decide (e.target = n)) = [⟨n, r1⟩])
    (hf2 : (H.ctx u2).edges.filter (fun e => decide (e.target = n)) = [⟨n, r2⟩])
    (hother : ∀ v ∈ backwardOrder H root, v ≠ u1 → v ≠ u2 → ∀ e ∈ (H.ctx v).edges, e.target ≠ n)
    (gy1 g1 gy2 g2 s : Tensor ℝ) (hgy1 : (backprop bm H root).heap.grad u1 = some gy1)
    (hgy2 : (backprop bm H root).heap.grad u2 = some gy2)
    (hp1 : evalRule bm (markDirty H (backwardOrder H root)) gy1 r1 = .ok g1)
    (hp2 : evalRule bm (markDirty H (backwardOrder H root)) gy2 r2 = .ok g2) (ds : List Nat)
    (hs1 : Shaped ds g1) (hs2 : Shaped ds g2)
    (hadd : vArith .add g1 g2 = .ok s) :
    (backprop bm H root).heap.grad n = some s := by
  have hedge : (⟨n, r1⟩ : Edge ℝ) ∈ (H.ctx u1).edges := by
    have : (⟨n, r1⟩ : Edge ℝ) ∈ (H.ctx u1).edges.filter (fun e => decide (e.target = n)) := by rw [hf1]; simp
    exact (List.mem_filter.mp this).1
  have hmem : n ∈ backwardOrder H root := by
    obtain ⟨_, hcl, _, _⟩ := backwardOrder_spec H root hdag htr
    apply hcl u1 hu1
    unfold succs
    exact List.mem_filter.mpr ⟨List.mem_map.mpr ⟨⟨n, r1⟩, hedge, rfl⟩, htn⟩
  obtain ⟨_, _, _, hnd⟩ := backwardOrder_spec H root hdag htr
  obtain ⟨ss, hdot⟩ := shaped_add ds g1 g2 s hs1 hs2 hadd
  apply grad_eq bm H root hdag htr hok n hmem hnr hg ds ?_ s ss
  · intro t
    rw [sum_two (backwardOrder H root) hnd _ u1 u2 hu1 hu2 h12]
    · rw [edge_sum_single H _ _ n u1 t r1 htn hf1, edge_sum_single H _ _ n u2 t r2 htn hf2, hgy1, hgy2]
      simp only [hp1, hp2]
      exact (hdot t).symm
    · intro v hv hv1 hv2
      exact edge_sum_none H _ _ n v t (hother v hv hv1 hv2)
  · intro v hv e he _ het gy' g' hgy' h'
    by_cases hv1 : v = u1
    · subst hv1
      have : e ∈ (H.ctx v).edges.filter (fun e => decide (e.target = n)) := List.mem_filter.mpr ⟨he, by simpa using het⟩
      rw [hf1] at this
      simp at this
      subst this
      rw [hgy1] at hgy'; cases hgy'
      rw [hp1] at h'; cases h'
      exact hs1
    · by_cases hv2 : v = u2
      · subst hv2
        have : e ∈ (H.ctx v).edges.filter (fun e => decide (e.target = n)) := List.mem_filter.mpr ⟨he, by simpa using het⟩
        rw [hf2] at this
        simp at this
        subst this
        rw [hgy2] at hgy'; cases hgy'
        rw [hp2] at h'; cases h'
        exact hs2
      · exact absurd het (hother v hv hv1 hv2 e he)

/-- a sum over a duplicate-free list in which only the members of a duplicate-free sublist `S` contribute -/
theorem sum_members (F : Nat → ℝ) : ∀ (L : List Nat), L.Nodup → ∀ (S : List Nat), S.Nodup → (∀ u ∈ S, u ∈ L) →
    (∀ u ∈ L, u ∉ S → F u = 0) → (L.map F).sum = (S.map F).sum := by
  intro L
  induction L with
  | nil =>
    intro _ S _ hsub _
    cases S with
    | nil => rfl
    | cons a S => exact absurd (hsub a (by simp)) (by simp)
  | cons x L ih =>
    intro hnd S hS hsub h0
    have hx := List.nodup_cons.mp hnd
    simp only [List.map_cons, List.sum_cons]
    by_cases hxS : x ∈ S
    · have hp := List.perm_cons_erase hxS
      have : (S.map F).sum = F x + ((S.erase x).map F).sum := by
        have := (hp.map F).sum_eq
        simpa using this
      rw [this]
      congr 1
      apply ih hx.2 (S.erase x) (hS.erase x)
      · intro u hu
        have huS : u ∈ S := List.mem_of_mem_erase hu
        have hux : u ≠ x := fun e => by
          subst e
          exact (List.Nodup.not_mem_erase hS) hu
        rcases List.mem_cons.mp (hsub u huS) with h | h
        · exact absurd h hux
        · exact h
      · intro u hu hnot
        apply h0 u (List.mem_cons_of_mem _ hu)
        intro huS
        apply hnot
        have hux : u ≠ x := fun e => hx.1 (by rw [← e]; exact hu)
        exact (List.mem_erase_of_ne hux).mpr huS
    · rw [h0 x (by simp) hxS, zero_add]
      apply ih hx.2 S hS
      · intro u hu
        rcases List.mem_cons.mp (hsub u hu) with h | h
        · exact absurd (h ▸ hu) hxS
        · exact h
      · intro u hu hnot
        exact h0 u (List.mem_cons_of_mem _ hu) hnot

/-- one consumer of `n`: the visited tensor, the rule of its back edge into `n`, its final gradient, what the rule delivers -/
structure Consumer where
  u : Nat
  rule : Rule ℝ
  gy : Tensor ℝ
  g : Tensor ℝ

/-- **any number of consumers**, each with exactly one back edge into `n`: `n` receives a tensor that pairs like the sum of
    the deliveries -/
theorem grad_list (bm : BMode) (H : Heap ℝ) (root : Nat) (hdag : HeapDag H) (htr : H.tracked root = true)
    (hok : (backprop bm H root).status = .ok ()) (n : Nat) (hnr : n ≠ root)
    (hg : H.grad n = none) (htn : H.tracked n = true) (cs : List Consumer) (hne : cs ≠ [])
    (hnd : (cs.map (·.u)).Nodup) (ds : List Nat)
    (hc : ∀ c ∈ cs, c.u ∈ backwardOrder H root ∧
      (H.ctx c.u).edges.filter (fun e => decide (e.target = n)) = [⟨n, c.rule⟩] ∧
      (backprop bm H root).heap.grad c.u = some c.gy ∧
      evalRule bm (markDirty H (backwardOrder H root)) c.gy c.rule = .ok c.g ∧ Shaped ds c.g)
    (hother : ∀ v ∈ backwardOrder H root, v ∉ cs.map (·.u) → ∀ e ∈ (H.ctx v).edges, e.target ≠ n)
    (E : Tensor ℝ) (sE : Shaped ds E) (hE : ∀ t, dotp E t = (cs.map (fun c => dotp c.g t)).sum) :
    (backprop bm H root).heap.grad n = some E := by
  obtain ⟨_, hcl, _, hndL⟩ := backwardOrder_spec H root hdag htr
  have hmem : n ∈ backwardOrder H root := by
    cases cs with
    | nil => exact absurd rfl hne
    | cons c cs =>
      obtain ⟨hu, hf, _, _, _⟩ := hc c (by simp)
      have hedge : (⟨n, c.rule⟩ : Edge ℝ) ∈ (H.ctx c.u).edges := by
        have : (⟨n, c.rule⟩ : Edge ℝ) ∈ (H.ctx c.u).edges.filter (fun e => decide (e.target = n)) := by rw [hf]; simp
        exact (List.mem_filter.mp this).1
      apply hcl c.u hu
      unfold succs
      exact List.mem_filter.mpr ⟨List.mem_map.mpr ⟨⟨n, c.rule⟩, hedge, rfl⟩, htn⟩
  apply grad_eq bm H root hdag htr hok n hmem hnr hg ds ?_ E sE
  · intro t
    rw [sum_members _ (backwardOrder H root) hndL (cs.map (·.u)) hnd]
    · rw [hE t, List.map_map]
      congr 1
      apply List.map_congr_left
      intro c hcm
      obtain ⟨_, hf, hgy, hp, _⟩ := hc c hcm
      simp only [Function.comp]
      rw [edge_sum_single H _ _ n c.u t c.rule htn hf, hgy]
      simp only [hp]
    · intro u hu
      obtain ⟨c, hcm, rfl⟩ := List.mem_map.mp hu
      exact (hc c hcm).1
    · intro v hv hnot
      exact edge_sum_none H _ _ n v t (hother v hv hnot)
  · intro v hv e he _ het gy' g' hgy' h'
    by_cases hvS : v ∈ cs.map (·.u)
    · obtain ⟨c, hcm, rfl⟩ := List.mem_map.mp hvS
      obtain ⟨_, hf, hgy, hp, hs⟩ := hc c hcm
      have : e ∈ (H.ctx c.u).edges.filter (fun e => decide (e.target = n)) := List.mem_filter.mpr ⟨he, by simpa using het⟩
      rw [hf] at this
      simp at this
      subst this
      rw [hgy] at hgy'; cases hgy'
      rw [hp] at h'; cases h'
      exact hs
    · exact absurd het (hother v hv hvS e he)

/-! ## one consumer, without any shape hypothesis -/

theorem edge_sum_single_ip {T : Type} (ip : Tensor ℝ → T → ℝ) (H : Heap ℝ) (pull : Rule ℝ → Tensor ℝ → Out (Tensor ℝ))
    (G : Nat → Option (Tensor ℝ)) (n u : Nat) (t : T) (r : Rule ℝ) (htn : H.tracked n = true)
    (hf : (H.ctx u).edges.filter (fun e => decide (e.target = n)) = [⟨n, r⟩]) :
    ((edgesOf H u).map (fun e => edgeTerm ip pull H.tracked G n t u e)).sum
      = match G u with
        | some gy => (match pull r gy with | .ok g => ip g t | _ => 0)
        | none => 0 := by
  unfold edgesOf
  rw [List.map_map]
  have : ((H.ctx u).edges.map ((fun e => edgeTerm ip pull H.tracked G n t u e) ∘ fun e => (e.target, e.rule)))
      = (H.ctx u).edges.map (fun e => if e.target = n then
          (match G u with | some gy => (match pull e.rule gy with | .ok g => ip g t | _ => 0) | none => 0) else 0) := by
    apply List.map_congr_left
    intro e _
    simp only [Function.comp, edgeTerm]
    by_cases h : e.target = n
    · rw [if_pos (⟨by rw [h]; exact htn, h⟩ : H.tracked e.target = true ∧ e.target = n), if_pos h]
      cases G u with
      | none => rfl
      | some gy => simp only []; cases hq : pull e.rule gy <;> simp [hq]
    · rw [if_neg (fun hc => h hc.2), if_neg h]
  rw [this, sum_filter_eq, hf]
  simp

theorem edge_sum_none_ip {T : Type} (ip : Tensor ℝ → T → ℝ) (H : Heap ℝ) (pull : Rule ℝ → Tensor ℝ → Out (Tensor ℝ))
    (G : Nat → Option (Tensor ℝ)) (n u : Nat) (t : T) (hno : ∀ e ∈ (H.ctx u).edges, e.target ≠ n) :
    ((edgesOf H u).map (fun e => edgeTerm ip pull H.tracked G n t u e)).sum = 0 := by
  apply Eq.trans (b := (((edgesOf H u).map (fun _ => (0 : ℝ))).sum))
  · apply sum_congr_map
    intro e he
    unfold edgesOf at he
    obtain ⟨e0, he0, rfl⟩ := List.mem_map.mp he
    unfold edgeTerm
    rw [if_neg]
    intro hc
    exact hno e0 he0 hc.2
  · simp

theorem sum_ones_length {β : Type} (l : List β) : (l.map (fun _ => (1 : ℝ))).sum = (l.length : ℝ) := by
  induction l with
  | nil => simp
  | cons a l ih => simp only [List.map_cons, List.sum_cons, ih, List.length_cons]; push_cast; ring

/-- **one consumer, any shapes**: the only visited back edge into `n` comes from `u` with rule `r`; then `n` receives
    exactly `r` applied to the final gradient of `u` (no accumulation takes place, so no shape hypothesis is needed) -/
theorem grad_single' (bm : BMode) (H : Heap ℝ) (root : Nat) (hdag : HeapDag H) (htr : H.tracked root = true)
    (hok : (backprop bm H root).status = .ok ()) (n u : Nat) (hu : u ∈ backwardOrder H root) (hnr : n ≠ root)
    (hg : H.grad n = none) (htn : H.tracked n = true) (r : Rule ℝ)
    (hf : (H.ctx u).edges.filter (fun e => decide (e.target = n)) = [⟨n, r⟩])
    (hother : ∀ v ∈ backwardOrder H root, v ≠ u → ∀ e ∈ (H.ctx v).edges, e.target ≠ n)
    (gy g : Tensor ℝ) (hgy : (backprop bm H root).heap.grad u = some gy)
    (hpull : evalRule bm (markDirty H (backwardOrder H root)) gy r = .ok g) :
    (backprop bm H root).heap.grad n = some g := by
  obtain ⟨seedG, final, hseed, hfin, hsums, hdef, _⟩ := backprop_adjoint bm H root hdag htr hok
  obtain ⟨_, hcl, _, hnd⟩ := backwardOrder_spec H root hdag htr
  have hlt := order_lt_size H root hdag htr
  have hedge : (⟨n, r⟩ : Edge ℝ) ∈ (H.ctx u).edges := by
    have : (⟨n, r⟩ : Edge ℝ) ∈ (H.ctx u).edges.filter (fun e => decide (e.target = n)) := by rw [hf]; simp
    exact (List.mem_filter.mp this).1
  have hmem : n ∈ backwardOrder H root := by
    apply hcl u hu
    unfold succs
    exact List.mem_filter.mpr ⟨List.mem_map.mpr ⟨⟨n, r⟩, hedge, rfl⟩, htn⟩
  have hnlt : n < H.size := hlt n hmem
  rw [hfin n hnlt]
  have hfu : final u = some gy := by rw [← hfin u (hlt u hu)]; exact hgy
  -- the seed at n is empty
  have hs : seedG n = none := by
    unfold accumG at hseed
    cases hr : H.grad root with
    | none =>
      simp only [hr] at hseed
      cases hseed
      simp [updStore, hnr, hg]
    | some old =>
      simp only [hr] at hseed
      cases ha : vArith Arith.add old (vPow (H.val root) Scalar.zero) with
      | ok s =>
        rw [ha] at hseed; simp only [Out.bind] at hseed; cases hseed
        simp [updStore, hnr, hg]
      | err => rw [ha] at hseed; simp [Out.bind] at hseed
      | panic => rw [ha] at hseed; simp [Out.bind] at hseed
  -- the list of contributions has exactly one element, and g is in it
  let pull := fun (r : Rule ℝ) (gy : Tensor ℝ) => evalRule bm (markDirty H (backwardOrder H root)) gy r
  let L := contrib pull H.tracked final (bpPairs H root) n
  have hlen : L.length = 1 := by
    have h1 := C01z.contrib_sum (α := ℝ) (T := Unit) (ip := fun _ _ => (1 : ℝ)) (pull := pull) (tracked := H.tracked) (G := final) (n := n) (t := ()) (ps := bpPairs H root)
    rw [sum_ones_length] at h1
    have h2 : ((bpPairs H root).map (fun p => edgeTerm (T := Unit) (fun _ _ => (1 : ℝ)) pull H.tracked final n () p.1 p.2)).sum = 1 := by
      unfold bpPairs allPairs
      rw [sum_flatMap_map (backwardOrder H root) (edgesOf H)
        (fun v e => edgeTerm (T := Unit) (fun _ _ => (1 : ℝ)) pull H.tracked final n () v e)]
      rw [sum_one _ (backwardOrder H root) hnd u hu]
      · rw [edge_sum_single_ip (T := Unit) (fun _ _ => (1 : ℝ)) H pull final n u () r htn hf, hfu]
        simp only [pull, hpull]
      · intro v hv hvu
        exact edge_sum_none_ip (T := Unit) (fun _ _ => (1 : ℝ)) H pull final n v () (hother v hv hvu)
    have : (L.length : ℝ) = 1 := by rw [← h2]; exact h1
    exact_mod_cast this
  have hgL : g ∈ L := by
    show g ∈ contrib pull H.tracked final (bpPairs H root) n
    unfold contrib
    apply List.mem_filterMap.mpr
    refine ⟨(u, (n, r)), ?_, ?_⟩
    · unfold bpPairs allPairs
      apply List.mem_flatMap.mpr
      refine ⟨u, hu, List.mem_map.mpr ⟨(n, r), ?_, rfl⟩⟩
      unfold edgesOf
      exact List.mem_map.mpr ⟨⟨n, r⟩, hedge, rfl⟩
    · simp only [htn, and_self, if_true, hfu, pull, hpull]
  have hL : L = [g] := by
    cases hc : L with
    | nil => rw [hc] at hlen; simp at hlen
    | cons a l =>
      rw [hc] at hlen hgL
      have : l = [] := by
        cases l with
        | nil => rfl
        | cons b l => simp at hlen
      subst this
      simp at hgL
      rw [hgL]
  have hS := hsums n
  rw [hs] at hS
  change Sums (vArith Arith.add) none L (final n) at hS
  rw [hL] at hS
  generalize final n = fb at hS
  cases hS with
  | first h2 =>
    cases h2 with
    | nil => rfl

end C01w
end Qeep
