import QeepProofs.Transpose
/-!
# C04 — MatMul, Dot and Transpose implement batched linear algebra for every shape

Proved so far: `transpose_get` (every rank ≥ 2, every dimension size). MatMul / Dot element formulas are
covered by the correspondence run only (see DESIGN.md).
-/
set_option linter.unusedSimpArgs false

namespace Qeep
namespace C04

variable {α : Type}

theorem transposeDims_rev (d0 d1 : Nat) (ds : List Nat) (dims : List Nat) (h : dims.reverse = d0 :: d1 :: ds) :
    (transposeDims dims).reverse = d1 :: d0 :: ds := by
  unfold transposeDims; rw [h]; simp

/-- **Transpose swaps the last two dimensions** — for every rank ≥ 2 and all dimension sizes: the result has the
    dims with the last two swapped, never panics, and its element at (little-endian) index `u` is the source
    element at `u` with the first two entries swapped; i.e. `y[p…, i, j] = x[p…, j, i]` for every batch prefix `p`. -/
theorem transpose_get (t : Tensor α) (hwf : t.WF) (hr : 2 ≤ t.dims.length) :
    ∃ data, t.transposeRaw = some ⟨transposeDims t.dims, data⟩ ∧ (⟨transposeDims t.dims, data⟩ : Tensor α).WF ∧
      ∀ u, Valid (transposeDims t.dims).reverse u →
        (⟨transposeDims t.dims, data⟩ : Tensor α).at? u.reverse = t.at? (swap2 u).reverse ∧
        ((⟨transposeDims t.dims, data⟩ : Tensor α).at? u.reverse).isSome := by
  -- name the last two dimensions
  obtain ⟨d0, d1, ds, hrev⟩ : ∃ d0 d1 ds, t.dims.reverse = d0 :: d1 :: ds := by
    cases h : t.dims.reverse with
    | nil => have := congrArg List.length h; simp only [List.length_reverse, List.length_nil] at this; omega
    | cons a l =>
      cases l with
      | nil => have := congrArg List.length h; simp only [List.length_reverse, List.length_cons, List.length_nil] at this; omega
      | cons b r => exact ⟨a, b, r, rfl⟩
  have htd := transposeDims_rev d0 d1 ds t.dims hrev
  have hpos : ∀ d ∈ t.dims.reverse, 0 < d := fun d hd => hwf.2 d (by simpa using hd)
  have hpos' : ∀ d ∈ (d1 :: d0 :: ds), 0 < d := by
    intro d hd
    apply hpos; rw [hrev]
    simp only [List.mem_cons] at hd ⊢
    rcases hd with h | h | h
    · exact Or.inr (Or.inl h)
    · exact Or.inl h
    · exact Or.inr (Or.inr h)
  have hprod : prod (transposeDims t.dims) = prod t.dims := by
    rw [← prod_reverse, htd, ← prod_reverse t.dims, hrev]; simp [prod, Nat.mul_left_comm]
  have hposT : ∀ d ∈ transposeDims t.dims, 0 < d := by
    intro d hd
    have : d ∈ (transposeDims t.dims).reverse := by simpa using hd
    rw [htd] at this; exact hpos' d this
  -- the k-th generated element
  have key : ∀ k, k < prod (transposeDims t.dims) →
      t.at? (iterN (incrT t.dims.reverse) k (zerosLike t.dims)).reverse
        = some ((t.at? (swap2 (iterN (incr (d1 :: d0 :: ds)) k (zerosLike (d1 :: d0 :: ds)))).reverse).getD
            (t.data.headD (by
              have : 0 < t.data.length := by rw [hwf.1]; exact prod_pos hwf.2
              exact t.data[0]))) ∧
      (t.at? (swap2 (iterN (incr (d1 :: d0 :: ds)) k (zerosLike (d1 :: d0 :: ds)))).reverse).isSome := by
    intro k _
    have hz : zerosLike t.dims = zerosLike (d0 :: d1 :: ds) := by
      rw [← zerosLike_reverse, hrev]
    rw [hrev, hz]
    obtain ⟨a, b, r, h1, h2⟩ := iterT_swap d0 d1 ds k
    rw [h1, ← h2]
    have hv : Valid (d1 :: d0 :: ds) (b :: a :: r) := by rw [h2]; exact valid_iter hpos' k
    have hv' : Valid t.dims.reverse (a :: b :: r) := by rw [hrev]; exact valid_swap hv
    simp only [swap2]
    rw [Tensor.at?_reverse t hv']
    have hlt := val_lt hv'
    rw [prod_reverse, ← hwf.1] at hlt
    rw [List.getElem?_eq_getElem hlt]
    exact ⟨rfl, rfl⟩
  unfold Tensor.transposeRaw genData
  simp only []
  rw [iterGen_eq, allSome_range _ _ _ (fun k hk => (key k hk).1)]
  refine ⟨_, rfl, ⟨by simp, hposT⟩, ?_⟩
  intro u hu
  rw [htd] at hu
  have hk := val_lt hu
  have hk' : val (d1 :: d0 :: ds) u < prod (transposeDims t.dims) := by
    rw [← prod_reverse (transposeDims t.dims), htd]; exact hk
  have hat : ∀ data' : List α, (⟨transposeDims t.dims, data'⟩ : Tensor α).at? u.reverse = data'[val (d1 :: d0 :: ds) u]? := by
    intro data'
    have := Tensor.at?_reverse (⟨transposeDims t.dims, data'⟩ : Tensor α) (st := u) (by simpa [htd] using hu)
    simpa [htd] using this
  rw [hat]
  obtain ⟨_, hsome⟩ := key _ hk'
  rw [iter_val hpos' hu] at hsome
  simp only [List.getElem?_map, List.getElem?_range hk', Option.map_some, iter_val hpos' hu]
  cases hx : t.at? (swap2 u).reverse with
  | none => rw [hx] at hsome; cases hsome
  | some x => simp

/-- the public `Transpose`: accepted exactly for rank ≥ 2, then never a panic -/
theorem vTranspose_total (t : Tensor α) (hwf : t.WF) :
    (2 ≤ t.dims.length → ∃ r, vTranspose t = .ok r ∧ r.dims = transposeDims t.dims ∧ r.WF) ∧
    (t.dims.length < 2 → vTranspose t = .err) := by
  constructor
  · intro h
    obtain ⟨data, e, wf, _⟩ := transpose_get t hwf h
    exact ⟨_, by simp [vTranspose, validTranspose, h, e, Out.ofOpt], rfl, wf⟩
  · intro h
    have : ¬ (2 ≤ t.dims.length) := by omega
    simp [vTranspose, validTranspose, this]

/-- non-vacuity: a [2,3] tensor -/
example : (⟨[2, 3], [1, 2, 3, 4, 5, 6]⟩ : Tensor Nat).WF ∧
    (⟨[2, 3], [1, 2, 3, 4, 5, 6]⟩ : Tensor Nat).transposeRaw = some ⟨[3, 2], [1, 4, 2, 5, 3, 6]⟩ := by decide

end C04
end Qeep
