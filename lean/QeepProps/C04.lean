import QeepProofs.Transpose
import QeepProofs.MatMul
/-!
# C04 — MatMul, Dot and Transpose implement batched linear algebra for every shape

Proved so far: `transpose_get` (every rank ≥ 2, every dimension size). MatMul / Dot element formulas are
covered by the correspondence run only (see DESIGN.md).
-/
set_option linter.unusedSimpArgs false

namespace Qeep
namespace C04

variable {α : Type}

theorem transposeDims_rev (d0 d1 : Nat) (ds : List Nat) (dims : List Nat) (h : dims.reverse = d0 :: d1 :: ds) :
    (transposeDims dims).reverse = d1 :: d0 :: ds := by
  unfold transposeDims; rw [h]; simp

/-- **Transpose swaps the last two dimensions** — for every rank ≥ 2 and all dimension sizes: the result has the
    dims with the last two swapped, never panics, and its element at (little-endian) index `u` is the source
    element at `u` with the first two entries swapped; i.e. `y[p…, i, j] = x[p…, j, i]` for every batch prefix `p`. -/
theorem transpose_get (t : Tensor α) (hwf : t.WF) (hr : 2 ≤ t.dims.length) :
    ∃ data, t.transposeRaw = some ⟨transposeDims t.dims, data⟩ ∧ (⟨transposeDims t.dims, data⟩ : Tensor α).WF ∧
      ∀ u, Valid (transposeDims t.dims).reverse u →
        (⟨transposeDims t.dims, data⟩ : Tensor α).at? u.reverse = t.at? (swap2 u).reverse ∧
        ((⟨transposeDims t.dims, data⟩ : Tensor α).at? u.reverse).isSome := by
  -- name the last two dimensions
  obtain ⟨d0, d1, ds, hrev⟩ : ∃ d0 d1 ds, t.dims.reverse = d0 :: d1 :: ds := by
    cases h : t.dims.reverse with
    | nil => have := congrArg List.length h; simp only [List.length_reverse, List.length_nil] at this; omega
    | cons a l =>
      cases l with
      | nil => have := congrArg List.length h; simp only [List.length_reverse, List.length_cons, List.length_nil] at this; omega
      | cons b r => exact ⟨a, b, r, rfl⟩
  have htd := transposeDims_rev d0 d1 ds t.dims hrev
  have hpos : ∀ d ∈ t.dims.reverse, 0 < d := fun d hd => hwf.2 d (by simpa using hd)
  have hpos' : ∀ d ∈ (d1 :: d0 :: ds), 0 < d := by
    intro d hd
    apply hpos; rw [hrev]
    simp only [List.mem_cons] at hd ⊢
    rcases hd with h | h | h
    · exact Or.inr (Or.inl h)
    · exact Or.inl h
    · exact Or.inr (Or.inr h)
  have hprod : prod (transposeDims t.dims) = prod t.dims := by
    rw [← prod_reverse, htd, ← prod_reverse t.dims, hrev]; simp [prod, Nat.mul_left_comm]
  have hposT : ∀ d ∈ transposeDims t.dims, 0 < d := by
    intro d hd
    have : d ∈ (transposeDims t.dims).reverse := by simpa using hd
    rw [htd] at this; exact hpos' d this
  -- the k-th generated element
  have key : ∀ k, k < prod (transposeDims t.dims) →
      t.at? (iterN (incrT t.dims.reverse) k (zerosLike t.dims)).reverse
        = some ((t.at? (swap2 (iterN (incr (d1 :: d0 :: ds)) k (zerosLike (d1 :: d0 :: ds)))).reverse).getD
            (t.data.headD (by
              have : 0 < t.data.length := by rw [hwf.1]; exact prod_pos hwf.2
              exact t.data[0]))) ∧
      (t.at? (swap2 (iterN (incr (d1 :: d0 :: ds)) k (zerosLike (d1 :: d0 :: ds)))).reverse).isSome := by
    intro k _
    have hz : zerosLike t.dims = zerosLike (d0 :: d1 :: ds) := by
      rw [← zerosLike_reverse, hrev]
    rw [hrev, hz]
    obtain ⟨a, b, r, h1, h2⟩ := iterT_swap d0 d1 ds k
    rw [h1, ← h2]
    have hv : Valid (d1 :: d0 :: ds) (b :: a :: r) := by rw [h2]; exact valid_iter hpos' k
    have hv' : Valid t.dims.reverse (a :: b :: r) := by rw [hrev]; exact valid_swap hv
    simp only [swap2]
    rw [Tensor.at?_reverse t hv']
    have hlt := val_lt hv'
    rw [prod_reverse, ← hwf.1] at hlt
    rw [List.getElem?_eq_getElem hlt]
    exact ⟨rfl, rfl⟩
  unfold Tensor.transposeRaw genData
  simp only []
  rw [iterGen_eq, allSome_range _ _ _ (fun k hk => (key k hk).1)]
  refine ⟨_, rfl, ⟨by simp, hposT⟩, ?_⟩
  intro u hu
  rw [htd] at hu
  have hk := val_lt hu
  have hk' : val (d1 :: d0 :: ds) u < prod (transposeDims t.dims) := by
    rw [← prod_reverse (transposeDims t.dims), htd]; exact hk
  have hat : ∀ data' : List α, (⟨transposeDims t.dims, data'⟩ : Tensor α).at? u.reverse = data'[val (d1 :: d0 :: ds) u]? := by
    intro data'
    have := Tensor.at?_reverse (⟨transposeDims t.dims, data'⟩ : Tensor α) (st := u) (by simpa [htd] using hu)
    simpa [htd] using this
  rw [hat]
  obtain ⟨_, hsome⟩ := key _ hk'
  rw [iter_val hpos' hu] at hsome
  simp only [List.getElem?_map, List.getElem?_range hk', Option.map_some, iter_val hpos' hu]
  cases hx : t.at? (swap2 u).reverse with
  | none => rw [hx] at hsome; cases hsome
  | some x => simp

/-- the public `Transpose`: accepted exactly for rank ≥ 2, then never a panic -/
theorem vTranspose_total (t : Tensor α) (hwf : t.WF) :
    (2 ≤ t.dims.length → ∃ r, vTranspose t = .ok r ∧ r.dims = transposeDims t.dims ∧ r.WF) ∧
    (t.dims.length < 2 → vTranspose t = .err) := by
  constructor
  · intro h
    obtain ⟨data, e, wf, _⟩ := transpose_get t hwf h
    exact ⟨_, by simp [vTranspose, validTranspose, h, e, Out.ofOpt], rfl, wf⟩
  · intro h
    have : ¬ (2 ≤ t.dims.length) := by omega
    simp [vTranspose, validTranspose, this]

/-- non-vacuity: a [2,3] tensor -/
example : (⟨[2, 3], [1, 2, 3, 4, 5, 6]⟩ : Tensor Nat).WF ∧
    (⟨[2, 3], [1, 2, 3, 4, 5, 6]⟩ : Tensor Nat).transposeRaw = some ⟨[3, 2], [1, 4, 2, 5, 3, 6]⟩ := by decide

end C04
end Qeep

namespace Qeep
namespace C04
variable {α : Type} [Scalar α]

/-- **MatMul multiplies the trailing two dimensions as matrices for every batch index** — for operands whose batch
    dims are equal (what `broadcastForMatMul` hands to the kernel; the expansion itself is `C03.broadcast_get`), every
    batch rank and all sizes including 1: no panic, result dims `batch ++ [m, k]`, and
    `y[b, i, j] = Σ_p A[b, i, p] · B[b, p, j]` (left fold from 0, the order the Go loop uses). -/
theorem matmul_get (bd : List Nat) (m n k : Nat) (d1 d2 : List α)
    (hbd : ∀ d ∈ bd, 0 < d) (hm : 0 < m) (hn : 0 < n) (hk : 0 < k)
    (h1 : d1.length = prod (bd ++ [m, n])) (h2 : d2.length = prod (bd ++ [n, k]))
    (A B : List Nat → Nat → Nat → α)
    (hA : ∀ pre i p, Valid bd pre → i < m → p < n → (⟨bd ++ [m, n], d1⟩ : Tensor α).at? (pre ++ [i, p]) = some (A pre i p))
    (hB : ∀ pre p j, Valid bd pre → p < n → j < k → (⟨bd ++ [n, k], d2⟩ : Tensor α).at? (pre ++ [p, j]) = some (B pre p j)) :
    ∃ data, (⟨bd ++ [m, n], d1⟩ : Tensor α).matMulRaw ⟨bd ++ [n, k], d2⟩ = some ⟨bd ++ [m, k], data⟩ ∧
      data.length = prod (bd ++ [m, k]) ∧
      ∀ pre i j, Valid bd pre → i < m → j < k →
        (⟨bd ++ [m, k], data⟩ : Tensor α).at? (pre ++ [i, j]) =
          some ((List.range n).foldl (fun s p => Scalar.add s (Scalar.mul (A pre i p) (B pre p j))) Scalar.zero) :=
  matMulRaw_spec bd m n k d1 d2 hbd hm hn hk h1 h2 A B hA hB

/-- **Dot contracts the last dimension**: `y[b] = Σ_p a[b, p] · b[b, p]` for every leading shape -/
theorem dot_get (bd : List Nat) (n : Nat) (d1 d2 : List α) (hbd : ∀ d ∈ bd, 0 < d) (hn : 0 < n)
    (h1 : d1.length = prod (bd ++ [n])) (h2 : d2.length = prod (bd ++ [n]))
    (A B : List Nat → Nat → α)
    (hA : ∀ pre p, Valid bd pre → p < n → (⟨bd ++ [n], d1⟩ : Tensor α).at? (pre ++ [p]) = some (A pre p))
    (hB : ∀ pre p, Valid bd pre → p < n → (⟨bd ++ [n], d2⟩ : Tensor α).at? (pre ++ [p]) = some (B pre p)) :
    ∃ data, (⟨bd ++ [n], d1⟩ : Tensor α).dotRaw ⟨bd ++ [n], d2⟩ = some ⟨bd, data⟩ ∧ data.length = prod bd ∧
      ∀ pre, Valid bd pre →
        (⟨bd, data⟩ : Tensor α).at? pre =
          some ((List.range n).foldl (fun s p => Scalar.add s (Scalar.mul (A pre p) (B pre p))) Scalar.zero) :=
  dotRaw_spec bd n d1 d2 hbd hn h1 h2 A B hA hB

/-- non-vacuity (kernel-checked on `Int`): a batched product with a size-1 batch dimension expanded -/
example : vMatMul (⟨[2, 1, 2], [1, 2, 3, 4]⟩ : Tensor Int) ⟨[1, 2, 2], [1, 0, 0, 1]⟩ = .ok ⟨[2, 1, 2], [1, 2, 3, 4]⟩ := by
  decide

end C04
end Qeep
