import QeepProps.C16z
/-!
# C16 — the gradient an FC layer passes to its INPUT, end to end

`fc_x_in_walk`: in any heap containing the layer's graph, for a successful walk from any root outside the layer that leaves `G`
on the layer's result, with a tracked input `x` that the walk reaches through the layer only: `x.Gradient()[n][d] = Σ_o W[o]·G[n][o]`
— in either mode (this path contains no expanding `Broadcast`). This is what a preceding layer receives.
-/
set_option linter.unusedSimpArgs false
set_option linter.unusedSectionVars false
set_option linter.unusedVariables false

namespace Qeep
namespace C16u
open RealScalar C01 C01x C01z C01w C01q C16x C16z C15x

theorem fc_x_in_walk (bm : BMode) (H2 : Heap ℝ) (root w b x k N D O : Nat) {Wf Bf : Nat → ℝ} {Xf : Nat → Nat → ℝ}
    (hdag : HeapDag H2) (htr : H2.tracked root = true) (hok : (backprop bm H2 root).status = .ok ())
    (g : FCGraph H2 w b x k N D O Wf Bf Xf) (hwk : w < k) (hbk : b < k) (hxk : x < k)
    (tx : H2.tracked x = true)
    (cw : H2.dirty w = false) (cb : H2.dirty b = false) (cx' : H2.dirty x = false)
    (gx : H2.grad x = none) (gnew : ∀ i, i ≤ 7 → H2.grad (k + i) = none)
    (hroot1 : root ≠ x) (hroot3 : ∀ i, i ≤ 7 → root ≠ k + i)
    (hsole : ∀ v ∈ backwardOrder H2 root, (v < k ∨ k + 8 < v) → ∀ e ∈ (H2.ctx v).edges,
      e.target ≠ x ∧ ¬ (k ≤ e.target ∧ e.target ≤ k + 7))
    (G : Tensor ℝ) (Gf : Nat → Nat → ℝ) (hG : Is2 G N O Gf)
    (hy : k + 8 ∈ backwardOrder H2 root) (f8 : (backprop bm H2 root).heap.grad (k + 8) = some G) :
    ∃ dX, (backprop bm H2 root).heap.grad x = some dX ∧ dX.WF ∧ dX.dims = [N, D] ∧
      ∀ n d, n < N → d < D → dX.el [n, d] = ∑ o ∈ Finset.range O, Wf o * Gf n o := by
  have hxw : x ≠ w := by intro h; have := g.vx.dims; rw [h, g.vw.dims] at this; simp at this
  have hxb : x ≠ b := by intro h; have := g.vx.dims; rw [h, g.vb.dims] at this; simp at this
  have d0 : H2.dirty k = false := ctx_clean g.c0 (by simpa using cw)
  have d1 : H2.dirty (k + 1) = false := ctx_clean g.c1 (by simpa using cx')
  have d2 : H2.dirty (k + 2) = false := ctx_clean g.c2 (by simpa using d0)
  have d3 : H2.dirty (k + 3) = false := ctx_clean g.c3 (by simpa using d1)
  have d4 : H2.dirty (k + 4) = false := ctx_clean g.c4 (by simpa using ⟨d2, d3⟩)
  have d5 : H2.dirty (k + 5) = false := ctx_clean g.c5 (by simpa using d4)
  have d6 : H2.dirty (k + 6) = false := ctx_clean g.c6 (by simpa using d5)
  have d7 : H2.dirty (k + 7) = false := ctx_clean g.c7 (by simpa using cb)
  have c67 : ∀ m ∈ [k + 6, k + 7], H2.dirty m = false := by simpa using ⟨d6, d7⟩
  have c23 : ∀ m ∈ [k + 2, k + 3], H2.dirty m = false := by simpa using ⟨d2, d3⟩
  obtain ⟨t1, e1⟩ := ctx_live g.c1 (by simpa using cx') ⟨x, by simp, tx⟩
  obtain ⟨t3, e3⟩ := ctx_live g.c3 (by simpa using d1) ⟨k + 1, by simp, t1⟩
  obtain ⟨t4, e4⟩ := ctx_live g.c4 c23 ⟨k + 3, by simp, t3⟩
  obtain ⟨t5, e5⟩ := ctx_live g.c5 (by simpa using d4) ⟨k + 4, by simp, t4⟩
  obtain ⟨t6, e6⟩ := ctx_live g.c6 (by simpa using d5) ⟨k + 5, by simp, t5⟩
  obtain ⟨t8, e8⟩ := ctx_live g.c8 c67 ⟨k + 6, by simp, t6⟩
  have hno : ∀ (t i0 : Nat), ((k ≤ t ∧ t ≤ k + 7) ∨ t = x) →
      (∀ i, i ≤ 8 → i ≠ i0 → ∀ e ∈ fcEdges w b x k i, e.target ≠ t) →
      ∀ v ∈ backwardOrder H2 root, v ≠ k + i0 → ∀ e ∈ (H2.ctx v).edges, e.target ≠ t := by
    intro t i0 ht hfin v hv hne e he
    by_cases hvk : v < k ∨ k + 8 < v
    · obtain ⟨s1, s3⟩ := hsole v hv hvk e he
      rcases ht with ht | rfl
      · intro h; rw [h] at s3; exact s3 ht
      · exact s1
    · obtain ⟨i, hi, rfl⟩ : ∃ i, i ≤ 8 ∧ v = k + i := ⟨v - k, by omega, by omega⟩
      exact hfin i hi (by intro h; apply hne; rw [h]) e (fc_edges_sub g i hi e he)
  let Hm := markDirty H2 (backwardOrder H2 root)
  have hv1 : ∀ n, Hm.val n = H2.val n := fun n => markDirty_val _ _ n
  have pX : SolePath H2 root (k + 8) (pathX x k) x := by
    unfold pathX pathMM
    simp only [List.cons_append, List.nil_append]
    refine .cons (t := k + 6) (by rw [e8]; simp [List.filter_cons]) ?_ t6 (gnew 6 (by omega)) (hroot3 6 (by omega)).symm ?_
    · apply hno (k + 6) 8 (by omega)
      intro i hi hne e he
      interval_cases i <;> simp [fcEdges] at he <;> (try rcases he with rfl | rfl) <;> (try subst he) <;> simp <;> omega
    refine .cons (t := k + 5) (by rw [e6]; simp [List.filter_cons]) ?_ t5 (gnew 5 (by omega)) (hroot3 5 (by omega)).symm ?_
    · apply hno (k + 5) 6 (by omega)
      intro i hi hne e he
      interval_cases i <;> simp [fcEdges] at he <;> (try rcases he with rfl | rfl) <;> (try subst he) <;> simp <;> omega
    refine .cons (t := k + 4) (by rw [e5]; simp [List.filter_cons]) ?_ t4 (gnew 4 (by omega)) (hroot3 4 (by omega)).symm ?_
    · apply hno (k + 4) 5 (by omega)
      intro i hi hne e he
      interval_cases i <;> simp [fcEdges] at he <;> (try rcases he with rfl | rfl) <;> (try subst he) <;> simp <;> omega
    refine .cons (t := k + 3) (by rw [e4]; simp [List.filter_cons]) ?_ t3 (gnew 3 (by omega)) (hroot3 3 (by omega)).symm ?_
    · apply hno (k + 3) 4 (by omega)
      intro i hi hne e he
      interval_cases i <;> simp [fcEdges] at he <;> (try rcases he with rfl | rfl) <;> (try subst he) <;> simp <;> omega
    refine .cons (t := k + 1) (by rw [e3]; simp [List.filter_cons]) ?_ t1 (gnew 1 (by omega)) (hroot3 1 (by omega)).symm ?_
    · apply hno (k + 1) 3 (by omega)
      intro i hi hne e he
      interval_cases i <;> simp [fcEdges] at he <;> (try rcases he with rfl | rfl) <;> (try subst he) <;> simp <;> omega
    refine .cons (t := x) (by rw [e1]; simp [List.filter_cons]) ?_ tx gx hroot1.symm (.nil x)
    · apply hno x 1 (Or.inr rfl)
      intro i hi hne e he
      interval_cases i <;> simp [fcEdges] at he <;> (try rcases he with rfl | rfl) <;> (try subst he) <;> simp <;> omega
  obtain ⟨gX, px1, px2, _⟩ := grad_path bm H2 root hdag htr hok _ _ _ pX G hy f8
  rw [evalPath_val_congr bm Hm H2 hv1] at px1
  obtain ⟨dX, q1, q2, q3⟩ := fc_grad_input bm g hG
  rw [q1] at px1
  injection px1 with px1
  subst px1
  refine ⟨dX, px2, q3.wf, q3.dims, ?_⟩
  intro n d hn hd
  rw [q3.el n d hn hd, C16x.sumOver_real]
  simp [mul_eq]

end C16u
end Qeep
