import QeepProps.C03
import QeepProps.C06
import QeepProps.C12
import QeepProps.C14
import QeepProofs.FC
/-!
# C12 / C14 extension — BCE, CE and Softmax compute the defined values (over `ℝ`)

What the Go code does (`component/losses/bce.go`, `ce.go`, `component/layers/activations/softmax.go`) and what is
proved here about its model (`Qeep.Components`):

* `clip(x, l, u) = lower.ElMax(x.ElMin(upper))`, i.e. element-wise `max l (min x u)`;
* BCE clips the *targets* to `[0, 1]` and the predictions to `[ε, 1-ε]`, `ε = 1e-12`, then returns
  `MeanAlong(0)` of `-(t̂·log p̂ + (1-t̂)·log(1-p̂))`;
* CE clips the same way, then `SumAlong(1)`, `Scale(-1)`, `MeanAlong(0)`;
* Softmax does **not** subtract the maximum: `exp(x) / UnSqueeze(SumAlong(exp(x), dim), dim)`.

Every theorem is a total-correctness statement: for all sizes and all real values the run succeeds (no error, no
panic), only allocates (`Extends`), and the result node holds exactly the stated value.
-/
set_option linter.unusedSimpArgs false
set_option linter.unusedSectionVars false
set_option linter.unusedVariables false

namespace Qeep
namespace C12x
open RealScalar

/-! ## Chaining forward runs -/

section Generic
variable {α : Type} [Scalar α] {ι : Type}

/-- sequencing two successful runs -/
theorem ran_bind {m : HM α Nat} {f : Nat → HM α Nat} {H H1 H2 : Heap α} {v1 v2 : Tensor α} {a r : Nat}
    (h1 : Ran m H v1 a H1) (h2 : Ran (f a) H1 v2 r H2) : Ran (m >>= f) H v2 r H2 :=
  ⟨by rw [bind_run h1.run]; exact h2.run, h2.val, h1.ext.trans h2.ext, h2.lt, Nat.le_trans h1.ext.1 h2.ge⟩

theorem ran_congr {m : HM α Nat} {H H' : Heap α} {v v' : Tensor α} {r : Nat} (h : Ran m H v r H') (e : v = v') :
    Ran m H v' r H' := e ▸ h

/-- node `k` of heap `H` holds the tensor of dims `d` whose row-major data are `f` mapped over the index list `Z` -/
structure Holds (H : Heap α) (k : Nat) (d : List Nat) (Z : List ι) (f : ι → α) : Prop where
  lt : k < H.size
  val : H.val k = ⟨d, Z.map f⟩

theorem Holds.mono {H H' : Heap α} {k : Nat} {d : List Nat} {Z : List ι} {f : ι → α}
    (h : Holds H k d Z f) (e : Extends H H') : Holds H' k d Z f :=
  ⟨Nat.lt_of_lt_of_le h.lt e.1, by rw [e.val h.lt]; exact h.val⟩

theorem holds_of_ran {m : HM α Nat} {H H' : Heap α} {r : Nat} {d : List Nat} {Z : List ι} {f : ι → α}
    (h : Ran m H ⟨d, Z.map f⟩ r H') : Holds H' r d Z f := ⟨h.lt, h.val⟩

theorem wf_map {d : List Nat} {Z : List ι} (hZ : Z.length = prod d) (hd : ∀ x ∈ d, 0 < x) (f : ι → α) :
    (⟨d, Z.map f⟩ : Tensor α).WF := ⟨by simp [hZ], hd⟩

variable {H : Heap α} {d : List Nat} {Z : List ι}

theorem ran_scale {x : Nat} {f : ι → α} (hx : Holds H x d Z f) (a : α) :
    ∃ r H', Ran (hScale x a) H ⟨d, Z.map (fun z => Scalar.mul a (f z))⟩ r H' := by
  obtain ⟨r, H', h⟩ := ran_hScale x a H
  refine ⟨r, H', ran_congr h ?_⟩
  rw [hx.val]
  simp only [vScale, Tensor.map, List.map_map, Function.comp_def]

theorem ran_pow {x : Nat} {f : ι → α} (hx : Holds H x d Z f) (a : α) :
    ∃ r H', Ran (hPow x a) H ⟨d, Z.map (fun z => Scalar.pow (f z) a)⟩ r H' := by
  obtain ⟨r, H', h⟩ := ran_hPow x a H
  refine ⟨r, H', ran_congr h ?_⟩
  rw [hx.val]
  simp only [vPow, Tensor.map, List.map_map, Function.comp_def]

theorem ran_unary (u : Unary) {x : Nat} {f : ι → α} (hx : Holds H x d Z f) :
    ∃ r H', Ran (hUnary u x) H ⟨d, Z.map (fun z => u.fn (f z))⟩ r H' := by
  obtain ⟨r, H', h⟩ := ran_hUnary u x H
  refine ⟨r, H', ran_congr h ?_⟩
  rw [hx.val]
  simp only [vUnary, Tensor.map, List.map_map, Function.comp_def]

theorem ran_arith (o : Arith) (hZ : Z.length = prod d) (hd : ∀ x ∈ d, 0 < x) {a b : Nat} {f g : ι → α}
    (ha : Holds H a d Z f) (hb : Holds H b d Z g) :
    ∃ r H', Ran (hArith o a b) H ⟨d, Z.map (fun z => o.fn (f z) (g z))⟩ r H' := by
  have wa : (H.val a).WF := by rw [ha.val]; exact wf_map hZ hd f
  have wb : (H.val b).WF := by rw [hb.val]; exact wf_map hZ hd g
  have hdd : (H.val a).dims = (H.val b).dims := by rw [ha.val, hb.val]
  obtain ⟨r, H', h⟩ := ran_hArith_same o a b H ha.lt hb.lt wa wb hdd
  refine ⟨r, H', ran_congr h ?_⟩
  rw [ha.val, hb.val]
  simp only [C14.zipWith_maps]

theorem ran_cmp (c : Cmp) (hZ : Z.length = prod d) (hd : ∀ x ∈ d, 0 < x) {a b : Nat} {f g : ι → α}
    (ha : Holds H a d Z f) (hb : Holds H b d Z g) :
    ∃ r H', Ran (hCmp c a b) H ⟨d, Z.map (fun z => c.fn (f z) (g z))⟩ r H' := by
  have wa : (H.val a).WF := by rw [ha.val]; exact wf_map hZ hd f
  have wb : (H.val b).WF := by rw [hb.val]; exact wf_map hZ hd g
  have hdd : (H.val a).dims = (H.val b).dims := by rw [ha.val, hb.val]
  obtain ⟨r, H', h⟩ := ran_hCmp c a b H _ (vCmp_same c _ _ wa wb hdd)
  refine ⟨r, H', ran_congr h ?_⟩
  rw [ha.val, hb.val]
  simp only [C14.zipWith_maps]

theorem ran_hUnSqueeze (x : Nat) (dim : Int) (H : Heap α) (v : Tensor α) (h : vUnSqueeze (H.val x) dim = .ok v) :
    ∃ r H', Ran (hUnSqueeze x dim) H v r H' := by
  obtain ⟨r, H', hr⟩ := ran_hOp1 x v (fun _ => Rule.reshapeX x) H
  refine ⟨r, H', ⟨?_, hr.val, hr.ext, hr.lt, hr.ge⟩⟩
  unfold hUnSqueeze
  rw [bind_run (show (getHeap : HM α (Heap α)) H = .ok (H, H) from rfl), h]
  exact hr.run

/-- `clip(x, l, u)` of `ce.go`, in the scalar operations the code executes -/
theorem ran_clip_raw (hZ : Z.length = prod d) (hd : ∀ x ∈ d, 0 < x) {x : Nat} {f : ι → α} (hx : Holds H x d Z f) (l u : α) :
    ∃ r H', Ran (clip x l u) H ⟨d, Z.map (fun z =>
      Scalar.max (Scalar.mul l (Scalar.pow (f z) Scalar.zero))
        (Scalar.min (f z) (Scalar.mul u (Scalar.pow (f z) Scalar.zero))))⟩ r H' := by
  obtain ⟨o, H1, h1⟩ := ran_pow hx (Scalar.zero : α)
  have o1 := holds_of_ran h1
  obtain ⟨lo, H2, h2⟩ := ran_scale o1 l
  have lo2 := holds_of_ran h2
  obtain ⟨up, H3, h3⟩ := ran_scale (o1.mono h2.ext) u
  have up3 := holds_of_ran h3
  have x3 := hx.mono ((h1.ext.trans h2.ext).trans h3.ext)
  obtain ⟨y, H4, h4⟩ := ran_cmp .elmin hZ hd x3 up3
  have y4 := holds_of_ran h4
  obtain ⟨r, H5, h5⟩ := ran_cmp .elmax hZ hd (lo2.mono (h3.ext.trans h4.ext)) y4
  refine ⟨r, H5, ?_⟩
  unfold clip
  exact ran_bind h1 (ran_bind h2 (ran_bind h3 (ran_bind h4 h5)))

end Generic

/-! ## Real-number facts -/

theorem foldl_add (l : List ℝ) (a : ℝ) : l.foldl Scalar.add a = a + l.sum := by
  induction l generalizing a with
  | nil => simp
  | cons x xs ih => rw [List.foldl_cons, ih, List.sum_cons, add_eq, add_assoc]

theorem tensor_sum (t : Tensor ℝ) : t.sum = t.data.sum := by
  simp only [Tensor.sum, Tensor.fold]
  rw [foldl_add, zero_eq, zero_add]

theorem eps_val : (Scalar.eps : ℝ) = 1 / 10 ^ 12 := eps_eq

theorem oneMinusEps_val : (Scalar.oneMinusEps : ℝ) = 1 - 1 / 10 ^ 12 := by
  simp only [Scalar.oneMinusEps, Scalar.ofSci]
  norm_num

/-- `clip(x, l, u)` over `ℝ`: element-wise `max l (min x u)` -/
theorem ran_clip {ι : Type} {H : Heap ℝ} {d : List Nat} {Z : List ι} (hZ : Z.length = prod d) (hd : ∀ x ∈ d, 0 < x)
    {x : Nat} {f : ι → ℝ} (hx : Holds H x d Z f) (l u : ℝ) :
    ∃ r H', Ran (clip x l u) H ⟨d, Z.map (fun z => max l (min (f z) u))⟩ r H' := by
  obtain ⟨r, H', h⟩ := ran_clip_raw hZ hd hx l u
  refine ⟨r, H', ran_congr h ?_⟩
  congr 1
  apply List.map_congr_left
  intro z _
  simp only [max_eq, min_eq, mul_eq, pow_eq, zero_eq, Real.rpow_zero, mul_one]

/-! ## Softmax -/

/-- `[1] → [n]`: the single element repeated -/
theorem bcast_one {α : Type} (n : Nat) (v : α) (hn : 0 < n) :
    (⟨[1], [v]⟩ : Tensor α).broadcastRaw [n] = some ⟨[n], List.replicate n v⟩ := by
  have hwf : (⟨[1], [v]⟩ : Tensor α).WF := ⟨by simp [prod], by simp⟩
  have hv : validBroadcast [1] [n] = true := by simp [validBroadcast, validBroadcastLE]
  obtain ⟨data, h1, h2, h3⟩ := C03.broadcast_get (⟨[1], [v]⟩ : Tensor α) hwf [n] (by simpa using hn) hv
  have hlen : data.length = n := by simpa [prod] using h2.1
  have : data = List.replicate n v := by
    apply List.ext_getElem?
    intro k
    by_cases hk : k < n
    · have hu : Valid [n].reverse [k] := by
        simp only [List.reverse_cons, List.reverse_nil, List.nil_append]
        exact .cons hk .nil
      obtain ⟨e1, _⟩ := h3 [k] hu
      have hr : ([k] : List Nat).reverse = [k] := rfl
      rw [hr, at?_rank1 n data k hk] at e1
      rw [e1]
      simp only [List.reverse_cons, List.reverse_nil, List.nil_append, projLE]
      have h0 : (if 1 = n then k else 0) = 0 := by split <;> omega
      rw [h0, at?_rank1 1 [v] 0 (by omega)]
      simp [hk]
    · rw [List.getElem?_eq_none (by omega), List.getElem?_eq_none (by simp; omega)]
  rw [h1, this]

theorem vBroadcastN_one {α : Type} (n : Nat) (v : α) (hn : 0 < n) :
    vBroadcastN (⟨[1], [v]⟩ : Tensor α) [n] = .ok ⟨[n], List.replicate n v⟩ := by
  unfold vBroadcastN vBroadcast
  have hp : validInputDims ([n].map Int.ofNat) = true := validInputDims_ofNat _ (by simpa using hn)
  have hv : validBroadcast [1] [n] = true := by simp [validBroadcast, validBroadcastLE]
  rw [hp, natDims_ofNat, hv]
  simp only [Bool.and_self, if_true, bcast_one n v hn, Out.ofOpt]

theorem vUnSqueeze_scalar {α : Type} (v : α) : vUnSqueeze (⟨[], [v]⟩ : Tensor α) 0 = .ok ⟨[1], [v]⟩ := by
  have hwf : (⟨[], [v]⟩ : Tensor α).WF := ⟨by simp [prod], by simp⟩
  have hv : validUnSqueeze 0 ([] : List Nat) = true := by simp [validUnSqueeze]
  have := C06.unsqueeze_data (⟨[], [v]⟩ : Tensor α) hwf 0
  simp [vUnSqueeze, hv, this, Out.ofOpt, unsqueezeDims]

theorem targetBroadcast_n_one (n : Nat) (hn : 0 < n) : targetBroadcastDims [n] [1] = [n] := by
  simp only [targetBroadcastDims, List.reverse_cons, List.reverse_nil, List.nil_append, targetBroadcastLE]
  have : (if n > 1 then n else 1) = n := by split <;> omega
  simp [this]

/-- **Softmax (rank 1) = exp(xᵢ) / Σⱼ exp(xⱼ)** — no max-shift in the code; for every length and all values. -/
theorem softmax_value (H : Heap ℝ) (x n : Nat) (hx : x < H.size) (hwf : (H.val x).WF) (hdim : (H.val x).dims = [n]) :
    ∃ r H', actForward (Activation.softmax 0) [some x] H = .ok (r, H') ∧ Extends H H' ∧
      H'.val r = ⟨[n], (H.val x).data.map (fun a => Real.exp a / ((H.val x).data.map Real.exp).sum)⟩ := by
  have hn : 0 < n := hwf.2 n (by rw [hdim]; simp)
  have hlen : (H.val x).data.length = n := by rw [hwf.1, hdim]; simp [prod]
  have hZ : (H.val x).data.length = prod [n] := by simp [prod, hlen]
  have hd : ∀ y ∈ [n], 0 < y := by simpa using hn
  have hxh : Holds H x [n] (H.val x).data (fun a => a) := ⟨hx, by rw [List.map_id']; rw [← hdim]⟩
  -- e = x.Exp()
  obtain ⟨e, H1, h1⟩ := ran_unary .exp hxh
  have e1 := holds_of_ran h1
  have we : (H1.val e).WF := by rw [h1.val]; exact wf_map hZ hd _
  -- s = e.SumAlong(0)
  obtain ⟨s, H2, h2⟩ := ran_hAlong .sum e 0 H1 _ (C12.vAlong_rank1 .sum (H1.val e) n (by rw [h1.val]) we)
  -- s = s.UnSqueeze(0)
  obtain ⟨s', H3, h3⟩ := ran_hUnSqueeze s 0 H2 ⟨[1], [Reducer.fn .sum (H1.val e)]⟩ (by rw [h2.val]; exact vUnSqueeze_scalar _)
  have e3 := e1.mono (h2.ext.trans h3.ext)
  -- e.Div(s)
  have hs3 : H3.val s' = ⟨[1], [Reducer.fn .sum (H1.val e)]⟩ := h3.val
  obtain ⟨r, H4, h4⟩ := ran_hArith .div e s' H3 e3.lt h3.lt
    ⟨[n], (H.val x).data.map (fun a => Unary.fn .exp a)⟩ ⟨[n], List.replicate n (Reducer.fn .sum (H1.val e))⟩
    ⟨[n], List.zipWith (Arith.fn .div) ((H.val x).data.map (fun a => Unary.fn .exp a))
      (List.replicate n (Reducer.fn .sum (H1.val e)))⟩
    (by rw [e3.val, hs3, targetBroadcast_n_one n hn]; exact vBroadcastN_self _ (wf_map hZ hd _))
    (by rw [e3.val, hs3, targetBroadcast_n_one n hn]; exact vBroadcastN_one n _ hn)
    (by simp [Tensor.zipRaw, hlen])
  refine ⟨r, H4, ?_, ((h1.ext.trans h2.ext).trans h3.ext).trans h4.ext, ?_⟩
  · unfold actForward
    rw [bind_run (show (liftOut (oneInput [some x]) : HM ℝ Nat) H = .ok (x, H) from rfl)]
    simp only []
    rw [bind_run (show (getHeap : HM ℝ (Heap ℝ)) H = .ok (H, H) from rfl)]
    have hnot : ¬ ((H.val x).dims.length ≤ 0) := by rw [hdim]; simp
    rw [if_neg hnot]
    rw [bind_run h1.run]
    rw [bind_run (show hAlong .sum e ((0 : Nat) : Int) H1 = .ok (s, H2) from h2.run)]
    rw [bind_run (show hUnSqueeze s ((0 : Nat) : Int) H2 = .ok (s', H3) from h3.run)]
    exact h4.run
  · rw [h4.val]
    congr 1
    rw [h1.val]
    simp only [Reducer.fn, tensor_sum, Unary.fn, Arith.fn]
    apply List.ext_getElem?
    intro k
    by_cases hk : k < n
    · simp [List.getElem?_zipWith, List.getElem?_map, List.getElem?_replicate, hk]
      rw [List.getElem?_eq_getElem (by omega)]
      simp
    · rw [List.getElem?_eq_none (by simp; omega), List.getElem?_eq_none (by simp; omega)]

/-- the softmax outputs sum to one -/
theorem softmax_sum_one (X : List ℝ) (hX : X ≠ []) :
    (X.map (fun a => Real.exp a / (X.map Real.exp).sum)).sum = 1 := by
  have hpos : 0 < (X.map Real.exp).sum := by
    apply List.sum_pos
    · intro y hy
      obtain ⟨a, _, rfl⟩ := List.mem_map.mp hy
      exact Real.exp_pos a
    · simpa using hX
  simp only [div_eq_mul_inv]
  rw [List.sum_map_mul_right]
  exact mul_inv_cancel₀ (ne_of_gt hpos)

/-- each softmax output lies in `(0, 1]` -/
theorem softmax_mem_Ioc (X : List ℝ) (a : ℝ) (ha : a ∈ X) :
    0 < Real.exp a / (X.map Real.exp).sum ∧ Real.exp a / (X.map Real.exp).sum ≤ 1 := by
  have hnn : ∀ y ∈ X.map Real.exp, 0 ≤ y := by
    intro y hy
    obtain ⟨b, _, rfl⟩ := List.mem_map.mp hy
    exact le_of_lt (Real.exp_pos b)
  have hle : Real.exp a ≤ (X.map Real.exp).sum := List.single_le_sum hnn _ (List.mem_map_of_mem ha)
  have hpos : 0 < (X.map Real.exp).sum := lt_of_lt_of_le (Real.exp_pos a) hle
  exact ⟨div_pos (Real.exp_pos a) hpos, (div_le_one hpos).mpr hle⟩

/-- **Softmax (rank 1) returns a point of the open-below simplex**: the run succeeds, the outputs are the
    normalised exponentials, they sum to 1 and each lies in `(0, 1]`. -/
theorem softmax_simplex (H : Heap ℝ) (x n : Nat) (hx : x < H.size) (hwf : (H.val x).WF) (hdim : (H.val x).dims = [n]) :
    ∃ r H', actForward (Activation.softmax 0) [some x] H = .ok (r, H') ∧ Extends H H' ∧
      (H'.val r).dims = [n] ∧ (H'.val r).data.sum = 1 ∧ ∀ y ∈ (H'.val r).data, 0 < y ∧ y ≤ 1 := by
  obtain ⟨r, H', h1, h2, h3⟩ := softmax_value H x n hx hwf hdim
  have hn : 0 < n := hwf.2 n (by rw [hdim]; simp)
  have hlen : (H.val x).data.length = n := by rw [hwf.1, hdim]; simp [prod]
  have hne : (H.val x).data ≠ [] := by
    intro h; rw [h] at hlen; simp at hlen; omega
  refine ⟨r, H', h1, h2, by rw [h3], by rw [h3]; exact softmax_sum_one _ hne, ?_⟩
  intro y hy
  rw [h3] at hy
  obtain ⟨a, ha, rfl⟩ := List.mem_map.mp hy
  exact softmax_mem_Ioc _ a ha

/-! ## BCE -/

/-- `clip(·, l, u)` on one real number -/
noncomputable def clipR (l u a : ℝ) : ℝ := max l (min a u)
/-- a target as BCE / CE use it: clipped to `[0, 1]` -/
noncomputable def tHat (t : ℝ) : ℝ := clipR 0 1 t
/-- a prediction as BCE / CE use it: clipped to `[ε, 1-ε]`, `ε = 10⁻¹²` -/
noncomputable def pHat (p : ℝ) : ℝ := clipR (1 / 10 ^ 12) (1 - 1 / 10 ^ 12) p

theorem tHat_mem (t : ℝ) : 0 ≤ tHat t ∧ tHat t ≤ 1 := by
  unfold tHat clipR
  exact ⟨le_max_left _ _, max_le (by norm_num) (min_le_right _ _)⟩

theorem pHat_mem (p : ℝ) : 0 < pHat p ∧ pHat p < 1 := by
  unfold pHat clipR
  refine ⟨lt_of_lt_of_le (by norm_num) (le_max_left _ _), ?_⟩
  apply lt_of_le_of_lt (max_le (by norm_num) (min_le_right _ _))
  norm_num

theorem tHat_id (t : ℝ) (h0 : 0 ≤ t) (h1 : t ≤ 1) : tHat t = t := by
  unfold tHat clipR
  rw [min_eq_left h1, max_eq_right h0]

theorem zipWith_as_map {β γ δ : Type} (G : β → γ → δ) (l : List β) (l' : List γ) :
    List.zipWith G l l' = (l.zip l').map (fun z => G z.1 z.2) := by
  rw [List.map_zip_eq_zipWith]; rfl

/-- **BCE = -(1/n) Σᵢ [t̂ᵢ·log p̂ᵢ + (1-t̂ᵢ)·log(1-p̂ᵢ)]** with `t̂ = clip(t, 0, 1)`, `p̂ = clip(p, ε, 1-ε)`, `ε = 10⁻¹²`:
    for every batch size `n ≥ 1` and all values the run succeeds and returns that scalar. -/
theorem bce_value (H : Heap ℝ) (p t : Nat) (n : Nat) (hp : p < H.size) (ht : t < H.size)
    (wp : (H.val p).WF) (wt : (H.val t).WF) (dp : (H.val p).dims = [n]) (dt : (H.val t).dims = [n]) :
    ∃ r H', lossCompute Loss.bce (some p) (some t) H = .ok (r, H') ∧ Extends H H' ∧
      H'.val r = ⟨[], [-(1 / (n : ℝ)) * (List.zipWith (fun tv pv =>
        tHat tv * Real.log (pHat pv) + (1 - tHat tv) * Real.log (1 - pHat pv)) (H.val t).data (H.val p).data).sum]⟩ := by
  have hn : 0 < n := wp.2 n (by rw [dp]; simp)
  have lp : (H.val p).data.length = n := by rw [wp.1, dp]; simp [prod]
  have lt' : (H.val t).data.length = n := by rw [wt.1, dt]; simp [prod]
  have hZ : ((H.val t).data.zip (H.val p).data).length = prod [n] := by simp [prod, lp, lt']
  have hd : ∀ y ∈ [n], 0 < y := by simpa using hn
  have t0 : Holds H t [n] ((H.val t).data.zip (H.val p).data) (fun z => z.1) :=
    ⟨ht, by rw [List.map_fst_zip (by omega), ← dt]⟩
  have p0 : Holds H p [n] ((H.val t).data.zip (H.val p).data) (fun z => z.2) :=
    ⟨hp, by rw [List.map_snd_zip (by omega), ← dp]⟩
  obtain ⟨yt, H1, h1⟩ := ran_clip hZ hd t0 (Scalar.zero : ℝ) Scalar.one
  have yt1 := holds_of_ran h1
  obtain ⟨yp, H2, h2⟩ := ran_clip hZ hd (p0.mono h1.ext) (Scalar.eps : ℝ) Scalar.oneMinusEps
  have yp2 := holds_of_ran h2
  obtain ⟨lg, H3, h3⟩ := ran_unary .log yp2
  have lg3 := holds_of_ran h3
  obtain ⟨s1, H4, h4⟩ := ran_arith .mul hZ hd (yt1.mono (h2.ext.trans h3.ext)) lg3
  have s1_4 := holds_of_ran h4
  obtain ⟨o, H5, h5⟩ := ran_pow (yp2.mono (h3.ext.trans h4.ext)) (Scalar.zero : ℝ)
  have o5 := holds_of_ran h5
  obtain ⟨t2, H6, h6⟩ := ran_arith .sub hZ hd o5 (yt1.mono (((h2.ext.trans h3.ext).trans h4.ext).trans h5.ext))
  have t2_6 := holds_of_ran h6
  obtain ⟨y2, H7, h7⟩ := ran_arith .sub hZ hd (o5.mono h6.ext)
    (yp2.mono (((h3.ext.trans h4.ext).trans h5.ext).trans h6.ext))
  have y2_7 := holds_of_ran h7
  obtain ⟨lg2, H8, h8⟩ := ran_unary .log y2_7
  have lg2_8 := holds_of_ran h8
  obtain ⟨s2, H9, h9⟩ := ran_arith .mul hZ hd (t2_6.mono (h7.ext.trans h8.ext)) lg2_8
  have s2_9 := holds_of_ran h9
  obtain ⟨l, H10, h10⟩ := ran_arith .add hZ hd
    (s1_4.mono ((((h5.ext.trans h6.ext).trans h7.ext).trans h8.ext).trans h9.ext)) s2_9
  have l10 := holds_of_ran h10
  obtain ⟨l', H11, h11⟩ := ran_scale l10 (Scalar.neg Scalar.one : ℝ)
  have wl : (H11.val l').WF := by rw [h11.val]; exact wf_map hZ hd _
  obtain ⟨r, H12, h12⟩ := ran_hAlong .mean l' 0 H11 _ (C12.vAlong_rank1 .mean (H11.val l') n (by rw [h11.val]) wl)
  have hext : Extends H H12 := h1.ext.trans (h2.ext.trans (h3.ext.trans (h4.ext.trans (h5.ext.trans (h6.ext.trans
    (h7.ext.trans (h8.ext.trans (h9.ext.trans (h10.ext.trans (h11.ext.trans h12.ext))))))))))
  refine ⟨r, H12, ?_, hext, ?_⟩
  · unfold lossCompute
    rw [bind_run (show (getHeap : HM ℝ (Heap ℝ)) H = .ok (H, H) from rfl)]
    have hv : lossValid H Loss.bce (some p) (some t) = .ok (p, t) := by
      simp [lossValid, dp, dt]
    rw [bind_run (show (liftOut (lossValid H Loss.bce (some p) (some t)) : HM ℝ (Nat × Nat)) H = .ok ((p, t), H) by rw [hv]; rfl)]
    simp only []
    rw [bind_run h1.run, bind_run h2.run, bind_run h3.run, bind_run h4.run, bind_run h5.run, bind_run h6.run,
      bind_run h7.run, bind_run h8.run, bind_run h9.run, bind_run h10.run, bind_run h11.run]
    exact h12.run
  · rw [h12.val, h11.val]
    congr 2
    simp only [Reducer.fn, Tensor.mean, Tensor.avg, tensor_sum, Tensor.numElems, prod, div_eq, ofNat_eq]
    rw [zipWith_as_map]
    have hmap : ∀ (F G : ℝ × ℝ → ℝ) (Z : List (ℝ × ℝ)), (∀ z, F z = -1 * G z) →
        (Z.map F).sum / ((n * 1 : ℕ) : ℝ) = -(1 / (n : ℝ)) * (Z.map G).sum := by
      intro F G Z hFG
      have : Z.map F = Z.map (fun z => -1 * G z) := List.map_congr_left (fun z _ => hFG z)
      rw [this, List.sum_map_mul_left]
      simp only [Nat.mul_one]
      ring
    apply hmap
    intro z
    simp only [Arith.fn, Unary.fn, mul_eq, add_eq, sub_eq, neg_eq, log_eq, pow_eq, zero_eq, one_eq, eps_val,
      oneMinusEps_val, Real.rpow_zero, tHat, pHat, clipR]

/-- with targets already in `[0, 1]` the target clip is the identity: the textbook formula with `t` itself -/
theorem bce_value_unit_targets (H : Heap ℝ) (p t : Nat) (n : Nat) (hp : p < H.size) (ht : t < H.size)
    (wp : (H.val p).WF) (wt : (H.val t).WF) (dp : (H.val p).dims = [n]) (dt : (H.val t).dims = [n])
    (hunit : ∀ tv ∈ (H.val t).data, 0 ≤ tv ∧ tv ≤ 1) :
    ∃ r H', lossCompute Loss.bce (some p) (some t) H = .ok (r, H') ∧ Extends H H' ∧
      H'.val r = ⟨[], [-(1 / (n : ℝ)) * (List.zipWith (fun tv pv =>
        tv * Real.log (pHat pv) + (1 - tv) * Real.log (1 - pHat pv)) (H.val t).data (H.val p).data).sum]⟩ := by
  obtain ⟨r, H', h1, h2, h3⟩ := bce_value H p t n hp ht wp wt dp dt
  refine ⟨r, H', h1, h2, ?_⟩
  rw [h3, zipWith_as_map, zipWith_as_map]
  congr 4
  apply List.map_congr_left
  intro z hz
  have hm := (List.of_mem_zip (show (z.1, z.2) ∈ _ from hz)).1
  rw [tHat_id z.1 (hunit _ hm).1 (hunit _ hm).2]

theorem list_sum_nonpos (l : List ℝ) (h : ∀ x ∈ l, x ≤ 0) : l.sum ≤ 0 := by
  induction l with
  | nil => simp
  | cons x xs ih =>
    rw [List.sum_cons]
    have h1 := h x (by simp)
    have h2 := ih (fun y hy => h y (by simp [hy]))
    linarith

/-- one BCE summand is non-positive for a target in `[0,1]` and a prediction in `(0,1)` -/
theorem bce_term_nonpos (t p : ℝ) (ht0 : 0 ≤ t) (ht1 : t ≤ 1) (hp0 : 0 < p) (hp1 : p < 1) :
    t * Real.log p + (1 - t) * Real.log (1 - p) ≤ 0 := by
  have l1 : Real.log p ≤ 0 := Real.log_nonpos (le_of_lt hp0) (le_of_lt hp1)
  have l2 : Real.log (1 - p) ≤ 0 := Real.log_nonpos (by linarith) (by linarith)
  have a1 : t * Real.log p ≤ 0 := mul_nonpos_iff.mpr (Or.inl ⟨ht0, l1⟩)
  have a2 : (1 - t) * Real.log (1 - p) ≤ 0 := mul_nonpos_iff.mpr (Or.inl ⟨by linarith, l2⟩)
  linarith

/-- the BCE formula is non-negative for **all** real inputs: the clips put `t̂` in `[0,1]` and `p̂` in `(0,1)` -/
theorem bce_formula_nonneg (n : ℕ) (T P : List ℝ) :
    0 ≤ -(1 / (n : ℝ)) * (List.zipWith (fun tv pv =>
        tHat tv * Real.log (pHat pv) + (1 - tHat tv) * Real.log (1 - pHat pv)) T P).sum := by
  have hs : (List.zipWith (fun tv pv =>
      tHat tv * Real.log (pHat pv) + (1 - tHat tv) * Real.log (1 - pHat pv)) T P).sum ≤ 0 := by
    apply list_sum_nonpos
    intro y hy
    rw [zipWith_as_map] at hy
    obtain ⟨z, _, rfl⟩ := List.mem_map.mp hy
    exact bce_term_nonpos _ _ (tHat_mem z.1).1 (tHat_mem z.1).2 (pHat_mem z.2).1 (pHat_mem z.2).2
  have hn : (0 : ℝ) ≤ 1 / (n : ℝ) := by positivity
  have : -(1 / (n : ℝ)) * (List.zipWith (fun tv pv =>
      tHat tv * Real.log (pHat pv) + (1 - tHat tv) * Real.log (1 - pHat pv)) T P).sum
      = (1 / (n : ℝ)) * (-(List.zipWith (fun tv pv =>
      tHat tv * Real.log (pHat pv) + (1 - tHat tv) * Real.log (1 - pHat pv)) T P).sum) := by ring
  rw [this]
  exact mul_nonneg hn (neg_nonneg.mpr hs)

/-- **BCE ≥ 0**: the run succeeds and the scalar it returns is non-negative — for every batch size and all values
    (in particular for targets in `[0,1]` and predictions in `(0,1)`). -/
theorem bce_nonneg (H : Heap ℝ) (p t : Nat) (n : Nat) (hp : p < H.size) (ht : t < H.size)
    (wp : (H.val p).WF) (wt : (H.val t).WF) (dp : (H.val p).dims = [n]) (dt : (H.val t).dims = [n]) :
    ∃ r H' v, lossCompute Loss.bce (some p) (some t) H = .ok (r, H') ∧ H'.val r = ⟨[], [v]⟩ ∧ 0 ≤ v := by
  obtain ⟨r, H', h1, _, h3⟩ := bce_value H p t n hp ht wp wt dp dt
  exact ⟨r, H', _, h1, h3, bce_formula_nonneg n _ _⟩

/-! ## CE -/

/-- a reduction of a rank-2 tensor `[m, n]` along dimension 1: one reducer call per row, on the row as a `[1, n]`
    window (that is the shape `reduceDimUsingFunc` hands to the reducer) -/
theorem reduce_rank2_dim1 {α : Type} (t : Tensor α) (m n : Nat) (hd : t.dims = [m, n]) (hwf : t.WF) (trf : Tensor α → α) :
    t.reduceDimRaw 1 trf = some ⟨[m], (List.range m).map (fun i => trf ⟨[1, n], chunk t.data n i⟩)⟩ := by
  obtain ⟨dims, data⟩ := t
  simp only at hd
  subst hd
  have hm : 0 < m := hwf.2 m (by simp)
  have hn : 0 < n := hwf.2 n (by simp)
  have hlen : data.length = m * n := by simpa [prod] using hwf.1
  obtain ⟨data', h1, h2, h3⟩ := reduceDim_spec (⟨[m, n], data⟩ : Tensor α) hwf 1 (by simp) trf
  have hsq : squeezeDims 1 [m, n] = [m] := rfl
  simp only [hsq] at h1 h2 h3
  have h2' : data'.length = m := by simpa [prod] using h2
  rw [h1]
  congr 2
  apply List.ext_getElem?
  intro i
  by_cases hi : i < m
  · obtain ⟨fib, f1, f2, f3⟩ := h3 i (by simpa [prod] using hi)
    have hdel : delLE (([m, n] : List Nat).length - 1 - 1) ([m, n] : List Nat).reverse = [m] := rfl
    simp only [hdel] at f2 f3
    have hu : Valid [m] [i] := .cons hi .nil
    have hval : val [m] [i] = i := by simp [val]
    have hit : iterN (incr [m]) i (zerosLike [m]) = [i] := by
      have := iter_val (ds := [m]) (u := [i]) (by simpa using hm) hu
      rwa [hval] at this
    rw [hit] at f2 f3
    have hS : (insLE (([m, n] : List Nat).length - 1 - 1) 0 [i]).reverse = [i, 0] := rfl
    simp only [hS] at f2 f3
    have hgetD : ([m, n] : List Nat).getD 1 0 = n := rfl
    rw [hgetD] at f1 f2
    have hfib : fib = chunk data n i := by
      apply List.ext_getElem?
      intro j
      by_cases hj : j < n
      · rw [(f2 j hj).1]
        simp only [List.set_cons_succ, List.set_cons_zero]
        have hat : (⟨[m, n], data⟩ : Tensor α).at? [i, j] = data[i * n + j]? := by
          simp [Tensor.at?, offset, hi, hj, prod]
        rw [hat, chunk_getElem? data n i j hj]
      · rw [List.getElem?_eq_none (by omega),
          List.getElem?_eq_none (by rw [chunk_length data n i m hlen hi]; omega)]
    have hw : sliceDims (windowOf 1 [m, n] [i, 0]) = [1, n] := by simp [windowOf, unitWin, sliceDims]
    rw [f3, hw, hfib]
    simp [List.getElem?_map, List.getElem?_range hi]
  · rw [List.getElem?_eq_none (by omega), List.getElem?_eq_none (by simp; omega)]

theorem vAlong_rank2_dim1 {α : Type} [Scalar α] (r : Reducer) (t : Tensor α) (m n : Nat) (hd : t.dims = [m, n]) (hwf : t.WF) :
    vAlong r t 1 = .ok ⟨[m], (List.range m).map (fun i => r.fn ⟨[1, n], chunk t.data n i⟩)⟩ := by
  have hv : validDimLt 1 t.dims = true := by rw [hd]; rfl
  simp [vAlong, vReduceDim, hv, reduce_rank2_dim1 t m n hd hwf, Out.ofOpt]

theorem chunk_map {β γ : Type} (f : β → γ) (l : List β) (n i : Nat) : chunk (l.map f) n i = (chunk l n i).map f := by
  simp [chunk, List.map_take, List.map_drop]

theorem chunk_zip {β γ : Type} (a : List β) (b : List γ) (n i : Nat) :
    chunk (a.zip b) n i = (chunk a n i).zip (chunk b n i) := by
  simp only [chunk, List.zip_eq_zipWith, List.take_zipWith, List.drop_zipWith]

/-- **CE = -(1/m) Σ_rows Σ_classes t̂·log p̂** with `t̂ = clip(t, 0, 1)`, `p̂ = clip(p, ε, 1-ε)`, `ε = 10⁻¹²`: for every
    batch size `m ≥ 1`, class count `n ≥ 1` and all values the run succeeds and returns that scalar. Row `i` of a
    `[m, n]` tensor is `chunk data n i` (the `i`-th block of `n` consecutive row-major elements). -/
theorem ce_value (H : Heap ℝ) (p t : Nat) (m n : Nat) (hp : p < H.size) (ht : t < H.size)
    (wp : (H.val p).WF) (wt : (H.val t).WF) (dp : (H.val p).dims = [m, n]) (dt : (H.val t).dims = [m, n]) :
    ∃ r H', lossCompute Loss.ce (some p) (some t) H = .ok (r, H') ∧ Extends H H' ∧
      H'.val r = ⟨[], [-(1 / (m : ℝ)) * ((List.range m).map (fun i =>
        (List.zipWith (fun tv pv => tHat tv * Real.log (pHat pv))
          (chunk (H.val t).data n i) (chunk (H.val p).data n i)).sum)).sum]⟩ := by
  have hm : 0 < m := wp.2 m (by rw [dp]; simp)
  have hn : 0 < n := wp.2 n (by rw [dp]; simp)
  have lp : (H.val p).data.length = m * n := by rw [wp.1, dp]; simp [prod]
  have lt' : (H.val t).data.length = m * n := by rw [wt.1, dt]; simp [prod]
  have hZ : ((H.val t).data.zip (H.val p).data).length = prod [m, n] := by simp [prod, lp, lt']
  have hd : ∀ y ∈ [m, n], 0 < y := by simp; omega
  have t0 : Holds H t [m, n] ((H.val t).data.zip (H.val p).data) (fun z => z.1) :=
    ⟨ht, by rw [List.map_fst_zip (by omega), ← dt]⟩
  have p0 : Holds H p [m, n] ((H.val t).data.zip (H.val p).data) (fun z => z.2) :=
    ⟨hp, by rw [List.map_snd_zip (by omega), ← dp]⟩
  obtain ⟨yt, H1, h1⟩ := ran_clip hZ hd t0 (Scalar.zero : ℝ) Scalar.one
  have yt1 := holds_of_ran h1
  obtain ⟨yp, H2, h2⟩ := ran_clip hZ hd (p0.mono h1.ext) (Scalar.eps : ℝ) Scalar.oneMinusEps
  have yp2 := holds_of_ran h2
  obtain ⟨lg, H3, h3⟩ := ran_unary .log yp2
  have lg3 := holds_of_ran h3
  obtain ⟨s, H4, h4⟩ := ran_arith .mul hZ hd (yt1.mono (h2.ext.trans h3.ext)) lg3
  have ws : (H4.val s).WF := by rw [h4.val]; exact wf_map hZ hd _
  -- SumAlong(1): one sum per row
  obtain ⟨l, H5, h5⟩ := ran_hAlong .sum s 1 H4 _ (vAlong_rank2_dim1 .sum (H4.val s) m n (by rw [h4.val]) ws)
  have l5 := holds_of_ran h5
  obtain ⟨l', H6, h6⟩ := ran_scale l5 (Scalar.neg Scalar.one : ℝ)
  have hZ' : (List.range m).length = prod [m] := by simp [prod]
  have hd' : ∀ y ∈ [m], 0 < y := by simpa using hm
  have wl : (H6.val l').WF := by rw [h6.val]; exact wf_map hZ' hd' _
  obtain ⟨r, H7, h7⟩ := ran_hAlong .mean l' 0 H6 _ (C12.vAlong_rank1 .mean (H6.val l') m (by rw [h6.val]) wl)
  have hext : Extends H H7 := h1.ext.trans (h2.ext.trans (h3.ext.trans (h4.ext.trans (h5.ext.trans
    (h6.ext.trans h7.ext)))))
  refine ⟨r, H7, ?_, hext, ?_⟩
  · unfold lossCompute
    rw [bind_run (show (getHeap : HM ℝ (Heap ℝ)) H = .ok (H, H) from rfl)]
    have hv : lossValid H Loss.ce (some p) (some t) = .ok (p, t) := by
      simp [lossValid, dp, dt]
    rw [bind_run (show (liftOut (lossValid H Loss.ce (some p) (some t)) : HM ℝ (Nat × Nat)) H = .ok ((p, t), H) by rw [hv]; rfl)]
    simp only []
    rw [bind_run h1.run, bind_run h2.run, bind_run h3.run, bind_run h4.run, bind_run h5.run, bind_run h6.run]
    exact h7.run
  · rw [h7.val, h6.val]
    congr 2
    simp only [Reducer.fn, Tensor.mean, Tensor.avg, tensor_sum, Tensor.numElems, prod, div_eq, ofNat_eq]
    rw [h4.val]
    have hrows : ∀ i, (chunk (((H.val t).data.zip (H.val p).data).map (fun z =>
          Arith.fn Arith.mul (max (Scalar.zero : ℝ) (min z.1 Scalar.one))
            (Unary.fn Unary.log (max (Scalar.eps : ℝ) (min z.2 Scalar.oneMinusEps))))) n i).sum
        = (List.zipWith (fun tv pv => tHat tv * Real.log (pHat pv))
            (chunk (H.val t).data n i) (chunk (H.val p).data n i)).sum := by
      intro i
      rw [chunk_map, chunk_zip, zipWith_as_map]
      congr 1
      apply List.map_congr_left
      intro z _
      simp only [Arith.fn, Unary.fn, mul_eq, log_eq, zero_eq, one_eq, eps_val, oneMinusEps_val, tHat, pHat, clipR]
    simp only [hrows]
    simp only [neg_eq, one_eq, mul_eq, Nat.mul_one]
    rw [List.sum_map_mul_left]
    ring

theorem mem_of_mem_chunk {β : Type} (l : List β) (n i : Nat) (a : β) (h : a ∈ chunk l n i) : a ∈ l :=
  List.mem_of_mem_drop (List.mem_of_mem_take h)

/-- with targets already in `[0, 1]` (e.g. one-hot rows) the target clip is the identity -/
theorem ce_value_unit_targets (H : Heap ℝ) (p t : Nat) (m n : Nat) (hp : p < H.size) (ht : t < H.size)
    (wp : (H.val p).WF) (wt : (H.val t).WF) (dp : (H.val p).dims = [m, n]) (dt : (H.val t).dims = [m, n])
    (hunit : ∀ tv ∈ (H.val t).data, 0 ≤ tv ∧ tv ≤ 1) :
    ∃ r H', lossCompute Loss.ce (some p) (some t) H = .ok (r, H') ∧ Extends H H' ∧
      H'.val r = ⟨[], [-(1 / (m : ℝ)) * ((List.range m).map (fun i =>
        (List.zipWith (fun tv pv => tv * Real.log (pHat pv))
          (chunk (H.val t).data n i) (chunk (H.val p).data n i)).sum)).sum]⟩ := by
  obtain ⟨r, H', h1, h2, h3⟩ := ce_value H p t m n hp ht wp wt dp dt
  refine ⟨r, H', h1, h2, ?_⟩
  rw [h3]
  congr 5
  funext i
  rw [zipWith_as_map, zipWith_as_map]
  congr 1
  apply List.map_congr_left
  intro z hz
  have hm := mem_of_mem_chunk _ _ _ _ (List.of_mem_zip (show (z.1, z.2) ∈ _ from hz)).1
  rw [tHat_id z.1 (hunit _ hm).1 (hunit _ hm).2]

/-- the CE formula is non-negative for **all** real inputs: the clips put `t̂` in `[0,1]` and `p̂` in `(0,1)` -/
theorem ce_formula_nonneg (m n : ℕ) (T P : List ℝ) :
    0 ≤ -(1 / (m : ℝ)) * ((List.range m).map (fun i =>
        (List.zipWith (fun tv pv => tHat tv * Real.log (pHat pv)) (chunk T n i) (chunk P n i)).sum)).sum := by
  have hs : ((List.range m).map (fun i =>
      (List.zipWith (fun tv pv => tHat tv * Real.log (pHat pv)) (chunk T n i) (chunk P n i)).sum)).sum ≤ 0 := by
    apply list_sum_nonpos
    intro y hy
    obtain ⟨i, _, rfl⟩ := List.mem_map.mp hy
    apply list_sum_nonpos
    intro w hw
    rw [zipWith_as_map] at hw
    obtain ⟨z, _, rfl⟩ := List.mem_map.mp hw
    exact mul_nonpos_iff.mpr (Or.inl ⟨(tHat_mem z.1).1,
      Real.log_nonpos (le_of_lt (pHat_mem z.2).1) (le_of_lt (pHat_mem z.2).2)⟩)
  have hn : (0 : ℝ) ≤ 1 / (m : ℝ) := by positivity
  have := mul_nonneg hn (neg_nonneg.mpr hs)
  linarith

/-- **CE ≥ 0**: the run succeeds and the scalar it returns is non-negative — for every batch size, class count and
    all values (in particular for one-hot targets and predictions in `(0,1)`). -/
theorem ce_nonneg (H : Heap ℝ) (p t : Nat) (m n : Nat) (hp : p < H.size) (ht : t < H.size)
    (wp : (H.val p).WF) (wt : (H.val t).WF) (dp : (H.val p).dims = [m, n]) (dt : (H.val t).dims = [m, n]) :
    ∃ r H' v, lossCompute Loss.ce (some p) (some t) H = .ok (r, H') ∧ H'.val r = ⟨[], [v]⟩ ∧ 0 ≤ v := by
  obtain ⟨r, H', h1, _, h3⟩ := ce_value H p t m n hp ht wp wt dp dt
  exact ⟨r, H', _, h1, h3, ce_formula_nonneg m n _ _⟩

/-! ## "whenever the run returns `ok`" forms (the model is a function, so these follow from the total forms) -/

theorem bce_value_of_ok (H H' : Heap ℝ) (p t r : Nat) (n : Nat) (hp : p < H.size) (ht : t < H.size)
    (wp : (H.val p).WF) (wt : (H.val t).WF) (dp : (H.val p).dims = [n]) (dt : (H.val t).dims = [n])
    (hrun : lossCompute Loss.bce (some p) (some t) H = .ok (r, H')) :
    H'.val r = ⟨[], [-(1 / (n : ℝ)) * (List.zipWith (fun tv pv =>
        tHat tv * Real.log (pHat pv) + (1 - tHat tv) * Real.log (1 - pHat pv)) (H.val t).data (H.val p).data).sum]⟩ := by
  obtain ⟨r0, H0, h1, _, h3⟩ := bce_value H p t n hp ht wp wt dp dt
  rw [h1] at hrun
  injection hrun with e
  injection e with e1 e2
  rw [← e1, ← e2]; exact h3

theorem ce_value_of_ok (H H' : Heap ℝ) (p t r : Nat) (m n : Nat) (hp : p < H.size) (ht : t < H.size)
    (wp : (H.val p).WF) (wt : (H.val t).WF) (dp : (H.val p).dims = [m, n]) (dt : (H.val t).dims = [m, n])
    (hrun : lossCompute Loss.ce (some p) (some t) H = .ok (r, H')) :
    H'.val r = ⟨[], [-(1 / (m : ℝ)) * ((List.range m).map (fun i =>
        (List.zipWith (fun tv pv => tHat tv * Real.log (pHat pv))
          (chunk (H.val t).data n i) (chunk (H.val p).data n i)).sum)).sum]⟩ := by
  obtain ⟨r0, H0, h1, _, h3⟩ := ce_value H p t m n hp ht wp wt dp dt
  rw [h1] at hrun
  injection hrun with e
  injection e with e1 e2
  rw [← e1, ← e2]; exact h3

theorem softmax_value_of_ok (H H' : Heap ℝ) (x r n : Nat) (hx : x < H.size) (hwf : (H.val x).WF)
    (hdim : (H.val x).dims = [n]) (hrun : actForward (Activation.softmax 0) [some x] H = .ok (r, H')) :
    H'.val r = ⟨[n], (H.val x).data.map (fun a => Real.exp a / ((H.val x).data.map Real.exp).sum)⟩ := by
  obtain ⟨r0, H0, h1, _, h3⟩ := softmax_value H x n hx hwf hdim
  rw [h1] at hrun
  injection hrun with e
  injection e with e1 e2
  rw [← e1, ← e2]; exact h3

/-! ## Softmax on a batch: rank 2, along the class dimension (`Dim = 1`) -/

theorem at?_rank2 {α : Type} (m n : Nat) (a : List α) (i j : Nat) (hi : i < m) (hj : j < n) :
    (⟨[m, n], a⟩ : Tensor α).at? [i, j] = a[i * n + j]? := by
  simp [Tensor.at?, offset, hi, hj, prod]

/-- `[m, 1] → [m, n]`: element `[i, j]` is `v[i]` -/
theorem bcast_col {α : Type} (m n : Nat) (v : List α) (hm : 0 < m) (hn : 0 < n) (hv : v.length = m) :
    ∃ data, (⟨[m, 1], v⟩ : Tensor α).broadcastRaw [m, n] = some ⟨[m, n], data⟩ ∧ data.length = m * n ∧
      ∀ i j, i < m → j < n → data[i * n + j]? = v[i]? := by
  have hwf : (⟨[m, 1], v⟩ : Tensor α).WF := ⟨by simp [prod, hv], by simp; omega⟩
  have hvb : validBroadcast [m, 1] [m, n] = true := by simp [validBroadcast, validBroadcastLE]
  obtain ⟨data, h1, h2, h3⟩ := C03.broadcast_get (⟨[m, 1], v⟩ : Tensor α) hwf [m, n] (by simp; omega) hvb
  refine ⟨data, h1, by simpa [prod] using h2.1, ?_⟩
  intro i j hi hj
  have hu : Valid [m, n].reverse [j, i] := by
    simp only [List.reverse_cons, List.reverse_nil, List.nil_append, List.cons_append]
    exact .cons hj (.cons hi .nil)
  obtain ⟨e1, _⟩ := h3 [j, i] hu
  have hr : ([j, i] : List Nat).reverse = [i, j] := rfl
  rw [hr, at?_rank2 m n data i j hi hj] at e1
  rw [e1]
  simp only [List.reverse_cons, List.reverse_nil, List.nil_append, List.cons_append, projLE, if_true]
  have h0 : (if 1 = n then j else 0) = 0 := by split <;> omega
  rw [h0]
  rw [at?_rank2 m 1 v i 0 hi (by omega)]
  simp

theorem targetBroadcast_mn_m1 (m n : Nat) (hn : 0 < n) : targetBroadcastDims [m, n] [m, 1] = [m, n] := by
  simp only [targetBroadcastDims, List.reverse_cons, List.reverse_nil, List.nil_append, List.cons_append, targetBroadcastLE]
  have h1 : (if n > 1 then n else 1) = n := by split <;> omega
  have h2 : (if m > m then m else m) = m := by split <;> rfl
  simp [h1, h2]

/-- **Softmax on a batch (rank 2, `Dim = 1`)**: row `i` of the result is the normalised exponentials of row `i` of
    the input, `exp(x_ij) / Σ_j' exp(x_ij')` — for every batch size, class count and all values. Row `i` of a
    `[m, n]` tensor is `chunk data n i`. -/
theorem softmax_value_rank2 (H : Heap ℝ) (x m n : Nat) (hx : x < H.size) (hwf : (H.val x).WF)
    (hdim : (H.val x).dims = [m, n]) :
    ∃ r H', actForward (Activation.softmax 1) [some x] H = .ok (r, H') ∧ Extends H H' ∧
      (H'.val r).dims = [m, n] ∧ (H'.val r).data.length = m * n ∧
      ∀ i, i < m → chunk (H'.val r).data n i =
        (chunk (H.val x).data n i).map (fun a => Real.exp a / ((chunk (H.val x).data n i).map Real.exp).sum) := by
  have hm : 0 < m := hwf.2 m (by rw [hdim]; simp)
  have hn : 0 < n := hwf.2 n (by rw [hdim]; simp)
  have hlen : (H.val x).data.length = m * n := by rw [hwf.1, hdim]; simp [prod]
  have hZ : (H.val x).data.length = prod [m, n] := by simp [prod, hlen]
  have hd : ∀ y ∈ [m, n], 0 < y := by simp; omega
  have hxh : Holds H x [m, n] (H.val x).data (fun a => a) := ⟨hx, by rw [List.map_id']; rw [← hdim]⟩
  -- e = x.Exp()
  obtain ⟨e, H1, h1⟩ := ran_unary .exp hxh
  have e1 := holds_of_ran h1
  have we : (H1.val e).WF := by rw [h1.val]; exact wf_map hZ hd _
  -- s = e.SumAlong(1)
  obtain ⟨s, H2, h2⟩ := ran_hAlong .sum e 1 H1 _ (vAlong_rank2_dim1 .sum (H1.val e) m n (by rw [h1.val]) we)
  -- s = s.UnSqueeze(1)
  have hus : ∀ (S : List ℝ), S.length = m → vUnSqueeze (⟨[m], S⟩ : Tensor ℝ) 1 = .ok ⟨[m, 1], S⟩ := by
    intro S hS
    have hwS : (⟨[m], S⟩ : Tensor ℝ).WF := ⟨by simp [prod, hS], by simpa using hm⟩
    have hv : validUnSqueeze 1 [m] = true := by simp [validUnSqueeze]
    have := C06.unsqueeze_data (⟨[m], S⟩ : Tensor ℝ) hwS 1
    simp [vUnSqueeze, hv, this, Out.ofOpt, unsqueezeDims]
  obtain ⟨s', H3, h3⟩ := ran_hUnSqueeze s 1 H2 _ (by rw [h2.val]; exact hus _ (by simp))
  have e3 := e1.mono (h2.ext.trans h3.ext)
  -- e.Div(s)
  obtain ⟨B, b1, b2, b3⟩ := bcast_col m n
    ((List.range m).map (fun i => Reducer.fn .sum (⟨[1, n], chunk (H1.val e).data n i⟩ : Tensor ℝ))) hm hn (by simp)
  have hbB : vBroadcastN (⟨[m, 1], (List.range m).map (fun i => Reducer.fn .sum (⟨[1, n], chunk (H1.val e).data n i⟩ : Tensor ℝ))⟩ : Tensor ℝ)
      [m, n] = .ok ⟨[m, n], B⟩ := by
    unfold vBroadcastN vBroadcast
    have hp : validInputDims ([m, n].map Int.ofNat) = true := validInputDims_ofNat _ hd
    have hv : validBroadcast [m, 1] [m, n] = true := by simp [validBroadcast, validBroadcastLE]
    rw [hp, natDims_ofNat, hv]
    simp only [Bool.and_self, if_true, b1, Out.ofOpt]
  obtain ⟨r, H4, h4⟩ := ran_hArith .div e s' H3 e3.lt h3.lt
    ⟨[m, n], (H.val x).data.map (fun a => Unary.fn .exp a)⟩ ⟨[m, n], B⟩
    ⟨[m, n], List.zipWith (Arith.fn .div) ((H.val x).data.map (fun a => Unary.fn .exp a)) B⟩
    (by rw [e3.val, h3.val, targetBroadcast_mn_m1 m n hn]; exact vBroadcastN_self _ (wf_map hZ hd _))
    (by rw [e3.val, h3.val, targetBroadcast_mn_m1 m n hn]; exact hbB)
    (by simp [Tensor.zipRaw, hlen, b2])
  refine ⟨r, H4, ?_, ((h1.ext.trans h2.ext).trans h3.ext).trans h4.ext, by rw [h4.val],
    by rw [h4.val]; simp [hlen, b2], ?_⟩
  · unfold actForward
    rw [bind_run (show (liftOut (oneInput [some x]) : HM ℝ Nat) H = .ok (x, H) from rfl)]
    simp only []
    rw [bind_run (show (getHeap : HM ℝ (Heap ℝ)) H = .ok (H, H) from rfl)]
    have hnot : ¬ ((H.val x).dims.length ≤ 1) := by rw [hdim]; simp
    rw [if_neg hnot]
    rw [bind_run h1.run]
    rw [bind_run (show hAlong .sum e ((1 : Nat) : Int) H1 = .ok (s, H2) from h2.run)]
    rw [bind_run (show hUnSqueeze s ((1 : Nat) : Int) H2 = .ok (s', H3) from h3.run)]
    exact h4.run
  · intro i hi
    rw [h4.val]
    have hcl : (chunk (H.val x).data n i).length = n := chunk_length _ n i m hlen hi
    apply List.ext_getElem?
    intro j
    by_cases hj : j < n
    · have hidx : i * n + j < m * n := idx2_lt hi hj
      have hX := List.getElem?_eq_getElem (l := (H.val x).data) (by omega : i * n + j < (H.val x).data.length)
      rw [chunk_getElem? _ n i j hj, List.getElem?_zipWith, b3 i j hi hj, h1.val]
      simp only [List.getElem?_map, chunk_getElem? (H.val x).data n i j hj, hX, List.getElem?_range hi,
        Option.map_some, chunk_map, Reducer.fn, tensor_sum, Unary.fn, Arith.fn, div_eq, exp_eq]
    · rw [List.getElem?_eq_none (by
          rw [chunk_length _ n i m (by simp [hlen, b2]) hi]; omega),
        List.getElem?_eq_none (by simp [hcl]; omega)]

/-- every row of the batch softmax sums to 1 and has all entries in `(0, 1]` -/
theorem softmax_simplex_rank2 (H : Heap ℝ) (x m n : Nat) (hx : x < H.size) (hwf : (H.val x).WF)
    (hdim : (H.val x).dims = [m, n]) :
    ∃ r H', actForward (Activation.softmax 1) [some x] H = .ok (r, H') ∧ Extends H H' ∧
      (H'.val r).dims = [m, n] ∧
      ∀ i, i < m → (chunk (H'.val r).data n i).sum = 1 ∧ ∀ y ∈ chunk (H'.val r).data n i, 0 < y ∧ y ≤ 1 := by
  obtain ⟨r, H', h1, h2, h3, _, h5⟩ := softmax_value_rank2 H x m n hx hwf hdim
  have hn : 0 < n := hwf.2 n (by rw [hdim]; simp)
  have hlen : (H.val x).data.length = m * n := by rw [hwf.1, hdim]; simp [prod]
  refine ⟨r, H', h1, h2, h3, ?_⟩
  intro i hi
  have hcl : (chunk (H.val x).data n i).length = n := chunk_length _ n i m hlen hi
  have hne : chunk (H.val x).data n i ≠ [] := by
    intro h; rw [h] at hcl; simp at hcl; omega
  rw [h5 i hi]
  refine ⟨softmax_sum_one _ hne, ?_⟩
  intro y hy
  obtain ⟨a, ha, rfl⟩ := List.mem_map.mp hy
  exact softmax_mem_Ioc _ a ha

/-- non-vacuity: two well-formed `[2, 2]` tensors (batch × classes) in a heap; rank-1 witness: `C12` -/
example : ∃ H : Heap ℝ, 0 < H.size ∧ 1 < H.size ∧ (H.val 0).WF ∧ (H.val 1).WF ∧
    (H.val 0).dims = [2, 2] ∧ (H.val 1).dims = [2, 2] :=
  ⟨#[⟨⟨[2, 2], [1, 2, 3, 4]⟩, {}⟩, ⟨⟨[2, 2], [0, 1, 1, 0]⟩, {}⟩], by simp, by simp, by simp [Heap.val, Tensor.WF, prod],
    by simp [Heap.val, Tensor.WF, prod], by simp [Heap.val], by simp [Heap.val]⟩

end C12x
end Qeep
