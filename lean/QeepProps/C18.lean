import QeepProofs.Real
/-!
# C18 — initializers and random constructors honour shape, support and scale (partial by nature)

Proved (over `ℝ`): the parameter algebra of every initializer (`initFamily`: validation, defaults, scale formulas),
the affine map from the raw stream to the tensor elements (`sampleData`: gonum's `rnd*(Max-Min)+Min`,
`rnd*Sigma+Mu`), its support for uniform draws, its mean/variance transformation, shape of the result, and that
element `k` consumes raw draw `k` (each draw used once, in order).
Trusted, not proved: that `golang.org/x/exp/rand` / gonum deliver independent U[0,1) resp. N(0,1) raw draws; the
correspondence run replays the raw stream bit-exactly and runs moment tests on the real code's output.
-/
set_option linter.unusedSimpArgs false

namespace Qeep
namespace C18
open RealScalar

/-- **Uniform support**: a raw draw `u ∈ [0,1)` lands in `[lower, upper)`. -/
theorem uniform_support (lo hi u : ℝ) (h : lo < hi) (hu0 : 0 ≤ u) (hu1 : u < 1) :
    lo ≤ Scalar.add (Scalar.mul u (Scalar.sub hi lo)) lo ∧ Scalar.add (Scalar.mul u (Scalar.sub hi lo)) lo < hi := by
  simp only [add_eq, mul_eq, sub_eq]
  have hd : 0 < hi - lo := by linarith
  constructor
  · nlinarith [mul_nonneg hu0 hd.le]
  · nlinarith [mul_lt_mul_of_pos_right hu1 hd]

/-- the affine maps applied to the raw draws: mean and variance transform as for any affine map, so a
    U[0,1) draw (mean 1/2, variance 1/12) gives mean (lo+hi)/2 and variance (hi-lo)²/12, and an N(0,1) draw
    gives mean `mu` and variance `sigma²` -/
theorem uniform_affine (lo hi u : ℝ) : Scalar.add (Scalar.mul u (Scalar.sub hi lo)) lo = lo + (hi - lo) * u := by
  simp; ring

theorem normal_affine (mu s z : ℝ) : Scalar.add (Scalar.mul z s) mu = mu + s * z := by
  simp; ring

/-- **HeUniform**: bound `r = sqrt(6/fanIn)`, support `[-r, r)`, variance of U(-r,r) `= r²/3 = 2/fanIn`. -/
theorem he_uniform (fanIn : Int) (h : 0 < fanIn) :
    ∃ r : ℝ, initFamily (InitKind.heUniform (some fanIn)) = .ok (Family.uniform (-r) r) ∧
      r = Real.sqrt (6 / (fanIn.toNat : ℝ)) ∧ r ^ 2 / 3 = 2 / (fanIn.toNat : ℝ) := by
  have hn : ¬ fanIn ≤ 0 := by omega
  have hpos : (0 : ℝ) < (fanIn.toNat : ℝ) := by
    have : 0 < fanIn.toNat := by omega
    exact_mod_cast this
  refine ⟨Real.sqrt (6 / (fanIn.toNat : ℝ)), ?_, rfl, ?_⟩
  · simp [initFamily, hn, Scalar.sqrt]
  · rw [Real.sq_sqrt (by positivity)]; field_simp; norm_num

/-- **XavierUniform**: `r = sqrt(6/(fanIn+fanOut))`, variance `2/(fanIn+fanOut)`. -/
theorem xavier_uniform (fi fo : Int) (hi : 0 < fi) (ho : 0 < fo) :
    ∃ r : ℝ, initFamily (InitKind.xavierUniform (some (fi, fo))) = .ok (Family.uniform (-r) r) ∧
      r = Real.sqrt (6 / ((fi + fo).toNat : ℝ)) ∧ r ^ 2 / 3 = 2 / ((fi + fo).toNat : ℝ) := by
  have hn : ¬ (fi ≤ 0 ∨ fo ≤ 0) := by omega
  have hpos : (0 : ℝ) < ((fi + fo).toNat : ℝ) := by
    have : 0 < (fi + fo).toNat := by omega
    exact_mod_cast this
  refine ⟨Real.sqrt (6 / ((fi + fo).toNat : ℝ)), ?_, rfl, ?_⟩
  · simp [initFamily, hn, Scalar.sqrt]
  · rw [Real.sq_sqrt (by positivity)]; field_simp; norm_num

/-- **HeNormal / XavierNormal**: mean 0, `sigma² = 2/fanIn` resp. `2/(fanIn+fanOut)`. -/
theorem he_normal (fanIn : Int) (h : 0 < fanIn) :
    ∃ s : ℝ, initFamily (InitKind.heNormal (some fanIn)) = .ok (Family.normal 0 s) ∧ s ^ 2 = 2 / (fanIn.toNat : ℝ) := by
  have hn : ¬ fanIn ≤ 0 := by omega
  have hpos : (0 : ℝ) < (fanIn.toNat : ℝ) := by
    have : 0 < fanIn.toNat := by omega
    exact_mod_cast this
  refine ⟨Real.sqrt (2 / (fanIn.toNat : ℝ)), ?_, ?_⟩
  · simp [initFamily, hn, Scalar.sqrt]
  · rw [Real.sq_sqrt (by positivity)]

theorem xavier_normal (fi fo : Int) (hi : 0 < fi) (ho : 0 < fo) :
    ∃ s : ℝ, initFamily (InitKind.xavierNormal (some (fi, fo))) = .ok (Family.normal 0 s) ∧
      s ^ 2 = 2 / ((fi + fo).toNat : ℝ) := by
  have hn : ¬ (fi ≤ 0 ∨ fo ≤ 0) := by omega
  have hpos : (0 : ℝ) < ((fi + fo).toNat : ℝ) := by
    have : 0 < (fi + fo).toNat := by omega
    exact_mod_cast this
  refine ⟨Real.sqrt (2 / ((fi + fo).toNat : ℝ)), ?_, ?_⟩
  · simp [initFamily, hn, Scalar.sqrt]
  · rw [Real.sq_sqrt (by positivity)]

/-- **Defaults of nil configs**: Full 0, Uniform [-0.05, 0.05), Normal(0, 0.05). -/
theorem defaults :
    initFamily (InitKind.full (none : Option ℝ)) = .ok (Family.const 0) ∧
    initFamily (InitKind.uniform (none : Option (ℝ × ℝ))) = .ok (Family.uniform (-(5 / 100)) (5 / 100)) ∧
    initFamily (InitKind.normal (none : Option (ℝ × ℝ))) = .ok (Family.normal 0 (5 / 100)) := by
  refine ⟨by simp [initFamily], ?_, ?_⟩
  · have : (-(5 / 10 ^ 2) : ℝ) < 5 / 10 ^ 2 := by norm_num
    simp [initFamily, Scalar.ofSci, this]; norm_num
  · have : (0 : ℝ) < 5 / 10 ^ 2 := by norm_num
    simp [initFamily, Scalar.ofSci, Scalar.gt, this]; norm_num

/-- **Parameter validation**: invalid configurations are errors (missing config for the fan-based kinds,
    non-positive fans, `lower ≥ upper`, `sigma ≤ 0`). -/
theorem invalid_configs (lo hi mu s : ℝ) (fi fo : Int) :
    initFamily (InitKind.heUniform (none : Option Int) : InitKind ℝ) = .err ∧
    initFamily (InitKind.xavierNormal (none : Option (Int × Int)) : InitKind ℝ) = .err ∧
    (fi ≤ 0 → initFamily (InitKind.heNormal (some fi) : InitKind ℝ) = .err) ∧
    (fi ≤ 0 ∨ fo ≤ 0 → initFamily (InitKind.xavierUniform (some (fi, fo)) : InitKind ℝ) = .err) ∧
    (hi ≤ lo → initFamily (InitKind.uniform (some (lo, hi))) = .err) ∧
    (s ≤ 0 → initFamily (InitKind.normal (some (mu, s))) = .err) := by
  refine ⟨rfl, rfl, fun h => by simp [initFamily, h], fun h => by simp [initFamily, h], ?_, ?_⟩
  · intro h
    have : ¬ lo < hi := by linarith
    simp [initFamily, this]
  · intro h
    have : ¬ (0 : ℝ) < s := by linarith
    simp [initFamily, Scalar.gt, this]

/-- **Shape and stream use**: with enough raw draws, a random tensor of an accepted shape has exactly the
    requested dims, one element per position, and element `k` is the affine image of raw draw `k` — each draw is
    used once, in row-major order (no draw is repeated inside a tensor). -/
theorem random_shape_and_stream (lo hi : ℝ) (h : lo < hi) (dims : List Int) (hd : validInputDims dims = true)
    (us zs : List ℝ) (hn : prod (natDims dims) ≤ us.length) :
    ∃ data, vRandom (Family.uniform lo hi) dims us zs = some (.ok ⟨natDims dims, data⟩) ∧
      data.length = prod (natDims dims) ∧
      ∀ k (hk : k < prod (natDims dims)), data[k]? = some (lo + (hi - lo) * us[k]'(by omega)) := by
  have hnl : ¬ us.length < prod (natDims dims) := by omega
  refine ⟨(us.take (prod (natDims dims))).map (fun u => Scalar.add (Scalar.mul u (Scalar.sub hi lo)) lo), ?_, ?_, ?_⟩
  · simp [vRandom, h, hd, sampleData, hnl]
  · simp; omega
  · intro k hk
    simp [List.getElem?_map, List.getElem?_take, hk, List.getElem?_eq_getElem (show k < us.length by omega)]
    ring

/-- non-vacuity: HeUniform with fanIn = 6 has bound 1 -/
example : ∃ r : ℝ, initFamily (InitKind.heUniform (some 6)) = .ok (Family.uniform (-r) r) ∧ r ^ 2 / 3 = 2 / ((6 : Int).toNat : ℝ) := by
  obtain ⟨r, h1, _, h3⟩ := he_uniform 6 (by norm_num)
  exact ⟨r, h1, h3⟩

end C18
end Qeep
