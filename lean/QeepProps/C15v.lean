import QeepProps.C15z
import QeepProps.C01q
import QeepProps.C16z
import Mathlib.Tactic.IntervalCases
/-!
# C15 — Softmax (rank 1, `Dim = 0`) inside a walk

`softmax_full`: the six tensors `Softmax.Forward` allocates on a heap of size `N` are `N … N+5` (`softmax_graph` with the
identities). `softmax_in_walk`: in ANY heap containing that graph, for a successful walk from any root outside the layer that
leaves `G` on the layer's result, with nothing outside the layer consuming its internal tensors or `x` — `x.Gradient()` is
`s_j·(G_j − bfac·Σ_i G_i s_i)`: the vector–Jacobian product in `sum` mode, the tree's (finding D2) `1/n`-weighted variant
in `mean` mode.
-/
set_option linter.unusedSimpArgs false
set_option linter.unusedSectionVars false
set_option linter.unusedVariables false

namespace Qeep
namespace C15v
open RealScalar C15x C15z C01 C01x C01z C01w

section ids
variable {α : Type} [Scalar α]

theorem hAlong_id {rd : Reducer} {x : Nat} {d : Int} {H H' : Heap α} {r : Nat} (h : hAlong rd x d H = .ok (r, H')) :
    r = H.size ∧ H'.size = H.size + 1 := by
  unfold hAlong at h
  obtain ⟨H0, H1, h1, h2⟩ := bind_ok h
  obtain ⟨e0, e1⟩ := getHeap_ok h1
  rw [e0, e1] at h2
  exact hOp1_id h2

theorem hUnSqueeze_id {x : Nat} {d : Int} {H H' : Heap α} {r : Nat} (h : hUnSqueeze x d H = .ok (r, H')) :
    r = H.size ∧ H'.size = H.size + 1 := by
  unfold hUnSqueeze at h
  obtain ⟨H0, H1, h1, h2⟩ := bind_ok h
  obtain ⟨e0, e1⟩ := getHeap_ok h1
  rw [e0, e1] at h2
  exact hOp1_id h2

end ids

/-- `C15x.softmax_chain` with the shapes of the intermediate gradients -/
theorem softmax_chain_shapes (bm : BMode) (H : Heap ℝ) (x e s s' e' s'' : Nat) (n : Nat) (G : Tensor ℝ)
    (dX : (H.val x).dims = [n])
    (he : H.val e = (H.val x).map Real.exp) (hs : (H.val s).dims = []) (hs' : (H.val s').dims = [1])
    (he' : H.val e' = H.val e) (hs'' : H.val s'' = ⟨[n], List.replicate n (C15x.expSum (H.val x))⟩)
    (wX : (H.val x).WF) (wG : G.WF) (hd : G.dims = [n]) :
    ∃ ga gb g1 g2 ce1 ce2 ge,
      evalRule bm H G (.divA s'') = .ok ga ∧
      evalRule bm H G (.divB e' s'') = .ok gb ∧
      evalRule bm H gb (.bcastX s' s'') = .ok g1 ∧
      evalRule bm H g1 (.reshapeX s) = .ok g2 ∧
      evalRule bm H g2 (.sumAlongX e 0) = .ok ce1 ∧
      evalRule bm H ga (.bcastX e e') = .ok ce2 ∧
      vArith .add ce1 ce2 = .ok ge ∧
      evalRule bm H ge (.expX e) = .ok ⟨[n], List.zipWith (fun g a => smax (H.val x) a * (g - bfac bm n * sdot G (H.val x)))
        G.data (H.val x).data⟩ ∧
      Shaped [n] ga ∧ Shaped [1] g1 ∧ Shaped [] g2 ∧ Shaped [n] gb ∧ Shaped [n] ce1 ∧ Shaped [n] ce2 ∧ Shaped [n] ge := by
  have hn : 0 < n := wX.2 n (by rw [dX]; simp)
  have hlX : (H.val x).data.length = n := by rw [wX.1, dX]; simp [prod]
  have hlG : G.data.length = n := by rw [wG.1, hd]; simp [prod]
  have wE : (H.val e).WF := by rw [he]; exact map_wf _ _ wX
  have dE : (H.val e).dims = [n] := by rw [he]; exact dX
  have wS : (H.val s'').WF := by rw [hs'']; exact ⟨by simp [prod], by simpa using hn⟩
  have dS : (H.val s'').dims = [n] := by rw [hs'']
  obtain ⟨_, r2, r3⟩ := C02.rule_mul_div bm H G e' s'' wG (by rw [he']; exact wE) wS (by rw [he', dE, hd]) (by rw [dS, hd])
  -- the gradient towards the denominator, element-wise
  have hgb : List.zipWith (fun g p => g * p) G.data
        (List.zipWith (fun u v => (-1 * u) / v ^ (2 : ℝ)) (H.val e').data (H.val s'').data)
      = List.zipWith (fun g a => (-1 / C15x.expSum (H.val x)) * (g * smax (H.val x) a)) G.data (H.val x).data := by
    rw [he', he, hs'']
    apply List.ext_getElem
    · simp [Tensor.map, hlX, hlG]
    · intro i h1 h2
      simp only [Tensor.map, List.getElem_zipWith, List.getElem_map, List.getElem_replicate, smax, Real.rpow_two]
      ring
  have wgb : (⟨G.dims, List.zipWith (fun g a => (-1 / C15x.expSum (H.val x)) * (g * smax (H.val x) a)) G.data (H.val x).data⟩ : Tensor ℝ).WF := by
    refine ⟨?_, wG.2⟩
    simp [hlX, hlG, hd, prod]
  rw [hgb] at r3
  have hc : (List.zipWith (fun g a => (-1 / C15x.expSum (H.val x)) * (g * smax (H.val x) a)) G.data (H.val x).data).sum
      = (-1 / C15x.expSum (H.val x)) * sdot G (H.val x) := sum_zipWith_mul_left _ _ _ _
  -- Broadcast rule [n] → [1]
  have b1 : evalRule bm H (⟨G.dims, List.zipWith (fun g a => (-1 / C15x.expSum (H.val x)) * (g * smax (H.val x) a)) G.data (H.val x).data⟩ : Tensor ℝ)
      (.bcastX s' s'') = .ok ⟨[1], [bfac bm n * ((-1 / C15x.expSum (H.val x)) * sdot G (H.val x))]⟩ := by
    simp only [evalRule, hs', dS]
    rw [bcast_1n bm n _ wgb hd, hc]
  have b2 : evalRule bm H (⟨[1], [bfac bm n * ((-1 / C15x.expSum (H.val x)) * sdot G (H.val x))]⟩ : Tensor ℝ) (.reshapeX s)
      = .ok ⟨[], [bfac bm n * ((-1 / C15x.expSum (H.val x)) * sdot G (H.val x))]⟩ := by
    simp only [evalRule, hs]
    exact reshape_to_scalar _
  have b3 : evalRule bm H (⟨[], [bfac bm n * ((-1 / C15x.expSum (H.val x)) * sdot G (H.val x))]⟩ : Tensor ℝ) (.sumAlongX e 0)
      = .ok ⟨[n], List.replicate n (bfac bm n * ((-1 / C15x.expSum (H.val x)) * sdot G (H.val x)))⟩ := by
    simp only [evalRule, dE]
    exact C13.reducerBroadcasted_scalar _ n hn
  have wga : (⟨G.dims, List.zipWith (fun g v => g / v) G.data (H.val s'').data⟩ : Tensor ℝ).WF :=
    zip_wf _ G (H.val s'') wG wS (by rw [dS, hd])
  have wce1 : (⟨[n], List.replicate n (bfac bm n * ((-1 / C15x.expSum (H.val x)) * sdot G (H.val x)))⟩ : Tensor ℝ).WF :=
    ⟨by simp [prod], by simpa using hn⟩
  have b5 := vArith_same .add _ _ wce1 wga (by rw [hd])
  have wge := zip_wf Arith.add.fn _ _ wce1 wga (by rw [hd])
  refine ⟨_, _, _, _, _, _, _, r2, r3, b1, b2, b3, r_bcast bm H _ e e' (by rw [he']), b5, ?_,
    ⟨wga, hd⟩, ⟨⟨by simp [prod], by simp⟩, rfl⟩, ⟨⟨by simp [prod], by simp⟩, rfl⟩, ⟨wgb, hd⟩, ⟨wce1, rfl⟩, ⟨wga, hd⟩, ⟨wge, rfl⟩⟩
  simp only [evalRule]
  rw [vArith_same .mul _ _ wge wE (by rw [dE])]
  congr 2
  rw [he, hs'']
  apply List.ext_getElem
  · simp [Tensor.map, hlX, hlG]
  · intro i h1 h2
    simp only [Tensor.map, Arith.fn, List.getElem_zipWith, List.getElem_map, List.getElem_replicate, smax,
      add_eq, mul_eq]
    ring


theorem liveCtx_inj {a b : List (Edge ℝ)} (h : liveCtx a = liveCtx b) : a = b := by
  unfold liveCtx at h
  injection h

/-- **the Softmax graph with the identities of its tensors** -/
theorem softmax_full (bm : BMode) (H : Heap ℝ) (x n : Nat) (hR : Reach bm H) (hwf : (H.val x).WF)
    (dX : (H.val x).dims = [n]) (l : Live H x) :
    ∃ H', actForward (Activation.softmax 0) [some x] H = .ok (H.size + 5, H') ∧ Extends H H' ∧ Reach bm H' ∧
      H'.size = H.size + 6 ∧ H'.val x = H.val x ∧
      H'.val H.size = (H.val x).map Real.exp ∧ (H'.val (H.size + 1)).dims = [] ∧ (H'.val (H.size + 2)).dims = [1] ∧
      H'.val (H.size + 3) = H'.val H.size ∧ H'.val (H.size + 4) = ⟨[n], List.replicate n (C15x.expSum (H.val x))⟩ ∧
      H'.val (H.size + 5) = (H.val x).map (smax (H.val x)) ∧
      H'.ctx H.size = liveCtx [⟨x, .expX H.size⟩] ∧
      H'.ctx (H.size + 1) = liveCtx [⟨H.size, .sumAlongX H.size 0⟩] ∧
      H'.ctx (H.size + 2) = liveCtx [⟨H.size + 1, .reshapeX (H.size + 1)⟩] ∧
      H'.ctx (H.size + 3) = liveCtx [⟨H.size, .bcastX H.size (H.size + 3)⟩] ∧
      H'.ctx (H.size + 4) = liveCtx [⟨H.size + 2, .bcastX (H.size + 2) (H.size + 4)⟩] ∧
      H'.ctx (H.size + 5) = liveCtx [⟨H.size + 3, .divA (H.size + 4)⟩, ⟨H.size + 4, .divB (H.size + 3) (H.size + 4)⟩] := by
  obtain ⟨e, s, s', e', s'', r, H', hrun, hext, hx, he, hs, hs', he', hs'', hr, ce, cs, cs', ce', cs'', cr⟩ :=
    softmax_graph H x n hwf dX l
  -- the same run, step by step, for the identities and reachability
  have h := hrun
  unfold actForward at h
  rw [bind_run (show (liftOut (oneInput [some x]) : HM ℝ Nat) H = .ok (x, H) from rfl)] at h
  simp only [] at h
  rw [bind_run (show (getHeap : HM ℝ (Heap ℝ)) H = .ok (H, H) from rfl)] at h
  rw [if_neg (by rw [dX]; simp)] at h
  obtain ⟨e0, H1, g1, h⟩ := bind_ok h
  obtain ⟨_, x1, _, le0⟩ := hUnary_live g1 l
  obtain ⟨ie, z1⟩ := hUnary_id g1
  obtain ⟨s0, H2, g2, h⟩ := bind_ok h
  obtain ⟨_, x2, _, ls0⟩ := hAlong_live g2 le0
  obtain ⟨is, z2⟩ := hAlong_id g2
  obtain ⟨s1, H3, g3, g4⟩ := bind_ok h
  obtain ⟨_, x3, _, ls1⟩ := hUnSqueeze_live g3 ls0
  obtain ⟨is1, z3⟩ := hUnSqueeze_id g3
  have le3 : Live H3 e0 := (le0.ext x2).ext x3
  obtain ⟨a', b', ia, ib, ir, z4, x4, _, _, _, ca, cb, crr, la, lb, lr⟩ := hArith_live_id g4 le3 ls1
  have R1 : Reach bm H1 := Reach.unary hR l.1 g1
  have R2 : Reach bm H2 := Reach.along R1 le0.1 g2
  have R3 : Reach bm H3 := Reach.unsqueeze R2 ls0.1 g3
  have R4 : Reach bm H' := Reach.arith R3 le3.1 ls1.1 g4
  -- link the tensors of `softmax_graph` to the identities through the contexts
  have k1 : liveCtx (α := ℝ) [⟨e', Rule.divA s''⟩, ⟨s'', Rule.divB e' s''⟩] = liveCtx (arithEdges .div a' b') := by rw [← cr, crr]
  have k1' := liveCtx_inj k1
  simp only [arithEdges, List.cons.injEq, Edge.mk.injEq, and_true] at k1'
  obtain ⟨⟨q1, _⟩, ⟨q2, _⟩⟩ := k1'
  subst q1 q2
  have k2 := liveCtx_inj (by rw [← cs'', cb] : liveCtx (α := ℝ) [⟨s', Rule.bcastX s' s''⟩] = liveCtx [⟨s1, Rule.bcastX s1 s''⟩])
  simp only [List.cons.injEq, Edge.mk.injEq, and_true] at k2
  obtain ⟨q3, _⟩ := k2
  subst q3
  have k3 := liveCtx_inj (by rw [← ce', ca] : liveCtx (α := ℝ) [⟨e, Rule.bcastX e e'⟩] = liveCtx [⟨e0, Rule.bcastX e0 e'⟩])
  simp only [List.cons.injEq, Edge.mk.injEq, and_true] at k3
  obtain ⟨q4, _⟩ := k3
  subst q4
  obtain ⟨_, _, cs1, _⟩ := hUnSqueeze_live g3 ls0
  have k4 := liveCtx_inj (by rw [← cs', x4.ctx ls1.1, cs1] : liveCtx (α := ℝ) [⟨s, Rule.reshapeX s⟩] = liveCtx [⟨s0, Rule.reshapeX s0⟩])
  simp only [List.cons.injEq, Edge.mk.injEq, and_true] at k4
  obtain ⟨q5, _⟩ := k4
  subst q5
  have i1 : e = H.size := ie
  have i2 : s = H.size + 1 := by omega
  have i3 : s' = H.size + 2 := by omega
  have i4 : e' = H.size + 3 := by omega
  have i5 : s'' = H.size + 4 := by omega
  have i6 : r = H.size + 5 := by omega
  subst i1 i2 i3 i4 i5 i6
  exact ⟨H', hrun, hext, R4, by omega, hx, he, hs, hs', he', hs'', hr, ce, cs, cs', ce', cs'', cr⟩

/-- the back edges of the six tensors of the Softmax graph (tensor `k + i`) -/
def smEdges (x k : Nat) : Nat → List (Edge ℝ)
  | 0 => [⟨x, .expX k⟩]
  | 1 => [⟨k, .sumAlongX k 0⟩]
  | 2 => [⟨k + 1, .reshapeX (k + 1)⟩]
  | 3 => [⟨k, .bcastX k (k + 3)⟩]
  | 4 => [⟨k + 2, .bcastX (k + 2) (k + 4)⟩]
  | 5 => [⟨k + 3, .divA (k + 4)⟩, ⟨k + 4, .divB (k + 3) (k + 4)⟩]
  | _ => []

/-- **Softmax inside ANY walk** (either mode; see the header) -/
theorem softmax_in_walk (bm : BMode) (H2 : Heap ℝ) (root x k n : Nat)
    (hdag : HeapDag H2) (htr : H2.tracked root = true) (hok : (backprop bm H2 root).status = .ok ())
    (wX : (H2.val x).WF) (dX : (H2.val x).dims = [n]) (hxk : x < k)
    (he : H2.val k = (H2.val x).map Real.exp) (hs : (H2.val (k + 1)).dims = []) (hs' : (H2.val (k + 2)).dims = [1])
    (he' : H2.val (k + 3) = H2.val k) (hs'' : H2.val (k + 4) = ⟨[n], List.replicate n (C15x.expSum (H2.val x))⟩)
    (hc : ∀ i, i ≤ 5 → H2.ctx (k + i) = liveCtx (smEdges x k i))
    (tx : H2.tracked x = true) (gx : H2.grad x = none)
    (hroot1 : root ≠ x) (hroot2 : ∀ i, i ≤ 4 → root ≠ k + i)
    (hsole : ∀ v, (v < k ∨ k + 5 < v) → ∀ e ∈ (H2.ctx v).edges, e.target ≠ x ∧ ¬ (k ≤ e.target ∧ e.target ≤ k + 4))
    (G : Tensor ℝ) (wG : G.WF) (dG : G.dims = [n])
    (hy : k + 5 ∈ backwardOrder H2 root) (f5 : (backprop bm H2 root).heap.grad (k + 5) = some G) :
    (backprop bm H2 root).heap.grad x
      = some ⟨[n], List.zipWith (fun g a => smax (H2.val x) a * (g - bfac bm n * sdot G (H2.val x))) G.data (H2.val x).data⟩ := by
  have c0 := hc 0 (by omega); have c1 := hc 1 (by omega); have c2 := hc 2 (by omega)
  have c3 := hc 3 (by omega); have c4 := hc 4 (by omega); have c5 := hc 5 (by omega)
  simp only [smEdges, Nat.add_zero] at c0 c1 c2 c3 c4 c5
  obtain ⟨g0, t0, e0⟩ := liveCtx_grad H2 _ _ c0
  obtain ⟨g1', t1, e1⟩ := liveCtx_grad H2 _ _ c1
  obtain ⟨g2', t2, e2⟩ := liveCtx_grad H2 _ _ c2
  obtain ⟨g3, t3, e3⟩ := liveCtx_grad H2 _ _ c3
  obtain ⟨g4, t4, e4⟩ := liveCtx_grad H2 _ _ c4
  obtain ⟨_, t5, e5⟩ := liveCtx_grad H2 _ _ c5
  obtain ⟨_, hcl, _, _⟩ := backwardOrder_spec H2 root hdag htr
  have mem_of (u v : Nat) (hu : u ∈ backwardOrder H2 root) (r' : Rule ℝ) (hev : (⟨v, r'⟩ : Edge ℝ) ∈ (H2.ctx u).edges)
      (hv : H2.tracked v = true) : v ∈ backwardOrder H2 root := by
    apply hcl u hu
    unfold succs
    exact List.mem_filter.mpr ⟨List.mem_map.mpr ⟨⟨v, r'⟩, hev, rfl⟩, hv⟩
  have m5 := hy
  have m3 := mem_of _ (k + 3) m5 (.divA (k + 4)) (by rw [e5]; simp) t3
  have m4 := mem_of _ (k + 4) m5 (.divB (k + 3) (k + 4)) (by rw [e5]; simp) t4
  have m2 := mem_of _ (k + 2) m4 (.bcastX (k + 2) (k + 4)) (by rw [e4]; simp) t2
  have m1 := mem_of _ (k + 1) m2 (.reshapeX (k + 1)) (by rw [e2]; simp) t1
  have m0 := mem_of _ k m1 (.sumAlongX k 0) (by rw [e1]; simp) t0
  -- who else could have an edge into a tensor of the graph, or into x
  have hno : ∀ (t : Nat), ((k ≤ t ∧ t ≤ k + 4) ∨ t = x) → ∀ (P : Nat → Prop),
      (∀ i, i ≤ 5 → ¬ P (k + i) → ∀ e ∈ smEdges x k i, e.target ≠ t) →
      ∀ v ∈ backwardOrder H2 root, ¬ P v → ∀ e ∈ (H2.ctx v).edges, e.target ≠ t := by
    intro t ht P hfin v hv hne e hev
    by_cases hvk : v < k ∨ k + 5 < v
    · obtain ⟨s1, s3⟩ := hsole v hvk e hev
      rcases ht with ht | rfl
      · intro h; rw [h] at s3; exact s3 ht
      · exact s1
    · obtain ⟨i, hi, rfl⟩ : ∃ i, i ≤ 5 ∧ v = k + i := ⟨v - k, by omega, by omega⟩
      rw [hc i hi] at hev
      exact hfin i hi hne e hev
  let Hm := markDirty H2 (backwardOrder H2 root)
  have hv1 : ∀ n, Hm.val n = H2.val n := fun n => markDirty_val _ _ n
  have hcg : ∀ gy r, evalRule bm Hm gy r = evalRule bm H2 gy r := fun gy r => C16z.evalRule_val_congr bm Hm H2 hv1 gy r
  obtain ⟨ga, gb, g1, g2, ce1, ce2, ge, q1, q2, q3, q4, q5, q6, q7, q8, sa, _, _, _, sc1, sc2, _⟩ :=
    softmax_chain_shapes bm H2 x k (k + 1) (k + 2) (k + 3) (k + 4) n G dX he hs hs' he' hs'' wX wG dG
  have f3 : (backprop bm H2 root).heap.grad (k + 3) = some ga := by
    apply grad_single' bm H2 root hdag htr hok (k + 3) (k + 5) m5 (hroot2 3 (by omega)).symm g3 t3 (.divA (k + 4))
      (by rw [e5]; simp [List.filter_cons]) ?_ G ga f5 (by rw [hcg]; exact q1)
    intro v hv hne
    apply hno (k + 3) (by omega) (fun v => v = k + 5) ?_ v hv hne
    intro i hi hne e hev
    interval_cases i <;> simp [smEdges] at hev hne <;> (try rcases hev with rfl | rfl) <;> (try subst hev) <;> simp <;> omega
  have f4 : (backprop bm H2 root).heap.grad (k + 4) = some gb := by
    apply grad_single' bm H2 root hdag htr hok (k + 4) (k + 5) m5 (hroot2 4 (by omega)).symm g4 t4 (.divB (k + 3) (k + 4))
      (by rw [e5]; simp [List.filter_cons]) ?_ G gb f5 (by rw [hcg]; exact q2)
    intro v hv hne
    apply hno (k + 4) (by omega) (fun v => v = k + 5) ?_ v hv hne
    intro i hi hne e hev
    interval_cases i <;> simp [smEdges] at hev hne <;> (try rcases hev with rfl | rfl) <;> (try subst hev) <;> simp <;> omega
  have f2 : (backprop bm H2 root).heap.grad (k + 2) = some g1 := by
    apply grad_single' bm H2 root hdag htr hok (k + 2) (k + 4) m4 (hroot2 2 (by omega)).symm g2' t2 (.bcastX (k + 2) (k + 4))
      (by rw [e4]; simp [List.filter_cons]) ?_ gb g1 f4 (by rw [hcg]; exact q3)
    intro v hv hne
    apply hno (k + 2) (by omega) (fun v => v = k + 4) ?_ v hv hne
    intro i hi hne e hev
    interval_cases i <;> simp [smEdges] at hev hne <;> (try rcases hev with rfl | rfl) <;> (try subst hev) <;> simp <;> omega
  have f1 : (backprop bm H2 root).heap.grad (k + 1) = some g2 := by
    apply grad_single' bm H2 root hdag htr hok (k + 1) (k + 2) m2 (hroot2 1 (by omega)).symm g1' t1 (.reshapeX (k + 1))
      (by rw [e2]; simp [List.filter_cons]) ?_ g1 g2 f2 (by rw [hcg]; exact q4)
    intro v hv hne
    apply hno (k + 1) (by omega) (fun v => v = k + 2) ?_ v hv hne
    intro i hi hne e hev
    interval_cases i <;> simp [smEdges] at hev hne <;> (try rcases hev with rfl | rfl) <;> (try subst hev) <;> simp <;> omega
  have f0 : (backprop bm H2 root).heap.grad k = some ge := by
    apply grad_two bm H2 root hdag htr hok k (k + 1) (k + 3) m1 m3 (by omega) (by simpa using (hroot2 0 (by omega)).symm) g0 t0
      (.sumAlongX k 0) (.bcastX k (k + 3)) (by rw [e1]; simp [List.filter_cons]) (by rw [e3]; simp [List.filter_cons]) ?_
      g2 ce1 ga ce2 ge f1 f3 (by rw [hcg]; exact q5) (by rw [hcg]; exact q6) [n] sc1 sc2 q7
    intro v hv hn1 hn3
    apply hno k (by omega) (fun v => v = k + 1 ∨ v = k + 3) ?_ v hv (by intro h; rcases h with h | h; exact hn1 h; exact hn3 h)
    intro i hi hne e hev
    interval_cases i <;> simp [smEdges] at hev hne <;> (try rcases hev with rfl | rfl) <;> (try subst hev) <;> simp <;> omega
  apply grad_single' bm H2 root hdag htr hok x k m0 hroot1.symm gx tx (.expX k)
    (by rw [e0]; simp [List.filter_cons]) ?_ ge _ f0 (by rw [hcg]; exact q8)
  intro v hv hne
  apply hno x (Or.inr rfl) (fun v => v = k) ?_ v hv hne
  intro i hi hne e hev
  interval_cases i <;> simp [smEdges] at hev hne <;> (try rcases hev with rfl | rfl) <;> (try subst hev) <;> simp <;> omega

theorem sum_map_div (S : ℝ) : ∀ l : List ℝ, (l.map (fun a => Real.exp a / S)).sum = (l.map Real.exp).sum / S
  | [] => by simp
  | a :: l => by simp [sum_map_div S l, add_div]

/-- with the all-ones upstream gradient `Σ_i G_i s_i = Σ_i s_i = 1` -/
theorem sdot_ones (X : Tensor ℝ) (wX : X.WF) (T : Tensor ℝ) (hT : T.dims = X.dims) (wT : T.WF) :
    sdot (vPow T Scalar.zero) X = 1 := by
  have hl : T.data.length = X.data.length := by rw [wT.1, wX.1, hT]
  unfold sdot vPow Tensor.map
  simp only []
  have : List.zipWith (fun g a => g * smax X a) (List.map (fun a => Scalar.pow a Scalar.zero) T.data) X.data
      = X.data.map (fun a => Real.exp a / C15x.expSum X) := by
    apply List.ext_getElem
    · simp [hl]
    · intro i h1 h2
      simp [smax]
  rw [this, sum_map_div]
  have := expSum_pos X wX
  unfold C15x.expSum at this ⊢
  exact div_self (ne_of_gt this)

/-- **`BackPropagate` on the output of Softmax** (rank 1, `Dim = 0`; `x` not consumed elsewhere): with the all-ones seed
    `x.Gradient()[j] = s_j·(1 − bfac)`: all zeros in `sum` mode — the softmax outputs sum to the constant 1 — and
    `s_j·(1 − 1/n)` in `mean` mode (the tree, finding D2): nonzero for every `n > 1`. -/
theorem softmax_backprop (bm : BMode) (H : Heap ℝ) (x n : Nat) (hR : Reach bm H) (hwf : (H.val x).WF)
    (dX : (H.val x).dims = [n]) (l : Live H x) (hsole : ∀ v, ∀ e ∈ (H.ctx v).edges, e.target ≠ x) :
    ∃ r H', actForward (Activation.softmax 0) [some x] H = .ok (r, H') ∧ H'.val r = (H.val x).map (smax (H.val x)) ∧
      ((backprop bm H' r).status = .ok () →
        (backprop bm H' r).heap.grad x
          = some ⟨[n], (H.val x).data.map (fun a => smax (H.val x) a * (1 - bfac bm n))⟩) := by
  obtain ⟨H', hrun, hext, hR', hsz, hx, he, hs, hs', he', hs'', hr, c0, c1, c2, c3, c4, c5⟩ :=
    softmax_full bm H x n hR hwf dX l
  refine ⟨H.size + 5, H', hrun, hr, ?_⟩
  intro hok
  have hdag := reach_dag hR'
  have hdagH := reach_dag hR
  have hxN : x < H.size := l.1
  obtain ⟨g5, t5, e5⟩ := liveCtx_grad H' _ _ c5
  have tx : H'.tracked x = true := by have := l.2.1; simp only [Heap.tracked, hext.ctx hxN] at this ⊢; exact this
  have gx : H'.grad x = none := by
    have := reach_clean_nograd hR x l.2.2; simp only [Heap.grad, hext.ctx hxN] at this ⊢; exact this
  obtain ⟨hroot, _, _, _⟩ := backwardOrder_spec H' (H.size + 5) hdag t5
  have wr : (H'.val (H.size + 5)).WF := by rw [hr]; exact map_wf _ _ hwf
  have f5 := grad_root bm H' (H.size + 5) hdag t5 hok g5 wr
  have sG := ones_shaped (H'.val (H.size + 5)) wr
  have dr : (H'.val (H.size + 5)).dims = [n] := by rw [hr]; exact dX
  have key := softmax_in_walk bm H' (H.size + 5) x H.size n hdag t5 hok (by rw [hx]; exact hwf) (by rw [hx]; exact dX) hxN
    (by rw [hx]; exact he) hs hs' he' (by rw [hx]; exact hs'')
    (by
      intro i hi
      interval_cases i
      · exact c0
      · exact c1
      · exact c2
      · exact c3
      · exact c4
      · exact c5)
    tx gx (by omega) (by intro i hi; omega)
    (by
      intro v hv e hev
      rcases hv with hv | hv
      · rw [hext.ctx hv] at hev
        refine ⟨hsole v e hev, ?_⟩
        have := hdagH v e hev
        omega
      · rw [C16z.ctx_beyond H' v (by omega)] at hev; simp at hev)
    _ sG.1 (by rw [sG.2, dr]) hroot f5
  rw [key, hx]
  congr 1
  rw [sdot_ones (H.val x) hwf (H'.val (H.size + 5)) (by rw [dr, dX]) wr]
  congr 1
  unfold vPow Tensor.map
  simp only []
  rw [hr]
  simp only [Tensor.map]
  apply List.ext_getElem
  · simp
  · intro i h1 h2
    simp

end C15v
end Qeep
