import QeepProofs.Run
import QeepProofs.Along
import QeepProofs.Real
/-!
# C12 — loss functions return the defined scalar

Over `ℝ`, for every batch size `n ≥ 1` and all values: `MSE.Compute` run on the heap model succeeds, leaves every
existing tensor untouched and returns the scalar tensor `[] ↦ (Σᵢ (tᵢ − pᵢ)²) / n`; the value does not depend on
tracking (contexts are computed separately from values: `C08.forward_value_ignores_flags`).

BCE and CE (clipping, logarithms, row sums) are covered by the correspondence run only.
-/
set_option linter.unusedSimpArgs false

namespace Qeep
namespace C12
open RealScalar

variable {α : Type}

/-- a reduction of a rank-1 tensor along its only dimension is the reducer applied to the tensor itself -/
theorem reduce_rank1 (t : Tensor α) (n : Nat) (hd : t.dims = [n]) (hwf : t.WF) (trf : Tensor α → α) :
    t.reduceDimRaw 0 trf = some ⟨[], [trf t]⟩ := by
  have hlt : 0 < t.dims.length := by rw [hd]; simp
  obtain ⟨data', h1, h2, h3⟩ := reduceDim_spec t hwf 0 hlt trf
  have hsq : squeezeDims 0 t.dims = [] := by rw [hd]; rfl
  rw [hsq] at h1 h2 h3
  simp only [prod] at h2 h3
  obtain ⟨fib, f1, f2, f3⟩ := h3 0 (by omega)
  -- the single fibre is the whole data
  have hS : (insLE (t.dims.length - 1 - 0) 0
      (iterN (incr (delLE (t.dims.length - 1 - 0) t.dims.reverse)) 0 (zerosLike (delLE (t.dims.length - 1 - 0) t.dims.reverse)))).reverse = [0] := by
    rw [hd]; rfl
  rw [hS] at f2 f3
  have hn : t.dims.getD 0 0 = n := by rw [hd]; rfl
  have hlen : t.data.length = n := by rw [hwf.1, hd]; simp [prod]
  have hfib : fib = t.data := by
    apply List.ext_getElem?
    intro i
    by_cases hi : i < n
    · obtain ⟨e, _⟩ := f2 i (by rw [hn]; exact hi)
      rw [e]
      simp only [List.set_cons_zero]
      unfold Tensor.at?
      simp [hd, offset, hi, prod]
    · rw [List.getElem?_eq_none (by omega), List.getElem?_eq_none (by omega)]
  have hw : sliceDims (windowOf 0 t.dims [0]) = t.dims := by rw [hd]; simp [windowOf, unitWin, sliceDims]
  rw [hfib, hw] at f3
  have : data' = [trf t] := by
    match data', h2, f3 with
    | [x], _, f3 => simp at f3; rw [f3]
  rw [h1, this]

theorem vAlong_rank1 [Scalar α] (r : Reducer) (t : Tensor α) (n : Nat) (hd : t.dims = [n]) (hwf : t.WF) :
    vAlong r t 0 = .ok ⟨[], [r.fn t]⟩ := by
  have hv : validDimLt 0 t.dims = true := by rw [hd]; rfl
  simp [vAlong, vReduceDim, hv, reduce_rank1 t n hd hwf, Out.ofOpt]

theorem zipWith_maps {β γ δ ε : Type} (f : γ → δ → ε) (g : β → γ) (h : β → δ) (l : List β) :
    List.zipWith f (l.map g) (l.map h) = l.map (fun a => f (g a) (h a)) := by
  induction l with
  | nil => rfl
  | cons x xs ih => simp [ih]

/-- **MSE = mean of squared differences**, for every batch size and all values -/
theorem mse_value (H : Heap ℝ) (p t : Nat) (n : Nat) (hp : p < H.size) (ht : t < H.size)
    (wp : (H.val p).WF) (wt : (H.val t).WF) (dp : (H.val p).dims = [n]) (dt : (H.val t).dims = [n]) :
    ∃ r H', lossCompute Loss.mse (some p) (some t) H = .ok (r, H') ∧ Extends H H' ∧
      H'.val r = ⟨[], [((List.zipWith (fun tv pv => (tv - pv) ^ 2) (H.val t).data (H.val p).data).sum) / (n : ℝ)]⟩ := by
  have hdims : (H.val t).dims = (H.val p).dims := by rw [dp, dt]
  -- d = yt - yp
  obtain ⟨d, H1, h1⟩ := ran_hArith_same .sub t p H ht hp wt wp hdims
  -- d² = d.Pow(2)
  obtain ⟨d2, H2, h2⟩ := ran_hPow d (Scalar.two : ℝ) H1
  have wd : (H1.val d).WF := by rw [h1.val]; exact zip_wf _ _ _ wt wp hdims
  have wd2 : (H2.val d2).WF := by rw [h2.val]; exact map_wf _ _ wd
  have dd2 : (H2.val d2).dims = [n] := by rw [h2.val, h1.val]; exact dt
  -- MeanAlong(0)
  obtain ⟨r, H3, h3⟩ := ran_hAlong .mean d2 0 H2 _ (vAlong_rank1 .mean (H2.val d2) n dd2 wd2)
  refine ⟨r, H3, ?_, (h1.ext.trans h2.ext).trans h3.ext, ?_⟩
  · unfold lossCompute
    rw [bind_run (show (getHeap : HM ℝ (Heap ℝ)) H = .ok (H, H) from rfl)]
    have hv : lossValid H Loss.mse (some p) (some t) = .ok (p, t) := by
      simp [lossValid, dp, dt]
    rw [bind_run (show (liftOut (lossValid H Loss.mse (some p) (some t)) : HM ℝ (Nat × Nat)) H = .ok ((p, t), H) by rw [hv]; rfl)]
    simp only []
    rw [bind_run h1.run, bind_run h2.run]
    exact h3.run
  · rw [h3.val]
    congr 2
    simp only [Reducer.fn, Tensor.mean, Tensor.avg, Tensor.sum, Tensor.fold, Tensor.numElems, dd2, prod]
    rw [h2.val, h1.val]
    simp only [vPow, Tensor.map, Arith.fn]
    have key : ∀ (l : List ℝ) (a : ℝ), l.foldl Scalar.add a = a + l.sum := by
      intro l
      induction l with
      | nil => intro a; simp
      | cons x xs ih => intro a; rw [List.foldl_cons, ih, List.sum_cons, add_eq, add_assoc]
    rw [key, zero_eq, zero_add, div_eq, ofNat_eq]
    congr 1
    · rw [← List.zipWith_map]
      simp [Real.rpow_two]
    · simp

/-- non-vacuity: two rank-1 tensors of equal length in a heap -/
example : ∃ H : Heap ℝ, 0 < H.size ∧ 1 < H.size ∧ (H.val 0).WF ∧ (H.val 1).WF ∧ (H.val 0).dims = [2] ∧ (H.val 1).dims = [2] :=
  ⟨#[⟨⟨[2], [1, 2]⟩, {}⟩, ⟨⟨[2], [0, 1]⟩, {}⟩], by simp, by simp, by simp [Heap.val, Tensor.WF, prod],
    by simp [Heap.val, Tensor.WF, prod], by simp [Heap.val], by simp [Heap.val]⟩

end C12
end Qeep
