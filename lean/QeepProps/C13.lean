import QeepProps.C02
import QeepProps.C06
import QeepProofs.Bcast
/-!
# C13 — loss gradients with respect to predictions equal the analytic derivatives (MSE)

As for C15: `C01.backprop_adjoint` delivers, along any graph, one rule application per back edge; here the *local*
backward pass of the MSE graph `l = MeanAlong(Pow(Sub(t, p), 2), 0)` is evaluated with the Model's rules, for every
batch size and all values (over `ℝ`): starting from an upstream gradient `c` on the scalar loss (the all-ones seed is
`c = 1`), the prediction receives `c · 2(pᵢ − tᵢ)/n` at every position.

BCE and CE gradients (clipping ties, logarithms) are covered by the correspondence run only.
-/
set_option linter.unusedSimpArgs false

namespace Qeep
namespace C13
open RealScalar

/-- broadcasting a one-element tensor `[1]` to `[n]` repeats its element -/
theorem broadcast_one (c : ℝ) (n : Nat) (hn : 0 < n) :
    (⟨[1], [c]⟩ : Tensor ℝ).broadcastRaw [n] = some ⟨[n], List.replicate n c⟩ := by
  have hwf : (⟨[1], [c]⟩ : Tensor ℝ).WF := ⟨by simp [prod], by simp⟩
  have hv : validBroadcast [1] [n] = true := by simp [validBroadcast, validBroadcastLE]
  obtain ⟨data, h1, h2, h3⟩ := broadcastRaw_spec (⟨[1], [c]⟩ : Tensor ℝ) hwf [n] (by simpa using hn) hv
  have : data = List.replicate n c := by
    apply List.ext_getElem?
    intro k
    by_cases hk : k < n
    · obtain ⟨e1, _⟩ := h3 k (by simpa [prod] using hk)
      rw [e1]
      have hp : ∀ u : List Nat, (projLE [1] [n] u) = [] ∨ ∃ v, projLE [1] [n] u = [v] ∧ (v = 0 ∨ (1 = n ∧ ∃ w, u = w :: u.tail ∧ v = w)) := by
        intro u
        cases u with
        | nil => left; rfl
        | cons w us =>
          right
          simp only [List.reverse_cons, List.reverse_nil, List.nil_append, projLE]
          by_cases h1n : 1 = n
          · exact ⟨w, by simp [h1n], Or.inr ⟨h1n, w, rfl, rfl⟩⟩
          · exact ⟨0, by simp [h1n], Or.inl rfl⟩
      have hval := valid_iter (ds := [n]) (by simpa using hn) k
      simp only [List.reverse_cons, List.reverse_nil, List.nil_append] at e1 ⊢
      -- the projected index is [0] in every case
      have hz : projLE [1] [n] (iterN (incr [n]) k (zerosLike [n])) = [0] := by
        cases hu : iterN (incr [n]) k (zerosLike [n]) with
        | nil => rw [hu] at hval; cases hval
        | cons w us =>
          rw [hu] at hval
          cases hval with
          | cons hw hrest =>
            cases hrest
            simp only [projLE]
            by_cases h1n : 1 = n
            · subst h1n; simp; omega
            · simp [h1n]
      rw [hz]
      simp [Tensor.at?, offset, prod, List.getElem?_replicate, hk]
    · rw [List.getElem?_eq_none (by simp [prod] at h2; omega), List.getElem?_eq_none (by simp; omega)]
  rw [h1, this]

/-- `reducerBroadcasted` of a scalar gradient towards a rank-1 operand: every position gets the scalar -/
theorem reducerBroadcasted_scalar (c : ℝ) (n : Nat) (hn : 0 < n) :
    reducerBroadcasted (⟨[], [c]⟩ : Tensor ℝ) [n] 0 = .ok ⟨[n], List.replicate n c⟩ := by
  have hwf : (⟨[], [c]⟩ : Tensor ℝ).WF := ⟨by simp [prod], by simp⟩
  have hu : vUnSqueeze (⟨[], [c]⟩ : Tensor ℝ) ((0 : Nat) : Int) = .ok ⟨[1], [c]⟩ := by
    simp [vUnSqueeze, validUnSqueeze, C06.unsqueeze_data _ hwf, Out.ofOpt, unsqueezeDims]
  have hpos : validInputDims ([n].map Int.ofNat) = true := by
    simp [validInputDims]; omega
  have hb : vBroadcastN (⟨[1], [c]⟩ : Tensor ℝ) [n] = .ok ⟨[n], List.replicate n c⟩ := by
    unfold vBroadcastN vBroadcast
    rw [hpos]
    have : validBroadcast [1] (natDims ([n].map Int.ofNat)) = true := by simp [natDims, validBroadcast, validBroadcastLE]
    simp only [this, Bool.and_self, if_true]
    have hnd : natDims ([n].map Int.ofNat) = [n] := by simp [natDims]
    rw [hnd, broadcast_one c n hn]; rfl
  simp only [reducerBroadcasted, bind, Out.bind, hu, hb]

/-- the `Broadcast` rule between equal shapes returns the gradient unchanged (no expansion, nothing to reduce) -/
theorem bcastRule_same (bm : BMode) (ds : List Nat) (g : Tensor ℝ) : bcastRule bm ds ds g = .ok g := by
  unfold bcastRule
  simp only [Nat.sub_self, bcastLead, bind, Out.bind, List.drop_zero]
  have : ∀ (j : Nat) (l : List Nat) (red : Tensor ℝ → Int → Out (Tensor ℝ)), bcastExpand red j l l g = .ok g := by
    intro j l red
    induction l generalizing j with
    | nil => rfl
    | cons d l ih => simp [bcastExpand, ih]
  exact this _ _ _

/-- **MSE, local backward pass**: from an upstream gradient `c` on the scalar loss, through MeanAlong(0), Pow(2),
    Sub (second operand) and the identity Broadcast of the prediction, the prediction receives `c · 2(pᵢ − tᵢ)/n`. -/
theorem mse_local_vjp (bm : BMode) (H : Heap ℝ) (p t p' d d2 : Nat) (n : Nat) (c : ℝ) (hn : 0 < n)
    (wp : (H.val p).WF) (wt : (H.val t).WF) (dp : (H.val p).dims = [n]) (dt : (H.val t).dims = [n])
    (hp' : H.val p' = H.val p)
    (hd : H.val d = ⟨[n], List.zipWith (fun tv pv => tv - pv) (H.val t).data (H.val p).data⟩)
    (hd2 : H.val d2 = (H.val d).map (fun v => v ^ (2 : ℝ))) :
    ∃ c1 c2 c3 c4,
      evalRule bm H (⟨[], [c]⟩ : Tensor ℝ) (.avgAlongX d2 0) = .ok c1 ∧
      evalRule bm H c1 (.powX d 2) = .ok c2 ∧
      evalRule bm H c2 .negG = .ok c3 ∧
      evalRule bm H c3 (.bcastX p p') = .ok c4 ∧
      c4 = ⟨[n], List.zipWith (fun tv pv => c * (2 * (pv - tv)) / (n : ℝ)) (H.val t).data (H.val p).data⟩ := by
  have hlt : (H.val t).data.length = n := by rw [wt.1, dt]; simp [prod]
  have hlp : (H.val p).data.length = n := by rw [wp.1, dp]; simp [prod]
  have wd : (H.val d).WF := by
    rw [hd]; refine ⟨by simp [hlt, hlp, prod], by simpa using hn⟩
  have dd2 : (H.val d2).dims = [n] := by rw [hd2, hd]; rfl
  -- 1. MeanAlong rule
  have e1 : evalRule bm H (⟨[], [c]⟩ : Tensor ℝ) (.avgAlongX d2 0)
      = .ok ⟨[n], (List.replicate n c).map (fun g => (1 / (n : ℝ)) * g)⟩ := by
    simp only [evalRule, dd2, bind, Out.bind, reducerBroadcasted_scalar c n hn, pure, List.getD_cons_zero]
    simp [vScale, Tensor.map]
  -- 2. Pow rule (exponent 2 ≠ 0)
  have wc1 : (⟨[n], (List.replicate n c).map (fun g => (1 / (n : ℝ)) * g)⟩ : Tensor ℝ).WF :=
    ⟨by simp [prod], by simpa using hn⟩
  have e2 := C02.rule_pow bm H (⟨[n], (List.replicate n c).map (fun g => (1 / (n : ℝ)) * g)⟩ : Tensor ℝ) d wc1 wd (by rw [hd]) 2
  let c2 : Tensor ℝ := ⟨[n], List.zipWith (fun g v => g * (if (2 : ℝ) = 0 then 0 else 2 * v ^ ((2 : ℝ) - 1)))
    ((List.replicate n c).map (fun g => (1 / (n : ℝ)) * g)) (H.val d).data⟩
  let c3 : Tensor ℝ := ⟨c2.dims, c2.data.map (fun g => -1 * g)⟩
  refine ⟨⟨[n], (List.replicate n c).map (fun g => (1 / (n : ℝ)) * g)⟩, c2, c3, c3, e1, e2, (C02.rule_add_sub bm H c2).2, ?_, ?_⟩
  · simp only [evalRule, hp', dp]
    exact bcastRule_same bm _ _
  · simp only [c3, c2]
    congr 1
    rw [hd]
    apply List.ext_getElem
    · simp [hlt, hlp]
    · intro i h1 h2
      simp only [List.getElem_map, List.getElem_zipWith, List.getElem_replicate]
      have h20 : (2 : ℝ) ≠ 0 := by norm_num
      simp only [h20, if_false]
      have : ∀ v : ℝ, v ^ ((2 : ℝ) - 1) = v := by
        intro v; rw [show (2 : ℝ) - 1 = 1 by norm_num, Real.rpow_one]
      simp only [this]
      field_simp
      ring

end C13
end Qeep
