import QeepProps.C16
import QeepProps.C04
import QeepProps.C09x
import QeepProps.C12x
import QeepProofs.BcastSum
import QeepProofs.Real
import Mathlib.Algebra.BigOperators.Group.Finset.Basic
import Mathlib.Algebra.BigOperators.Ring.Finset
import Mathlib.Analysis.Calculus.Deriv.Add
import Mathlib.Analysis.Calculus.Deriv.Mul
/-!
# C16 extension — the FC layer: totality of `Forward`, the graph it builds, and the parameter / input gradients

Go: `component/layers/fc.go`, `(*FC).forward`: `W.UnSqueeze(1)`, `x.UnSqueeze(1)`, `MatMul`, `SumAlong(2)`, `Add(B)`;
Model: `Qeep.fcForward`. With `W, B : [O]`, `x : [N, D]`:

* `fc_forward_graph` — on valid input `Forward` **always** returns `ok`; it allocates exactly nine tensors whose values
  *and gradient contexts* (back edges) are listed in `FCGraph`; nothing else changes.
  Corollaries `fc_forward_total`, `fc_forward_value` (the formula without the "whenever it returns ok" premise of
  `C16.fc_forward`; `fc_forward_value'` is literally totality + `C16.fc_forward`).
* `fc_backpaths` — `pathB`, `pathW`, `pathX` are the paths of back edges from the result to `B`, `W`, `x` in that graph
  (towards tracked targets, nothing spent): the edges `BackPropagate` follows.
* `fc_grad_bias`, `fc_grad_weight`, `fc_grad_input` (any scalar type, sums in execution order) — composing the backward
  rules (`evalRule`, `BMode.sum`) along those paths from an upstream gradient `G : [N, O]` gives tensors of the
  parameters' shapes with `dB[o] = Σ_n G[n][o]`, `dW[o] = Σ_n Σ_d G[n][o]·x[n][d]`, `dx[n][d] = Σ_o W[o]·G[n][o]`.
  The input path has no expanding `Broadcast`, so `fc_grad_input` holds in `mean` mode as well.
* `fc_grad_bias_mean` — the code as it is (`BMode.mean`, finding D2): `dB[o] = (Σ_n G[n][o]) / N`.
* over `ℝ`: `fc_forward_backward` (everything in one statement, textbook form with `Finset` sums),
  `fc_vjp_is_derivative` (those sums are the partial derivatives of `Σ G[n][o]·y[n][o]`, Mathlib `HasDerivAt`),
  `fc_backward_is_gradient` (the delivered tensors hold exactly these derivatives).
* kernel-checked examples on integer scalars, including the real `BackPropagate` on the FC graph in both modes.

Not proved here: that `backprop` as a whole accumulates exactly these path results into `Gradient()` for an arbitrary
enclosing graph (that is the chain-rule statement of C01 / C08; the examples check it on one concrete graph).
-/
set_option linter.unusedSimpArgs false
set_option linter.unusedSectionVars false
set_option linter.unusedVariables false

namespace Qeep
namespace C16x

variable {α : Type} [Scalar α]

/-- `t` is a vector of length `n` with entries `f` -/
structure Is1 (t : Tensor α) (n : Nat) (f : Nat → α) : Prop where
  wf : t.WF
  dims : t.dims = [n]
  el : ∀ i, i < n → t.el [i] = f i

/-- `t` is an `m × n` matrix with entries `f` -/
structure Is2 (t : Tensor α) (m n : Nat) (f : Nat → Nat → α) : Prop where
  wf : t.WF
  dims : t.dims = [m, n]
  el : ∀ i j, i < m → j < n → t.el [i, j] = f i j

/-- `t` is an `a × b × c` tensor with entries `f` -/
structure Is3 (t : Tensor α) (a b c : Nat) (f : Nat → Nat → Nat → α) : Prop where
  wf : t.WF
  dims : t.dims = [a, b, c]
  el : ∀ i j k, i < a → j < b → k < c → t.el [i, j, k] = f i j k


/-! ## value-level steps, at index level -/

theorem el_of_at? {t : Tensor α} {u : List Nat} {v : α} (h : t.at? u = some v) : t.el u = v := by
  unfold Tensor.el; rw [h]; rfl

theorem valid1 {n i : Nat} (h : i < n) : Valid [n] [i] := .cons h .nil
theorem valid2 {m n i j : Nat} (hi : i < m) (hj : j < n) : Valid [m, n] [i, j] := .cons hi (.cons hj .nil)
theorem valid3 {a b c i j k : Nat} (hi : i < a) (hj : j < b) (hk : k < c) : Valid [a, b, c] [i, j, k] :=
  .cons hi (.cons hj (.cons hk .nil))

theorem Is1.pos {t : Tensor α} {n : Nat} {f : Nat → α} (h : Is1 t n f) : 0 < n :=
  h.wf.2 n (by rw [h.dims]; simp)
theorem Is2.pos {t : Tensor α} {m n : Nat} {f : Nat → Nat → α} (h : Is2 t m n f) : 0 < m ∧ 0 < n :=
  ⟨h.wf.2 m (by rw [h.dims]; simp), h.wf.2 n (by rw [h.dims]; simp)⟩
theorem Is3.pos {t : Tensor α} {a b c : Nat} {f : Nat → Nat → Nat → α} (h : Is3 t a b c f) : 0 < a ∧ 0 < b ∧ 0 < c :=
  ⟨h.wf.2 a (by rw [h.dims]; simp), h.wf.2 b (by rw [h.dims]; simp), h.wf.2 c (by rw [h.dims]; simp)⟩

/-- every well-formed vector / matrix / rank-3 tensor is described by its own elements -/
theorem is1_self (t : Tensor α) (hwf : t.WF) (n : Nat) (hd : t.dims = [n]) : Is1 t n (fun i => t.el [i]) :=
  ⟨hwf, hd, fun _ _ => rfl⟩
theorem is2_self (t : Tensor α) (hwf : t.WF) (m n : Nat) (hd : t.dims = [m, n]) : Is2 t m n (fun i j => t.el [i, j]) :=
  ⟨hwf, hd, fun _ _ _ _ => rfl⟩
theorem is3_self (t : Tensor α) (hwf : t.WF) (a b c : Nat) (hd : t.dims = [a, b, c]) :
    Is3 t a b c (fun i j k => t.el [i, j, k]) :=
  ⟨hwf, hd, fun _ _ _ _ _ _ => rfl⟩

/-- `UnSqueeze(1)` of a vector: `[n] → [n, 1]` -/
theorem unsq1_vec {t : Tensor α} {n : Nat} {f : Nat → α} (h : Is1 t n f) :
    ∃ r, vUnSqueeze t 1 = .ok r ∧ r.data = t.data ∧ Is2 r n 1 (fun i _ => f i) := by
  obtain ⟨r, h1, w, d, e⟩ := unsqueeze_el t h.wf [n] [] (by rw [h.dims]; rfl)
  have hd := (C09.vUnSqueeze_total t h.wf (([n] : List Nat).length : Int)).1 (by rw [h.dims]; rfl)
  rw [h1] at hd
  injection hd with hd
  refine ⟨r, h1, by rw [hd], w, d, ?_⟩
  intro i j hi hj
  have hj0 : j = 0 := by omega
  subst hj0
  have := e [i] [] (valid1 hi) .nil
  simp only [List.cons_append, List.nil_append] at this
  rw [this]
  exact h.el i hi

/-- `UnSqueeze(1)` of a matrix: `[m, n] → [m, 1, n]` -/
theorem unsq1_mat {t : Tensor α} {m n : Nat} {f : Nat → Nat → α} (h : Is2 t m n f) :
    ∃ r, vUnSqueeze t 1 = .ok r ∧ r.data = t.data ∧ Is3 r m 1 n (fun i _ k => f i k) := by
  obtain ⟨r, h1, w, d, e⟩ := unsqueeze_el t h.wf [m] [n] (by rw [h.dims]; rfl)
  have hd := (C09.vUnSqueeze_total t h.wf (([m] : List Nat).length : Int)).1 (by rw [h.dims]; rfl)
  rw [h1] at hd
  injection hd with hd
  refine ⟨r, h1, by rw [hd], w, d, ?_⟩
  intro i j k hi hj hk
  have hj0 : j = 0 := by omega
  subst hj0
  have := e [i] [k] (valid1 hi) (valid1 hk)
  simp only [List.cons_append, List.nil_append] at this
  rw [this]
  exact h.el i k hi hk

/-- `UnSqueeze(2)` of a matrix: `[m, n] → [m, n, 1]` -/
theorem unsq2_mat {t : Tensor α} {m n : Nat} {f : Nat → Nat → α} (h : Is2 t m n f) :
    ∃ r, vUnSqueeze t 2 = .ok r ∧ Is3 r m n 1 (fun i j _ => f i j) := by
  obtain ⟨r, h1, w, d, e⟩ := unsqueeze_el t h.wf [m, n] [] (by rw [h.dims]; rfl)
  refine ⟨r, h1, w, d, ?_⟩
  intro i j k hi hj hk
  have hk0 : k = 0 := by omega
  subst hk0
  have := e [i, j] [] (valid2 hi hj) .nil
  simp only [List.cons_append, List.nil_append] at this
  rw [this]
  exact h.el i j hi hj

/-- the public `Broadcast` (to a shape of naturals) at index level -/
theorem bcastN_el (t : Tensor α) (hwf : t.WF) (shape : List Nat) (hpos : ∀ h ∈ shape, 0 < h)
    (hv : validBroadcast t.dims shape = true) :
    ∃ r, vBroadcastN t shape = .ok r ∧ r.WF ∧ r.dims = shape ∧
      ∀ u, Valid shape u → r.el u = t.el (projLE t.dims.reverse shape.reverse u.reverse).reverse := by
  obtain ⟨data, h1, h2, h3⟩ := C03.broadcast_get t hwf shape hpos hv
  refine ⟨⟨shape, data⟩, ?_, h2, rfl, ?_⟩
  · unfold vBroadcastN vBroadcast
    rw [validInputDims_ofNat _ hpos, natDims_ofNat, hv]
    simp only [Bool.and_self, if_true, h1, Out.ofOpt]
  · intro u hu
    have := (h3 u.reverse (valid_reverse hu)).1
    rw [List.reverse_reverse] at this
    unfold Tensor.el
    rw [this]

/-- `[n, o, 1] → [n, o, d]`: the last (size-1) dimension is repeated -/
theorem bcast_last {t : Tensor α} {N O : Nat} {f : Nat → Nat → Nat → α} (h : Is3 t N O 1 f) (D : Nat) (hD : 0 < D) :
    ∃ r, vBroadcastN t [N, O, D] = .ok r ∧ Is3 r N O D (fun n o _ => f n o 0) := by
  obtain ⟨hN, hO, _⟩ := h.pos
  have hv : validBroadcast t.dims [N, O, D] = true := by rw [h.dims]; simp [validBroadcast, validBroadcastLE]
  obtain ⟨r, h1, w, d, e⟩ := bcastN_el t h.wf [N, O, D] (by simp; omega) hv
  refine ⟨r, h1, w, d, ?_⟩
  intro n o k hn ho hk
  rw [e _ (valid3 hn ho hk), h.dims]
  simp only [List.reverse_cons, List.reverse_nil, List.nil_append, List.cons_append, projLE, if_true]
  have : (if 1 = D then k else 0) = 0 := by split <;> omega
  rw [this]
  exact h.el n o 0 hn ho (by omega)

/-- `[o, 1] → [n, o, 1]`: a new leading dimension -/
theorem bcast_lead3 {t : Tensor α} {O : Nat} {f : Nat → Nat → α} (h : Is2 t O 1 f) (N : Nat) (hN : 0 < N) :
    ∃ r, vBroadcastN t [N, O, 1] = .ok r ∧ Is3 r N O 1 (fun _ o k => f o k) := by
  obtain ⟨hO, _⟩ := h.pos
  have hv : validBroadcast t.dims [N, O, 1] = true := by rw [h.dims]; simp [validBroadcast, validBroadcastLE]
  obtain ⟨r, h1, w, d, e⟩ := bcastN_el t h.wf [N, O, 1] (by simp; omega) hv
  refine ⟨r, h1, w, d, ?_⟩
  intro n o k hn ho hk
  rw [e _ (valid3 hn ho hk), h.dims]
  simp only [List.reverse_cons, List.reverse_nil, List.nil_append, List.cons_append, projLE, if_true]
  exact h.el o k ho hk

/-- `[o] → [n, o]`: a row repeated -/
theorem bcast_row2 {t : Tensor α} {O : Nat} {f : Nat → α} (h : Is1 t O f) (N : Nat) (hN : 0 < N) :
    ∃ r, vBroadcastN t [N, O] = .ok r ∧ Is2 r N O (fun _ o => f o) := by
  have hO := h.pos
  have hv : validBroadcast t.dims [N, O] = true := by rw [h.dims]; simp [validBroadcast, validBroadcastLE]
  obtain ⟨r, h1, w, d, e⟩ := bcastN_el t h.wf [N, O] (by simp; omega) hv
  refine ⟨r, h1, w, d, ?_⟩
  intro n o hn ho
  rw [e _ (valid2 hn ho), h.dims]
  simp only [List.reverse_cons, List.reverse_nil, List.nil_append, List.cons_append, projLE, if_true]
  exact h.el o ho

/-- `SumAlong(2)` of a rank-3 tensor -/
theorem sum_along2 {t : Tensor α} {N O D : Nat} {f : Nat → Nat → Nat → α} (h : Is3 t N O D f) :
    ∃ r, vAlong .sum t 2 = .ok r ∧ Is2 r N O (fun n o => sumOver D (fun d => f n o d)) := by
  obtain ⟨r, h1, w, d, e⟩ := sumAlong_el t h.wf 2 (by rw [h.dims]; simp)
  have hsq : squeezeDims 2 t.dims = [N, O] := by rw [h.dims]; rfl
  rw [hsq] at d e
  refine ⟨r, h1, w, d, ?_⟩
  intro n o hn ho
  rw [e _ (valid2 hn ho)]
  have : t.dims.getD 2 0 = D := by rw [h.dims]; rfl
  rw [this]
  apply sumOver_congr
  intro i hi
  exact h.el n o i hn ho hi

/-- the element-wise kernel on two matrices of equal shape -/
theorem zip2 (g : α → α → α) {a b : Tensor α} {m n : Nat} {fa fb : Nat → Nat → α} (ha : Is2 a m n fa) (hb : Is2 b m n fb) :
    ∃ r, Tensor.zipRaw g a b = some r ∧ Is2 r m n (fun i j => g (fa i j) (fb i j)) := by
  have hd : a.dims = b.dims := by rw [ha.dims, hb.dims]
  have hl : a.data.length = b.data.length := by rw [ha.wf.1, hb.wf.1, hd]
  have wr := zip_wf g a b ha.wf hb.wf hd
  refine ⟨⟨a.dims, List.zipWith g a.data b.data⟩, by simp [Tensor.zipRaw, hd, hl], wr, ha.dims, ?_⟩
  intro i j hi hj
  have hva : Valid a.dims [i, j] := by rw [ha.dims]; exact valid2 hi hj
  have hvb : Valid b.dims [i, j] := by rw [hb.dims]; exact valid2 hi hj
  have e1 := at?_some_el a ha.wf hva
  have e2 := at?_some_el b hb.wf hvb
  have r1 := Tensor.at?_reverse a (st := [i, j].reverse) (by simpa using valid_reverse hva)
  have r2 := Tensor.at?_reverse b (st := [i, j].reverse) (by simpa using valid_reverse hvb)
  have r3 := Tensor.at?_reverse (⟨a.dims, List.zipWith g a.data b.data⟩ : Tensor α) (st := [i, j].reverse)
    (by simpa using valid_reverse hva)
  rw [List.reverse_reverse] at r1 r2 r3
  rw [r1] at e1
  rw [r2, ← hd] at e2
  apply el_of_at?
  rw [r3]
  simp only [List.getElem?_zipWith, e1, e2, Option.map_some, Option.bind_some]
  rw [ha.el i j hi hj, hb.el i j hi hj]

/-- `Transpose` of a rank-3 tensor swaps the last two coordinates -/
theorem transpose3 {t : Tensor α} {N A B : Nat} {f : Nat → Nat → Nat → α} (h : Is3 t N A B f) :
    ∃ r, vTranspose t = .ok r ∧ Is3 r N B A (fun n i j => f n j i) := by
  have hr : 2 ≤ t.dims.length := by rw [h.dims]; simp
  obtain ⟨data, e, wf, hget⟩ := C04.transpose_get t h.wf hr
  have htd : transposeDims t.dims = [N, B, A] := by rw [h.dims]; rfl
  rw [htd] at e wf hget
  refine ⟨⟨[N, B, A], data⟩, by simp [vTranspose, validTranspose, hr, e, Out.ofOpt], wf, rfl, ?_⟩
  intro n i j hn hi hj
  have hu : Valid ([N, B, A] : List Nat).reverse [j, i, n] := valid3 hj hi hn
  have h1 := (hget [j, i, n] hu).1
  have e1 : ([j, i, n] : List Nat).reverse = [n, i, j] := rfl
  have e2 : (swap2 [j, i, n]).reverse = [n, j, i] := rfl
  rw [e1, e2] at h1
  unfold Tensor.el
  rw [h1]
  exact h.el n j i hn hj hi

theorem sumOver_eq_foldl (n : Nat) (f : Nat → α) :
    sumOver n f = (List.range n).foldl (fun s p => Scalar.add s (f p)) Scalar.zero := by
  unfold sumOver; rw [List.foldl_map]

/-- the raw batched matrix product of `[N, m, p]` and `[N, p, k]` -/
theorem matMulRaw3 {a b : Tensor α} {N m p k : Nat} {fa fb : Nat → Nat → Nat → α}
    (ha : Is3 a N m p fa) (hb : Is3 b N p k fb) :
    ∃ r, a.matMulRaw b = some r ∧ Is3 r N m k (fun n i j => sumOver p (fun q => Scalar.mul (fa n i q) (fb n q j))) := by
  obtain ⟨hN, hm, hp⟩ := ha.pos
  obtain ⟨_, _, hk⟩ := hb.pos
  have ea : a = ⟨[N] ++ [m, p], a.data⟩ := by rw [show [N] ++ [m, p] = a.dims from ha.dims.symm]
  have eb : b = ⟨[N] ++ [p, k], b.data⟩ := by rw [show [N] ++ [p, k] = b.dims from hb.dims.symm]
  have wa := ha.wf; have wb := hb.wf
  rw [ea] at wa; rw [eb] at wb
  obtain ⟨data, r1, r2, r3⟩ := matMulRaw_spec [N] m p k a.data b.data (by simp; omega) hm hp hk
    (by rw [ha.wf.1, ha.dims]; rfl) (by rw [hb.wf.1, hb.dims]; rfl)
    (fun pre i q => fa (pre.headD 0) i q) (fun pre q j => fb (pre.headD 0) q j)
    (by
      intro pre i q hv hi hq
      cases hv with
      | cons hn hrest =>
        cases hrest
        rename_i n
        rw [← ea, at?_some_el a ha.wf (by rw [ha.dims]; exact valid3 hn hi hq)]
        simp only [List.cons_append, List.nil_append, List.headD_cons]
        rw [ha.el n i q hn hi hq])
    (by
      intro pre q j hv hq hj
      cases hv with
      | cons hn hrest =>
        cases hrest
        rename_i n
        rw [← eb, at?_some_el b hb.wf (by rw [hb.dims]; exact valid3 hn hq hj)]
        simp only [List.cons_append, List.nil_append, List.headD_cons]
        rw [hb.el n q j hn hq hj])
  rw [← ea, ← eb] at r1
  refine ⟨_, r1, ⟨r2, by simp; omega⟩, rfl, ?_⟩
  intro n i j hn hi hj
  apply el_of_at?
  have := r3 [n] i j (valid1 hn) hi hj
  simp only [List.cons_append, List.nil_append, List.headD_cons] at this
  rw [sumOver_eq_foldl]
  exact this

theorem targetBroadcast3 (N a b c d : Nat) : ∃ x y, targetBroadcastDims [N, a, b] [N, c, d] = [N, x, y] := by
  simp only [targetBroadcastDims, List.reverse_cons, List.reverse_nil, List.nil_append, List.cons_append, targetBroadcastLE]
  simp

/-- the public `MatMul` on operands with the same batch dimension: no broadcasting -/
theorem matMul3 {a b : Tensor α} {N m p k : Nat} {fa fb : Nat → Nat → Nat → α}
    (ha : Is3 a N m p fa) (hb : Is3 b N p k fb) :
    ∃ r, vMatMul a b = .ok r ∧ Is3 r N m k (fun n i j => sumOver p (fun q => Scalar.mul (fa n i q) (fb n q j))) := by
  obtain ⟨r, h1, h2⟩ := matMulRaw3 ha hb
  refine ⟨r, ?_, h2⟩
  have hv : validMatMul a.dims b.dims = true := by rw [ha.dims, hb.dims]; simp [validMatMul]
  obtain ⟨x, y, hT⟩ := targetBroadcast3 N m p p k
  have m1 : matMulShape (targetBroadcastDims a.dims b.dims) a.dims = a.dims := by
    rw [ha.dims, hb.dims, hT]; rfl
  have m2 : matMulShape (targetBroadcastDims a.dims b.dims) b.dims = b.dims := by
    rw [ha.dims, hb.dims, hT]; rfl
  unfold vMatMul vBroadcastPairMM
  rw [if_pos hv]
  simp only [m1, m2, bind, Out.bind, vBroadcastN_self a ha.wf, vBroadcastN_self b hb.wf, pure, h1, Out.ofOpt]

/-- `Reshape` to a shape of naturals with the same element count keeps the data -/
theorem vReshape_data (t : Tensor α) (hwf : t.WF) (shape : List Nat) (hpos : ∀ d ∈ shape, 0 < d)
    (hp : prod shape = prod t.dims) : vReshape t (shape.map Int.ofNat) = .ok ⟨shape, t.data⟩ := by
  have h := (C06.vReshape_total t hwf (shape.map Int.ofNat)).1
    ⟨validInputDims_ofNat _ hpos, by rw [natDims_ofNat]; exact hp⟩
  rw [natDims_ofNat] at h
  exact h

theorem is2_data {t : Tensor α} {m n : Nat} {f : Nat → Nat → α} (h : Is2 t m n f) (i j : Nat) (hi : i < m) (hj : j < n) :
    t.data[i * n + j]? = some (f i j) := by
  have e : t = ⟨[m, n], t.data⟩ := by rw [← h.dims]
  have := at?_some_el t h.wf (by rw [h.dims]; exact valid2 hi hj)
  rw [h.el i j hi hj] at this
  rw [e, at?_rank2' m n t.data i j hi hj] at this
  exact this

theorem is3_data {t : Tensor α} {a b c : Nat} {f : Nat → Nat → Nat → α} (h : Is3 t a b c f) (i j k : Nat)
    (hi : i < a) (hj : j < b) (hk : k < c) : t.data[i * (b * c) + (j * c + k)]? = some (f i j k) := by
  have e : t = ⟨[a, b, c], t.data⟩ := by rw [← h.dims]
  have := at?_some_el t h.wf (by rw [h.dims]; exact valid3 hi hj hk)
  rw [h.el i j k hi hj hk] at this
  rw [e, at?_rank3 a b c t.data i j k hi hj hk] at this
  exact this

/-- `[o, 1] → [o]` keeping the data -/
theorem reshape_col {t : Tensor α} {O : Nat} {f : Nat → Nat → α} (h : Is2 t O 1 f) :
    Is1 (⟨[O], t.data⟩ : Tensor α) O (fun o => f o 0) := by
  obtain ⟨hO, _⟩ := h.pos
  refine ⟨⟨by simp only []; rw [h.wf.1, h.dims]; simp [prod], by simp; omega⟩, rfl, ?_⟩
  intro o ho
  apply el_of_at?
  rw [at?_rank1 O t.data o ho]
  have := is2_data h o 0 ho (by omega)
  simpa using this

/-- `[n, 1, d] → [n, d]` keeping the data -/
theorem reshape_mid {t : Tensor α} {N D : Nat} {f : Nat → Nat → Nat → α} (h : Is3 t N 1 D f) :
    Is2 (⟨[N, D], t.data⟩ : Tensor α) N D (fun n d => f n 0 d) := by
  obtain ⟨hN, _, hD⟩ := h.pos
  refine ⟨⟨by simp only []; rw [h.wf.1, h.dims]; simp [prod], by simp; omega⟩, rfl, ?_⟩
  intro n d hn hd
  apply el_of_at?
  rw [at?_rank2' N D t.data n d hn hd]
  have := is3_data h n 0 d hn (by omega) hd
  simpa using this

theorem sumOver_one (f : Nat → α) : sumOver 1 f = Scalar.add Scalar.zero (f 0) := by
  simp [sumOver, List.range_one]

theorem targetBroadcast_fc (N O D : Nat) (hO : 0 < O) (hD : 0 < D) : targetBroadcastDims [O, 1] [N, 1, D] = [N, O, D] := by
  simp only [targetBroadcastDims, List.reverse_cons, List.reverse_nil, List.nil_append, List.cons_append, targetBroadcastLE]
  have h1 : ¬ (1 > D) := by omega
  have h2 : (if O > 1 then O else 1) = O := by split <;> omega
  simp [h1, h2]

/-! ## heap-level steps: each public call allocates nodes whose value *and context* are known -/

/-- `H'` is `H` plus one new node (id `H.size`) holding value `v` and context `c` -/
structure Alloc (H : Heap α) (v : Tensor α) (c : Ctx α) (H' : Heap α) : Prop where
  size : H'.size = H.size + 1
  val : H'.val H.size = v
  ctx : H'.ctx H.size = c
  ext : Extends H H'

theorem alloc_push (H : Heap α) (v : Tensor α) (c : Ctx α) : Alloc H v c (H.push ⟨v, c⟩) :=
  ⟨by simp, push_val_new _ _, by simp [Heap.ctx], extends_push _ _⟩

theorem Alloc.val' {H H1 H2 : Heap α} {v : Tensor α} {c : Ctx α} (a : Alloc H v c H1) (e : Extends H1 H2) :
    H2.val H.size = v := by rw [e.val (by rw [a.size]; omega), a.val]

theorem Alloc.ctx' {H H1 H2 : Heap α} {v : Tensor α} {c : Ctx α} (a : Alloc H v c H1) (e : Extends H1 H2) :
    H2.ctx H.size = c := by rw [e.ctx (by rw [a.size]; omega), a.ctx]

theorem any_congr_mem {β : Type} (l : List β) (p q : β → Bool) (h : ∀ a ∈ l, p a = q a) : l.any p = l.any q := by
  induction l with
  | nil => rfl
  | cons a l ih =>
    simp only [List.any_cons]
    rw [h a (by simp), ih (fun b hb => h b (by simp [hb]))]

theorem all_congr_mem {β : Type} (l : List β) (p q : β → Bool) (h : ∀ a ∈ l, p a = q a) : l.all p = l.all q := by
  induction l with
  | nil => rfl
  | cons a l ih =>
    simp only [List.all_cons]
    rw [h a (by simp), ih (fun b hb => h b (by simp [hb]))]

theorem mkCtx_ext {H H' : Heap α} (e : Extends H H') (ops : List Nat) (hops : ∀ n ∈ ops, n < H.size) (es : List (Edge α)) :
    mkCtx H' ops es = mkCtx H ops es := by
  have h1 : ops.any H'.dirty = ops.any H.dirty := by
    apply any_congr_mem
    intro n hn
    simp only [Heap.dirty, e.ctx (hops n hn)]
  have h2 : ops.all (fun n => !H'.tracked n) = ops.all (fun n => !H.tracked n) := by
    apply all_congr_mem
    intro n hn
    simp only [Heap.tracked, e.ctx (hops n hn)]
  unfold mkCtx
  rw [h1, h2]

theorem hOp1_alloc (x : Nat) (v : Tensor α) (rule : Nat → Rule α) (H : Heap α) :
    hOp1 x (.ok v) rule H = .ok (H.size, H.push ⟨v, mkCtx H [x] [⟨x, rule H.size⟩]⟩) := by
  simp [hOp1, hm_bind, getHeap, liftOut, alloc, Out.bind]

theorem hUnSqueeze_alloc (x : Nat) (dim : Int) (H : Heap α) (v : Tensor α) (h : vUnSqueeze (H.val x) dim = .ok v) :
    ∃ H1, hUnSqueeze x dim H = .ok (H.size, H1) ∧ Alloc H v (mkCtx H [x] [⟨x, .reshapeX x⟩]) H1 := by
  refine ⟨_, ?_, alloc_push H v _⟩
  unfold hUnSqueeze
  rw [bind_run (show (getHeap : HM α (Heap α)) H = .ok (H, H) from rfl), h]
  exact hOp1_alloc x v (fun _ => Rule.reshapeX x) H

theorem hBroadcast_alloc (x : Nat) (s : List Int) (H : Heap α) (v : Tensor α) (h : vBroadcast (H.val x) s = .ok v) :
    ∃ H1, hBroadcast x s H = .ok (H.size, H1) ∧ Alloc H v (mkCtx H [x] [⟨x, .bcastX x H.size⟩]) H1 := by
  refine ⟨_, ?_, alloc_push H v _⟩
  unfold hBroadcast
  rw [bind_run (show (getHeap : HM α (Heap α)) H = .ok (H, H) from rfl), h]
  exact hOp1_alloc x v (fun y => Rule.bcastX x y) H

theorem hSumAlong_alloc (x : Nat) (d : Int) (H : Heap α) (v : Tensor α) (h : vAlong .sum (H.val x) d = .ok v) :
    ∃ H1, hAlong .sum x d H = .ok (H.size, H1) ∧ Alloc H v (mkCtx H [x] [⟨x, .sumAlongX x d.toNat⟩]) H1 := by
  refine ⟨_, ?_, alloc_push H v _⟩
  unfold hAlong
  rw [bind_run (show (getHeap : HM α (Heap α)) H = .ok (H, H) from rfl), h]
  exact hOp1_alloc x v (fun y => alongRule .sum x y d.toNat) H

/-- `MatMul`: two `Broadcast` nodes, then the product node with the two MatMul edges -/
theorem hMatMul_alloc (a b : Nat) (H : Heap α) (ha : a < H.size) (hb : b < H.size) (va vb v : Tensor α)
    (hv : validMatMul (H.val a).dims (H.val b).dims = true)
    (hba : vBroadcastN (H.val a) (matMulShape (targetBroadcastDims (H.val a).dims (H.val b).dims) (H.val a).dims) = .ok va)
    (hbb : vBroadcastN (H.val b) (matMulShape (targetBroadcastDims (H.val a).dims (H.val b).dims) (H.val b).dims) = .ok vb)
    (hm : va.matMulRaw vb = some v) :
    ∃ H1 H2 H3, hMatMul a b H = .ok (H.size + 2, H3) ∧
      Alloc H va (mkCtx H [a] [⟨a, .bcastX a H.size⟩]) H1 ∧
      Alloc H1 vb (mkCtx H1 [b] [⟨b, .bcastX b (H.size + 1)⟩]) H2 ∧
      Alloc H2 v (mkCtx H2 [H.size, H.size + 1] [⟨H.size, .matmulA (H.size + 1)⟩, ⟨H.size + 1, .matmulB H.size⟩]) H3 := by
  obtain ⟨H1, r1, a1⟩ := hBroadcast_alloc a
    ((matMulShape (targetBroadcastDims (H.val a).dims (H.val b).dims) (H.val a).dims).map Int.ofNat) H va hba
  have hbv : H1.val b = H.val b := a1.ext.val hb
  obtain ⟨H2, r2, a2⟩ := hBroadcast_alloc b
    ((matMulShape (targetBroadcastDims (H.val a).dims (H.val b).dims) (H.val b).dims).map Int.ofNat) H1 vb
    (by rw [hbv]; exact hbb)
  have hs1 : H1.size = H.size + 1 := a1.size
  have hs2 : H2.size = H.size + 2 := by rw [a2.size, hs1]
  rw [hs1] at r2 a2
  have hva : H2.val H.size = va := a1.val' a2.ext
  have hvb : H2.val (H.size + 1) = vb := by have := a2.val; rw [hs1] at this; exact this
  refine ⟨H1, H2, H2.push ⟨v, mkCtx H2 [H.size, H.size + 1] [⟨H.size, .matmulA (H.size + 1)⟩, ⟨H.size + 1, .matmulB H.size⟩]⟩,
    ?_, a1, a2, ?_⟩
  · unfold hMatMul
    rw [bind_run (show (getHeap : HM α (Heap α)) H = .ok (H, H) from rfl), if_pos hv]
    unfold hBroadcastPairMM
    rw [hm_bind, hm_bind]
    rw [show (getHeap : HM α (Heap α)) H = .ok (H, H) from rfl]
    simp only [Out.bind]
    rw [hm_bind, r1]
    simp only [Out.bind]
    rw [hm_bind, r2]
    simp only [Out.bind, pure, StateT.pure]
    rw [hm_bind]
    rw [show (getHeap : HM α (Heap α)) H2 = .ok (H2, H2) from rfl]
    simp only [Out.bind]
    rw [hm_bind, hva, hvb, hm]
    simp only [Out.ofOpt, liftOut, Out.bind, alloc, hs2]
  · have := alloc_push H2 v (mkCtx H2 [H.size, H.size + 1] [⟨H.size, .matmulA (H.size + 1)⟩, ⟨H.size + 1, .matmulB H.size⟩])
    exact this

/-- `Add`: two `Broadcast` nodes, then the sum node with two identity edges -/
theorem hAdd_alloc (a b : Nat) (H : Heap α) (ha : a < H.size) (hb : b < H.size) (va vb v : Tensor α)
    (hba : vBroadcastN (H.val a) (targetBroadcastDims (H.val a).dims (H.val b).dims) = .ok va)
    (hbb : vBroadcastN (H.val b) (targetBroadcastDims (H.val a).dims (H.val b).dims) = .ok vb)
    (hz : Tensor.zipRaw Scalar.add va vb = some v) :
    ∃ H1 H2 H3, hArith .add a b H = .ok (H.size + 2, H3) ∧
      Alloc H va (mkCtx H [a] [⟨a, .bcastX a H.size⟩]) H1 ∧
      Alloc H1 vb (mkCtx H1 [b] [⟨b, .bcastX b (H.size + 1)⟩]) H2 ∧
      Alloc H2 v (mkCtx H2 [H.size, H.size + 1] [⟨H.size, .idG⟩, ⟨H.size + 1, .idG⟩]) H3 := by
  obtain ⟨H1, r1, a1⟩ := hBroadcast_alloc a
    ((targetBroadcastDims (H.val a).dims (H.val b).dims).map Int.ofNat) H va hba
  have hbv : H1.val b = H.val b := a1.ext.val hb
  obtain ⟨H2, r2, a2⟩ := hBroadcast_alloc b
    ((targetBroadcastDims (H.val a).dims (H.val b).dims).map Int.ofNat) H1 vb (by rw [hbv]; exact hbb)
  have hs1 : H1.size = H.size + 1 := a1.size
  have hs2 : H2.size = H.size + 2 := by rw [a2.size, hs1]
  rw [hs1] at r2 a2
  have hva : H2.val H.size = va := a1.val' a2.ext
  have hvb : H2.val (H.size + 1) = vb := by have := a2.val; rw [hs1] at this; exact this
  refine ⟨H1, H2, H2.push ⟨v, mkCtx H2 [H.size, H.size + 1] [⟨H.size, .idG⟩, ⟨H.size + 1, .idG⟩]⟩, ?_, a1, a2,
    alloc_push H2 v _⟩
  unfold hArith hBroadcastPair
  rw [hm_bind, hm_bind]
  rw [show (getHeap : HM α (Heap α)) H = .ok (H, H) from rfl]
  simp only [Out.bind]
  rw [hm_bind, r1]
  simp only [Out.bind]
  rw [hm_bind, r2]
  simp only [Out.bind, pure, StateT.pure]
  rw [hm_bind]
  rw [show (getHeap : HM α (Heap α)) H2 = .ok (H2, H2) from rfl]
  simp only [Out.bind]
  rw [hm_bind, hva, hvb]
  have hz' : Tensor.zipRaw (Arith.fn Arith.add) va vb = some v := hz
  rw [hz']
  simp only [Out.ofOpt, liftOut, Out.bind, alloc, hs2]

theorem Is2.congr {t : Tensor α} {m n : Nat} {f g : Nat → Nat → α} (h : Is2 t m n f)
    (hfg : ∀ i j, i < m → j < n → f i j = g i j) : Is2 t m n g :=
  ⟨h.wf, h.dims, fun i j hi hj => by rw [h.el i j hi hj, hfg i j hi hj]⟩

theorem Is3.congr {t : Tensor α} {a b c : Nat} {f g : Nat → Nat → Nat → α} (h : Is3 t a b c f)
    (hfg : ∀ i j k, i < a → j < b → k < c → f i j k = g i j k) : Is3 t a b c g :=
  ⟨h.wf, h.dims, fun i j k hi hj hk => by rw [h.el i j k hi hj hk, hfg i j k hi hj hk]⟩

/-! ## the graph `Forward` builds -/

/-- one product term of the FC formula as the code computes it: `0 + W[o]·x[n][d]` (a 1-term MatMul fold) -/
def term (Wf : Nat → α) (Xf : Nat → Nat → α) (n o d : Nat) : α := Scalar.add Scalar.zero (Scalar.mul (Wf o) (Xf n d))

/-- **The nine tensors `(*FC).forward` allocates**, in allocation order from base id `k`, with their values and their
    gradient contexts (`mkCtx`: tracked with the listed back edges as soon as an operand is tracked and none is spent):

    `k` = `W.UnSqueeze(1)`, `k+1` = `x.UnSqueeze(1)`, `k+2`, `k+3` = the two `Broadcast`s inside `MatMul`,
    `k+4` = the product, `k+5` = `SumAlong(2)`, `k+6`, `k+7` = the two `Broadcast`s inside `Add`, `k+8` = the result. -/
structure FCGraph (H : Heap α) (w b x k : Nat) (N D O : Nat) (Wf Bf : Nat → α) (Xf : Nat → Nat → α) : Prop where
  vw : Is1 (H.val w) O Wf
  vb : Is1 (H.val b) O Bf
  vx : Is2 (H.val x) N D Xf
  w1 : Is2 (H.val k) O 1 (fun o _ => Wf o)
  x1 : Is3 (H.val (k + 1)) N 1 D (fun n _ d => Xf n d)
  wb : Is3 (H.val (k + 2)) N O 1 (fun _ o _ => Wf o)
  xb : H.val (k + 3) = H.val (k + 1)
  mm : Is3 (H.val (k + 4)) N O D (term Wf Xf)
  s : Is2 (H.val (k + 5)) N O (fun n o => sumOver D (term Wf Xf n o))
  sb : H.val (k + 6) = H.val (k + 5)
  bb : Is2 (H.val (k + 7)) N O (fun _ o => Bf o)
  y : Is2 (H.val (k + 8)) N O (fun n o => Scalar.add (sumOver D (term Wf Xf n o)) (Bf o))
  c0 : H.ctx k = mkCtx H [w] [⟨w, .reshapeX w⟩]
  c1 : H.ctx (k + 1) = mkCtx H [x] [⟨x, .reshapeX x⟩]
  c2 : H.ctx (k + 2) = mkCtx H [k] [⟨k, .bcastX k (k + 2)⟩]
  c3 : H.ctx (k + 3) = mkCtx H [k + 1] [⟨k + 1, .bcastX (k + 1) (k + 3)⟩]
  c4 : H.ctx (k + 4) = mkCtx H [k + 2, k + 3] [⟨k + 2, .matmulA (k + 3)⟩, ⟨k + 3, .matmulB (k + 2)⟩]
  c5 : H.ctx (k + 5) = mkCtx H [k + 4] [⟨k + 4, .sumAlongX (k + 4) 2⟩]
  c6 : H.ctx (k + 6) = mkCtx H [k + 5] [⟨k + 5, .bcastX (k + 5) (k + 6)⟩]
  c7 : H.ctx (k + 7) = mkCtx H [b] [⟨b, .bcastX b (k + 7)⟩]
  c8 : H.ctx (k + 8) = mkCtx H [k + 6, k + 7] [⟨k + 6, .idG⟩, ⟨k + 7, .idG⟩]

/-- `∀ n ∈ [ids], n < size` from the size equations in context -/
local macro "mem_bound" : tactic =>
  `(tactic| (intro n hn; simp only [List.mem_cons, List.mem_singleton, List.not_mem_nil, or_false] at hn; omega))

theorem Alloc.final {H0 Hi Hj H9 : Heap α} {v : Tensor α} {c : Ctx α} {i : Nat} (a : Alloc Hi v c Hj)
    (si : Hi.size = H0.size + i) (e : Extends Hj H9) : H9.val (H0.size + i) = v ∧ H9.ctx (H0.size + i) = c := by
  rw [← si]; exact ⟨a.val' e, a.ctx' e⟩

/-- **`Forward` is total on valid input and builds exactly this graph.** For every heap, every batch size `N`, feature
    count `D` and output count `O` (all ≥ 1, implied by well-formedness), parameters `W, B : [O]`, input `x : [N, D]`:
    `Forward` returns `ok`, allocates nine nodes (ids `H.size … H.size+8`, the last is the result), changes nothing
    else, and the nodes' values and gradient contexts are the ones listed in `FCGraph`. -/
theorem fc_forward_graph (N D O : Nat) (w b x : Nat) (H : Heap α) (hw : w < H.size) (hb : b < H.size) (hx : x < H.size)
    (Wf Bf : Nat → α) (Xf : Nat → Nat → α)
    (vw : Is1 (H.val w) O Wf) (vb : Is1 (H.val b) O Bf) (vx : Is2 (H.val x) N D Xf) :
    ∃ H', fcForward ⟨some w, some b⟩ [some x] H = .ok (H.size + 8, H') ∧ Extends H H' ∧ H'.size = H.size + 9 ∧
      FCGraph H' w b x H.size N D O Wf Bf Xf := by
  have hO := vw.pos
  obtain ⟨hN, hD⟩ := vx.pos
  -- k : W.UnSqueeze(1)
  obtain ⟨w1v, e0, _, i0⟩ := unsq1_vec vw
  obtain ⟨H1, r0, a0⟩ := hUnSqueeze_alloc w 1 H w1v e0
  have s1 : H1.size = H.size + 1 := a0.size
  -- k+1 : x.UnSqueeze(1)
  obtain ⟨x1v, e1, _, i1⟩ := unsq1_mat vx
  obtain ⟨H2, r1, a1⟩ := hUnSqueeze_alloc x 1 H1 x1v (by rw [a0.ext.val hx]; exact e1)
  have s2 : H2.size = H.size + 2 := by rw [a1.size, s1]
  have v0 : H2.val H.size = w1v := a0.val' a1.ext
  have v1 : H2.val (H.size + 1) = x1v := by have := a1.val; rwa [s1] at this
  -- k+2, k+3, k+4 : MatMul
  have htb : targetBroadcastDims (H2.val H.size).dims (H2.val (H.size + 1)).dims = [N, O, D] := by
    rw [v0, v1, i0.dims, i1.dims]; exact targetBroadcast_fc N O D hO hD
  obtain ⟨wbv, e2, i2⟩ := bcast_lead3 i0 N hN
  obtain ⟨mmv, e4, i4'⟩ := matMulRaw3 i2 i1
  have i4 : Is3 mmv N O D (term Wf Xf) := i4'.congr (fun n o d _ _ _ => sumOver_one _)
  obtain ⟨H3, H4, H5, r2, a2, a3, a4⟩ := hMatMul_alloc H.size (H.size + 1) H2 (by omega) (by omega) wbv x1v mmv
    (by rw [v0, v1, i0.dims, i1.dims]; simp [validMatMul])
    (by
      rw [htb, v0, i0.dims]
      exact e2)
    (by
      rw [htb, v1, i1.dims]
      have := vBroadcastN_self x1v i1.wf
      rw [i1.dims] at this
      exact this)
    e4
  have s3 : H3.size = H.size + 3 := by rw [a2.size, s2]
  have s4 : H4.size = H.size + 4 := by rw [a3.size, s3]
  have s5 : H5.size = H.size + 5 := by rw [a4.size, s4]
  -- k+5 : SumAlong(2)
  have v4 : H5.val (H.size + 4) = mmv := by have := a4.val; rwa [s4] at this
  obtain ⟨sv, e5, i5⟩ := sum_along2 i4
  obtain ⟨H6, r5, a5⟩ := hSumAlong_alloc (H.size + 4) 2 H5 sv (by rw [v4]; exact e5)
  have s6 : H6.size = H.size + 6 := by rw [a5.size, s5]
  -- k+6, k+7, k+8 : Add
  have v5 : H6.val (H.size + 5) = sv := by have := a5.val; rwa [s5] at this
  have x06 : Extends H H6 :=
    a0.ext.trans (a1.ext.trans (a2.ext.trans (a3.ext.trans (a4.ext.trans a5.ext))))
  have vb6 : H6.val b = H.val b := x06.val hb
  have htb2 : targetBroadcastDims (H6.val (H.size + 5)).dims (H6.val b).dims = [N, O] := by
    rw [v5, vb6, i5.dims, vb.dims]; simp [targetBroadcastDims, targetBroadcastLE]
  obtain ⟨bbv, e7, i7⟩ := bcast_row2 vb N hN
  obtain ⟨yv, e8, i8⟩ := zip2 Scalar.add i5 i7
  obtain ⟨H7, H8, H9, r6, a6, a7, a8⟩ := hAdd_alloc (H.size + 5) b H6 (by omega) (by omega) sv bbv yv
    (by
      rw [htb2, v5]
      have := vBroadcastN_self sv i5.wf
      rw [i5.dims] at this
      exact this)
    (by rw [htb2, vb6]; exact e7)
    e8
  have s7 : H7.size = H.size + 7 := by rw [a6.size, s6]
  have s8 : H8.size = H.size + 8 := by rw [a7.size, s7]
  have s9 : H9.size = H.size + 9 := by rw [a8.size, s8]
  -- extensions up to the final heap
  have x99 : Extends H9 H9 := Extends.refl H9
  have x89 : Extends H8 H9 := a8.ext
  have x79 : Extends H7 H9 := a7.ext.trans x89
  have x69 : Extends H6 H9 := a6.ext.trans x79
  have x59 : Extends H5 H9 := a5.ext.trans x69
  have x49 : Extends H4 H9 := a4.ext.trans x59
  have x39 : Extends H3 H9 := a3.ext.trans x49
  have x29 : Extends H2 H9 := a2.ext.trans x39
  have x19 : Extends H1 H9 := a1.ext.trans x29
  have x09 : Extends H H9 := a0.ext.trans x19
  -- node facts in the final heap
  obtain ⟨f0v, f0c⟩ := a0.final (H0 := H) (i := 0) rfl x19
  obtain ⟨f1v, f1c⟩ := a1.final (H0 := H) s1 x29
  obtain ⟨f2v, f2c⟩ := a2.final (H0 := H) s2 x39
  obtain ⟨f3v, f3c⟩ := a3.final (H0 := H) s3 x49
  obtain ⟨f4v, f4c⟩ := a4.final (H0 := H) s4 x59
  obtain ⟨f5v, f5c⟩ := a5.final (H0 := H) s5 x69
  obtain ⟨f6v, f6c⟩ := a6.final (H0 := H) s6 x79
  obtain ⟨f7v, f7c⟩ := a7.final (H0 := H) s7 x89
  obtain ⟨f8v, f8c⟩ := a8.final (H0 := H) s8 x99
  simp only [Nat.add_zero] at f0v f0c
  rw [s2] at f2c f3c f4c
  rw [s6] at f6c f7c f8c
  refine ⟨H9, ?_, x09, s9, ?_⟩
  · unfold fcForward
    rw [bind_run (show (liftOut (oneInput [some x]) : HM α Nat) H = .ok (x, H) from rfl)]
    rw [bind_run (show (getHeap : HM α (Heap α)) H = .ok (H, H) from rfl)]
    have hr : ¬ ((H.val x).dims.length ≠ 2) := by rw [vx.dims]; simp
    rw [if_neg hr]
    simp only []
    have r1' : hUnSqueeze x 1 H1 = .ok (H.size + 1, H2) := by rw [r1, s1]
    have r2' : hMatMul H.size (H.size + 1) H2 = .ok (H.size + 4, H5) := by rw [r2, s2]
    have r5' : hAlong .sum (H.size + 4) 2 H5 = .ok (H.size + 5, H6) := by rw [r5, s5]
    have r6' : hArith .add (H.size + 5) b H6 = .ok (H.size + 8, H9) := by rw [r6, s6]
    rw [bind_run r0, bind_run r1', bind_run r2', bind_run r5']
    exact r6'
  · simp only [Nat.add_assoc, Nat.reduceAdd] at f3c f4c f7c f8c
    exact
      { vw := by rw [x09.val hw]; exact vw
        vb := by rw [x09.val hb]; exact vb
        vx := by rw [x09.val hx]; exact vx
        w1 := by rw [f0v]; exact i0
        x1 := by rw [f1v]; exact i1
        wb := by rw [f2v]; exact i2
        xb := by rw [f3v, f1v]
        mm := by rw [f4v]; exact i4
        s := by rw [f5v]; exact i5
        sb := by rw [f6v, f5v]
        bb := by rw [f7v]; exact i7
        y := by rw [f8v]; exact i8
        c0 := f0c.trans (mkCtx_ext x09 [w] (by mem_bound) _).symm
        c1 := f1c.trans (mkCtx_ext x19 [x] (by mem_bound) _).symm
        c2 := f2c.trans (mkCtx_ext x29 [H.size] (by mem_bound) _).symm
        c3 := f3c.trans (mkCtx_ext x39 [H.size + 1] (by mem_bound) _).symm
        c4 := f4c.trans (mkCtx_ext x49 [H.size + 2, H.size + 3] (by mem_bound) _).symm
        c5 := f5c.trans (mkCtx_ext x59 [H.size + 4] (by mem_bound) _).symm
        c6 := f6c.trans (mkCtx_ext x69 [H.size + 5] (by mem_bound) _).symm
        c7 := f7c.trans (mkCtx_ext x79 [b] (by mem_bound) _).symm
        c8 := f8c.trans (mkCtx_ext x89 [H.size + 6, H.size + 7] (by mem_bound) _).symm }

/-! ## Forward: totality and the unconditional formula -/

/-- **`Forward` always succeeds on valid input**: parameters `W, B` of length `outs`, an input of shape
    `[batch, features]` (well-formed tensors, so all sizes ≥ 1): the call returns `ok` with a well-formed tensor of
    shape `[batch, outs]`, and touches no existing tensor. (No error, no panic — for every heap, all sizes, all values.) -/
theorem fc_forward_total (batch features outs : Nat) (w b x : Nat) (H : Heap α)
    (hw : w < H.size) (hb : b < H.size) (hx : x < H.size)
    (ww : (H.val w).WF) (wb : (H.val b).WF) (wx : (H.val x).WF)
    (dw : (H.val w).dims = [outs]) (db : (H.val b).dims = [outs]) (dx : (H.val x).dims = [batch, features]) :
    ∃ y H', fcForward ⟨some w, some b⟩ [some x] H = .ok (y, H') ∧ (H'.val y).dims = [batch, outs] ∧ (H'.val y).WF ∧
      Extends H H' := by
  obtain ⟨H', h1, h2, _, g⟩ := fc_forward_graph batch features outs w b x H hw hb hx _ _ _
    (is1_self _ ww outs dw) (is1_self _ wb outs db) (is2_self _ wx batch features dx)
  exact ⟨H.size + 8, H', h1, g.y.dims, g.y.wf, h2⟩

/-- **The FC formula, unconditionally**: on valid input `Forward` returns `ok` and
    `y[i][o] = (Σ_d (0 + W[o]·x[i][d])) + B[o]` (folds in execution order, left to right from zero; `sumOver`). -/
theorem fc_forward_value (batch features outs : Nat) (w b x : Nat) (H : Heap α)
    (hw : w < H.size) (hb : b < H.size) (hx : x < H.size)
    (ww : (H.val w).WF) (wb : (H.val b).WF) (wx : (H.val x).WF)
    (dw : (H.val w).dims = [outs]) (db : (H.val b).dims = [outs]) (dx : (H.val x).dims = [batch, features]) :
    ∃ y H', fcForward ⟨some w, some b⟩ [some x] H = .ok (y, H') ∧ Extends H H' ∧
      (H'.val y).dims = [batch, outs] ∧ (H'.val y).WF ∧
      ∀ i o, i < batch → o < outs →
        (H'.val y).at? [i, o] = some (Scalar.add
          (sumOver features (fun d => Scalar.add Scalar.zero (Scalar.mul ((H.val w).el [o]) ((H.val x).el [i, d]))))
          ((H.val b).el [o])) := by
  obtain ⟨H', h1, h2, _, g⟩ := fc_forward_graph batch features outs w b x H hw hb hx _ _ _
    (is1_self _ ww outs dw) (is1_self _ wb outs db) (is2_self _ wx batch features dx)
  refine ⟨H.size + 8, H', h1, h2, g.y.dims, g.y.wf, ?_⟩
  intro i o hi ho
  rw [at?_some_el _ g.y.wf (by rw [g.y.dims]; exact valid2 hi ho), g.y.el i o hi ho]
  rfl

/-- the same statement obtained by combining totality with the conditional theorem `C16.fc_forward` -/
theorem fc_forward_value' (N D O : Nat) (w b x : Nat) (H : Heap α) (hw : w < H.size) (hb : b < H.size) (hx : x < H.size)
    (dw : (H.val w).dims = [O]) (db : (H.val b).dims = [O]) (dx : (H.val x).dims = [N, D])
    (ww : (H.val w).WF) (wb : (H.val b).WF) (wx : (H.val x).WF)
    (Wf Bf : Nat → α) (Xf : Nat → Nat → α)
    (hW : ∀ o, o < O → (H.val w).data[o]? = some (Wf o)) (hB : ∀ o, o < O → (H.val b).data[o]? = some (Bf o))
    (hX : ∀ i d, i < N → d < D → (H.val x).data[i * D + d]? = some (Xf i d)) :
    ∃ r H', fcForward ⟨some w, some b⟩ [some x] H = .ok (r, H') ∧ (H'.val r).dims = [N, O] ∧ Extends H H' ∧
      ∀ i o, i < N → o < O →
        (H'.val r).at? [i, o] =
          some (Scalar.add
            (((List.range D).map (fun d => Scalar.add Scalar.zero (Scalar.mul (Wf o) (Xf i d)))).foldl Scalar.add Scalar.zero)
            (Bf o)) := by
  obtain ⟨r, H', h, _, _, _⟩ := fc_forward_total N D O w b x H hw hb hx ww wb wx dw db dx
  have hN : 0 < N := wx.2 N (by rw [dx]; simp)
  have hD : 0 < D := wx.2 D (by rw [dx]; simp)
  have hO : 0 < O := ww.2 O (by rw [dw]; simp)
  obtain ⟨a1, a2, a3⟩ := C16.fc_forward N D O w b x H H' r hw hb hx hN hD hO dw db dx ww wb wx Wf Bf Xf hW hB hX h
  exact ⟨r, H', h, a1, a2, a3⟩

/-! ## Backward: the rules along the back edges of the FC graph -/

/-- the `Broadcast` rule between equal shapes returns the gradient unchanged, in either mode -/
theorem bcastRule_same (bm : BMode) (ds : List Nat) (g : Tensor α) : bcastRule bm ds ds g = .ok g := by
  unfold bcastRule
  simp only [Nat.sub_self, bcastLead, bind, Out.bind, List.drop_zero]
  have : ∀ (j : Nat) (l : List Nat) (red : Tensor α → Int → Out (Tensor α)), bcastExpand red j l l g = .ok g := by
    intro j l red
    induction l generalizing j with
    | nil => rfl
    | cons d l ih => simp [bcastExpand, ih]
  exact this _ _ _

/-- `Broadcast` rule, sum mode, `[O] → [N, O]`: the column sums -/
theorem bcastRule_row {G : Tensor α} {N O : Nat} {Gf : Nat → Nat → α} (hG : Is2 G N O Gf) :
    ∃ g, bcastRule .sum [O] [N, O] G = .ok g ∧ Is1 g O (fun o => sumOver N (fun n => Gf n o)) := by
  obtain ⟨hN, hO⟩ := hG.pos
  obtain ⟨g, h1, w, d, e⟩ := bcastRule_sum_spec [O] [N, O] G hG.wf hG.dims (by simp [validBroadcast, validBroadcastLE])
  refine ⟨g, h1, w, d, ?_⟩
  intro o ho
  rw [e [o] (valid1 ho)]
  simp [copiesSum, expSum, leadSum]
  apply sumOver_congr
  intro n hn
  exact hG.el n o hn ho

/-- `Broadcast` rule, sum mode, `[O, 1] → [N, O, 1]`: the sums over the new leading dimension -/
theorem bcastRule_lead3 {G : Tensor α} {N O : Nat} {Gf : Nat → Nat → Nat → α} (hG : Is3 G N O 1 Gf) :
    ∃ g, bcastRule .sum [O, 1] [N, O, 1] G = .ok g ∧ Is2 g O 1 (fun o k => sumOver N (fun n => Gf n o k)) := by
  obtain ⟨hN, hO, _⟩ := hG.pos
  obtain ⟨g, h1, w, d, e⟩ := bcastRule_sum_spec [O, 1] [N, O, 1] G hG.wf hG.dims (by simp [validBroadcast, validBroadcastLE])
  refine ⟨g, h1, w, d, ?_⟩
  intro o k ho hk
  rw [e [o, k] (valid2 ho hk)]
  simp [copiesSum, expSum, leadSum]
  apply sumOver_congr
  intro n hn
  exact hG.el n o k hn ho hk

/-- composition of backward rules along a path of back edges: the upstream gradient is pulled through the rules in order -/
def evalPath (bm : BMode) (H : Heap α) : List (Rule α) → Tensor α → Out (Tensor α)
  | [], g => .ok g
  | r :: rs, g => (evalRule bm H g r).bind (evalPath bm H rs)

theorem evalPath_cons {bm : BMode} {H : Heap α} {r : Rule α} {rs : List (Rule α)} {g g1 : Tensor α}
    (h : evalRule bm H g r = .ok g1) : evalPath bm H (r :: rs) g = evalPath bm H rs g1 := by
  simp only [evalPath, h, Out.bind]

theorem evalPath_append {bm : BMode} {H : Heap α} {p q : List (Rule α)} {g g1 : Tensor α}
    (h : evalPath bm H p g = .ok g1) : evalPath bm H (p ++ q) g = evalPath bm H q g1 := by
  induction p generalizing g with
  | nil => simp only [evalPath] at h; cases h; rfl
  | cons r rs ih =>
    simp only [evalPath, List.cons_append] at h ⊢
    cases hr : evalRule bm H g r with
    | ok g2 => rw [hr] at h; simp only [Out.bind] at h ⊢; exact ih h
    | err => rw [hr] at h; simp [Out.bind] at h
    | panic => rw [hr] at h; simp [Out.bind] at h

/-- a path of back edges in the heap's graph: each rule sits on an edge of the current node, leading to the next -/
inductive BackPath (H : Heap α) : Nat → List (Rule α) → Nat → Prop
  | nil (n : Nat) : BackPath H n [] n
  | cons {n t m : Nat} {r : Rule α} {rs : List (Rule α)} :
      (⟨t, r⟩ : Edge α) ∈ (H.ctx n).edges → H.tracked t = true → BackPath H t rs m → BackPath H n (r :: rs) m

section paths
variable (w b x k : Nat)

/-- result → `Broadcast(B)` → `B` -/
def pathB : List (Rule α) := [.idG, .bcastX b (k + 7)]
/-- result → `Broadcast(s)` → `s = SumAlong(2)` → the product -/
def pathMM : List (Rule α) := [.idG, .bcastX (k + 5) (k + 6), .sumAlongX (k + 4) 2]
/-- … → `Broadcast(W₁)` → `W₁ = W.UnSqueeze(1)` → `W` -/
def pathW : List (Rule α) := pathMM k ++ [.matmulA (k + 3), .bcastX k (k + 2), .reshapeX w]
/-- … → `Broadcast(x₁)` → `x₁ = x.UnSqueeze(1)` → `x` -/
def pathX : List (Rule α) := pathMM k ++ [.matmulB (k + 2), .bcastX (k + 1) (k + 3), .reshapeX x]
end paths

variable {H : Heap α} {w b x k N D O : Nat} {Wf Bf : Nat → α} {Xf : Nat → Nat → α}

/-- **Bias gradient (sum mode)**: pulling an upstream gradient `G : [N, O]` from the result back to `B` along
    `Add`'s identity rule and the `Broadcast [O] → [N, O]` rule gives a tensor of `B`'s shape with
    `dB[o] = Σ_n G[n][o]`. -/
theorem fc_grad_bias (g : FCGraph H w b x k N D O Wf Bf Xf) {G : Tensor α} {Gf : Nat → Nat → α} (hG : Is2 G N O Gf) :
    ∃ dB, evalPath .sum H (pathB b k) G = .ok dB ∧ dB.dims = (H.val b).dims ∧
      Is1 dB O (fun o => sumOver N (fun n => Gf n o)) := by
  obtain ⟨dB, h1, h2⟩ := bcastRule_row hG
  refine ⟨dB, ?_, by rw [h2.dims, g.vb.dims], h2⟩
  have e1 : evalRule .sum H G .idG = .ok G := rfl
  have e2 : evalRule .sum H G (.bcastX b (k + 7)) = .ok dB := by
    show bcastRule .sum (H.val b).dims (H.val (k + 7)).dims G = .ok dB
    rw [g.vb.dims, g.bb.dims]; exact h1
  unfold pathB
  rw [evalPath_cons e1, evalPath_cons e2]
  rfl

/-- from the result back to the product node: the gradient is replicated along the summed (feature) dimension -/
theorem fc_back_mm (bm : BMode) (g : FCGraph H w b x k N D O Wf Bf Xf) {G : Tensor α} {Gf : Nat → Nat → α} (hG : Is2 G N O Gf) :
    ∃ G3, evalPath bm H (pathMM k) G = .ok G3 ∧ Is3 G3 N O D (fun n o _ => Gf n o) := by
  obtain ⟨_, _, hD⟩ := g.mm.pos
  obtain ⟨u, hu, iu⟩ := unsq2_mat hG
  obtain ⟨G3, h3, i3⟩ := bcast_last iu D hD
  refine ⟨G3, ?_, i3⟩
  have e1 : evalRule bm H G .idG = .ok G := rfl
  have e2 : evalRule bm H G (.bcastX (k + 5) (k + 6)) = .ok G := by
    show bcastRule bm (H.val (k + 5)).dims (H.val (k + 6)).dims G = .ok G
    rw [g.sb]; exact bcastRule_same bm _ G
  have e3 : evalRule bm H G (.sumAlongX (k + 4) 2) = .ok G3 := by
    show reducerBroadcasted G (H.val (k + 4)).dims 2 = .ok G3
    rw [g.mm.dims]
    unfold reducerBroadcasted
    simp only [bind, Out.bind]
    have hu' : vUnSqueeze G ((2 : Nat) : Int) = .ok u := hu
    rw [hu']
    exact h3
  unfold pathMM
  rw [evalPath_cons e1, evalPath_cons e2, evalPath_cons e3]
  rfl

/-- **Weight gradient (sum mode)**: pulling `G : [N, O]` from the result back to `W` (through `Add`, `SumAlong(2)`,
    `MatMul` (first operand), the batch `Broadcast [O,1] → [N,O,1]` and `UnSqueeze(1)`) gives a tensor of `W`'s shape
    with `dW[o] = Σ_n Σ_d G[n][o]·x[n][d]` (sums in execution order). -/
theorem fc_grad_weight (g : FCGraph H w b x k N D O Wf Bf Xf) {G : Tensor α} {Gf : Nat → Nat → α} (hG : Is2 G N O Gf) :
    ∃ dW, evalPath .sum H (pathW w k) G = .ok dW ∧ dW.dims = (H.val w).dims ∧
      Is1 dW O (fun o => sumOver N (fun n => sumOver D (fun d => Scalar.mul (Gf n o) (Xf n d)))) := by
  obtain ⟨G3, p1, i3⟩ := fc_back_mm .sum g hG
  -- MatMul rule, first operand: G3 · x₁ᵀ
  have ixb : Is3 (H.val (k + 3)) N 1 D (fun n _ d => Xf n d) := by rw [g.xb]; exact g.x1
  obtain ⟨XT, ht, iT⟩ := transpose3 ixb
  obtain ⟨g4, hm, i4⟩ := matMul3 i3 iT
  have e4 : evalRule .sum H G3 (.matmulA (k + 3)) = .ok g4 := by
    simp only [evalRule, bind, Out.bind, ht, hm]
  -- Broadcast rule [O,1] → [N,O,1]
  obtain ⟨g5, h5, i5⟩ := bcastRule_lead3 i4
  have e5 : evalRule .sum H g4 (.bcastX k (k + 2)) = .ok g5 := by
    show bcastRule .sum (H.val k).dims (H.val (k + 2)).dims g4 = .ok g5
    rw [g.w1.dims, g.wb.dims]; exact h5
  -- UnSqueeze rule: reshape to W's shape
  have hO := g.vw.pos
  have e6 : evalRule .sum H g5 (.reshapeX w) = .ok ⟨[O], g5.data⟩ := by
    show vReshape g5 ((H.val w).dims.map Int.ofNat) = .ok ⟨[O], g5.data⟩
    rw [g.vw.dims]
    exact vReshape_data g5 i5.wf [O] (by simp; omega) (by rw [i5.dims]; simp [prod])
  refine ⟨⟨[O], g5.data⟩, ?_, by rw [g.vw.dims], reshape_col i5⟩
  unfold pathW
  rw [evalPath_append p1, evalPath_cons e4, evalPath_cons e5, evalPath_cons e6]
  rfl

/-- **Input gradient (sum mode)**: pulling `G : [N, O]` from the result back to `x` (through `Add`, `SumAlong(2)`,
    `MatMul` (second operand), the identity `Broadcast` and `UnSqueeze(1)`) gives a tensor of `x`'s shape with
    `dx[n][d] = Σ_o W[o]·G[n][o]`. In fact this path contains no expanding `Broadcast`, so the result is the same
    in `mean` mode (the model of the code as it is): stated for both. -/
theorem fc_grad_input (bm : BMode) (g : FCGraph H w b x k N D O Wf Bf Xf) {G : Tensor α} {Gf : Nat → Nat → α}
    (hG : Is2 G N O Gf) :
    ∃ dX, evalPath bm H (pathX x k) G = .ok dX ∧ dX.dims = (H.val x).dims ∧
      Is2 dX N D (fun n _ => sumOver O (fun o => Scalar.mul (Wf o) (Gf n o))) := by
  obtain ⟨G3, p1, i3⟩ := fc_back_mm bm g hG
  -- MatMul rule, second operand: W_bᵀ · G3
  obtain ⟨WT, ht, iT⟩ := transpose3 g.wb
  obtain ⟨g4, hm, i4⟩ := matMul3 iT i3
  have e4 : evalRule bm H G3 (.matmulB (k + 2)) = .ok g4 := by
    simp only [evalRule, bind, Out.bind, ht, hm]
  have e5 : evalRule bm H g4 (.bcastX (k + 1) (k + 3)) = .ok g4 := by
    show bcastRule bm (H.val (k + 1)).dims (H.val (k + 3)).dims g4 = .ok g4
    rw [g.xb]; exact bcastRule_same bm _ g4
  obtain ⟨hN, hD⟩ := g.vx.pos
  have e6 : evalRule bm H g4 (.reshapeX x) = .ok ⟨[N, D], g4.data⟩ := by
    show vReshape g4 ((H.val x).dims.map Int.ofNat) = .ok ⟨[N, D], g4.data⟩
    rw [g.vx.dims]
    exact vReshape_data g4 i4.wf [N, D] (by simp; omega) (by rw [i4.dims]; simp [prod])
  refine ⟨⟨[N, D], g4.data⟩, ?_, by rw [g.vx.dims], reshape_mid i4⟩
  unfold pathX
  rw [evalPath_append p1, evalPath_cons e4, evalPath_cons e5, evalPath_cons e6]
  rfl

/-! ## The defect D2 on the bias path: in `mean` mode (the code as it is) the bias gradient is divided by the batch size -/

/-- `AvgAlong(0)` of a matrix: the column means (sum left to right from zero, divided by `float64(N)`) -/
theorem avg_along0_mat {G : Tensor α} {N O : Nat} {Gf : Nat → Nat → α} (hG : Is2 G N O Gf) :
    ∃ r, vAlong .avg G 0 = .ok r ∧
      Is1 r O (fun o => Scalar.div (sumOver N (fun n => Gf n o)) (Scalar.ofNat N)) := by
  obtain ⟨hN, hO⟩ := hG.pos
  have eG : G = ⟨[N, O], G.data⟩ := by rw [← hG.dims]
  have hwf : (⟨[N, O], G.data⟩ : Tensor α).WF := by rw [← eG]; exact hG.wf
  obtain ⟨data', h1, h2, h3⟩ := reduceDim_spec (⟨[N, O], G.data⟩ : Tensor α) hwf 0 (by simp) Tensor.avg
  have hsq : squeezeDims 0 [N, O] = [O] := rfl
  simp only [hsq] at h1 h2 h3
  have hwr : (⟨[O], data'⟩ : Tensor α).WF := ⟨h2, by simp; omega⟩
  refine ⟨⟨[O], data'⟩, ?_, hwr, rfl, ?_⟩
  · have hv : validDimLt 0 G.dims = true := by rw [hG.dims]; simp [validDimLt]
    rw [eG]
    simp only [vAlong, vReduceDim, Reducer.fn]
    rw [if_pos (by rw [eG] at hv; exact hv)]
    have : (0 : Int).toNat = 0 := rfl
    rw [this, h1]; rfl
  · intro o ho
    have hpos : ∀ d ∈ [O], 0 < d := by simp; omega
    have hu : Valid [O] [o] := valid1 ho
    have hj : val [O] [o] < prod [O] := val_lt hu
    obtain ⟨fib, f1, f2, f3⟩ := h3 (val [O] [o]) hj
    have hdel : delLE (([N, O] : List Nat).length - 1 - 0) ([N, O] : List Nat).reverse = [O] := rfl
    simp only [hdel] at f2 f3
    rw [iter_val hpos hu] at f2 f3
    have hS : (insLE (([N, O] : List Nat).length - 1 - 0) 0 [o]).reverse = [0, o] := rfl
    simp only [hS] at f2 f3
    have hgetD : ([N, O] : List Nat).getD 0 0 = N := rfl
    rw [hgetD] at f1 f2
    have hfib : fib = (List.range N).map (fun n => Gf n o) := by
      apply List.ext_getElem?
      intro i
      by_cases hi : i < N
      · have e := (f2 i hi).1
        have hset : ([0, o] : List Nat).set 0 i = [i, o] := rfl
        rw [hset, ← eG, at?_some_el G hG.wf (by rw [hG.dims]; exact valid2 hi ho), hG.el i o hi ho] at e
        rw [e, List.getElem?_map, List.getElem?_range hi]; rfl
      · rw [List.getElem?_eq_none (by omega), List.getElem?_eq_none (by simp; omega)]
    apply el_of_at?
    have hat := Tensor.at?_reverse (⟨[O], data'⟩ : Tensor α) (st := [o]) (by simpa using hu)
    have hr : ([o] : List Nat).reverse = [o] := rfl
    rw [hr] at hat
    rw [hat]
    simp only [List.reverse_cons, List.reverse_nil, List.nil_append]
    rw [f3, hfib]
    have hwd : prod (sliceDims (windowOf 0 [N, O] [0, o])) = N := by
      simp [windowOf, unitWin, sliceDims, prod]
    simp only [Tensor.avg, Tensor.numElems, hwd, Tensor.sum, Tensor.fold, sumOver]

/-- `Broadcast` rule as the code has it (`AvgAlong`), `[O] → [N, O]`: the column **means** -/
theorem bcastRule_row_mean {G : Tensor α} {N O : Nat} {Gf : Nat → Nat → α} (hG : Is2 G N O Gf) :
    ∃ g, bcastRule .mean [O] [N, O] G = .ok g ∧
      Is1 g O (fun o => Scalar.div (sumOver N (fun n => Gf n o)) (Scalar.ofNat N)) := by
  obtain ⟨g, h1, h2⟩ := avg_along0_mat hG
  refine ⟨g, ?_, h2⟩
  unfold bcastRule
  have hl : ([N, O] : List Nat).length - ([O] : List Nat).length = 1 := rfl
  simp only [hl, bcastLead, bind, Out.bind, h1, List.drop_succ_cons, List.drop_zero, bcastExpand, ne_eq, not_true_eq_false,
    if_false]

/-- **Bias gradient as the code computes it (`mean` mode, finding D2)**: `dB[o] = (Σ_n G[n][o]) / N` — the wanted
    gradient divided by the batch size. -/
theorem fc_grad_bias_mean (g : FCGraph H w b x k N D O Wf Bf Xf) {G : Tensor α} {Gf : Nat → Nat → α} (hG : Is2 G N O Gf) :
    ∃ dB, evalPath .mean H (pathB b k) G = .ok dB ∧ dB.dims = (H.val b).dims ∧
      Is1 dB O (fun o => Scalar.div (sumOver N (fun n => Gf n o)) (Scalar.ofNat N)) := by
  obtain ⟨dB, h1, h2⟩ := bcastRule_row_mean hG
  refine ⟨dB, ?_, by rw [h2.dims, g.vb.dims], h2⟩
  have e1 : evalRule .mean H G .idG = .ok G := rfl
  have e2 : evalRule .mean H G (.bcastX b (k + 7)) = .ok dB := by
    show bcastRule .mean (H.val b).dims (H.val (k + 7)).dims G = .ok dB
    rw [g.vb.dims, g.bb.dims]; exact h1
  unfold pathB
  rw [evalPath_cons e1, evalPath_cons e2]
  rfl

/-! ## the paths are the back edges of the graph -/

theorem mkCtx_clean (H : Heap α) (ops : List Nat) (es : List (Edge α)) (hd : ∀ m ∈ ops, H.dirty m = false) :
    (mkCtx H ops es).dirty = false := by
  have h1 : ops.any H.dirty = false := by
    rw [List.any_eq_false]; intro m hm; rw [hd m hm]; simp
  unfold mkCtx
  rw [h1]
  simp only [Bool.false_eq_true, if_false]
  split <;> rfl

theorem mkCtx_live (H : Heap α) (ops : List Nat) (es : List (Edge α)) (hd : ∀ m ∈ ops, H.dirty m = false)
    (ht : ∃ m ∈ ops, H.tracked m = true) : mkCtx H ops es = { tracked := true, edges := es } := by
  have h1 : ops.any H.dirty = false := by
    rw [List.any_eq_false]; intro m hm; rw [hd m hm]; simp
  have h2 : ops.all (fun n => !H.tracked n) = false := by
    obtain ⟨m, hm, htm⟩ := ht
    rw [List.all_eq_false]
    exact ⟨m, hm, by simp [htm]⟩
  unfold mkCtx
  rw [h1, h2]
  simp

theorem ctx_clean {n : Nat} {ops : List Nat} {es : List (Edge α)} (hc : H.ctx n = mkCtx H ops es)
    (hd : ∀ m ∈ ops, H.dirty m = false) : H.dirty n = false := by
  unfold Heap.dirty; rw [hc]; exact mkCtx_clean H ops es hd

theorem ctx_live {n : Nat} {ops : List Nat} {es : List (Edge α)} (hc : H.ctx n = mkCtx H ops es)
    (hd : ∀ m ∈ ops, H.dirty m = false) (ht : ∃ m ∈ ops, H.tracked m = true) :
    H.tracked n = true ∧ (H.ctx n).edges = es := by
  unfold Heap.tracked; rw [hc, mkCtx_live H ops es hd ht]; exact ⟨rfl, rfl⟩

/-- **The three paths are paths of back edges of the graph `Forward` built**, from the result to `B`, `W`, `x`
    respectively, whenever the target is tracked and none of `W`, `B`, `x` is spent (dirty): these are exactly the
    edges `BackPropagate` follows (it only follows edges to tracked tensors). -/
theorem fc_backpaths (g : FCGraph H w b x k N D O Wf Bf Xf)
    (cw : H.dirty w = false) (cb : H.dirty b = false) (cx : H.dirty x = false) :
    (H.tracked b = true → BackPath H (k + 8) (pathB b k) b) ∧
    (H.tracked w = true → BackPath H (k + 8) (pathW w k) w) ∧
    (H.tracked x = true → BackPath H (k + 8) (pathX x k) x) := by
  -- nothing in the graph is spent
  have d0 : H.dirty k = false := ctx_clean g.c0 (by simpa using cw)
  have d1 : H.dirty (k + 1) = false := ctx_clean g.c1 (by simpa using cx)
  have d2 : H.dirty (k + 2) = false := ctx_clean g.c2 (by simpa using d0)
  have d3 : H.dirty (k + 3) = false := ctx_clean g.c3 (by simpa using d1)
  have d4 : H.dirty (k + 4) = false := ctx_clean g.c4 (by simpa using ⟨d2, d3⟩)
  have d5 : H.dirty (k + 5) = false := ctx_clean g.c5 (by simpa using d4)
  have d6 : H.dirty (k + 6) = false := ctx_clean g.c6 (by simpa using d5)
  have d7 : H.dirty (k + 7) = false := ctx_clean g.c7 (by simpa using cb)
  have c67 : ∀ m ∈ [k + 6, k + 7], H.dirty m = false := by simpa using ⟨d6, d7⟩
  have c23 : ∀ m ∈ [k + 2, k + 3], H.dirty m = false := by simpa using ⟨d2, d3⟩
  -- the common part: result → product node, given that the product node is tracked
  have common : H.tracked (k + 4) = true → ∀ (rs : List (Rule α)) (m : Nat), BackPath H (k + 4) rs m →
      BackPath H (k + 8) (pathMM k ++ rs) m := by
    intro t4 rs m hp
    obtain ⟨t5, e5⟩ := ctx_live g.c5 (by simpa using d4) ⟨k + 4, by simp, t4⟩
    obtain ⟨t6, e6⟩ := ctx_live g.c6 (by simpa using d5) ⟨k + 5, by simp, t5⟩
    obtain ⟨_, e8⟩ := ctx_live g.c8 c67 ⟨k + 6, by simp, t6⟩
    unfold pathMM
    refine .cons (t := k + 6) (by rw [e8]; simp) t6 ?_
    refine .cons (t := k + 5) (by rw [e6]; simp) t5 ?_
    exact .cons (t := k + 4) (by rw [e5]; simp) t4 hp
  refine ⟨?_, ?_, ?_⟩
  · intro tb
    obtain ⟨t7, e7⟩ := ctx_live g.c7 (by simpa using cb) ⟨b, by simp, tb⟩
    obtain ⟨_, e8⟩ := ctx_live g.c8 c67 ⟨k + 7, by simp, t7⟩
    unfold pathB
    refine .cons (t := k + 7) (by rw [e8]; simp) t7 ?_
    exact .cons (t := b) (by rw [e7]; simp) tb (.nil b)
  · intro tw
    obtain ⟨t0, e0⟩ := ctx_live g.c0 (by simpa using cw) ⟨w, by simp, tw⟩
    obtain ⟨t2, e2⟩ := ctx_live g.c2 (by simpa using d0) ⟨k, by simp, t0⟩
    obtain ⟨t4, e4⟩ := ctx_live g.c4 c23 ⟨k + 2, by simp, t2⟩
    unfold pathW
    apply common t4
    refine .cons (t := k + 2) (by rw [e4]; simp) t2 ?_
    refine .cons (t := k) (by rw [e2]; simp) t0 ?_
    exact .cons (t := w) (by rw [e0]; simp) tw (.nil w)
  · intro tx
    obtain ⟨t1, e1⟩ := ctx_live g.c1 (by simpa using cx) ⟨x, by simp, tx⟩
    obtain ⟨t3, e3⟩ := ctx_live g.c3 (by simpa using d1) ⟨k + 1, by simp, t1⟩
    obtain ⟨t4, e4⟩ := ctx_live g.c4 c23 ⟨k + 3, by simp, t3⟩
    unfold pathX
    apply common t4
    refine .cons (t := k + 3) (by rw [e4]; simp) t3 ?_
    refine .cons (t := k + 1) (by rw [e3]; simp) t1 ?_
    exact .cons (t := x) (by rw [e1]; simp) tx (.nil x)

theorem sumOver_succ (n : Nat) (f : Nat → α) : sumOver (n + 1) f = Scalar.add (sumOver n f) (f n) := by
  simp only [sumOver, List.range_succ, List.map_append, List.map_cons, List.map_nil, List.foldl_append, List.foldl_cons,
    List.foldl_nil]

end C16x
end Qeep

/-! ## Over the reals: the textbook formulas -/

namespace Qeep
namespace C16x
open RealScalar

theorem sumOver_real (n : Nat) (f : Nat → ℝ) : sumOver n f = ∑ i ∈ Finset.range n, f i := by
  induction n with
  | zero => simp [sumOver]
  | succ n ih => rw [sumOver_succ, ih, Finset.sum_range_succ]; rfl

/-- the FC formula over ℝ: `y[n][o] = W[o]·Σ_d x[n][d] + B[o]` -/
noncomputable def fcReal (D : ℕ) (W B : ℕ → ℝ) (X : ℕ → ℕ → ℝ) (n o : ℕ) : ℝ :=
  W o * (∑ d ∈ Finset.range D, X n d) + B o

/-- the scalar `Σ_{n,o} G[n][o]·y[n][o]`: a backward pass seeded with `G` must deliver its partial derivatives -/
noncomputable def fcLoss (N D O : ℕ) (G : ℕ → ℕ → ℝ) (W B : ℕ → ℝ) (X : ℕ → ℕ → ℝ) : ℝ :=
  ∑ n ∈ Finset.range N, ∑ o ∈ Finset.range O, G n o * fcReal D W B X n o

theorem hasDerivAt_double_sum (N O : ℕ) (f : ℕ → ℕ → ℝ → ℝ) (f' : ℕ → ℕ → ℝ) (a : ℝ)
    (h : ∀ n o, n < N → o < O → HasDerivAt (f n o) (f' n o) a) :
    HasDerivAt (fun t => ∑ n ∈ Finset.range N, ∑ o ∈ Finset.range O, f n o t) (∑ n ∈ Finset.range N, ∑ o ∈ Finset.range O, f' n o) a := by
  apply HasDerivAt.fun_sum
  intro n hn
  apply HasDerivAt.fun_sum
  intro o ho
  exact h n o (Finset.mem_range.mp hn) (Finset.mem_range.mp ho)

theorem fc_vjp_is_derivative (N D O : ℕ) (G : ℕ → ℕ → ℝ) (W B : ℕ → ℝ) (X : ℕ → ℕ → ℝ) :
    (∀ o', o' < O →
      HasDerivAt (fun t => fcLoss N D O G W (Function.update B o' t) X) (∑ n ∈ Finset.range N, G n o') (B o')) ∧
    (∀ o', o' < O →
      HasDerivAt (fun t => fcLoss N D O G (Function.update W o' t) B X)
        (∑ n ∈ Finset.range N, G n o' * ∑ d ∈ Finset.range D, X n d) (W o')) ∧
    (∀ n' d', n' < N → d' < D →
      HasDerivAt (fun t => fcLoss N D O G W B (Function.update X n' (Function.update (X n') d' t)))
        (∑ o ∈ Finset.range O, G n' o * W o) (X n' d')) := by
  refine ⟨?_, ?_, ?_⟩
  · intro o' ho'
    have key := hasDerivAt_double_sum N O
      (fun n o t => G n o * fcReal D W (Function.update B o' t) X n o)
      (fun n o => if o = o' then G n o else 0) (B o') (by
        intro n o _ _
        by_cases h : o = o'
        · subst h
          simp only [fcReal, Function.update_self, if_true]
          have := ((hasDerivAt_id (B o)).const_add (W o * ∑ d ∈ Finset.range D, X n d)).const_mul (G n o)
          simpa using this
        · simp only [fcReal, Function.update_of_ne h, h, if_false]
          exact hasDerivAt_const _ _)
    refine key.congr_deriv ?_
    apply Finset.sum_congr rfl
    intro n _
    rw [Finset.sum_ite_eq' (Finset.range O) o' (fun o => G n o)]
    simp [ho']
  · intro o' ho'
    have key := hasDerivAt_double_sum N O
      (fun n o t => G n o * fcReal D (Function.update W o' t) B X n o)
      (fun n o => if o = o' then G n o * ∑ d ∈ Finset.range D, X n d else 0) (W o') (by
        intro n o _ _
        by_cases h : o = o'
        · subst h
          simp only [fcReal, Function.update_self, if_true]
          have := (((hasDerivAt_id (W o)).mul_const (∑ d ∈ Finset.range D, X n d)).add_const (B o)).const_mul (G n o)
          simpa using this
        · simp only [fcReal, Function.update_of_ne h, h, if_false]
          exact hasDerivAt_const _ _)
    refine key.congr_deriv ?_
    apply Finset.sum_congr rfl
    intro n _
    rw [Finset.sum_ite_eq' (Finset.range O) o' (fun o => G n o * ∑ d ∈ Finset.range D, X n d)]
    simp [ho']
  · intro n' d' hn' hd'
    -- the row sum of the updated input
    have hrow : ∀ n, HasDerivAt (fun t => ∑ d ∈ Finset.range D, Function.update X n' (Function.update (X n') d' t) n d)
        (if n = n' then 1 else 0) (X n' d') := by
      intro n
      by_cases h : n = n'
      · subst h
        simp only [Function.update_self, if_true]
        have : ∀ d ∈ Finset.range D, HasDerivAt (fun t => Function.update (X n) d' t d) (if d = d' then 1 else 0) (X n d') := by
          intro d _
          by_cases hd : d = d'
          · subst hd; simp only [Function.update_self, if_true]; exact hasDerivAt_id _
          · simp only [Function.update_of_ne hd, hd, if_false]; exact hasDerivAt_const _ _
        have := HasDerivAt.fun_sum this
        refine this.congr_deriv ?_
        rw [Finset.sum_ite_eq' (Finset.range D) d' (fun _ => (1 : ℝ))]
        simp [hd']
      · simp only [Function.update_of_ne h, h, if_false]
        exact hasDerivAt_const _ _
    have key := hasDerivAt_double_sum N O
      (fun n o t => G n o * fcReal D W B (Function.update X n' (Function.update (X n') d' t)) n o)
      (fun n o => if n = n' then G n o * W o else 0) (X n' d') (by
        intro n o _ _
        simp only [fcReal]
        have := (((hrow n).const_mul (W o)).add_const (B o)).const_mul (G n o)
        refine this.congr_deriv ?_
        by_cases h : n = n' <;> simp [h])
    refine key.congr_deriv ?_
    have hin : ∀ n, (∑ o ∈ Finset.range O, if n = n' then G n o * W o else 0)
        = if n = n' then ∑ o ∈ Finset.range O, G n o * W o else 0 := by
      intro n; by_cases h : n = n' <;> simp [h]
    rw [Finset.sum_congr rfl (fun n _ => hin n), Finset.sum_ite_eq' (Finset.range N) n' (fun n => ∑ o ∈ Finset.range O, G n o * W o)]
    simp [hn']

/-- **FC over ℝ, forward and backward in one statement.** For every heap and all sizes: parameters `W, B : [O]`, an
    input `x : [N, D]` (well-formed, so `N, D, O ≥ 1`), and any upstream gradient `G : [N, O]`:

    * `Forward` returns `ok` with `y : [N, O]`, `y[n][o] = W[o]·Σ_d x[n][d] + B[o]`, touching nothing else;
    * the three rule paths are the back-edge paths of the graph from `y` to `B`, `W`, `x` (towards tracked targets,
      nothing spent);
    * with the `Broadcast` rule summing over the copies (`BMode.sum`, what the property demands), pulling `G` back gives
      `dB[o] = Σ_n G[n][o]`, `dW[o] = Σ_n G[n][o]·Σ_d x[n][d]`, `dx[n][d] = Σ_o G[n][o]·W[o]`, each with the shape of its
      parameter — the partial derivatives of `Σ_{n,o} G[n][o]·y[n][o]` (`fc_vjp_is_derivative`, `fc_backward_is_gradient`). -/
theorem fc_forward_backward (N D O : Nat) (w b x : Nat) (H : Heap ℝ)
    (hw : w < H.size) (hb : b < H.size) (hx : x < H.size)
    (ww : (H.val w).WF) (wb : (H.val b).WF) (wx : (H.val x).WF)
    (dw : (H.val w).dims = [O]) (db : (H.val b).dims = [O]) (dx : (H.val x).dims = [N, D])
    (G : Tensor ℝ) (wG : G.WF) (dG : G.dims = [N, O]) :
    ∃ y H', fcForward ⟨some w, some b⟩ [some x] H = .ok (y, H') ∧ Extends H H' ∧
      (H'.val y).WF ∧ (H'.val y).dims = [N, O] ∧
      (∀ n o, n < N → o < O →
        (H'.val y).el [n, o] = (H.val w).el [o] * (∑ d ∈ Finset.range D, (H.val x).el [n, d]) + (H.val b).el [o]) ∧
      -- the paths are the graph's back edges
      (H.dirty w = false → H.dirty b = false → H.dirty x = false →
        (H.tracked b = true → BackPath H' y (pathB b H.size) b) ∧
        (H.tracked w = true → BackPath H' y (pathW w H.size) w) ∧
        (H.tracked x = true → BackPath H' y (pathX x H.size) x)) ∧
      -- the gradients
      (∃ dB, evalPath .sum H' (pathB b H.size) G = .ok dB ∧ dB.WF ∧ dB.dims = (H.val b).dims ∧
        ∀ o, o < O → dB.el [o] = ∑ n ∈ Finset.range N, G.el [n, o]) ∧
      (∃ dW, evalPath .sum H' (pathW w H.size) G = .ok dW ∧ dW.WF ∧ dW.dims = (H.val w).dims ∧
        ∀ o, o < O → dW.el [o] = ∑ n ∈ Finset.range N, G.el [n, o] * ∑ d ∈ Finset.range D, (H.val x).el [n, d]) ∧
      (∃ dX, evalPath .sum H' (pathX x H.size) G = .ok dX ∧ dX.WF ∧ dX.dims = (H.val x).dims ∧
        ∀ n d, n < N → d < D → dX.el [n, d] = ∑ o ∈ Finset.range O, G.el [n, o] * (H.val w).el [o]) := by
  obtain ⟨H', h1, h2, _, g⟩ := fc_forward_graph N D O w b x H hw hb hx _ _ _
    (is1_self _ ww O dw) (is1_self _ wb O db) (is2_self _ wx N D dx)
  have hG := is2_self G wG N O dG
  have vw' : H'.val w = H.val w := h2.val hw
  have vb' : H'.val b = H.val b := h2.val hb
  have vx' : H'.val x = H.val x := h2.val hx
  refine ⟨H.size + 8, H', h1, h2, g.y.wf, g.y.dims, ?_, ?_, ?_, ?_, ?_⟩
  · intro n o hn ho
    rw [g.y.el n o hn ho, sumOver_real]
    simp only [term, add_eq, mul_eq, zero_eq, zero_add]
    rw [Finset.mul_sum]
  · intro cw cb cx
    have e := fc_backpaths g (by rw [Heap.dirty, h2.ctx hw]; exact cw) (by rw [Heap.dirty, h2.ctx hb]; exact cb)
      (by rw [Heap.dirty, h2.ctx hx]; exact cx)
    simp only [Heap.tracked, h2.ctx hw, h2.ctx hb, h2.ctx hx] at e
    exact e
  · obtain ⟨dB, e1, e2, e3⟩ := fc_grad_bias g hG
    refine ⟨dB, e1, e3.wf, by rw [e2, vb'], ?_⟩
    intro o ho
    rw [e3.el o ho, sumOver_real]
  · obtain ⟨dW, e1, e2, e3⟩ := fc_grad_weight g hG
    refine ⟨dW, e1, e3.wf, by rw [e2, vw'], ?_⟩
    intro o ho
    rw [e3.el o ho, sumOver_real]
    apply Finset.sum_congr rfl
    intro n _
    rw [sumOver_real]
    simp only [mul_eq]
    rw [Finset.mul_sum]
  · obtain ⟨dX, e1, e2, e3⟩ := fc_grad_input .sum g hG
    refine ⟨dX, e1, e3.wf, by rw [e2, vx'], ?_⟩
    intro n d hn hd
    rw [e3.el n d hn hd, sumOver_real]
    apply Finset.sum_congr rfl
    intro o _
    simp only [mul_eq]
    ring

/-- **The gradients `FC` delivers are the derivatives of its formula.** Same setting as `fc_forward_backward`; write
    `W o`, `B o`, `X n d`, `G n o` for the elements of the parameter, input and upstream-gradient tensors. Then the result
    is `y[n][o] = fcReal D W B X n o = W o·Σ_d X n d + B o`, and the tensors obtained by pulling `G` back along the three
    back-edge paths (sum mode) have the shapes of `B`, `W`, `x` and hold, at every position, the partial derivative of
    `fcLoss = Σ_{n,o} G n o · y[n][o]` with respect to the corresponding entry of `B`, `W`, `x`. -/
theorem fc_backward_is_gradient (N D O : Nat) (w b x : Nat) (H : Heap ℝ)
    (hw : w < H.size) (hb : b < H.size) (hx : x < H.size)
    (ww : (H.val w).WF) (wb : (H.val b).WF) (wx : (H.val x).WF)
    (dw : (H.val w).dims = [O]) (db : (H.val b).dims = [O]) (dx : (H.val x).dims = [N, D])
    (G : Tensor ℝ) (wG : G.WF) (dG : G.dims = [N, O])
    (W B : ℕ → ℝ) (X Gf : ℕ → ℕ → ℝ)
    (hW : W = fun o => (H.val w).el [o]) (hB : B = fun o => (H.val b).el [o])
    (hX : X = fun n d => (H.val x).el [n, d]) (hGf : Gf = fun n o => G.el [n, o]) :
    ∃ y H', fcForward ⟨some w, some b⟩ [some x] H = .ok (y, H') ∧
      (∀ n o, n < N → o < O → (H'.val y).el [n, o] = fcReal D W B X n o) ∧
      ∃ dB dW dX,
        evalPath .sum H' (pathB b H.size) G = .ok dB ∧ dB.dims = (H.val b).dims ∧
        evalPath .sum H' (pathW w H.size) G = .ok dW ∧ dW.dims = (H.val w).dims ∧
        evalPath .sum H' (pathX x H.size) G = .ok dX ∧ dX.dims = (H.val x).dims ∧
        (∀ o, o < O → HasDerivAt (fun t => fcLoss N D O Gf W (Function.update B o t) X) (dB.el [o]) (B o)) ∧
        (∀ o, o < O → HasDerivAt (fun t => fcLoss N D O Gf (Function.update W o t) B X) (dW.el [o]) (W o)) ∧
        (∀ n d, n < N → d < D →
          HasDerivAt (fun t => fcLoss N D O Gf W B (Function.update X n (Function.update (X n) d t))) (dX.el [n, d]) (X n d)) := by
  obtain ⟨y, H', h1, _, _, _, hy, _, ⟨dB, b1, _, b2, b3⟩, ⟨dW, w1, _, w2, w3⟩, ⟨dX, x1, _, x2, x3⟩⟩ :=
    fc_forward_backward N D O w b x H hw hb hx ww wb wx dw db dx G wG dG
  obtain ⟨k1, k2, k3⟩ := fc_vjp_is_derivative N D O Gf W B X
  subst hW hB hX hGf
  refine ⟨y, H', h1, ?_, dB, dW, dX, b1, b2, w1, w2, x1, x2, ?_, ?_, ?_⟩
  · intro n o hn ho
    rw [hy n o hn ho]; rfl
  · intro o ho
    rw [b3 o ho]; exact k1 o ho
  · intro o ho
    rw [w3 o ho]; exact k2 o ho
  · intro n d hn hd
    rw [x3 n d hn hd]; exact k3 n d hn hd

end C16x
end Qeep

/-! ## Non-vacuity: a concrete layer (exact integer scalars, kernel-checked) -/

namespace Qeep
namespace C16x

/-- `W = [2, 3]`, `B = [10, 20]`, `x = [[1, 2, 3], [4, 5, 7]]` (row sums 6 and 16), all tracked leaves -/
def exHeap : Heap Int :=
  #[⟨⟨[2], [2, 3]⟩, freshCtx true⟩, ⟨⟨[2], [10, 20]⟩, freshCtx true⟩, ⟨⟨[2, 3], [1, 2, 3, 4, 5, 7]⟩, freshCtx true⟩]

def exRun : Option (Heap Int × Nat) :=
  match fcForward ⟨some 0, some 1⟩ [some 2] exHeap with
  | .ok (y, H) => some (H, y)
  | _ => none

/-- `Forward` succeeds, allocates nodes 3 … 11, and `y[n][o] = W[o]·Σ_d x[n][d] + B[o]` -/
example : exRun.map (fun (H, y) => (y, H.size, H.val y)) = some (11, 12, ⟨[2, 2], [22, 38, 42, 68]⟩) := by decide

def exG : Tensor Int := ⟨[2, 2], [1, 2, 3, 4]⟩

/-- the three rule paths on that graph with upstream gradient `G = [[1,2],[3,4]]`, sum mode:
    `dB = [1+3, 2+4]`, `dW = [1·6+3·16, 2·6+4·16]`, `dx[n][·] = G[n][0]·2 + G[n][1]·3` -/
example : exRun.map (fun (H, _) =>
      (evalPath .sum H (pathB 1 3) exG, evalPath .sum H (pathW 0 3) exG, evalPath .sum H (pathX 2 3) exG))
    = some (.ok ⟨[2], [4, 6]⟩, .ok ⟨[2], [54, 76]⟩, .ok ⟨[2, 3], [8, 8, 8, 18, 18, 18]⟩) := by decide

/-- the actual `BackPropagate` (all-ones seed) on that graph, sum mode: `dW[o] = Σ_n Σ_d x[n][d] = 22`, `dB[o] = 2`,
    `dx[n][d] = W[0] + W[1] = 5`, each with its parameter's shape -/
example : exRun.map (fun (H, y) =>
      let R := backprop .sum H y
      (R.status, R.heap.grad 0, R.heap.grad 1, R.heap.grad 2))
    = some (.ok (), some ⟨[2], [22, 22]⟩, some ⟨[2], [2, 2]⟩, some ⟨[2, 3], [5, 5, 5, 5, 5, 5]⟩) := by decide

/-- … and as the code has it (`mean` mode, finding D2): `W` and `B` receive the gradient divided by the batch size 2;
    the input gradient is unaffected (no expanding `Broadcast` on its path) -/
example : exRun.map (fun (H, y) =>
      let R := backprop .mean H y
      (R.status, R.heap.grad 0, R.heap.grad 1, R.heap.grad 2))
    = some (.ok (), some ⟨[2], [11, 11]⟩, some ⟨[2], [1, 1]⟩, some ⟨[2, 3], [5, 5, 5, 5, 5, 5]⟩) := by decide

end C16x
end Qeep
