import QeepProps.C01w
import QeepProps.C16x
/-!
# C01 — gradients along a path of sole consumers

`grad_path`: in any successful walk, if a visited tensor `n` ends with the gradient `G` and `n = n₀ → n₁ → … → n_k = m` is a
path of back edges on which every `n_{i+1}` is consumed by `n_i` only (one edge from `n_i`, none from any other visited
tensor), starts without a gradient and is tracked, then `m` ends with exactly `evalPath rules G`: the rules of the path
applied in order (`C16x.evalPath`), every evaluation succeeding. With this the path-wise statements of the components
(`fc_grad_weight`, `fc_grad_bias`, …) become statements about what `BackPropagate` stores.
-/
set_option linter.unusedSimpArgs false
set_option linter.unusedSectionVars false
set_option linter.unusedVariables false

namespace Qeep
namespace C01q
open RealScalar C01 C01x C01z C01w C16x

/-- a path of back edges from `n` to `m` on which every tensor after `n` has its predecessor on the path as its only
    consumer among the tensors the walk from `root` visits -/
inductive SolePath (H : Heap ℝ) (root : Nat) : Nat → List (Rule ℝ) → Nat → Prop
  | nil (n : Nat) : SolePath H root n [] n
  | cons {n t m : Nat} {r : Rule ℝ} {rs : List (Rule ℝ)} :
      (H.ctx n).edges.filter (fun e => decide (e.target = t)) = [⟨t, r⟩] →
      (∀ v ∈ backwardOrder H root, v ≠ n → ∀ e ∈ (H.ctx v).edges, e.target ≠ t) →
      H.tracked t = true → H.grad t = none → t ≠ root →
      SolePath H root t rs m → SolePath H root n (r :: rs) m

theorem grad_path (bm : BMode) (H : Heap ℝ) (root : Nat) (hdag : HeapDag H) (htr : H.tracked root = true)
    (hok : (backprop bm H root).status = .ok ()) :
    ∀ (n m : Nat) (rs : List (Rule ℝ)), SolePath H root n rs m → ∀ (G : Tensor ℝ), n ∈ backwardOrder H root →
      (backprop bm H root).heap.grad n = some G →
      ∃ g, evalPath bm (markDirty H (backwardOrder H root)) rs G = .ok g ∧ (backprop bm H root).heap.grad m = some g ∧
        m ∈ backwardOrder H root := by
  intro n m rs hp
  induction hp with
  | nil n => intro G hn hG; exact ⟨G, rfl, hG, hn⟩
  | @cons n t m r rs hf hother htt hgt hne _ ih =>
    intro G hn hG
    obtain ⟨seedG, final, hseed, hfin, hsums, hdef, _⟩ := backprop_adjoint bm H root hdag htr hok
    obtain ⟨_, hcl, _, _⟩ := backwardOrder_spec H root hdag htr
    have hlt := order_lt_size H root hdag htr
    have hedge : (⟨t, r⟩ : Edge ℝ) ∈ (H.ctx n).edges := by
      have : (⟨t, r⟩ : Edge ℝ) ∈ (H.ctx n).edges.filter (fun e => decide (e.target = t)) := by rw [hf]; simp
      exact (List.mem_filter.mp this).1
    have hmem : t ∈ backwardOrder H root := by
      apply hcl n hn
      unfold succs
      exact List.mem_filter.mpr ⟨List.mem_map.mpr ⟨⟨t, r⟩, hedge, rfl⟩, htt⟩
    have hpair : (n, (t, r)) ∈ bpPairs H root := by
      unfold bpPairs allPairs
      apply List.mem_flatMap.mpr
      refine ⟨n, hn, List.mem_map.mpr ⟨(t, r), ?_, rfl⟩⟩
      unfold edgesOf
      exact List.mem_map.mpr ⟨⟨t, r⟩, hedge, rfl⟩
    obtain ⟨gy, g, hgy, hpull⟩ := hdef _ hpair htt
    have : gy = G := by
      have h1 := hfin n (hlt n hn)
      rw [hG, hgy] at h1
      injection h1 with h1; exact h1.symm
    subst this
    have hgt' := grad_single' bm H root hdag htr hok t n hn hne hgt htt r hf hother gy g hG hpull
    obtain ⟨g', hp', hg', hm'⟩ := ih g hmem hgt'
    exact ⟨g', by rw [evalPath_cons hpull]; exact hp', hg', hm'⟩

end C01q
end Qeep
