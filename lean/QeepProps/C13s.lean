import QeepProps.C13t
/-!
# C13 / C15 — the logistic loss: the gradient `Sigmoid → BCE` stores is the Mathlib derivative of the composite loss

`logistic_loss_deriv`: the loss of `Sigmoid → BCE` as a function of the logits,

    −(1/n) · Σₖ [tₖ·log σ(xₖ) + (1 − tₖ)·log(1 − σ(xₖ))],

has the partial derivative `(σ(xᵢ) − tᵢ)/n` with respect to `xᵢ` (Mathlib `HasDerivAt`; chain rule through `C13x.bce_formula_deriv`
and `C15x.d_sig`) — exactly the value `C13t.sigmoid_bce_backprop_el` finds at position `i` of `x.Gradient()` where `σ(xᵢ)` is
strictly inside BCE's clip band (with `t = t̂`).
-/
set_option linter.unusedSimpArgs false
set_option linter.unusedSectionVars false
set_option linter.unusedVariables false

namespace Qeep
namespace C13s
open RealScalar C13x C15x

theorem sig_pos (a : ℝ) : 0 < sig a := by
  unfold sig
  have := Real.exp_pos (-a)
  positivity

theorem sig_lt_one (a : ℝ) : sig a < 1 := by
  unfold sig
  have h := Real.exp_pos (-a)
  rw [inv_lt_one_iff₀]
  right
  linarith

/-- one summand: `d/dx [−(t·log σ(x) + (1−t)·log(1−σ(x)))] = σ(x) − t` -/
theorem logistic_summand_deriv (t a : ℝ) :
    HasDerivAt (fun x => -(t * Real.log (sig x) + (1 - t) * Real.log (1 - sig x))) (sig a - t) a := by
  have h0 := sig_pos a
  have h1 := sig_lt_one a
  have hb := bce_deriv t (sig a) h0 h1
  have hc := hb.comp a (d_sig a)
  refine (hc.congr_deriv ?_)
  have e0 : sig a ≠ 0 := ne_of_gt h0
  have e1 : 1 - sig a ≠ 0 := by linarith
  field_simp
  ring

/-- **the logistic loss** differentiated with respect to the logit `xᵢ`: `(σ(xᵢ) − tᵢ)/n` -/
theorem logistic_loss_deriv {n : ℕ} (t x : Fin n → ℝ) (i : Fin n) :
    HasDerivAt (fun s => -(1 / (n : ℝ)) * ∑ k, (t k * Real.log (sig (Function.update x i s k))
        + (1 - t k) * Real.log (1 - sig (Function.update x i s k))))
      ((sig (x i) - t i) / (n : ℝ)) (x i) := by
  have hd := logistic_summand_deriv (t i) (x i)
  have hs := hasDerivAt_sum_update (fun k y => -(t k * Real.log (sig y) + (1 - t k) * Real.log (1 - sig y))) x i _ hd
  have := hs.const_mul (1 / (n : ℝ))
  refine (this.congr_deriv (by ring)).congr_of_eventuallyEq ?_
  filter_upwards with s
  simp only [Finset.sum_neg_distrib]
  ring

end C13s
end Qeep
