import QeepProps.C04x
import QeepProps.C06y
/-! C06 — all property theorems: the base file `C06`, the round trips and extensionality of `C04x`, and `C06y`
(TensorOf: shape = nesting lengths, element at a multi-index = the nested value at that index, row-major data, rejection
of ragged / empty / uneven data characterised exactly). -/
