import QeepProps.C16z
import Mathlib.Tactic.IntervalCases
/-!
# C16 — every back edge of the FC graph accepts a gradient of its tensor's shape (either mode)

`fcShape` is the shape every gradient has at tensor `k + i` of the layer's graph; `fc_edge_ok`: for every back edge of the
graph, the rule evaluated on ANY well-formed gradient of the consumer's shape returns a well-formed gradient of the target's
shape. This is the per-edge premise of the progress theorem `C01p.backprop_ok`, in a form that can be used for a layer wherever
it sits in a network.
-/
set_option linter.unusedSimpArgs false
set_option linter.unusedSectionVars false
set_option linter.unusedVariables false

namespace Qeep
namespace C16t
open RealScalar C01 C01w C16x C16z

/-- the shape of the gradient at tensor `k + i` of an FC graph (`[N, D]` input, `O` outputs) -/
def fcShape (N D O : Nat) : Nat → List Nat
  | 0 => [O, 1]
  | 1 => [N, 1, D]
  | 2 => [N, O, 1]
  | 3 => [N, 1, D]
  | 4 => [N, O, D]
  | _ => [N, O]

/-- the shape of the gradient at the target of a back edge of node `k + i` -/
def fcTargetShape (N D O : Nat) (w b x k : Nat) (t : Nat) : List Nat :=
  if t = w ∨ t = b then [O] else if t = x then [N, D] else fcShape N D O (t - k)

theorem fc_edge_ok (bm : BMode) {H2 : Heap ℝ} {w b x k N D O : Nat} {Wf Bf : Nat → ℝ} {Xf : Nat → Nat → ℝ}
    (g : FCGraph H2 w b x k N D O Wf Bf Xf) (hwk : w < k) (hbk : b < k) (hxk : x < k) (hxw : x ≠ w) (hxb : x ≠ b)
    (i : Nat) (hi : i ≤ 8) (e : Edge ℝ) (he : e ∈ fcEdges w b x k i) (gy : Tensor ℝ) (hgy : Shaped (fcShape N D O i) gy) :
    ∃ g', evalRule bm H2 gy e.rule = .ok g' ∧ Shaped (fcTargetShape N D O w b x k e.target) g' := by
  obtain ⟨hN, hD⟩ := g.vx.pos
  have hO := g.vw.pos
  interval_cases i
  · -- UnSqueeze(W) → W
    simp [fcEdges] at he; subst he
    simp only [fcShape] at hgy
    refine ⟨⟨[O], gy.data⟩, ?_, ?_⟩
    · show vReshape gy ((H2.val w).dims.map Int.ofNat) = .ok ⟨[O], gy.data⟩
      rw [g.vw.dims]
      exact vReshape_data gy hgy.1 [O] (by simp; omega) (by rw [hgy.2]; simp [prod])
    · simp only [fcTargetShape, true_or, if_true]
      have := reshape_col (is2_self gy hgy.1 O 1 hgy.2)
      exact ⟨this.wf, this.dims⟩
  · -- UnSqueeze(x) → x
    simp [fcEdges] at he; subst he
    simp only [fcShape] at hgy
    refine ⟨⟨[N, D], gy.data⟩, ?_, ?_⟩
    · show vReshape gy ((H2.val x).dims.map Int.ofNat) = .ok ⟨[N, D], gy.data⟩
      rw [g.vx.dims]
      exact vReshape_data gy hgy.1 [N, D] (by simp; omega) (by rw [hgy.2]; simp [prod])
    · simp only [fcTargetShape, hxw, hxb, or_self, if_false, if_true]
      have := reshape_mid (is3_self gy hgy.1 N 1 D hgy.2)
      exact ⟨this.wf, this.dims⟩
  · -- Broadcast(W₁) → W₁
    simp [fcEdges] at he; subst he
    simp only [fcShape] at hgy
    obtain ⟨g5, h5, i5⟩ : ∃ g5, bcastRule bm [O, 1] [N, O, 1] gy = .ok g5 ∧ Shaped [O, 1] g5 := by
      cases bm with
      | sum => obtain ⟨g5, h5, i5⟩ := bcastRule_lead3 (is3_self gy hgy.1 N O 1 hgy.2); exact ⟨g5, h5, i5.wf, i5.dims⟩
      | mean => obtain ⟨g5, h5, i5⟩ := bcastRule_lead3_mean (is3_self gy hgy.1 N O 1 hgy.2); exact ⟨g5, h5, i5.wf, i5.dims⟩
    refine ⟨g5, ?_, ?_⟩
    · show bcastRule bm (H2.val k).dims (H2.val (k + 2)).dims gy = .ok g5
      rw [g.w1.dims, g.wb.dims]; exact h5
    · have h1 : ¬ (k = w ∨ k = b) := by omega
      have h2 : ¬ k = x := by omega
      simp only [fcTargetShape, h1, h2, if_false, Nat.sub_self, fcShape]
      exact i5
  · -- Broadcast(x₁) → x₁: equal shapes
    simp [fcEdges] at he; subst he
    simp only [fcShape] at hgy
    refine ⟨gy, ?_, ?_⟩
    · show bcastRule bm (H2.val (k + 1)).dims (H2.val (k + 3)).dims gy = .ok gy
      rw [g.xb]; exact C16x.bcastRule_same bm _ gy
    · have h1 : ¬ (k + 1 = w ∨ k + 1 = b) := by omega
      have h2 : ¬ k + 1 = x := by omega
      have h3 : k + 1 - k = 1 := by omega
      simp only [fcTargetShape, h1, h2, if_false, h3, fcShape]
      exact hgy
  · -- MatMul → both operands
    simp [fcEdges] at he
    simp only [fcShape] at hgy
    rcases he with rfl | rfl
    · have ixb : Is3 (H2.val (k + 3)) N 1 D (fun n _ d => Xf n d) := by rw [g.xb]; exact g.x1
      obtain ⟨XT, ht, iT⟩ := transpose3 ixb
      obtain ⟨g4, hm, i4⟩ := matMul3 (is3_self gy hgy.1 N O D hgy.2) iT
      refine ⟨g4, by simp only [evalRule, bind, Out.bind, ht, hm], ?_⟩
      have h1 : ¬ (k + 2 = w ∨ k + 2 = b) := by omega
      have h2 : ¬ k + 2 = x := by omega
      have h3 : k + 2 - k = 2 := by omega
      simp only [fcTargetShape, h1, h2, if_false, h3, fcShape]
      exact ⟨i4.wf, i4.dims⟩
    · obtain ⟨WT, ht, iT⟩ := transpose3 g.wb
      obtain ⟨g4, hm, i4⟩ := matMul3 iT (is3_self gy hgy.1 N O D hgy.2)
      refine ⟨g4, by simp only [evalRule, bind, Out.bind, ht, hm], ?_⟩
      have h1 : ¬ (k + 3 = w ∨ k + 3 = b) := by omega
      have h2 : ¬ k + 3 = x := by omega
      have h3 : k + 3 - k = 3 := by omega
      simp only [fcTargetShape, h1, h2, if_false, h3, fcShape]
      exact ⟨i4.wf, i4.dims⟩
  · -- SumAlong(2) → product
    simp [fcEdges] at he; subst he
    simp only [fcShape] at hgy
    obtain ⟨u, hu', iu⟩ := unsq2_mat (is2_self gy hgy.1 N O hgy.2)
    obtain ⟨G3, h3, i3⟩ := bcast_last iu D hD
    refine ⟨G3, ?_, ?_⟩
    · show reducerBroadcasted gy (H2.val (k + 4)).dims 2 = .ok G3
      rw [g.mm.dims]
      unfold reducerBroadcasted
      simp only [bind, Out.bind]
      have hu'' : vUnSqueeze gy ((2 : Nat) : Int) = .ok u := hu'
      rw [hu'']
      exact h3
    · have h1 : ¬ (k + 4 = w ∨ k + 4 = b) := by omega
      have h2 : ¬ k + 4 = x := by omega
      have h3' : k + 4 - k = 4 := by omega
      simp only [fcTargetShape, h1, h2, if_false, h3', fcShape]
      exact ⟨i3.wf, i3.dims⟩
  · -- Broadcast(sum) → sum: equal shapes
    simp [fcEdges] at he; subst he
    simp only [fcShape] at hgy
    refine ⟨gy, ?_, ?_⟩
    · show bcastRule bm (H2.val (k + 5)).dims (H2.val (k + 6)).dims gy = .ok gy
      rw [g.sb]; exact C16x.bcastRule_same bm _ gy
    · have h1 : ¬ (k + 5 = w ∨ k + 5 = b) := by omega
      have h2 : ¬ k + 5 = x := by omega
      have h3 : k + 5 - k = 5 := by omega
      simp only [fcTargetShape, h1, h2, if_false, h3, fcShape]
      exact hgy
  · -- Broadcast(B) → B
    simp [fcEdges] at he; subst he
    simp only [fcShape] at hgy
    obtain ⟨dB, q1, q2⟩ : ∃ dB, bcastRule bm [O] [N, O] gy = .ok dB ∧ Shaped [O] dB := by
      cases bm with
      | sum => obtain ⟨dB, q1, q2⟩ := bcastRule_row (is2_self gy hgy.1 N O hgy.2); exact ⟨dB, q1, q2.wf, q2.dims⟩
      | mean => obtain ⟨dB, q1, q2⟩ := bcastRule_row_mean (is2_self gy hgy.1 N O hgy.2); exact ⟨dB, q1, q2.wf, q2.dims⟩
    refine ⟨dB, ?_, ?_⟩
    · show bcastRule bm (H2.val b).dims (H2.val (k + 7)).dims gy = .ok dB
      rw [g.vb.dims, g.bb.dims]; exact q1
    · simp only [fcTargetShape, or_true, if_true]
      exact q2
  · -- the result: identity towards both Broadcast copies
    simp [fcEdges] at he
    simp only [fcShape] at hgy
    rcases he with rfl | rfl
    · refine ⟨gy, rfl, ?_⟩
      have h1 : ¬ (k + 6 = w ∨ k + 6 = b) := by omega
      have h2 : ¬ k + 6 = x := by omega
      have h3 : k + 6 - k = 6 := by omega
      simp only [fcTargetShape, h1, h2, if_false, h3, fcShape]
      exact hgy
    · refine ⟨gy, rfl, ?_⟩
      have h1 : ¬ (k + 7 = w ∨ k + 7 = b) := by omega
      have h2 : ¬ k + 7 = x := by omega
      have h3 : k + 7 - k = 7 := by omega
      simp only [fcTargetShape, h1, h2, if_false, h3, fcShape]
      exact hgy

end C16t
end Qeep
