import QeepProofs.Run
import QeepProofs.Real
/-!
# C14 — activations compute their defining function

Over `ℝ` (Mathlib), for every input shape (any rank, any dimension sizes): the activation's forward pass, run on
the heap model, succeeds, leaves every existing tensor untouched and returns a tensor of the input's shape whose
elements are the defining function of the input's elements.

Softmax (normalisation along `Dim`) is covered by the correspondence run only: its value theorem needs the
semantics of `SumAlong` + broadcasting `Div`, which is not proved yet.
-/
set_option linter.unusedSimpArgs false

namespace Qeep
namespace C14
open RealScalar

theorem zipWith_map_left {β γ δ : Type} (f : γ → β → δ) (g : β → γ) (l : List β) :
    List.zipWith f (l.map g) l = l.map (fun a => f (g a) a) := by
  induction l with
  | nil => rfl
  | cons x xs ih => simp [ih]

theorem zipWith_maps {β γ δ ε : Type} (f : γ → δ → ε) (g : β → γ) (h : β → δ) (l : List β) :
    List.zipWith f (l.map g) (l.map h) = l.map (fun a => f (g a) (h a)) := by
  induction l with
  | nil => rfl
  | cons x xs ih => simp [ih]

/-- **Relu = max(0, x)** element-wise, input's shape, for every well-formed input. -/
theorem relu_value (H : Heap ℝ) (x : Nat) (hx : x < H.size) (hwf : (H.val x).WF) :
    ∃ r H', actForward Activation.relu [some x] H = .ok (r, H') ∧ Extends H H' ∧
      H'.val r = ⟨(H.val x).dims, (H.val x).data.map (fun a => max 0 a)⟩ := by
  obtain ⟨z, H1, hz⟩ := ran_hScale x (Scalar.zero : ℝ) H
  have hxv : H1.val x = H.val x := hz.ext.val hx
  have hzw : (H1.val z).WF := by rw [hz.val]; exact map_wf _ _ hwf
  have hcmp := vCmp_same .elmax (H1.val z) (H1.val x) hzw (by rw [hxv]; exact hwf) (by rw [hz.val, hxv]; rfl)
  obtain ⟨r, H2, hr⟩ := ran_hCmp .elmax z x H1 _ hcmp
  refine ⟨r, H2, ?_, hz.ext.trans hr.ext, ?_⟩
  · unfold actForward
    rw [bind_run (show (liftOut (oneInput [some x]) : HM ℝ Nat) H = .ok (x, H) from rfl)]
    simp only []
    rw [bind_run hz.run]
    exact hr.run
  · rw [hr.val, hz.val, hxv]
    simp only [vScale, Tensor.map, Cmp.fn, zipWith_map_left]
    congr 1
    apply List.map_congr_left
    intro a _
    simp

/-- **Tanh** element-wise. -/
theorem tanh_value (H : Heap ℝ) (x : Nat) :
    ∃ r H', actForward Activation.tanh [some x] H = .ok (r, H') ∧ Extends H H' ∧
      H'.val r = ⟨(H.val x).dims, (H.val x).data.map Real.tanh⟩ := by
  obtain ⟨r, H1, hr⟩ := ran_hUnary .tanh x H
  refine ⟨r, H1, ?_, hr.ext, by rw [hr.val]; rfl⟩
  unfold actForward
  rw [bind_run (show (liftOut (oneInput [some x]) : HM ℝ Nat) H = .ok (x, H) from rfl)]
  exact hr.run

/-- **LeakyRelu = max(0,x) + m·min(0,x)** element-wise, for every slope `m`. -/
theorem leaky_value (m : ℝ) (H : Heap ℝ) (x : Nat) (hx : x < H.size) (hwf : (H.val x).WF) :
    ∃ r H', actForward (Activation.leaky m) [some x] H = .ok (r, H') ∧ Extends H H' ∧
      H'.val r = ⟨(H.val x).dims, (H.val x).data.map (fun a => max 0 a + m * min 0 a)⟩ := by
  obtain ⟨z, H1, hz⟩ := ran_hScale x (Scalar.zero : ℝ) H
  have hxv1 : H1.val x = H.val x := hz.ext.val hx
  have hzw : (H1.val z).WF := by rw [hz.val]; exact map_wf _ _ hwf
  have hxw1 : (H1.val x).WF := by rw [hxv1]; exact hwf
  have hd1 : (H1.val z).dims = (H1.val x).dims := by rw [hz.val, hxv1]; rfl
  obtain ⟨s1, H2, h1⟩ := ran_hCmp .elmax z x H1 _ (vCmp_same .elmax _ _ hzw hxw1 hd1)
  have hz2 : H2.val z = H1.val z := h1.ext.val hz.lt
  have hx2 : H2.val x = H1.val x := h1.ext.val (Nat.lt_of_lt_of_le hx hz.ext.1)
  obtain ⟨s2, H3, h2⟩ := ran_hCmp .elmin z x H2 _
    (vCmp_same .elmin _ _ (by rw [hz2]; exact hzw) (by rw [hx2]; exact hxw1) (by rw [hz2, hx2]; exact hd1))
  obtain ⟨s3, H4, h3⟩ := ran_hScale s2 m H3
  have hs1_4 : H4.val s1 = H2.val s1 := by
    rw [h3.ext.val (Nat.lt_of_lt_of_le h1.lt h2.ext.1), h2.ext.val h1.lt]
  have w1 : (H4.val s1).WF := by
    rw [hs1_4, h1.val]; exact zip_wf _ _ _ hzw hxw1 hd1
  have w3 : (H4.val s3).WF := by
    rw [h3.val, h2.val]
    exact map_wf _ _ (zip_wf _ _ _ (by rw [hz2]; exact hzw) (by rw [hx2]; exact hxw1) (by rw [hz2, hx2]; exact hd1))
  have hd : (H4.val s1).dims = (H4.val s3).dims := by
    rw [hs1_4, h1.val, h3.val, h2.val]; simp [vScale, Tensor.map, hz2]
  obtain ⟨r, H5, h4⟩ := ran_hArith_same .add s1 s3 H4
    (Nat.lt_of_lt_of_le (Nat.lt_of_lt_of_le h1.lt h2.ext.1) h3.ext.1) h3.lt w1 w3 hd
  refine ⟨r, H5, ?_, (((hz.ext.trans h1.ext).trans h2.ext).trans h3.ext).trans h4.ext, ?_⟩
  · unfold actForward
    rw [bind_run (show (liftOut (oneInput [some x]) : HM ℝ Nat) H = .ok (x, H) from rfl)]
    simp only []
    rw [bind_run hz.run, bind_run h1.run, bind_run h2.run, bind_run h3.run]
    exact h4.run
  · rw [h4.val, hs1_4, h1.val, h3.val, h2.val, hz2, hx2, hz.val, hxv1]
    simp only [vScale, Tensor.map, Cmp.fn, Arith.fn, zipWith_map_left, List.map_map]
    congr 1
    rw [zipWith_maps]
    apply List.map_congr_left
    intro a _
    simp

/-- **Sigmoid = 1 / (1 + e^{-x})** element-wise. -/
theorem sigmoid_value (H : Heap ℝ) (x : Nat) (hx : x < H.size) (hwf : (H.val x).WF) :
    ∃ r H', actForward Activation.sigmoid [some x] H = .ok (r, H') ∧ Extends H H' ∧
      H'.val r = ⟨(H.val x).dims, (H.val x).data.map (fun a => (1 + Real.exp (-a))⁻¹)⟩ := by
  obtain ⟨o, H1, ho⟩ := ran_hPow x (Scalar.zero : ℝ) H
  have hx1 : H1.val x = H.val x := ho.ext.val hx
  obtain ⟨x1, H2, h1⟩ := ran_hScale x (Scalar.neg Scalar.one : ℝ) H1
  obtain ⟨x2, H3, h2⟩ := ran_hUnary .exp x1 H2
  have ho3 : H3.val o = H1.val o := by rw [h2.ext.val (Nat.lt_of_lt_of_le ho.lt h1.ext.1), h1.ext.val ho.lt]
  have wo : (H3.val o).WF := by rw [ho3, ho.val]; exact map_wf _ _ hwf
  have wx2 : (H3.val x2).WF := by
    rw [h2.val, h1.val, hx1]; exact map_wf _ _ (map_wf _ _ hwf)
  have hd : (H3.val o).dims = (H3.val x2).dims := by
    rw [ho3, ho.val, h2.val, h1.val, hx1]; rfl
  obtain ⟨y, H4, h3⟩ := ran_hArith_same .add o x2 H3
    (Nat.lt_of_lt_of_le (Nat.lt_of_lt_of_le ho.lt h1.ext.1) h2.ext.1) h2.lt wo wx2 hd
  obtain ⟨r, H5, h4⟩ := ran_hPow y (Scalar.neg Scalar.one : ℝ) H4
  refine ⟨r, H5, ?_, (((ho.ext.trans h1.ext).trans h2.ext).trans h3.ext).trans h4.ext, ?_⟩
  · unfold actForward
    rw [bind_run (show (liftOut (oneInput [some x]) : HM ℝ Nat) H = .ok (x, H) from rfl)]
    simp only []
    rw [bind_run ho.run, bind_run h1.run, bind_run h2.run, bind_run h3.run]
    exact h4.run
  · rw [h4.val, h3.val, ho3, ho.val, h2.val, h1.val, hx1]
    simp only [vPow, vScale, vUnary, Tensor.map, Arith.fn, Unary.fn, List.map_map]
    congr 1
    rw [zipWith_maps, List.map_map]
    apply List.map_congr_left
    intro a _
    simp [Real.rpow_neg_one]

/-- non-vacuity: a well-formed input exists -/
example : ∃ H : Heap ℝ, 0 < H.size ∧ (H.val 0).WF :=
  ⟨#[⟨⟨[2], [1, -1]⟩, {}⟩], by simp, by simp [Heap.val, Tensor.WF, prod]⟩

end C14
end Qeep
